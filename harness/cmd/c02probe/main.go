package main

import (
	"encoding/json"
	"fmt"
	"os"
	"strings"

	"github.com/bytedance/sonic"
	"github.com/bytedance/sonic/ast"
	"github.com/bytedance/sonic/decoder"
)

func main() {
	ins := []string{`1 x`, `1`, ` 1 `, `[1]]`, `{"a":1}x`, `"abc`, `"` + strings.Repeat("a", 32), `"` + strings.Repeat("a", 64), `"` + strings.Repeat("a", 31), `"` + strings.Repeat("a", 33), `[1,]`, `tru`, `nul`, `-`, `01`, `1.`, `1e`, `[`, ``, ` `, "\x00", "1\x00"}
	ins = append(ins, os.Args[1:]...)
	for _, in := range ins {
		fmt.Printf("%-20q std=%v valid=%v validS=%v", trunc(in), json.Valid([]byte(in)), sonic.Valid([]byte(in)), sonic.ValidString(in))
		s, e := decoder.Skip([]byte(in))
		fmt.Printf(" skip=(%d,%d)", s, e)
		n := ast.NewRaw(in)
		fmt.Printf(" newraw.check=%v", n.Check() == nil)
		nd, err := sonic.Get([]byte(in))
		r, _ := nd.Raw()
		fmt.Printf(" get=%v/%q", err == nil, trunc(r))
		var v interface{}
		fmt.Printf(" unm.iface=%v", sonic.UnmarshalString(in, &v) == nil)
		var rm json.RawMessage
		fmt.Printf(" unm.raw=%v", sonic.UnmarshalString(in, &rm) == nil)
		var st struct{ A int `json:"a"` }
		fmt.Printf(" unm.struct=%v", sonic.UnmarshalString(in, &st) == nil)
		var an ast.Node
		fmt.Printf(" unm.node=%v", sonic.UnmarshalString(in, &an) == nil)
		fmt.Println()
	}
}
func trunc(s string) string { if len(s) > 16 { return s[:8] + ".." + fmt.Sprint(len(s)) }; return s }
