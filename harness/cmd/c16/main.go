// c16: concurrently readable ast nodes.  Built with -race.
//
//	-mode run     generate cases (document + scenario + op assignment) from the seed, run the ops concurrently on one shared
//	              node that starts raw, compare every result with the sequential reference.  Markers "CASE <n> BEGIN/END" go to
//	              stderr so that a race report (also on stderr) can be attributed to its case.
//	-mode replay  re-run the case stored in -case file.json (repeated -reps times).
package main

import (
	"bytes"
	"encoding/json"
	"errors"
	"flag"
	"fmt"
	"os"
	"sort"
	"strings"
	"sync"
	"time"

	"github.com/bytedance/sonic/ast"

	"verif/harness/internal/jgen"
	"verif/harness/internal/rng"
)

var (
	mode   = flag.String("mode", "run", "")
	seed   = flag.Uint64("seed", 1, "")
	ncase  = flag.Int("n", 300, "")
	outp   = flag.String("out", "/dev/stdout", "")
	casef  = flag.String("case", "", "")
	reps   = flag.Int("reps", 50, "")
	caseTO = flag.Int("casetimeout", 20, "seconds after which a case that has not finished is recorded as a hang")
	casesf = flag.String("cases", "", "file receiving one JSON line per generated case")
	scen   = flag.String("scenarios", "rawcr,searcher,searchercopy,load,loadall", "comma separated scenario list")
)

type Op struct {
	Path []interface{} `json:"path"` // navigation from the shared root (GetByPath), elements string | int
	Nav  string        `json:"nav"`  // "" | "Get" | "Index" | "IndexOrGet": last hop done with this accessor
	Kind string        `json:"kind"` // terminal read
}

type Case struct {
	ID       int    `json:"id"`
	Doc      string `json:"doc"`
	Scenario string `json:"scenario"`
	Threads  [][]Op `json:"threads"`
	Seed     uint64 `json:"seed"`
	Shape    string `json:"shape,omitempty"`
}

type Failure struct {
	Case   Case   `json:"case"`
	Thread int    `json:"thread"`
	Op     Op     `json:"op"`
	Got    string `json:"got"`
	Want   string `json:"want"`
}

type Report struct {
	Cases      int            `json:"cases"`
	Ops        int            `json:"ops"`
	Distinct   int            `json:"distinct_nontrivial"`
	PerKind    map[string]int `json:"per_kind"`
	PerScen    map[string]int `json:"per_scenario"`
	Goroutines map[string]int `json:"goroutines"`
	DocSize    map[string]int `json:"doc_size"`
	Outcome    map[string]int `json:"outcome"`
	Failures   []Failure      `json:"failures"`
	NFail      int            `json:"n_fail"`
	Samples    []Failure      `json:"samples"`
	Hang       *Failure       `json:"hang,omitempty"`
	Shapes     map[string]int `json:"case_shapes"`
}

var terminals = []string{"Raw", "MarshalJSON", "Interface", "InterfaceUseNumber", "Map", "MapUseNumber", "Array", "ArrayUseNumber",
	"Int64", "Float64", "String", "Bool", "Number", "Exists"}

// ------------------------------------------------------------------ building the shared node

func build(c *Case) (*ast.Node, error) {
	switch c.Scenario {
	case "rawcr":
		n := ast.NewRawConcurrentRead(c.Doc)
		return &n, nil
	case "searcher":
		s := ast.NewSearcher(`{"w":[0,` + c.Doc + `]}`)
		s.ConcurrentRead = true
		n, err := s.GetByPath("w", 1)
		return &n, err
	case "searchercopy":
		s := ast.NewSearcher(`{"w":[0,` + c.Doc + `]}`)
		s.ConcurrentRead = true
		n, err := s.GetByPathCopy("w", 1)
		return &n, err
	case "load":
		n := ast.NewRaw(c.Doc)
		err := n.Load()
		return &n, err
	case "loadall":
		n := ast.NewRaw(c.Doc)
		err := n.LoadAll()
		return &n, err
	case "lazyload0": // extra: a lazily parsed node, untouched, then Load()
		n, err := ast.NewParser(c.Doc).Parse()
		if err != 0 {
			return &n, fmt.Errorf("parse: %v", err)
		}
		e := n.Load()
		return &n, e
	case "lazyload": // extra: a lazily parsed node that was partly traversed, then Load()
		n, err := ast.NewParser(c.Doc).Parse()
		if err != 0 {
			return &n, fmt.Errorf("parse: %v", err)
		}
		n.Index(0)
		e := n.Load()
		return &n, e
	}
	return nil, fmt.Errorf("unknown scenario %s", c.Scenario)
}

// ------------------------------------------------------------------ canonical results

func errClass(err error) string {
	switch {
	case err == nil:
		return "ok"
	case errors.Is(err, ast.ErrNotExist):
		return "notexist"
	case errors.Is(err, ast.ErrUnsupportType):
		return "unsupported"
	}
	return "err"
}

// JSON text compared as a value: decoded with encoding/json (numbers kept as text) and re-encoded with sorted keys
func canonJSON(b []byte) string {
	var v interface{}
	d := json.NewDecoder(bytes.NewReader(b))
	d.UseNumber()
	if err := d.Decode(&v); err != nil {
		return "INVALID-JSON:" + fmt.Sprintf("%q", b)
	}
	if d.More() {
		return "TRAILING:" + fmt.Sprintf("%q", b)
	}
	return canonVal(v)
}

// a separate frame, so that a race report on the bytes MarshalJSON returned names the operation
//
//go:noinline
func canonOfMarshalJSON(b []byte) string { return canonJSON(b) }

func canonVal(v interface{}) string {
	var sb strings.Builder
	var walk func(v interface{})
	walk = func(v interface{}) {
		switch x := v.(type) {
		case map[string]interface{}:
			keys := make([]string, 0, len(x))
			for k := range x {
				keys = append(keys, k)
			}
			sort.Strings(keys)
			sb.WriteByte('{')
			for _, k := range keys {
				fmt.Fprintf(&sb, "%q:", k)
				walk(x[k])
				sb.WriteByte(',')
			}
			sb.WriteByte('}')
		case []interface{}:
			sb.WriteByte('[')
			for _, e := range x {
				walk(e)
				sb.WriteByte(',')
			}
			sb.WriteByte(']')
		case json.Number:
			fmt.Fprintf(&sb, "n%s", string(x))
		case float64:
			fmt.Fprintf(&sb, "f%x", x)
		case string:
			fmt.Fprintf(&sb, "%q", x)
		case nil:
			sb.WriteString("null")
		default:
			fmt.Fprintf(&sb, "%T:%v", x, x)
		}
	}
	walk(v)
	return sb.String()
}

func apply(root *ast.Node, op *Op) (res string) {
	defer func() {
		if e := recover(); e != nil {
			res = fmt.Sprintf("PANIC:%v", e)
		}
	}()
	n := root
	path := op.Path
	if op.Nav != "" && len(path) > 0 {
		n = n.GetByPath(path[:len(path)-1]...)
		last := path[len(path)-1]
		switch op.Nav {
		case "Get":
			if k, ok := last.(string); ok {
				n = n.Get(k)
			} else {
				n = n.Index(last.(int))
			}
		case "Index":
			if i, ok := last.(int); ok {
				n = n.Index(i)
			} else {
				n = n.Get(last.(string))
			}
		case "IndexOrGet":
			if k, ok := last.(string); ok {
				n = n.IndexOrGet(0, k)
			} else {
				n = n.IndexOrGet(last.(int), "\x00none")
			}
		}
	} else if len(path) > 0 {
		n = n.GetByPath(path...)
	}
	switch op.Kind {
	case "Raw":
		s, err := n.Raw()
		if err != nil {
			return errClass(err)
		}
		return "json " + canonJSON([]byte(s))
	case "MarshalJSON":
		b, err := n.MarshalJSON()
		if err != nil {
			return errClass(err)
		}
		return "json " + canonOfMarshalJSON(b)
	case "Interface":
		v, err := n.Interface()
		return errClass(err) + " " + canonVal(v)
	case "InterfaceUseNumber":
		v, err := n.InterfaceUseNumber()
		return errClass(err) + " " + canonVal(v)
	case "Map":
		v, err := n.Map()
		if err != nil {
			return errClass(err)
		}
		return "ok " + canonVal(map[string]interface{}(v))
	case "MapUseNumber":
		v, err := n.MapUseNumber()
		if err != nil {
			return errClass(err)
		}
		return "ok " + canonVal(map[string]interface{}(v))
	case "Array":
		v, err := n.Array()
		if err != nil {
			return errClass(err)
		}
		return "ok " + canonVal([]interface{}(v))
	case "ArrayUseNumber":
		v, err := n.ArrayUseNumber()
		if err != nil {
			return errClass(err)
		}
		return "ok " + canonVal([]interface{}(v))
	case "Int64":
		v, err := n.Int64()
		return fmt.Sprint(errClass(err), " ", v)
	case "Float64":
		v, err := n.Float64()
		return fmt.Sprintf("%s %x", errClass(err), v)
	case "String":
		v, err := n.String()
		return fmt.Sprintf("%s %q", errClass(err), v)
	case "Bool":
		v, err := n.Bool()
		return fmt.Sprint(errClass(err), " ", v)
	case "Number":
		v, err := n.Number()
		return fmt.Sprint(errClass(err), " ", string(v))
	case "Exists":
		return fmt.Sprint(n.Exists(), n.Valid(), n.TypeSafe())
	}
	return "unknown-kind"
}

// ------------------------------------------------------------------ case generation

func randPath(r *rng.R, v interface{}) []interface{} {
	path := []interface{}{}
	cur := v
	for depth := 0; depth < 5; depth++ {
		if r.Chance(1, 4) {
			break
		}
		switch x := cur.(type) {
		case map[string]interface{}:
			if len(x) == 0 {
				return path
			}
			if r.Chance(1, 10) {
				return append(path, "no-such-key")
			}
			keys := make([]string, 0, len(x))
			for k := range x {
				keys = append(keys, k)
			}
			sort.Strings(keys)
			k := keys[r.Intn(len(keys))]
			path = append(path, k)
			cur = x[k]
		case []interface{}:
			if len(x) == 0 {
				return path
			}
			if r.Chance(1, 10) {
				return append(path, len(x)+1)
			}
			i := r.Intn(len(x))
			path = append(path, i)
			cur = x[i]
		default:
			return path
		}
	}
	return path
}

// a document with objects of more than 16 members (the key index of linkedPairs) and, when big, long enough for the
// raw -> parsed conversion to take a while
func wideDoc(r *rng.R, big bool) string {
	var b strings.Builder
	var val func(depth int)
	obj := func(depth, n int) {
		b.WriteString("{")
		for i := 0; i < n; i++ {
			if i > 0 {
				b.WriteString(",")
			}
			if r.Chance(1, 4) {
				b.WriteString("\n  ")
			}
			fmt.Fprintf(&b, "\"k%d_%d\":", i, depth)
			val(depth + 1)
		}
		b.WriteString("}")
	}
	val = func(depth int) {
		switch k := r.Intn(10); {
		case depth < 2 && k < 2 && !(big && depth >= 1 && r.Chance(1, 2)):
			obj(depth, 17+r.Intn(12))
		case depth < 3 && k < 4:
			n := r.Intn(6)
			b.WriteString("[")
			for i := 0; i < n; i++ {
				if i > 0 {
					b.WriteString(", ")
				}
				val(depth + 1)
			}
			b.WriteString("]")
		case k < 6:
			fmt.Fprintf(&b, "%d", int64(r.U64()>>uint(r.Intn(60)))-1000)
		case k < 8:
			n := r.Intn(12)
			if big {
				n = 20 + r.Intn(160)
			}
			fmt.Fprintf(&b, "%q", strings.Repeat("s", n)+fmt.Sprint(r.Intn(99)))
		case k == 8:
			b.WriteString([]string{"true", "false", "null", "1.5e3", "-0.25"}[r.Intn(5)])
		default:
			obj(depth, r.Intn(4))
		}
	}
	n := 17 + r.Intn(24)
	if big {
		n = 30 + r.Intn(40)
	}
	obj(0, n)
	return b.String()
}

func genCase(r *rng.R, id int, scenarios []string) Case {
	o := jgen.Default
	o.MaxDepth = 4
	o.DupKeys = false // Get on duplicate keys is C14/C15's subject
	shape := []string{"mixed", "mixed", "mixed", "sequential", "wide-object", "wide-object", "window"}[r.Intn(7)]
	var doc string
	var v interface{}
	for {
		switch shape {
		case "wide-object":
			doc = wideDoc(r, false)
		case "window":
			doc = wideDoc(r, true)
		default:
			doc = strings.TrimSpace(jgen.Doc(r, &o))
			if r.Chance(2, 3) && doc[0] != '{' && doc[0] != '[' {
				continue // mostly containers
			}
		}
		d := json.NewDecoder(strings.NewReader(doc))
		d.UseNumber()
		if d.Decode(&v) == nil {
			break
		}
	}
	c := Case{ID: id, Doc: doc, Scenario: scenarios[r.Intn(len(scenarios))], Seed: r.U64(), Shape: shape}
	randOp := func() Op {
		op := Op{Path: randPath(r, v), Kind: terminals[r.Intn(len(terminals))]}
		if len(op.Path) > 0 {
			op.Nav = []string{"", "Get", "Index", "IndexOrGet"}[r.Intn(4)]
		}
		if r.Chance(1, 3) {
			op.Kind = []string{"Raw", "MarshalJSON", "Interface"}[r.Intn(3)]
		}
		return op
	}
	rootKeys := func() []string {
		m, _ := v.(map[string]interface{})
		keys := make([]string, 0, len(m))
		for k := range m {
			keys = append(keys, k)
		}
		sort.Strings(keys)
		return keys
	}
	switch shape {
	case "sequential":
		// ONE goroutine: a text read (Raw / MarshalJSON) followed by parsing accessors on the same node, then text reads again
		var ops []Op
		sub := randPath(r, v)
		for _, path := range [][]interface{}{{}, sub} {
			ops = append(ops, Op{Path: path, Kind: []string{"Raw", "MarshalJSON"}[r.Intn(2)]})
			ops = append(ops, Op{Path: path, Kind: []string{"Interface", "Map", "Array", "Int64", "String", "Exists", "InterfaceUseNumber"}[r.Intn(7)]})
			ops = append(ops, randOp())
			ops = append(ops, Op{Path: path, Kind: []string{"Raw", "MarshalJSON"}[r.Intn(2)]})
		}
		c.Threads = [][]Op{ops}
		if r.Chance(1, 3) { // the same prefix on a second goroutine
			c.Threads = append(c.Threads, append([]Op(nil), ops...))
		}
	case "wide-object":
		// many goroutines issue their FIRST Get on an object with more than 16 members at the same time
		keys := rootKeys()
		nth := 4 + r.Intn(5)
		for t := 0; t < nth; t++ {
			var ops []Op
			for k := 2 + r.Intn(5); k > 0; k-- {
				key := "no-such-key"
				if len(keys) > 0 && !r.Chance(1, 8) {
					key = keys[r.Intn(len(keys))]
				}
				op := Op{Path: []interface{}{key}, Nav: []string{"Get", "", "IndexOrGet"}[r.Intn(3)], Kind: terminals[r.Intn(len(terminals))]}
				if r.Chance(1, 3) { // one level deeper: nested wide objects get their first lookups concurrently too
					if m, ok := v.(map[string]interface{})[key].(map[string]interface{}); ok && len(m) > 0 {
						sub := make([]string, 0, len(m))
						for k2 := range m {
							sub = append(sub, k2)
						}
						sort.Strings(sub)
						op.Path = []interface{}{key, sub[r.Intn(len(sub))]}
					}
				}
				ops = append(ops, op)
			}
			c.Threads = append(c.Threads, ops)
		}
	case "window":
		// a big document: one or two goroutines start the raw -> parsed conversion while the others read the text
		nth := 5 + r.Intn(4)
		for t := 0; t < nth; t++ {
			var ops []Op
			if t < 1+r.Intn(2) {
				ops = append(ops, Op{Kind: []string{"Interface", "Map", "Exists"}[r.Intn(3)], Path: []interface{}{}, Nav: ""})
				if keys := rootKeys(); len(keys) > 0 {
					ops[0] = Op{Path: []interface{}{keys[r.Intn(len(keys))]}, Nav: "Get", Kind: "Exists"}
				}
			} else {
				for k := r.Intn(4); k > 0; k-- { // stagger the readers a little
					ops = append(ops, Op{Path: []interface{}{"no-such-key-xx"}, Kind: "Exists", Nav: ""})
				}
				ops = append(ops, Op{Path: []interface{}{}, Kind: []string{"MarshalJSON", "MarshalJSON", "Raw"}[r.Intn(3)]})
			}
			ops = append(ops, randOp(), Op{Path: []interface{}{}, Kind: "MarshalJSON"})
			c.Threads = append(c.Threads, ops)
		}
	default:
		nth := 1 + r.Intn(8)
		for t := 0; t < nth; t++ {
			var ops []Op
			for k := 1 + r.Intn(6); k > 0; k-- {
				ops = append(ops, randOp())
			}
			c.Threads = append(c.Threads, ops)
		}
	}
	return c
}

// ------------------------------------------------------------------ running

func normPath(c *Case) {
	// JSON round trip turns ints into float64: restore
	for _, th := range c.Threads {
		for i := range th {
			for j, p := range th[i].Path {
				if f, ok := p.(float64); ok {
					th[i].Path[j] = int(f)
				}
			}
		}
	}
}

// reference: every op alone on a fresh node built the same way
func reference(c *Case) ([][]string, error) {
	out := make([][]string, len(c.Threads))
	for t, ops := range c.Threads {
		for i := range ops {
			root, err := build(c)
			if err != nil {
				return nil, err
			}
			out[t] = append(out[t], apply(root, &ops[i]))
		}
	}
	return out, nil
}

func runConcurrent(c *Case) ([][]string, error) {
	root, err := build(c)
	if err != nil {
		return nil, err
	}
	out := make([][]string, len(c.Threads))
	var wg sync.WaitGroup
	start := make(chan struct{})
	for t := range c.Threads {
		wg.Add(1)
		go func(t int) {
			defer wg.Done()
			<-start
			res := make([]string, len(c.Threads[t]))
			for i := range c.Threads[t] {
				res[i] = apply(root, &c.Threads[t][i])
			}
			out[t] = res
		}(t)
	}
	close(start)
	wg.Wait()
	// the shared node afterwards, read sequentially
	final := apply(root, &Op{Kind: "Interface"})
	fresh, _ := build(c)
	if want := apply(fresh, &Op{Kind: "Interface"}); final != want {
		return out, fmt.Errorf("final node differs from the sequential one: got %s want %s", final, want)
	}
	return out, nil
}

func runCase(c *Case, rep *Report) {
	fmt.Fprintf(os.Stderr, "CASE %d BEGIN\n", c.ID)
	defer fmt.Fprintf(os.Stderr, "CASE %d END\n", c.ID)
	// watchdog: a case whose goroutines do not finish is a hang (a leaked lock, a lost wake-up): record it and stop
	type both struct {
		ref, got   [][]string
		rerr, gerr error
	}
	done := make(chan both, 1)
	stage := "sequential reference (each operation alone on a fresh node)"
	var stageMu sync.Mutex
	go func() {
		var b both
		b.ref, b.rerr = reference(c)
		if b.rerr == nil {
			stageMu.Lock()
			stage = "operations of the case on the shared node"
			stageMu.Unlock()
			b.got, b.gerr = runConcurrent(c)
		}
		done <- b
	}()
	var res both
	select {
	case res = <-done:
	case <-time.After(time.Duration(*caseTO) * time.Second):
		stageMu.Lock()
		st := stage
		stageMu.Unlock()
		fmt.Fprintf(os.Stderr, "CASE %d HANG\n", c.ID)
		rep.Hang = &Failure{Case: *c, Thread: -1, Got: fmt.Sprintf("hang: not finished after %d s in: %s", *caseTO, st)}
		rep.NFail++
		writeReport(rep)
		os.Exit(5)
	}
	ref, err := res.ref, res.rerr
	if err != nil {
		rep.Outcome["build-error"]++
		return
	}
	got, err := res.got, res.gerr
	if err != nil {
		rep.NFail++
		if len(rep.Failures) < 20 {
			rep.Failures = append(rep.Failures, Failure{Case: *c, Thread: -1, Got: err.Error()})
		}
	}
	for t := range c.Threads {
		for i := range c.Threads[t] {
			rep.Ops++
			rep.PerKind[c.Threads[t][i].Kind]++
			if i >= len(got[t]) {
				continue
			}
			if strings.HasPrefix(ref[t][i], "ok") || strings.HasPrefix(ref[t][i], "json") {
				rep.Outcome["value"]++
			} else {
				rep.Outcome["error-result"]++
			}
			if got[t][i] != ref[t][i] {
				rep.NFail++
				if len(rep.Failures) < 20 {
					rep.Failures = append(rep.Failures, Failure{*c, t, c.Threads[t][i], got[t][i], ref[t][i]})
				}
			} else if len(rep.Samples) < 5 && rep.Ops%97 == 1 {
				cc := *c
				cc.Threads = nil
				rep.Samples = append(rep.Samples, Failure{cc, t, c.Threads[t][i], got[t][i], ref[t][i]})
			}
		}
	}
}

func writeReport(rep *Report) {
	writeReport(rep)
}

func sizeBucket(n int) string {
	switch {
	case n < 16:
		return "<16"
	case n < 64:
		return "16-63"
	case n < 256:
		return "64-255"
	case n < 1024:
		return "256-1023"
	case n < 16384:
		return "1024-16383"
	}
	return ">=16384"
}

func main() {
	flag.Parse()
	rep := &Report{PerKind: map[string]int{}, PerScen: map[string]int{}, Goroutines: map[string]int{}, DocSize: map[string]int{},
		Outcome: map[string]int{}, Failures: []Failure{}, Samples: []Failure{}, Shapes: map[string]int{}}
	switch *mode {
	case "run":
		r := rng.New(*seed)
		scenarios := strings.Split(*scen, ",")
		seen := map[string]bool{}
		var cf *os.File
		if *casesf != "" {
			var err error
			if cf, err = os.Create(*casesf); err != nil {
				panic(err)
			}
			defer cf.Close()
		}
		for i := 0; i < *ncase; i++ {
			c := genCase(r, i, scenarios)
			if cf != nil {
				b, _ := json.Marshal(c)
				cf.Write(append(b, '\n'))
			}
			rep.Cases++
			rep.PerScen[c.Scenario]++
			rep.Shapes[c.Shape]++
			rep.Goroutines[fmt.Sprint(len(c.Threads))]++
			rep.DocSize[sizeBucket(len(c.Doc))]++
			if !seen[c.Doc+c.Scenario] && len(c.Doc) > 2 {
				seen[c.Doc+c.Scenario] = true
				rep.Distinct++
			}
			runCase(&c, rep)
		}
	case "replay":
		raw, err := os.ReadFile(*casef)
		if err != nil {
			panic(err)
		}
		var c Case
		if err := json.Unmarshal(raw, &c); err != nil {
			panic(err)
		}
		normPath(&c)
		for i := 0; i < *reps; i++ {
			rep.Cases++
			runCase(&c, rep)
		}
	default:
		fmt.Fprintln(os.Stderr, "unknown mode")
		os.Exit(2)
	}
	b, _ := json.MarshalIndent(rep, "", " ")
	if err := os.WriteFile(*outp, b, 0o644); err != nil {
		panic(err)
	}
}
