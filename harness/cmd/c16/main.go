// c16: concurrently readable ast nodes.  Built with -race.
//
//	-mode run     generate cases (document + scenario + op assignment) from the seed, run the ops concurrently on one shared
//	              node that starts raw, compare every result with the sequential reference.  Markers "CASE <n> BEGIN/END" go to
//	              stderr so that a race report (also on stderr) can be attributed to its case.
//	-mode replay  re-run the case stored in -case file.json (repeated -reps times).
package main

import (
	"bytes"
	"encoding/json"
	"errors"
	"flag"
	"fmt"
	"os"
	"sort"
	"strings"
	"sync"

	"github.com/bytedance/sonic/ast"

	"verif/harness/internal/jgen"
	"verif/harness/internal/rng"
)

var (
	mode   = flag.String("mode", "run", "")
	seed   = flag.Uint64("seed", 1, "")
	ncase  = flag.Int("n", 300, "")
	outp   = flag.String("out", "/dev/stdout", "")
	casef  = flag.String("case", "", "")
	reps   = flag.Int("reps", 50, "")
	casesf = flag.String("cases", "", "file receiving one JSON line per generated case")
	scen   = flag.String("scenarios", "rawcr,searcher,load,loadall", "comma separated scenario list")
)

type Op struct {
	Path []interface{} `json:"path"` // navigation from the shared root (GetByPath), elements string | int
	Nav  string        `json:"nav"`  // "" | "Get" | "Index" | "IndexOrGet": last hop done with this accessor
	Kind string        `json:"kind"` // terminal read
}

type Case struct {
	ID       int    `json:"id"`
	Doc      string `json:"doc"`
	Scenario string `json:"scenario"`
	Threads  [][]Op `json:"threads"`
	Seed     uint64 `json:"seed"`
}

type Failure struct {
	Case   Case   `json:"case"`
	Thread int    `json:"thread"`
	Op     Op     `json:"op"`
	Got    string `json:"got"`
	Want   string `json:"want"`
}

type Report struct {
	Cases      int            `json:"cases"`
	Ops        int            `json:"ops"`
	Distinct   int            `json:"distinct_nontrivial"`
	PerKind    map[string]int `json:"per_kind"`
	PerScen    map[string]int `json:"per_scenario"`
	Goroutines map[string]int `json:"goroutines"`
	DocSize    map[string]int `json:"doc_size"`
	Outcome    map[string]int `json:"outcome"`
	Failures   []Failure      `json:"failures"`
	NFail      int            `json:"n_fail"`
	Samples    []Failure      `json:"samples"`
}

var terminals = []string{"Raw", "MarshalJSON", "Interface", "InterfaceUseNumber", "Map", "MapUseNumber", "Array", "ArrayUseNumber",
	"Int64", "Float64", "String", "Bool", "Number", "Exists"}

// ------------------------------------------------------------------ building the shared node

func build(c *Case) (*ast.Node, error) {
	switch c.Scenario {
	case "rawcr":
		n := ast.NewRawConcurrentRead(c.Doc)
		return &n, nil
	case "searcher":
		s := ast.NewSearcher(`{"w":[0,` + c.Doc + `]}`)
		s.ConcurrentRead = true
		n, err := s.GetByPath("w", 1)
		return &n, err
	case "load":
		n := ast.NewRaw(c.Doc)
		err := n.Load()
		return &n, err
	case "loadall":
		n := ast.NewRaw(c.Doc)
		err := n.LoadAll()
		return &n, err
	case "lazyload0": // extra: a lazily parsed node, untouched, then Load()
		n, err := ast.NewParser(c.Doc).Parse()
		if err != 0 {
			return &n, fmt.Errorf("parse: %v", err)
		}
		e := n.Load()
		return &n, e
	case "lazyload": // extra: a lazily parsed node that was partly traversed, then Load()
		n, err := ast.NewParser(c.Doc).Parse()
		if err != 0 {
			return &n, fmt.Errorf("parse: %v", err)
		}
		n.Index(0)
		e := n.Load()
		return &n, e
	}
	return nil, fmt.Errorf("unknown scenario %s", c.Scenario)
}

// ------------------------------------------------------------------ canonical results

func errClass(err error) string {
	switch {
	case err == nil:
		return "ok"
	case errors.Is(err, ast.ErrNotExist):
		return "notexist"
	case errors.Is(err, ast.ErrUnsupportType):
		return "unsupported"
	}
	return "err"
}

// JSON text compared as a value: decoded with encoding/json (numbers kept as text) and re-encoded with sorted keys
func canonJSON(b []byte) string {
	var v interface{}
	d := json.NewDecoder(bytes.NewReader(b))
	d.UseNumber()
	if err := d.Decode(&v); err != nil {
		return "INVALID-JSON:" + fmt.Sprintf("%q", b)
	}
	if d.More() {
		return "TRAILING:" + fmt.Sprintf("%q", b)
	}
	return canonVal(v)
}

// a separate frame, so that a race report on the bytes MarshalJSON returned names the operation
//
//go:noinline
func canonOfMarshalJSON(b []byte) string { return canonJSON(b) }

func canonVal(v interface{}) string {
	var sb strings.Builder
	var walk func(v interface{})
	walk = func(v interface{}) {
		switch x := v.(type) {
		case map[string]interface{}:
			keys := make([]string, 0, len(x))
			for k := range x {
				keys = append(keys, k)
			}
			sort.Strings(keys)
			sb.WriteByte('{')
			for _, k := range keys {
				fmt.Fprintf(&sb, "%q:", k)
				walk(x[k])
				sb.WriteByte(',')
			}
			sb.WriteByte('}')
		case []interface{}:
			sb.WriteByte('[')
			for _, e := range x {
				walk(e)
				sb.WriteByte(',')
			}
			sb.WriteByte(']')
		case json.Number:
			fmt.Fprintf(&sb, "n%s", string(x))
		case float64:
			fmt.Fprintf(&sb, "f%x", x)
		case string:
			fmt.Fprintf(&sb, "%q", x)
		case nil:
			sb.WriteString("null")
		default:
			fmt.Fprintf(&sb, "%T:%v", x, x)
		}
	}
	walk(v)
	return sb.String()
}

func apply(root *ast.Node, op *Op) (res string) {
	defer func() {
		if e := recover(); e != nil {
			res = fmt.Sprintf("PANIC:%v", e)
		}
	}()
	n := root
	path := op.Path
	if op.Nav != "" && len(path) > 0 {
		n = n.GetByPath(path[:len(path)-1]...)
		last := path[len(path)-1]
		switch op.Nav {
		case "Get":
			if k, ok := last.(string); ok {
				n = n.Get(k)
			} else {
				n = n.Index(last.(int))
			}
		case "Index":
			if i, ok := last.(int); ok {
				n = n.Index(i)
			} else {
				n = n.Get(last.(string))
			}
		case "IndexOrGet":
			if k, ok := last.(string); ok {
				n = n.IndexOrGet(0, k)
			} else {
				n = n.IndexOrGet(last.(int), "\x00none")
			}
		}
	} else if len(path) > 0 {
		n = n.GetByPath(path...)
	}
	switch op.Kind {
	case "Raw":
		s, err := n.Raw()
		if err != nil {
			return errClass(err)
		}
		return "json " + canonJSON([]byte(s))
	case "MarshalJSON":
		b, err := n.MarshalJSON()
		if err != nil {
			return errClass(err)
		}
		return "json " + canonOfMarshalJSON(b)
	case "Interface":
		v, err := n.Interface()
		return errClass(err) + " " + canonVal(v)
	case "InterfaceUseNumber":
		v, err := n.InterfaceUseNumber()
		return errClass(err) + " " + canonVal(v)
	case "Map":
		v, err := n.Map()
		if err != nil {
			return errClass(err)
		}
		return "ok " + canonVal(map[string]interface{}(v))
	case "MapUseNumber":
		v, err := n.MapUseNumber()
		if err != nil {
			return errClass(err)
		}
		return "ok " + canonVal(map[string]interface{}(v))
	case "Array":
		v, err := n.Array()
		if err != nil {
			return errClass(err)
		}
		return "ok " + canonVal([]interface{}(v))
	case "ArrayUseNumber":
		v, err := n.ArrayUseNumber()
		if err != nil {
			return errClass(err)
		}
		return "ok " + canonVal([]interface{}(v))
	case "Int64":
		v, err := n.Int64()
		return fmt.Sprint(errClass(err), " ", v)
	case "Float64":
		v, err := n.Float64()
		return fmt.Sprintf("%s %x", errClass(err), v)
	case "String":
		v, err := n.String()
		return fmt.Sprintf("%s %q", errClass(err), v)
	case "Bool":
		v, err := n.Bool()
		return fmt.Sprint(errClass(err), " ", v)
	case "Number":
		v, err := n.Number()
		return fmt.Sprint(errClass(err), " ", string(v))
	case "Exists":
		return fmt.Sprint(n.Exists(), n.Valid(), n.TypeSafe())
	}
	return "unknown-kind"
}

// ------------------------------------------------------------------ case generation

func randPath(r *rng.R, v interface{}) []interface{} {
	path := []interface{}{}
	cur := v
	for depth := 0; depth < 5; depth++ {
		if r.Chance(1, 4) {
			break
		}
		switch x := cur.(type) {
		case map[string]interface{}:
			if len(x) == 0 {
				return path
			}
			if r.Chance(1, 10) {
				return append(path, "no-such-key")
			}
			keys := make([]string, 0, len(x))
			for k := range x {
				keys = append(keys, k)
			}
			sort.Strings(keys)
			k := keys[r.Intn(len(keys))]
			path = append(path, k)
			cur = x[k]
		case []interface{}:
			if len(x) == 0 {
				return path
			}
			if r.Chance(1, 10) {
				return append(path, len(x)+1)
			}
			i := r.Intn(len(x))
			path = append(path, i)
			cur = x[i]
		default:
			return path
		}
	}
	return path
}

func genCase(r *rng.R, id int, scenarios []string) Case {
	o := jgen.Default
	o.MaxDepth = 4
	o.DupKeys = false // Get on duplicate keys is C14/C15's subject
	var doc string
	var v interface{}
	for {
		doc = strings.TrimSpace(jgen.Doc(r, &o))
		if r.Chance(2, 3) && doc[0] != '{' && doc[0] != '[' {
			continue // mostly containers
		}
		d := json.NewDecoder(strings.NewReader(doc))
		d.UseNumber()
		if d.Decode(&v) == nil {
			break
		}
	}
	c := Case{ID: id, Doc: doc, Scenario: scenarios[r.Intn(len(scenarios))], Seed: r.U64()}
	nth := 2 + r.Intn(7)
	for t := 0; t < nth; t++ {
		var ops []Op
		for k := 1 + r.Intn(6); k > 0; k-- {
			op := Op{Path: randPath(r, v), Kind: terminals[r.Intn(len(terminals))]}
			if len(op.Path) > 0 {
				op.Nav = []string{"", "Get", "Index", "IndexOrGet"}[r.Intn(4)]
			}
			if r.Chance(1, 3) {
				op.Kind = []string{"Raw", "MarshalJSON", "Interface"}[r.Intn(3)]
			}
			ops = append(ops, op)
		}
		c.Threads = append(c.Threads, ops)
	}
	return c
}

// ------------------------------------------------------------------ running

func normPath(c *Case) {
	// JSON round trip turns ints into float64: restore
	for _, th := range c.Threads {
		for i := range th {
			for j, p := range th[i].Path {
				if f, ok := p.(float64); ok {
					th[i].Path[j] = int(f)
				}
			}
		}
	}
}

// reference: every op alone on a fresh node built the same way
func reference(c *Case) ([][]string, error) {
	out := make([][]string, len(c.Threads))
	for t, ops := range c.Threads {
		for i := range ops {
			root, err := build(c)
			if err != nil {
				return nil, err
			}
			out[t] = append(out[t], apply(root, &ops[i]))
		}
	}
	return out, nil
}

func runConcurrent(c *Case) ([][]string, error) {
	root, err := build(c)
	if err != nil {
		return nil, err
	}
	out := make([][]string, len(c.Threads))
	var wg sync.WaitGroup
	start := make(chan struct{})
	for t := range c.Threads {
		wg.Add(1)
		go func(t int) {
			defer wg.Done()
			<-start
			res := make([]string, len(c.Threads[t]))
			for i := range c.Threads[t] {
				res[i] = apply(root, &c.Threads[t][i])
			}
			out[t] = res
		}(t)
	}
	close(start)
	wg.Wait()
	// the shared node afterwards, read sequentially
	final := apply(root, &Op{Kind: "Interface"})
	fresh, _ := build(c)
	if want := apply(fresh, &Op{Kind: "Interface"}); final != want {
		return out, fmt.Errorf("final node differs from the sequential one: got %s want %s", final, want)
	}
	return out, nil
}

func runCase(c *Case, rep *Report) {
	fmt.Fprintf(os.Stderr, "CASE %d BEGIN\n", c.ID)
	defer fmt.Fprintf(os.Stderr, "CASE %d END\n", c.ID)
	ref, err := reference(c)
	if err != nil {
		rep.Outcome["build-error"]++
		return
	}
	got, err := runConcurrent(c)
	if err != nil {
		rep.NFail++
		if len(rep.Failures) < 20 {
			rep.Failures = append(rep.Failures, Failure{Case: *c, Thread: -1, Got: err.Error()})
		}
	}
	for t := range c.Threads {
		for i := range c.Threads[t] {
			rep.Ops++
			rep.PerKind[c.Threads[t][i].Kind]++
			if i >= len(got[t]) {
				continue
			}
			if strings.HasPrefix(ref[t][i], "ok") || strings.HasPrefix(ref[t][i], "json") {
				rep.Outcome["value"]++
			} else {
				rep.Outcome["error-result"]++
			}
			if got[t][i] != ref[t][i] {
				rep.NFail++
				if len(rep.Failures) < 20 {
					rep.Failures = append(rep.Failures, Failure{*c, t, c.Threads[t][i], got[t][i], ref[t][i]})
				}
			} else if len(rep.Samples) < 5 && rep.Ops%97 == 1 {
				cc := *c
				cc.Threads = nil
				rep.Samples = append(rep.Samples, Failure{cc, t, c.Threads[t][i], got[t][i], ref[t][i]})
			}
		}
	}
}

func sizeBucket(n int) string {
	switch {
	case n < 16:
		return "<16"
	case n < 64:
		return "16-63"
	case n < 256:
		return "64-255"
	case n < 1024:
		return "256-1023"
	}
	return ">=1024"
}

func main() {
	flag.Parse()
	rep := &Report{PerKind: map[string]int{}, PerScen: map[string]int{}, Goroutines: map[string]int{}, DocSize: map[string]int{},
		Outcome: map[string]int{}, Failures: []Failure{}, Samples: []Failure{}}
	switch *mode {
	case "run":
		r := rng.New(*seed)
		scenarios := strings.Split(*scen, ",")
		seen := map[string]bool{}
		var cf *os.File
		if *casesf != "" {
			var err error
			if cf, err = os.Create(*casesf); err != nil {
				panic(err)
			}
			defer cf.Close()
		}
		for i := 0; i < *ncase; i++ {
			c := genCase(r, i, scenarios)
			if cf != nil {
				b, _ := json.Marshal(c)
				cf.Write(append(b, '\n'))
			}
			rep.Cases++
			rep.PerScen[c.Scenario]++
			rep.Goroutines[fmt.Sprint(len(c.Threads))]++
			rep.DocSize[sizeBucket(len(c.Doc))]++
			if !seen[c.Doc+c.Scenario] && len(c.Doc) > 2 {
				seen[c.Doc+c.Scenario] = true
				rep.Distinct++
			}
			runCase(&c, rep)
		}
	case "replay":
		raw, err := os.ReadFile(*casef)
		if err != nil {
			panic(err)
		}
		var c Case
		if err := json.Unmarshal(raw, &c); err != nil {
			panic(err)
		}
		normPath(&c)
		for i := 0; i < *reps; i++ {
			rep.Cases++
			runCase(&c, rep)
		}
	default:
		fmt.Fprintln(os.Stderr, "unknown mode")
		os.Exit(2)
	}
	b, _ := json.MarshalIndent(rep, "", " ")
	if err := os.WriteFile(*outp, b, 0o644); err != nil {
		panic(err)
	}
}
