// c10: the metadata sonic hands to the Go runtime, and real generated code under GC / stack-growth / traceback stress.
//
//	-mode tables    random pc-value tables: loader.Pcdata.MarshalBinary (real) + a Go transcription of runtime.pcvalue;
//	                writes the case file for the Coq model and the implementation's result lines
//	-mode runtime   loads stub functions whose pcline table is the case table (loader.Load) and asks the REAL runtime
//	                (runtime.FuncForPC(pc).FileLine) for the value at every probed pc
//	-mode stackmap  random pointer maps through rt.StackMapBuilder / BitVec.Bit (hook loader.VerifStackMap)
//	-mode jit       pcsp tables of really generated encoders / decoders (hook verifx.DecoderTable / EncoderTable)
//	-mode gc        child process: Marshal / Unmarshal with callbacks that collect, walk the stack, grow the stack
package main

import (
	"bytes"
	"encoding/hex"
	"encoding/json"
	"flag"
	"fmt"
	"io"
	"os"
	"reflect"
	"runtime"
	"runtime/debug"
	"runtime/pprof"
	"runtime/trace"
	"strings"
	"sync"
	"sync/atomic"
	"time"
	"unicode/utf8"
	"unsafe"

	"github.com/bytedance/sonic"
	"github.com/bytedance/sonic/loader"
	"github.com/bytedance/sonic/option"
	"github.com/bytedance/sonic/verifx"

	"verif/harness/internal/rng"
)

var (
	mode  = flag.String("mode", "tables", "")
	seed  = flag.Uint64("seed", 1, "")
	n     = flag.Int("n", 1000, "")
	outp  = flag.String("out", "/dev/stdout", "")
	casef = flag.String("cases", "", "model case file")
	noenc = flag.Bool("noenc", false, "gc mode: encode with encoding/json only (the generated ENCODER is not run); used with SONIC_SYNC_GC, see notes/C10.md")
	lines = flag.Bool("lines", false, "tables mode: shift every value so that the table is a legal line-number table (all values >= 1)")
)

// ------------------------------------------------------------------ pc-value tables

type entry struct {
	pc  uint32
	val int32
}

func genTable(r *rng.R) ([]entry, string) {
	kind := []string{"wf", "wf", "wf", "equal-values", "zero-dp", "first-minus-one", "big-deltas", "mixed"}[r.Intn(8)]
	k := 1 + r.Intn(7)
	var t []entry
	pc := uint32(0)
	val := int32(-1)
	for i := 0; i < k; i++ {
		dp := uint32(1 + r.Intn(40))
		nv := val
		for nv == val {
			nv = int32(r.Intn(64)*8) - int32(r.Intn(3))*8
		}
		switch kind {
		case "equal-values":
			if r.Chance(1, 2) && i > 0 {
				nv = val
			}
		case "zero-dp":
			if r.Chance(1, 3) {
				dp = 0
			}
		case "first-minus-one":
			if i == 0 {
				nv = -1
			}
		case "big-deltas":
			dp = uint32(r.Intn(1 << 20))
			nv = int32(r.Intn(1<<24)) - 1<<23
			if nv == val {
				nv++
			}
			if dp == 0 {
				dp = 129
			}
		case "mixed":
			if r.Chance(1, 4) {
				dp = 0
			}
			if r.Chance(1, 4) {
				nv = val
			}
			if r.Chance(1, 6) {
				nv = -1
			}
		}
		pc += dp
		t = append(t, entry{pc, nv})
		val = nv
	}
	return t, kind
}

func targets(t []entry) []uint32 {
	seen := map[uint32]bool{}
	var out []uint32
	add := func(x uint32) {
		if !seen[x] {
			seen[x] = true
			out = append(out, x)
		}
	}
	add(0)
	for _, e := range t {
		if e.pc > 0 {
			add(e.pc - 1)
		}
		add(e.pc)
		add(e.pc + 1)
	}
	return out
}

// transcription of runtime/symtab.go readvarint / step / pcvalue (go1.23), entry = 0; ok=false: table exhausted
func readvarint(p []byte) (read uint32, val uint32, ok bool) {
	var v, shift, n uint32
	for {
		if int(n) >= len(p) {
			return n, v, false
		}
		b := p[n]
		n++
		v |= uint32(b&0x7F) << (shift & 31)
		if b&0x80 == 0 {
			break
		}
		shift += 7
	}
	return n, v, true
}

func step(p []byte, pc *uint64, val *int32, first bool) (newp []byte, ok bool) {
	if len(p) == 0 {
		return nil, false
	}
	uvdelta := uint32(p[0])
	if uvdelta == 0 && !first {
		return nil, false
	}
	n := uint32(1)
	if uvdelta&0x80 != 0 {
		var good bool
		n, uvdelta, good = readvarint(p)
		if !good {
			return nil, false
		}
	}
	*val += int32(-(uvdelta & 1) ^ (uvdelta >> 1))
	p = p[n:]
	if len(p) == 0 {
		return nil, false
	}
	pcdelta := uint32(p[0])
	n = 1
	if pcdelta&0x80 != 0 {
		var good bool
		n, pcdelta, good = readvarint(p)
		if !good {
			return nil, false
		}
	}
	p = p[n:]
	*pc += uint64(pcdelta)
	return p, true
}

func pcvalue(tab []byte, target uint64) (int32, bool) {
	p := tab
	pc := uint64(0)
	val := int32(-1)
	for i := 0; i <= len(tab); i++ {
		var ok bool
		p, ok = step(p, &pc, &val, pc == 0)
		if !ok {
			break
		}
		if target < pc {
			return val, true
		}
	}
	return 0, false
}

func marshal(t []entry) (b []byte, err string) {
	defer func() {
		if e := recover(); e != nil {
			err = fmt.Sprint(e)
		}
	}()
	pd := make(loader.Pcdata, len(t))
	for i, e := range t {
		pd[i] = loader.Pcvalue{PC: e.pc, Val: e.val}
	}
	b, _ = pd.MarshalBinary()
	return b, ""
}

func joinU(xs []uint32) string {
	s := make([]string, len(xs))
	for i, x := range xs {
		s[i] = fmt.Sprint(x)
	}
	if len(s) == 0 {
		return "-"
	}
	return strings.Join(s, ",")
}

func caseLine(t []entry, tg []uint32) string {
	pcs := make([]string, len(t))
	vals := make([]string, len(t))
	for i, e := range t {
		pcs[i] = fmt.Sprint(e.pc)
		vals[i] = fmt.Sprint(e.val)
	}
	return fmt.Sprintf("pc\t%s\t%s\t%s", strings.Join(pcs, ","), strings.Join(vals, ","), joinU(tg))
}

func implLine(t []entry, tg []uint32) string {
	b, err := marshal(t)
	if err != "" {
		return "pc\tpanic"
	}
	res := make([]string, len(tg))
	for i, x := range tg {
		if v, ok := pcvalue(b, uint64(x)); ok {
			res[i] = fmt.Sprint(v)
		} else {
			res[i] = "none"
		}
	}
	return fmt.Sprintf("pc\t%s\t%s", hex.EncodeToString(b), strings.Join(res, ","))
}

type report struct {
	Evaluations int            `json:"evaluations"`
	Distinct    int            `json:"distinct_nontrivial"`
	Kinds       map[string]int `json:"kinds"`
	Sizes       map[string]int `json:"sizes"`
	Notes       []string       `json:"notes"`
	Failures    []string       `json:"failures"`
}

func writeLines(path string, lines []string) {
	if err := os.WriteFile(path, []byte(strings.Join(lines, "\n")+"\n"), 0o644); err != nil {
		panic(err)
	}
}

func tablesMode() {
	r := rng.New(*seed)
	rep := report{Kinds: map[string]int{}, Sizes: map[string]int{}}
	var cases, impl []string
	seen := map[string]bool{}
	fixed := [][]entry{
		{{10, 0}, {20, 0}, {30, 8}}, // the skip-rule witness
		{{64, -1}},                  // PCDATA_UnsafePointSafe over the whole function
		{{64, -2}},                  // PCDATA_UnsafePointUnsafe
		{{7, 0}, {6331, 280}, {6332, 0}, {8389, 280}}, // a real decoder table
		{{12, 0}, {40, 232}, {44, 0}, {96, 232}},
		{},
	}
	for i := 0; i < *n+len(fixed); i++ {
		var t []entry
		kind := "fixed"
		if i < len(fixed) {
			t = fixed[i]
		} else {
			t, kind = genTable(r)
		}
		if *lines {
			t = append([]entry(nil), t...)
			for j := range t {
				t[j].val += 1<<23 + 100
			}
		}
		tg := targets(t)
		cl := caseLine(t, tg)
		cases = append(cases, cl)
		impl = append(impl, implLine(t, tg))
		rep.Evaluations += len(tg)
		rep.Kinds[kind]++
		rep.Sizes[fmt.Sprint(len(t))]++
		if !seen[cl] && len(t) > 0 {
			seen[cl] = true
			rep.Distinct++
		}
	}
	writeLines(*casef, cases)
	writeLines(*outp, impl)
	b, _ := json.Marshal(rep)
	os.WriteFile(*outp+".json", b, 0o644)
}

// ------------------------------------------------------------------ the real runtime's decoder on loaded stubs

func parseCase(line string) ([]entry, []uint32) {
	f := strings.Split(line, "\t")
	var t []entry
	if f[1] != "" {
		ps := strings.Split(f[1], ",")
		vs := strings.Split(f[2], ",")
		for i := range ps {
			var e entry
			fmt.Sscan(ps[i], &e.pc)
			fmt.Sscan(vs[i], &e.val)
			t = append(t, e)
		}
	}
	var tg []uint32
	if f[3] != "-" {
		for _, s := range strings.Split(f[3], ",") {
			var x uint32
			fmt.Sscan(s, &x)
			tg = append(tg, x)
		}
	}
	return t, tg
}

// runtimeMode: for every case whose table ends at a positive PC and whose values are positive line numbers, load a stub
// of that many bytes with Pcline = table and read every target pc back through runtime.FuncForPC(...).FileLine.
func runtimeMode() {
	raw, err := os.ReadFile(*casef)
	if err != nil {
		panic(err)
	}
	var out []string
	k := 0
	for _, line := range strings.Split(strings.TrimSpace(string(raw)), "\n") {
		t, tg := parseCase(line)
		if len(t) == 0 || t[len(t)-1].pc == 0 || t[len(t)-1].pc > 1<<16 {
			out = append(out, "rt\tskip")
			continue
		}
		okv := true
		for _, e := range t {
			if e.val < 1 { // line numbers: keep them positive (the runtime treats -1 as "unknown")
				okv = false
			}
		}
		if !okv {
			out = append(out, "rt\tskip")
			continue
		}
		size := t[len(t)-1].pc
		text := bytes.Repeat([]byte{0x90}, int(size))
		text[size-1] = 0xc3
		pd := make(loader.Pcdata, len(t))
		for i, e := range t {
			pd[i] = loader.Pcvalue{PC: e.pc, Val: e.val}
		}
		fn := loader.Func{
			Name:            fmt.Sprintf("verif_stub_%d", k),
			TextSize:        size,
			Pcsp:            &loader.Pcdata{{PC: size, Val: 0}},
			Pcfile:          &loader.Pcdata{{PC: size, Val: 0}},
			Pcline:          &pd,
			PcUnsafePoint:   &loader.Pcdata{{PC: size, Val: loader.PCDATA_UnsafePointUnsafe}},
			PcStackMapIndex: &loader.Pcdata{{PC: size, Val: 0}},
		}
		fns := loader.Load(text, []loader.Func{fn}, fmt.Sprintf("verif.stub.%d", k), []string{"stub.go"})
		k++
		entryPC := **(**uintptr)(unsafe.Pointer(&fns[0]))
		res := make([]string, 0, len(tg))
		for _, x := range tg {
			if x >= size {
				res = append(res, "none")
				continue
			}
			f := runtime.FuncForPC(entryPC + uintptr(x))
			if f == nil {
				res = append(res, "nofunc")
				continue
			}
			_, ln := f.FileLine(entryPC + uintptr(x))
			if ln == 0 { // funcline1: pcvalue found no range covering the pc (-1) -> ("?", 0)
				res = append(res, "none")
			} else {
				res = append(res, fmt.Sprint(ln))
			}
		}
		out = append(out, "rt\t"+strings.Join(res, ","))
	}
	writeLines(*outp, out)
}

// ------------------------------------------------------------------ stack maps

func stackmapMode() {
	r := rng.New(*seed)
	var cases, impl []string
	for i := 0; i < *n; i++ {
		l := r.Intn(70)
		if i < 40 {
			l = i
		}
		if r.Chance(1, 10) {
			l = 100 + r.Intn(200)
		}
		bits := make([]bool, l)
		var sb strings.Builder
		for j := range bits {
			switch {
			case i%7 == 0:
				bits[j] = true
			case i%7 == 1:
				bits[j] = false
			default:
				bits[j] = r.Bool()
			}
			if bits[j] {
				sb.WriteByte('1')
			} else {
				sb.WriteByte('0')
			}
		}
		s := sb.String()
		if s == "" {
			s = "-"
		}
		cases = append(cases, "sm\t"+s)
		nb, lb, data, back := loader.VerifStackMap(bits)
		var rb strings.Builder
		for _, x := range back {
			rb.WriteByte('0' + x)
		}
		h := hex.EncodeToString(data)
		if h == "" {
			h = "-"
		}
		rs := rb.String()
		if rs == "" {
			rs = "-"
		}
		impl = append(impl, fmt.Sprintf("sm\t%d\t%d\t%s\t%s", nb, lb, h, rs))
	}
	writeLines(*casef, cases)
	writeLines(*outp, impl)
}

// ------------------------------------------------------------------ really generated tables

type leaf struct {
	A int
	B string
	C []byte
	D map[string]interface{}
	E *leaf
	F float64
	G interface{}
	H []string
	I [3]int16
	J json.Number
	K bool
}

type callbackM struct{ X int }

func (c callbackM) MarshalJSON() ([]byte, error) {
	stress()
	return []byte(fmt.Sprintf(`{"X":%d}`, c.X)), nil
}
func (c *callbackM) UnmarshalJSON(b []byte) error {
	stress()
	var t struct{ X int }
	err := json.Unmarshal(b, &t)
	c.X = t.X
	return err
}

type callbackT struct{ S string }

func (c callbackT) MarshalText() ([]byte, error) { stress(); return []byte("t:" + c.S), nil }
func (c *callbackT) UnmarshalText(b []byte) error {
	stress()
	c.S = strings.TrimPrefix(string(b), "t:")
	return nil
}

// a map KEY type with text methods: the generated decoder allocates the key, parks it in the hidden `vk` argument slot and
// calls UnmarshalText; the callback collects and churns the heap AFTER its last use of the receiver
type tkey struct{ S string }

func (k tkey) MarshalText() ([]byte, error) { stress(); return []byte("k:" + k.S), nil }
func (k *tkey) UnmarshalText(b []byte) error {
	k.S = strings.TrimPrefix(string(b), "k:")
	stress()
	churn()
	return nil
}

// churn frees and re-fills the small size classes so that an object the collector wrongly released is overwritten
func churn() {
	junk := make([]*tkey, 0, 512)
	for i := 0; i < 512; i++ {
		junk = append(junk, &tkey{S: "junk"})
	}
	runtime.GC()
	for i := range junk {
		junk[i] = &tkey{S: "JUNK"}
	}
	runtime.KeepAlive(junk)
}

type big struct {
	MK  map[tkey]int
	MKP map[tkey]*leaf
	L   leaf
	P   *leaf
	S   []leaf
	M   map[string]*leaf
	CM  callbackM
	PCM *callbackM
	CT  callbackT
	MT  map[string]callbackT
	SM  []callbackM
	Any interface{}
	Str string `json:"str,omitempty"`
	N   int64  `json:"n,string"`
}

func catalogue() []reflect.Type {
	ts := []reflect.Type{
		reflect.TypeOf(0), reflect.TypeOf(""), reflect.TypeOf([]int{}), reflect.TypeOf(map[string]int{}), reflect.TypeOf(leaf{}),
		reflect.TypeOf(&leaf{}), reflect.TypeOf(big{}), reflect.TypeOf([]big{}), reflect.TypeOf(map[string][]leaf{}), reflect.TypeOf(new(interface{})).Elem(),
		reflect.TypeOf([4]string{}), reflect.TypeOf(callbackM{}), reflect.TypeOf(callbackT{}), reflect.TypeOf(struct{}{}), reflect.TypeOf(json.RawMessage{}),
		reflect.TypeOf(map[int]string{}), reflect.TypeOf([]interface{}{}), reflect.TypeOf(float32(0)), reflect.TypeOf(uint8(0)), reflect.TypeOf([]*int{}),
	}
	return ts
}

func randStruct(r *rng.R, depth int) reflect.Type {
	prim := []reflect.Type{reflect.TypeOf(0), reflect.TypeOf(""), reflect.TypeOf(1.5), reflect.TypeOf(true), reflect.TypeOf([]byte{}), reflect.TypeOf(uint16(0)),
		reflect.TypeOf(new(interface{})).Elem(), reflect.TypeOf(json.Number("")), reflect.TypeOf(callbackM{}), reflect.TypeOf(callbackT{})}
	var gen func(d int) reflect.Type
	gen = func(d int) reflect.Type {
		if d <= 0 || r.Chance(1, 3) {
			return prim[r.Intn(len(prim))]
		}
		switch r.Intn(6) {
		case 0:
			return reflect.SliceOf(gen(d - 1))
		case 1:
			return reflect.MapOf(reflect.TypeOf(""), gen(d-1))
		case 2:
			return reflect.PtrTo(gen(d - 1))
		case 3:
			return reflect.ArrayOf(1+r.Intn(3), gen(d-1))
		default:
			nf := 1 + r.Intn(6)
			fs := make([]reflect.StructField, nf)
			for i := range fs {
				fs[i] = reflect.StructField{Name: fmt.Sprintf("F%d", i), Type: gen(d - 1)}
				if r.Chance(1, 4) {
					fs[i].Tag = reflect.StructTag(fmt.Sprintf(`json:"f%d,omitempty"`, i))
				}
			}
			return reflect.StructOf(fs)
		}
	}
	return gen(depth)
}

func jitMode() {
	r := rng.New(*seed)
	ts := catalogue()
	for i := 0; i < *n; i++ {
		ts = append(ts, randStruct(r, 3))
	}
	var cases, impl, info []string
	for _, vt := range ts {
		var tabs []verifx.JitTable
		if t, err := verifx.DecoderTable(vt); err == nil {
			tabs = append(tabs, t)
		}
		if t, err := verifx.EncoderTable(vt, false); err == nil {
			tabs = append(tabs, t)
		}
		if vt.Kind() != reflect.Ptr {
			if t, err := verifx.EncoderTable(vt, true); err == nil {
				tabs = append(tabs, t)
			}
		}
		for _, t := range tabs {
			es := make([]entry, len(t.PCs))
			for i := range es {
				es[i] = entry{t.PCs[i], t.Vals[i]}
			}
			tg := targets(es)
			cases = append(cases, caseLine(es, tg))
			impl = append(impl, implLine(es, tg))
			covers := len(es) > 0 && int(es[len(es)-1].pc) == t.TextSize
			ap := ""
			for _, b := range t.ArgPtrs {
				if b {
					ap += "1"
				} else {
					ap += "0"
				}
			}
			info = append(info, fmt.Sprintf("%s\t%d\t%d\t%v\t%s\t%d\t%d", t.Kind, t.TextSize, len(es), covers, ap, len(t.LocalPtrs), t.ArgSize))
		}
	}
	writeLines(*casef, cases)
	writeLines(*outp, impl)
	writeLines(*outp+".info", info)
}

// ------------------------------------------------------------------ GC / stack growth / traceback stress

// garbage kept alive for a while; guarded by sinkMu (the stress callbacks run on several goroutines)
var (
	sink   [][]byte
	sinkMu sync.Mutex
)

func keep(n, size int) {
	sinkMu.Lock()
	for i := 0; i < n; i++ {
		sink = append(sink, make([]byte, size))
	}
	if len(sink) > 256 {
		sink = nil
	}
	sinkMu.Unlock()
}

var stressStats struct {
	sync.Mutex
	frames, jitFrames, gcs, grows int
}

//go:noinline
func grow(n int, pad [128]byte) byte {
	if n == 0 {
		return pad[0]
	}
	pad[n%128]++
	return grow(n-1, pad) + pad[1]
}

// what the callbacks do: 0 = collect / walk / grow (gc mode), 1 = block under the profilers (prof mode),
// 2 = resolve the names of all frames (names mode)
var stressKind int32

var (
	pmu       sync.Mutex
	nameStats struct {
		sync.Mutex
		jit   int
		bad   []string
		names map[string]int
	}
)

// blocky parks the goroutine - with generated frames below it - on a channel, a contended mutex and a timer
func blocky() {
	ch := make(chan int)
	go func() { time.Sleep(50 * time.Microsecond); ch <- 1 }()
	<-ch
	pmu.Lock()
	pmu.Unlock()
	time.Sleep(20 * time.Microsecond)
	stressStats.Lock()
	stressStats.gcs++
	stressStats.Unlock()
}

func saneName(n string) bool {
	if !utf8.ValidString(n) || n == "" {
		return false
	}
	for _, c := range n {
		if c < 0x20 || c == 0x7f {
			return false
		}
	}
	return strings.HasPrefix(n, "encode_") || strings.HasPrefix(n, "decode_") || strings.HasPrefix(n, "sonic.jit.")
}

// resolveNames walks the stack and resolves every frame's function name the way tracebacks do
func resolveNames() {
	pcs := make([]uintptr, 64)
	k := runtime.Callers(0, pcs)
	fr := runtime.CallersFrames(pcs[:k])
	st := string(debug.Stack())
	for {
		f, more := fr.Next()
		if f.File == "?" { // generated code carries no line table: its frames have no file
			nameStats.Lock()
			nameStats.jit++
			if nameStats.names == nil {
				nameStats.names = map[string]int{}
			}
			nameStats.names[f.Function]++
			fn := runtime.FuncForPC(f.PC)
			if !saneName(f.Function) || fn == nil || fn.Name() != f.Function || !strings.Contains(st, f.Function+"(") {
				if len(nameStats.bad) < 5 {
					nameStats.bad = append(nameStats.bad, fmt.Sprintf("%q", f.Function))
				}
			}
			nameStats.Unlock()
		}
		if !more {
			break
		}
	}
	stressStats.Lock()
	stressStats.gcs++
	stressStats.Unlock()
}

// stress is called from inside user callbacks, i.e. with generated frames on the stack
func stress() {
	switch atomic.LoadInt32(&stressKind) {
	case 1:
		blocky()
		return
	case 2:
		resolveNames()
		return
	}
	// traceback through the generated frames
	pcs := make([]uintptr, 64)
	k := runtime.Callers(0, pcs)
	jit := 0
	fr := runtime.CallersFrames(pcs[:k])
	for {
		f, more := fr.Next()
		if fn := runtime.FuncForPC(f.PC); fn != nil {
			name := fn.Name()
			_, _ = fn.FileLine(f.PC)
			if strings.Contains(name, "sonic.jit") || strings.Contains(name, "encode_") || strings.Contains(name, "decode_") {
				jit++
			}
		}
		if !more {
			break
		}
	}
	_ = debug.Stack()
	// collect, with fresh garbage around
	keep(8, 1024)
	runtime.GC()
	// move the stack
	var pad [128]byte
	_ = grow(600, pad)
	stressStats.Lock()
	stressStats.frames += k
	stressStats.jitFrames += jit
	stressStats.gcs++
	stressStats.grows++
	stressStats.Unlock()
}

func sampleBig(r *rng.R) big {
	lf := func() leaf {
		return leaf{A: r.Intn(1000), B: fmt.Sprintf("s%d-%s", r.Intn(99), strings.Repeat("x", r.Intn(40))), C: []byte{1, 2, byte(r.Intn(255))},
			D: map[string]interface{}{"k": float64(r.Intn(9)), "l": []interface{}{"a", nil, true}}, F: float64(r.Intn(1000)) / 8, G: "g",
			H: []string{"h1", strings.Repeat("h", r.Intn(70))}, I: [3]int16{1, -2, int16(r.Intn(300))}, J: json.Number(fmt.Sprint(r.Intn(1 << 30))), K: r.Bool()}
	}
	l2 := lf()
	l1 := lf()
	l1.E = &l2
	pc := callbackM{r.Intn(50)}
	b := big{L: l1, P: &l2, M: map[string]*leaf{"a": &l1, "b": nil}, CM: callbackM{r.Intn(99)}, PCM: &pc, CT: callbackT{"ct" + fmt.Sprint(r.Intn(9))},
		MT: map[string]callbackT{"x": {"mx"}, "y": {"my"}}, Any: map[string]interface{}{"deep": []interface{}{1.5, "two", map[string]interface{}{"z": nil}}},
		Str: "str", N: int64(r.Intn(1 << 40)),
		MK:  map[tkey]int{{"a" + fmt.Sprint(r.Intn(99))}: 1, {"b"}: 2, {strings.Repeat("k", 1+r.Intn(30))}: r.Intn(9)},
		MKP: map[tkey]*leaf{{"p" + fmt.Sprint(r.Intn(9))}: &l2, {"q"}: nil}}
	for i := r.Intn(4); i >= 0; i-- {
		b.S = append(b.S, lf())
		b.SM = append(b.SM, callbackM{i})
	}
	return b
}

func gcMode() {
	r := rng.New(*seed)
	fail := func(f string, a ...interface{}) {
		fmt.Printf("MISMATCH "+f+"\n", a...)
		os.Exit(3)
	}
	var rounds int64
	work := func(r *rng.R, iters int) {
		for i := 0; i < iters; i++ {
			v := sampleBig(r)
			// encode with the generated encoder; the standard library is the oracle
			want, err2 := json.Marshal(&v)
			var got []byte
			var err error
			if *noenc {
				// SONIC_SYNC_GC makes the generated encoder call println_wrapper between OP_map_iter and OP_save, where
				// the fresh map iterator lives in a register only: not GC-safe by construction of the debug hook
				got, err = append([]byte(nil), want...), err2
			} else {
				got, err = sonic.ConfigStd.Marshal(&v)
			}
			if (err == nil) != (err2 == nil) {
				fail("marshal error sonic=%v std=%v", err, err2)
			}
			runtime.GC()
			if !bytes.Equal(got, want) {
				fail("marshal differs\n sonic=%s\n   std=%s", got, want)
			}
			// decode with the generated decoder, then force collections and re-check the whole value
			var a, b big
			if err := sonic.ConfigStd.Unmarshal(got, &a); err != nil {
				fail("unmarshal error %v on %s", err, got)
			}
			// the input buffer is dropped and overwritten: decoded strings must not depend on it (ConfigStd copies)
			for j := range got {
				got[j] = 'Z'
			}
			got = nil
			runtime.GC()
			keep(4, 4096)
			runtime.GC()
			debug.FreeOSMemory()
			if err := json.Unmarshal(want, &b); err != nil {
				fail("std unmarshal error %v", err)
			}
			if !reflect.DeepEqual(a, b) {
				ja, _ := json.Marshal(a)
				jb, _ := json.Marshal(b)
				fail("decoded value changed / differs after collections\n sonic=%s\n   std=%s", ja, jb)
			}
			// generic value path
			var ia, ib interface{}
			if err := sonic.Unmarshal(want, &ia); err != nil {
				fail("unmarshal iface %v", err)
			}
			runtime.GC()
			json.Unmarshal(want, &ib)
			if !reflect.DeepEqual(ia, ib) {
				fail("interface{} value differs after collection")
			}
			atomic.AddInt64(&rounds, 1)
		}
	}
	var wg sync.WaitGroup
	for g := 0; g < 3; g++ {
		wg.Add(1)
		rr := r.Fork(uint64(g))
		go func() {
			defer wg.Done()
			work(rr, *n)
		}()
	}
	work(r, *n)
	wg.Wait()
	stressStats.Lock()
	fmt.Printf("OK rounds=%d callbacks=%d frames=%d jit_frames=%d\n", atomic.LoadInt64(&rounds), stressStats.gcs, stressStats.frames, stressStats.jitFrames)
	stressStats.Unlock()
}

// roundTrip: one Marshal + Unmarshal of a sample value through generated code, checked against encoding/json
func roundTrip(r *rng.R) string {
	v := sampleBig(r)
	got, err := sonic.ConfigStd.Marshal(&v)
	want, err2 := json.Marshal(&v)
	if err != nil || err2 != nil || !bytes.Equal(got, want) {
		return fmt.Sprintf("marshal differs: %v %v\n sonic=%s\n   std=%s", err, err2, got, want)
	}
	var a, b big
	if err := sonic.ConfigStd.Unmarshal(want, &a); err != nil {
		return fmt.Sprintf("unmarshal error %v", err)
	}
	json.Unmarshal(want, &b)
	if !reflect.DeepEqual(a, b) {
		ja, _ := json.Marshal(a)
		jb, _ := json.Marshal(b)
		return fmt.Sprintf("decoded value differs\n sonic=%s\n   std=%s", ja, jb)
	}
	return ""
}

// profMode: callbacks inside generated encoder and decoder frames block (channel, mutex, timer) while the block profiler,
// the mutex profiler, the execution tracer and the CPU profiler are on - the frame-pointer and pcsp unwinders cross
// generated frames
func profMode() {
	atomic.StoreInt32(&stressKind, 1)
	runtime.SetBlockProfileRate(1)
	runtime.SetMutexProfileFraction(1)
	var tb, cb bytes.Buffer
	if err := trace.Start(&tb); err != nil {
		panic(err)
	}
	if err := pprof.StartCPUProfile(&cb); err != nil {
		panic(err)
	}
	stop := make(chan struct{})
	go func() { // keeps pmu contended
		for {
			select {
			case <-stop:
				return
			default:
			}
			pmu.Lock()
			time.Sleep(30 * time.Microsecond)
			pmu.Unlock()
			time.Sleep(30 * time.Microsecond)
		}
	}()
	deadline := time.Now().Add(time.Duration(*n) * 100 * time.Millisecond)
	var wg sync.WaitGroup
	var rounds int64
	var failure atomic.Value
	for g := 0; g < 3; g++ {
		wg.Add(1)
		rr := rng.New(*seed + uint64(g))
		go func() {
			defer wg.Done()
			for time.Now().Before(deadline) {
				if msg := roundTrip(rr); msg != "" {
					failure.Store(msg)
					return
				}
				atomic.AddInt64(&rounds, 1)
			}
		}()
	}
	wg.Wait()
	close(stop)
	pprof.StopCPUProfile()
	trace.Stop()
	pprof.Lookup("block").WriteTo(io.Discard, 1)
	pprof.Lookup("mutex").WriteTo(io.Discard, 1)
	pprof.Lookup("goroutine").WriteTo(io.Discard, 2)
	if m := failure.Load(); m != nil {
		fmt.Printf("MISMATCH %s\n", m)
		os.Exit(3)
	}
	fmt.Printf("OK rounds=%d callbacks=%d trace_bytes=%d cpu_profile_bytes=%d\n", rounds, stressStats.gcs, tb.Len(), cb.Len())
}

// namesMode: many types compiled in ONE module (PretouchMany: names such as encode_map[string][]main.leaf contain
// brackets), then tracebacks from callbacks that resolve the function names of the generated frames
func namesMode() {
	atomic.StoreInt32(&stressKind, 2)
	types := []reflect.Type{reflect.TypeOf(map[string][]callbackM{}), reflect.TypeOf([]callbackM{}), reflect.TypeOf([3]callbackT{}),
		reflect.TypeOf(map[string]map[string][2]callbackM{}), reflect.TypeOf(big{}), reflect.TypeOf([]map[string]leaf{}),
		reflect.TypeOf(leaf{}), reflect.TypeOf(map[tkey][]int{}), reflect.TypeOf([4][]string{}), reflect.TypeOf(callbackM{}), reflect.TypeOf(map[string]callbackT{})}
	if err := sonic.PretouchMany(types, option.WithCompileRecursiveDepth(4), option.WithCompileMaxInlineDepth(1)); err != nil {
		fmt.Printf("MISMATCH pretouch: %v\n", err)
		os.Exit(3)
	}
	r := rng.New(*seed)
	vals := []interface{}{
		map[string][]callbackM{"a": {{1}, {2}}, "b": nil},
		[]callbackM{{3}},
		[3]callbackT{{"x"}, {"y"}, {"z"}},
		map[string]map[string][2]callbackM{"m": {"n": {{4}, {5}}}},
		map[tkey][]int{{"k"}: {1, 2}},
		map[string]callbackT{"t": {"u"}},
	}
	for i := 0; i < *n; i++ {
		if msg := roundTrip(r); msg != "" {
			fmt.Printf("MISMATCH %s\n", msg)
			os.Exit(3)
		}
		for _, v := range vals {
			got, err := sonic.ConfigStd.Marshal(v)
			want, _ := json.Marshal(v)
			if err != nil || !bytes.Equal(got, want) {
				fmt.Printf("MISMATCH marshal %T: %v %s vs %s\n", v, err, got, want)
				os.Exit(3)
			}
			pv := reflect.New(reflect.TypeOf(v))
			if err := sonic.ConfigStd.Unmarshal(want, pv.Interface()); err != nil || !reflect.DeepEqual(pv.Elem().Interface(), v) {
				fmt.Printf("MISMATCH unmarshal %T: %v\n", v, err)
				os.Exit(3)
			}
		}
	}
	nameStats.Lock()
	defer nameStats.Unlock()
	if len(nameStats.bad) > 0 || nameStats.jit == 0 {
		fmt.Printf("MISMATCH function names of generated frames do not resolve: bad=%v jit_frames=%d\n", nameStats.bad, nameStats.jit)
		os.Exit(3)
	}
	brack := 0
	for nm := range nameStats.names {
		if strings.Contains(nm, "[...]") {
			brack++
		}
	}
	fmt.Printf("OK jit_frames=%d distinct_names=%d bracket_names=%d callbacks=%d\n", nameStats.jit, len(nameStats.names), brack, stressStats.gcs)
}

// funcnameMode: random name lists through loader.makeFuncnameTab (hook)
func funcnameMode() {
	r := rng.New(*seed)
	pieces := []string{"encode_", "decode_", "map[string]", "[]", "[3]", "main.T", "int", "[", "]", "x", "struct { A []int }", "*", "github.com/a/b.T[int]", "", "é"}
	var cases, impl []string
	for i := 0; i < *n; i++ {
		k := r.Intn(6)
		if i == 0 {
			k = 0
		}
		names := make([]string, k)
		hexs := make([]string, k)
		for j := range names {
			var sb strings.Builder
			for m := r.Intn(5); m >= 0; m-- {
				sb.WriteString(pieces[r.Intn(len(pieces))])
			}
			names[j] = sb.String()
			hexs[j] = hex.EncodeToString([]byte(names[j]))
			if hexs[j] == "" {
				hexs[j] = "-"
			}
		}
		tab, offs := loader.VerifFuncnameTab(names)
		os2 := make([]string, len(offs))
		for j, o := range offs {
			os2[j] = fmt.Sprint(o)
		}
		cl := "fn\t" + strings.Join(hexs, ",")
		if k == 0 {
			cl = "fn\t"
		}
		cases = append(cases, cl)
		impl = append(impl, fmt.Sprintf("fn\t%s\t%s", hex.EncodeToString(tab), strings.Join(os2, ",")))
	}
	writeLines(*casef, cases)
	writeLines(*outp, impl)
}

func main() {
	flag.Parse()
	switch *mode {
	case "tables":
		tablesMode()
	case "runtime":
		runtimeMode()
	case "stackmap":
		stackmapMode()
	case "jit":
		jitMode()
	case "gc":
		gcMode()
	case "prof":
		profMode()
	case "names":
		namesMode()
	case "funcname":
		funcnameMode()
	default:
		fmt.Fprintln(os.Stderr, "unknown mode")
		os.Exit(2)
	}
}
