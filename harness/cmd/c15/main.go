// c15: operation histories on the real ast.Node.
//
//	-mode gen   generate cases from the seed (documents + op sequences guided by the current state of the real node),
//	            execute them, write the case file (input of the Coq-extracted model / plain-tree spec) and the
//	            implementation's log
//	-mode run   execute the cases of an existing case file (corpus, shrinking, replay)
//
// case line : id TAB rootrepr TAB tree TAB keys TAB ops TAB texthex
// log line  : id TAB step|step|...   step = obs~dump~abs   (dump/abs/trees are hashed unless -full)
package main

import (
	"encoding/hex"
	"encoding/json"
	"flag"
	"fmt"
	"os"
	"sort"
	"strconv"
	"strings"

	"github.com/bytedance/sonic/ast"

	"verif/harness/internal/out"
	"verif/harness/internal/rng"
)

var (
	mode   = flag.String("mode", "gen", "")
	seed   = flag.Uint64("seed", 1, "")
	ncases = flag.Int("n", 100, "")
	maxlen = flag.Int("len", 60, "")
	casesF = flag.String("cases", "", "")
	implF  = flag.String("impl", "", "")
	full   = flag.Bool("full", false, "print dumps and trees in full instead of hashes")
)

// ---------------------------------------------------------------- plain trees (generation only)

type T struct {
	K    byte // Z T F N S [ {
	S    string
	A    []*T
	Keys []string
}

func (t *T) canon(sb *strings.Builder) {
	switch t.K {
	case 'Z', 'T', 'F':
		sb.WriteByte(t.K)
	case 'N', 'S':
		sb.WriteByte(t.K)
		sb.WriteString(hex.EncodeToString([]byte(t.S)))
	case '[':
		sb.WriteByte('[')
		for i, c := range t.A {
			if i > 0 {
				sb.WriteByte(',')
			}
			c.canon(sb)
		}
		sb.WriteByte(']')
	case '{':
		sb.WriteByte('{')
		for i, c := range t.A {
			if i > 0 {
				sb.WriteByte(',')
			}
			sb.WriteString(hex.EncodeToString([]byte(t.Keys[i])))
			sb.WriteByte(':')
			c.canon(sb)
		}
		sb.WriteByte('}')
	}
}

func (t *T) Canon() string {
	var sb strings.Builder
	t.canon(&sb)
	return sb.String()
}

type cparser struct {
	s string
	p int
}

func (c *cparser) hex() string {
	st := c.p
	for c.p < len(c.s) && strings.IndexByte("0123456789abcdef", c.s[c.p]) >= 0 {
		c.p++
	}
	b, _ := hex.DecodeString(c.s[st:c.p])
	return string(b)
}

func (c *cparser) tree() *T {
	if c.p >= len(c.s) {
		panic("canon: eof")
	}
	k := c.s[c.p]
	c.p++
	switch k {
	case 'Z', 'T', 'F':
		return &T{K: k}
	case 'N', 'S':
		return &T{K: k, S: c.hex()}
	case '[':
		t := &T{K: '['}
		if c.s[c.p] == ']' {
			c.p++
			return t
		}
		for {
			t.A = append(t.A, c.tree())
			d := c.s[c.p]
			c.p++
			if d == ']' {
				return t
			}
		}
	case '{':
		t := &T{K: '{'}
		if c.s[c.p] == '}' {
			c.p++
			return t
		}
		for {
			key := c.hex()
			c.p++ // ':'
			t.Keys = append(t.Keys, key)
			t.A = append(t.A, c.tree())
			d := c.s[c.p]
			c.p++
			if d == '}' {
				return t
			}
		}
	}
	panic("canon: bad tag " + string(k) + " in " + c.s)
}

func parseCanon(s string) *T { return (&cparser{s: s}).tree() }

// ---------------------------------------------------------------- JSON text of a tree (styles vary)

func renderString(sb *strings.Builder, s string, r *rng.R) {
	sb.WriteByte('"')
	for i := 0; i < len(s); i++ {
		c := s[i]
		switch {
		case c == '"' || c == '\\':
			sb.WriteByte('\\')
			sb.WriteByte(c)
		case c == '\n' && (r == nil || r.Bool()):
			sb.WriteString("\\n")
		case c == '\t' && (r == nil || r.Bool()):
			sb.WriteString("\\t")
		case c < 0x20:
			fmt.Fprintf(sb, "\\u%04x", c)
		case c == '/' && r != nil && r.Chance(1, 2):
			sb.WriteString("\\/")
		case c < 0x80 && r != nil && r.Chance(1, 12):
			if r.Bool() {
				fmt.Fprintf(sb, "\\u%04x", c)
			} else {
				fmt.Fprintf(sb, "\\u%04X", c)
			}
		default:
			sb.WriteByte(c)
		}
	}
	sb.WriteByte('"')
}

func ws(sb *strings.Builder, r *rng.R) {
	if r == nil || !r.Chance(1, 5) {
		return
	}
	for n := 1 + r.Intn(3); n > 0; n-- {
		sb.WriteByte(" \t\n\r "[r.Intn(5)])
	}
}

// render writes JSON text for t; r == nil gives the compact form
func render(sb *strings.Builder, t *T, r *rng.R) {
	switch t.K {
	case 'Z':
		sb.WriteString("null")
	case 'T':
		sb.WriteString("true")
	case 'F':
		sb.WriteString("false")
	case 'N':
		sb.WriteString(t.S)
	case 'S':
		renderString(sb, t.S, r)
	case '[':
		sb.WriteByte('[')
		ws(sb, r)
		for i, c := range t.A {
			if i > 0 {
				sb.WriteByte(',')
				ws(sb, r)
			}
			render(sb, c, r)
			ws(sb, r)
		}
		sb.WriteByte(']')
	case '{':
		sb.WriteByte('{')
		ws(sb, r)
		for i, c := range t.A {
			if i > 0 {
				sb.WriteByte(',')
				ws(sb, r)
			}
			renderString(sb, t.Keys[i], r)
			ws(sb, r)
			sb.WriteByte(':')
			ws(sb, r)
			render(sb, c, r)
			ws(sb, r)
		}
		sb.WriteByte('}')
	}
}

func Text(t *T, r *rng.R) string {
	var sb strings.Builder
	ws(&sb, r)
	render(&sb, t, r)
	ws(&sb, r)
	return sb.String()
}

// ---------------------------------------------------------------- generators

type gen struct {
	r        *rng.R
	keys     []string
	dup      bool // duplicate keys allowed
	dupBig   bool // ... also in objects beyond the index threshold
	emptyKey bool
}

var sizes = []int{0, 0, 1, 1, 2, 2, 3, 3, 4, 5, 6, 8, 10, 12, 14, 15, 16, 17, 18, 19, 20, 24, 31, 32, 33, 36, 40}
var smallSizes = []int{0, 1, 1, 2, 2, 3, 3, 4, 5, 7, 15, 16, 17, 18, 21}
var numbers = []string{"0", "1", "-1", "7", "12", "-0", "3.5", "1e5", "1E-2", "12345678901234567890", "0.1", "-2.50", "100"}
var words = []string{"", "a", "x", "hello", "a\"b", "tab\there", "line\nbreak", "hé", "中", "sl/ash", "0123456789abcdef", "0123456789abcdefX", "\\", "null"}

func (g *gen) scalar() *T {
	switch g.r.Intn(8) {
	case 0:
		return &T{K: 'Z'}
	case 1:
		return &T{K: 'T'}
	case 2:
		return &T{K: 'F'}
	case 3, 4, 5:
		return &T{K: 'N', S: numbers[g.r.Intn(len(numbers))]}
	default:
		return &T{K: 'S', S: words[g.r.Intn(len(words))]}
	}
}

func (g *gen) key() string { return g.keys[g.r.Intn(len(g.keys))] }

// container of n children at the given depth (depth 0 = root)
func (g *gen) container(obj bool, n, depth int) *T {
	t := &T{K: '['}
	if obj {
		t.K = '{'
	}
	used := map[string]bool{}
	for i := 0; i < n; i++ {
		var c *T
		if depth < 2 && g.r.Chance(1, 5) {
			c = g.container(g.r.Bool(), smallSizes[g.r.Intn(len(smallSizes))], depth+1)
		} else if depth == 2 && g.r.Chance(1, 12) {
			c = g.container(g.r.Bool(), g.r.Intn(3), depth+1)
		} else {
			c = g.scalar()
		}
		t.A = append(t.A, c)
		if obj {
			k := g.key()
			mayDup := g.dup && (n <= 14 || g.dupBig) && g.r.Chance(1, 6)
			for tries := 0; used[k] && !mayDup && tries < 200; tries++ {
				k = g.key()
				if tries > 50 {
					k = fmt.Sprintf("g%d", i)
				}
			}
			used[k] = true
			t.Keys = append(t.Keys, k)
		}
	}
	return t
}

func (g *gen) value(depth int) *T {
	switch g.r.Intn(10) {
	case 0, 1:
		return g.container(g.r.Bool(), smallSizes[g.r.Intn(len(smallSizes))], depth)
	case 2:
		return g.container(g.r.Bool(), g.r.Intn(4), 2)
	default:
		return g.scalar()
	}
}

func (g *gen) document() *T {
	switch g.r.Intn(12) {
	case 0:
		if g.r.Bool() {
			return &T{K: 'Z'}
		}
		return g.scalar()
	default:
		return g.container(g.r.Intn(5) < 3, sizes[g.r.Intn(len(sizes))], 0)
	}
}

func mkKeys(r *rng.R, emptyKey bool) []string {
	n := 6 + r.Intn(40)
	ks := []string{}
	for i := 0; i < n; i++ {
		ks = append(ks, fmt.Sprintf("k%d", i))
	}
	special := []string{"a\"b", "ké", "new\nline", "0123456789abcdef", "0123456789abcdeg", "0123456789abcdef0123456789abcdeX", "0123456789abcdef0123456789abcdeY", "a", "b", "A"}
	for _, s := range special {
		if r.Chance(1, 3) {
			ks = append(ks, s)
		}
	}
	if emptyKey {
		ks = append(ks, "")
	}
	return ks
}

// ---------------------------------------------------------------- ops

type Sel struct {
	Key   string
	Idx   int
	IsKey bool
}

type Op struct {
	Path []Sel
	Name string // LOOK LEN SET SETIDX ADD UNSET UNSETIDX POP MOVE SORT LOAD FOREACH MARSHAL IFACE
	Key  string
	I, J int
	Repr byte // R K L F
	Val  *T
}

func (o *Op) String() string {
	var sb strings.Builder
	if len(o.Path) == 0 {
		sb.WriteByte('.')
	}
	for i, s := range o.Path {
		if i > 0 {
			sb.WriteByte('/')
		}
		if s.IsKey {
			sb.WriteString("k" + hex.EncodeToString([]byte(s.Key)))
		} else {
			sb.WriteString("i" + strconv.Itoa(s.Idx))
		}
	}
	sb.WriteByte(' ')
	sb.WriteString(o.Name)
	val := func() string { return " " + string(o.Repr) + ":" + o.Val.Canon() }
	switch o.Name {
	case "SET":
		sb.WriteString(" k" + hex.EncodeToString([]byte(o.Key)) + val())
	case "SETIDX":
		sb.WriteString(" " + strconv.Itoa(o.I) + val())
	case "ADD":
		sb.WriteString(val())
	case "UNSET":
		sb.WriteString(" k" + hex.EncodeToString([]byte(o.Key)))
	case "UNSETIDX", "FOREACH":
		sb.WriteString(" " + strconv.Itoa(o.I))
	case "MOVE":
		sb.WriteString(" " + strconv.Itoa(o.I) + " " + strconv.Itoa(o.J))
	case "SORT", "LOAD":
		sb.WriteString(" " + strconv.Itoa(o.I))
	}
	return sb.String()
}

func parseSel(s string) Sel {
	if s[0] == 'k' {
		b, _ := hex.DecodeString(s[1:])
		return Sel{Key: string(b), IsKey: true}
	}
	i, _ := strconv.Atoi(s[1:])
	return Sel{Idx: i}
}

func parseOp(s string) *Op {
	f := strings.Split(s, " ")
	o := &Op{Name: f[1]}
	if f[0] != "." {
		for _, e := range strings.Split(f[0], "/") {
			o.Path = append(o.Path, parseSel(e))
		}
	}
	val := func(s string) {
		o.Repr = s[0]
		o.Val = parseCanon(s[2:])
	}
	atoi := func(s string) int { i, _ := strconv.Atoi(s); return i }
	switch o.Name {
	case "SET":
		o.Key = parseSel(f[2]).Key
		val(f[3])
	case "SETIDX":
		o.I = atoi(f[2])
		val(f[3])
	case "ADD":
		val(f[2])
	case "UNSET":
		o.Key = parseSel(f[2]).Key
	case "UNSETIDX", "FOREACH", "SORT", "LOAD":
		o.I = atoi(f[2])
	case "MOVE":
		o.I, o.J = atoi(f[2]), atoi(f[3])
	}
	return o
}

type Case struct {
	ID   string
	Repr byte
	Doc  *T
	Keys []string
	Ops  []*Op
	Text string
}

func (c *Case) Line() string {
	ks := make([]string, len(c.Keys))
	for i, k := range c.Keys {
		ks[i] = "k" + hex.EncodeToString([]byte(k))
	}
	ops := make([]string, len(c.Ops))
	for i, o := range c.Ops {
		ops[i] = o.String()
	}
	return strings.Join([]string{c.ID, string(c.Repr), c.Doc.Canon(), strings.Join(ks, ","), strings.Join(ops, ";"), out.HexS(c.Text)}, "\t")
}

func parseCase(line string) *Case {
	f := strings.Split(line, "\t")
	c := &Case{ID: f[0], Repr: f[1][0], Doc: parseCanon(f[2])}
	if f[3] != "" {
		for _, k := range strings.Split(f[3], ",") {
			c.Keys = append(c.Keys, parseSel(k).Key)
		}
	}
	if f[4] != "" {
		for _, o := range strings.Split(f[4], ";") {
			c.Ops = append(c.Ops, parseOp(o))
		}
	}
	if len(f) > 5 && f[5] != "-" {
		b, _ := hex.DecodeString(f[5])
		c.Text = string(b)
	} else {
		c.Text = Text(c.Doc, nil)
	}
	return c
}

// ---------------------------------------------------------------- running the real code

func hash2(s string) string {
	var a, b uint64 = 7, 11
	for i := 0; i < len(s); i++ {
		a = (a*257 + uint64(s[i])) % 2147483629
		b = (b*263 + uint64(s[i])) % 2147483587
	}
	return fmt.Sprintf("h%x.%x", a, b)
}

func tr(s string) string {
	if *full {
		return s
	}
	return hash2(s)
}

func errClass(err error) string {
	if err == nil {
		return "ok"
	}
	code := -1
	switch e := err.(type) {
	case *ast.Node:
		code = ast.VerifErrCode(e)
	case ast.Node:
		code = ast.VerifErrCode(&e)
	}
	switch code {
	case 33:
		return "nf"
	case 34:
		return "un"
	}
	return "ot"
}

func obsErr(name, e string) string {
	switch name {
	case "LOOK":
		return "K:00:" + e + ":1:-"
	case "LEN":
		return "I:0:" + e
	case "SET", "SETIDX", "UNSET", "UNSETIDX":
		return "B:0:" + e
	case "ADD", "POP", "MOVE", "SORT", "LOAD":
		return "E:" + e
	case "FOREACH":
		return "V:" + e + ":"
	default:
		return "M:" + e + ":-"
	}
}

func b2s(b bool) string {
	if b {
		return "1"
	}
	return "0"
}

func buildFull(t *T) ast.Node {
	switch t.K {
	case 'Z':
		return ast.NewNull()
	case 'T':
		return ast.NewBool(true)
	case 'F':
		return ast.NewBool(false)
	case 'N':
		return ast.NewNumber(t.S)
	case 'S':
		return ast.NewString(t.S)
	case '[':
		ns := make([]ast.Node, len(t.A))
		for i, c := range t.A {
			ns[i] = buildFull(c)
		}
		return ast.NewArray(ns)
	default:
		ps := make([]ast.Pair, len(t.A))
		for i, c := range t.A {
			ps[i] = ast.NewPair(t.Keys[i], buildFull(c))
		}
		return ast.NewObject(ps)
	}
}

func mkNode(repr byte, t *T, text string) ast.Node {
	switch repr {
	case 'R':
		return ast.NewRaw(text)
	case 'K':
		return ast.NewRawConcurrentRead(text)
	case 'L':
		n, e := ast.NewParser(text).Parse()
		if e != 0 {
			panic(fmt.Sprintf("harness: Parse failed on %q: %v", text, e))
		}
		return n
	default:
		return buildFull(t)
	}
}

func canonOf(b []byte, err error) (string, string) {
	if err != nil {
		return "-", errClass(err)
	}
	c, cerr := ast.VerifCanon(string(b))
	if cerr != nil {
		return "?" + hex.EncodeToString(b), "ok"
	}
	return tr(c), "ok"
}

// exec applies one op to the node addressed from root and returns the observation
func exec(root *ast.Node, o *Op, styl *rng.R) (obs string) {
	defer func() {
		if r := recover(); r != nil {
			if s, ok := r.(string); ok && strings.HasPrefix(s, "harness:") {
				panic(r)
			}
			obs = obsErr(o.Name, "pa")
		}
	}()
	p := root
	for _, s := range o.Path {
		if s.IsKey {
			p = p.Get(s.Key)
		} else {
			p = p.Index(s.Idx)
		}
	}
	if p == nil {
		return obsErr(o.Name, "nf")
	}
	if ast.VerifRepr(p) == 0 {
		return "K:01:ok:0:-"
	}
	if c := ast.VerifErrCode(p); c >= 0 && o.Name == "LOOK" {
		return obsErr(o.Name, errClass(p))
	}
	var val ast.Node
	if o.Val != nil {
		val = mkNode(o.Repr, o.Val, Text(o.Val, styl))
	}
	switch o.Name {
	case "LOOK":
		return "K:" + b2s(p.Exists()) + b2s(p.Valid()) + ":" + errClass(p.Check()) + ":" + strconv.Itoa(p.TypeSafe()) + ":" + tr(ast.VerifAbs(p))
	case "LEN":
		n, err := p.Len()
		return "I:" + strconv.Itoa(n) + ":" + errClass(err)
	case "SET":
		b, err := p.Set(o.Key, val)
		return "B:" + b2s(b) + ":" + errClass(err)
	case "SETIDX":
		b, err := p.SetByIndex(o.I, val)
		return "B:" + b2s(b) + ":" + errClass(err)
	case "ADD":
		return "E:" + errClass(p.Add(val))
	case "UNSET":
		b, err := p.Unset(o.Key)
		return "B:" + b2s(b) + ":" + errClass(err)
	case "UNSETIDX":
		b, err := p.UnsetByIndex(o.I)
		return "B:" + b2s(b) + ":" + errClass(err)
	case "POP":
		return "E:" + errClass(p.Pop())
	case "MOVE":
		return "E:" + errClass(p.Move(o.I, o.J))
	case "SORT":
		return "E:" + errClass(p.SortKeys(o.I != 0))
	case "LOAD":
		if o.I == 1 {
			return "E:" + errClass(p.LoadAll())
		}
		return "E:" + errClass(p.Load())
	case "FOREACH":
		var evs []string
		count := 0
		err := p.ForEach(func(path ast.Sequence, n *ast.Node) bool {
			idx, key := "-", "-"
			if path.Index >= 0 {
				idx = strconv.Itoa(path.Index)
			}
			if path.Key != nil {
				key = "k" + hex.EncodeToString([]byte(*path.Key))
			}
			evs = append(evs, idx+"/"+key+"/"+tr(ast.VerifAbs(n)))
			count++
			return count < o.I
		})
		return "V:" + errClass(err) + ":" + strings.Join(evs, "+")
	case "MARSHAL":
		b, err := p.MarshalJSON()
		c, e := canonOf(b, err)
		return "M:" + e + ":" + c
	case "IFACE":
		v, err := p.InterfaceUseNumber()
		if err != nil {
			return "M:" + errClass(err) + ":-"
		}
		b, jerr := json.Marshal(v)
		if jerr != nil {
			return "M:ot:-"
		}
		c, e := canonOf(b, nil)
		return "M:" + e + ":" + c
	}
	panic("harness: unknown op " + o.Name)
}

func state(root *ast.Node, keys []string) (s string) {
	defer func() {
		if r := recover(); r != nil {
			s = "PANIC-in-dump~PANIC"
		}
	}()
	return tr(ast.VerifDump(root, keys)) + "~" + tr(ast.VerifAbs(root))
}

// the live value of the node as a tree, nil when the node is damaged beyond rendering
func liveTree(root *ast.Node) (t *T) {
	defer func() {
		if r := recover(); r != nil {
			t = nil
		}
	}()
	return parseCanon(ast.VerifAbs(root))
}

func sortedKeys(keys []string) []string {
	ks := append([]string{}, keys...)
	sort.Strings(ks)
	return ks
}

func runCase(c *Case) string {
	root := mkNode(c.Repr, c.Doc, c.Text)
	keys := c.Keys
	steps := []string{"init~" + state(&root, keys)}
	for i, o := range c.Ops {
		styl := rng.New(uint64(len(c.ID))*1000003 + uint64(i)*7919 + uint64(len(c.Text)))
		obs := exec(&root, o, styl)
		steps = append(steps, obs+"~"+state(&root, keys))
	}
	return c.ID + "\t" + strings.Join(steps, "|")
}

// ---------------------------------------------------------------- op generation guided by the live state

func (g *gen) pickPath(cur *T) ([]Sel, *T) {
	depth := 0
	switch x := g.r.Intn(10); {
	case x >= 9:
		depth = 2
	case x >= 6:
		depth = 1
	}
	var path []Sel
	for d := 0; d < depth; d++ {
		if cur == nil || (cur.K != '[' && cur.K != '{') {
			if g.r.Chance(1, 4) { // through a scalar / missing child
				path = append(path, g.randomSel(nil))
				cur = nil
			}
			break
		}
		s := g.randomSel(cur)
		path = append(path, s)
		cur = child(cur, s)
	}
	return path, cur
}

func child(t *T, s Sel) *T {
	if t == nil {
		return nil
	}
	if s.IsKey {
		if t.K != '{' {
			return nil
		}
		for i, k := range t.Keys {
			if k == s.Key {
				return t.A[i]
			}
		}
		return nil
	}
	if (t.K == '[' || t.K == '{') && s.Idx >= 0 && s.Idx < len(t.A) {
		return t.A[s.Idx]
	}
	return nil
}

// a selector that mostly hits an existing child of t, preferring containers
func (g *gen) randomSel(t *T) Sel {
	if t == nil || len(t.A) == 0 || g.r.Chance(1, 10) {
		if g.r.Bool() {
			return Sel{Key: g.key(), IsKey: true}
		}
		n := 0
		if t != nil {
			n = len(t.A)
		}
		return Sel{Idx: n + g.r.Intn(2)}
	}
	i := g.r.Intn(len(t.A))
	for tries := 0; tries < 4 && t.A[i].K != '[' && t.A[i].K != '{'; tries++ {
		i = g.r.Intn(len(t.A))
	}
	if t.K == '{' && g.r.Chance(3, 4) {
		return Sel{Key: t.Keys[i], IsKey: true}
	}
	return Sel{Idx: i}
}

var opNames = []struct {
	n string
	w int
}{{"LOOK", 12}, {"LEN", 7}, {"SET", 13}, {"SETIDX", 6}, {"ADD", 9}, {"UNSET", 9}, {"UNSETIDX", 9}, {"POP", 5},
	{"MOVE", 6}, {"SORT", 4}, {"LOAD", 6}, {"FOREACH", 6}, {"MARSHAL", 6}, {"IFACE", 2}}

func (g *gen) genOp(cur *T) *Op {
	path, loc := g.pickPath(cur)
	tot := 0
	for _, o := range opNames {
		tot += o.w
	}
	x := g.r.Intn(tot)
	name := ""
	for _, o := range opNames {
		if x < o.w {
			name = o.n
			break
		}
		x -= o.w
	}
	n := 0
	if loc != nil {
		n = len(loc.A)
	}
	// steer structural ops towards a fitting kind of node most of the time
	if loc != nil && g.r.Chance(4, 5) {
		switch {
		case loc.K == '{' && (name == "ADD" || name == "MOVE"):
			name = []string{"SET", "UNSET", "SORT"}[g.r.Intn(3)]
		case loc.K == '[' && (name == "SET" || name == "UNSET"):
			name = []string{"ADD", "MOVE", "UNSETIDX"}[g.r.Intn(3)]
		}
	}
	o := &Op{Path: path, Name: name}
	existingKey := func() string {
		if loc != nil && loc.K == '{' && n > 0 && g.r.Chance(2, 3) {
			return loc.Keys[g.r.Intn(n)]
		}
		return g.key()
	}
	idx := func() int {
		if n > 0 && g.r.Chance(5, 6) {
			if g.r.Chance(1, 4) {
				return n - 1
			}
			return g.r.Intn(n)
		}
		return n + g.r.Intn(2)
	}
	val := func() {
		o.Repr = "RRKLFF"[g.r.Intn(6)]
		o.Val = g.value(1)
	}
	switch name {
	case "SET":
		o.Key = existingKey()
		val()
	case "SETIDX":
		o.I = idx()
		val()
	case "ADD":
		val()
	case "UNSET":
		o.Key = existingKey()
	case "UNSETIDX":
		o.I = idx()
	case "MOVE":
		if n == 0 {
			o.Name = "LEN"
		} else {
			o.I, o.J = g.r.Intn(n), g.r.Intn(n)
			if g.r.Chance(1, 6) { // out-of-range positions: a no-op (fix d346b1d)
				if g.r.Bool() {
					o.I = n + g.r.Intn(3)
				} else {
					o.J = n + g.r.Intn(3)
				}
			}
		}
	case "SORT", "LOAD":
		o.I = g.r.Intn(2)
	case "FOREACH":
		if g.r.Bool() {
			o.I = 999
		} else {
			o.I = 1 + g.r.Intn(n+1)
		}
	}
	return o
}

func genCase(id int, r *rng.R) (*Case, string) {
	g := &gen{r: r}
	g.dup = r.Chance(1, 3)
	g.dupBig = g.dup && r.Chance(1, 4)
	g.emptyKey = r.Chance(1, 8)
	g.keys = mkKeys(r, g.emptyKey)
	var scripted []*Op
	var doc *T
	if r.Chance(1, 12) {
		// an object of 17..40 members whose first / middle / last key occurs twice, looked up after a full load
		n := 17 + r.Intn(24)
		doc = &T{K: '{'}
		for i := 0; i < n; i++ {
			doc.Keys = append(doc.Keys, fmt.Sprintf("m%d", i))
			doc.A = append(doc.A, g.scalar())
			g.keys = append(g.keys, fmt.Sprintf("m%d", i))
		}
		pos := []int{0, 0, n / 2, n - 1}[r.Intn(4)]
		other := r.Intn(n)
		for other == pos {
			other = r.Intn(n)
		}
		if pos == 0 && r.Bool() {
			other = n - 1
		}
		doc.Keys[other] = doc.Keys[pos]
		doc.A[other] = &T{K: 'S', S: "second"}
		doc.A[pos] = &T{K: 'S', S: "one"}
		key := doc.Keys[pos]
		if r.Bool() {
			scripted = append(scripted, &Op{Name: "LOAD"})
		} else {
			scripted = append(scripted, &Op{Name: "LOOK", Path: []Sel{{Key: "absent", IsKey: true}}})
		}
		scripted = append(scripted, &Op{Name: "LOOK", Path: []Sel{{Key: key, IsKey: true}}})
		switch r.Intn(3) {
		case 0:
			scripted = append(scripted, &Op{Name: "UNSET", Key: key})
		case 1:
			scripted = append(scripted, &Op{Name: "SET", Key: key, Repr: 'F', Val: &T{K: 'T'}})
		}
		scripted = append(scripted, &Op{Name: "LOOK", Path: []Sel{{Key: key, IsKey: true}}}, &Op{Name: "MARSHAL"})
		g.keys = append(g.keys, "absent")
	} else {
		doc = g.document()
	}
	c := &Case{ID: fmt.Sprintf("c%d", id), Keys: sortedKeys(g.keys)}
	c.Doc = doc
	c.Repr = "RRRKLLF"[r.Intn(7)]
	var styl *rng.R
	if r.Chance(2, 3) {
		styl = r.Fork(uint64(id))
	}
	c.Text = Text(c.Doc, styl)
	root := mkNode(c.Repr, c.Doc, c.Text)
	steps := []string{"init~" + state(&root, c.Keys)}
	nops := 1 + r.Intn(*maxlen)
	if r.Chance(1, 4) {
		nops = 1 + r.Intn(8)
	}
	if nops < len(scripted)+1 {
		nops = len(scripted) + 1
	}
	for i := 0; i < nops; i++ {
		cur := liveTree(&root)
		var o *Op
		if i < len(scripted) {
			o = scripted[i]
		} else if i == nops-1 || cur == nil {
			o = &Op{Name: "MARSHAL"}
		} else {
			o = g.genOp(cur)
		}
		c.Ops = append(c.Ops, o)
		styl := rng.New(uint64(len(c.ID))*1000003 + uint64(i)*7919 + uint64(len(c.Text)))
		obs := exec(&root, o, styl)
		steps = append(steps, obs+"~"+state(&root, c.Keys))
	}
	return c, c.ID + "\t" + strings.Join(steps, "|")
}

func main() {
	flag.Parse()
	switch *mode {
	case "gen":
		cw, iw := out.Create(*casesF), out.Create(*implF)
		r := rng.New(*seed)
		for i := 0; i < *ncases; i++ {
			c, log := genCase(i, r.Fork(uint64(i)))
			cw.Line(c.Line())
			iw.Line(log)
		}
		cw.Close()
		iw.Close()
	case "run":
		data, err := os.ReadFile(*casesF)
		if err != nil {
			panic(err)
		}
		iw := out.Create(*implF)
		for _, line := range strings.Split(string(data), "\n") {
			if strings.TrimSpace(line) == "" || line[0] == '#' {
				continue
			}
			iw.Line(runCase(parseCase(line)))
		}
		iw.Close()
	default:
		fmt.Fprintln(os.Stderr, "unknown mode")
		os.Exit(2)
	}
}
