// c01: Unmarshal vs encoding/json (C01) and the case stream shared with C11.
//
//	-mode gen     generate (type, initial value, input, config) cases from the seed: cases file (declared types,
//	              replayable) + model file (resolved types for the Coq model)
//	-mode run     run the real sonic and encoding/json on a cases file; one result line per case with both
//	              outcomes, the oracle verdict (sonic vs encoding/json) and the classifier tags
//	-mode worker  run only sonic (back end chosen by the environment) and print outcome + deep dump (C11)
//	-mode il      print the jitdec IL listing of every distinct model-universe type of a cases file
//	-mode fmap    drive caching.FieldMap directly (Set / Get / GetCaseInsensitive) on generated name sets
//	-mode resolve compare resolver.ResolveStruct with the harness's independent field resolution
package main

import (
	"bufio"
	"bytes"
	"encoding/base64"
	"encoding/hex"
	"encoding/json"
	"flag"
	"fmt"
	"io"
	"math"
	"os"
	"reflect"
	"regexp"
	"runtime"
	"sort"
	"strconv"
	"strings"
	"unicode/utf8"

	"github.com/bytedance/sonic"
	"github.com/bytedance/sonic/verifx"

	"verif/harness/internal/dtygen"
	"verif/harness/internal/out"
	"verif/harness/internal/rng"
)

var (
	mode    = flag.String("mode", "gen", "")
	seed    = flag.Uint64("seed", 1, "")
	ntypes  = flag.Int("ntypes", 100, "")
	ninputs = flag.Int("ninputs", 30, "")
	casesF  = flag.String("cases", "", "")
	modelF  = flag.String("model", "", "")
	outF    = flag.String("out", "/dev/stdout", "")
	corpus  = flag.String("corpus", "", "directory with *.case files (cases-file lines) prepended to the stream")
)

// ------------------------------------------------------------------ configurations

type cfg struct {
	name   string
	api    sonic.API
	number bool // UseNumber
	int64  bool // UseInt64
	std    bool // ConfigStd family (validates strings)
}

var cfgs = map[string]*cfg{}

func init() {
	add := func(name string, c sonic.Config, std bool) {
		cfgs[name] = &cfg{name: name, api: c.Froze(), number: c.UseNumber, int64: c.UseInt64, std: std}
	}
	stdc := sonic.Config{EscapeHTML: true, SortMapKeys: true, CompactMarshaler: true, CopyString: true, ValidateString: true}
	add("std", stdc, true)
	add("def", sonic.Config{}, false)
	n := stdc
	n.UseNumber = true
	add("stdnum", n, true)
	add("defnum", sonic.Config{UseNumber: true}, false)
	i := stdc
	i.UseInt64 = true
	add("stdi64", i, true)
	add("defi64", sonic.Config{UseInt64: true}, false)
	cfgs["std"].api = sonic.ConfigStd
	cfgs["def"].api = sonic.ConfigDefault
}

var cfgOrder = []string{"std", "def", "stdnum", "defnum", "stdi64", "defi64"}

// ------------------------------------------------------------------ gen

func hasAny(t *dtygen.Ty, depth int) bool {
	if depth > 6 {
		return true
	}
	switch t.K {
	case dtygen.KAny, dtygen.KNamed:
		return true
	case dtygen.KSlice, dtygen.KArr, dtygen.KPtr, dtygen.KMap:
		return hasAny(t.El, depth+1)
	case dtygen.KStruct:
		for _, f := range t.Fs {
			if hasAny(f.T, depth+1) {
				return true
			}
		}
	}
	return false
}

func gen() {
	r := rng.New(*seed)
	cw := out.Create(*casesF)
	mw := out.Create(*modelF)
	defer cw.Close()
	defer mw.Close()
	id := 0
	emit := func(c string, t *dtygen.Ty, v0 *dtygen.Val, in string) {
		id++
		ok := "0"
		if t.ModelOK() {
			ok = "1"
			mw.Line(strconv.Itoa(id), c, t.ModelString(), v0.String(), out.HexS(in))
		}
		cw.Line(strconv.Itoa(id), c, ok, t.String(), v0.String(), out.HexS(in))
	}
	if *corpus != "" {
		files, _ := os.ReadDir(*corpus)
		for _, f := range files {
			if !strings.HasSuffix(f.Name(), ".case") {
				continue
			}
			data, _ := os.ReadFile(*corpus + "/" + f.Name())
			for _, line := range strings.Split(string(data), "\n") {
				fs := strings.Split(line, "\t")
				if len(fs) < 4 || strings.HasPrefix(line, "#") {
					continue
				}
				// corpus line: cfg \t type \t v0 \t inputhex
				t, err := dtygen.ParseTy(fs[1])
				if err != nil {
					fmt.Fprintln(os.Stderr, "corpus: bad type", fs[1], err)
					os.Exit(2)
				}
				v0, err := dtygen.ParseVal(fs[2])
				if err != nil {
					fmt.Fprintln(os.Stderr, "corpus: bad value", fs[2], err)
					os.Exit(2)
				}
				in, _ := hex.DecodeString(strings.Replace(fs[3], "-", "", 1))
				emit(fs[0], t, v0, string(in))
			}
		}
	}
	// two very large documents per run (more than 65536 DOM nodes: optdec's node buffer has to grow) under UseNumber into a
	// typed root with interface{} leaves
	{
		var b strings.Builder
		b.WriteString(`{"Any":[`)
		for i := 0; i < 70000; i++ {
			if i > 0 {
				b.WriteByte(',')
			}
			b.WriteString(strconv.Itoa(i % 10))
		}
		b.WriteString(`],"N":7}`)
		emit("stdnum", dtygen.Named("PtrHolder"), dtygen.Nil, b.String())
		emit("defnum", dtygen.Slice(dtygen.Named("PtrHolder")), dtygen.Nil, "["+b.String()+`,{"Any":1.50,"N":2}]`)
	}
	for ti := 0; ti < *ntypes; ti++ {
		tr := r.Fork(uint64(ti))
		var t *dtygen.Ty
		for {
			t = dtygen.GenTy(tr, 1+tr.Intn(4))
			if _, err := t.Build(); err == nil {
				break
			}
		}
		v0s := []*dtygen.Val{dtygen.Nil}
		if v := dtygen.GenV0(tr, t, 3); v.K != 'z' {
			v0s = append(v0s, v)
		}
		useAny := hasAny(t, 0)
		for k := 0; k < *ninputs; k++ {
			lex := tr.Chance(1, 3)
			in := dtygen.GenInput(tr, t, lex)
			v0 := v0s[tr.Intn(len(v0s))]
			emit("std", t, v0, in)
			emit("def", t, v0, in)
			if useAny && tr.Chance(1, 2) {
				emit(cfgOrder[2+tr.Intn(4)], t, v0, in)
			}
		}
	}
}

// ------------------------------------------------------------------ running one case

type outcome struct {
	st   string // "O" ok, "E" error, "P" panic
	err  string
	view string // model-view dump
	deep string // canonical deep dump
}

func newDest(t *dtygen.Ty, rt reflect.Type, v0 *dtygen.Val) (reflect.Value, error) {
	p := reflect.New(rt)
	if v0.K != 'z' {
		if err := dtygen.Set(p.Elem(), t, v0); err != nil {
			return p, err
		}
	}
	return p, nil
}

func runSonic(c *cfg, t *dtygen.Ty, rt reflect.Type, v0 *dtygen.Val, in []byte, modelOK bool) outcome {
	o, _ := runSonicKeep(c, t, rt, v0, in, modelOK)
	return o
}

// runSonicKeep also returns the destination (a pointer value) so that the caller can look at it again later.
func runSonicKeep(c *cfg, t *dtygen.Ty, rt reflect.Type, v0 *dtygen.Val, in []byte, modelOK bool) (o outcome, p reflect.Value) {
	p, err := newDest(t, rt, v0)
	if err != nil {
		return outcome{st: "X", err: err.Error()}, reflect.Value{}
	}
	defer func() {
		if r := recover(); r != nil {
			o = outcome{st: "P", err: fmt.Sprint(r)}
		}
	}()
	err = c.api.Unmarshal(in, p.Interface())
	if err != nil {
		return outcome{st: "E", err: errClass(err)}, p
	}
	if w := lenOverCap(p.Elem(), 0); w != "" {
		// the decoder produced a slice header whose length exceeds its capacity: it wrote past an allocation
		return outcome{st: "P", err: "slice with len > cap in the decoded value: " + w}, p
	}
	o = outcome{st: "O", deep: dtygen.DeepDump(p.Elem())}
	if modelOK {
		o.view = dtygen.Dump(p.Elem(), t)
	}
	return
}

// lenOverCap looks for a slice whose length exceeds its capacity anywhere in a decoded value.
func lenOverCap(v reflect.Value, depth int) string {
	if depth > 60 || !v.IsValid() {
		return ""
	}
	switch v.Kind() {
	case reflect.Slice:
		if v.Len() > v.Cap() {
			return fmt.Sprintf("%s len %d cap %d", v.Type(), v.Len(), v.Cap())
		}
		if k := v.Type().Elem().Kind(); k == reflect.Slice || k == reflect.Ptr || k == reflect.Struct || k == reflect.Interface || k == reflect.Map || k == reflect.Array {
			for i := 0; i < v.Len(); i++ {
				if w := lenOverCap(v.Index(i), depth+1); w != "" {
					return w
				}
			}
		}
	case reflect.Array:
		for i := 0; i < v.Len(); i++ {
			if w := lenOverCap(v.Index(i), depth+1); w != "" {
				return w
			}
		}
	case reflect.Ptr, reflect.Interface:
		if !v.IsNil() {
			return lenOverCap(v.Elem(), depth+1)
		}
	case reflect.Struct:
		for i := 0; i < v.NumField(); i++ {
			if w := lenOverCap(v.Field(i), depth+1); w != "" {
				return w
			}
		}
	case reflect.Map:
		it := v.MapRange()
		for it.Next() {
			if w := lenOverCap(it.Value(), depth+1); w != "" {
				return w
			}
		}
	}
	return ""
}

// convert json.Number values sitting directly in interface positions (UseInt64 oracle)
func convInt64(v interface{}) (interface{}, error) {
	switch x := v.(type) {
	case json.Number:
		if i, err := strconv.ParseInt(string(x), 10, 64); err == nil {
			return i, nil
		}
		f, err := strconv.ParseFloat(string(x), 64)
		if err != nil {
			return nil, err
		}
		return f, nil
	case []interface{}:
		for i := range x {
			n, err := convInt64(x[i])
			if err != nil {
				return nil, err
			}
			x[i] = n
		}
	case map[string]interface{}:
		for k, e := range x {
			n, err := convInt64(e)
			if err != nil {
				return nil, err
			}
			x[k] = n
		}
	}
	return v, nil
}

func convWalk(rv reflect.Value, depth int) error {
	if depth > 100 {
		return nil
	}
	switch rv.Kind() {
	case reflect.Interface:
		if rv.IsNil() || rv.NumMethod() != 0 {
			return nil
		}
		switch rv.Elem().Interface().(type) {
		case json.Number, []interface{}, map[string]interface{}:
			n, err := convInt64(rv.Elem().Interface())
			if err != nil {
				return err
			}
			if rv.CanSet() {
				rv.Set(reflect.ValueOf(n))
			}
			return nil
		}
		if rv.Elem().Kind() == reflect.Ptr {
			return convWalk(rv.Elem(), depth+1)
		}
	case reflect.Ptr:
		if !rv.IsNil() {
			return convWalk(rv.Elem(), depth+1)
		}
	case reflect.Slice, reflect.Array:
		for i := 0; i < rv.Len(); i++ {
			if err := convWalk(rv.Index(i), depth+1); err != nil {
				return err
			}
		}
	case reflect.Struct:
		for i := 0; i < rv.NumField(); i++ {
			if rv.Type().Field(i).IsExported() {
				if err := convWalk(rv.Field(i), depth+1); err != nil {
					return err
				}
			}
		}
	case reflect.Map:
		if rv.Type().Elem().Kind() == reflect.Interface || rv.Type().Elem().Kind() == reflect.Struct || rv.Type().Elem().Kind() == reflect.Slice ||
			rv.Type().Elem().Kind() == reflect.Ptr || rv.Type().Elem().Kind() == reflect.Map || rv.Type().Elem().Kind() == reflect.Array {
			it := rv.MapRange()
			type kv struct{ k, v reflect.Value }
			var upd []kv
			for it.Next() {
				e := reflect.New(rv.Type().Elem()).Elem()
				e.Set(it.Value())
				if err := convWalk(e, depth+1); err != nil {
					return err
				}
				upd = append(upd, kv{it.Key(), e})
			}
			for _, u := range upd {
				rv.SetMapIndex(u.k, u.v)
			}
		}
	}
	return nil
}

func runStd(c *cfg, t *dtygen.Ty, rt reflect.Type, v0 *dtygen.Val, in []byte, modelOK bool) (o outcome) {
	p, err := newDest(t, rt, v0)
	if err != nil {
		return outcome{st: "X", err: err.Error()}
	}
	defer func() {
		if r := recover(); r != nil {
			o = outcome{st: "P", err: fmt.Sprint(r)}
		}
	}()
	if !c.number && !c.int64 {
		err = json.Unmarshal(in, p.Interface())
	} else {
		if !json.Valid(in) { // Unmarshal validates the whole input before touching the destination
			err = fmt.Errorf("invalid")
		} else {
			dec := json.NewDecoder(bytes.NewReader(in))
			dec.UseNumber()
			err = dec.Decode(p.Interface())
			if err == nil {
				if _, e2 := dec.Token(); e2 != io.EOF {
					err = fmt.Errorf("trailing data")
				}
			}
			if err == nil && c.int64 {
				// every number that reaches an interface{} must fit float64/int64, even when a later duplicate key replaces it
				p2, _ := newDest(t, rt, v0)
				if e2 := json.Unmarshal(in, p2.Interface()); e2 != nil {
					err = e2
				} else {
					err = convWalk(p.Elem(), 0)
				}
			}
		}
	}
	if err != nil {
		return outcome{st: "E", err: errClass(err)}
	}
	o = outcome{st: "O", deep: dtygen.DeepDump(p.Elem())}
	if modelOK {
		o.view = dtygen.Dump(p.Elem(), t)
	}
	return
}

var wsRe = regexp.MustCompile(`[\t\n\r]+`)

func errClass(err error) string {
	s := fmt.Sprintf("%T", err)
	m := err.Error()
	if len(m) > 60 {
		m = m[:60]
	}
	return s + ":" + wsRe.ReplaceAllString(m, " ")
}

// ------------------------------------------------------------------ classifiers (narrow input classes of the known findings)

type tyFacts struct {
	fieldNames    map[string]bool
	hasF32        bool
	hasRawLeaf    bool
	mergeableMap  bool
	intKeyMap     bool
	quotedStr     bool
	hasStruct     bool
	hasArr        bool
	emptyStruct   bool
	hasIface      bool
	hasText       bool
	hasBytes      bool
	numKeyMap     bool
	quotedNum     bool // a json.Number field with `,string`
	quotedNumeric bool // an int / float field with `,string`
	ptrPtrUnm     bool // **T (or deeper) where *T implements an unmarshaler
	u32KeyMap     bool
	anyMap        bool
	hasNum        bool
	hasSlice      bool
	embPtr        bool
	quotedBool    bool
	hasUnsigned   bool
	mapStrStr     bool
	quotedUnm     bool // a `,string` field whose type is a scalar kind with an unmarshaler
	fastSlice     bool // a slice type for which optdec has a specialised decoder ([]int32/int64/uint32/uint64/string kinds)
}

// dropTrailingCommas removes every `,` that is followed (after whitespace) by `]`, outside string literals.
func dropTrailingCommas(s string) (string, bool) {
	var out []byte
	in, changed := false, false
	for i := 0; i < len(s); i++ {
		c := s[i]
		if in {
			out = append(out, c)
			if c == '\\' && i+1 < len(s) {
				i++
				out = append(out, s[i])
			} else if c == '"' {
				in = false
			}
			continue
		}
		if c == '"' {
			in = true
		}
		if c == ',' {
			j := i + 1
			for j < len(s) && (s[j] == ' ' || s[j] == '\t' || s[j] == '\n' || s[j] == '\r') {
				j++
			}
			if j < len(s) && s[j] == ']' {
				changed = true
				continue
			}
		}
		out = append(out, c)
	}
	return string(out), changed
}

// untermTail: when the input ends inside a string literal (lexically), the number of bytes after its opening
// quote; -1 otherwise.
func untermTail(s string) int {
	in, open := false, 0
	for i := 0; i < len(s); i++ {
		c := s[i]
		if in {
			if c == '\\' {
				i++
			} else if c == '"' {
				in = false
			}
		} else if c == '"' {
			in, open = true, i
		}
	}
	if !in {
		return -1
	}
	return len(s) - open - 1
}

// strayAfterString: some string literal in key position (lexically: preceded by `{` or `,`) is followed by a
// byte other than ':' (or by the end of the input).
func strayAfterString(s string) bool {
	in, open := false, 0
	for i := 0; i < len(s); i++ {
		c := s[i]
		if in {
			if c == '\\' {
				i++
			} else if c == '"' {
				in = false
				k := open - 1
				for k >= 0 && (s[k] == ' ' || s[k] == '\t' || s[k] == '\n' || s[k] == '\r') {
					k--
				}
				if k < 0 || (s[k] != '{' && s[k] != ',') {
					continue
				}
				j := i + 1
				for j < len(s) && (s[j] == ' ' || s[j] == '\t' || s[j] == '\n' || s[j] == '\r') {
					j++
				}
				if j >= len(s) || s[j] != ':' {
					return true
				}
			}
		} else if c == '"' {
			in, open = true, i
		}
	}
	return in
}

func mergeable(t *dtygen.Ty, seen map[string]bool) bool {
	switch t.K {
	case dtygen.KStruct, dtygen.KMap, dtygen.KSlice, dtygen.KPtr, dtygen.KBytes:
		return true
	case dtygen.KArr:
		return mergeable(t.El, seen)
	case dtygen.KNamed:
		return namedFacts(t.Name).mergeable
	}
	return false
}

type nfacts struct{ mergeable bool }

func namedFacts(name string) nfacts {
	switch name {
	case "MyInt", "MyI8", "MyU16", "MyStr", "MyBool", "MyF64", "MyF32":
		return nfacts{false}
	}
	return nfacts{true}
}

var factsCache = map[string]*tyFacts{}

func collectFacts(t *dtygen.Ty, f *tyFacts, open map[string]bool) {
	switch t.K {
	case dtygen.KF32:
		f.hasF32 = true
	case dtygen.KInt:
		if t.IK[0] == 'u' {
			f.hasUnsigned = true
		}
	case dtygen.KNum:
		f.hasNum = true
	case dtygen.KBytes:
		f.hasBytes = true
		f.hasUnsigned = true
	case dtygen.KRaw, dtygen.KUnm:
		f.hasRawLeaf = true
	case dtygen.KText:
		f.hasText = true
	case dtygen.KAny:
		f.hasIface = true
	case dtygen.KPtr:
		if t.El.K == dtygen.KPtr {
			x := t.El
			for x.K == dtygen.KPtr {
				x = x.El
			}
			if x.K == dtygen.KRaw || x.K == dtygen.KUnm || x.K == dtygen.KText {
				f.ptrPtrUnm = true
			}
		}
		collectFacts(t.El, f, open)
	case dtygen.KSlice:
		f.hasSlice = true
		switch e := t.El; e.K {
		case dtygen.KStr:
			f.fastSlice = true
		case dtygen.KInt:
			switch e.IK {
			case "i32", "i64", "int", "u32", "u64", "uint", "uptr":
				f.fastSlice = true
			}
		case dtygen.KNamed:
			if e.Name == "MyInt" || e.Name == "MyStr" {
				f.fastSlice = true
			}
		}
		if t.El.K == dtygen.KInt && t.El.IK == "u8" {
			f.hasBytes = true
		}
		collectFacts(t.El, f, open)
	case dtygen.KArr:
		f.hasArr = true
		collectFacts(t.El, f, open)
	case dtygen.KMap:
		f.anyMap = true
		if mergeable(t.El, nil) {
			f.mergeableMap = true
		}
		k := t.Key
		if k.K == dtygen.KInt && k.IK == "u32" {
			f.u32KeyMap = true
		}
		if k.K == dtygen.KInt && k.IK[0] == 'u' {
			f.hasUnsigned = true
		}
		if k.K == dtygen.KStr && t.El.K == dtygen.KStr {
			f.mapStrStr = true
		}
		if k.K == dtygen.KNamed && k.Name == "MyInt" {
			f.intKeyMap = true
		}
		if k.K == dtygen.KInt {
			f.intKeyMap = true
		}
		if f.intKeyMap {
			f.numKeyMap = true
		}
		if k.K == dtygen.KText {
			f.hasText = true
		}
		collectFacts(t.El, f, open)
	case dtygen.KStruct:
		f.hasStruct = true
		rfs := t.Resolve()
		if len(rfs) == 0 {
			f.emptyStruct = true
		}
		for _, fl := range t.Fs {
			if fl.Emb && fl.T.K == dtygen.KPtr {
				f.embPtr = true
			}
		}
		for _, rf := range rfs {
			if rf.ViaPtr {
				f.embPtr = true
			}
			f.fieldNames[rf.Name] = true
			if rf.Quoted {
				f.quotedStr = true
				bt := rf.T
				if bt.K == dtygen.KPtr {
					bt = bt.El
				}
				switch bt.K {
				case dtygen.KBool:
					f.quotedBool = true
				case dtygen.KNum:
					f.quotedNum = true
				case dtygen.KInt, dtygen.KF32, dtygen.KF64:
					f.quotedNumeric = true
				case dtygen.KNamed:
					f.quotedNumeric = true
					f.quotedBool = true
					for _, id := range dtygen.UnmScalars {
						if bt.Name == id {
							f.quotedUnm = true
						}
					}
				}
			}
		}
		for _, fl := range t.Fs {
			collectFacts(fl.T, f, open)
		}
	case dtygen.KNamed:
		if open[t.Name] {
			return
		}
		open[t.Name] = true
		switch t.Name {
		case "MyF32":
			f.hasF32 = true
		case "MyBytes":
			f.hasBytes = true
		case "Mixed":
			f.hasBytes, f.quotedNum, f.quotedNumeric, f.quotedStr, f.hasF32, f.hasRawLeaf, f.hasText, f.numKeyMap, f.intKeyMap = true, true, true, true, true, true, true, true, true
			f.hasNum, f.quotedBool, f.hasSlice = true, true, true
		case "UnmVal", "USJ", "UIJ", "UBJ", "VSJ", "VIJ":
			f.hasRawLeaf = true
		case "UST", "UIT", "UBT", "VST":
			f.hasText = true
		case "HasIfaceM", "PtrHolder", "Tree":
			f.hasIface = true
		case "EmbPtr", "EmbDeep":
			f.embPtr = true
		case "MySlice", "Node", "Big60":
			f.hasSlice = true
		case "MyU16":
			f.hasUnsigned = true
		}
		if rt, err := t.Build(); err == nil {
			d := dtygen.FromReflect(rt)
			if d.K != dtygen.KNamed {
				collectFacts(d, f, open)
			}
		}
	}
}

func factsOf(t *dtygen.Ty) *tyFacts {
	k := t.String()
	if f, ok := factsCache[k]; ok {
		return f
	}
	f := &tyFacts{fieldNames: map[string]bool{}}
	collectFacts(t, f, map[string]bool{})
	factsCache[k] = f
	return f
}

var badNumRe = regexp.MustCompile(`-([^0-9]|$)|[0-9]\.([^0-9]|$)|[0-9][eE][+-]?([^0-9]|$)|(^|[^0-9.eE+-])0[0-9]`)

// stripStrings blanks out the string literals of a text (lexically).
func stripStrings(s string) string {
	b := []byte(s)
	in := false
	for i := 0; i < len(b); i++ {
		c := b[i]
		if in {
			if c == '\\' && i+1 < len(b) {
				b[i], b[i+1] = '_', '_'
				i++
				continue
			}
			if c == '"' {
				in = false
			} else {
				b[i] = '_'
			}
		} else if c == '"' {
			in = true
		}
	}
	return string(b)
}

// lexB64Pad: some string literal (lexically) is base64 text with missing or misplaced padding.
func lexB64Pad(s string) bool {
	for i := 0; i < len(s); i++ {
		if s[i] != '"' {
			continue
		}
		j := i + 1
		for j < len(s) && s[j] != '"' {
			if s[j] == '\\' {
				j++
			}
			j++
		}
		if j >= len(s) {
			return false
		}
		if u, ok := dtygen.Unquote(s[i+1 : j]); ok {
			u2 := strings.NewReplacer("\r", "", "\n", "").Replace(u)
			if _, err := base64.StdEncoding.DecodeString(u2); err != nil {
				if _, err2 := base64.RawStdEncoding.DecodeString(strings.TrimRight(u2, "=")); err2 == nil {
					return true
				}
			}
		}
		i = j
	}
	return false
}

var numWsRe = regexp.MustCompile(`[0-9][ \t\r\n]`)

var canonInt = regexp.MustCompile(`^-?(0|[1-9][0-9]*)$`)

// v0HasList: the initial value holds a slice with hidden elements (between len and cap)
func v0HasList(v *dtygen.Val) bool {
	if v == nil {
		return false
	}
	if v.K == 'l' && len(v.H) > 0 {
		return true
	}
	for _, e := range v.L {
		if v0HasList(e) {
			return true
		}
	}
	for _, e := range v.MV {
		if v0HasList(e) {
			return true
		}
	}
	return v.K == 'p' && v0HasList(v.P)
}

func v0HasNonEmptyMap(v *dtygen.Val) bool {
	if v == nil {
		return false
	}
	if v.K == 'm' && len(v.MK) > 0 {
		return true
	}
	for _, e := range v.L {
		if v0HasNonEmptyMap(e) {
			return true
		}
	}
	for _, e := range v.H {
		if v0HasNonEmptyMap(e) {
			return true
		}
	}
	for _, e := range v.MV {
		if v0HasNonEmptyMap(e) {
			return true
		}
	}
	return v.K == 'p' && v0HasNonEmptyMap(v.P)
}

// classify returns the tags of the known-finding input classes the case falls into (independent of outcomes).
func classify(c *cfg, t *dtygen.Ty, v0 *dtygen.Val, in string) []string {
	f := factsOf(t)
	var tags []string
	root := dtygen.RefParse(in, false)
	if c.std && !utf8.ValidString(in) && f.hasRawLeaf {
		tags = append(tags, "utf8raw")
	}
	if c.std && !utf8.ValidString(in) {
		tags = append(tags, "badutf8")
	}
	if f.ptrPtrUnm && strings.Contains(in, "null") {
		tags = append(tags, "ptrptrunm")
	}
	if f.quotedUnm {
		tags = append(tags, "qunm")
	}
	if root == nil {
		if f.hasBytes && lexB64Pad(in) {
			tags = append(tags, "b64pad")
		}
		if c.number && badNumRe.MatchString(stripStrings(in)) {
			tags = append(tags, "badnum")
		}
		if f.hasArr {
			if fixed, changed := dropTrailingCommas(in); changed && dtygen.RefParse(fixed, false) != nil {
				tags = append(tags, "arrcomma")
			}
		}
		if n := untermTail(in); !c.std && n >= 32 && n%32 == 0 {
			tags = append(tags, "unterm32")
		}
		if f.numKeyMap && strayAfterString(in) {
			tags = append(tags, "mapkeyskip")
		}
		return tags
	}
	if f.hasRawLeaf {
		if _, changed := dtygen.RepairEscapes(in); changed {
			tags = append(tags, "rawlenient")
		}
		if numWsRe.MatchString(in) {
			tags = append(tags, "rawnumws")
		}
	}
	fold, dup, f32, intkey, qesc, b64, qnum, u32key, hasNull := false, false, false, false, false, false, false, false, false
	floatinf, hasArr, numstr, qbool, arrNull, f32edge, neg0 := false, false, false, false, false, false, false
	root.Walk(func(n *dtygen.JNode) {
		switch n.K {
		case 'o':
			seen := map[string]bool{}
			for _, k := range n.Keys {
				uk, ok := dtygen.Unquote(k)
				if !ok {
					uk = k
				}
				if seen[uk] {
					dup = true
				}
				seen[uk] = true
				if !isASCII(uk) {
					for fn := range f.fieldNames {
						if strings.EqualFold(uk, fn) != (strings.ToLower(uk) == strings.ToLower(fn)) {
							fold = true
						}
					}
				}
				for fn := range f.fieldNames {
					if !isASCII(fn) && strings.EqualFold(uk, fn) != (strings.ToLower(uk) == strings.ToLower(fn)) {
						fold = true
					}
				}
				if f.u32KeyMap {
					if v, err := strconv.ParseUint(uk, 10, 64); err == nil && v > 0xffffffff {
						u32key = true
					}
				}
				if f.intKeyMap {
					if _, err := strconv.ParseInt(uk, 10, 64); err == nil && (!canonInt.MatchString(uk) || strings.Contains(k, `\`)) {
						intkey = true
					}
					if _, err := strconv.ParseUint(uk, 10, 64); err == nil && (!canonInt.MatchString(uk) || strings.Contains(k, `\`)) {
						intkey = true
					}
				}
			}
		case 'n':
			hasNull = true
		case 'a':
			hasArr = true
			for _, k := range n.Kids {
				if k.K == 'n' {
					arrNull = true
				}
			}
		case '0':
			if v, err := strconv.ParseFloat(n.Raw, 64); err != nil || math.IsInf(v, 0) {
				floatinf = true
			} else if f.hasF32 && math.Abs(v) > math.MaxFloat32 && !math.IsInf(float64(float32(v)), 0) {
				f32edge = true
			}
			if n.Raw == "-0" {
				neg0 = true
			}
			if f.hasF32 && dtygen.F32DoubleRounding(n.Raw) {
				f32 = true
			}
		case 's':
			if f.hasNum || f.quotedBool {
				if u, ok := dtygen.Unquote(n.Raw); ok {
					if f.hasNum && dtygen.RefParse(u, false) == nil {
						numstr = true
					}
					if f.quotedBool && u != "true" && u != "false" && u != "null" {
						qbool = true
					}
				}
			}
			if f.hasF32 && f.quotedStr {
				if u, ok := dtygen.Unquote(n.Raw); ok {
					if dtygen.F32DoubleRounding(u) {
						f32 = true
					}
					if v, err := strconv.ParseFloat(u, 64); err == nil && math.Abs(v) > math.MaxFloat32 && !math.IsInf(float64(float32(v)), 0) {
						f32edge = true
					}
				}
			}
			if f.quotedNum || f.quotedNumeric {
				if u, ok := dtygen.Unquote(n.Raw); ok && len(u) > 0 {
					numeric := (u[0] == '-' || u[0] == '+' || u[0] == '.' || u[0] == 'I' || u[0] == 'i' || u[0] == 'N' || u[0] == 'n' || (u[0] >= '0' && u[0] <= '9')) && dtygen.RefParse(u, false) == nil
					if numeric || (f.quotedNum && u[0] == '"') {
						qnum = true
					}
					if rn := dtygen.RefParse(u, false); f.quotedNumeric && rn != nil && rn.K == '0' && u[0] == '-' && strings.Trim(u, "-0.eE+") == "" {
						_ = rn
					}
				}
			}
			if f.hasBytes {
				if u, ok := dtygen.Unquote(n.Raw); ok {
					u2 := strings.NewReplacer("\r", "", "\n", "").Replace(u)
					if _, err := base64.StdEncoding.DecodeString(u2); err != nil {
						if _, err2 := base64.RawStdEncoding.DecodeString(strings.TrimRight(u2, "=")); err2 == nil {
							b64 = true
						}
					}
				}
			}
			if f.quotedStr && (strings.Contains(n.Raw, `"`) || strings.Contains(n.Raw, `\`) || strings.Contains(n.Raw, `\`)) {
				qesc = true
			}
		}
	})
	if fold {
		tags = append(tags, "fold")
	}
	if f.anyMap && (f.mergeableMap || hasNull) && (dup || v0HasNonEmptyMap(v0)) {
		tags = append(tags, "mapmerge")
	}
	if qnum {
		tags = append(tags, "qnum")
	}
	if floatinf {
		tags = append(tags, "floatinf")
	}
	if f.hasBytes && hasArr {
		tags = append(tags, "bytesarr")
	}
	if f.hasText && hasNull {
		tags = append(tags, "textnull")
	}
	if f.embPtr && hasNull {
		tags = append(tags, "embptrnull")
	}
	if f.hasSlice && (dup || v0HasList(v0)) {
		tags = append(tags, "slicestale")
	}
	if dup && hasNull {
		tags = append(tags, "dupnull")
	}
	if numstr {
		tags = append(tags, "numstr")
	}
	if f.fastSlice && arrNull {
		tags = append(tags, "slicenull")
	}
	if f32edge {
		tags = append(tags, "f32edge")
	}
	if neg0 && f.hasUnsigned {
		tags = append(tags, "uneg0")
	}
	if f.mapStrStr && hasNull {
		tags = append(tags, "mapstrnull")
	}
	if qbool {
		tags = append(tags, "qbool")
	}
	if u32key {
		tags = append(tags, "u32key")
	}
	if f32 {
		tags = append(tags, "f32dr")
	}
	if intkey {
		tags = append(tags, "intkey")
	}
	if qesc {
		tags = append(tags, "qesc")
	}
	if b64 {
		tags = append(tags, "b64pad")
	}
	return tags
}

func isASCII(s string) bool {
	for i := 0; i < len(s); i++ {
		if s[i] >= 0x80 {
			return false
		}
	}
	return true
}

// ------------------------------------------------------------------ run

type caseT struct {
	id      string
	c       *cfg
	modelOK bool
	ty      *dtygen.Ty
	rt      reflect.Type
	v0      *dtygen.Val
	in      []byte
}

func readCases(path string, f func(*caseT)) {
	fh, err := os.Open(path)
	if err != nil {
		panic(err)
	}
	defer fh.Close()
	sc := bufio.NewScanner(fh)
	sc.Buffer(make([]byte, 1<<20), 1<<28)
	tyCache := map[string]*dtygen.Ty{}
	for sc.Scan() {
		fs := strings.Split(sc.Text(), "\t")
		if len(fs) < 6 {
			continue
		}
		t, ok := tyCache[fs[3]]
		if !ok {
			var err error
			t, err = dtygen.ParseTy(fs[3])
			if err != nil {
				panic(fmt.Sprintf("case %s: bad type %q: %v", fs[0], fs[3], err))
			}
			tyCache[fs[3]] = t
		}
		rt, err := t.Build()
		if err != nil {
			panic(err)
		}
		v0, err := dtygen.ParseVal(fs[4])
		if err != nil {
			panic(err)
		}
		in, _ := hex.DecodeString(strings.Replace(fs[5], "-", "", 1))
		if fs[5] == "-" {
			in = []byte{}
		}
		f(&caseT{id: fs[0], c: cfgs[fs[1]], modelOK: fs[2] == "1", ty: t, rt: rt, v0: v0, in: in})
	}
}

func dash(s string) string {
	if s == "" {
		return "-"
	}
	return s
}

func run() {
	w := out.Create(*outF)
	defer w.Close()
	readCases(*casesF, func(k *caseT) {
		so := runSonic(k.c, k.ty, k.rt, k.v0, k.in, k.modelOK)
		jo := runStd(k.c, k.ty, k.rt, k.v0, k.in, k.modelOK)
		verdict := "ok"
		inDom := k.c.std || dtygen.InDomainDefault(string(k.in))
		switch {
		case so.st == "P" || so.st == "X" || jo.st == "P" || jo.st == "X":
			verdict = "crash"
		case !inDom:
			verdict = "skip"
		case so.st != jo.st:
			verdict = "errdiff"
			if jo.st == "E" && so.st == "O" {
				// tolerated leniency: the input is structurally well formed and differs from a valid document only by
				// invalid escape sequences inside values sonic skipped
				if rep, changed := dtygen.RepairEscapes(string(k.in)); changed && dtygen.RefParse(string(k.in), k.c.std) != nil {
					j2 := runStd(k.c, k.ty, k.rt, k.v0, []byte(rep), false)
					if j2.st == "O" && j2.deep == so.deep {
						verdict = "lenient"
					}
				}
			}
		case so.st == "O" && so.deep != jo.deep:
			verdict = "valdiff"
		}
		tags := strings.Join(classify(k.c, k.ty, k.v0, string(k.in)), ",")
		sd, jd := "-", "-"
		if verdict == "valdiff" || verdict == "errdiff" || verdict == "crash" {
			sd, jd = dash(so.deep)+" "+so.err, dash(jo.deep)+" "+jo.err
		}
		w.Line(k.id, so.st, dash(so.view), jo.st, dash(jo.view), verdict, dash(tags), sd, jd)
	})
}

// worker decodes the whole case stream in one process and keeps every decoded destination alive. After the last
// case (and two forced collections) every destination is dumped again: a value that changed after its Unmarshal
// returned shares memory with something the decoder reused (pooled parser buffers, the input of a later call).
// Columns: id, status, dump at decode time, error, tags, validity, structure, model view at decode time,
// dump at the end of the run ("=" when unchanged), model view at the end of the run ("=" when unchanged).
func worker() {
	w := out.Create(*outF)
	defer w.Close()
	type kept struct {
		line []string
		dest reflect.Value
		ty   *dtygen.Ty
		view bool
	}
	var all []*kept
	readCases(*casesF, func(k *caseT) {
		so, dest := runSonicKeep(k.c, k.ty, k.rt, k.v0, k.in, k.modelOK)
		valid, structural := "I", "M"
		if json.Valid(k.in) && utf8.Valid(k.in) {
			valid = "V"
		}
		if dtygen.RefParse(string(k.in), false) != nil {
			structural = "S"
		}
		line := []string{k.id, so.st, dash(so.deep), dash(so.err), dash(strings.Join(classify(k.c, k.ty, k.v0, string(k.in)), ",")), valid, structural, dash(so.view)}
		e := &kept{line: line, ty: k.ty, view: k.modelOK}
		if so.st == "O" {
			e.dest = dest
		}
		all = append(all, e)
	})
	runtime.GC()
	runtime.GC()
	for _, e := range all {
		late, lateView := "=", "="
		if e.dest.IsValid() {
			func() {
				defer func() {
					if r := recover(); r != nil {
						late = "PANIC " + fmt.Sprint(r)
					}
				}()
				if d := dash(dtygen.DeepDump(e.dest.Elem())); d != e.line[2] {
					late = d
				}
				if e.view {
					if v := dash(dtygen.Dump(e.dest.Elem(), e.ty)); v != e.line[7] {
						lateView = v
					}
				}
			}()
		}
		w.Line(append(e.line, late, lateView)...)
	}
}

// ------------------------------------------------------------------ IL listing

func ilMode() {
	w := out.Create(*outF)
	defer w.Close()
	seen := map[string]bool{}
	readCases(*casesF, func(k *caseT) {
		if !k.modelOK {
			return
		}
		ms := k.ty.ModelString()
		if seen[ms] {
			return
		}
		seen[ms] = true
		il, err := verifx.DecoderProgram(k.rt)
		if err != nil {
			w.Line(ms, "ERR "+err.Error())
			return
		}
		w.Line(ms, normIL(il))
	})
}

// normIL drops what the model does not represent: byte offsets (index), sizes (array_clear), and the
// pointer / no-pointer variant of array_clear.
func normIL(il string) string {
	parts := strings.Split(il, ";")
	for i, p := range parts {
		f := strings.Split(p, " ")
		switch f[0] {
		case "index":
			parts[i] = "index 0 0"
		case "array_clear", "array_clear_p":
			parts[i] = "array_clear 0 0"
		}
	}
	return strings.Join(parts, ";")
}

// ------------------------------------------------------------------ FieldMap driven directly

func fmapMode() {
	r := rng.New(*seed)
	w := out.Create(*outF)
	defer w.Close()
	pool := []string{"a", "A", "ab", "Ab", "AB", "aB", "name", "Name", "NAME", "é", "É", "ſ", "s", "S", "K", "k", "K", "", "x-y", "X-Y", "İ", "i", "I", "σ", "ς", "Σ", "ß", "ẞ", "ǆ", "ǅ", "Ǆ"}
	for it := 0; it < *ntypes; it++ {
		n := r.Intn(9)
		var names []string
		used := map[string]bool{}
		for len(names) < n {
			s := pool[r.Intn(len(pool))]
			if r.Chance(1, 4) {
				s += strconv.Itoa(r.Intn(40))
			}
			if !used[s] {
				used[s] = true
				names = append(names, s)
			}
		}
		fm := verifx.CreateFieldMap(len(names))
		for i, s := range names {
			fm.Set(s, i)
		}
		var qs []string
		for q := 0; q < 12; q++ {
			s := pool[r.Intn(len(pool))]
			if r.Chance(1, 2) && len(names) > 0 {
				s = names[r.Intn(len(names))]
				switch r.Intn(4) {
				case 0:
					s = strings.ToUpper(s)
				case 1:
					s = strings.ToLower(s)
				}
			}
			qs = append(qs, s)
		}
		var hn, hq, res []string
		for _, s := range names {
			hn = append(hn, out.HexS(s))
		}
		for _, s := range qs {
			hq = append(hq, out.HexS(s))
			g := -1
			if len(names) > 0 {
				g = fm.Get(s)
			}
			res = append(res, fmt.Sprintf("%d/%d", g, fm.GetCaseInsensitive(s)))
		}
		w.Line(strings.Join(hn, ","), strings.Join(hq, ","), strings.Join(res, ","))
	}
}

// ------------------------------------------------------------------ resolver

func resolveMode() {
	w := out.Create(*outF)
	defer w.Close()
	seen := map[string]bool{}
	check := func(t *dtygen.Ty, rt reflect.Type) {
		if rt.Kind() != reflect.Struct {
			return
		}
		key := t.String()
		if seen[key] {
			return
		}
		seen[key] = true
		var a, b []string
		for _, f := range verifx.ResolveStruct(rt) {
			a = append(a, fmt.Sprintf("%s|%v|%s", hex.EncodeToString([]byte(f.Name)), f.Quoted, f.Type))
		}
		for _, f := range t.Resolve() {
			ft := rt.FieldByIndex(f.Index).Type
			b = append(b, fmt.Sprintf("%s|%v|%s", hex.EncodeToString([]byte(f.Name)), f.Quoted, ft))
		}
		st := "ok"
		if strings.Join(a, ";") != strings.Join(b, ";") {
			st = "DIFF"
		}
		w.Line(st, key, strings.Join(a, ";"), strings.Join(b, ";"))
	}
	var walk func(t *dtygen.Ty)
	walk = func(t *dtygen.Ty) {
		switch t.K {
		case dtygen.KStruct:
			if rt, err := t.Build(); err == nil {
				check(t, rt)
			}
			for _, f := range t.Fs {
				walk(f.T)
			}
		case dtygen.KNamed:
			if rt, err := t.Build(); err == nil && rt.Kind() == reflect.Struct && rt.NumMethod() == 0 {
				check(t, rt)
			}
		case dtygen.KSlice, dtygen.KArr, dtygen.KPtr, dtygen.KMap:
			walk(t.El)
		}
	}
	for _, id := range dtygen.Catalogue() {
		walk(dtygen.Named(id))
	}
	readCases(*casesF, func(k *caseT) { walk(k.ty) })
}

func main() {
	flag.Parse()
	switch *mode {
	case "gen":
		gen()
	case "run":
		run()
	case "worker":
		worker()
	case "il":
		ilMode()
	case "fmap":
		fmapMode()
	case "resolve":
		resolveMode()
	default:
		fmt.Fprintln(os.Stderr, "unknown mode")
		os.Exit(2)
	}
	_ = sort.Strings
}
