package main

import (
	"encoding/json"
	"fmt"

	"github.com/bytedance/sonic"
)

func try(name string, mk func() interface{}, in string) {
	a, b, c := mk(), mk(), mk()
	e1 := json.Unmarshal([]byte(in), a)
	e2 := sonic.ConfigStd.Unmarshal([]byte(in), b)
	e3 := sonic.ConfigDefault.Unmarshal([]byte(in), c)
	fmt.Printf("%-10s %-34q std=%+v err=%v | sonicStd=%+v err=%v | sonicDef=%+v err=%v\n", name, in, a, e1 != nil, b, e2, c, e3)
}

type E struct{}
type A struct{ A int }
type QS struct {
	S string `json:"s,string"`
}

func main() {
	try("empty1", func() interface{} { return &E{} }, `{"s\u00zz":null}`)
	try("empty2", func() interface{} { return &E{} }, `{"s\x":null}`)
	try("empty3", func() interface{} { return &E{} }, `{"s":"\x"}`)
	try("A1", func() interface{} { return &A{} }, `{"s":"\x"}`)
	try("A2", func() interface{} { return &A{} }, `{"s":"\u00zz"}`)
	try("A3", func() interface{} { return &A{} }, `{"s":{"\u00zz":1}}`)
	try("qs1", func() interface{} { return &QS{} }, `{"s":"\""}`)
	try("qs2", func() interface{} { return &QS{} }, `{"s":"\"\""}`)
	try("qs3", func() interface{} { return &QS{} }, `{"s":"\"a"}`)
	try("qs4", func() interface{} { return &QS{} }, `{"s":"\"a\nb\""}`)
	try("qs5", func() interface{} { return &QS{} }, `{"s":"\"a\\\"b\""}`)
	try("qs6", func() interface{} { return &QS{} }, `{"s":""a""}`)
	try("qs7", func() interface{} { return &QS{} }, `{"s":"\"a\\tb\""}`)
	try("qs8", func() interface{} { return &QS{} }, `{"s":"\"a\tb\""}`)
}
