// c18: option wiring and documented option effects on the real implementation.
//
//	-mode froze    dump the (encoder, decoder) option words of all 2^n Config values (tie to the Coq model)
//	-mode effects  metamorphic runs: each switch on/off against random settings of the others, with the
//	               documented effect as oracle (independent of the model), plus entry-point equivalence.
package main

import (
	"bytes"
	"encoding/json"
	"flag"
	"fmt"
	"math"
	"os"
	"reflect"
	"regexp"
	"sort"
	"strconv"
	"strings"
	"unicode/utf8"

	"github.com/bytedance/sonic"
	"github.com/bytedance/sonic/decoder"
	"github.com/bytedance/sonic/encoder"

	"verif/harness/internal/jgen"
	"verif/harness/internal/out"
	"verif/harness/internal/rng"
)

var (
	mode  = flag.String("mode", "froze", "")
	seed  = flag.Uint64("seed", 1, "")
	n     = flag.Int("n", 2000, "")
	outp  = flag.String("out", "/dev/stdout", "")
	nflds = reflect.TypeOf(sonic.Config{}).NumField()
)

func cfgOfBits(bits uint64) sonic.Config {
	var c sonic.Config
	v := reflect.ValueOf(&c).Elem()
	for i := 0; i < nflds; i++ {
		v.Field(i).SetBool(bits>>uint(i)&1 == 1)
	}
	return c
}

func bitsString(bits uint64) string {
	b := make([]byte, nflds)
	for i := range b {
		b[i] = '0' + byte(bits>>uint(i)&1)
	}
	return string(b)
}

func fieldIndex(name string) int {
	t := reflect.TypeOf(sonic.Config{})
	for i := 0; i < t.NumField(); i++ {
		if t.Field(i).Name == name {
			return i
		}
	}
	panic("no Config field " + name)
}

// ------------------------------------------------------------------ user types

type TM struct{ S string }

func (t TM) MarshalText() ([]byte, error) { return []byte(t.S), nil }

type JM struct{ S string }

func (j JM) MarshalJSON() ([]byte, error) { return []byte(j.S), nil }

// field names are in byte order so that sorting all objects is the right oracle for SortMapKeys
type Rec struct {
	A interface{}
	B []interface{}
	C map[string]interface{}
	D []int
	E map[string]int
}

// typed, self-referential and deeply nested structs: reached through the encoder's out-of-line
// recursion (OP_recurse) rather than through interface{} - field names are in byte order
type Tree struct {
	A float64
	B []Tree
	C map[string]*Tree
	D *Tree
	E interface{}
	F []float64
	G map[string]float64
	H string
}

type D1 struct{ A D2 }
type D2 struct{ A D3 }
type D3 struct{ A D4 }
type D4 struct{ A D5 }
type D5 struct {
	A float64
	B []int
	C map[string]int
	D string
	E interface{}
}

const nanSentinel = 123456789.25

// value trees from which both a value and its transformed twin are built
type node struct {
	k    int
	b    bool
	i    int64
	f    float64
	s    string
	kids []*node
	keys []string
}

const (
	kNil = iota
	kBool
	kInt
	kFloat
	kNaN
	kStr
	kSlice
	kNilSlice
	kMap
	kNilMap
	kTM
	kJM
	kRec
	kBadStr
	kNilIntSlice
	kNilIntMap
	kTree
	kDeep
)

type genOpt struct{ nan, tm, jm, jmLoose, jmBad, badStr, html, nils bool }

func genNode(r *rng.R, o genOpt, d int) *node {
	k := r.Intn(17)
	if d >= 3 && (k == 6 || k == 8 || k == 12 || k >= 14) {
		k = r.Intn(6)
	}
	if k >= 14 {
		return genTyped(r, o, d, k == 16)
	}
	switch k {
	case 0:
		return &node{k: kNil}
	case 1:
		return &node{k: kBool, b: r.Bool()}
	case 2:
		return &node{k: kInt, i: int64(r.Intn(2000)) - 1000}
	case 3:
		return &node{k: kFloat, f: []float64{0, 1.5, -2.25, 1e21, 1e-7, 3.14159, 100, 1e20}[r.Intn(8)]}
	case 4:
		if o.nan {
			return &node{k: kNaN, f: []float64{math.NaN(), math.Inf(1), math.Inf(-1)}[r.Intn(3)]}
		}
		return &node{k: kInt, i: 7}
	case 5, 13:
		s := jgen.StrContent(r, &jgen.Opts{Escapes: true, NonASCII: true, LongRuns: true})
		if o.html && r.Chance(1, 2) {
			s += []string{"<b>", "&amp;", "a>b", " x", " ", "</script>"}[r.Intn(6)]
		}
		if o.badStr && r.Chance(1, 2) {
			return &node{k: kBadStr, s: s + []string{"\xff", "\xc0\x80", "\xed\xa0\x80", "a\xe4\xb8", "\xf5x"}[r.Intn(5)] + "z"}
		}
		return &node{k: kStr, s: s}
	case 6:
		m := &node{k: kSlice}
		for i, c := 0, r.Intn(4); i < c; i++ {
			m.kids = append(m.kids, genNode(r, o, d+1))
		}
		return m
	case 7:
		if o.nils {
			return &node{k: []int{kNilSlice, kNilMap, kNilIntSlice, kNilIntMap}[r.Intn(4)]}
		}
		return &node{k: kSlice}
	case 8:
		m := &node{k: kMap}
		seen := map[string]bool{}
		for i, c := 0, r.Intn(5); i < c; i++ {
			key := jgen.Key(r, &jgen.Opts{})
			if seen[key] {
				continue
			}
			seen[key] = true
			m.keys = append(m.keys, key)
			m.kids = append(m.kids, genNode(r, o, d+1))
		}
		return m
	case 9:
		if o.tm {
			return &node{k: kTM, s: []string{`"abc"`, `123`, `true`, `{"a":1}`, `[1,2]`, `"x\"y"`}[r.Intn(6)]}
		}
		return &node{k: kStr, s: "tm"}
	case 10, 11:
		if o.jm {
			pool := []string{`{"a":1}`, `[1,2,3]`, `"s"`, `null`, `12.5`, `{"a":{"b":[true,false]}}`}
			if o.jmLoose {
				pool = append(pool, `{ "a" : 1 }`, "[1,\n 2]", ` "pad" `, "{\"k\":\t[ ]}")
			}
			if o.jmBad {
				pool = append(pool, `{"a":}`, `[1,`, `tru`, `{"a":1}}`, ``, `"unterminated`)
			}
			return &node{k: kJM, s: pool[r.Intn(len(pool))]}
		}
		return &node{k: kInt, i: 11}
	default:
		m := &node{k: kRec}
		m.kids = append(m.kids, genNode(r, o, d+1))
		sl := &node{k: kSlice}
		if o.nils && r.Chance(1, 3) {
			sl = &node{k: kNilSlice}
		} else {
			for i, c := 0, r.Intn(3); i < c; i++ {
				sl.kids = append(sl.kids, genNode(r, o, d+1))
			}
		}
		mp := &node{k: kMap}
		if o.nils && r.Chance(1, 3) {
			mp = &node{k: kNilMap}
		} else {
			for i, c := 0, r.Intn(3); i < c; i++ {
				mp.keys = append(mp.keys, "k"+strconv.Itoa(i))
				mp.kids = append(mp.kids, genNode(r, o, d+1))
			}
		}
		m.kids = append(m.kids, sl, mp)
		return m
	}
}

// typed struct values: kids[0] = E (any), kids[1:] = nested trees (B), next = D, keys/m = C
func genTyped(r *rng.R, o genOpt, d int, deep bool) *node {
	nd := &node{k: kTree, f: []float64{0, 1.5, -2.25, 1e21}[r.Intn(4)]}
	if deep {
		nd.k = kDeep
	}
	if o.nan && r.Chance(1, 2) {
		nd.b = true // A (and one element of F / G) is NaN or Inf
		nd.f = []float64{math.NaN(), math.Inf(1), math.Inf(-1)}[r.Intn(3)]
	}
	nd.i = int64(r.Intn(4)) // 0: nil slices/maps, 1: empty, 2,3: populated
	if !o.nils && nd.i == 0 {
		nd.i = 1
	}
	s := jgen.StrContent(r, &jgen.Opts{Escapes: true, NonASCII: true})
	if o.html && r.Chance(1, 2) {
		s += "<a&b>\u2028"
	}
	if o.badStr && r.Chance(1, 2) {
		s += "\xff\xc0z"
		nd.keys = []string{"bad"}
	}
	nd.s = s
	nd.kids = append(nd.kids, genNode(r, o, d+2))
	if !deep && d < 2 && nd.i >= 2 {
		for i, c := 0, r.Intn(3); i < c; i++ {
			nd.kids = append(nd.kids, genTyped(r, o, d+1, false))
		}
	}
	return nd
}

func buildTree(nd *node, x xform) Tree {
	t := Tree{A: nd.f, H: nd.s, E: build(nd.kids[0], x)}
	if nd.b && x.nanToNil {
		t.A = nanSentinel
	}
	if len(nd.keys) > 0 && x.fixUTF8 {
		t.H = fixBytewise(nd.s)
	}
	switch {
	case nd.i == 0 && !x.nilToEmpty:
	case nd.i <= 1:
		t.B, t.C, t.F, t.G = []Tree{}, map[string]*Tree{}, []float64{}, map[string]float64{}
	default:
		t.B, t.C, t.F, t.G = []Tree{}, map[string]*Tree{}, []float64{1, t.A}, map[string]float64{"x": t.A, "y": 2}
		for i, c := range nd.kids[1:] {
			ct := buildTree(c, x)
			switch i % 3 {
			case 0:
				t.B = append(t.B, ct)
			case 1:
				t.C["k"+strconv.Itoa(i)] = &ct
			default:
				t.D = &ct
			}
		}
	}
	return t
}

func buildDeep(nd *node, x xform) D1 {
	d := D5{A: nd.f, D: nd.s, E: build(nd.kids[0], x)}
	if nd.b && x.nanToNil {
		d.A = nanSentinel
	}
	if len(nd.keys) > 0 && x.fixUTF8 {
		d.D = fixBytewise(nd.s)
	}
	if nd.i >= 1 || x.nilToEmpty {
		d.B, d.C = []int{}, map[string]int{}
	}
	if nd.i >= 2 {
		d.B, d.C = []int{1, 2}, map[string]int{"b": 1, "a": 2}
	}
	return D1{D2{D3{D4{d}}}}
}

type xform struct {
	nilToEmpty bool
	nanToNil   bool
	tmToRaw    bool
	fixUTF8    bool
	jmCompact  bool
}

func fixBytewise(s string) string {
	var b strings.Builder
	for i := 0; i < len(s); {
		r, sz := utf8.DecodeRuneInString(s[i:])
		if r == utf8.RuneError && sz == 1 {
			b.WriteString("�")
			i++
			continue
		}
		b.WriteString(s[i : i+sz])
		i += sz
	}
	return b.String()
}

func build(nd *node, x xform) interface{} {
	switch nd.k {
	case kNil:
		return nil
	case kBool:
		return nd.b
	case kInt:
		return nd.i
	case kFloat:
		return nd.f
	case kTree:
		return buildTree(nd, x)
	case kDeep:
		return buildDeep(nd, x)
	case kNaN:
		if x.nanToNil {
			return nanSentinel
		}
		return nd.f
	case kStr:
		return nd.s
	case kBadStr:
		if x.fixUTF8 {
			return fixBytewise(nd.s)
		}
		return nd.s
	case kSlice:
		s := make([]interface{}, 0, len(nd.kids))
		for _, c := range nd.kids {
			s = append(s, build(c, x))
		}
		return s
	case kNilSlice:
		if x.nilToEmpty {
			return []interface{}{}
		}
		return []interface{}(nil)
	case kNilIntSlice:
		if x.nilToEmpty {
			return []int{}
		}
		return []int(nil)
	case kNilMap:
		if x.nilToEmpty {
			return map[string]interface{}{}
		}
		return map[string]interface{}(nil)
	case kNilIntMap:
		if x.nilToEmpty {
			return map[string]int{}
		}
		return map[string]int(nil)
	case kMap:
		m := map[string]interface{}{}
		for i, c := range nd.kids {
			m[nd.keys[i]] = build(c, x)
		}
		return m
	case kTM:
		if x.tmToRaw {
			return json.RawMessage(nd.s)
		}
		return TM{nd.s}
	case kJM:
		if x.jmCompact {
			var b bytes.Buffer
			if json.Compact(&b, []byte(nd.s)) == nil {
				return JM{b.String()}
			}
		}
		return JM{nd.s}
	case kRec:
		rec := Rec{A: build(nd.kids[0], x)}
		if s, ok := build(nd.kids[1], x).([]interface{}); ok {
			rec.B = s
		} else if x.nilToEmpty {
			rec.B = []interface{}{}
		}
		if m, ok := build(nd.kids[2], x).(map[string]interface{}); ok {
			rec.C = m
		} else if x.nilToEmpty {
			rec.C = map[string]interface{}{}
		}
		if x.nilToEmpty {
			rec.D = []int{}
			rec.E = map[string]int{}
		}
		return rec
	}
	panic("kind")
}

func containsNaN(v reflect.Value) bool {
	switch v.Kind() {
	case reflect.Float64:
		return math.IsNaN(v.Float()) || math.IsInf(v.Float(), 0)
	case reflect.Interface, reflect.Ptr:
		return !v.IsNil() && containsNaN(v.Elem())
	case reflect.Slice:
		for i := 0; i < v.Len(); i++ {
			if containsNaN(v.Index(i)) {
				return true
			}
		}
	case reflect.Map:
		for _, k := range v.MapKeys() {
			if containsNaN(v.MapIndex(k)) {
				return true
			}
		}
	case reflect.Struct:
		for i := 0; i < v.NumField(); i++ {
			if containsNaN(v.Field(i)) {
				return true
			}
		}
	}
	return false
}

func hasKind(nd *node, ks ...int) bool {
	for _, k := range ks {
		if nd.k == k {
			return true
		}
	}
	for _, c := range nd.kids {
		if hasKind(c, ks...) {
			return true
		}
	}
	return false
}

// ------------------------------------------------------------------ ordered JSON trees (for SortMapKeys)

type otree struct {
	raw  string // scalar text
	arr  []*otree
	keys []string
	vals []*otree
	kind byte
}

func parseOrdered(dec *json.Decoder) (*otree, error) {
	tok, err := dec.Token()
	if err != nil {
		return nil, err
	}
	switch t := tok.(type) {
	case json.Delim:
		if t == '[' {
			o := &otree{kind: '['}
			for dec.More() {
				c, err := parseOrdered(dec)
				if err != nil {
					return nil, err
				}
				o.arr = append(o.arr, c)
			}
			_, err := dec.Token()
			return o, err
		}
		o := &otree{kind: '{'}
		for dec.More() {
			kt, err := dec.Token()
			if err != nil {
				return nil, err
			}
			c, err := parseOrdered(dec)
			if err != nil {
				return nil, err
			}
			o.keys = append(o.keys, kt.(string))
			o.vals = append(o.vals, c)
		}
		_, err := dec.Token()
		return o, err
	case json.Number:
		return &otree{kind: 'n', raw: string(t)}, nil
	case string:
		return &otree{kind: 's', raw: t}, nil
	case bool:
		return &otree{kind: 'b', raw: fmt.Sprint(t)}, nil
	default:
		return &otree{kind: 'z', raw: "null"}, nil
	}
}

func (o *otree) sorted() *otree {
	switch o.kind {
	case '[':
		r := &otree{kind: '['}
		for _, c := range o.arr {
			r.arr = append(r.arr, c.sorted())
		}
		return r
	case '{':
		idx := make([]int, len(o.keys))
		for i := range idx {
			idx[i] = i
		}
		sort.SliceStable(idx, func(a, b int) bool { return o.keys[idx[a]] < o.keys[idx[b]] })
		r := &otree{kind: '{'}
		for _, i := range idx {
			r.keys = append(r.keys, o.keys[i])
			r.vals = append(r.vals, o.vals[i].sorted())
		}
		return r
	}
	return o
}

func (o *otree) String() string {
	switch o.kind {
	case '[':
		var p []string
		for _, c := range o.arr {
			p = append(p, c.String())
		}
		return "[" + strings.Join(p, ",") + "]"
	case '{':
		var p []string
		for i, c := range o.vals {
			p = append(p, strconv.Quote(o.keys[i])+":"+c.String())
		}
		return "{" + strings.Join(p, ",") + "}"
	}
	return string(o.kind) + o.raw
}

func ordered(b []byte) (*otree, error) {
	d := json.NewDecoder(bytes.NewReader(b))
	d.UseNumber()
	return parseOrdered(d)
}

// ------------------------------------------------------------------ report

type failure struct {
	Switch string `json:"switch"`
	Config string `json:"config"`
	Input  string `json:"input"`
	Got    string `json:"got"`
	Want   string `json:"want"`
}

type report struct {
	Evaluations int            `json:"evaluations"`
	PerSwitch   map[string]int `json:"per_switch"`
	Nontrivial  map[string]int `json:"nontrivial"`
	Failures    []failure      `json:"failures"`
	Samples     []string       `json:"samples"`
}

var rep = report{PerSwitch: map[string]int{}, Nontrivial: map[string]int{}}

func fail(sw string, cfg uint64, input, got, want string) {
	if len(rep.Failures) < 50 {
		rep.Failures = append(rep.Failures, failure{sw, bitsString(cfg), input, got, want})
	}
}

func count(sw string, nontrivial bool) {
	rep.Evaluations++
	rep.PerSwitch[sw]++
	if nontrivial {
		rep.Nontrivial[sw]++
	}
}

// via selects the entry point used for BOTH sides of a comparison (set per iteration):
// 0 Marshal, 1 MarshalToString, 2 stream Encoder, 3 MarshalIndent + json.Compact, 4 encoder.EncodeInto
var via int

func marshal(cfg sonic.Config, v interface{}) (s string, err error) {
	defer func() {
		if e := recover(); e != nil {
			err = fmt.Errorf("PANIC: %v", e)
		}
		if err != nil && strings.HasPrefix(err.Error(), "PANIC") {
			fail(fmt.Sprintf("crash/via%d", via), 0, desc(v)+fmt.Sprintf(" cfg=%+v", cfg), err.Error(), "an ordinary result or error")
		}
	}()
	api := cfg.Froze()
	switch via {
	case 1:
		return api.MarshalToString(v)
	case 2:
		var w bytes.Buffer
		if e := api.NewEncoder(&w).Encode(v); e != nil {
			return "", e
		}
		out := w.String()
		if !cfg.NoEncoderNewline {
			if !strings.HasSuffix(out, "\n") {
				return out, fmt.Errorf("PANIC: stream encoder wrote no newline")
			}
			out = out[:len(out)-1]
		}
		return out, nil
	case 3:
		b, e := api.MarshalIndent(v, "", " ")
		if e != nil {
			return "", e
		}
		var c bytes.Buffer
		if json.Compact(&c, b) == nil {
			return c.String(), nil
		}
		b, e = api.Marshal(v)
		return string(b), e
	case 4:
		eo, _ := sonic.VerifFrozenOptions(cfg)
		buf := make([]byte, 0, 16)
		e := encoder.EncodeInto(&buf, v, encoder.Options(eo))
		if uint(len(buf)) > uint(cap(buf)) || uint(len(buf)) > 1<<40 {
			return fmt.Sprintf("len=%#x cap=%d", len(buf), cap(buf)), fmt.Errorf("PANIC: EncodeInto left the caller's buffer with length %#x > capacity %d (err=%v)", len(buf), cap(buf), e)
		}
		return string(buf), e
	}
	b, e := api.Marshal(v)
	if uint(len(b)) > uint(cap(b)) {
		return fmt.Sprintf("len=%#x cap=%d", len(b), cap(b)), fmt.Errorf("PANIC: Marshal returned a slice with length %#x > capacity %d (err=%v)", len(b), cap(b), e)
	}
	return string(b), e
}

func errs(e error) string {
	if e == nil {
		return "ok"
	}
	if strings.HasPrefix(e.Error(), "PANIC") {
		return e.Error()
	}
	return "error"
}

func desc(v interface{}) string {
	s := fmt.Sprintf("%#v", v)
	if len(s) > 600 {
		s = s[:600] + "..."
	}
	return s
}

// random settings of the *other* switches.  UseInt64+UseNumber together is rejected by Decoder.SetOptions
// (documented panic), so the pair is never generated.
func others(r *rng.R, except ...string) uint64 {
	bits := r.U64() & (1<<uint(nflds) - 1)
	for _, e := range except {
		bits &^= 1 << uint(fieldIndex(e))
	}
	if bits>>uint(fieldIndex("UseInt64"))&1 == 1 && bits>>uint(fieldIndex("UseNumber"))&1 == 1 {
		bits &^= 1 << uint(fieldIndex("UseNumber"))
	}
	return bits
}

func with(bits uint64, name string) uint64 { return bits | 1<<uint(fieldIndex(name)) }

// ------------------------------------------------------------------ encoder switches

func encoderEffects(r *rng.R, rounds int) {
	for it := 0; it < rounds; it++ {
		via = r.Intn(5)
		// EscapeHTML: on == json.HTMLEscape(off)
		{
			base := with(others(r, "EscapeHTML", "SortMapKeys"), "SortMapKeys")
			nd := genNode(r, genOpt{html: true, tm: true, jm: true, nils: true, badStr: true}, 0)
			v := build(nd, xform{})
			off, e0 := marshal(cfgOfBits(base), v)
			on, e1 := marshal(cfgOfBits(with(base, "EscapeHTML")), v)
			var want bytes.Buffer
			json.HTMLEscape(&want, []byte(off))
			count("EscapeHTML", strings.ContainsAny(off, "<>&") || strings.Contains(off, " "))
			if errs(e0) != errs(e1) || (e0 == nil && on != want.String()) {
				fail("EscapeHTML", base, desc(v), errs(e1)+":"+on, errs(e0)+":"+want.String())
			}
		}
		// SortMapKeys: on == off with every object's keys in byte order, nothing else changed
		{
			base := others(r, "SortMapKeys")
			nd := genNode(r, genOpt{tm: true, jm: true, nils: true, html: true}, 0)
			v := build(nd, xform{})
			off, e0 := marshal(cfgOfBits(base), v)
			on, e1 := marshal(cfgOfBits(with(base, "SortMapKeys")), v)
			count("SortMapKeys", hasKind(nd, kMap))
			if errs(e0) != errs(e1) {
				fail("SortMapKeys", base, desc(v), errs(e1), errs(e0))
			} else if e0 == nil && base>>uint(fieldIndex("NoQuoteTextMarshaler"))&1 == 0 {
				to, err0 := ordered([]byte(off))
				tn, err1 := ordered([]byte(on))
				if err0 != nil || err1 != nil {
					fail("SortMapKeys", base, desc(v), "unparseable:"+on, off)
				} else if tn.String() != to.sorted().String() || len(on) != len(off) {
					fail("SortMapKeys", base, desc(v), on, to.sorted().String())
				}
			}
		}
		// NoNullSliceOrMap: on(v) == off(v with nil slices / maps replaced by empty ones)
		{
			base := others(r, "NoNullSliceOrMap", "SortMapKeys")
			base = with(base, "SortMapKeys")
			nd := genNode(r, genOpt{nils: true, tm: true}, 0)
			v, v2 := build(nd, xform{}), build(nd, xform{nilToEmpty: true})
			on, e1 := marshal(cfgOfBits(with(base, "NoNullSliceOrMap")), v)
			want, e0 := marshal(cfgOfBits(base), v2)
			count("NoNullSliceOrMap", hasKind(nd, kNilSlice, kNilMap, kNilIntSlice, kNilIntMap, kRec))
			if errs(e0) != errs(e1) || (e0 == nil && on != want) {
				fail("NoNullSliceOrMap", base, desc(v), errs(e1)+":"+on, errs(e0)+":"+want)
			}
		}
		// EncodeNullForInfOrNan: off errors iff NaN/Inf present; on(v) == off(v with NaN/Inf -> nil)
		{
			base := others(r, "EncodeNullForInfOrNan", "SortMapKeys")
			base = with(base, "SortMapKeys")
			nd := genNode(r, genOpt{nan: true, nils: true}, 0)
			v, v2 := build(nd, xform{}), build(nd, xform{nanToNil: true})
			has := containsNaN(reflect.ValueOf(v))
			off, e0 := marshal(cfgOfBits(base), v)
			on, e1 := marshal(cfgOfBits(with(base, "EncodeNullForInfOrNan")), v)
			want, e2 := marshal(cfgOfBits(base), v2)
			want = strings.ReplaceAll(want, "123456789.25", "null")
			count("EncodeNullForInfOrNan", has)
			if (e0 != nil) != has {
				fail("EncodeNullForInfOrNan", base, desc(v), errs(e0)+":"+off, "error iff NaN/Inf present")
			}
			if errs(e1) != errs(e2) || (e1 == nil && on != want) {
				fail("EncodeNullForInfOrNan", base, desc(v), errs(e1)+":"+on, errs(e2)+":"+want)
			}
		}
		// NoQuoteTextMarshaler: on(v) inserts the text verbatim == off(v with TM{s} -> RawMessage(s)), s compact valid JSON
		{
			base := others(r, "NoQuoteTextMarshaler", "SortMapKeys", "EscapeHTML", "CompactMarshaler")
			base = with(base, "SortMapKeys")
			nd := genNode(r, genOpt{tm: true}, 0)
			v, v2 := build(nd, xform{}), build(nd, xform{tmToRaw: true})
			on, e1 := marshal(cfgOfBits(with(base, "NoQuoteTextMarshaler")), v)
			want, e0 := marshal(cfgOfBits(base), v2)
			count("NoQuoteTextMarshaler", hasKind(nd, kTM))
			if errs(e0) != errs(e1) || (e0 == nil && on != want) {
				fail("NoQuoteTextMarshaler", base, desc(v), errs(e1)+":"+on, errs(e0)+":"+want)
			}
		}
		// CompactMarshaler: on(v) == off(v with every Marshaler output json.Compact'ed); invalid output is an error
		if via == 3 {
			via = 0 // the indent round trip would compact the Marshaler output itself
		}
		{
			base := others(r, "CompactMarshaler", "SortMapKeys", "NoValidateJSONMarshaler")
			base = with(base, "SortMapKeys")
			nd := genNode(r, genOpt{jm: true, jmLoose: true}, 0)
			v, v2 := build(nd, xform{}), build(nd, xform{jmCompact: true})
			on, e1 := marshal(cfgOfBits(with(base, "CompactMarshaler")), v)
			want, e0 := marshal(cfgOfBits(base), v2)
			count("CompactMarshaler", hasKind(nd, kJM))
			if errs(e0) != errs(e1) || (e0 == nil && on != want) {
				fail("CompactMarshaler", base, desc(v), errs(e1)+":"+on, errs(e0)+":"+want)
			}
		}
		// NoValidateJSONMarshaler: off rejects invalid Marshaler output, on passes it through; no change on valid output
		{
			base := others(r, "NoValidateJSONMarshaler", "SortMapKeys", "CompactMarshaler")
			base = with(base, "SortMapKeys")
			nd := genNode(r, genOpt{jm: true, jmBad: true, jmLoose: true}, 0)
			v := build(nd, xform{})
			bad := false
			var walk func(*node)
			walk = func(x *node) {
				if x.k == kJM && !json.Valid([]byte(x.s)) {
					bad = true
				}
				for _, c := range x.kids {
					walk(c)
				}
			}
			walk(nd)
			off, e0 := marshal(cfgOfBits(base), v)
			on, e1 := marshal(cfgOfBits(with(base, "NoValidateJSONMarshaler")), v)
			count("NoValidateJSONMarshaler", bad)
			if (e0 != nil) != bad {
				fail("NoValidateJSONMarshaler", base, desc(v), errs(e0)+":"+off, "error iff a Marshaler returned invalid JSON")
			}
			if e1 != nil || (!bad && on != off) {
				fail("NoValidateJSONMarshaler", base, desc(v), errs(e1)+":"+on, "ok:"+off)
			}
		}
		// ValidateString (encoder side): invalid UTF-8 bytes are replaced one by one by U+FFFD
		{
			base := others(r, "ValidateString", "SortMapKeys")
			base = with(base, "SortMapKeys")
			nd := genNode(r, genOpt{badStr: true}, 0)
			v, v2 := build(nd, xform{}), build(nd, xform{fixUTF8: true})
			on, e1 := marshal(cfgOfBits(with(base, "ValidateString")), v)
			want, e0 := marshal(cfgOfBits(base), v2)
			count("ValidateString/enc", hasKind(nd, kBadStr))
			if e0 == nil && e1 == nil {
				ta, ea := ordered([]byte(on))
				tb, eb := ordered([]byte(want))
				if ea == nil && eb == nil && ta.String() == tb.String() {
					on = want
				}
			}
			if errs(e0) != errs(e1) || (e0 == nil && on != want) {
				fail("ValidateString/enc", base, desc(v), errs(e1)+":"+on, errs(e0)+":"+want)
			}
		}
		// NoEncoderNewline: the stream encoder writes Marshal's bytes plus "\n" unless the switch is on
		via = 0
		{
			base := with(others(r, "NoEncoderNewline", "SortMapKeys"), "SortMapKeys")
			nd := genNode(r, genOpt{nils: true}, 0)
			v := build(nd, xform{})
			m, e0 := marshal(cfgOfBits(base), v)
			var w0, w1 bytes.Buffer
			ea := cfgOfBits(base).Froze().NewEncoder(&w0).Encode(v)
			eb := cfgOfBits(with(base, "NoEncoderNewline")).Froze().NewEncoder(&w1).Encode(v)
			count("NoEncoderNewline", true)
			if errs(e0) != errs(ea) || errs(e0) != errs(eb) || (e0 == nil && (w0.String() != m+"\n" || w1.String() != m)) {
				fail("NoEncoderNewline", base, desc(v), w0.String()+"|"+w1.String(), m+"\\n|"+m)
			}
		}
	}
}

// ------------------------------------------------------------------ decoder switches

type S struct {
	Name string
	Id   int `json:"id"`
	Sub  struct{ X float64 }
	List []int
	Any  interface{}
	Tag  string `json:"tag_x"`
}

var sKeys = []string{"Name", "id", "Sub", "List", "Any", "tag_x"}
var caseVariants = map[string][]string{"Name": {"name", "NAME", "nAME"}, "id": {"ID", "Id", "iD"}, "Sub": {"sub", "SUB"},
	"List": {"list", "LIST"}, "Any": {"any", "ANY"}, "tag_x": {"TAG_X", "Tag_X"}}

func unmarshal(cfg sonic.Config, doc string, dst interface{}) (err error) {
	defer func() {
		if e := recover(); e != nil {
			err = fmt.Errorf("PANIC: %v", e)
		}
	}()
	return cfg.Froze().UnmarshalFromString(doc, dst)
}

func newDst(kind int) interface{} {
	switch kind {
	case 0:
		return new(interface{})
	case 1:
		return new(map[string]interface{})
	case 2:
		return new(S)
	default:
		return new([]interface{})
	}
}

func valFor(r *rng.R, key string, o *jgen.Opts) string {
	var b strings.Builder
	switch key {
	case "Name", "tag_x":
		b.WriteString(jgen.QuoteJSON(r, o, jgen.StrContent(r, o)))
	case "id":
		b.WriteString(strconv.Itoa(r.Intn(100000) - 50000))
	case "Sub":
		b.WriteString(`{"X":` + []string{"1.5", "2", "-0.5e3"}[r.Intn(3)] + `}`)
	case "List":
		b.WriteString([]string{"[]", "[1,2,3]", "null", "[ 4 ]"}[r.Intn(4)])
	default:
		jgen.Value(r, o, 2, &b)
	}
	return b.String()
}

// flat object for S: exact keys, case variants, unknown keys
func sDoc(r *rng.R, variants, unknown bool) (doc, renamed string, nvar, nunk int) {
	o := &jgen.Opts{MaxDepth: 3, MaxWidth: 3, Escapes: true}
	var a, b []string
	for i, c := 0, 1+r.Intn(5); i < c; i++ {
		k := sKeys[r.Intn(len(sKeys))]
		v := valFor(r, k, o)
		switch {
		case variants && r.Chance(1, 3):
			kv := caseVariants[k][r.Intn(len(caseVariants[k]))]
			a = append(a, strconv.Quote(kv)+":"+v)
			b = append(b, strconv.Quote("zz_"+kv)+":"+v)
			nvar++
		case unknown && r.Chance(1, 4):
			var vb strings.Builder
			jgen.Value(r, o, 2, &vb)
			a = append(a, `"unknown_k":`+vb.String())
			b = append(b, `"unknown_k":`+vb.String())
			nunk++
		default:
			a = append(a, strconv.Quote(k)+":"+v)
			b = append(b, strconv.Quote(k)+":"+v)
		}
	}
	return "{" + strings.Join(a, ",") + "}", "{" + strings.Join(b, ",") + "}", nvar, nunk
}

var intLit = regexp.MustCompile(`^-?(0|[1-9][0-9]*)$`)

// expected landing of numbers in interface{} from the UseNumber decoding
func convertNumbers(v interface{}, useInt64 bool) interface{} {
	switch t := v.(type) {
	case json.Number:
		if useInt64 && intLit.MatchString(string(t)) {
			if i, err := strconv.ParseInt(string(t), 10, 64); err == nil {
				return i
			}
		}
		f, _ := strconv.ParseFloat(string(t), 64)
		return f
	case []interface{}:
		r := make([]interface{}, len(t))
		for i, c := range t {
			r[i] = convertNumbers(c, useInt64)
		}
		return r
	case map[string]interface{}:
		r := map[string]interface{}{}
		for k, c := range t {
			r[k] = convertNumbers(c, useInt64)
		}
		return r
	}
	return v
}

func dump(v interface{}) string {
	rv := reflect.ValueOf(v)
	if rv.Kind() == reflect.Ptr && !rv.IsNil() {
		return fmt.Sprintf("%#v", rv.Elem().Interface())
	}
	return fmt.Sprintf("%#v", v)
}

func hasHugeNumber(doc string) bool { // literals that overflow float64: error policy belongs to C01/C19
	for _, s := range []string{"e400", "E400", "e+400"} {
		if strings.Contains(doc, s) {
			return true
		}
	}
	return false
}

func decoderEffects(r *rng.R, rounds int) {
	via = 0
	jo := jgen.Default
	jo.DupKeys = false
	for it := 0; it < rounds; it++ {
		// CopyString / NoValidateJSONSkip: no result changes on valid data, for every destination
		for _, sw := range []string{"CopyString", "NoValidateJSONSkip"} {
			base := others(r, sw)
			doc := jgen.Doc(r, &jo)
			if r.Chance(1, 3) {
				doc, _, _, _ = sDoc(r, true, true)
			}
			kind := r.Intn(4)
			d0, d1 := newDst(kind), newDst(kind)
			e0 := unmarshal(cfgOfBits(base), doc, d0)
			e1 := unmarshal(cfgOfBits(with(base, sw)), doc, d1)
			count(sw, len(doc) > 4)
			if errs(e0) != errs(e1) || (e0 == nil && !reflect.DeepEqual(d0, d1)) {
				fail(sw, base, doc, errs(e1)+":"+dump(d1), errs(e0)+":"+dump(d0))
			}
		}
		// UseNumber / UseInt64: only the landing type of numbers in interface{} changes
		{
			base := others(r, "UseNumber", "UseInt64")
			doc := jgen.Doc(r, &jo)
			if !hasHugeNumber(doc) {
				var dn, di, df interface{}
				en := unmarshal(cfgOfBits(with(base, "UseNumber")), doc, &dn)
				ei := unmarshal(cfgOfBits(with(base, "UseInt64")), doc, &di)
				ef := unmarshal(cfgOfBits(base), doc, &df)
				count("UseNumber", strings.ContainsAny(doc, "0123456789"))
				count("UseInt64", strings.ContainsAny(doc, "0123456789"))
				if errs(en) != errs(ef) || errs(ei) != errs(ef) {
					fail("UseNumber", base, doc, errs(en)+"/"+errs(ei), errs(ef))
				} else if ef == nil {
					if w := convertNumbers(dn, false); !reflect.DeepEqual(w, df) {
						fail("UseNumber", base, doc, dump(dn), dump(df))
					}
					if w := convertNumbers(dn, true); !reflect.DeepEqual(w, di) {
						fail("UseInt64", base, doc, dump(di), dump(w))
					}
					// typed destinations are unaffected
					var s0, s1, s2 S
					sd, _, _, _ := sDoc(r, false, false)
					for hasHugeNumber(sd) {
						sd, _, _, _ = sDoc(r, false, false)
					}
					ea := unmarshal(cfgOfBits(base), sd, &s0)
					eb := unmarshal(cfgOfBits(with(base, "UseNumber")), sd, &s1)
					ec := unmarshal(cfgOfBits(with(base, "UseInt64")), sd, &s2)
					s1.Any, s2.Any, s0.Any = nil, nil, nil
					if errs(ea) != errs(eb) || errs(ea) != errs(ec) || !reflect.DeepEqual(s0, s1) || !reflect.DeepEqual(s0, s2) {
						fail("UseNumber", base, sd, dump(s1)+"/"+dump(s2), dump(s0))
					}
				}
			}
		}
		// DisallowUnknownFields: error iff some key matches no field; otherwise no change
		{
			base := others(r, "DisallowUnknownFields", "CaseSensitive")
			doc, _, _, nunk := sDoc(r, true, true)
			var s0, s1 S
			e0 := unmarshal(cfgOfBits(base), doc, &s0)
			e1 := unmarshal(cfgOfBits(with(base, "DisallowUnknownFields")), doc, &s1)
			count("DisallowUnknownFields", nunk > 0)
			if e0 == nil {
				if (e1 != nil) != (nunk > 0) {
					fail("DisallowUnknownFields", base, doc, errs(e1), fmt.Sprintf("error iff %d>0 unknown keys", nunk))
				} else if e1 == nil && !reflect.DeepEqual(s0, s1) {
					fail("DisallowUnknownFields", base, doc, dump(s1), dump(s0))
				}
			}
		}
		// CaseSensitive: on(doc) == off(doc with the non-exact keys renamed to unknown ones)
		{
			base := others(r, "CaseSensitive", "DisallowUnknownFields")
			doc, renamed, nvar, _ := sDoc(r, true, true)
			var s0, s1 S
			e1 := unmarshal(cfgOfBits(with(base, "CaseSensitive")), doc, &s1)
			e0 := unmarshal(cfgOfBits(base), renamed, &s0)
			count("CaseSensitive", nvar > 0)
			if errs(e0) != errs(e1) || (e0 == nil && !reflect.DeepEqual(s0, s1)) {
				fail("CaseSensitive", base, doc, errs(e1)+":"+dump(s1), errs(e0)+":"+dump(s0))
			}
		}
		// ValidateString (decoder side): raw control characters in a string literal become errors,
		// invalid UTF-8 becomes U+FFFD (as encoding/json does); clean documents are unaffected
		{
			base := others(r, "ValidateString")
			clean := jo
			clean.Escapes = true
			doc := jgen.Doc(r, &clean)
			dirty := 0
			if i := strings.Index(doc, `"`); i >= 0 && r.Chance(1, 2) {
				k := r.Intn(6)
				ins := []string{"\x01", "\x1f", "\n", "\x00", "\xff", "\xc0\xaf"}[k]
				doc = doc[:i+1] + ins + doc[i+1:]
				dirty = 1
				if k >= 4 {
					dirty = 2
				}
			}
			var d0, d1 interface{}
			e0 := unmarshal(cfgOfBits(base), doc, &d0)
			e1 := unmarshal(cfgOfBits(with(base, "ValidateString")), doc, &d1)
			count("ValidateString/dec", dirty > 0)
			switch dirty {
			case 1:
				if e1 == nil {
					fail("ValidateString/dec", base, strconv.Quote(doc), "ok:"+dump(d1), "error")
				}
			case 2:
				var want interface{}
				dd := json.NewDecoder(strings.NewReader(doc))
				if base>>uint(fieldIndex("UseNumber"))&1 == 1 {
					dd.UseNumber()
				}
				es := dd.Decode(&want)
				if base>>uint(fieldIndex("UseInt64"))&1 == 1 || hasHugeNumber(doc) {
					break
				}
				if errs(es) != errs(e1) || (es == nil && !reflect.DeepEqual(want, d1)) {
					fail("ValidateString/dec", base, strconv.Quote(doc), errs(e1)+":"+dump(d1), errs(es)+":"+dump(want))
				}
			default:
				if errs(e0) != errs(e1) || (e0 == nil && !reflect.DeepEqual(d0, d1)) {
					fail("ValidateString/dec", base, strconv.Quote(doc), errs(e1)+":"+dump(d1), errs(e0)+":"+dump(d0))
				}
			}
		}
		// UseUnicodeErrors on a ",string" field (doubly quoted literal): same rule (regression for fix 30770cb)
		{
			base := others(r, "UseUnicodeErrors")
			type qT struct {
				Q string `json:"q,string"`
			}
			inner := []string{`\\ud800`, `a\\udc00b`, `\\uDBFFx`}[r.Intn(3)]
			doc := `{"q":"\"` + inner + `\""}`
			var q0, q1 qT
			e0 := unmarshal(cfgOfBits(base), doc, &q0)
			e1 := unmarshal(cfgOfBits(with(base, "UseUnicodeErrors")), doc, &q1)
			count("UseUnicodeErrors", true)
			if e1 == nil {
				fail("UseUnicodeErrors", base, doc, "ok:"+dump(&q1), "error (lone surrogate in a ,string field)")
			}
			if e0 != nil || !strings.Contains(q0.Q, "\ufffd") {
				fail("UseUnicodeErrors", base, doc, errs(e0)+":"+dump(&q0), "U+FFFD replacement with the switch off")
			}
		}
		// UseUnicodeErrors: an unpaired surrogate escape is an error when on, U+FFFD when off
		{
			base := others(r, "UseUnicodeErrors")
			clean := jo
			clean.NonASCII = false
			doc := jgen.Doc(r, &clean)
			dirty := false
			if i := strings.Index(doc, `"`); i >= 0 && r.Chance(1, 2) {
				ins := []string{`\ud800`, `\udc00x`, `\ud800A`, `\uDBFF`}[r.Intn(4)]
				doc = doc[:i+1] + ins + doc[i+1:]
				dirty = true
			}
			kind := r.Intn(2)
			d0, d1 := newDst(kind), newDst(kind)
			e0 := unmarshal(cfgOfBits(base), doc, d0)
			e1 := unmarshal(cfgOfBits(with(base, "UseUnicodeErrors")), doc, d1)
			count("UseUnicodeErrors", dirty)
			if dirty {
				if e1 == nil && kind == 0 {
					fail("UseUnicodeErrors", base, doc, "ok:"+dump(d1), "error")
				}
				if e0 == nil && kind == 0 && !strings.Contains(dump(d0), "\\ufffd") && !strings.Contains(dump(d0), "�") {
					fail("UseUnicodeErrors", base, doc, dump(d0), "U+FFFD replacement with the switch off")
				}
			} else if errs(e0) != errs(e1) || (e0 == nil && !reflect.DeepEqual(d0, d1)) {
				fail("UseUnicodeErrors", base, doc, errs(e1)+":"+dump(d1), errs(e0)+":"+dump(d0))
			}
		}
	}
}

// ------------------------------------------------------------------ entry points

func entryPoints(r *rng.R, rounds int) {
	via = 0
	jo := jgen.Default
	for it := 0; it < rounds; it++ {
		nd := genNode(r, genOpt{nils: true, html: true, tm: true, jm: true, nan: it%7 == 0}, 0)
		v := build(nd, xform{})
		a, ea := sonic.Marshal(v)
		b, eb := sonic.MarshalString(v)
		c, ec := sonic.ConfigDefault.Marshal(v)
		d, ed := encoder.Encode(v, 0)
		e, ee := sonic.ConfigDefault.MarshalToString(v)
		count("entry/Marshal", true)
		canon := func(x []byte) string {
			t, err := ordered(x)
			if err != nil {
				return "unparseable:" + string(x)
			}
			return t.sorted().String()
		}
		if errs(ea) != errs(eb) || errs(ea) != errs(ec) || errs(ea) != errs(ed) || errs(ea) != errs(ee) ||
			(ea == nil && (canon(a) != canon([]byte(b)) || canon(a) != canon(c) || canon(a) != canon(d) || canon(a) != canon([]byte(e)) ||
				len(a) != len(b) || len(a) != len(c) || len(a) != len(d) || len(a) != len(e))) {
			fail("entry/Marshal", 0, desc(v), b+"|"+string(c)+"|"+string(d)+"|"+e, string(a))
		}
		// MarshalIndent == json.Indent of Marshal (up to the order of unsorted map keys)
		if ea == nil {
			ind, ei := sonic.MarshalIndent(v, ">", "  ")
			var cmp, re bytes.Buffer
			if ei == nil && json.Compact(&cmp, []byte(strings.ReplaceAll(string(ind), "\n>", "\n"))) == nil && json.Indent(&re, cmp.Bytes(), ">", "  ") == nil {
				count("entry/MarshalIndent", true)
				if re.String() != string(ind) || canon(cmp.Bytes()) != canon(a) {
					fail("entry/MarshalIndent", 0, desc(v), string(ind), re.String())
				}
			} else {
				fail("entry/MarshalIndent", 0, desc(v), errs(ei)+":"+string(ind), "indented form of "+string(a))
			}
		}
		// Encoder setter methods vs the frozen Config of the same switches
		{
			esc, vs, nv, cm, nq, sk := r.Bool(), r.Bool(), r.Bool(), r.Bool(), r.Bool(), r.Bool()
			enc := &encoder.Encoder{}
			enc.SetEscapeHTML(esc)
			enc.SetValidateString(vs)
			enc.SetNoValidateJSONMarshaler(nv)
			enc.SetCompactMarshaler(cm)
			enc.SetNoQuoteTextMarshaler(nq)
			if sk {
				enc.SortKeys()
			}
			cfg := sonic.Config{EscapeHTML: esc, ValidateString: vs, NoValidateJSONMarshaler: nv, CompactMarshaler: cm, NoQuoteTextMarshaler: nq, SortMapKeys: sk}
			x, ex := enc.Encode(v)
			y, ey := cfg.Froze().Marshal(v)
			count("entry/EncoderSetters", true)
			if !sk {
				// unsorted maps: compare as ordered trees after sorting
				tx, e1 := ordered(x)
				ty, e2 := ordered(y)
				if errs(ex) != errs(ey) || (ex == nil && e1 == nil && e2 == nil && tx.sorted().String() != ty.sorted().String()) {
					fail("entry/EncoderSetters", 0, desc(v), string(x), string(y))
				}
			} else if errs(ex) != errs(ey) || (ex == nil && string(x) != string(y)) {
				fail("entry/EncoderSetters", 0, desc(v), string(x), string(y))
			}
			// stream encoder with the same setters
			var w bytes.Buffer
			se := encoder.NewStreamEncoder(&w)
			se.SetEscapeHTML(esc)
			se.SetValidateString(vs)
			se.SetNoValidateJSONMarshaler(nv)
			se.SetCompactMarshaler(cm)
			se.SetNoQuoteTextMarshaler(nq)
			se.SortKeys()
			nl := r.Bool()
			se.SetNoEncoderNewline(nl)
			cfg.SortMapKeys = true
			y2, ey2 := cfg.Froze().Marshal(v)
			es := se.Encode(v)
			wantS := string(y2)
			if !nl {
				wantS += "\n"
			}
			count("entry/StreamEncoderSetters", true)
			if errs(es) != errs(ey2) || (es == nil && w.String() != wantS) {
				fail("entry/StreamEncoderSetters", 0, desc(v), w.String(), wantS)
			}
		}
		// decode side
		doc := jgen.Doc(r, &jo)
		if r.Chance(1, 4) {
			doc = jgen.Mutate(r, doc)
		}
		kind := r.Intn(4)
		d0, d1, d2, d3 := newDst(kind), newDst(kind), newDst(kind), newDst(kind)
		e0 := sonic.Unmarshal([]byte(doc), d0)
		e1 := sonic.UnmarshalString(doc, d1)
		e2 := sonic.ConfigDefault.Unmarshal([]byte(doc), d2)
		e3 := sonic.ConfigDefault.UnmarshalFromString(doc, d3)
		count("entry/Unmarshal", true)
		if errs(e0) != errs(e1) || errs(e0) != errs(e2) || errs(e0) != errs(e3) ||
			(e0 == nil && (!reflect.DeepEqual(d0, d1) || !reflect.DeepEqual(d0, d2) || !reflect.DeepEqual(d0, d3))) {
			fail("entry/Unmarshal", 0, doc, errs(e1)+dump(d1), errs(e0)+dump(d0))
		}
		count("entry/Valid", true)
		if sonic.Valid([]byte(doc)) != sonic.ValidString(doc) || sonic.Valid([]byte(doc)) != sonic.ConfigStd.Valid([]byte(doc)) {
			fail("entry/Valid", 0, strconv.Quote(doc), fmt.Sprint(sonic.ValidString(doc)), fmt.Sprint(sonic.Valid([]byte(doc))))
		}
		// Decoder setter methods vs the frozen Config
		{
			un, ui, du, cs, vs, ue := r.Bool(), r.Bool(), r.Bool(), r.Bool(), r.Bool(), r.Bool()
			if un {
				ui = false
			}
			sd, _, _, _ := sDoc(r, true, true)
			if r.Bool() {
				sd = doc
			}
			dec := decoder.NewDecoder(sd)
			if un {
				dec.UseNumber()
			}
			if ui {
				dec.UseInt64()
			}
			if du {
				dec.DisallowUnknownFields()
			}
			if cs {
				dec.CopyString()
			}
			if vs {
				dec.ValidateString()
			}
			if ue {
				dec.UseUnicodeErrors()
			}
			kind := r.Intn(3)
			a, b := newDst(kind), newDst(kind)
			ea := func() (err error) {
				defer func() {
					if e := recover(); e != nil {
						err = fmt.Errorf("PANIC: %v", e)
					}
				}()
				if err := dec.Decode(a); err != nil {
					return err
				}
				return dec.CheckTrailings()
			}()
			cfg := sonic.Config{UseNumber: un, UseInt64: ui, DisallowUnknownFields: du, CopyString: cs, ValidateString: vs, UseUnicodeErrors: ue}
			eb := unmarshal(cfg, sd, b)
			count("entry/DecoderSetters", true)
			if errs(ea) != errs(eb) || (ea == nil && !reflect.DeepEqual(a, b)) {
				fail("entry/DecoderSetters", 0, sd, errs(ea)+dump(a), errs(eb)+dump(b))
			}
			// stream decoder built by the frozen config
			sdec := cfg.Froze().NewDecoder(strings.NewReader(sd))
			c := newDst(kind)
			ec := func() (err error) {
				defer func() {
					if e := recover(); e != nil {
						err = fmt.Errorf("PANIC: %v", e)
					}
				}()
				return sdec.Decode(c)
			}()
			dec2 := decoder.NewStreamDecoder(strings.NewReader(sd))
			if un {
				dec2.UseNumber()
			}
			if ui {
				dec2.UseInt64()
			}
			if du {
				dec2.DisallowUnknownFields()
			}
			if cs {
				dec2.CopyString()
			}
			if vs {
				dec2.ValidateString()
			}
			if ue {
				dec2.UseUnicodeErrors()
			}
			c2 := newDst(kind)
			ec2 := func() (err error) {
				defer func() {
					if e := recover(); e != nil {
						err = fmt.Errorf("PANIC: %v", e)
					}
				}()
				return dec2.Decode(c2)
			}()
			count("entry/StreamDecoderConfig", true)
			if errs(ec) != errs(ec2) || (ec == nil && !reflect.DeepEqual(c, c2)) {
				fail("entry/StreamDecoderConfig", 0, sd, errs(ec)+dump(c), errs(ec2)+dump(c2))
			}
		}
	}
}


func main() {
	flag.Parse()
	switch *mode {
	case "froze":
		w := out.Create(*outp)
		for bits := uint64(0); bits < 1<<uint(nflds); bits++ {
			e, d := sonic.VerifFrozenOptions(cfgOfBits(bits))
			w.Line(bitsString(bits), fmt.Sprint(e), fmt.Sprint(d))
		}
		w.Close()
	case "effects":
		r := rng.New(*seed)
		encoderEffects(r.Fork(1), *n)
		decoderEffects(r.Fork(2), *n)
		entryPoints(r.Fork(3), *n)
		f, _ := os.Create(*outp)
		json.NewEncoder(f).Encode(rep)
		f.Close()
	}
}
