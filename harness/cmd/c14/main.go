// c14: path search and read-only views on the real implementation.
//
// For generated (document, path) pairs: sonic.Get / GetFromString / GetCopyFromString / GetWithOptions under all 8
// SearchOptions, ast.Searcher, Node.GetByPath on raw / concurrent-read / loaded roots, the observables of the located node
// (Raw, Interface, InterfaceUseNumber, typed accessors, Len, ForEach) and the ast.Preorder callback stream.
// Oracle (independent of the Coq model): a token-level walk with encoding/json's Decoder (first occurrence of a key).
//
// case line : id TAB tokens TAB path TAB texthex
// impl line : id TAB G TAB N TAB P TAB problems      G: ok:<tree> | nf | inval | panic ; N: K:... ; P: events
package main

import (
	"bytes"
	"math"
	"encoding/hex"
	"encoding/json"
	"flag"
	"fmt"
	"io"
	"os"
	"reflect"
	"strconv"
	"strings"

	"github.com/bytedance/sonic"
	"github.com/bytedance/sonic/ast"

	"verif/harness/internal/out"
	"verif/harness/internal/rng"
)

var (
	mode   = flag.String("mode", "gen", "")
	seed   = flag.Uint64("seed", 1, "")
	ncases = flag.Int("n", 100, "")
	casesF = flag.String("cases", "", "")
	implF  = flag.String("impl", "", "")
	full   = flag.Bool("full", false, "")
)

func hash2(s string) string {
	var a, b uint64 = 7, 11
	for i := 0; i < len(s); i++ {
		a = (a*257 + uint64(s[i])) % 2147483629
		b = (b*263 + uint64(s[i])) % 2147483587
	}
	return fmt.Sprintf("h%x.%x", a, b)
}

func tr(s string) string {
	if *full {
		return s
	}
	return hash2(s)
}

// ---------------------------------------------------------------- trees and texts

type T struct {
	K    byte
	S    string
	A    []*T
	Keys []string
}

var numbers = []string{"0", "1", "-1", "7", "12", "-0", "3.5", "1e5", "1E-2", "12345678901234567890", "0.1", "-2.50", "100", "9223372036854775807", "-9223372036854775808", "1.0"}
var words = []string{"", "a", "x", "hello", "a\"b", "tab\there", "line\nbreak", "hé", "中", "😀", "sl/ash", "0123456789abcdef", "\\", "null", "true", "12"}

type gen struct {
	r    *rng.R
	keys []string
	dup  bool
}

func (g *gen) scalar() *T {
	switch g.r.Intn(8) {
	case 0:
		return &T{K: 'Z'}
	case 1:
		return &T{K: 'T'}
	case 2:
		return &T{K: 'F'}
	case 3, 4, 5:
		return &T{K: 'N', S: numbers[g.r.Intn(len(numbers))]}
	default:
		return &T{K: 'S', S: words[g.r.Intn(len(words))]}
	}
}

var sizes = []int{0, 1, 1, 2, 2, 3, 3, 4, 5, 6, 8, 12, 15, 16, 17, 18, 20, 33}

func (g *gen) container(obj bool, n, depth int) *T {
	t := &T{K: '['}
	if obj {
		t.K = '{'
	}
	used := map[string]bool{}
	for i := 0; i < n; i++ {
		var c *T
		if depth < 3 && g.r.Chance(1, 3) {
			c = g.container(g.r.Bool(), sizes[g.r.Intn(len(sizes)-6)], depth+1)
		} else {
			c = g.scalar()
		}
		t.A = append(t.A, c)
		if obj {
			k := g.keys[g.r.Intn(len(g.keys))]
			for tries := 0; used[k] && !(g.dup && g.r.Chance(1, 5)) && tries < 100; tries++ {
				k = g.keys[g.r.Intn(len(g.keys))]
				if tries > 30 {
					k = fmt.Sprintf("g%d", i)
				}
			}
			used[k] = true
			t.Keys = append(t.Keys, k)
		}
	}
	return t
}

func mkKeys(r *rng.R) []string {
	ks := []string{}
	for i, n := 0, 4+r.Intn(24); i < n; i++ {
		ks = append(ks, fmt.Sprintf("k%d", i))
	}
	special := []string{"", "a", "b", "A", "a\"b", "ké", "new\nline", "sl/ash", "\\", "😀k",
		"0123456789abcde", "0123456789abcdef", "0123456789abcdeg", "0123456789abcdefg",
		"0123456789abcdef0123456789abcde", "0123456789abcdef0123456789abcdeX", "0123456789abcdef0123456789abcdeY",
		"0123456789abcdef0123456789abcdeXZ", "0123456789abcdef0123456789abcdef0123456789abcdef0123456789abcdeQ",
		"0123456789abcdef0123456789abcdef0123456789abcdef0123456789abcdeR"}
	for _, s := range special {
		if r.Chance(1, 3) {
			ks = append(ks, s)
		}
	}
	return ks
}

func renderString(sb *strings.Builder, s string, r *rng.R) {
	sb.WriteByte('"')
	for i := 0; i < len(s); {
		c := s[i]
		switch {
		case c == '"' || c == '\\':
			sb.WriteByte('\\')
			sb.WriteByte(c)
			i++
		case c == '\n' && r.Bool():
			sb.WriteString("\\n")
			i++
		case c == '\t' && r.Bool():
			sb.WriteString("\\t")
			i++
		case c < 0x20:
			fmt.Fprintf(sb, "\\u%04x", c)
			i++
		case c == '/' && r.Chance(1, 2):
			sb.WriteString("\\/")
			i++
		case c < 0x80 && r.Chance(1, 10):
			if r.Bool() {
				fmt.Fprintf(sb, "\\u%04x", c)
			} else {
				fmt.Fprintf(sb, "\\u%04X", c)
			}
			i++
		case c >= 0x80 && r.Chance(1, 3):
			// escape the whole rune (surrogate pair beyond the BMP)
			rs := []rune(s[i:])
			ru := rs[0]
			n := len(string(ru))
			if ru >= 0x10000 {
				v := ru - 0x10000
				fmt.Fprintf(sb, "\\u%04x\\u%04x", 0xd800+(v>>10), 0xdc00+(v&0x3ff))
			} else {
				fmt.Fprintf(sb, "\\u%04x", ru)
			}
			i += n
		case c >= 0x80:
			n := len(string([]rune(s[i:])[0]))
			sb.WriteString(s[i : i+n])
			i += n
		default:
			sb.WriteByte(c)
			i++
		}
	}
	sb.WriteByte('"')
}

func ws(sb *strings.Builder, r *rng.R, dense bool) {
	if dense || !r.Chance(1, 4) {
		return
	}
	for n := 1 + r.Intn(3); n > 0; n-- {
		sb.WriteByte(" \t\n\r "[r.Intn(5)])
	}
}

func render(sb *strings.Builder, t *T, r *rng.R, dense bool) {
	switch t.K {
	case 'Z':
		sb.WriteString("null")
	case 'T':
		sb.WriteString("true")
	case 'F':
		sb.WriteString("false")
	case 'N':
		sb.WriteString(t.S)
	case 'S':
		renderString(sb, t.S, r)
	case '[':
		sb.WriteByte('[')
		ws(sb, r, dense)
		for i, c := range t.A {
			if i > 0 {
				sb.WriteByte(',')
				ws(sb, r, dense)
			}
			render(sb, c, r, dense)
			ws(sb, r, dense)
		}
		sb.WriteByte(']')
	case '{':
		sb.WriteByte('{')
		ws(sb, r, dense)
		for i, c := range t.A {
			if i > 0 {
				sb.WriteByte(',')
				ws(sb, r, dense)
			}
			renderString(sb, t.Keys[i], r)
			ws(sb, r, dense)
			sb.WriteByte(':')
			ws(sb, r, dense)
			render(sb, c, r, dense)
			ws(sb, r, dense)
		}
		sb.WriteByte('}')
	}
}

// tokens of a JSON text with RAW string bodies (the model's input)
func tokenize(s string) string {
	var toks []string
	for i := 0; i < len(s); {
		c := s[i]
		switch {
		case c == ' ' || c == '\t' || c == '\n' || c == '\r':
			i++
		case strings.IndexByte("{}[],:", c) >= 0:
			toks = append(toks, string(c))
			i++
		case c == '"':
			j := i + 1
			for s[j] != '"' {
				if s[j] == '\\' {
					j++
				}
				j++
			}
			toks = append(toks, "s"+hex.EncodeToString([]byte(s[i+1:j])))
			i = j + 1
		case c == 't':
			toks = append(toks, "t")
			i += 4
		case c == 'f':
			toks = append(toks, "f")
			i += 5
		case c == 'n':
			toks = append(toks, "z")
			i += 4
		default:
			j := i
			for j < len(s) && strings.IndexByte("+-.eE0123456789", s[j]) >= 0 {
				j++
			}
			toks = append(toks, "n"+hex.EncodeToString([]byte(s[i:j])))
			i = j
		}
	}
	return strings.Join(toks, " ")
}

// ---------------------------------------------------------------- paths

type Sel struct {
	Key   string
	Idx   int
	IsKey bool
}

func pathString(p []Sel) string {
	if len(p) == 0 {
		return "."
	}
	xs := make([]string, len(p))
	for i, s := range p {
		if s.IsKey {
			xs[i] = "k" + hex.EncodeToString([]byte(s.Key))
		} else {
			xs[i] = "i" + strconv.Itoa(s.Idx)
		}
	}
	return strings.Join(xs, "/")
}

func parsePath(s string) []Sel {
	if s == "." {
		return nil
	}
	var p []Sel
	for _, e := range strings.Split(s, "/") {
		if e[0] == 'k' {
			b, _ := hex.DecodeString(e[1:])
			p = append(p, Sel{Key: string(b), IsKey: true})
		} else {
			i, _ := strconv.Atoi(e[1:])
			p = append(p, Sel{Idx: i})
		}
	}
	return p
}

func ifacePath(p []Sel) []interface{} {
	out := make([]interface{}, len(p))
	for i, s := range p {
		if s.IsKey {
			out[i] = s.Key
		} else {
			out[i] = s.Idx
		}
	}
	return out
}

// a path through t: mostly existing, sometimes missing / wrong kind / out of range at some step
func (g *gen) path(t *T) []Sel {
	var p []Sel
	depth := g.r.Intn(5)
	for d := 0; d < depth; d++ {
		if t == nil {
			if g.r.Bool() {
				break
			}
		}
		var s Sel
		kind := g.r.Intn(20)
		if t != nil && t.K != '{' && t.K != '[' && g.r.Chance(3, 4) {
			break
		}
		switch {
		case t != nil && t.K == '{' && len(t.A) > 0 && kind < 15:
			i := g.r.Intn(len(t.A))
			s = Sel{Key: t.Keys[i], IsKey: true}
		case t != nil && t.K == '[' && len(t.A) > 0 && kind < 15:
			s = Sel{Idx: g.r.Intn(len(t.A))}
		case kind < 18: // missing key / out of range
			if t != nil && t.K == '[' {
				s = Sel{Idx: len(t.A) + g.r.Intn(2)}
			} else {
				s = Sel{Key: g.keys[g.r.Intn(len(g.keys))], IsKey: true}
			}
		default: // wrong kind
			if t != nil && t.K == '[' {
				s = Sel{Key: g.keys[g.r.Intn(len(g.keys))], IsKey: true}
			} else {
				s = Sel{Idx: g.r.Intn(3)}
			}
		}
		p = append(p, s)
		t = childOf(t, s)
	}
	return p
}

func childOf(t *T, s Sel) *T {
	if t == nil {
		return nil
	}
	if s.IsKey && t.K == '{' {
		for i, k := range t.Keys {
			if k == s.Key {
				return t.A[i]
			}
		}
	}
	if !s.IsKey && t.K == '[' && s.Idx < len(t.A) {
		return t.A[s.Idx]
	}
	return nil
}

// ---------------------------------------------------------------- oracle: encoding/json token walk

func skipValue(dec *json.Decoder) error {
	var raw json.RawMessage
	return dec.Decode(&raw)
}

// returns class (ok nf inval) and the raw text of the located value
func oracleNavigate(doc string, path []Sel) (string, string) { return oracleNav(doc, path, false) }

// dupIdx: some key step of the path goes through an object of more than 16 members in which that key occurs twice
func dupIdxOnPath(doc string, path []Sel) bool {
	cur := doc
	for i, s := range path {
		if s.IsKey {
			dec := json.NewDecoder(strings.NewReader(cur))
			if tok, err := dec.Token(); err == nil && tok == json.Delim('{') {
				n, hits := 0, 0
				for dec.More() {
					kt, err := dec.Token()
					if err != nil {
						break
					}
					if kt.(string) == s.Key {
						hits++
					}
					n++
					if skipValue(dec) != nil {
						break
					}
				}
				if n > 16 && hits > 1 {
					return true
				}
			}
		}
		c, raw := oracleNav(cur, path[i:i+1], true)
		if c != "ok" {
			return false
		}
		cur = raw
	}
	return false
}

func oracleNav(doc string, path []Sel, objIndex bool) (string, string) {
	dec := json.NewDecoder(strings.NewReader(doc))
	dec.UseNumber()
	for _, s := range path {
		tok, err := dec.Token()
		if err != nil {
			return "error", ""
		}
		d, isDelim := tok.(json.Delim)
		if s.IsKey {
			if !isDelim || d != '{' {
				return "inval", ""
			}
			found := false
			for dec.More() {
				kt, err := dec.Token()
				if err != nil {
					return "error", ""
				}
				if kt.(string) == s.Key {
					found = true
					break
				}
				if err := skipValue(dec); err != nil {
					return "error", ""
				}
			}
			if !found {
				return "nf", ""
			}
		} else if objIndex && isDelim && d == '{' {
			i := 0
			for ; i < s.Idx && dec.More(); i++ {
				if _, err := dec.Token(); err != nil {
					return "error", ""
				}
				if err := skipValue(dec); err != nil {
					return "error", ""
				}
			}
			if !dec.More() {
				return "nf", ""
			}
			if _, err := dec.Token(); err != nil {
				return "error", ""
			}
		} else {
			if !isDelim || d != '[' {
				return "inval", ""
			}
			i := 0
			for ; i < s.Idx && dec.More(); i++ {
				if err := skipValue(dec); err != nil {
					return "error", ""
				}
			}
			if !dec.More() {
				return "nf", ""
			}
		}
	}
	var raw json.RawMessage
	if err := dec.Decode(&raw); err != nil {
		return "error", ""
	}
	return "ok", string(raw)
}

// preorder events from the token stream of encoding/json
func oracleEvents(doc string) string {
	dec := json.NewDecoder(strings.NewReader(doc))
	dec.UseNumber()
	var evs []string
	type frame struct {
		obj   bool
		isKey bool
	}
	var st []frame
	for {
		tok, err := dec.Token()
		if err == io.EOF {
			break
		}
		if err != nil {
			return "error"
		}
		keyPos := len(st) > 0 && st[len(st)-1].obj && st[len(st)-1].isKey
		switch v := tok.(type) {
		case json.Delim:
			switch v {
			case '{':
				evs = append(evs, "{")
				if len(st) > 0 && st[len(st)-1].obj {
					st[len(st)-1].isKey = true
				}
				st = append(st, frame{obj: true, isKey: true})
				continue
			case '[':
				evs = append(evs, "[")
				if len(st) > 0 && st[len(st)-1].obj {
					st[len(st)-1].isKey = true
				}
				st = append(st, frame{})
				continue
			case '}':
				evs = append(evs, "}")
				st = st[:len(st)-1]
				continue
			case ']':
				evs = append(evs, "]")
				st = st[:len(st)-1]
				continue
			}
		case string:
			if keyPos {
				evs = append(evs, "K"+hex.EncodeToString([]byte(v)))
				st[len(st)-1].isKey = false
				continue
			}
			evs = append(evs, "S"+hex.EncodeToString([]byte(v)))
		case json.Number:
			evs = append(evs, "N"+hex.EncodeToString([]byte(string(v))))
		case bool:
			if v {
				evs = append(evs, "T")
			} else {
				evs = append(evs, "F")
			}
		case nil:
			evs = append(evs, "Z")
		}
		if len(st) > 0 && st[len(st)-1].obj {
			st[len(st)-1].isKey = true
		}
	}
	return strings.Join(evs, " ")
}

// ---------------------------------------------------------------- implementation side

type recorder struct {
	evs      []string
	problems *[]string
}

func (r *recorder) OnNull() error          { r.evs = append(r.evs, "Z"); return nil }
func (r *recorder) OnBool(v bool) error    { r.evs = append(r.evs, map[bool]string{true: "T", false: "F"}[v]); return nil }
func (r *recorder) OnString(v string) error { r.evs = append(r.evs, "S"+hex.EncodeToString([]byte(v))); return nil }
func (r *recorder) OnInt64(v int64, n json.Number) error {
	r.evs = append(r.evs, "N"+hex.EncodeToString([]byte(string(n))))
	if w, err := strconv.ParseInt(string(n), 10, 64); err != nil || w != v {
		*r.problems = append(*r.problems, fmt.Sprintf("OnInt64(%d,%q) but ParseInt gives %d,%v", v, n, w, err))
	}
	return nil
}
func (r *recorder) OnFloat64(v float64, n json.Number) error {
	r.evs = append(r.evs, "N"+hex.EncodeToString([]byte(string(n))))
	if w, err := strconv.ParseFloat(string(n), 64); err != nil || math.Float64bits(w) != math.Float64bits(v) {
		*r.problems = append(*r.problems, fmt.Sprintf("OnFloat64(%v,%q) but ParseFloat gives %v,%v", v, n, w, err))
	}
	return nil
}
func (r *recorder) OnObjectBegin(capacity int) error { r.evs = append(r.evs, "{"); return nil }
func (r *recorder) OnObjectKey(key string) error {
	r.evs = append(r.evs, "K"+hex.EncodeToString([]byte(key)))
	return nil
}
func (r *recorder) OnObjectEnd() error              { r.evs = append(r.evs, "}"); return nil }
func (r *recorder) OnArrayBegin(capacity int) error { r.evs = append(r.evs, "["); return nil }
func (r *recorder) OnArrayEnd() error               { r.evs = append(r.evs, "]"); return nil }

// a visitor that answers VisitOPSkip to the Begin callback of the chosen containers (numbered as they are announced)
type skipRecorder struct {
	recorder
	skips map[int]bool
	k     int
}

func (r *skipRecorder) OnObjectBegin(capacity int) error {
	r.evs = append(r.evs, "{")
	r.k++
	if r.skips[r.k-1] {
		return ast.VisitOPSkip
	}
	return nil
}

func (r *skipRecorder) OnArrayBegin(capacity int) error {
	r.evs = append(r.evs, "[")
	r.k++
	if r.skips[r.k-1] {
		return ast.VisitOPSkip
	}
	return nil
}

// the encoding/json token stream with the subtrees of the skipped containers removed (Begin and End stay)
func oracleEventsSkip(doc string, skips map[int]bool) string {
	dec := json.NewDecoder(strings.NewReader(doc))
	dec.UseNumber()
	var evs []string
	type frame struct {
		obj   bool
		isKey bool
	}
	var st []frame
	k := 0
	valueDone := func() {
		if len(st) > 0 && st[len(st)-1].obj {
			st[len(st)-1].isKey = true
		}
	}
	for {
		tok, err := dec.Token()
		if err == io.EOF {
			break
		}
		if err != nil {
			return "error"
		}
		keyPos := len(st) > 0 && st[len(st)-1].obj && st[len(st)-1].isKey
		switch v := tok.(type) {
		case json.Delim:
			switch v {
			case '{', '[':
				evs = append(evs, string(rune(v)))
				k++
				if skips[k-1] {
					// drop everything up to the matching close
					depth := 1
					for depth > 0 {
						t2, err := dec.Token()
						if err != nil {
							return "error"
						}
						if d, ok := t2.(json.Delim); ok {
							if d == '{' || d == '[' {
								depth++
							} else {
								depth--
							}
						}
					}
					if v == '{' {
						evs = append(evs, "}")
					} else {
						evs = append(evs, "]")
					}
					valueDone()
					continue
				}
				st = append(st, frame{obj: v == '{', isKey: true})
				continue
			case '}', ']':
				evs = append(evs, string(rune(v)))
				st = st[:len(st)-1]
				valueDone()
				continue
			}
		case string:
			if keyPos {
				evs = append(evs, "K"+hex.EncodeToString([]byte(v)))
				st[len(st)-1].isKey = false
				continue
			}
			evs = append(evs, "S"+hex.EncodeToString([]byte(v)))
		case json.Number:
			evs = append(evs, "N"+hex.EncodeToString([]byte(string(v))))
		case bool:
			if v {
				evs = append(evs, "T")
			} else {
				evs = append(evs, "F")
			}
		case nil:
			evs = append(evs, "Z")
		}
		valueDone()
	}
	return strings.Join(evs, " ")
}

func errClassSearch(err error) string {
	if err == nil {
		return "ok"
	}
	if err == ast.ErrNotExist {
		return "nf"
	}
	if _, ok := err.(ast.SyntaxError); ok {
		return "inval"
	}
	return "err"
}

func canonRaw(n *ast.Node) string {
	raw, err := n.Raw()
	if err != nil {
		return "?rawerr"
	}
	c, cerr := ast.VerifCanon(raw)
	if cerr != nil {
		return "?" + hex.EncodeToString([]byte(raw))
	}
	return c
}

// one searcher call: class[:canonical value]
func search(f func() (ast.Node, error)) (res string, node ast.Node) {
	defer func() {
		if r := recover(); r != nil {
			res = "panic"
		}
	}()
	n, err := f()
	c := errClassSearch(err)
	if c != "ok" {
		return c, n
	}
	return "ok:" + canonRaw(&n), n
}

func errClassNode(err error) string {
	if err == nil {
		return "ok"
	}
	code := -1
	switch e := err.(type) {
	case *ast.Node:
		code = ast.VerifErrCode(e)
	case ast.Node:
		code = ast.VerifErrCode(&e)
	}
	switch code {
	case 33:
		return "nf"
	case 34:
		return "un"
	}
	return "ot"
}

func b2s(b bool) string {
	if b {
		return "1"
	}
	return "0"
}

// Node.GetByPath style lookup: the OpLook observation of the C15 model
func lookNode(root *ast.Node, path []Sel, byPath bool) (res string) {
	defer func() {
		if r := recover(); r != nil {
			res = "K:00:pa:1:-"
		}
	}()
	var p *ast.Node
	if byPath {
		p = root.GetByPath(ifacePath(path)...)
	} else {
		p = root
		for _, s := range path {
			if s.IsKey {
				p = p.Get(s.Key)
			} else {
				p = p.Index(s.Idx)
			}
		}
	}
	if p == nil {
		return "K:00:nf:1:-"
	}
	if c := ast.VerifErrCode(p); c >= 0 {
		return "K:00:" + errClassNode(p) + ":1:-"
	}
	if ast.VerifRepr(p) == 0 {
		return "K:01:ok:0:-"
	}
	return "K:" + b2s(p.Exists()) + b2s(p.Valid()) + ":" + errClassNode(p.Check()) + ":" + strconv.Itoa(p.TypeSafe()) + ":" + tr(ast.VerifAbs(p))
}

// bit-exact comparison of generic values: float64 by bit pattern (-0 and +0 differ, NaN equals itself)
func sameIface(a, b interface{}) bool {
	switch x := a.(type) {
	case float64:
		y, ok := b.(float64)
		return ok && math.Float64bits(x) == math.Float64bits(y)
	case []interface{}:
		y, ok := b.([]interface{})
		if !ok || len(x) != len(y) || (x == nil) != (y == nil) {
			return false
		}
		for i := range x {
			if !sameIface(x[i], y[i]) {
				return false
			}
		}
		return true
	case map[string]interface{}:
		y, ok := b.(map[string]interface{})
		if !ok || len(x) != len(y) || (x == nil) != (y == nil) {
			return false
		}
		for k, v := range x {
			w, ok := y[k]
			if !ok || !sameIface(v, w) {
				return false
			}
		}
		return true
	default:
		return reflect.DeepEqual(a, b)
	}
}

// observables of a located node against the raw text the oracle located
func checkViews(n *ast.Node, want string, problems *[]string) {
	add := func(f string, a ...interface{}) { *problems = append(*problems, fmt.Sprintf(f, a...)) }
	wantCanon, _ := ast.VerifCanon(want)
	// Interface vs encoding/json
	var std interface{}
	json.Unmarshal([]byte(want), &std)
	if got, err := n.Interface(); err != nil || !sameIface(got, std) {
		add("Interface() = %#v, %v ; encoding/json gives %#v", got, err, std)
	}
	var stdN interface{}
	d := json.NewDecoder(strings.NewReader(want))
	d.UseNumber()
	d.Decode(&stdN)
	if got, err := n.InterfaceUseNumber(); err != nil || !sameIface(got, stdN) {
		add("InterfaceUseNumber() = %#v, %v ; encoding/json gives %#v", got, err, stdN)
	}
	if got := canonRaw(n); got != wantCanon {
		add("Raw() denotes %s, expected %s", got, wantCanon)
	}
	if b, err := n.MarshalJSON(); err != nil {
		add("MarshalJSON error %v", err)
	} else if c, _ := ast.VerifCanon(string(b)); c != wantCanon {
		add("MarshalJSON denotes %s, expected %s", c, wantCanon)
	}
	switch v := stdN.(type) {
	case nil:
		if n.TypeSafe() != ast.V_NULL {
			add("Type of null = %d", n.TypeSafe())
		}
	case bool:
		if got, err := n.Bool(); err != nil || got != v {
			add("Bool() = %v,%v want %v", got, err, v)
		}
		if got, err := n.StrictBool(); err != nil || got != v {
			add("StrictBool() = %v,%v want %v", got, err, v)
		}
	case string:
		if got, err := n.String(); err != nil || got != v {
			add("String() = %q,%v want %q", got, err, v)
		}
		if got, err := n.StrictString(); err != nil || got != v {
			add("StrictString() = %q,%v want %q", got, err, v)
		}
		if l, err := n.Len(); err != nil || l != len(v) {
			add("Len() of string = %d,%v want %d", l, err, len(v))
		}
	case json.Number:
		if got, err := n.Number(); err != nil || got != v {
			add("Number() = %q,%v want %q", got, err, v)
		}
		if got, err := n.StrictNumber(); err != nil || got != v {
			add("StrictNumber() = %q,%v want %q", got, err, v)
		}
		if w, err := strconv.ParseFloat(string(v), 64); err == nil {
			if got, gerr := n.Float64(); gerr != nil || math.Float64bits(got) != math.Float64bits(w) {
				add("Float64() = %v (bits %x),%v want %v (bits %x)", got, math.Float64bits(got), gerr, w, math.Float64bits(w))
			}
			if got, gerr := n.StrictFloat64(); gerr != nil || math.Float64bits(got) != math.Float64bits(w) {
				add("StrictFloat64() = %v (bits %x),%v want %v (bits %x)", got, math.Float64bits(got), gerr, w, math.Float64bits(w))
			}
		}
		if w, err := strconv.ParseInt(string(v), 10, 64); err == nil {
			if got, gerr := n.Int64(); gerr != nil || got != w {
				add("Int64() = %v,%v want %v", got, gerr, w)
			}
			if got, gerr := n.StrictInt64(); gerr != nil || got != w {
				add("StrictInt64() = %v,%v want %v", got, gerr, w)
			}
		}
	case []interface{}:
		var elems []json.RawMessage
		json.Unmarshal([]byte(want), &elems)
		i := 0
		err := n.ForEach(func(p ast.Sequence, c *ast.Node) bool {
			if p.Index != i || p.Key != nil {
				add("ForEach array event %d has Sequence %v", i, p)
			}
			if i < len(elems) {
				ec, _ := ast.VerifCanon(string(elems[i]))
				if got := ast.VerifAbs(c); got != ec {
					add("ForEach element %d denotes %s, expected %s", i, got, ec)
				}
			}
			i++
			return true
		})
		if err != nil || i != len(elems) {
			add("ForEach visited %d of %d elements, err %v", i, len(elems), err)
		}
		if l, err := n.Len(); err != nil || l != len(elems) {
			add("Len() after ForEach = %d,%v want %d", l, err, len(elems))
		}
		if vs, err := n.Array(); err != nil || !sameIface(vs, std) {
			add("Array() differs from encoding/json: %v", err)
		}
	case map[string]interface{}:
		// members in document order, duplicates kept: token walk
		dec := json.NewDecoder(strings.NewReader(want))
		dec.UseNumber()
		dec.Token()
		var keys []string
		var vals []string
		for dec.More() {
			kt, _ := dec.Token()
			var raw json.RawMessage
			dec.Decode(&raw)
			keys = append(keys, kt.(string))
			c, _ := ast.VerifCanon(string(raw))
			vals = append(vals, c)
		}
		i := 0
		err := n.ForEach(func(p ast.Sequence, c *ast.Node) bool {
			if p.Index != i || p.Key == nil || (i < len(keys) && *p.Key != keys[i]) {
				add("ForEach object event %d has Sequence %v", i, p)
			}
			if i < len(vals) {
				if got := ast.VerifAbs(c); got != vals[i] {
					add("ForEach member %d denotes %s, expected %s", i, got, vals[i])
				}
			}
			i++
			return true
		})
		if err != nil || i != len(keys) {
			add("ForEach visited %d of %d members, err %v", i, len(keys), err)
		}
		if m, err := n.Map(); err != nil || !sameIface(m, std) {
			add("Map() differs from encoding/json: %v", err)
		}
	}
}

type Case struct {
	ID    string
	Text  string
	Path  []Sel
	Skips []int // ordinals of the containers for which the visitor answers VisitOPSkip
}

func skipsString(s []int) string {
	if len(s) == 0 {
		return "-"
	}
	xs := make([]string, len(s))
	for i, v := range s {
		xs[i] = strconv.Itoa(v)
	}
	return strings.Join(xs, ",")
}

func runCase(c *Case) string {
	var problems []string
	ip := ifacePath(c.Path)
	// ---- searcher family
	g0, n0 := search(func() (ast.Node, error) { return sonic.GetFromString(c.Text, ip...) })
	variants := map[string]func() (ast.Node, error){
		"Get":               func() (ast.Node, error) { return sonic.Get([]byte(c.Text), ip...) },
		"GetCopyFromString": func() (ast.Node, error) { return sonic.GetCopyFromString(c.Text, ip...) },
		"Searcher":          func() (ast.Node, error) { return ast.NewSearcher(c.Text).GetByPath(ip...) },
		"SearcherCopy":      func() (ast.Node, error) { return ast.NewSearcher(c.Text).GetByPathCopy(ip...) },
	}
	for o := 0; o < 8; o++ {
		opts := ast.SearchOptions{ValidateJSON: o&1 != 0, CopyReturn: o&2 != 0, ConcurrentRead: o&4 != 0}
		variants[fmt.Sprintf("GetWithOptions%+v", opts)] = func() (ast.Node, error) {
			return sonic.GetWithOptions([]byte(c.Text), opts, ip...)
		}
	}
	for name, f := range variants {
		if g, _ := search(f); g != g0 {
			problems = append(problems, fmt.Sprintf("%s gives %s but GetFromString gives %s", name, g, g0))
		}
	}
	// ---- oracle
	oc, oraw := oracleNavigate(c.Text, c.Path)
	want := oc
	if oc == "ok" {
		cn, _ := ast.VerifCanon(oraw)
		want = "ok:" + cn
	}
	if g0 != want {
		problems = append(problems, fmt.Sprintf("search gives %s, the encoding/json token walk gives %s", g0, want))
	}
	if oc == "ok" && strings.HasPrefix(g0, "ok:") {
		checkViews(&n0, oraw, &problems)
		nc, _ := sonic.GetWithOptions([]byte(c.Text), ast.SearchOptions{ConcurrentRead: true, CopyReturn: true}, ip...)
		checkViews(&nc, oraw, &problems)
	}
	// ---- node family
	root := ast.NewRaw(c.Text)
	nres := lookNode(&root, c.Path, true)
	root2 := ast.NewRaw(c.Text)
	if r := lookNode(&root2, c.Path, false); r != nres {
		problems = append(problems, fmt.Sprintf("Get/Index chain gives %s but GetByPath gives %s", r, nres))
	}
	root3 := ast.NewRawConcurrentRead(c.Text)
	if r := lookNode(&root3, c.Path, true); r != nres {
		tag := "CONCURRENT"
		if dupIdxOnPath(c.Text, c.Path) {
			tag = "KNOWN-dupidx"
		}
		problems = append(problems, fmt.Sprintf("%s: concurrent-read root gives %s but raw root gives %s", tag, r, nres))
	}
	root4, _ := sonic.GetFromString(c.Text)
	if r := lookNode(&root4, c.Path, true); r != nres {
		problems = append(problems, fmt.Sprintf("root from sonic.Get gives %s but raw root gives %s", r, nres))
	}
	// the node family against the oracle (Node.Index also addresses the i-th member of an object)
	dupIdx := dupIdxOnPath(c.Text, c.Path)
	oc, oraw = oracleNav(c.Text, c.Path, true)
	if oc == "ok" {
		cn, _ := ast.VerifCanon(oraw)
		if !strings.HasSuffix(nres, ":"+tr(cn)) || !strings.HasPrefix(nres, "K:11:ok:") {
			problems = append(problems, fmt.Sprintf("Node.GetByPath gives %s, the encoding/json token walk locates %s", nres, cn))
		}
		if p := root.GetByPath(ip...); p != nil && p.Valid() {
			checkViews(p, oraw, &problems)
		}
		// after the whole document has been loaded (index built for large objects)
		root5 := ast.NewRaw(c.Text)
		root5.LoadAll()
		deep := root5.GetByPath(ip...)
		for i := range c.Path {
			if q := root5.GetByPath(ip[:i]...); q != nil {
				q.LoadAll()
			}
		}
		deep = root5.GetByPath(ip...)
		if got := ast.VerifAbs(deep); deep == nil || got != cn {
			tag := "LOADED"
			if dupIdx {
				tag = "KNOWN-dupidx"
			}
			problems = append(problems, fmt.Sprintf("%s: after LoadAll along the path GetByPath locates %s, expected %s", tag, got, cn))
		}
	} else if strings.HasPrefix(nres, "K:11") {
		problems = append(problems, fmt.Sprintf("Node.GetByPath finds a value (%s) where the token walk says %s", nres, oc))
	}
	// ---- preorder
	rec := &recorder{problems: &problems}
	pres := ""
	func() {
		defer func() {
			if r := recover(); r != nil {
				pres = "panic"
			}
		}()
		if err := ast.Preorder(c.Text, rec, nil); err != nil {
			pres = "error"
		} else {
			pres = strings.Join(rec.evs, " ")
		}
	}()
	if oe := oracleEvents(c.Text); oe != pres {
		problems = append(problems, "Preorder events differ from the encoding/json token stream: "+pres+" / "+oe)
	}
	// ---- preorder with a visitor that skips containers
	skipset := map[int]bool{}
	for _, v := range c.Skips {
		skipset[v] = true
	}
	srec := &skipRecorder{skips: skipset}
	srec.problems = &problems
	pskip := ""
	func() {
		defer func() {
			if r := recover(); r != nil {
				pskip = "panic"
			}
		}()
		if err := ast.Preorder(c.Text, srec, nil); err != nil {
			pskip = "error"
		} else {
			pskip = strings.Join(srec.evs, " ")
		}
	}()
	if oe := oracleEventsSkip(c.Text, skipset); oe != pskip {
		msg := "Preorder with VisitOPSkip at containers " + skipsString(c.Skips) + " differs from the encoding/json token stream with those subtrees removed: " + pskip + " / " + oe
		problems = append(problems, msg)
	}
	prob := "-"
	if len(problems) > 0 {
		for i := range problems {
			problems[i] = strings.NewReplacer("\t", " ", "\n", " ").Replace(problems[i])
			if len(problems[i]) > 600 {
				problems[i] = strings.ToValidUTF8(problems[i][:600], "?")
			}
		}
		prob = strings.Join(problems, " ;; ")
	}
	g := g0
	if strings.HasPrefix(g, "ok:") {
		g = "ok:" + tr(g[3:])
	}
	return strings.Join([]string{c.ID, g, nres, tr(pres), prob, tr(pskip)}, "\t")
}

func (c *Case) Line() string {
	return strings.Join([]string{c.ID, tokenize(c.Text), pathString(c.Path), out.HexS(c.Text), skipsString(c.Skips)}, "\t")
}

func parseCase(line string) *Case {
	f := strings.Split(line, "\t")
	b, _ := hex.DecodeString(f[3])
	c := &Case{ID: f[0], Text: string(b), Path: parsePath(f[2])}
	if len(f) > 4 && f[4] != "-" && f[4] != "" {
		for _, x := range strings.Split(f[4], ",") {
			v, _ := strconv.Atoi(x)
			c.Skips = append(c.Skips, v)
		}
	}
	return c
}

// an object of 17..40 members in which the key at position pos (first / middle / last) occurs a second time,
// possibly wrapped in an array or an object; the path addresses the duplicated key
func (g *gen) dupBig() (*T, []Sel) {
	n := 17 + g.r.Intn(24)
	t := &T{K: '{'}
	for i := 0; i < n; i++ {
		t.Keys = append(t.Keys, fmt.Sprintf("m%d", i))
		t.A = append(t.A, &T{K: 'N', S: strconv.Itoa(100 + i)})
	}
	pos := []int{0, 0, n / 2, n - 1}[g.r.Intn(4)]
	other := g.r.Intn(n)
	for other == pos {
		other = g.r.Intn(n)
	}
	if pos == 0 && g.r.Bool() {
		other = n - 1
	}
	t.Keys[other] = t.Keys[pos]
	t.A[other] = &T{K: 'S', S: "second"}
	if other < pos {
		t.A[other], t.A[pos] = &T{K: 'N', S: strconv.Itoa(100 + other)}, &T{K: 'S', S: "second"}
	}
	key := t.Keys[pos]
	switch g.r.Intn(3) {
	case 0:
		return t, []Sel{{Key: key, IsKey: true}}
	case 1:
		return &T{K: '[', A: []*T{{K: 'Z'}, t}}, []Sel{{Idx: 1}, {Key: key, IsKey: true}}
	default:
		return &T{K: '{', Keys: []string{"a", "o"}, A: []*T{{K: 'T'}, t}}, []Sel{{Key: "o", IsKey: true}, {Key: key, IsKey: true}}
	}
}

// a wide, shallow document: thousands of empty / one-element containers as siblings (depth accounting of the traverser)
func (g *gen) wide() *T {
	n := 5000 + g.r.Intn(1500)
	kind := g.r.Intn(4)
	root := &T{K: '['}
	for i := 0; i < n; i++ {
		var c *T
		switch (kind + i*(kind&1)) % 4 {
		case 0:
			c = &T{K: '['}
		case 1:
			c = &T{K: '{'}
		case 2:
			c = &T{K: '[', A: []*T{{K: 'N', S: "1"}}}
		default:
			c = &T{K: '{', Keys: []string{"tags"}, A: []*T{{K: '['}}}
		}
		if g.r.Chance(1, 2) {
			c = &T{K: '{', Keys: []string{"id", "tags"}, A: []*T{{K: 'N', S: strconv.Itoa(i)}, c}}
		}
		root.A = append(root.A, c)
	}
	if g.r.Bool() {
		return &T{K: '{', Keys: []string{"records"}, A: []*T{root}}
	}
	return root
}

func genCase(id int, r *rng.R) *Case {
	g := &gen{r: r, keys: mkKeys(r), dup: r.Chance(1, 3)}
	var doc *T
	var forced []Sel
	switch {
	case id%1500 == 11 || id%1500 == 700:
		doc = g.wide()
	case r.Chance(1, 20):
		doc, forced = g.dupBig()
	case r.Chance(1, 15):
		doc = g.scalar()
	default:
		doc = g.container(r.Intn(3) > 0, sizes[r.Intn(len(sizes))], 0)
	}
	var sb strings.Builder
	dense := r.Chance(1, 3)
	ws(&sb, r, dense)
	render(&sb, doc, r, dense)
	ws(&sb, r, dense)
	text := sb.String()
	if !json.Valid([]byte(text)) {
		panic("harness: generated an invalid document: " + text)
	}
	_ = bytes.MinRead
	path := forced
	if path == nil {
		path = g.path(doc)
	}
	// the visitor skips a few containers chosen among the first ones it is told about (ordinals are in announcement order)
	var skips []int
	ncont := strings.Count(text, "{") + strings.Count(text, "[")
	if ncont > 0 {
		for n := r.Intn(4); n > 0; n-- {
			skips = append(skips, r.Intn(ncont))
		}
		if r.Chance(1, 6) {
			skips = append(skips, 0)
		}
	}
	return &Case{ID: fmt.Sprintf("c%d", id), Text: text, Path: path, Skips: skips}
}

func main() {
	flag.Parse()
	switch *mode {
	case "gen":
		cw, iw := out.Create(*casesF), out.Create(*implF)
		r := rng.New(*seed)
		for i := 0; i < *ncases; i++ {
			c := genCase(i, r.Fork(uint64(i)))
			cw.Line(c.Line())
			iw.Line(runCase(c))
		}
		cw.Close()
		iw.Close()
	case "run":
		data, err := os.ReadFile(*casesF)
		if err != nil {
			panic(err)
		}
		iw := out.Create(*implF)
		var norm []string
		for _, line := range strings.Split(string(data), "\n") {
			if strings.TrimSpace(line) == "" || line[0] == '#' {
				continue
			}
			c := parseCase(line)
			iw.Line(runCase(c))
			norm = append(norm, c.Line())
		}
		iw.Close()
		// the case file is rewritten with the token field recomputed from the text (the model reads it next)
		os.WriteFile(*casesF, []byte(strings.Join(norm, "\n")+"\n"), 0o644)
	}
}
