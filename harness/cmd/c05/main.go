// c05: results depend only on the input bytes; nothing outside the input is ever read.
//
// Every case places the input inside a private mmap'ed region [page0 page1 | page2 PROT_NONE]:
//   - flush:  the input ends exactly where the unmapped page begins (a read of even one byte behind it faults;
//     debug.SetPanicOnFault turns the fault into a recoverable panic carrying the address)
//   - cont/k: the same bytes at another alignment, followed by an adversarial continuation (`"`, `\`, digits, the rest
//     of a valid document, 0xFF..) - the observable result must be identical for every continuation and equal to the
//     flush result.
//
//	-mode model   raw native Value on short inputs (exhaustive over a small alphabet), one line per case for the tie with
//	              the extracted read-monad model (fault <=> model predicts an index >= len)
//	-mode place   all entry points x generated inputs, JSON report; -progress names the running case (a fatal crash is attributed)
package main

import (
	"encoding/hex"
	"encoding/json"
	"flag"
	"fmt"
	"io"
	"os"
	"reflect"
	"runtime/debug"
	"sort"
	"strings"
	"syscall"
	"unsafe"

	"github.com/bytedance/sonic"
	"github.com/bytedance/sonic/ast"
	"github.com/bytedance/sonic/decoder"
	"github.com/bytedance/sonic/encoder"
	"github.com/bytedance/sonic/unquote"
	"github.com/bytedance/sonic/utf8"
	"github.com/bytedance/sonic/verifx"

	"verif/harness/internal/jgen"
	"verif/harness/internal/out"
	"verif/harness/internal/rng"
)

var (
	mode     = flag.String("mode", "place", "")
	seed     = flag.Uint64("seed", 1, "")
	n        = flag.Int("n", 1000, "")
	outp     = flag.String("out", "/dev/stdout", "")
	progress = flag.String("progress", "", "")
	tier     = flag.String("tier", "quick", "")
	only     = flag.String("entry", "", "run only entries with this prefix")
	inputHex = flag.String("input", "", "hex input (replay)")
	corpus   = flag.String("corpus", "", "directory of *.case files: entry-prefix TAB hex")
)

const page = 4096

var (
	region []byte
	base   unsafe.Pointer
)

func setup() {
	var err error
	region, err = syscall.Mmap(-1, 0, 3*page, syscall.PROT_READ|syscall.PROT_WRITE, syscall.MAP_ANON|syscall.MAP_PRIVATE)
	if err != nil {
		panic(err)
	}
	if err := syscall.Mprotect(region[2*page:], syscall.PROT_NONE); err != nil {
		panic(err)
	}
	base = unsafe.Pointer(&region[0])
	debug.SetPanicOnFault(true)
}

func poison() {
	for i := 0; i < 2*page; i++ {
		region[i] = 0xA5
	}
}

// placeFlush: the input ends at the first byte of the unmapped page
func placeFlush(in []byte) unsafe.Pointer {
	poison()
	off := 2*page - len(in)
	copy(region[off:2*page], in)
	return unsafe.Add(base, off)
}

// placeCont: input at page0+align, followed by cont and then poison
func placeCont(in []byte, align int, cont []byte) unsafe.Pointer {
	poison()
	off := 64 + align
	copy(region[off:], in)
	copy(region[off+len(in):2*page], cont)
	return unsafe.Add(base, off)
}

func str(p unsafe.Pointer, n int) (s string) {
	h := (*reflect.StringHeader)(unsafe.Pointer(&s))
	h.Data, h.Len = uintptr(p), n
	return
}
func bs(p unsafe.Pointer, n int) []byte  { return unsafe.Slice((*byte)(p), n) }

// run f; fault = a memory fault (address reported) happened
func guard(f func() string) (res string, fault bool, addr uintptr) {
	defer func() {
		if r := recover(); r != nil {
			if e, ok := r.(interface{ Addr() uintptr }); ok {
				fault, addr = true, e.Addr()
				res = "FAULT"
				return
			}
			res = fmt.Sprintf("PANIC:%v", r)
			if len(res) > 200 {
				res = res[:200]
			}
		}
	}()
	return f(), false, 0
}

// ------------------------------------------------------------------ entries

type entry struct {
	name string
	// run on the string / byte view of the placed input; returns a canonical summary of everything observable
	run func(p unsafe.Pointer, n int) string
	max int // longest input this entry is run on (0 = no limit)
}

type Rec struct {
	A    int                    `json:"a"`
	B    string                 `json:"b"`
	C    []int                  `json:"c"`
	D    map[string]interface{} `json:"d"`
	F    float64                `json:"f"`
	Name string                 `json:"name"`
	ID   int64                  `json:"id,string"`
	Key  bool                   `json:"key"`
	N    *Rec                   `json:"n"`
}

func errClass(err error) string {
	if err == nil {
		return "ok"
	}
	// no positions / texts: only that it failed and how (type)
	return "err:" + reflect.TypeOf(err).String()
}

func dump(v interface{}) string {
	b, err := json.Marshal(v)
	if err != nil {
		return fmt.Sprintf("%#v", v)
	}
	return string(b)
}

func nativeEntries(fs *verifx.Funcs) []entry {
	nm := "native." + fs.Name + "."
	return []entry{
		{nm + "Value", func(p unsafe.Pointer, n int) string {
			var st verifx.JsonState
			r := fs.Value(p, n, 0, unsafe.Pointer(&st), 0)
			return fmt.Sprintf("%d/%d/%d/%x/%d", r, st.Vt, st.Iv, st.Dv, st.Ep)
		}, 0},
		{nm + "Value.usenumber", func(p unsafe.Pointer, n int) string {
			var st verifx.JsonState
			r := fs.Value(p, n, 0, unsafe.Pointer(&st), 2)
			return fmt.Sprintf("%d/%d/%d/%d", r, st.Vt, st.Iv, st.Ep)
		}, 0},
		{nm + "SkipOne", func(p unsafe.Pointer, n int) string {
			s := str(p, n)
			pos := 0
			m := verifx.NewStateMachine()
			r := fs.SkipOne(unsafe.Pointer(&s), unsafe.Pointer(&pos), unsafe.Pointer(m), 0)
			return fmt.Sprintf("%d/%d", r, pos)
		}, 0},
		{nm + "SkipOneFast", func(p unsafe.Pointer, n int) string {
			s := str(p, n)
			pos := 0
			r := fs.SkipOneFast(unsafe.Pointer(&s), unsafe.Pointer(&pos))
			return fmt.Sprintf("%d/%d", r, pos)
		}, 0},
		{nm + "ValidateOne", func(p unsafe.Pointer, n int) string {
			s := str(p, n)
			pos := 0
			m := verifx.NewStateMachine()
			r := fs.ValidateOne(unsafe.Pointer(&s), unsafe.Pointer(&pos), unsafe.Pointer(m), 0)
			return fmt.Sprintf("%d/%d", r, pos)
		}, 0},
		{nm + "GetByPath", func(p unsafe.Pointer, n int) string {
			s := str(p, n)
			res := ""
			for _, path := range [][]interface{}{{0}, {"a"}, {1, "b"}, {"a", 0}, {5}} {
				pos := 0
				m := verifx.NewStateMachine()
				pp := path
				r := fs.GetByPath(unsafe.Pointer(&s), unsafe.Pointer(&pos), unsafe.Pointer(&pp), unsafe.Pointer(m))
				res += fmt.Sprintf("%d/%d;", r, pos)
			}
			return res
		}, 0},
		{nm + "Vstring", func(p unsafe.Pointer, n int) string {
			s := str(p, n)
			res := ""
			for _, fl := range []uint64{0, 1 << 5} {
				pos := 1
				if n == 0 {
					pos = 0
				}
				var st verifx.JsonState
				fs.Vstring(unsafe.Pointer(&s), unsafe.Pointer(&pos), unsafe.Pointer(&st), fl)
				res += fmt.Sprintf("%d/%d/%d/%d;", pos, st.Vt, st.Iv, st.Ep)
			}
			return res
		}, 0},
		{nm + "Vnumber", func(p unsafe.Pointer, n int) string {
			s := str(p, n)
			res := ""
			for _, f := range []func(unsafe.Pointer, unsafe.Pointer, unsafe.Pointer){fs.Vnumber, fs.Vsigned, fs.Vunsigned} {
				pos := 0
				var st verifx.JsonState
				var dbuf [800]byte
				st.Dbuf = &dbuf[0]
				st.Dcap = 800
				f(unsafe.Pointer(&s), unsafe.Pointer(&pos), unsafe.Pointer(&st))
				res += fmt.Sprintf("%d/%d/%d/%x;", pos, st.Vt, st.Iv, st.Dv)
			}
			return res
		}, 0},
		{nm + "SkipNumber", func(p unsafe.Pointer, n int) string {
			if n == 0 {
				return "n/a" // only ever called with *p at a digit or '-' (it looks at *sp before any length test)
			}
			s := str(p, n)
			pos := 0
			r := fs.SkipNumber(unsafe.Pointer(&s), unsafe.Pointer(&pos))
			return fmt.Sprintf("%d/%d", r, pos)
		}, 0},
		{nm + "Lspace", func(p unsafe.Pointer, n int) string {
			return fmt.Sprint(fs.Lspace(p, n, 0))
		}, 0},
		{nm + "Quote", func(p unsafe.Pointer, n int) string {
			res := ""
			for _, fl := range []uint64{0, 1} {
				dst := make([]byte, 6*n+64)
				dn := len(dst)
				r := fs.Quote(p, n, unsafe.Pointer(&dst[0]), unsafe.Pointer(&dn), fl)
				res += fmt.Sprintf("%d/%d/%x;", r, dn, dst[:dn])
			}
			return res
		}, 0},
		{nm + "Unquote", func(p unsafe.Pointer, n int) string {
			res := ""
			for _, fl := range []uint64{0, 1, 2, 3} {
				dst := make([]byte, n+64)
				ep := -1
				r := fs.Unquote(p, n, unsafe.Pointer(&dst[0]), unsafe.Pointer(&ep), fl)
				k := r
				if k < 0 {
					k = 0
				}
				res += fmt.Sprintf("%d/%d/%x;", r, ep, dst[:k])
			}
			return res
		}, 0},
		{nm + "HTMLEscape", func(p unsafe.Pointer, n int) string {
			dst := make([]byte, 6*n+64)
			dn := len(dst)
			r := fs.HTMLEscape(p, n, unsafe.Pointer(&dst[0]), unsafe.Pointer(&dn))
			return fmt.Sprintf("%d/%d/%x", r, dn, dst[:dn])
		}, 0},
		{nm + "ValidateUTF8", func(p unsafe.Pointer, n int) string {
			s := str(p, n)
			pos := 0
			m := verifx.NewStateMachine()
			r := fs.ValidateUTF8(unsafe.Pointer(&s), unsafe.Pointer(&pos), unsafe.Pointer(m))
			r2 := fs.ValidateUTF8Fast(unsafe.Pointer(&s))
			return fmt.Sprintf("%d/%d/%d/%d", r, pos, m.Sp, r2)
		}, 0},
	}
}

func publicEntries() []entry {
	return []entry{
		{"sonic.Valid", func(p unsafe.Pointer, n int) string { return fmt.Sprint(sonic.Valid(bs(p, n))) }, 0},
		{"sonic.ValidString", func(p unsafe.Pointer, n int) string { return fmt.Sprint(sonic.ValidString(str(p, n))) }, 0},
		{"sonic.UnmarshalString/iface", func(p unsafe.Pointer, n int) string {
			var v interface{}
			err := sonic.UnmarshalString(str(p, n), &v)
			if err != nil {
				return errClass(err)
			}
			return "ok:" + dump(v)
		}, 0},
		{"sonic.UnmarshalString/int", func(p unsafe.Pointer, n int) string {
			var v int
			err := sonic.UnmarshalString(str(p, n), &v)
			if err != nil {
				return errClass(err)
			}
			return fmt.Sprint("ok:", v)
		}, 0},
		{"sonic.UnmarshalString/float64", func(p unsafe.Pointer, n int) string {
			var v float64
			err := sonic.UnmarshalString(str(p, n), &v)
			if err != nil {
				return errClass(err)
			}
			return fmt.Sprintf("ok:%x", v)
		}, 0},
		{"sonic.UnmarshalString/string", func(p unsafe.Pointer, n int) string {
			var v string
			err := sonic.UnmarshalString(str(p, n), &v)
			if err != nil {
				return errClass(err)
			}
			return fmt.Sprintf("ok:%x", v)
		}, 0},
		{"sonic.UnmarshalString/struct", func(p unsafe.Pointer, n int) string {
			var v Rec
			err := sonic.UnmarshalString(str(p, n), &v)
			if err != nil {
				return errClass(err)
			}
			return "ok:" + dump(v)
		}, 0},
		{"sonic.UnmarshalString/map[string]iface", func(p unsafe.Pointer, n int) string {
			var v map[string]interface{}
			err := sonic.UnmarshalString(str(p, n), &v)
			if err != nil {
				return errClass(err)
			}
			return "ok:" + dump(v)
		}, 0},
		{"sonic.UnmarshalString/[]iface", func(p unsafe.Pointer, n int) string {
			var v []interface{}
			err := sonic.UnmarshalString(str(p, n), &v)
			if err != nil {
				return errClass(err)
			}
			return "ok:" + dump(v)
		}, 0},
		{"sonic.UnmarshalString/RawMessage", func(p unsafe.Pointer, n int) string {
			var v json.RawMessage
			err := sonic.UnmarshalString(str(p, n), &v)
			if err != nil {
				return errClass(err)
			}
			return "ok:" + string(v)
		}, 0},
		{"sonic.UnmarshalString/struct-iface", func(p unsafe.Pointer, n int) string {
			var v struct {
				A interface{}   `json:"a"`
				C []interface{} `json:"c"`
				D interface{}   `json:"d"`
			}
			err := sonic.UnmarshalString(str(p, n), &v)
			if err != nil {
				return errClass(err)
			}
			return "ok:" + dump(v)
		}, 0},
		{"sonic.UnmarshalString/bool", func(p unsafe.Pointer, n int) string {
			var v bool
			err := sonic.UnmarshalString(str(p, n), &v)
			if err != nil {
				return errClass(err)
			}
			return fmt.Sprint("ok:", v)
		}, 0},
		{"ConfigStd.UnmarshalFromString/iface", func(p unsafe.Pointer, n int) string {
			var v interface{}
			err := sonic.ConfigStd.UnmarshalFromString(str(p, n), &v)
			if err != nil {
				return errClass(err)
			}
			return "ok:" + dump(v)
		}, 0},
		{"decoder.Decode/usenumber", func(p unsafe.Pointer, n int) string {
			d := decoder.NewDecoder(str(p, n))
			d.UseNumber()
			var v interface{}
			err := d.Decode(&v)
			if err != nil {
				return errClass(err)
			}
			return "ok:" + dump(v)
		}, 0},
		{"decoder.Skip", func(p unsafe.Pointer, n int) string {
			a, b := decoder.Skip(bs(p, n))
			return fmt.Sprint(a, "/", b)
		}, 0},
		{"sonic.GetFromString", func(p unsafe.Pointer, n int) string {
			res := ""
			for _, path := range [][]interface{}{{}, {0}, {"a"}, {"a", 1}, {5}} {
				nd, err := sonic.GetFromString(str(p, n), path...)
				if err != nil {
					res += errClass(err) + ";"
					continue
				}
				r, e2 := nd.Raw()
				res += fmt.Sprintf("ok:%x:%v;", r, e2 == nil)
			}
			return res
		}, 0},
		{"sonic.Get", func(p unsafe.Pointer, n int) string {
			nd, err := sonic.Get(bs(p, n), "a")
			if err != nil {
				return errClass(err)
			}
			r, _ := nd.Raw()
			return "ok:" + r
		}, 0},
		{"ast.Loads", func(p unsafe.Pointer, n int) string {
			k, v, err := ast.Loads(str(p, n))
			if err != nil {
				return "err"
			}
			return fmt.Sprint("ok:", k, ":", dump(v))
		}, 0},
		{"ast.NewRaw.LoadAll", func(p unsafe.Pointer, n int) string {
			nd := ast.NewRaw(str(p, n))
			if err := nd.LoadAll(); err != nil {
				return "err"
			}
			b, err := nd.MarshalJSON()
			return fmt.Sprintf("ok:%x:%v", b, err == nil)
		}, 0},
		{"ast.Searcher", func(p unsafe.Pointer, n int) string {
			s := ast.NewSearcher(str(p, n))
			s.ValidateJSON = true
			nd, err := s.GetByPath("a", 0)
			if err != nil {
				return errClass(err)
			}
			r, _ := nd.Raw()
			return "ok:" + r
		}, 0},
		{"ast.Preorder", func(p unsafe.Pointer, n int) string {
			v := &cv{}
			err := ast.Preorder(str(p, n), v, nil)
			return fmt.Sprintf("%v:%x", err == nil, v.h)
		}, 0},
		{"encoder.Quote", func(p unsafe.Pointer, n int) string { return encoder.Quote(str(p, n)) }, 0},
		{"sonic.MarshalString", func(p unsafe.Pointer, n int) string {
			s, err := sonic.ConfigStd.MarshalToString(map[string]interface{}{"k": str(p, n), str(p, n): 1})
			return fmt.Sprint(s, err == nil)
		}, 0},
		{"encoder.HTMLEscape", func(p unsafe.Pointer, n int) string { return string(encoder.HTMLEscape(nil, bs(p, n))) }, 0},
		{"unquote.String", func(p unsafe.Pointer, n int) string {
			r, err := unquote.String(str(p, n))
			return fmt.Sprintf("%x/%d", r, err)
		}, 0},
		{"utf8.Validate", func(p unsafe.Pointer, n int) string {
			return fmt.Sprint(utf8.Validate(bs(p, n)), utf8.ValidateString(str(p, n)))
		}, 0},
		{"utf8.CorrectWith", func(p unsafe.Pointer, n int) string {
			return fmt.Sprintf("%x", utf8.CorrectWith(nil, bs(p, n), "?"))
		}, 0},
		{"encoder.Valid", func(p unsafe.Pointer, n int) string {
			ok, st := encoder.Valid(bs(p, n))
			return fmt.Sprint(ok, st)
		}, 0},
	}
}

type cv struct{ h uint64 }

func (v *cv) add(s string) {
	for i := 0; i < len(s); i++ {
		v.h = v.h*1099511628211 + uint64(s[i]) + 1
	}
	v.h = v.h*31 + 7
}
func (v *cv) OnNull() error                               { v.add("n"); return nil }
func (v *cv) OnBool(b bool) error                         { v.add(fmt.Sprint(b)); return nil }
func (v *cv) OnString(s string) error                     { v.add("s" + s); return nil }
func (v *cv) OnInt64(i int64, n json.Number) error        { v.add("i" + string(n)); return nil }
func (v *cv) OnFloat64(f float64, n json.Number) error    { v.add("f" + string(n)); return nil }
func (v *cv) OnObjectBegin(int) error                     { v.add("{"); return nil }
func (v *cv) OnObjectKey(k string) error                  { v.add("k" + k); return nil }
func (v *cv) OnObjectEnd() error                          { v.add("}"); return nil }
func (v *cv) OnArrayBegin(int) error                      { v.add("["); return nil }
func (v *cv) OnArrayEnd() error                           { v.add("]"); return nil }

// ------------------------------------------------------------------ continuations

var conts = [][]byte{
	[]byte(`"`),
	[]byte(`\"`),
	[]byte(`0123456789.5e3`),
	[]byte(`rue,"a":[1,2,{"b":null}],"x":"y"}]}  `),
	{0xff, 0xfe, 0x80, 0x80},
	[]byte("ull alse e+5 :1}]\n"),
	{0, 0, 0, 0, 0, 0, 0, 0},
	[]byte(`]`), []byte(`}`), []byte(`1`), []byte(`"x"`), []byte(`null`), []byte(`,2]`), []byte(`:1}`),
}

// how many of the continuations are used (the structural ones at the end only where truncation at a token position matters)
var nConts = 7

// ------------------------------------------------------------------ report

type failure struct {
	Entry  string `json:"entry"`
	Kind   string `json:"kind"` // fault | tail-dependent | panic
	Input  string `json:"input_hex"`
	Detail string `json:"detail"`
}

type report struct {
	Evaluations int            `json:"evaluations"`
	Placements  int            `json:"placements"`
	Nontrivial  int            `json:"distinct_nontrivial"`
	PerEntry    map[string]int `json:"per_entry"`
	PerGen      map[string]int `json:"per_generator"`
	Lengths     map[string]int `json:"lengths"`
	Faults      int            `json:"faults"`
	TailDep     int            `json:"tail_dependent"`
	Failures    []failure      `json:"failures"`
	FailCount   map[string]int `json:"failure_counts"`
	Samples     []string       `json:"samples"`
}

var rep = report{PerEntry: map[string]int{}, PerGen: map[string]int{}, Lengths: map[string]int{}, FailCount: map[string]int{}}
var pf *os.File

func fail(entry, kind string, in []byte, detail string) {
	key := entry + "|" + kind
	rep.FailCount[key]++
	if kind == "fault" {
		rep.Faults++
	} else if kind == "tail-dependent" {
		rep.TailDep++
	}
	if rep.FailCount["#"+key+"|"+fmt.Sprint(len(in))] >= 2 || rep.FailCount["##"+key] >= 12 {
		return
	}
	rep.FailCount["#"+key+"|"+fmt.Sprint(len(in))]++
	rep.FailCount["##"+key]++
	if len(detail) > 400 {
		detail = detail[:400]
	}
	rep.Failures = append(rep.Failures, failure{entry, kind, hex.EncodeToString(in), detail})
}

func writeProgress(entry string, in []byte) {
	if pf == nil {
		return
	}
	pf.Truncate(0)
	pf.WriteAt([]byte(entry+"\t"+hex.EncodeToString(in)+"\n"), 0)
}

// one case: flush placement + continuations
func runCase(e entry, in []byte) {
	if e.max > 0 && len(in) > e.max {
		return
	}
	writeProgress(e.name, in)
	rep.Evaluations++
	rep.PerEntry[e.name]++
	p := placeFlush(in)
	rep.Placements++
	ref, fault, addr := guard(func() string { return e.run(p, len(in)) })
	if fault {
		fail(e.name, "fault", in, fmt.Sprintf("fault at input end + %d", int64(addr)-int64(uintptr(base))-2*page))
	} else if strings.HasPrefix(ref, "PANIC") {
		fail(e.name, "panic", in, ref)
	}
	var first string
	for k, c := range conts[:nConts] {
		pc := placeCont(in, (k*7+len(in))%64, c)
		rep.Placements++
		r, f2, _ := guard(func() string { return e.run(pc, len(in)) })
		if f2 {
			fail(e.name, "fault", in, "fault with a mapped continuation?!")
			continue
		}
		if k == 0 {
			first = r
		}
		want := first
		if !fault && !strings.HasPrefix(ref, "PANIC") {
			want = ref
		}
		if r != want {
			a, b := want, r
			if len(a) > 120 {
				a = a[:120]
			}
			if len(b) > 120 {
				b = b[:120]
			}
			fail(e.name, "tail-dependent", in, fmt.Sprintf("continuation #%d %q: %q, otherwise %q", k, c, b, a))
			break
		}
	}
}

func lenClass(n int) string {
	switch {
	case n < 4:
		return fmt.Sprint(n)
	case n < 16:
		return "4-15"
	case n < 32:
		return "16-31"
	case n < 64:
		return "32-63"
	case n < 128:
		return "64-127"
	default:
		return ">=128"
	}
}

// ------------------------------------------------------------------ generators

func shortAlphabetInputs(maxLen int, alpha string) [][]byte {
	var res [][]byte
	var rec func(prefix []byte)
	rec = func(prefix []byte) {
		res = append(res, append([]byte{}, prefix...))
		if len(prefix) == maxLen {
			return
		}
		for i := 0; i < len(alpha); i++ {
			rec(append(prefix, alpha[i]))
		}
	}
	rec(nil)
	return res
}

var fixedDocs = []string{
	`{"a":1,"b":"x","c":[1,2,3],"d":{"k":null},"f":1.5e3,"name":"né😀\n","id":"42","key":true,"n":{"a":0}}`,
	`[1,-2,3.25,1e10,"s\\\"",null,true,false,{"a":[{}]},[[[[]]]],0]`,
	`{"a":[0,{"b":0.5}],"x":-0}`,
	`"a long string with   and \"escapes\" and \t tabs \\ backslashes <>&"`,
	`-0.000000000000000000000000000000000000001234567890123456789e-300`,
	` { "a" : [ true , false , null ] } `,
	`123456789012345678901234567890`, `true`, `false`, `null`, `0`, `-0`, `""`, `[]`, `{}`, `[0]`, `{"a":0}`,
}

func lengthSweep(tierQuick bool) [][]byte {
	var res [][]byte
	maxLen := 300
	step := 1
	if tierQuick {
		step = 1
	}
	for l := 0; l <= maxLen; l += step {
		// strings, numbers, blanks, arrays and literals whose total length is exactly l
		mk := func(s string) {
			if len(s) == l {
				res = append(res, []byte(s))
			}
		}
		if l >= 2 {
			mk(`"` + strings.Repeat("a", l-2) + `"`)
			mk(`"` + strings.Repeat("a", l-1)) // unterminated
		}
		if l >= 3 {
			mk(strings.Repeat("\xe2\x80\xa8", l/3) + strings.Repeat("x", l%3))
		}
		if l >= 4 {
			mk(`"` + strings.Repeat("a", l-4) + `\n"`)
			mk(`"` + strings.Repeat("a", l-3) + `\"`)
			mk(`["` + strings.Repeat("\xe4\xb8\xad", (l-4)/3) + strings.Repeat("b", (l-4)%3) + `"]`)
		}
		if l >= 1 {
			// inputs whose escaped form is several times longer: the quote / html-escape loops must grow and resume mid-input
			mk(strings.Repeat("<", l))
			mk(strings.Repeat("\x01", l))
			mk(strings.Repeat("\"", l))
			mk(strings.Repeat("a", l/2) + strings.Repeat("&", l-l/2))
			mk(strings.Repeat("7", l))
			mk(strings.Repeat(" ", l-1) + "1")
			mk(strings.Repeat(" ", l))
			mk("1." + strings.Repeat("5", max(0, l-2)))
		}
		if l >= 5 {
			mk(strings.Repeat(" ", l-4) + "true")
			mk(strings.Repeat(" ", l-4) + "nul") // one short, shifted
			mk(strings.Repeat("[", (l-1)/2) + "0" + strings.Repeat("]", l-1-(l-1)/2))
			mk(`{"k":` + strings.Repeat(" ", max(0, l-6)) + `0`)
			mk(`[` + strings.Repeat("1,", (l-2)/2) + strings.Repeat(" ", (l-2)%2) + `0`)
		}
	}
	return res
}

func max(a, b int) int {
	if a > b {
		return a
	}
	return b
}

// ------------------------------------------------------------------ modes

func runModel() {
	// raw native Value (both SIMD variants) on every input up to length 3 over the alphabet, plus sampled longer ones
	w := out.Create(*outp)
	defer w.Close()
	alpha := "tnfrueals0-1.\" []{}:,"
	ins := shortAlphabetInputs(3, alpha)
	r := rng.New(*seed)
	for i := 0; i < *n; i++ {
		l := 4 + r.Intn(6)
		b := make([]byte, l)
		for j := range b {
			b[j] = alpha[r.Intn(len(alpha))]
		}
		ins = append(ins, b)
	}
	// blanks then a token at every distance 0..70 (the 4 manual probes and the 32-byte block loop of lspace)
	for k := 0; k <= 70; k++ {
		for _, tok := range []string{"t", "tr", "true", "0", "-0", "1", "\"", "\"a", "n", "fals", "false", "x", ""} {
			ins = append(ins, []byte(strings.Repeat(" ", k)+tok))
		}
	}
	for _, fs := range []*verifx.Funcs{&verifx.AVX2, &verifx.SSE} {
		for _, in := range ins {
			p := placeFlush(in)
			_, fault, _ := guard(func() string {
				var st verifx.JsonState
				var dbuf [800]byte
				st.Dbuf = &dbuf[0]
				st.Dcap = 800
				fs.Value(p, len(in), 0, unsafe.Pointer(&st), 0)
				return ""
			})
			f := "0"
			if fault {
				f = "1"
			}
			w.Line("V", fs.Name, out.Hex(in), f)
		}
	}
}

func runPlace() {
	if *progress != "" {
		pf, _ = os.Create(*progress)
	}
	var es []entry
	es = append(es, nativeEntries(&verifx.AVX2)...)
	es = append(es, nativeEntries(&verifx.SSE)...)
	es = append(es, publicEntries()...)
	if *only != "" {
		var f []entry
		for _, e := range es {
			if strings.HasPrefix(e.name, *only) {
				f = append(f, e)
			}
		}
		es = f
	}
	seen := map[string]bool{}
	runAll := func(gen string, in []byte) {
		rep.PerGen[gen]++
		nConts = 7
		if gen == "blank-truncation" || gen == "prefixes" || gen == "short-exhaustive" || gen == "replay" {
			nConts = len(conts)
		}
		rep.Lengths[lenClass(len(in))]++
		if !seen[string(in)] {
			seen[string(in)] = true
			if len(in) > 0 {
				rep.Nontrivial++
			}
		}
		for _, e := range es {
			if gen == "blank-truncation" && strings.HasPrefix(e.name, "native.") && !strings.HasSuffix(e.name, ".Value") &&
				!strings.HasSuffix(e.name, ".SkipOne") && !strings.HasSuffix(e.name, ".ValidateOne") && !strings.HasSuffix(e.name, ".GetByPath") {
				continue // the truncation-after-k-blanks sweep targets the value scanners and everything built on them
			}
			runCase(e, in)
		}
	}
	if *inputHex != "" {
		in, _ := hex.DecodeString(*inputHex)
		runAll("replay", in)
		finish()
		return
	}
	if *corpus != "" {
		files, _ := os.ReadDir(*corpus)
		for _, fi := range files {
			if !strings.HasSuffix(fi.Name(), ".case") {
				continue
			}
			b, _ := os.ReadFile(*corpus + "/" + fi.Name())
			parts := strings.Split(strings.TrimSpace(string(b)), "\t")
			if len(parts) != 2 {
				continue
			}
			in, _ := hex.DecodeString(parts[1])
			rep.PerGen["corpus"]++
			for _, e := range es {
				if strings.HasPrefix(e.name, parts[0]) || parts[0] == "*" {
					runCase(e, in)
				}
			}
		}
	}
	// 1. every input up to length 2 over a JSON alphabet + all 3-byte ones over a smaller one
	for _, in := range shortAlphabetInputs(2, "tnf0-1\" []{}:,a\\\xe4") {
		runAll("short-exhaustive", in)
	}
	if *tier != "quick" {
		for _, in := range shortAlphabetInputs(3, "tnfru0-\" [{:,\\") {
			runAll("short-exhaustive", in)
		}
	}
	// 2. every prefix of the fixed documents (truncation at every offset) and the documents themselves
	for _, d := range fixedDocs {
		for k := 0; k <= len(d); k++ {
			if *tier == "quick" && len(d) > 40 && k%3 != 0 && k != len(d) {
				continue
			}
			runAll("prefixes", []byte(d[:k]))
		}
	}
	// 2b. every token position of a few documents, truncated there and followed by exactly k = 0..9 blanks of every kind:
	// the scanners probe up to 4 blanks by hand before they switch to a loop / SIMD
	btDocs := []string{`[1,{"a":[true,"x"],"b":null},2]`, `{"a":1,"c":[1,2],"d":{"k":"v"}}`, `[[1],[2]]`, `"s"`, `12`}
	if *tier == "quick" {
		btDocs = []string{`[1,{"a":["x"]},2]`, `{"a":1,"d":{"k":"v"}}`, `12`}
	}
	for _, d := range btDocs {
		for cut := 0; cut <= len(d); cut++ {
			if cut > 0 && cut < len(d) && !strings.ContainsRune(`[]{},:"`, rune(d[cut-1])) && !strings.ContainsRune(`[]{},:"`, rune(d[cut])) {
				continue // inside a scalar token
			}
			for k := 0; k <= 9; k++ {
				kinds := []string{" ", "\t", "\n", "\r"}
				if *tier == "quick" && !(k >= 3 && k <= 5) {
					kinds = kinds[:1]
				}
				for _, ws := range kinds {
					runAll("blank-truncation", []byte(d[:cut]+strings.Repeat(ws, k)))
				}
				if k >= 2 && (*tier != "quick" || (k >= 3 && k <= 5)) {
					runAll("blank-truncation", []byte(d[:cut]+strings.Repeat(" \n\t\r", 3)[:k]))
				}
			}
		}
	}
	// 3. length sweep 0..300: strings / numbers / blanks / nesting ending at every length (i.e. every alignment of the start)
	for i, in := range lengthSweep(*tier == "quick") {
		if *tier == "quick" && len(in) > 70 && i%5 != 0 {
			continue
		}
		runAll("length-sweep", in)
	}
	// 4. random documents and mutations
	root := rng.New(*seed)
	jo := jgen.Default
	for i := 0; i < *n; i++ {
		r := root.Fork(uint64(i))
		d := jgen.Doc(r, &jo)
		switch r.Intn(3) {
		case 1:
			d = jgen.Mutate(r, d)
		case 2:
			d = d[:r.Intn(len(d)+1)]
		}
		if len(d) > 1500 {
			d = d[:1500]
		}
		if len(rep.Samples) < 5 && len(d) < 60 {
			rep.Samples = append(rep.Samples, d)
		}
		runAll("random-doc", []byte(d))
	}
	finish()
}

// ---- resume: multi-value inputs decoded value by value (Decoder.Decode loop, StreamDecoder) after an earlier, longer parse left its
// bytes in the pooled parser; the last value is truncated at every offset.  Oracles: encoding/json's Decoder on the same bytes, and the
// same run after a different earlier parse (the outcome may depend on the input bytes only).
func decodeLoop(s string, useNumber bool) (res []string) {
	defer func() {
		if r := recover(); r != nil {
			m := fmt.Sprintf("PANIC:%v", r)
			if len(m) > 120 {
				m = m[:120]
			}
			res = append(res, m)
		}
	}()
	writeProgress("decoder.Decode-loop", []byte(s))
	d := decoder.NewDecoder(s)
	if useNumber {
		d.UseNumber()
	}
	for i := 0; i < 12; i++ {
		var v interface{}
		err := d.Decode(&v)
		if err != nil {
			res = append(res, "err")
			break
		}
		if d.Pos() > len(s) {
			res = append(res, fmt.Sprintf("pos %d beyond the input (len %d)", d.Pos(), len(s)))
			break
		}
		res = append(res, "ok:"+dump(v))
		if strings.TrimSpace(s[d.Pos():]) == "" {
			break // only blanks left: encoding/json ends the stream here, too
		}
	}
	return res
}

func stdLoop(s string, useNumber bool) []string {
	var res []string
	d := json.NewDecoder(strings.NewReader(s))
	if useNumber {
		d.UseNumber()
	}
	for i := 0; i < 12; i++ {
		var v interface{}
		if err := d.Decode(&v); err != nil {
			if err != io.EOF {
				res = append(res, "err")
			}
			break
		}
		res = append(res, "ok:"+dump(v))
	}
	return res
}

func streamLoop(s string) []string {
	var res []string
	d := decoder.NewStreamDecoder(strings.NewReader(s))
	for i := 0; i < 12; i++ {
		var v interface{}
		if err := d.Decode(&v); err != nil {
			if err != io.EOF {
				res = append(res, "err")
			}
			break
		}
		res = append(res, "ok:"+dump(v))
	}
	return res
}

func runResume() {
	if *progress != "" {
		pf, _ = os.Create(*progress)
	}
	primes := []string{
		"[" + strings.Repeat("7,", 200) + "7]",
		strings.Repeat("[", 150) + strings.Repeat("]", 150),
		strings.Repeat(`{"a":`, 80) + "1" + strings.Repeat("}", 80),
		`["` + strings.Repeat(`x","`, 100) + `x"]`,
		`[` + strings.Repeat(`true,null,false,`, 40) + `0]`,
		strings.Repeat(" ", 300) + "1",
	}
	values := []string{`[1,2,3]`, `{"a":1,"b":[true,null]}`, `"str"`, `[4,5,6,7]`, `{"k":{"x":"y"}}`, `true`, `null`, `[[1],[2,[3]]]`, `12 `, `-3.5e2 `, `[]`, `{}`, `["a","b"]`}
	root := rng.New(*seed)
	cases := 0
	for i := 0; i < *n; i++ {
		r := root.Fork(uint64(i))
		var b strings.Builder
		for k := 1 + r.Intn(3); k > 0; k-- {
			b.WriteString(values[r.Intn(len(values))])
			if r.Chance(1, 3) {
				b.WriteString([]string{" ", "\n", "  "}[r.Intn(3)])
			}
		}
		last := values[r.Intn(len(values))]
		head := b.String()
		for cut := 0; cut <= len(last); cut++ {
			s := head + last[:cut]
			useNumber := r.Bool()
			want := stdLoop(s, useNumber)
			var first []string
			for pi, pr := range primes {
				// leave the bytes of an earlier, longer parse in the pooled parser
				var junk interface{}
				_ = sonic.UnmarshalString(pr, &junk)
				got := decodeLoop(s, useNumber)
				cases++
				rep.Evaluations++
				rep.PerEntry["decoder.Decode-loop"]++
				if pi == 0 {
					first = got
				}
				if strings.Join(got, "|") != strings.Join(first, "|") {
					fail("decoder.Decode-loop", "tail-dependent", []byte(s), fmt.Sprintf("the outcome depends on what was parsed BEFORE (prime #%d): %v, otherwise %v", pi, got, first))
					break
				}
				if strings.Join(got, "|") != strings.Join(want, "|") {
					fail("decoder.Decode-loop", "tail-dependent", []byte(s), fmt.Sprintf("value-by-value decoding after an earlier parse (prime #%d): %v, encoding/json Decoder on the same bytes: %v", pi, got, want))
					break
				}
			}
			if got := streamLoop(s); !useNumber && strings.Join(got, "|") != strings.Join(want, "|") {
				fail("StreamDecoder.Decode-loop", "tail-dependent", []byte(s), fmt.Sprintf("StreamDecoder: %v, encoding/json Decoder: %v", got, want))
			}
		}
		rep.PerGen["multi-value-truncated"]++
	}
	rep.Nontrivial = cases
	finish()
}

func finish() {
	for k := range rep.FailCount {
		if strings.HasPrefix(k, "#") {
			delete(rep.FailCount, k)
		}
	}
	sort.Slice(rep.Failures, func(i, j int) bool {
		if rep.Failures[i].Kind != rep.Failures[j].Kind {
			return rep.Failures[i].Kind < rep.Failures[j].Kind
		}
		return len(rep.Failures[i].Input) < len(rep.Failures[j].Input)
	})
	b, _ := json.MarshalIndent(rep, "", " ")
	if err := os.WriteFile(*outp, b, 0o644); err != nil {
		panic(err)
	}
}

func main() {
	flag.Parse()
	setup()
	switch *mode {
	case "model":
		runModel()
	case "place":
		runPlace()
	case "resume":
		runResume()
	default:
		fmt.Fprintln(os.Stderr, "unknown mode")
		os.Exit(2)
	}
}
