// c13: AVX2 vs SSE.
//
//	-mode native   every native entry point of verifx.AVX2 and verifx.SSE called in this process on the same bytes
//	               (same address, same sentinel bytes around the input); every output must be bit-identical.
//	-mode api      whole-API runs; the check starts this twice (default and SONIC_MODE=noavx2) on the same case
//	               stream and diffs the result lines.
//	-mode replay   re-run one stored native case (-case file.json) and print both results.
package main

import (
	"bytes"
	"crypto/sha1"
	"encoding/hex"
	"encoding/json"
	"flag"
	"fmt"
	"math"
	"os"
	"runtime"
	"runtime/debug"
	"sort"
	"strings"
	"unsafe"

	"github.com/bytedance/sonic"
	"github.com/bytedance/sonic/ast"
	"github.com/bytedance/sonic/decoder"
	"github.com/bytedance/sonic/encoder"
	"github.com/bytedance/sonic/unquote"
	"github.com/bytedance/sonic/utf8"
	"github.com/bytedance/sonic/verifx"

	"verif/harness/internal/jgen"
	"verif/harness/internal/rng"
)

var (
	mode    = flag.String("mode", "native", "")
	seed    = flag.Uint64("seed", 1, "")
	tier    = flag.String("tier", "quick", "")
	outp    = flag.String("out", "/dev/stdout", "")
	casef   = flag.String("case", "", "")
	tief    = flag.String("tie", "", "file receiving the model tie cases (lspace / first backslash)")
	only    = flag.Int("only", -1, "api mode: print the full outputs of this case index")
	nrandom = flag.Int("n", 0, "number of random documents (0: tier default)")
)

// ------------------------------------------------------------------ cases

type Case struct {
	Entry string `json:"entry"`
	In    string `json:"in"` // hex
	Align int    `json:"align"`
	Sent  int    `json:"sentinel"`
	P     int    `json:"p"`
	Flags uint64 `json:"flags"`
	Cap   int    `json:"cap"`
	Path  string `json:"path,omitempty"` // JSON array of strings / ints
	Val   uint64 `json:"val"`
	in    []byte
}

type result struct {
	v     [8]int64
	out   []byte
	panic string
}

func (r *result) String() string {
	if r.panic != "" {
		return "panic:" + r.panic
	}
	return fmt.Sprintf("%v out=%s", r.v, hex.EncodeToString(r.out))
}

func (r *result) eq(o *result) bool {
	return r.v == o.v && bytes.Equal(r.out, o.out) && r.panic == o.panic
}

var sentinels = [][]byte{{0}, {0xAA}, {'"'}, {'\\'}, {'1'}, {' '}, {'e'}, []byte(`rue]}"\ 0.e1alse,ull:`)}

type arena struct {
	mem []byte
	off int
}

func newArena(max int) *arena {
	mem := make([]byte, max+1024)
	off := int((64 - uintptr(unsafe.Pointer(&mem[0]))%64) % 64)
	return &arena{mem, off}
}

// place copies the input at an address congruent to align mod 64, with 64 sentinel bytes before and after it
func (a *arena) place(in []byte, align, sent int) unsafe.Pointer {
	start := a.off + 64 + align
	if start+len(in)+64 > len(a.mem) {
		a.mem = make([]byte, 2*(len(in)+1024))
		a.off = int((64 - uintptr(unsafe.Pointer(&a.mem[0]))%64) % 64)
		start = a.off + 64 + align
	}
	pat := sentinels[sent%len(sentinels)]
	for i := 0; i < 64; i++ {
		a.mem[start-64+i] = pat[i%len(pat)]
		a.mem[start+len(in)+i] = pat[i%len(pat)]
	}
	copy(a.mem[start:], in)
	return unsafe.Pointer(&a.mem[start])
}

type strHdr struct {
	p unsafe.Pointer
	n int
}

type runner struct {
	ar   *arena
	sm   *verifx.StateMachine
	dbuf []byte
	dst  []byte
}

func newRunner() *runner {
	return &runner{ar: newArena(1 << 16), sm: verifx.NewStateMachine(), dbuf: make([]byte, 800), dst: make([]byte, 4096)}
}

const canary = 0xA5

func (r *runner) dstbuf(capn int) []byte {
	need := capn + 128
	if len(r.dst) < need {
		r.dst = make([]byte, need*2)
	}
	d := r.dst[:need]
	for i := range d {
		d[i] = canary
	}
	return d
}

func canaryOK(d []byte, capn int) int64 {
	for _, b := range d[capn+64:] {
		if b != canary {
			return 0
		}
	}
	return 1
}

func parsePath(s string) []interface{} {
	if s == "" {
		return nil
	}
	var raw []interface{}
	d := json.NewDecoder(strings.NewReader(s))
	d.UseNumber()
	if err := d.Decode(&raw); err != nil {
		panic("bad path " + s)
	}
	out := make([]interface{}, len(raw))
	for i, x := range raw {
		switch v := x.(type) {
		case string:
			out[i] = v
		case json.Number:
			n, _ := v.Int64()
			out[i] = int(n)
		default:
			out[i] = nil
		}
	}
	return out
}

// run executes one case on one variant; the result holds every output of the routine
func (r *runner) run(f *verifx.Funcs, c *Case) (res result) {
	defer func() {
		if e := recover(); e != nil {
			res = result{panic: fmt.Sprint(e)}
		}
	}()
	in := c.in
	n := len(in)
	ptr := r.ar.place(in, c.Align, c.Sent)
	sh := strHdr{ptr, n}
	s := unsafe.Pointer(&sh)
	sm := r.sm
	sm.Sp = 0
	for i := 0; i < 64; i++ {
		sm.Vt[i] = 0
	}
	var v verifx.JsonState
	if c.Entry == "Vnumber" || c.Entry == "Value" {
		for i := range r.dbuf {
			r.dbuf[i] = 0
		}
	}
	v.Dbuf = &r.dbuf[0]
	v.Dcap = len(r.dbuf)
	p := c.P
	js := func() {
		res.v[2], res.v[3], res.v[4], res.v[5] = int64(v.Vt), int64(math.Float64bits(v.Dv)), v.Iv, int64(v.Ep)
	}
	switch c.Entry {
	case "SkipOne":
		res.v[0] = int64(f.SkipOne(s, unsafe.Pointer(&p), unsafe.Pointer(sm), c.Flags))
		res.v[1] = int64(p)
	case "ValidateOne":
		res.v[0] = int64(f.ValidateOne(s, unsafe.Pointer(&p), unsafe.Pointer(sm), c.Flags))
		res.v[1] = int64(p)
	case "SkipArray":
		res.v[0] = int64(f.SkipArray(s, unsafe.Pointer(&p), unsafe.Pointer(sm), c.Flags))
		res.v[1] = int64(p)
	case "SkipObject":
		res.v[0] = int64(f.SkipObject(s, unsafe.Pointer(&p), unsafe.Pointer(sm), c.Flags))
		res.v[1] = int64(p)
	case "SkipOneFast":
		res.v[0] = int64(f.SkipOneFast(s, unsafe.Pointer(&p)))
		res.v[1] = int64(p)
	case "SkipNumber":
		res.v[0] = int64(f.SkipNumber(s, unsafe.Pointer(&p)))
		res.v[1] = int64(p)
	case "GetByPath":
		path := parsePath(c.Path)
		var m unsafe.Pointer
		if c.Flags&1 == 0 {
			m = unsafe.Pointer(sm)
		}
		res.v[0] = int64(f.GetByPath(s, unsafe.Pointer(&p), unsafe.Pointer(&path), m))
		res.v[1] = int64(p)
		runtime.KeepAlive(path)
	case "Value":
		res.v[0] = int64(f.Value(ptr, n, p, unsafe.Pointer(&v), c.Flags))
		js()
	case "Vstring":
		f.Vstring(s, unsafe.Pointer(&p), unsafe.Pointer(&v), c.Flags)
		res.v[1] = int64(p)
		js()
	case "Vnumber":
		f.Vnumber(s, unsafe.Pointer(&p), unsafe.Pointer(&v))
		res.v[1] = int64(p)
		js()
		res.out = append(res.out[:0], r.dbuf...)
	case "Vsigned":
		f.Vsigned(s, unsafe.Pointer(&p), unsafe.Pointer(&v))
		res.v[1] = int64(p)
		js()
	case "Vunsigned":
		f.Vunsigned(s, unsafe.Pointer(&p), unsafe.Pointer(&v))
		res.v[1] = int64(p)
		js()
	case "Quote":
		d := r.dstbuf(c.Cap)
		dn := c.Cap
		res.v[0] = int64(f.Quote(ptr, n, unsafe.Pointer(&d[0]), unsafe.Pointer(&dn), c.Flags))
		res.v[1] = int64(dn)
		res.v[6] = canaryOK(d, c.Cap)
		if dn >= 0 && dn <= c.Cap {
			res.out = append(res.out[:0], d[:dn]...)
		}
	case "HTMLEscape":
		d := r.dstbuf(c.Cap)
		dn := c.Cap
		res.v[0] = int64(f.HTMLEscape(ptr, n, unsafe.Pointer(&d[0]), unsafe.Pointer(&dn)))
		res.v[1] = int64(dn)
		res.v[6] = canaryOK(d, c.Cap)
		if dn >= 0 && dn <= c.Cap {
			res.out = append(res.out[:0], d[:dn]...)
		}
	case "Unquote":
		d := r.dstbuf(n)
		ep := -1
		ret := f.Unquote(ptr, n, unsafe.Pointer(&d[0]), unsafe.Pointer(&ep), c.Flags)
		res.v[0], res.v[1] = int64(ret), int64(ep)
		res.v[6] = canaryOK(d, n)
		if ret >= 0 && ret <= n {
			res.out = append(res.out[:0], d[:ret]...)
		}
	case "ValidateUTF8":
		res.v[0] = int64(f.ValidateUTF8(s, unsafe.Pointer(&p), unsafe.Pointer(sm)))
		res.v[1] = int64(p)
		res.v[2] = int64(sm.Sp)
		k := sm.Sp
		if k < 0 || k > 64 {
			k = 64
		}
		for i := 0; i < k; i++ {
			res.out = append(res.out, byte(sm.Vt[i]), byte(sm.Vt[i]>>8))
		}
	case "ValidateUTF8Fast":
		res.v[0] = int64(f.ValidateUTF8Fast(s))
	case "Lspace":
		res.v[0] = int64(f.Lspace(ptr, n, p))
	case "I64toa", "U64toa", "F64toa", "F32toa":
		d := r.dstbuf(64)
		var ret int
		switch c.Entry {
		case "I64toa":
			ret = f.I64toa(unsafe.Pointer(&d[0]), int64(c.Val))
		case "U64toa":
			ret = f.U64toa(unsafe.Pointer(&d[0]), c.Val)
		case "F64toa":
			ret = f.F64toa(unsafe.Pointer(&d[0]), math.Float64frombits(c.Val))
		case "F32toa":
			ret = f.F32toa(unsafe.Pointer(&d[0]), math.Float32frombits(uint32(c.Val)))
		}
		res.v[0] = int64(ret)
		res.v[6] = canaryOK(d, 64)
		if ret >= 0 && ret <= 64 {
			res.out = append(res.out[:0], d[:ret]...)
		}
	default:
		panic("unknown entry " + c.Entry)
	}
	runtime.KeepAlive(r.ar.mem)
	return res
}

// ------------------------------------------------------------------ report

type Mismatch struct {
	Case Case   `json:"case"`
	AVX2 string `json:"avx2"`
	SSE  string `json:"sse"`
	Kind string `json:"kind"`
}

type Report struct {
	Evaluations int            `json:"evaluations"`
	Distinct    int            `json:"distinct_nontrivial"`
	PerEntry    map[string]int `json:"per_entry"`
	PerClass    map[string]int `json:"per_class"`
	Lengths     map[string]int `json:"lengths"`
	Outcome     map[string]int `json:"outcome"`
	Mismatches  []Mismatch     `json:"mismatches"`
	NMismatch   int            `json:"n_mismatch"`
	Samples     []Mismatch     `json:"samples"`
	TieCases    int            `json:"tie_cases"`
}

type driver struct {
	r1, r2 *runner
	rep    *Report
	seen   []uint64
	class  string
	tie    *os.File
	rnd    *rng.R
}

func lenBucket(n int) string {
	switch {
	case n == 0:
		return "0"
	case n < 16:
		return "1-15"
	case n < 32:
		return "16-31"
	case n < 64:
		return "32-63"
	case n < 128:
		return "64-127"
	case n <= 200:
		return "128-200"
	}
	return ">200"
}

func (d *driver) do(c Case) {
	c.In = ""
	a := d.r1.run(&verifx.AVX2, &c)
	b := d.r2.run(&verifx.SSE, &c)
	d.rep.Evaluations++
	d.rep.PerEntry[c.Entry]++
	d.rep.PerClass[d.class]++
	d.rep.Lengths[lenBucket(len(c.in))]++
	if a.panic != "" {
		d.rep.Outcome["panic"]++
	} else if a.v[0] < 0 || (a.v[2] < 0 && (c.Entry[0] == 'V' && c.Entry != "ValidateOne")) {
		d.rep.Outcome["error"]++
	} else {
		d.rep.Outcome["ok"]++
	}
	// distinct cases: 2^30-bit filter over a 64-bit FNV hash of (entry, arguments, input) - a lower bound
	h := uint64(14695981039346656037)
	mix := func(b byte) { h = (h ^ uint64(b)) * 1099511628211 }
	for i := 0; i < len(c.Entry); i++ {
		mix(c.Entry[i])
	}
	for _, x := range [...]uint64{uint64(c.P), c.Flags, uint64(c.Cap), c.Val} {
		for k := 0; k < 8; k++ {
			mix(byte(x >> (8 * uint(k))))
		}
	}
	for i := 0; i < len(c.Path); i++ {
		mix(c.Path[i])
	}
	for _, b := range c.in {
		mix(b)
	}
	h ^= h >> 29
	bit := h & (1<<30 - 1)
	if d.seen[bit>>6]&(1<<(bit&63)) == 0 {
		d.seen[bit>>6] |= 1 << (bit & 63)
		if len(c.in) > 0 || c.Entry[len(c.Entry)-3:] == "toa" {
			d.rep.Distinct++
		}
	}
	if !a.eq(&b) {
		d.rep.NMismatch++
		if len(d.rep.Mismatches) < 40 {
			c.In = hex.EncodeToString(c.in)
			d.rep.Mismatches = append(d.rep.Mismatches, Mismatch{c, a.String(), b.String(), d.class})
		}
	} else if len(d.rep.Samples) < 6 && d.rep.Evaluations%9973 == 1 {
		c.In = hex.EncodeToString(c.in)
		d.rep.Samples = append(d.rep.Samples, Mismatch{c, a.String(), b.String(), d.class})
	}
	// model tie: lspace and first-backslash position
	if d.tie != nil && a.panic == "" {
		switch {
		case c.Entry == "Lspace" && c.Align == 0:
			fmt.Fprintf(d.tie, "lspace\t%s\t%d\t%d\t%d\n", hexOrDash(c.in), c.P, a.v[0], b.v[0])
			d.rep.TieCases++
		case c.Entry == "Quote" && c.Align == 0 && c.Flags == 0 && c.Cap < 6*len(c.in) && len(c.in) > 0 && d.rep.Evaluations%3 == 0:
			// the bounded path of quote(): memcchr_quote with a destination capacity (first call decides ret / dn when the
			// destination fills up before an escape is written, or when nothing needs escaping)
			fmt.Fprintf(d.tie, "qcap\t%s\t%d\t%d\t%d\t%d\t%d\n", hexOrDash(c.in), c.Cap, a.v[0], a.v[1], b.v[0], b.v[1])
			d.rep.TieCases++
		case c.Entry == "Vstring" && c.Align == 0 && c.P == 1 && c.Flags == 0 && a.v[2] == 7 && len(c.in) >= 2:
			// terminated string "body": Ep = position of the first backslash (relative to the document) or -1
			body := c.in[1 : a.v[1]-1]
			ea, eb := a.v[5]-1, b.v[5]-1
			if a.v[5] < 0 {
				ea = int64(len(body))
			}
			if b.v[5] < 0 {
				eb = int64(len(body))
			}
			fmt.Fprintf(d.tie, "p32\t%s\t%d\t%d\n", hexOrDash(body), ea, eb)
			d.rep.TieCases++
		}
	}
}

func hexOrDash(b []byte) string {
	if len(b) == 0 {
		return "-"
	}
	return hex.EncodeToString(b)
}

// ------------------------------------------------------------------ generators

type special struct {
	name string
	b    []byte
}

var specials = []special{
	{"quote", []byte(`"`)}, {"backslash", []byte(`\`)}, {"esc-quote", []byte(`\"`)}, {"esc-backslash", []byte(`\\`)},
	{"esc-n", []byte(`\n`)}, {"esc-u", []byte(`\u00e9`)}, {"esc-pair", []byte(`\ud83d\ude00`)}, {"esc-lone", []byte(`\ud800`)},
	{"esc-bad", []byte(`\x`)}, {"ctl-01", []byte{0x01}}, {"ctl-1f", []byte{0x1f}}, {"nul", []byte{0x00}}, {"del", []byte{0x7f}}, {"x80", []byte{0x80}}, {"xff", []byte{0xff}},
	{"utf8-2", []byte("\u00e9")}, {"utf8-3", []byte("\u20ac")}, {"u2028", []byte("\u2028")}, {"utf8-4", []byte("\U0001F600")},
	{"lt", []byte("<")}, {"gt", []byte(">")}, {"amp", []byte("&")}, {"overlong", []byte{0xc0, 0x80}}, {"surrogate", []byte{0xed, 0xa0, 0x80}},
	{"trunc", []byte{0xe2, 0x82}}, {"newline", []byte{'\n'}}, {"tab", []byte{'\t'}},
}

func plain(L int) []byte {
	b := make([]byte, L)
	for i := range b {
		b[i] = 'a' + byte((i+L)%23)
	}
	return b
}

func withSpecial(L, pos int, sp []byte) []byte {
	b := plain(L)
	if pos+len(sp) <= L {
		copy(b[pos:], sp)
	} else {
		b = append(b[:pos], sp...)
	}
	return b
}

func cat(parts ...[]byte) []byte {
	var b []byte
	for _, p := range parts {
		b = append(b, p...)
	}
	return b
}

const (
	fValidate = 1 << 5
	fNoValid  = 1 << 6
	fUseNum   = 1 << 1
	fAllowCtl = 1 << 31
)

// every string-oriented entry point on one raw body
func (d *driver) body(b []byte, align, sent int, full bool) {
	mk := func(entry string, in []byte, p int, flags uint64, capn int) {
		d.do(Case{Entry: entry, in: in, Align: align, Sent: sent, P: p, Flags: flags, Cap: capn})
	}
	n := len(b)
	mk("Quote", b, 0, 0, 6*n+32)
	mk("Quote", b, 0, 1, 6*n+32)
	mk("Quote", b, 0, 0, n)
	mk("HTMLEscape", b, 0, 0, 6*n+32)
	mk("HTMLEscape", b, 0, 0, n)
	mk("Unquote", b, 0, 0, 0)
	mk("Unquote", b, 0, 2, 0)
	if n > 0 {
		mk("ValidateUTF8", b, 0, 0, 0)
	}
	mk("ValidateUTF8Fast", b, 0, 0, 0)
	mk("Lspace", b, 0, 0, 0)
	q := []byte(`"`)
	term := cat(q, b, q)
	unterm := cat(q, b)
	mk("Vstring", term, 1, 0, 0)
	mk("Vstring", term, 1, fValidate, 0)
	mk("Vstring", unterm, 1, 0, 0)
	mk("SkipOne", term, 0, 0, 0)
	mk("SkipOne", term, 0, fValidate, 0)
	mk("SkipOne", unterm, 0, 0, 0)
	mk("ValidateOne", term, 0, fValidate, 0)
	mk("SkipOneFast", term, 0, 0, 0)
	mk("SkipOneFast", unterm, 0, 0, 0)
	mk("Value", term, 0, 0, 0)
	if full {
		mk("Quote", b, 0, 1, n)
		mk("Quote", b, 0, 0, n+n/2+3)
		mk("Quote", b, 0, 0, n/2)
		mk("HTMLEscape", b, 0, 0, n/2)
		mk("HTMLEscape", b, 0, 0, n+7)
		mk("Unquote", b, 0, 1, 0)
		mk("Unquote", b, 0, 3, 0)
		mk("Vstring", unterm, 1, fValidate, 0)
		mk("SkipOne", unterm, 0, fValidate, 0)
		mk("ValidateOne", term, 0, 0, 0)
		mk("ValidateOne", unterm, 0, 0, 0)
		mk("Value", term, 0, fValidate, 0)
		mk("Value", unterm, 0, 0, 0)
		obj := cat([]byte(`{"k":`), term, []byte(`,`), term, []byte(`:[`), term, []byte(`]}`))
		mk("SkipOne", obj, 0, 0, 0)
		mk("SkipOneFast", obj, 0, 0, 0)
		mk("ValidateOne", obj, 0, fValidate, 0)
		mk("SkipObject", obj, 1, 0, 0)
		d.do(Case{Entry: "GetByPath", in: obj, Align: align, Sent: sent, Path: `["k"]`})
		if utf8ok(b) {
			pj, _ := json.Marshal([]interface{}{string(b), 0})
			d.do(Case{Entry: "GetByPath", in: obj, Align: align, Sent: sent, Path: string(pj)})
		}
	}
}

func utf8ok(b []byte) bool { return json.Valid(cat([]byte(`"`), b, []byte(`"`))) }

func interesting(L, pos int) bool {
	if L <= 72 {
		return true
	}
	m := pos % 16
	e := (L - pos) % 16
	return m == 0 || m == 1 || m == 15 || e == 0 || e == 1 || e == 15 || L-pos <= 2
}

func (d *driver) strings(thorough bool) {
	r := d.rnd
	// all lengths, plain; every alignment
	d.class = "plain x align"
	for L := 0; L <= 200; L++ {
		for al := 0; al < 64; al++ {
			d.body(plain(L), al, (L+al)%len(sentinels), al%16 == 0)
		}
	}
	// specials at the head / middle / tail, every alignment
	d.class = "special x align"
	for L := 1; L <= 200; L++ {
		for _, si := range []int{0, 1, 2, 9, 15} {
			for _, pos := range []int{0, L / 2, L - 1} {
				for al := 0; al < 64; al++ {
					if !thorough && (al+L+pos)%4 != 0 && al > 1 && al != 15 && al != 16 && al != 31 && al != 32 && al != 33 && al != 63 {
						continue
					}
					d.body(withSpecial(L, pos, specials[si].b), al, (L+al+si)%len(sentinels), false)
				}
			}
		}
	}
	// every special at every offset, one alignment and sentinel per body
	d.class = "special x offset"
	for L := 1; L <= 200; L++ {
		for pos := 0; pos < L; pos++ {
			if !thorough && !interesting(L, pos) {
				continue
			}
			for si := range specials {
				if !thorough && L > 72 && si > 4 && (si+pos+L)%5 != 0 {
					continue
				}
				d.body(withSpecial(L, pos, specials[si].b), r.Intn(64), r.Intn(len(sentinels)), (L+pos+si)%5 == 0)
			}
		}
	}
	// two specials (escape directly before a block boundary followed by a quote, backslash runs)
	d.class = "backslash runs"
	for L := 0; L <= 140; L++ {
		for k := 1; k <= 5; k++ {
			for _, tail := range []string{`"`, `x"`, ``, `\`, `n`} {
				b := cat(plain(L), bytes.Repeat([]byte(`\`), k), []byte(tail), plain(L%7))
				d.body(b, r.Intn(64), r.Intn(len(sentinels)), false)
			}
		}
	}
}

func (d *driver) whitespace(thorough bool) {
	r := d.rnd
	d.class = "whitespace runs"
	ws := []byte(" \t\r\n")
	for L := 0; L <= 200; L++ {
		for kind := 0; kind < 3; kind++ {
			run := make([]byte, L)
			for i := range run {
				switch kind {
				case 0:
					run[i] = ' '
				case 1:
					run[i] = ws[i%4]
				default:
					run[i] = ws[r.Intn(4)]
				}
			}
			for _, tail := range []string{"", "x", "1", "\"a\"", "{}", "\x00", "\x0b", "\xa0", "true", "nul"} {
				in := cat(run, []byte(tail))
				al, se := r.Intn(64), r.Intn(len(sentinels))
				for _, off := range []int{0, 1, L / 2, L} {
					if off <= len(in) {
						d.do(Case{Entry: "Lspace", in: in, Align: al, Sent: se, P: off})
					}
				}
				d.do(Case{Entry: "Lspace", in: in, Align: 0, Sent: se, P: 0})
				d.do(Case{Entry: "Value", in: in, Align: al, Sent: se})
				d.do(Case{Entry: "Value", in: in, Align: al, Sent: se, Flags: fAllowCtl})
				d.do(Case{Entry: "SkipOne", in: in, Align: al, Sent: se})
				d.do(Case{Entry: "SkipOneFast", in: in, Align: al, Sent: se})
				d.do(Case{Entry: "ValidateOne", in: in, Align: al, Sent: se})
			}
			// one non-space inside the run
			if L > 0 {
				for _, pos := range []int{0, L / 3, L - 1} {
					in := append([]byte(nil), run...)
					in[pos] = 'z'
					d.do(Case{Entry: "Lspace", in: in, Align: r.Intn(64), Sent: r.Intn(len(sentinels))})
				}
			}
			// whitespace between tokens
			in := cat([]byte(`[1,`), run, []byte(`2`), run, []byte(`,{"a"`), run, []byte(`:`), run, []byte(`null}`), run, []byte(`]`))
			al, se := r.Intn(64), r.Intn(len(sentinels))
			for _, e := range []string{"SkipOne", "SkipOneFast", "ValidateOne"} {
				d.do(Case{Entry: e, in: in, Align: al, Sent: se})
			}
			d.do(Case{Entry: "SkipArray", in: in, Align: al, Sent: se, P: 1})
			d.do(Case{Entry: "GetByPath", in: in, Align: al, Sent: se, Path: `[2,"a"]`})
		}
	}
	if thorough {
		for L := 0; L <= 200; L++ {
			for al := 0; al < 64; al++ {
				in := cat(bytes.Repeat([]byte(" "), L), []byte("7"))
				d.do(Case{Entry: "Lspace", in: in, Align: al, Sent: al % len(sentinels)})
				d.do(Case{Entry: "Value", in: in, Align: al, Sent: al % len(sentinels)})
			}
		}
	}
}

func (d *driver) number(in []byte, al, se int) {
	for _, e := range []string{"Vnumber", "Vsigned", "Vunsigned", "SkipNumber", "SkipOne", "SkipOneFast", "ValidateOne"} {
		d.do(Case{Entry: e, in: in, Align: al, Sent: se})
	}
	d.do(Case{Entry: "Value", in: in, Align: al, Sent: se})
	d.do(Case{Entry: "Value", in: in, Align: al, Sent: se, Flags: fUseNum})
}

func (d *driver) digits(thorough bool) {
	r := d.rnd
	d.class = "digits"
	dig := func(L int, first byte) []byte {
		b := make([]byte, L)
		for i := range b {
			b[i] = '0' + byte((i*7+L)%10)
		}
		if L > 0 {
			b[0] = first
		}
		return b
	}
	for L := 0; L <= 200; L++ {
		for _, first := range []byte{'1', '9', '0'} {
			base := dig(L, first)
			for _, pre := range []string{"", "-"} {
				for _, suf := range []string{"", ",", " ", "]", "e5", "E-7", ".5", ".", "e", "e+", "x", "-", "+1", ".e1", "e1.5"} {
					in := cat([]byte(pre), base, []byte(suf))
					d.number(in, r.Intn(64), r.Intn(len(sentinels)))
				}
			}
			if L >= 2 {
				for pos := 1; pos < L; pos++ {
					if !thorough && (!interesting(L, pos) || (first != '1' && pos%4 != 0)) {
						continue
					}
					for _, ch := range []string{".", "e", "E", "e-", "-", "+", "a", " ", ","} {
						in := cat(base[:pos], []byte(ch), base[pos:])
						d.number(in, r.Intn(64), r.Intn(len(sentinels)))
					}
				}
			}
		}
		if thorough || L%8 < 2 {
			for al := 0; al < 64; al++ {
				d.number(dig(L, '3'), al, al%len(sentinels))
			}
		}
	}
	// short literals and numbers (the known over-read inputs included: both variants see the same sentinel)
	d.class = "short inputs"
	for _, s := range []string{"", "t", "n", "f", "tr", "nu", "fa", "tru", "nul", "fal", "fals", "true", "null", "false", "0", "-0", "-", "[0", "[", "{", "\"", "[t", "[n", "[f", "{\"a\":0", "0.", "1e", "00", "-x", "trux", "nulx", "falsx", "tRue"} {
		for al := 0; al < 64; al += 3 {
			for se := range sentinels {
				for _, e := range []string{"SkipOne", "SkipOneFast", "ValidateOne", "Value", "Vnumber", "Vsigned", "Vunsigned", "SkipNumber", "Lspace"} {
					d.do(Case{Entry: e, in: []byte(s), Align: al, Sent: se})
				}
				d.do(Case{Entry: "GetByPath", in: []byte(s), Align: al, Sent: se, Path: `[0]`})
				d.do(Case{Entry: "GetByPath", in: []byte(s), Align: al, Sent: se, Path: `["a"]`})
			}
		}
	}
}

func (d *driver) formatting(thorough bool) {
	r := d.rnd
	d.class = "number formatting"
	var ints []uint64
	for k := 0; k < 64; k++ {
		ints = append(ints, 1<<uint(k), 1<<uint(k)-1, 1<<uint(k)+1, ^uint64(0)>>uint(k))
	}
	p := uint64(1)
	for k := 0; k < 20; k++ {
		ints = append(ints, p, p-1, p+1, -p, -p-1, -p+1)
		p *= 10
	}
	n := 4000
	if thorough {
		n = 400000
	}
	for i := 0; i < n; i++ {
		ints = append(ints, r.U64()>>uint(r.Intn(64)))
	}
	for _, v := range ints {
		d.do(Case{Entry: "I64toa", Val: v})
		d.do(Case{Entry: "U64toa", Val: v})
	}
	var fl []uint64
	for _, f := range []float64{0, math.Copysign(0, -1), 1, -1, 0.1, 0.5, 1e21, 1e20, 1e-6, 1e-7, 123456789, 5e-324, math.MaxFloat64, math.SmallestNonzeroFloat64,
		1.7976931348623157e308, 2.2250738585072014e-308, 9007199254740993, 1e23, 8.41e21, 4.35e22, 3.4028234663852886e38, 1.401298464324817e-45} {
		fl = append(fl, math.Float64bits(f), math.Float64bits(-f))
	}
	for e := 0; e < 2047; e++ {
		fl = append(fl, uint64(e)<<52, uint64(e)<<52|1, uint64(e)<<52|(1<<52-1), uint64(e)<<52|r.U64()&(1<<52-1))
	}
	for i := 0; i < n; i++ {
		fl = append(fl, r.U64())
		fl = append(fl, math.Float64bits(float64(int64(r.U64()>>uint(r.Intn(64))))/math.Pow(10, float64(r.Intn(12)))))
	}
	for _, v := range fl {
		if e := v >> 52 & 0x7ff; e == 0x7ff {
			continue // NaN / Inf: excluded by the callers (encoder checks before calling f64toa)
		}
		d.do(Case{Entry: "F64toa", Val: v})
	}
	var f32 []uint64
	for e := 0; e < 255; e++ {
		f32 = append(f32, uint64(e)<<23, uint64(e)<<23|1, uint64(e)<<23|(1<<23-1), uint64(e)<<23|r.U64()&(1<<23-1), 1<<31|uint64(e)<<23|r.U64()&(1<<23-1))
	}
	for i := 0; i < n; i++ {
		f32 = append(f32, r.U64()&0xffffffff)
		f32 = append(f32, uint64(math.Float32bits(float32(int32(r.U64()>>uint(32+r.Intn(32))))/float32(math.Pow(10, float64(r.Intn(8)))))))
	}
	for _, v := range f32 {
		if e := v >> 23 & 0xff; e == 0xff {
			continue
		}
		d.do(Case{Entry: "F32toa", Val: v})
	}
}

func pathsOf(r *rng.R, doc string) []string {
	var v interface{}
	dec := json.NewDecoder(strings.NewReader(doc))
	dec.UseNumber()
	var out []string
	if dec.Decode(&v) != nil {
		return []string{`[0]`, `["a"]`, `["a",0]`, `[1,"b"]`}
	}
	for t := 0; t < 3; t++ {
		var path []interface{}
		cur := v
		for depth := 0; depth < 6; depth++ {
			switch x := cur.(type) {
			case map[string]interface{}:
				if len(x) == 0 || r.Chance(1, 8) {
					path = append(path, "missing")
					cur = nil
					break
				}
				keys := make([]string, 0, len(x))
				for k := range x {
					keys = append(keys, k)
				}
				sort.Strings(keys)
				k := keys[r.Intn(len(keys))]
				path = append(path, k)
				cur = x[k]
			case []interface{}:
				if len(x) == 0 || r.Chance(1, 8) {
					path = append(path, len(x)+r.Intn(2))
					cur = nil
					break
				}
				i := r.Intn(len(x))
				path = append(path, i)
				cur = x[i]
			default:
				if r.Chance(1, 6) {
					path = append(path, 0)
				}
				cur = nil
			}
			if cur == nil || r.Chance(1, 4) {
				break
			}
		}
		if path == nil {
			path = []interface{}{}
		}
		b, _ := json.Marshal(path)
		out = append(out, string(b))
	}
	return out
}

func (d *driver) randomDocs(n int) {
	r := d.rnd
	o := jgen.Default
	for i := 0; i < n; i++ {
		doc := jgen.Doc(r, &o)
		d.class = "random valid JSON"
		if i%2 == 1 {
			doc = jgen.Mutate(r, doc)
			d.class = "mutated JSON"
		}
		in := []byte(doc)
		al, se := r.Intn(64), r.Intn(len(sentinels))
		for _, fl := range []uint64{0, fValidate} {
			d.do(Case{Entry: "SkipOne", in: in, Align: al, Sent: se, Flags: fl})
			d.do(Case{Entry: "ValidateOne", in: in, Align: al, Sent: se, Flags: fl})
		}
		d.do(Case{Entry: "SkipOneFast", in: in, Align: al, Sent: se})
		d.do(Case{Entry: "ValidateUTF8Fast", in: in, Align: al, Sent: se})
		if len(in) > 0 {
			d.do(Case{Entry: "ValidateUTF8", in: in, Align: al, Sent: se})
		}
		d.do(Case{Entry: "Quote", in: in, Align: al, Sent: se, Cap: 6*len(in) + 32})
		d.do(Case{Entry: "Quote", in: in, Align: al, Sent: se, Cap: len(in) + r.Intn(len(in)+1)})
		d.do(Case{Entry: "HTMLEscape", in: in, Align: al, Sent: se, Cap: len(in) + r.Intn(len(in)+1)})
		d.do(Case{Entry: "Unquote", in: in, Align: al, Sent: se, Flags: uint64(r.Intn(4))})
		for _, p := range pathsOf(r, doc) {
			d.do(Case{Entry: "GetByPath", in: in, Align: al, Sent: se, Path: p})
			d.do(Case{Entry: "GetByPath", in: in, Align: al, Sent: se, Path: p, Flags: 1})
		}
		// token-level entry points at every structural position (bounded)
		cnt := 0
		for p := 0; p < len(in) && cnt < 40; p++ {
			ch := in[p]
			switch {
			case ch == '"':
				d.do(Case{Entry: "Vstring", in: in, Align: al, Sent: se, P: p + 1, Flags: uint64(r.Intn(2)) * fValidate})
				cnt++
			case ch == '[':
				d.do(Case{Entry: "SkipArray", in: in, Align: al, Sent: se, P: p + 1})
				cnt++
			case ch == '{':
				d.do(Case{Entry: "SkipObject", in: in, Align: al, Sent: se, P: p + 1})
				cnt++
			case ch == '-' || (ch >= '0' && ch <= '9'):
				if p == 0 || !(in[p-1] >= '0' && in[p-1] <= '9' || in[p-1] == '.' || in[p-1] == 'e' || in[p-1] == 'E' || in[p-1] == '-' || in[p-1] == '+') {
					d.do(Case{Entry: "Vnumber", in: in, Align: al, Sent: se, P: p})
					d.do(Case{Entry: "Vsigned", in: in, Align: al, Sent: se, P: p})
					d.do(Case{Entry: "Vunsigned", in: in, Align: al, Sent: se, P: p})
					d.do(Case{Entry: "SkipNumber", in: in, Align: al, Sent: se, P: p})
					cnt++
				}
			case ch == ',' || ch == ':' || ch == ' ':
				if r.Chance(1, 3) {
					d.do(Case{Entry: "Value", in: in, Align: al, Sent: se, P: p + 1, Flags: []uint64{0, fUseNum, fValidate, fAllowCtl}[r.Intn(4)]})
					d.do(Case{Entry: "SkipOne", in: in, Align: al, Sent: se, P: p + 1})
					d.do(Case{Entry: "SkipOneFast", in: in, Align: al, Sent: se, P: p + 1})
					cnt++
				}
			}
		}
		d.do(Case{Entry: "Value", in: in, Align: al, Sent: se})
	}
}

func (d *driver) corpus() {
	d.class = "corpus"
	// the C02 unterminated-string family: `"` + 32k x 'a' (uninitialised `ch` in advance_string_default)
	for k := 1; k <= 6; k++ {
		in := cat([]byte(`"`), bytes.Repeat([]byte("a"), 32*k))
		for al := 0; al < 64; al += 7 {
			for se := range sentinels {
				for _, e := range []string{"SkipOne", "SkipOneFast", "ValidateOne", "Value"} {
					d.do(Case{Entry: e, in: in, Align: al, Sent: se})
				}
				d.do(Case{Entry: "Vstring", in: in, Align: al, Sent: se, P: 1})
			}
		}
	}
	// deep nesting around MAX_RECURSE
	for _, n := range []int{4094, 4095, 4096, 4097} {
		in := []byte(strings.Repeat("[", n) + strings.Repeat("]", n))
		for _, e := range []string{"SkipOne", "SkipOneFast", "ValidateOne"} {
			d.do(Case{Entry: e, in: in})
		}
	}
}

func nativeMode() {
	debug.SetPanicOnFault(true)
	thorough := *tier == "thorough"
	rep := &Report{Mismatches: []Mismatch{}, Samples: []Mismatch{}, PerEntry: map[string]int{}, PerClass: map[string]int{}, Lengths: map[string]int{}, Outcome: map[string]int{}}
	d := &driver{r1: newRunner(), r2: newRunner(), rep: rep, seen: make([]uint64, 1<<24), rnd: rng.New(*seed)}
	if *tief != "" {
		f, err := os.Create(*tief)
		if err != nil {
			panic(err)
		}
		defer f.Close()
		d.tie = f
	}
	d.corpus()
	d.strings(thorough)
	d.whitespace(thorough)
	d.digits(thorough)
	d.formatting(thorough)
	n := *nrandom
	if n == 0 {
		n = 3000
		if thorough {
			n = 60000
		}
	}
	d.randomDocs(n)
	b, _ := json.MarshalIndent(rep, "", " ")
	if err := os.WriteFile(*outp, b, 0o644); err != nil {
		panic(err)
	}
}

func replayMode() {
	debug.SetPanicOnFault(true)
	raw, err := os.ReadFile(*casef)
	if err != nil {
		panic(err)
	}
	var c Case
	if err := json.Unmarshal(raw, &c); err != nil {
		panic(err)
	}
	c.in, _ = hex.DecodeString(c.In)
	r1, r2 := newRunner(), newRunner()
	a := r1.run(&verifx.AVX2, &c)
	b := r2.run(&verifx.SSE, &c)
	out, _ := json.Marshal(map[string]interface{}{"avx2": a.String(), "sse": b.String(), "equal": a.eq(&b)})
	fmt.Println(string(out))
	if !a.eq(&b) {
		os.Exit(3)
	}
}

// ------------------------------------------------------------------ whole API

type rec struct {
	A    int                    `json:"a"`
	B    string                 `json:"b"`
	C    []interface{}          `json:"c"`
	D    map[string]interface{} `json:"d"`
	E    float64                `json:"e"`
	F    *rec                   `json:"f"`
	Name string                 `json:"name"`
	ID   int64                  `json:"id"`
	X    json.RawMessage        `json:"x"`
	Key  string                 `json:"key"`
	List []string               `json:"list"`
}

func errS(err error) string {
	if err == nil {
		return "nil"
	}
	return fmt.Sprintf("%T:%s", err, err.Error())
}

func stdJSON(v interface{}) string {
	b, err := json.Marshal(v)
	if err != nil {
		return "stderr:" + err.Error()
	}
	return string(b)
}

func guard(w *strings.Builder, name string, f func() string) {
	defer func() {
		if e := recover(); e != nil {
			fmt.Fprintf(w, "%s=PANIC:%v\n", name, e)
		}
	}()
	fmt.Fprintf(w, "%s=%s\n", name, f())
}

func apiDoc(doc string, r *rng.R) string {
	var w strings.Builder
	guard(&w, "valid", func() string { return fmt.Sprint(sonic.ValidString(doc)) })
	var v interface{}
	guard(&w, "unmarshal-iface", func() string {
		err := sonic.UnmarshalString(doc, &v)
		return errS(err) + " " + fmt.Sprintf("%#v", v)
	})
	guard(&w, "unmarshal-std-iface", func() string {
		var x interface{}
		err := sonic.ConfigStd.UnmarshalFromString(doc, &x)
		return errS(err) + " " + fmt.Sprintf("%#v", x)
	})
	guard(&w, "unmarshal-number", func() string {
		var x interface{}
		d := decoder.NewDecoder(doc)
		d.UseNumber()
		err := d.Decode(&x)
		return errS(err) + " " + fmt.Sprintf("%#v", x)
	})
	guard(&w, "unmarshal-struct", func() string {
		var x rec
		err := sonic.ConfigStd.UnmarshalFromString(doc, &x)
		return errS(err) + " " + stdJSON(x)
	})
	guard(&w, "unmarshal-validate", func() string {
		var x interface{}
		d := decoder.NewDecoder(doc)
		d.ValidateString()
		err := d.Decode(&x)
		return errS(err) + " " + fmt.Sprintf("%#v", x)
	})
	guard(&w, "marshal-default", func() string {
		b, err := encoder.Encode(v, encoder.SortMapKeys) // maps sorted: Go map iteration order is random
		return errS(err) + " " + string(b)
	})
	guard(&w, "marshal-std", func() string {
		b, err := sonic.ConfigStd.Marshal(v)
		return errS(err) + " " + string(b)
	})
	guard(&w, "marshal-indent", func() string {
		b, err := sonic.ConfigStd.MarshalIndent(v, "", " ")
		return errS(err) + " " + string(b)
	})
	guard(&w, "skip", func() string {
		st, ret := decoder.Skip([]byte(doc))
		return fmt.Sprint(st, ret)
	})
	for i, p := range pathsOf(r, doc) {
		path := parsePath(p)
		guard(&w, fmt.Sprintf("get-%d", i), func() string {
			n, err := sonic.GetFromString(doc, path...)
			if err != nil {
				return errS(err)
			}
			raw, e1 := n.Raw()
			iv, e2 := n.Interface()
			return fmt.Sprintf("%s %s %s %#v", raw, errS(e1), errS(e2), iv)
		})
		guard(&w, fmt.Sprintf("searcher-%d", i), func() string {
			s := ast.NewSearcher(doc)
			s.ValidateJSON = true
			n, err := s.GetByPath(path...)
			if err != nil {
				return errS(err)
			}
			e0 := n.LoadAll()
			b, e1 := n.MarshalJSON()
			return fmt.Sprintf("%s %s %s", errS(e0), b, errS(e1))
		})
	}
	guard(&w, "ast", func() string {
		n, err := sonic.GetFromString(doc)
		if err != nil {
			return errS(err)
		}
		iv, e1 := n.InterfaceUseNumber()
		b, e2 := n.MarshalJSON()
		return fmt.Sprintf("%#v %s %s %s", iv, errS(e1), b, errS(e2))
	})
	return w.String()
}

func apiBody(b []byte) string {
	var w strings.Builder
	s := string(b)
	guard(&w, "quote", func() string { return string(encoder.Quote(s)) })
	guard(&w, "marshal-str", func() string {
		o, err := sonic.Marshal(s)
		return errS(err) + " " + string(o)
	})
	guard(&w, "marshal-str-std", func() string {
		o, err := sonic.ConfigStd.Marshal(map[string]interface{}{s: []string{s}})
		return errS(err) + " " + string(o)
	})
	guard(&w, "html", func() string { return string(encoder.HTMLEscape(nil, b)) })
	guard(&w, "utf8", func() string { return fmt.Sprint(utf8.ValidateString(s), utf8.Validate(b)) })
	guard(&w, "unquote", func() string {
		o, err := unquote.String(s)
		return fmt.Sprint(o, err)
	})
	guard(&w, "unquote-into", func() string {
		var into []byte
		err := unquote.IntoBytes(s, &into)
		return fmt.Sprint(string(into), err)
	})
	q := `"` + s + `"`
	for _, doc := range []string{q, `"` + s, `{"k":` + q + `}`, `[` + q + `,` + q + `]`} {
		guard(&w, "valid", func() string { return fmt.Sprint(sonic.ValidString(doc)) })
		guard(&w, "unmarshal", func() string {
			var x interface{}
			err := sonic.UnmarshalString(doc, &x)
			return errS(err) + " " + fmt.Sprintf("%#v", x)
		})
		guard(&w, "unmarshal-std", func() string {
			var x interface{}
			err := sonic.ConfigStd.UnmarshalFromString(doc, &x)
			return errS(err) + " " + fmt.Sprintf("%#v", x)
		})
		guard(&w, "get", func() string {
			n, err := sonic.GetFromString(doc)
			if err != nil {
				return errS(err)
			}
			raw, e1 := n.Raw()
			str, e2 := n.String()
			return fmt.Sprint(raw, errS(e1), str, errS(e2))
		})
	}
	return w.String()
}

func apiNumber(s string) string {
	var w strings.Builder
	for _, doc := range []string{s, "[" + s + "]", `{"a":` + s + `,"e":` + s + `,"id":` + s + `}`} {
		guard(&w, "valid", func() string { return fmt.Sprint(sonic.ValidString(doc)) })
		guard(&w, "iface", func() string {
			var x interface{}
			err := sonic.UnmarshalString(doc, &x)
			return errS(err) + " " + fmt.Sprintf("%#v", x)
		})
		guard(&w, "int64", func() string {
			var x interface{}
			d := decoder.NewDecoder(doc)
			d.UseInt64()
			err := d.Decode(&x)
			return errS(err) + " " + fmt.Sprintf("%#v", x)
		})
		guard(&w, "struct", func() string {
			var x rec
			err := sonic.UnmarshalString(doc, &x)
			return errS(err) + " " + stdJSON(x)
		})
		guard(&w, "typed", func() string {
			var i int64
			var u uint64
			var f float64
			var f32 float32
			e1 := sonic.UnmarshalString(doc, &i)
			e2 := sonic.UnmarshalString(doc, &u)
			e3 := sonic.UnmarshalString(doc, &f)
			e4 := sonic.UnmarshalString(doc, &f32)
			return fmt.Sprint(i, errS(e1), u, errS(e2), math.Float64bits(f), errS(e3), math.Float32bits(f32), errS(e4))
		})
	}
	return w.String()
}

func apiFormat(v uint64) string {
	var w strings.Builder
	guard(&w, "ints", func() string {
		b, err := sonic.Marshal([]interface{}{int64(v), v, int32(v), uint16(v), map[int64]uint64{int64(v): v}})
		return errS(err) + " " + string(b)
	})
	guard(&w, "floats", func() string {
		b, err := sonic.Marshal([]interface{}{math.Float64frombits(v), math.Float32frombits(uint32(v)), math.Float32frombits(uint32(v >> 32))})
		return errS(err) + " " + string(b)
	})
	return w.String()
}

func apiMode() {
	r := rng.New(*seed)
	thorough := *tier == "thorough"
	f, err := os.Create(*outp)
	if err != nil {
		panic(err)
	}
	defer f.Close()
	idx := 0
	emit := func(kind string, full func() string) {
		if *only >= 0 && idx != *only {
			idx++
			return
		}
		s := full()
		if *only >= 0 {
			fmt.Fprintf(f, "%d\t%s\n%s", idx, kind, s)
		} else {
			fmt.Fprintf(f, "%d\t%s\t%x\n", idx, kind, sha1.Sum([]byte(s)))
		}
		idx++
	}
	// string bodies
	for L := 0; L <= 200; L++ {
		b := plain(L)
		emit("body plain", func() string { return apiBody(b) })
		for pos := 0; pos < L; pos++ {
			if !interesting(L, pos) || (!thorough && L > 40 && (pos+L)%5 != 0) {
				continue
			}
			for si := range specials {
				if !thorough && (si+pos+L)%4 != 0 {
					continue
				}
				bb := withSpecial(L, pos, specials[si].b)
				emit("body "+specials[si].name, func() string { return apiBody(bb) })
			}
		}
	}
	// numbers and whitespace
	for L := 1; L <= 200; L++ {
		if !thorough && L > 40 && L%4 != 0 {
			continue
		}
		digs := strings.Repeat("1234567890", 21)[:L]
		for _, s := range []string{digs, "-" + digs, "0." + digs, digs + "e5", digs + "." + digs, digs + "E-" + digs[:1], strings.Repeat(" ", L) + "1", "0" + digs, digs + "x"} {
			ss := s
			emit("number", func() string { return apiNumber(ss) })
		}
	}
	for _, s := range []string{"t", "n", "f", "tr", "nul", "0", "-0", "-", "[0", "", " ", "\"", "[", "{\"a\":0"} {
		ss := s
		emit("short", func() string { return apiDoc(ss, rng.New(7)) })
	}
	nf := 1500
	nd := 1500
	if thorough {
		nf, nd = 60000, 40000
	}
	for i := 0; i < nf; i++ {
		v := r.U64() >> uint(r.Intn(64))
		if i%3 == 0 {
			v = math.Float64bits(float64(int64(r.U64()>>uint(r.Intn(64)))) / math.Pow(10, float64(r.Intn(15))))
		}
		emit("format", func() string { return apiFormat(v) })
	}
	o := jgen.Default
	for i := 0; i < nd; i++ {
		doc := jgen.Doc(r, &o)
		kind := "doc valid"
		if i%2 == 1 {
			doc = jgen.Mutate(r, doc)
			kind = "doc mutated"
		}
		rr := r.Fork(uint64(i))
		emit(kind, func() string { return apiDoc(doc, rr) })
	}
}

// dispatchMode reports which package every dispatch variable currently points to
func dispatchMode() {
	type row struct {
		Name string `json:"name"`
		Cur  string `json:"cur"`
	}
	var rows []row
	for _, r := range verifx.Dispatch() {
		cur := "none"
		switch {
		case r.AVX2 == 0 || r.SSE == 0 || r.AVX2 == r.SSE:
			cur = "unloaded"
		case r.Cur == r.AVX2:
			cur = "avx2"
		case r.Cur == r.SSE:
			cur = "sse"
		}
		rows = append(rows, row{r.Name, cur})
	}
	b, _ := json.Marshal(map[string]interface{}{"has_avx2": verifx.HasAVX2(), "rows": rows})
	if err := os.WriteFile(*outp, append(b, '\n'), 0o644); err != nil {
		panic(err)
	}
}

func main() {
	flag.Parse()
	switch *mode {
	case "native":
		nativeMode()
	case "replay":
		replayMode()
	case "api":
		apiMode()
	case "dispatch":
		dispatchMode()
	default:
		fmt.Fprintln(os.Stderr, "unknown mode")
		os.Exit(2)
	}
}
