// c17: stream decoder / stream encoder of sonic against chunking reader and piecewise writer oracles.
//
// Generates cases (or reads them back with -replay), runs the real implementation, and writes
//
//	-cases   one case per line, the input of the extracted Coq model (/verif/ocaml/C17/driver.ml)
//	-impl    one line per case in the format the model driver prints, plus a 5th field holding the
//	         comparison with the property's own oracle (encoding/json.Decoder on the unchunked bytes;
//	         Marshal ++ newline for the encoder), which does not involve the model.
package main

import (
	"bytes"
	"encoding/hex"
	"encoding/json"
	"errors"
	"flag"
	"fmt"
	"io"
	"os"
	"reflect"
	"runtime"
	"strconv"
	"strings"
	"sync/atomic"
	"time"
	"unicode/utf8"
	"unsafe"

	"github.com/bytedance/sonic"
	"github.com/bytedance/sonic/decoder"
	"github.com/bytedance/sonic/encoder"
	"github.com/bytedance/sonic/option"
	"github.com/bytedance/sonic/verifx"

	"verif/harness/internal/jgen"
	"verif/harness/internal/out"
	"verif/harness/internal/rng"
)

var (
	tier    = flag.String("tier", "quick", "")
	seed    = flag.Uint64("seed", 1, "")
	casesP  = flag.String("cases", "/dev/null", "")
	implP   = flag.String("impl", "/dev/stdout", "")
	replayP = flag.String("replay", "", "file of case lines to run instead of generating")
	corpusP = flag.String("corpus", "", "directory of *.case files run first")
	avx2    = flag.Bool("avx2", true, "which native variant this process runs (set by the check together with SONIC_MODE)")
	scale   = flag.Int("scale", 1, "")
)

// ------------------------------------------------------------------ reader oracle

type readerErr struct{ k int }

func (e *readerErr) Error() string { return "reader error " + strconv.Itoa(e.k) }

type chunk struct {
	data []byte
	err  error // nil, io.EOF or *readerErr
}

type chunkReader struct {
	chunks  []chunk
	i       int
	fin     error
	log     []int
	errSeen bool // some Read has returned a non-nil error (the decoder may have reached its terminal state)
}

func (r *chunkReader) Read(p []byte) (int, error) {
	r.log = append(r.log, len(p))
	if r.i >= len(r.chunks) {
		r.errSeen = true
		return 0, r.fin
	}
	c := &r.chunks[r.i]
	if len(c.data) <= len(p) {
		n := copy(p, c.data)
		r.i++
		if c.err != nil {
			r.errSeen = true
		}
		return n, c.err
	}
	n := copy(p, c.data)
	c.data = c.data[n:]
	return n, nil
}

// ------------------------------------------------------------------ case representation

type dcase struct {
	id       string
	pcap     int
	fin      string   // "E" or k
	ops      string   // d m b
	chunks   []string // hex | hex!E | hex!k
	sonicCfg bool     // run through sonic.ConfigDefault.NewDecoder instead of decoder.NewStreamDecoder (same line format)
}

func (c *dcase) line(avx2 bool) string {
	a := "0"
	if avx2 {
		a = "1"
	}
	return strings.Join([]string{"D", c.id, a, strconv.Itoa(c.pcap), c.fin, c.ops, strings.Join(c.chunks, ";")}, "\t")
}

var errTab = map[int]*readerErr{}

func errOf(s string) error {
	if s == "E" {
		return io.EOF
	}
	k, err := strconv.Atoi(s)
	if err != nil {
		panic("bad error tag " + s)
	}
	if e, ok := errTab[k]; ok {
		return e
	}
	e := &readerErr{k}
	errTab[k] = e
	return e
}

func unhex(s string) []byte {
	if s == "-" || s == "" {
		return nil
	}
	b, err := hex.DecodeString(s)
	if err != nil {
		panic(err)
	}
	return b
}

func parseChunks(cs []string) ([]chunk, []byte, bool, string) {
	var res []chunk
	var all []byte
	wf := true
	for i, c := range cs {
		h, e := c, ""
		if j := strings.IndexByte(c, '!'); j >= 0 {
			h, e = c[:j], c[j+1:]
		}
		d := unhex(h)
		all = append(all, d...)
		ck := chunk{data: append([]byte{}, d...)}
		if e != "" {
			ck.err = errOf(e)
			if i != len(cs)-1 {
				wf = false
			}
		}
		res = append(res, ck)
	}
	last := ""
	if n := len(cs); n > 0 {
		if j := strings.IndexByte(cs[n-1], '!'); j >= 0 {
			last = cs[n-1][j+1:]
		}
	}
	return res, all, wf, last
}

// ------------------------------------------------------------------ running the real stream decoder

const sentinel = "\x00nothing-decoded\x00"

func classOf(err error, fin error) string {
	if err == nil {
		return "nil"
	}
	if err == io.EOF {
		return "eof"
	}
	var re *readerErr
	if errors.As(err, &re) {
		if err == error(re) && err == errTab[re.k] {
			return "r" + strconv.Itoa(re.k)
		}
		return "other:wrapped-reader-error"
	}
	var se decoder.SyntaxError
	if errors.As(err, &se) {
		return "syn"
	}
	var sep *decoder.SyntaxError
	if errors.As(err, &sep) {
		return "syn"
	}
	if err == io.ErrUnexpectedEOF {
		return "ueof"
	}
	var je *json.SyntaxError
	if errors.As(err, &je) {
		return "syn"
	}
	return "other:" + reflect.TypeOf(err).String()
}

type streamDec interface {
	Decode(val interface{}) error
	Buffered() io.Reader
	More() bool
	InputOffset() int64
}

type item struct {
	class string      // val, eof, r<k>, syn, stuck, panic, other
	v     interface{} // for val
	off   int64       // InputOffset() after the call
}

var curCase atomic.Value // string
var curStart atomic.Int64

// poolPhase: bufPool recycles buffers (option.LimitBufferSize at its default); set by main for the last phase only
var poolPhase = false

// churn pushes unrelated data through recycled stream buffers: new decoders, one value per Read, then a GC, then again
func churn(pcap int) {
	for round := 0; round < 2; round++ {
		for i := 0; i < 3; i++ {
			var chunks []chunk
			for j := 0; j < 4; j++ {
				chunks = append(chunks, chunk{data: []byte(`{"` + strings.Repeat("Z", 40+j) + `":"` + strings.Repeat("Q", 60+i) + `"} `)})
			}
			d := decoder.NewStreamDecoder(&chunkReader{chunks: chunks, fin: io.EOF})
			for k := 0; k < 6; k++ {
				var v interface{}
				if d.Decode(&v) != nil {
					break
				}
			}
		}
		churnCount++
		if churnCount%32 == 1 {
			runtime.GC() // now and then also across a collection (sync.Pool drops its buffers then)
		}
	}
}

var churnCount = 0

func runDec(c *dcase) (opres []string, log []int, seq []item, alias string) {
	chunks, all, wfr, _ := parseChunks(c.chunks)
	fin := errOf(c.fin)
	rd := &chunkReader{chunks: chunks, fin: fin}
	option.DefaultDecoderBufferSize = uint(c.pcap)
	// encoding/json.Decoder in lockstep on the unchunked bytes: the oracle of More()
	stdD := json.NewDecoder(&chunkReader{chunks: []chunk{{data: append([]byte{}, all...)}}, fin: io.EOF})
	stdOK := wfr // compare as long as neither decoder has returned an error and the reader is well-behaved
	var d streamDec
	if c.sonicCfg {
		d = sonic.ConfigDefault.NewDecoder(rd).(streamDec)
	} else {
		d = decoder.NewStreamDecoder(rd)
	}
	done := false
	var kept []interface{} // every decoded value is retained ...
	var early []string     // ... together with its serialisation at the time Decode returned
	for _, op := range c.ops {
		var res string
		func() {
			defer func() {
				if e := recover(); e != nil {
					if op == 'b' {
						res = "BP"
					} else {
						res = "P"
						if !done {
							seq = append(seq, item{class: "panic"})
							done = true
						}
					}
				}
			}()
			switch op {
			case 'd':
				var v interface{} = sentinel // a non-pointer value inside the interface is replaced by whatever is decoded
				err := d.Decode(&v)
				if stdOK {
					var raw json.RawMessage
					if stdD.Decode(&raw) != nil || err != nil {
						stdOK = false
					}
				}
				if err == nil {
					if sv, ok := v.(string); ok && sv == sentinel {
						res = "N"
						if !done {
							seq = append(seq, item{class: "stuck"})
							done = true
						}
					} else {
						js, e2 := json.Marshal(v)
						if e2 != nil {
							js = []byte("marshal-error")
						}
						res = "V:" + out.Hex(js)
						kept = append(kept, v)
						early = append(early, string(js))
						if !done {
							seq = append(seq, item{class: "val", v: v, off: -2})
						}
					}
				} else {
					cl := classOf(err, fin)
					res = "E:" + cl
					if !done {
						if cl == "ueof" {
							cl = "syn" // truncated and malformed data are the same class for the property: an error of the data
						}
						seq = append(seq, item{class: cl})
						done = true
					}
				}
			case 'm':
				m := d.More()
				if m {
					res = "M1"
				} else {
					res = "M0"
				}
				if stdOK && !done && alias == "" {
					// documented behaviour (encoding/json): another element follows = a non-space byte that is not ] or }.
					// At the very end of a stream whose reader fails, encoding/json would see io.EOF here: skip that case.
					if sm := stdD.More(); sm != m && !(fin != io.EOF && rd.i >= len(rd.chunks)) {
						alias = fmt.Sprintf("more:%d:%v:%v", len(opres), m, sm)
					}
				}
			case 'b':
				b, _ := io.ReadAll(d.Buffered())
				res = "B:" + out.Hex(b)
				if !done && wfr && alias == "" && !rd.errSeen {
					// (as long as the reader has not reported its final condition: after that the decoder may be finished)
					// Buffered() ++ what the reader has not delivered yet = the stream from InputOffset() on
					rest := append([]byte{}, b...)
					for _, ck := range rd.chunks[minInt(rd.i, len(rd.chunks)):] {
						rest = append(rest, ck.data...)
					}
					off := int(d.InputOffset())
					if off < 0 || off > len(all) || !bytes.Equal(all[off:], rest) {
						alias = fmt.Sprintf("buf:%d:%d", len(opres), off)
					}
				}
			}
		}()
		off := int64(-1)
		func() {
			defer func() { recover() }()
			off = d.InputOffset()
		}()
		if op == 'd' && len(seq) > 0 && seq[len(seq)-1].off == -2 {
			seq[len(seq)-1].off = off
		}
		opres = append(opres, res+"@"+strconv.FormatInt(off, 10))
	}
	// the values handed out earlier must still be what they were, after the whole stream has been consumed and the
	// stream buffers have gone through the pool a few more times
	if poolPhase {
		churn(c.pcap)
	}
	for k, v := range kept {
		late, e2 := json.Marshal(v)
		if e2 != nil {
			late = []byte("marshal-error")
		}
		if string(late) != early[k] {
			alias = fmt.Sprintf("alias:%d:%s:%s", k, out.HexS(early[k]), out.Hex(late))
			break
		}
	}
	return opres, rd.log, seq, alias
}

// ------------------------------------------------------------------ the property's oracle: encoding/json.Decoder on the unchunked bytes

type stdRes struct {
	texts  [][]byte
	vals   []interface{}
	starts []int // offset of the first byte of each value
	ends   []int // offset just after each value
	ctl    bool  // the oracle stopped at a control character inside a string (sonic accepts those by default)
	term   string
	termAt int // offset of the first non-space byte after the last value
}

func isSpace(c byte) bool { return c == ' ' || c == '\t' || c == '\r' || c == '\n' }

func skipWS(b []byte, i int) int {
	for i < len(b) && isSpace(b[i]) {
		i++
	}
	return i
}

// The oracle decodes the unchunked bytes ending in io.EOF.  When the reader's final condition is an error
// of its own, that error takes the place of the clean end and of "unexpected end of input" (truncated tail),
// and a number that runs up to the very end of the delivered bytes is not yet a value (more digits could
// have followed); a malformed tail is still a syntax error.
func minInt(a, b int) int {
	if a < b {
		return a
	}
	return b
}

func runStd(all []byte, fin error) stdRes {
	rd := &chunkReader{chunks: []chunk{{data: append([]byte{}, all...)}}, fin: io.EOF}
	d := json.NewDecoder(rd)
	var res stdRes
	pos := 0
	for {
		var raw json.RawMessage
		err := d.Decode(&raw)
		if err != nil {
			res.term = classOf(err, fin)
			if res.term == "ueof" {
				res.term = "syn"
			}
			res.termAt = skipWS(all, pos)
			if se, ok := err.(*json.SyntaxError); ok && strings.Contains(se.Error(), "in string literal") {
				res.ctl = true
			}
			if fin != io.EOF {
				if err == io.EOF || err == io.ErrUnexpectedEOF {
					res.term = classOf(fin, fin)
				}
				if n := len(res.vals); err == io.EOF && n > 0 && pos == len(all) {
					if c := all[res.starts[n-1]]; c == '-' || (c >= '0' && c <= '9') {
						res.termAt = res.starts[n-1]
						res.vals, res.texts, res.starts, res.ends = res.vals[:n-1], res.texts[:n-1], res.starts[:n-1], res.ends[:n-1]
					}
				}
			}
			return res
		}
		var v interface{}
		if e := json.Unmarshal(raw, &v); e != nil {
			panic("std cannot re-decode its own raw value")
		}
		end := int(d.InputOffset())
		res.starts = append(res.starts, skipWS(all, pos))
		res.ends = append(res.ends, end)
		pos = end
		res.texts = append(res.texts, append([]byte{}, raw...))
		res.vals = append(res.vals, v)
	}
}

func byteAt(b []byte, i int) string {
	if i < 0 || i >= len(b) {
		return "-"
	}
	return hex.EncodeToString(b[i : i+1])
}

// first divergence between the sonic sequence and the oracle sequence
func compareProp(all []byte, seq []item, std stdRes, ncalls int) string {
	n := len(std.vals)
	for k := 0; ; k++ {
		var s item
		if k < len(seq) {
			s = seq[k]
		} else {
			return "short" // not enough Decode calls to reach the terminal condition (never with the generated op strings)
		}
		tclass, at := "val", 0
		if k < n {
			at = std.starts[k]
		} else {
			tclass, at = std.term, std.termAt
		}
		same := s.class == tclass
		if same && s.class == "val" {
			same = reflect.DeepEqual(s.v, std.vals[k])
		}
		if !same {
			prev := "-"
			if k >= 1 {
				prev = byteAt(all, std.starts[k-1])
			}
			// does a top-level number start at or before the point of divergence?
			anynum := 0
			isnum := func(i int) bool { return i < len(all) && (all[i] == '-' || (all[i] >= '0' && all[i] <= '9')) }
			for j := 0; j < k && j < n; j++ {
				if isnum(std.starts[j]) {
					anynum = 1
				}
			}
			if isnum(at) {
				anynum = 1
			}
			return fmt.Sprintf("div:%d:%s:%s:%s:%s:%d", k, s.class, tclass, byteAt(all, at), prev, anynum)
		}
		if k >= n {
			break
		}
	}
	// all values and the terminal condition agree: InputOffset() after the k-th value must lie between the end of that
	// value (= encoding/json.Decoder.InputOffset on the unchunked bytes) and the beginning of the next token
	for k := 0; k < n && k < len(seq); k++ {
		next := std.termAt
		if k+1 < n {
			next = std.starts[k+1]
		}
		if seq[k].off < int64(std.ends[k]) || seq[k].off > int64(next) {
			ws := 0
			for _, c := range all[:std.ends[k]] {
				if isSpace(c) {
					ws++
				}
			}
			return fmt.Sprintf("off:%d:%d:%d:%d:%d", k, seq[k].off, std.ends[k], next, ws)
		}
	}
	return "ok"
}

// ------------------------------------------------------------------ generators

var letters = "abcdefghijklmnopqrstuvwxyzABCDEFGHIJKLMNOPQRSTUVWXYZ0123456789 _-"

func genString(r *rng.R) string {
	var b strings.Builder
	b.WriteByte('"')
	n := r.Intn(8)
	if r.Chance(1, 8) {
		n = jgen.BlockLen(r)
	}
	for i := 0; i < n; i++ {
		switch r.Intn(24) {
		case 0:
			b.WriteString(`\"`)
		case 1:
			b.WriteString(`\\`)
		case 2:
			b.WriteString(`\n`)
		case 3:
			b.WriteString("\\u00e9")
		case 4:
			b.WriteString("é")
		case 5:
			b.WriteString("中")
		case 6:
			b.WriteString([]string{"]", "}", "[", "{", ",", ":"}[r.Intn(6)])
		case 7:
			b.WriteString(`\\\"`)
		case 8:
			b.WriteString(`\/`)
		default:
			b.WriteByte(letters[r.Intn(len(letters))])
		}
	}
	b.WriteByte('"')
	return b.String()
}

func genNumber(r *rng.R) string {
	var b strings.Builder
	if r.Chance(1, 3) {
		b.WriteByte('-')
	}
	if r.Chance(1, 6) {
		b.WriteByte('0')
	} else {
		n := 1 + r.Intn(5)
		if r.Chance(1, 10) {
			n = 10 + r.Intn(5)
		}
		b.WriteByte("123456789"[r.Intn(9)])
		for i := 1; i < n; i++ {
			b.WriteByte("0123456789"[r.Intn(10)])
		}
	}
	if r.Chance(1, 3) {
		b.WriteByte('.')
		m := 1 + r.Intn(4)
		for i := 0; i < m; i++ {
			b.WriteByte("0123456789"[r.Intn(10)])
		}
	}
	if r.Chance(1, 4) {
		b.WriteByte("eE"[r.Intn(2)])
		if r.Chance(1, 2) {
			b.WriteByte("+-"[r.Intn(2)])
		}
		b.WriteString(strconv.Itoa(r.Intn(30)))
	}
	return b.String()
}

func genWS(r *rng.R, b *strings.Builder) {
	switch r.Intn(10) {
	case 0:
		b.WriteByte(' ')
	case 1:
		b.WriteByte('\n')
	case 2:
		b.WriteString("\r\n\t")
	case 3:
		if r.Chance(1, 6) {
			b.WriteString(strings.Repeat(" ", jgen.BlockLen(r)))
		}
	}
}

func genValue(r *rng.R, depth int, b *strings.Builder) {
	k := r.Intn(10)
	if depth >= 4 && k >= 6 {
		k = r.Intn(6)
	}
	switch k {
	case 0:
		b.WriteString("null")
	case 1:
		b.WriteString([]string{"true", "false"}[r.Intn(2)])
	case 2, 3:
		b.WriteString(genNumber(r))
	case 4, 5:
		b.WriteString(genString(r))
	case 6, 7:
		b.WriteByte('[')
		genWS(r, b)
		n := r.Intn(4)
		for i := 0; i < n; i++ {
			if i > 0 {
				b.WriteByte(',')
				genWS(r, b)
			}
			genValue(r, depth+1, b)
			genWS(r, b)
		}
		b.WriteByte(']')
	default:
		b.WriteByte('{')
		genWS(r, b)
		n := r.Intn(4)
		for i := 0; i < n; i++ {
			if i > 0 {
				b.WriteByte(',')
				genWS(r, b)
			}
			b.WriteString(genString(r))
			genWS(r, b)
			b.WriteByte(':')
			genWS(r, b)
			genValue(r, depth+1, b)
			genWS(r, b)
		}
		b.WriteByte('}')
	}
}

// top-level value of a stream; selfDelim = no top-level numbers
func genTop(r *rng.R, selfDelim bool) string {
	for {
		var b strings.Builder
		genValue(r, 1+r.Intn(3), &b)
		s := b.String()
		if selfDelim && (s[0] == '-' || (s[0] >= '0' && s[0] <= '9')) {
			continue
		}
		return s
	}
}

var seps = []string{"", "", " ", " ", "\n", "\n", "\r\n\t ", "  ", ",", ", ", ":", " x ", "\x00"}
var tails = []string{"", "", "", " ", "\n", " \n ", "tru", "nul", "fals", "t", "-", "1e", "1.", "\"abc", "\"a\\", "{\"a\":", "{\"a\"", "[1,", "[", "{", "x", "]", "}", " ]", ",", ":", "1 2]", "truex", "\\", "\"\\u00"}
var safeMut = []string{"{", "}", "[", "]", ",", ":", "\"", "\\", "0", "1", "-", "+", ".", "e", "E", "t", "n", "f", "true", "null", "false", " ", "\n", "a"}

func mutate(r *rng.R, doc string) string {
	n := 1 + r.Intn(2)
	for i := 0; i < n && len(doc) > 0; i++ {
		p := r.Intn(len(doc) + 1)
		switch r.Intn(5) {
		case 0:
			if p < len(doc) {
				doc = doc[:p] + doc[p+1:]
			}
		case 1:
			doc = doc[:p] + safeMut[r.Intn(len(safeMut))] + doc[p:]
		case 2:
			if p < len(doc) {
				doc = doc[:p] + safeMut[r.Intn(len(safeMut))] + doc[p+1:]
			}
		case 3:
			doc = doc[:p]
		case 4:
			doc = doc + safeMut[r.Intn(len(safeMut))]
		}
	}
	return doc
}

// streams the tame model of the inner decoder is not meant for (float overflow, NUL handled separately)
func tame(s string) bool {
	if !utf8.ValidString(s) {
		return false // encoding/json replaces invalid UTF-8 by U+FFFD, sonic keeps the bytes: not what C17 is about
	}
	run := 0
	afterE := false
	digits := 0
	for i := 0; i < len(s); i++ {
		c := s[i]
		if c >= '0' && c <= '9' {
			digits++
			if afterE {
				run++
				if run >= 3 {
					return false
				}
			}
			if digits > 17 {
				return false
			}
			continue
		}
		digits = 0
		if c == 'e' || c == 'E' {
			afterE, run = true, 0
			continue
		}
		if afterE && (c == '+' || c == '-') && run == 0 {
			continue
		}
		afterE, run = false, 0
	}
	return true
}

func genStream(r *rng.R) string {
	for {
		var b strings.Builder
		selfDelim := r.Chance(1, 2)
		if r.Chance(1, 5) {
			genWS(r, &b)
		}
		n := r.Intn(5)
		for i := 0; i < n; i++ {
			b.WriteString(genTop(r, selfDelim))
			if selfDelim && r.Chance(4, 5) {
				b.WriteString([]string{"", " ", "\n", "\r\n\t ", "  "}[r.Intn(5)])
			} else {
				b.WriteString(seps[r.Intn(len(seps))])
			}
		}
		if !(selfDelim && r.Chance(2, 3)) {
			b.WriteString(tails[r.Intn(len(tails))])
		} else if r.Chance(1, 2) {
			b.WriteString([]string{" ", "\n", "  \n"}[r.Intn(3)])
		}
		s := b.String()
		if r.Chance(1, 6) {
			s = mutate(r, s)
		}
		if tame(s) && len(s) <= 1500 {
			return s
		}
	}
}

var shortCorpus = []string{
	"12 3", "123 ", "123", "-5", "-5 ", "1e5", "1e5 ", "1e+5\n", "0", "-", "01", "1.5 ", "1.5", "-0.0e0 ",
	`{"a":1}`, `[1,2]`, `"ab"`, `true`, `null `, `false`, `"a""b"`, `{}{}`, `[][]`, `{} []`, `"\\""`, `"\""`, `"\\\""`,
	`[1] tru`, `{} x`, `1 2]`, `]`, `}`, ` ] `, `"a`, `{"a":1} tru`, `[[]] {}`, `true false`, `truefalse`, `nulltrue`,
	`"a" 1 `, `[1]1`, `1[1]`, `{"a":[]}`, `[{}]`, `"é"`, " \n{} ", "   ", "", `[1,2`, `{"a"`, `tru`, `t`, `"\`,
	`[]]`, `{}}`, `[ ] `, `{ } `, `x`, `,`, `[,]`, `{"}":1}`, `["]"]`, `["\"]"]`, `[[1],[2]]`, `{"a":{}}`, `nul`, `fals`,
	`truex 1`, `nulx`, `[1][2] `, `{"a":"b"}`, `1,2`, `{},{}`, `"a":1`, `[1 2]`, `tr ue`, `"é" "中"`, `[] {} ""`, `-1 -2 `,
	`1e 5`, `[1e5]`, `[-1]`, `["a\\"]`, `{"\\":1}`, "[\n]", "{\r\n}", "\t[\t]\t", `[true]`, `[null]x`, "\x00", `{"a":1}` + "\x00",
}

func hexChunks(parts []string, errs []string) []string {
	res := make([]string, len(parts))
	for i, p := range parts {
		res[i] = out.HexS(p)
		if errs != nil && errs[i] != "" {
			res[i] += "!" + errs[i]
		}
	}
	return res
}

// composition number m of s (bit i of m set = cut after byte i)
func compose(s string, m uint64) []string {
	var parts []string
	start := 0
	for i := 0; i < len(s)-1; i++ {
		if m>>uint(i)&1 == 1 {
			parts = append(parts, s[start:i+1])
			start = i + 1
		}
	}
	if len(s) > 0 {
		parts = append(parts, s[start:])
	}
	return parts
}

func randomCuts(r *rng.R, s string) []string {
	if len(s) == 0 {
		return nil
	}
	var parts []string
	style := r.Intn(5)
	for len(s) > 0 {
		var n int
		switch style {
		case 0:
			n = 1
		case 1:
			n = 1 + r.Intn(3)
		case 2:
			n = 1 + r.Intn(17)
		case 3:
			n = 1 + r.Intn(len(s))
		default:
			n = len(s)
			if r.Chance(1, 2) && len(s) > 1 {
				n = 1 + r.Intn(len(s)-1)
			}
		}
		if n > len(s) {
			n = len(s)
		}
		parts = append(parts, s[:n])
		s = s[n:]
	}
	return parts
}

var smallCaps = []int{1, 2, 3, 4, 5, 7, 8, 16, 33, 64}

// decorate a chunking: empty reads, EOF/err with the last data, transient errors, buffer size, op string
func decorate(r *rng.R, id string, parts []string, plain bool) *dcase {
	c := &dcase{id: id, pcap: 4096, fin: "E"}
	if r.Chance(1, 4) {
		c.fin = strconv.Itoa(1 + r.Intn(3))
	}
	if !plain && r.Chance(1, 3) {
		c.pcap = smallCaps[r.Intn(len(smallCaps))]
	}
	// empty reads
	if !plain && r.Chance(1, 3) {
		var p2 []string
		for _, p := range parts {
			for r.Chance(1, 4) {
				p2 = append(p2, "")
			}
			p2 = append(p2, p)
		}
		for r.Chance(1, 4) {
			p2 = append(p2, "")
		}
		parts = p2
	}
	errs := make([]string, len(parts))
	if len(parts) > 0 && r.Chance(1, 3) {
		errs[len(parts)-1] = c.fin // final condition delivered together with the last data
	}
	if !plain && len(parts) > 1 && r.Chance(1, 25) {
		errs[r.Intn(len(parts)-1)] = strconv.Itoa(4 + r.Intn(2)) // transient error in the middle (not a well-behaved reader)
	}
	c.chunks = hexChunks(parts, errs)
	c.sonicCfg = r.Chance(1, 5)
	return c
}

func opsFor(r *rng.R, nvals int, plain bool) string {
	n := nvals + 3
	if n > 14 {
		n = 14
	}
	if plain || !r.Chance(1, 6) {
		return strings.Repeat("d", n)
	}
	var b strings.Builder
	for i := 0; i < n; i++ {
		if r.Chance(1, 3) {
			b.WriteByte('m')
		}
		if r.Chance(1, 5) {
			b.WriteByte('b')
		}
		b.WriteByte('d')
	}
	if r.Chance(1, 2) {
		b.WriteString("mb")
	}
	return b.String()
}

// ------------------------------------------------------------------ encoder side

type werr struct{ k int }

func (e *werr) Error() string { return "writer error " + strconv.Itoa(e.k) }

type wresp struct {
	k   int
	err error
}

type oracleWriter struct {
	resp []wresp
	i    int
	got  []byte
	// facts for the property oracle
	firstErr     error
	gotAtFailure int // bytes delivered before the first Write that returned an error
	failed       bool
}

func (w *oracleWriter) Write(p []byte) (int, error) {
	if w.i >= len(w.resp) {
		w.got = append(w.got, p...)
		return len(p), nil
	}
	r := w.resp[w.i]
	w.i++
	n := r.k
	if n > len(p) {
		n = len(p)
	}
	if !w.failed && r.err != nil {
		w.failed, w.gotAtFailure = true, len(w.got)
	}
	w.got = append(w.got, p[:n]...)
	if r.err != nil && w.firstErr == nil {
		w.firstErr = r.err
	}
	return n, r.err
}

type ecase struct {
	id      string
	val     interface{}
	indent  bool
	newline bool
	resp    []string // k | k!e
	viaCfg  bool
}

type encRec struct {
	A int               `json:"a"`
	B string            `json:"b"`
	C []interface{}     `json:"c"`
	D map[string]string `json:"d"`
}

func genEncVal(r *rng.R) interface{} {
	switch r.Intn(8) {
	case 0:
		return nil
	case 1:
		return r.Intn(100000) - 500
	case 2:
		return strings.Repeat("ab<>\"\n", r.Intn(6))
	case 3:
		return []interface{}{1, "x", nil, true, 2.5}
	case 4:
		return map[string]interface{}{"k": []int{1, 2, 3}}
	case 5:
		return encRec{A: r.Intn(10), B: strings.Repeat("z", jgen.BlockLen(r)), C: []interface{}{}, D: map[string]string{"q": "w"}}
	case 6:
		return []int{}
	default:
		return map[string]interface{}{}
	}
}

func runEnc(c *ecase) (caseLine, implLine string) {
	var opts encoder.Options
	if !c.newline {
		opts |= encoder.NoEncoderNewline
	}
	body, merr := encoder.Encode(c.val, opts)
	bodyHex, indHex := "!", "!"
	var expect []byte
	if merr == nil {
		bodyHex = out.Hex(body)
		expect = append([]byte{}, body...)
		if c.indent {
			var ib bytes.Buffer
			if err := json.Indent(&ib, body, ">", "  "); err != nil {
				panic(err)
			}
			indHex = out.Hex(ib.Bytes())
			expect = append([]byte{}, ib.Bytes()...)
		}
		if c.newline {
			expect = append(expect, '\n')
		}
	}
	w := &oracleWriter{}
	for _, rs := range c.resp {
		k, e := rs, ""
		if j := strings.IndexByte(rs, '!'); j >= 0 {
			k, e = rs[:j], rs[j+1:]
		}
		kk, _ := strconv.Atoi(k)
		var err error
		if e != "" {
			ee, _ := strconv.Atoi(e)
			err = &werr{ee}
		}
		w.resp = append(w.resp, wresp{kk, err})
	}
	var encd interface {
		Encode(interface{}) error
		SetIndent(prefix, indent string)
	}
	if c.viaCfg {
		cfg := sonic.Config{NoEncoderNewline: !c.newline}.Froze()
		encd = cfg.NewEncoder(w)
	} else {
		se := encoder.NewStreamEncoder(w)
		se.Opts = opts
		encd = se
	}
	if c.indent {
		encd.SetIndent(">", "  ")
	}
	var res string
	var rerr error
	func() {
		defer func() {
			if e := recover(); e != nil {
				res = "P"
			}
		}()
		rerr = encd.Encode(c.val)
	}()
	if res == "" {
		var we *werr
		switch {
		case rerr == nil:
			res = "nil"
		case errors.As(rerr, &we) && rerr == error(we):
			res = "w" + strconv.Itoa(we.k)
		case rerr == io.ErrShortWrite:
			res = "short"
		default:
			res = "marshal"
		}
	}
	nl := "0"
	if c.newline {
		nl = "1"
	}
	caseLine = strings.Join([]string{"E", c.id, bodyHex, indHex, nl, strings.Join(c.resp, ";")}, "\t")
	// property oracle, independent of the model
	prop := "ok"
	if merr == nil && res != "P" {
		delivered := bytes.Equal(w.got, expect)
		switch {
		case w.firstErr != nil:
			var we *werr
			if !(errors.As(rerr, &we) && rerr == w.firstErr) {
				// which Write failed: the one carrying only the newline?
				prop = "errdropped"
				if c.newline && !c.indent && w.gotAtFailure == len(expect)-1 {
					prop = "errdropped-newline" // the failing Write is the one that carries only the newline
				}
			}
		case !delivered && rerr == nil:
			prop = "lost"
			if c.newline && !c.indent && bytes.Equal(w.got, expect[:len(expect)-1]) {
				prop = "lost-newline"
			}
		}
	}
	implLine = strings.Join([]string{c.id, res, out.Hex(w.got), "", prop}, "\t")
	return
}

func genEnc(r *rng.R, id string) *ecase {
	c := &ecase{id: id, val: genEncVal(r), indent: r.Chance(1, 4), newline: r.Chance(3, 4), viaCfg: r.Chance(1, 4)}
	n := r.Intn(6)
	errAt := -1
	if r.Chance(1, 2) {
		errAt = r.Intn(n + 1)
	}
	for i := 0; i <= n; i++ {
		if i == n && errAt != n {
			break
		}
		k := []int{0, 1, 1, 2, 3, 5, 8, 13, 1000}[r.Intn(9)]
		s := strconv.Itoa(k)
		if i == errAt {
			s += "!" + strconv.Itoa(1+r.Intn(3))
		}
		c.resp = append(c.resp, s)
	}
	return c
}

// ------------------------------------------------------------------ raw skipper tie

func runSkip(id string, avx2 bool, s []byte) (string, string) {
	f := verifx.SSE
	if avx2 {
		f = verifx.AVX2
	}
	// exact-size copy so that a read past the end is at least not into the generator's data
	buf := make([]byte, len(s))
	copy(buf, s)
	str := string(buf)
	p := 0
	ret := f.SkipOneFast(unsafe.Pointer(&str), unsafe.Pointer(&p))
	var res string
	switch {
	case ret >= 0:
		res = fmt.Sprintf("ok:%d:%d", ret, p)
	case ret == -1:
		res = "eof"
	default:
		res = "inval"
	}
	a := "0"
	if avx2 {
		a = "1"
	}
	return strings.Join([]string{"S", id, a, out.Hex(s)}, "\t"), id + "\t" + res
}

// ------------------------------------------------------------------ main

func watchdog() {
	for {
		time.Sleep(200 * time.Millisecond)
		st := curStart.Load()
		if st != 0 && time.Now().UnixNano()-st > int64(20*time.Second) {
			fmt.Fprintf(os.Stderr, "HANG\t%v\n", curCase.Load())
			os.Exit(3)
		}
	}
}

type sink struct {
	cases, impl *out.W
	n           int
}

func (s *sink) dec(c *dcase) {
	curCase.Store(c.line(*avx2))
	curStart.Store(time.Now().UnixNano())
	opres, log, seq, alias := runDec(c)
	curStart.Store(0)
	_, all, wf, _ := parseChunks(c.chunks)
	std := runStd(all, errOf(c.fin))
	var texts []string
	for _, t := range std.texts {
		texts = append(texts, out.Hex(t))
	}
	logs := make([]string, len(log))
	for i, l := range log {
		logs[i] = strconv.Itoa(l)
	}
	prop := "skip"
	if wf && strings.Trim(c.ops, "d") == "" {
		prop = compareProp(all, seq, std, len(c.ops))
		if std.ctl && prop != "ok" {
			prop = "skip-ctl"
		}
	}
	if alias != "" {
		prop = alias // a returned value changed afterwards: worse than any divergence
	}
	s.cases.Line(c.line(*avx2))
	s.impl.Line(c.id, strings.Join(opres, " "), strings.Join(logs, ","), strings.Join(texts, ",")+"|"+std.term, prop)
	s.n++
}

func nvalsOf(s string) int {
	return len(runStd([]byte(s), io.EOF).vals)
}

func main() {
	flag.Parse()
	go watchdog()
	option.LimitBufferSize = 0 // freeBytes never recycles: every pool buffer has capacity DefaultDecoderBufferSize
	sk := &sink{cases: out.Create(*casesP), impl: out.Create(*implP)}
	defer sk.cases.Close()
	defer sk.impl.Close()

	runLines := func(lines []string) {
		for _, ln := range lines {
			f := strings.Split(ln, "\t")
			switch {
			case len(f) == 7 && f[0] == "D":
				pc, _ := strconv.Atoi(f[3])
				var cs []string
				if f[6] != "" {
					cs = strings.Split(f[6], ";")
				}
				id := f[1]
				sk.dec(&dcase{id: id, pcap: pc, fin: f[4], ops: f[5], chunks: cs, sonicCfg: strings.HasSuffix(id, "c")})
			case len(f) == 6 && f[0] == "E" && f[2] != "!":
				// the value is replayed as the recorded Marshal output (a json.RawMessage encodes to itself)
				ec := &ecase{id: f[1], val: json.RawMessage(unhex(f[2])), indent: f[3] != "!", newline: f[4] == "1"}
				if f[5] != "" {
					ec.resp = strings.Split(f[5], ";")
				}
				cl, il := runEnc(ec)
				sk.cases.Line(cl)
				sk.impl.Line(il)
			case len(f) == 4 && f[0] == "S":
				cl, il := runSkip(f[1], *avx2, unhex(f[3]))
				sk.cases.Line(cl)
				sk.impl.Line(il)
			}
		}
	}
	if *corpusP != "" {
		ents, _ := os.ReadDir(*corpusP)
		for _, e := range ents {
			if strings.HasSuffix(e.Name(), ".case") {
				b, _ := os.ReadFile(*corpusP + "/" + e.Name())
				runLines(strings.Split(strings.TrimSpace(string(b)), "\n"))
			}
		}
	}
	if *replayP != "" {
		b, err := os.ReadFile(*replayP)
		if err != nil {
			panic(err)
		}
		runLines(strings.Split(strings.TrimSpace(string(b)), "\n"))
		return
	}

	r := rng.New(*seed)
	thorough := *tier == "thorough"
	id := 0
	next := func(cfg bool) string {
		id++
		if cfg {
			return strconv.Itoa(id) + "c"
		}
		return strconv.Itoa(id)
	}
	emit := func(c *dcase) {
		c.id = next(c.sonicCfg)
		sk.dec(c)
	}

	// 1. every composition of short streams
	maxLen := 10
	if thorough {
		maxLen = 12
	}
	rs := r.Fork(1)
	short := append([]string{}, shortCorpus...)
	nrand := 40
	if thorough {
		nrand = 150
	}
	for i := 0; i < nrand; i++ {
		s := genStream(rs)
		if len(s) <= maxLen {
			short = append(short, s)
		} else {
			short = append(short, s[:1+rs.Intn(maxLen)])
		}
	}
	for _, s := range short {
		nv := nvalsOf(s)
		if len(s) == 0 {
			for _, parts := range [][]string{nil, {""}, {"", ""}} {
				c := decorate(rs, "", parts, true)
				c.ops = "ddd"
				emit(c)
			}
			continue
		}
		if len(s) > maxLen {
			// too long for the exhaustive sweep in this tier: random cuts
			for i := 0; i < 40; i++ {
				c := decorate(rs, "", randomCuts(rs, s), i%2 == 0)
				c.ops = opsFor(rs, nv, i%2 == 0)
				emit(c)
			}
			continue
		}
		for m := uint64(0); m < 1<<uint(len(s)-1); m++ {
			c := decorate(rs, "", compose(s, m), m%2 == 0)
			c.ops = opsFor(rs, nv, m%2 == 0)
			emit(c)
		}
	}
	// 2. reader error after k bytes, for every k
	re := r.Fork(2)
	for _, s := range short {
		for k := 0; k <= len(s); k++ {
			c := decorate(re, "", randomCuts(re, s[:k]), false)
			c.fin = strconv.Itoa(1 + re.Intn(3))
			for i := range c.chunks {
				if j := strings.IndexByte(c.chunks[i], '!'); j >= 0 && i == len(c.chunks)-1 {
					c.chunks[i] = c.chunks[i][:j] + "!" + c.fin
				}
			}
			c.ops = opsFor(re, nvalsOf(s[:k]), false)
			emit(c)
		}
	}
	// 3. longer streams, random cuts
	rl := r.Fork(3)
	nlong := 3500 * *scale
	if thorough {
		nlong = 100000 * *scale
	}
	for i := 0; i < nlong; i++ {
		s := genStream(rl)
		nv := nvalsOf(s)
		reps := 3
		for j := 0; j < reps; j++ {
			c := decorate(rl, "", randomCuts(rl, s), false)
			c.ops = opsFor(rl, nv, false)
			emit(c)
		}
	}
	// 4. raw skipper: model of skip_one_fast against both native variants of the blob
	rk := r.Fork(4)
	nsk := 3000 * *scale
	if thorough {
		nsk = 80000 * *scale
	}
	for i := 0; i < nsk; i++ {
		s := genStream(rk)
		if rk.Chance(1, 2) && len(s) > 0 {
			s = s[rk.Intn(len(s)):]
		}
		if rk.Chance(1, 3) && len(s) > 0 {
			s = s[:rk.Intn(len(s)+1)]
		}
		cl, il := runSkip("s"+strconv.Itoa(i), *avx2, []byte(s))
		sk.cases.Line(cl)
		sk.impl.Line(il)
		sk.n++
	}
	// 5. stream encoder over writer oracles
	rw := r.Fork(5)
	nenc := 3000 * *scale
	if thorough {
		nenc = 60000 * *scale
	}
	for i := 0; i < nenc; i++ {
		c := genEnc(rw, "e"+strconv.Itoa(i))
		cl, il := runEnc(c)
		sk.cases.Line(cl)
		sk.impl.Line(il)
		sk.n++
	}
	// 6. pool phase (last: from here on bufPool recycles stream buffers; all of them have capacity 4096 because no
	// stream of this phase fills more than half of it).  One value per Read with string-heavy values: every value is
	// the last thing in the buffer when it is decoded and the buffer goes back to the pool right after it; the values
	// are retained and compared again after the stream, a GC and further pool round trips.
	option.LimitBufferSize = 1024 * 1024
	poolPhase = true
	rp := r.Fork(6)
	npool := 1200 * *scale
	if thorough {
		npool = 15000 * *scale
	}
	for i := 0; i < npool; i++ {
		var vals []string
		nv := 2 + rp.Intn(4)
		total := 0
		for j := 0; j < nv; j++ {
			v := genStringy(rp)
			vals = append(vals, v+[]string{"", " ", "\n", "  "}[rp.Intn(4)])
			total += len(v) + 2
		}
		if total > 1500 {
			continue
		}
		s := strings.Join(vals, "")
		var parts []string
		switch rp.Intn(4) {
		case 0:
			parts = randomCuts(rp, s)
		default:
			parts = vals // one value per Read
		}
		c := &dcase{pcap: 4096, fin: "E", chunks: hexChunks(parts, nil), sonicCfg: rp.Chance(1, 5)}
		if rp.Chance(1, 4) {
			c.fin = strconv.Itoa(1 + rp.Intn(3))
		}
		c.ops = strings.Repeat("d", nv+2)
		emit(c)
	}
}

// values made of unescaped strings (decoded without copying unless CopyString is set)
func genStringy(r *rng.R) string {
	str := func() string {
		n := 3 + r.Intn(40)
		b := make([]byte, n)
		for i := range b {
			b[i] = letters[r.Intn(52)]
		}
		return `"` + string(b) + `"`
	}
	switch r.Intn(4) {
	case 0:
		return str()
	case 1:
		return "[" + str() + "," + str() + "," + str() + "]"
	case 2:
		return "{" + str() + ":" + str() + "," + str() + ":[" + str() + "]}"
	default:
		return "{" + str() + ":{" + str() + ":" + str() + "}}"
	}
}
