// c03: encoder harness (see internal/tygen/encrun.Main for modes and the output format).
package main

import "verif/harness/internal/tygen/encrun"

func main() { encrun.Main("std", false, true, true, 0) }
