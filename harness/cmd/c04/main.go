// c04: encoder harness (see internal/tygen/encrun.Main for modes and the output format).
package main

import "verif/harness/internal/tygen/encrun"

func main() { encrun.Main("rand:2", true, false, false, 0) }
