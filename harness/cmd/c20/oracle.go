package main

// property-level references, independent of the Coq model: plain Go, encoding/json, unicode/utf8

import (
	"bytes"
	"encoding/json"
	"unicode/utf8"
)

const hexdig = "0123456789abcdef"

// the JSON escape of one byte in single mode (RFC 8259: quote, backslash and controls must be escaped)
func refEsc1(c byte) []byte {
	switch {
	case c == '"':
		return []byte(`\"`)
	case c == '\\':
		return []byte(`\\`)
	case c == '\n':
		return []byte(`\n`)
	case c == '\r':
		return []byte(`\r`)
	case c == '\t':
		return []byte(`\t`)
	case c < 0x20:
		return []byte{'\\', 'u', '0', '0', hexdig[c>>4], hexdig[c&15]}
	}
	return []byte{c}
}

func refQuoteBody(s []byte, double bool) []byte {
	var o []byte
	for _, c := range s {
		e := refEsc1(c)
		if double {
			for _, d := range e {
				o = append(o, refEsc1(d)...)
			}
		} else {
			o = append(o, e...)
		}
	}
	return o
}

// items of the bounded native quote: one input byte each
func refQuoteBounded(s []byte, dn int, double bool) (ret int, out []byte) {
	for i, c := range s {
		e := refQuoteBody([]byte{c}, double)
		if len(out)+len(e) > dn {
			return -i - 1, out
		}
		out = append(out, e...)
	}
	return len(s), out
}

func isU2028(s []byte, i int) bool {
	return s[i] == 0xe2 && i+2 < len(s) && s[i+1] == 0x80 && s[i+2]&^1 == 0xa8
}

func refHTMLBounded(s []byte, dn int) (ret int, out []byte) {
	for i := 0; i < len(s); {
		var e []byte
		n := 1
		c := s[i]
		switch {
		case c == '<' || c == '>' || c == '&':
			e = []byte{'\\', 'u', '0', '0', hexdig[c>>4], hexdig[c&15]}
		case isU2028(s, i):
			e = []byte{'\\', 'u', '2', '0', '2', hexdig[s[i+2]&15]}
			n = 3
		default:
			e = []byte{c}
		}
		if len(out)+len(e) > dn {
			return -i - 1, out
		}
		out = append(out, e...)
		i += n
	}
	return len(s), out
}

func stdHTMLEscape(s []byte) []byte {
	var b bytes.Buffer
	json.HTMLEscape(&b, s)
	return b.Bytes()
}

func hexv(c byte) int {
	switch {
	case c >= '0' && c <= '9':
		return int(c - '0')
	case c >= 'a' && c <= 'f':
		return int(c-'a') + 10
	case c >= 'A' && c <= 'F':
		return int(c-'A') + 10
	}
	return -1
}

func getu4(s []byte) rune {
	if len(s) < 6 || s[0] != '\\' || s[1] != 'u' {
		return -1
	}
	var r rune
	for _, c := range s[2:6] {
		v := hexv(c)
		if v < 0 {
			return -1
		}
		r = r*16 + rune(v)
	}
	return r
}

// unquoting with encoding/json's escape semantics (decode.go:unquoteBytes) except that every byte that is
// not part of an escape sequence is copied unchanged; lone surrogates -> U+FFFD when replace, else error.
func refUnquote(s []byte, replace bool) (out []byte, ok bool) {
	for i := 0; i < len(s); {
		c := s[i]
		if c != '\\' {
			out = append(out, c)
			i++
			continue
		}
		if i+1 >= len(s) {
			return nil, false
		}
		switch s[i+1] {
		case '"', '\\', '/':
			out = append(out, s[i+1])
			i += 2
		case 'b':
			out = append(out, '\b')
			i += 2
		case 'f':
			out = append(out, '\f')
			i += 2
		case 'n':
			out = append(out, '\n')
			i += 2
		case 'r':
			out = append(out, '\r')
			i += 2
		case 't':
			out = append(out, '\t')
			i += 2
		case 'u':
			r := getu4(s[i:])
			if r < 0 {
				return nil, false
			}
			i += 6
			if r >= 0xd800 && r <= 0xdfff {
				var dec rune = -1
				if r < 0xdc00 {
					if r2 := getu4(s[i:]); r2 >= 0xdc00 && r2 <= 0xdfff {
						dec = (r-0xd800)<<10 | (r2 - 0xdc00) + 0x10000
						i += 6
					}
				}
				if dec < 0 {
					if !replace {
						return nil, false
					}
					dec = 0xfffd
				}
				r = dec
			}
			out = utf8.AppendRune(out, r)
		default:
			return nil, false
		}
	}
	return out, true
}

// the reference accepts inputs whose later escapes are malformed only after the point where the
// implementation may already have stopped; both must still agree on ok/err for the whole input.

func refFirstBad(s []byte) int {
	for i := 0; i < len(s); {
		r, n := utf8.DecodeRune(s[i:])
		if r == utf8.RuneError && n == 1 {
			return i
		}
		i += n
	}
	return -1
}

func refBadPositions(s []byte, from int) []int {
	var p []int
	for i := from; i < len(s); {
		r, n := utf8.DecodeRune(s[i:])
		if r == utf8.RuneError && n == 1 {
			p = append(p, i)
		}
		i += n
	}
	return p
}

func refCorrect(dst, s []byte, repl string) []byte {
	o := append([]byte{}, dst...)
	for i := 0; i < len(s); {
		r, n := utf8.DecodeRune(s[i:])
		if r == utf8.RuneError && n == 1 {
			o = append(o, repl...)
		} else {
			o = append(o, s[i:i+n]...)
		}
		i += n
	}
	return o
}

// what encoding/json yields when it decodes a literal whose body is the JSON escape of s:
// s with every ill-formed byte replaced by U+FFFD
func jsonView(s []byte) string { return string(refCorrect(nil, s, "\xef\xbf\xbd")) }
