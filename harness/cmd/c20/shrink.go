package main

// delta-debugging of failing inputs before they are written to the report / replay file

import (
	"strings"

	"verif/harness/internal/rng"
)

func failKey(f failure) string {
	k := f.Kind
	if c, ok := f.Detail["class"]; ok {
		k += "/" + c
	}
	return k
}

// runner for a failure kind: re-runs the checks that can produce it on a candidate input
func runnerFor(kind string, r *rng.R) (field string, run func([]byte)) {
	switch {
	case kind == "through-double-vs-std":
		return "inner", func(b []byte) { throughDouble(b) }
	case strings.HasPrefix(kind, "through-Unmarshal"), strings.HasPrefix(kind, "through-ast-String"), strings.HasPrefix(kind, "through-ConfigStd.Unmarshal"):
		return "body", func(b []byte) {
			if noRawQuote(b) {
				throughUnmarshal(b, false)
			}
		}
	case strings.HasPrefix(kind, "through-"):
		return "src", func(b []byte) { throughMarshal(b, false) }
	case strings.HasPrefix(kind, "history-"):
		return "", nil // depends on what ran before (pools); the recorded prelude + input is the witness
	case kind == "hang" || strings.HasSuffix(kind, "-panic") || strings.HasSuffix(kind, "-overrun"):
		return "", nil // re-running these is not safe / needs the exact buffer geometry
	}
	return "src", func(b []byte) { allChecks(b, r, false, true) }
}

func shrinkBytes(src []byte, bad func([]byte) bool) []byte {
	cur := append([]byte{}, src...)
	budget := 1500
	try := func(c []byte) bool {
		if budget <= 0 {
			return false
		}
		budget--
		return bad(c)
	}
	for chunk := (len(cur) + 1) / 2; chunk >= 1; {
		removed := false
		for i := 0; i+chunk <= len(cur); {
			cand := append(append([]byte{}, cur[:i]...), cur[i+chunk:]...)
			if try(cand) {
				cur, removed = cand, true
			} else {
				i += chunk
			}
		}
		if !removed || chunk > len(cur) {
			chunk /= 2
		}
	}
	for i := range cur {
		if cur[i] == 'a' {
			continue
		}
		cand := append([]byte{}, cur...)
		cand[i] = 'a'
		if try(cand) {
			cur = cand
		}
	}
	return cur
}

// shrinkFailures: the first stored failure of every kind/class gets a minimised input (field shrunk_<field>)
func shrinkFailures(r *rng.R) {
	saved := map[string]int{}
	for k, v := range S.failsByKind {
		saved[k] = v
	}
	nf := S.nFails
	S.quiet = true
	done := map[string]bool{}
	for i := range S.fails {
		f := &S.fails[i]
		key := failKey(*f)
		if done[key] {
			continue
		}
		done[key] = true
		field, run := runnerFor(f.Kind, r)
		if run == nil {
			continue
		}
		h, ok := f.Detail[field]
		if !ok || len(h) > 2*4096 {
			continue
		}
		bad := func(c []byte) bool {
			before := S.failsByKind[key]
			run(c)
			return S.failsByKind[key] > before
		}
		src := unhex(h)
		if !bad(src) {
			continue // not reproducible in isolation (depends on buffer geometry or history)
		}
		f.Detail["shrunk_"+field] = hx(shrinkBytes(src, bad))
	}
	S.quiet = false
	S.failsByKind = saved
	S.nFails = nf
}
