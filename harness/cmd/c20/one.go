package main

import (
	"fmt"
	"strings"

	"github.com/bytedance/sonic"
	"github.com/bytedance/sonic/ast"
	"github.com/bytedance/sonic/encoder"
	"github.com/bytedance/sonic/unquote"
	sutf8 "github.com/bytedance/sonic/utf8"
	"github.com/bytedance/sonic/verifx"
)

func variantOf(ws string) *verifx.Funcs {
	if ws == "s" {
		return &verifx.SSE
	}
	return &verifx.AVX2
}

func atoi(s string) int { var n int; fmt.Sscan(s, &n); return n }

// replay of one model case line: prints the implementation's result line (same format as the model driver)
func runOne(line string) {
	f := strings.Split(line, "\t")
	if len(f) == 1 {
		f = strings.Fields(line)
	}
	var o []string
	switch f[0] {
	case "Q":
		o = quoteLine(nQuote(variantOf(f[1]), unhex(f[4]), atoi(f[3]), uint64(atoi(f[2]))))
	case "H":
		r := nHTML(variantOf(f[1]), unhex(f[3]), atoi(f[2]))
		o = []string{itoa(r.ret), itoa(r.dn), hx(r.out)}
	case "U":
		ret, ep, out, _ := nUnquote(&verifx.AVX2, unhex(f[2]), uint64(atoi(f[1])))
		if ret >= 0 {
			o = []string{"ok", hx(out)}
		} else {
			o = []string{"err", itoa(-ret), itoa(ep)}
		}
	case "V":
		o = []string{itoa(nValidateFast(&verifx.AVX2, unhex(f[1])))}
	case "VA":
		b := unhex(f[1])
		o = []string{btxt(refFirstBad(b) < 0), itoa(nValidateFast(&verifx.AVX2, b))}
	case "VE":
		r, np, vt := nValidate(&verifx.AVX2, unhex(f[3]), atoi(f[2]))
		o = []string{itoa(r), itoa(np), joinInts(vt)}
	case "GQ":
		buf := mkbuf(unhex(f[4]), atoi(f[3]))
		o = []string{hx(encoder.VerifAlgQuote(buf, string(unhex(f[5])), f[2] == "1"))}
	case "GU":
		s := string(unhex(f[2]))
		m := make([]byte, 0, len(s))
		if e := unquote.VerifIntoBytes(s, &m, f[1] == "1"); e != 0 {
			o = []string{"err", itoa(int(e))}
		} else {
			o = []string{"ok", hx(m)}
		}
	case "GH":
		var out []byte
		if safely(func() { out = encoder.HTMLEscape(mkbuf(unhex(f[3]), atoi(f[2])), unhex(f[4])) }) {
			o = []string{"panic"}
		} else {
			o = []string{"ok", hx(out)}
		}
	case "CW":
		pre := unhex(f[2])
		o = []string{hx(sutf8.CorrectWith(mkbuf(pre, len(pre)), unhex(f[4]), string(unhex(f[3]))))}
	case "GV":
		o = []string{btxt(sutf8.Validate(unhex(f[1])))}
	case "JS":
		doc := append(append([]byte(`{"S":"`), unhex(f[2])...), `"}`...)
		var b strTag
		var e error
		if f[1] == "1" {
			e = apiUnicodeErrors.Unmarshal(doc, &b)
		} else {
			e = sonic.Unmarshal(doc, &b)
		}
		if e != nil {
			o = []string{"err"}
		} else {
			o = []string{"ok", hx([]byte(b.S))}
		}
	case "AQ":
		pre := unhex(f[1])
		o = []string{hx(ast.VerifQuoteString(mkbuf(pre, len(pre)), string(unhex(f[2]))))}
	default:
		o = []string{"UNKNOWN"}
	}
	fmt.Println(strings.Join(o, "\t"))
}
