package main

// cases whose outcome depends on what ran before: pooled encoder buffers (several growths inside ONE string when the
// pool is empty) and the pooled native StateMachine that utf8.CorrectWith shares with the validators / parsers

import (
	"bytes"
	"encoding/json"
	"fmt"
	"runtime"

	"github.com/bytedance/sonic"
	"github.com/bytedance/sonic/encoder"
	sutf8 "github.com/bytedance/sonic/utf8"

	"verif/harness/internal/rng"
)

// empty the sync.Pools: a pooled object survives one collection in the victim cache
func drainPools() {
	runtime.GC()
	runtime.GC()
}

// one long string, marshalled first thing after the pools were emptied, so that the output buffer starts small and
// has to grow several times while this one string is being quoted
func bigStringMarshal(c byte, L int) {
	src := bytes.Repeat([]byte{c}, L)
	s := string(src)
	desc := fmt.Sprintf("%d x 0x%02x, first Marshal after two runtime.GC()", L, c)
	want := append(append([]byte{'"'}, refQuoteBody(src, false)...), '"')
	type plain struct {
		S string `json:"S"`
	}
	check := func(kind string, got []byte, err error, w []byte) {
		S.count(kind, src)
		if err != nil || !eq(got, w) {
			at := 0
			for at < len(got) && at < len(w) && got[at] == w[at] {
				at++
			}
			var back interface{}
			S.fail(kind, "input_desc", desc, "got_len", itoa(len(got)), "want_len", itoa(len(w)), "first_difference_at", itoa(at),
				"still_valid_json", btxt(json.Unmarshal(got, &back) == nil), "err", fmt.Sprint(err), "backend", *label)
		}
	}
	current.Store("big " + desc)
	drainPools()
	got, err := sonic.Marshal(s)
	check("history-Marshal-big-string", got, err, want)
	drainPools()
	got, err = sonic.Marshal(plain{s})
	check("history-Marshal-big-field", got, err, append(append([]byte(`{"S":`), want...), '}'))
	drainPools()
	got, err = sonic.Marshal(strTag{s})
	check("history-Marshal-big-double", got, err, append(append([]byte(`{"S":"\"`), refQuoteBody(src, true)...), `\""}`...))
	drainPools()
	got, err = sonic.Marshal([]string{s, s})
	check("history-Marshal-big-slice", got, err, append(append(append(append([]byte{'['}, want...), ','), want...), ']'))
	drainPools()
	got, err = sonic.ConfigStd.Marshal(s)
	var back string
	S.count("history-ConfigStd.Marshal-big-string", src)
	if err != nil || json.Unmarshal(got, &back) != nil || back != jsonView(src) {
		S.fail("history-ConfigStd.Marshal-big-string", "input_desc", desc, "got_len", itoa(len(got)), "decoded_len", itoa(len(back)), "want_decoded_len", itoa(len(jsonView(src))), "backend", *label)
	}
	current.Store("")
}

var brokenDocs = []string{`[[[[{"a":[[x`, `{"a":{"b":[[[{"c":[1,2,{"d":[x`, `[[[[[[[[[[[[[[[[`, `[[[{"a":[[[true,`}

// a failed validation / search / parse on a truncated nested document, then UTF-8 correction
func poisonStateMachine() {
	for _, d := range brokenDocs {
		_ = sonic.Valid([]byte(d))
		_ = sonic.ValidString(d)
		_, _ = encoder.Valid([]byte(d))
		_, _ = sonic.Get([]byte(d), 0, 0, 0, 0, "a", 0, 0)
		_, _ = sonic.GetFromString(d, "a", "b")
		var v interface{}
		_ = sonic.UnmarshalString(d, &v)
		if n, e := sonic.GetFromString(d); e == nil {
			_ = n.LoadAll()
			_, _ = n.Interface()
		}
	}
	// the last user of the pooled machine is a validation that failed deep inside nested containers
	poisonCount++
	switch poisonCount % 3 {
	case 0:
		_ = sonic.Valid([]byte(brokenDocs[0]))
		lastPoison = "sonic.Valid(" + brokenDocs[0] + ")"
	case 1:
		_ = sonic.ValidString(brokenDocs[1])
		lastPoison = "sonic.ValidString(" + brokenDocs[1] + ")"
	default:
		_, _ = sonic.GetFromString(brokenDocs[0])
		lastPoison = "sonic.GetFromString(" + brokenDocs[0] + ")"
	}
}

var poisonCount int
var lastPoison string

func historyUTF8(r *rng.R, rounds int) {
	inputs := [][]byte{{0xff}, []byte("a\xffb"), []byte("\xc0\x80ok\xed\xa0\x80"), []byte("x\xe2\x82"), bytes.Repeat([]byte{0xff, 'a'}, 40)}
	for round := 0; round < rounds; round++ {
		for i := 0; i < 6; i++ {
			src := inputs[r.Intn(len(inputs))]
			if r.Intn(3) == 0 {
				src = append(append([]byte{}, src...), specials[r.Intn(len(specials))].seq...)
			}
			poisonStateMachine()
			prelude := "failed Valid/ValidString/encoder.Valid/Get/Unmarshal/LoadAll on truncated nested documents, last call before this one: " + lastPoison + " (round " + itoa(round) + ")"
			current.Store("history-utf8 " + hx(src))
			var o []byte
			S.count("history-utf8.CorrectWith", src)
			if safely(func() { o = sutf8.CorrectWith(nil, src, "\xef\xbf\xbd") }) {
				S.fail("history-CorrectWith-panic", "src", hx(src), "prelude", prelude)
			} else if want := refCorrect(nil, src, "\xef\xbf\xbd"); !eq(o, want) {
				S.fail("history-CorrectWith", "src", hx(src), "prelude", prelude, "got", hx(o), "want", hx(want))
			}
			poisonStateMachine()
			prelude = "last call before this one: " + lastPoison + " (round " + itoa(round) + ")"
			S.count("history-ConfigStd.Marshal", src)
			var got []byte
			var err error
			var back string
			if safely(func() { got, err = sonic.ConfigStd.Marshal(string(src)) }) {
				S.fail("history-ConfigStd.Marshal-panic", "src", hx(src), "prelude", prelude)
			} else if err != nil || json.Unmarshal(got, &back) != nil || back != jsonView(src) {
				S.fail("history-ConfigStd.Marshal", "src", hx(src), "prelude", prelude, "got", hx(got), "err", fmt.Sprint(err))
			}
			poisonStateMachine()
			if v, w := sutf8.Validate(src), false; v != w {
				S.fail("history-utf8.Validate", "src", hx(src), "prelude", prelude)
			}
			current.Store("")
		}
	}
}

func genHistory(r *rng.R, thorough bool) {
	sizes := []int{20000, 50000, 80000}
	if thorough {
		sizes = append(sizes, 5000, 33000, 200000)
	}
	for _, L := range sizes {
		for _, c := range []byte{0x01, '"', '\\', 'a', '\n'} {
			bigStringMarshal(c, L)
		}
	}
	rounds := 8
	if thorough {
		rounds = 40
	}
	historyUTF8(r, rounds)
}
