package main

// raw native entry points of both SIMD variants, called with guarded destination buffers

import (
	"unsafe"

	"github.com/bytedance/sonic/verifx"
)

const guard = 96
const canary = 0xA5

var dummy [64]byte

func ptrOf(b []byte) unsafe.Pointer {
	if len(b) == 0 {
		return unsafe.Pointer(&dummy[32])
	}
	return unsafe.Pointer(&b[0])
}

// a destination of exactly n usable bytes followed by canary bytes
func newDst(n int) []byte {
	d := make([]byte, n+guard)
	for i := range d {
		d[i] = canary
	}
	return d
}

func overrun(d []byte, n int) bool {
	for _, c := range d[n:] {
		if c != canary {
			return true
		}
	}
	return false
}

type nres struct {
	ret, dn int
	out     []byte
	over    bool
}

func nQuote(f *verifx.Funcs, src []byte, dn int, flags uint64) nres {
	d := newDst(dn)
	n := dn
	ret := f.Quote(ptrOf(src), len(src), unsafe.Pointer(&d[0]), unsafe.Pointer(&n), flags)
	r := nres{ret: ret, dn: n, over: overrun(d, dn)}
	if n >= 0 && n <= dn {
		r.out = d[:n]
	}
	return r
}

func nHTML(f *verifx.Funcs, src []byte, dn int) nres {
	d := newDst(dn)
	n := dn
	ret := f.HTMLEscape(ptrOf(src), len(src), unsafe.Pointer(&d[0]), unsafe.Pointer(&n))
	r := nres{ret: ret, dn: n, over: overrun(d, dn)}
	if n >= 0 && n <= dn {
		r.out = d[:n]
	}
	return r
}

// unquote: destination of len(src) bytes (the contract of unquote.String), *ep starts at -1
func nUnquote(f *verifx.Funcs, src []byte, flags uint64) (ret, ep int, out []byte, over bool) {
	d := newDst(len(src))
	ep = -1
	ret = f.Unquote(ptrOf(src), len(src), unsafe.Pointer(&d[0]), unsafe.Pointer(&ep), flags)
	over = overrun(d, len(src))
	if ret >= 0 && ret <= len(src) {
		out = d[:ret]
	}
	return
}

func nValidateFast(f *verifx.Funcs, src []byte) int {
	s := string(src)
	if len(s) == 0 {
		// the Go wrappers never call the native routine on an empty string (xassert in the C source)
		return 0
	}
	return f.ValidateUTF8Fast(unsafe.Pointer(&s))
}

func nValidate(f *verifx.Funcs, src []byte, p int) (ret, np int, vt []int) {
	s := string(src)
	m := verifx.NewStateMachine()
	m.Sp = 0
	np = p
	ret = f.ValidateUTF8(unsafe.Pointer(&s), unsafe.Pointer(&np), unsafe.Pointer(m))
	if m.Sp >= 0 && m.Sp <= len(m.Vt) {
		vt = append(vt, m.Vt[:m.Sp]...)
	}
	return
}
