// c20: quote / unquote / html-escape / UTF-8 routines of sonic against (a) the extracted Coq model
// (case file + expected result file, diffed by checks/C20.py) and (b) independent oracles
// (encoding/json, unicode/utf8, plain reference code in oracle.go).
//
//	-mode gen     generate cases from the seed, run the real code, write <out>/cases.txt, impl.txt, report.json
//	-mode through only the Marshal/Unmarshal-level cases (run once per back-end environment)
//	-mode one     run the single model case given with -case (replay) and print the implementation's result line
package main

import (
	"encoding/json"
	"flag"
	"fmt"
	"os"
	"path/filepath"
	"sort"
	"strconv"
	"strings"
	"sync/atomic"
	"time"

	"github.com/bytedance/sonic/verifx"

	"verif/harness/internal/out"
	"verif/harness/internal/rng"
)

var (
	mode      = flag.String("mode", "gen", "")
	tier      = flag.String("tier", "quick", "")
	seed      = flag.Uint64("seed", 1, "")
	outDir    = flag.String("out", "", "")
	oneCase   = flag.String("case", "", "")
	label     = flag.String("label", "default", "back-end label for -mode through")
	corpusDir = flag.String("corpus", "", "directory of *.case files (hex byte strings, one per line), run first")
)

type failure struct {
	Kind   string            `json:"kind"`
	Detail map[string]string `json:"detail"`
}

type sink struct {
	cases, impl *out.W
	nTie        int
	evals       int
	fails       []failure
	nFails      int
	failsByKind map[string]int
	quiet       bool // shrinking: count failures only
	dist        map[string]int
	tieByOp     map[string]int
	seen        map[uint64]struct{}
	nontrivial  int
	samples     []string
}

var S = &sink{failsByKind: map[string]int{}, dist: map[string]int{}, tieByOp: map[string]int{}, seen: map[uint64]struct{}{}}

var current atomic.Value // string: the case being executed (for the watchdog)

func hash(s string) uint64 {
	h := uint64(1469598103934665603)
	for i := 0; i < len(s); i++ {
		h = (h ^ uint64(s[i])) * 1099511628211
	}
	return h
}

// tie: one line for the model, the implementation's result line in the same format as the OCaml driver
func (s *sink) tie(c []string, r []string) {
	if s.quiet {
		return
	}
	s.cases.Line(c...)
	s.impl.Line(r...)
	s.nTie++
	s.tieByOp[c[0]]++
	if len(s.samples) < 6 && s.nTie%997 == 1 {
		s.samples = append(s.samples, strings.Join(c, " ")+" => "+strings.Join(r, " "))
	}
}

func (s *sink) count(kind string, input []byte) {
	if s.quiet {
		return
	}
	s.evals++
	s.dist[kind]++
	h := hash(kind + "\x00" + string(input))
	if _, ok := s.seen[h]; !ok {
		s.seen[h] = struct{}{}
		if len(input) > 0 {
			s.nontrivial++
		}
	}
}

func (s *sink) fail(kind string, kv ...string) {
	d := map[string]string{}
	for i := 0; i+1 < len(kv); i += 2 {
		d[kv[i]] = kv[i+1]
	}
	key := kind
	if c, ok := d["class"]; ok {
		key += "/" + c
	}
	s.nFails++
	s.failsByKind[key]++
	if s.quiet || s.failsByKind[key] > 12 {
		return
	}
	s.fails = append(s.fails, failure{kind, d})
}

func hx(b []byte) string          { return out.Hex(b) }
func itoa(i int) string           { return strconv.Itoa(i) }
func b2s(b bool) string           { return map[bool]string{true: "1", false: "0"}[b] }
func btxt(b bool) string          { return strconv.FormatBool(b) }
func wsOf(f *verifx.Funcs) string { return f.Name[:1] } // "a" (avx2) | "s" (sse)

var variants = []*verifx.Funcs{&verifx.AVX2, &verifx.SSE}

func main() {
	flag.Parse()
	if *mode == "one" {
		runOne(*oneCase)
		return
	}
	if *outDir == "" {
		fmt.Fprintln(os.Stderr, "need -out")
		os.Exit(2)
	}
	os.MkdirAll(*outDir, 0o755)
	S.cases = out.Create(filepath.Join(*outDir, "cases.txt"))
	S.impl = out.Create(filepath.Join(*outDir, "impl.txt"))
	current.Store("")
	go watchdog()
	r := rng.New(*seed)
	switch *mode {
	case "gen":
		genAll(r, *tier == "thorough")
	case "through":
		genThrough(r, *tier == "thorough")
	default:
		fmt.Fprintln(os.Stderr, "unknown mode")
		os.Exit(2)
	}
	shrinkFailures(r.Fork(99))
	S.cases.Close()
	S.impl.Close()
	writeReport()
}

func writeReport() {
	keys := make([]string, 0, len(S.dist))
	for k := range S.dist {
		keys = append(keys, k)
	}
	sort.Strings(keys)
	rep := map[string]interface{}{
		"evaluations": S.evals, "tied": S.nTie, "tied_by_op": S.tieByOp, "distribution": S.dist,
		"distinct_nontrivial": S.nontrivial, "failures": S.fails, "n_failures": S.nFails, "failures_by_kind": S.failsByKind, "samples": S.samples,
		"label": *label,
	}
	b, _ := json.MarshalIndent(rep, "", " ")
	os.WriteFile(filepath.Join(*outDir, "report.json"), b, 0o644)
}

// a call that does not return (e.g. a restart loop that stopped making progress) must not hang the check
func watchdog() {
	last, since := "", time.Now()
	for {
		time.Sleep(500 * time.Millisecond)
		c, _ := current.Load().(string)
		if c != last || c == "" {
			last, since = c, time.Now()
			continue
		}
		if time.Since(since) > 20*time.Second {
			S.fail("hang", "case", c, "what", "the call did not return within 20 s")
			S.cases.Close()
			S.impl.Close()
			writeReport()
			os.Exit(3)
		}
	}
}
