package main

import (
	"bytes"
	"os"
	"path/filepath"
	"strings"

	"verif/harness/internal/rng"
)

// the byte alphabet of the exhaustive sweep: quote, backslash, plain, controls, html, pieces of
// U+2028 (e2 80 a8), ill-formed bytes (ff, c0), pieces of a surrogate (ed a0 80), escape letters/digits
var alphabet = []byte{'"', '\\', 'a', 0x00, 0x1f, '<', 0xe2, 0x80, 0xa8, 0xff, 0xc0, 0xed, 0xa0, 'u', 'd', '8', '0'}

// tokens of the unquote sweep
var tokens = []string{`\`, `\\`, `"`, `a`, `u`, `\u`, `d800`, `dc00`, `d83d`, `de00`, `0041`, `00e9`, `20ac`, `00`, `dBfF`, `n`, `\n`, `/`, `x`, "\xff",
	`\\u`, `\"`, `\\\"`, `\\\\`, `\u0000`, `\ud83d\ude00`}

var hexEdge = []byte{0x00, 0x2f, 0x30, 0x39, 0x3a, 0x40, 0x41, 0x46, 0x47, 0x60, 0x61, 0x66, 0x67, 0x7f, 0x80, 0xff}

type specialKind struct {
	name string
	seq  string
}

var specials = []specialKind{
	{"quote", `"`}, {"backslash", `\`}, {"nul", "\x00"}, {"newline", "\n"}, {"lt", "<"}, {"amp", "&"},
	{"u2028", "\xe2\x80\xa8"}, {"u2029", "\xe2\x80\xa9"}, {"e2-lone", "\xe2"}, {"e2-80", "\xe2\x80"}, {"ff", "\xff"},
	{"euro", "\xe2\x82\xac"}, {"emoji", "\xf0\x9f\x98\x80"}, {"surrogate-bytes", "\xed\xa0\x80"}, {"overlong", "\xc0\x80"},
	{"esc-n", `\n`}, {"esc-u", `\u00e9`}, {"esc-pair", `\ud83d\ude00`}, {"esc-lone", `\ud800`}, {"esc-bad", `\x`},
	{"dbl-quote", `\\\"`}, {"dbl-u", `\\u0041`},
}

func allChecks(src []byte, r *rng.R, tie bool, golevel bool) {
	n := len(src)
	checkQuoteN(src, n*8+8, 0, tie)
	checkQuoteN(src, n*8+8, 1, tie)
	// exact fit and one short of it: the bounded loop and its failure return
	fit0 := len(refQuoteBody(src, false))
	fit1 := len(refQuoteBody(src, true))
	checkQuoteN(src, fit0, 0, tie)
	checkQuoteN(src, fit1, 1, tie)
	if fit0 > 0 {
		checkQuoteN(src, r.Intn(fit0), 0, tie)
		checkQuoteN(src, fit0-1, 0, false)
	}
	if fit1 > 0 {
		checkQuoteN(src, r.Intn(fit1), 1, tie)
	}
	h := len(stdHTMLEscape(src))
	checkHTMLN(src, h+8, tie)
	checkHTMLN(src, h, tie)
	if h > 0 {
		checkHTMLN(src, r.Intn(h), tie)
		checkHTMLN(src, h-1, false)
	}
	checkUnquoteN(src, tie)
	checkRoundTripN(src)
	checkUTF8N(src, tie)
	if golevel {
		var prefix []byte
		capacity := 0
		switch r.Intn(4) {
		case 1:
			prefix, capacity = []byte("xy"), 2+r.Intn(2*n+4)
		case 2:
			prefix, capacity = bytes.Repeat([]byte{'p'}, r.Intn(70)), r.Intn(3*n+80)
		case 3:
			capacity = r.Intn(8*n + 4)
		}
		checkQuoteGo(src, prefix, capacity, tie)
		checkUnquoteGo(src, tie)
		checkHTMLGo(src, prefix, capacity, tie)
		repl := "\xef\xbf\xbd"
		if r.Intn(4) == 0 {
			repl = []string{"", "?", `\ufffd`}[r.Intn(3)]
		}
		checkUTF8Go(src, prefix, repl, tie)
	}
}

func allBounded(src []byte, tie bool) {
	for fl := uint64(0); fl < 2; fl++ {
		fit := len(refQuoteBody(src, fl == 1))
		for dn := 0; dn <= fit+1; dn++ {
			checkQuoteN(src, dn, fl, tie)
		}
	}
	h := len(stdHTMLEscape(src))
	for dn := 0; dn <= h+1; dn++ {
		checkHTMLN(src, dn, tie)
	}
}

func enumerate(alpha []byte, maxLen int, f func([]byte)) {
	buf := make([]byte, 0, maxLen)
	var rec func(int)
	rec = func(d int) {
		f(buf)
		if d == maxLen {
			return
		}
		for _, c := range alpha {
			buf = append(buf, c)
			rec(d + 1)
			buf = buf[:len(buf)-1]
		}
	}
	rec(0)
}

func corpusCases() [][]byte {
	var cs [][]byte
	if *corpusDir == "" {
		return nil
	}
	files, _ := filepath.Glob(filepath.Join(*corpusDir, "*.case"))
	for _, fn := range files {
		b, err := os.ReadFile(fn)
		if err != nil {
			continue
		}
		for _, l := range strings.Split(string(b), "\n") {
			l = strings.TrimSpace(l)
			if l == "" || strings.HasPrefix(l, "#") {
				continue
			}
			cs = append(cs, unhex(l))
		}
	}
	return cs
}

func unhex(h string) []byte {
	if h == "-" {
		return nil
	}
	o := make([]byte, len(h)/2)
	for i := range o {
		o[i] = byte(hexv(h[2*i])<<4 | hexv(h[2*i+1]))
	}
	return o
}

func genAll(r *rng.R, thorough bool) {
	// 0. corpus first (byte strings, hex, one per line)
	for _, c := range corpusCases() {
		allChecks(c, r, true, true)
		if len(c) <= 40 {
			allBounded(c, true)
		}
	}

	// 0b. every single byte value, alone and between two plain bytes (minimal witnesses for per-byte mistakes)
	for b := 0; b < 256; b++ {
		allChecks([]byte{byte(b)}, r, true, true)
		allChecks([]byte{'a', byte(b), 'z'}, r, b%4 == 0, true)
	}

	// 1. every string over the alphabet
	maxLen, goLen, boundLen := 4, 3, 3
	tieEvery := 150
	if thorough {
		maxLen, goLen, boundLen = 5, 4, 3
		tieEvery = 300
	}
	ra := r.Fork(1)
	i := 0
	enumerate(alphabet, maxLen, func(b []byte) {
		src := append([]byte{}, b...)
		i++
		tie := len(src) <= 2 || i%tieEvery == 0
		allChecks(src, ra, tie, len(src) <= goLen)
		if len(src) <= boundLen {
			allBounded(src, len(src) <= 1 || i%53 == 0)
		}
	})

	// 2. unquote: token sequences
	maxTok := 3
	if thorough {
		maxTok = 4
	}
	idx := make([]byte, len(tokens))
	for k := range idx {
		idx[k] = byte(k)
	}
	j := 0
	enumerate(idx, maxTok, func(b []byte) {
		var sb []byte
		for _, k := range b {
			sb = append(sb, tokens[k]...)
		}
		j++
		tie := len(b) <= 1 || j%(tieEvery/4) == 0
		checkUnquoteN(sb, tie)
		checkUnquoteGo(sb, tie)
	})

	// 3. unquote: the four bytes after \u (and after a high surrogate's \u) at the edges of the hex ranges
	k := 0
	for _, a := range hexEdge {
		for _, b := range hexEdge {
			for _, c := range hexEdge {
				for _, d := range hexEdge {
					k++
					s := []byte{'\\', 'u', a, b, c, d}
					checkUnquoteN(s, k%97 == 0)
					if k%8 == 0 {
						checkUnquoteN(append([]byte(`\ud800\u`), a, b, c, d), k%776 == 0)
						checkUnquoteN(append(append([]byte(`x\\u`), a, b, c, d), 'z'), k%776 == 0)
					}
				}
			}
		}
	}

	// 4. every special at every offset, lengths 0..130 (both sides of the 16/32-byte block boundaries)
	rb := r.Fork(2)
	step := 1
	for L := 0; L <= 130; L++ {
		for _, sp := range specials {
			for o := 0; o+len(sp.seq) <= L; o += step {
				src := bytes.Repeat([]byte{'a'}, L)
				copy(src[o:], sp.seq)
				S.dist["block/"+sp.name]++
				pick := rb.Intn(24)
				if !thorough && pick >= 8 && !(o%16 <= 1 || o%16 >= 14 || L-o <= 2) {
					// quick tier: everything next to a block edge or the end, one third of the rest
					continue
				}
				allChecks(src, rb, pick == 0, pick < 4)
				if pick == 1 && (L <= 48 || thorough) {
					allBounded(src, L <= 20)
				}
			}
		}
		// second special somewhere else
		for t := 0; t < 6; t++ {
			if L < 2 {
				break
			}
			src := bytes.Repeat([]byte{'a'}, L)
			for q := 0; q < 2+rb.Intn(3); q++ {
				sp := specials[rb.Intn(len(specials))]
				if len(sp.seq) <= L {
					copy(src[rb.Intn(L-len(sp.seq)+1):], sp.seq)
				}
			}
			allChecks(src, rb, t == 0, true)
			if t == 1 && L <= 64 {
				allBounded(src, false)
			}
		}
	}

	// 5. random strings
	rc := r.Fork(3)
	n := 4000
	if thorough {
		n = 80000
	}
	for t := 0; t < n; t++ {
		L := rc.Intn(12)
		switch rc.Intn(5) {
		case 0:
			L = rc.Intn(70)
		case 1:
			L = 14 + rc.Intn(5) + 16*rc.Intn(9)
		case 2:
			L = rc.Intn(300)
		}
		src := make([]byte, L)
		for q := range src {
			switch rc.Intn(10) {
			case 0, 1, 2, 3:
				src[q] = 'a' + byte(rc.Intn(26))
			case 4, 5:
				src[q] = alphabet[rc.Intn(len(alphabet))]
			case 6:
				src[q] = byte(rc.Intn(256))
			default:
				sp := specials[rc.Intn(len(specials))].seq
				copy(src[q:], sp)
			}
		}
		allChecks(src, rc, t%9 == 0, true)
		if t%50 == 0 && L <= 80 {
			allBounded(src, t%100 == 0 && L <= 40)
		}
	}

	// 6. long inputs: more than MAX_RECURSE ill-formed bytes (CorrectWith restarts), long quote / escape runs
	rd := r.Fork(4)
	for _, L := range []int{4095, 4096, 4097, 4100, 8192, 8193, 9000} {
		src := bytes.Repeat([]byte{0xff}, L)
		checkUTF8N(src, L == 4097)
		checkUTF8Go(src, []byte("p"), "\xef\xbf\xbd", L == 4097 || L == 8193)
		mix := make([]byte, L+rd.Intn(50))
		for q := range mix {
			mix[q] = []byte{0xff, 'a', 0xc3, 0xa9, 0x80}[rd.Intn(5)]
		}
		checkUTF8N(mix, false)
		checkUTF8Go(mix, nil, "?", false)
	}
	for _, L := range []int{1000, 4096, 70000} {
		for _, c := range []byte{'"', 'a', 0x01, '<', '\\'} {
			src := bytes.Repeat([]byte{c}, L)
			for q := 0; q < L; q += 1 + rd.Intn(97) {
				src[q] = 'b'
			}
			checkQuoteN(src, L*8+8, 0, false)
			checkQuoteN(src, L*3, 1, false)
			checkHTMLN(src, L*2, false)
			checkQuoteGo(src, []byte("k"), rd.Intn(L), false)
			checkHTMLGo(src, []byte("k"), rd.Intn(L), false)
			checkUnquoteGo(refQuoteBody(src, false), false)
		}
	}

	// 7. HTMLEscape into destinations with long prefixes and little spare capacity (regression of the panic
	//    repaired by e1e5e27: len(dst) > len(src)*3/2+64 with less than len(src)+64 spare bytes)
	htmlPrefixCases(r.Fork(5))

	// 8. through Marshal / Unmarshal in this process's back end
	genThrough(r.Fork(6), thorough)
}

func htmlPrefixCases(r *rng.R) {
	for _, pl := range []int{0, 1, 63, 64, 65, 66, 100, 200, 1000} {
		for _, sl := range []int{0, 1, 2, 10, 100} {
			for _, spare := range []int{0, 1, sl, sl + 63, sl + 64, sl*6 + 64} {
				src := bytes.Repeat([]byte{'<'}, sl)
				if sl > 2 {
					src[1] = 'a'
				}
				prefix := bytes.Repeat([]byte{'p'}, pl)
				checkHTMLGo(src, prefix, pl+spare, true)
			}
		}
	}
}
