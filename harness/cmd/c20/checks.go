package main

import (
	"bytes"
	"encoding/json"
	"fmt"
	"unicode/utf8"

	"github.com/bytedance/sonic/ast"
	"github.com/bytedance/sonic/encoder"
	"github.com/bytedance/sonic/unquote"
	sutf8 "github.com/bytedance/sonic/utf8"
	"github.com/bytedance/sonic/verifx"
)

func eq(a, b []byte) bool { return bytes.Equal(a, b) }

// ---------------------------------------------------------------- raw native: quote

func quoteLine(r nres) []string { return []string{itoa(r.ret), hx(r.out)} }

// native quote at capacity dn, both variants, one mode; oracle: greedy reference + decodes back
func checkQuoteN(src []byte, dn int, flags uint64, tie bool) {
	wantRet, wantOut := refQuoteBounded(src, dn, flags&1 != 0)
	for _, f := range variants {
		r := nQuote(f, src, dn, flags)
		S.count("quote/"+f.Name, src)
		if r.over {
			S.fail("quote-overrun", "variant", f.Name, "src", hx(src), "dn", itoa(dn), "flags", itoa(int(flags)))
		}
		if r.ret != wantRet || r.dn != len(wantOut) || !eq(r.out, wantOut) {
			S.fail("quote-native", "variant", f.Name, "src", hx(src), "dn", itoa(dn), "flags", itoa(int(flags)),
				"got", fmt.Sprintf("%d %d %s", r.ret, r.dn, hx(r.out)), "want", fmt.Sprintf("%d %d %s", wantRet, len(wantOut), hx(wantOut)))
		}
		if tie {
			S.tie([]string{"Q", wsOf(f), itoa(int(flags)), itoa(dn), hx(src)}, quoteLine(r))
		}
	}
}

// ---------------------------------------------------------------- raw native: html_escape

func checkHTMLN(src []byte, dn int, tie bool) {
	wantRet, wantOut := refHTMLBounded(src, dn)
	for _, f := range variants {
		r := nHTML(f, src, dn)
		S.count("html/"+f.Name, src)
		if r.over {
			S.fail("html-overrun", "variant", f.Name, "src", hx(src), "dn", itoa(dn))
		}
		if r.ret != wantRet || r.dn != len(wantOut) || !eq(r.out, wantOut) {
			S.fail("html-native", "variant", f.Name, "src", hx(src), "dn", itoa(dn),
				"got", fmt.Sprintf("%d %d %s", r.ret, r.dn, hx(r.out)), "want", fmt.Sprintf("%d %d %s", wantRet, len(wantOut), hx(wantOut)))
		}
		if tie {
			S.tie([]string{"H", wsOf(f), itoa(dn), hx(src)}, []string{itoa(r.ret), itoa(r.dn), hx(r.out)})
		}
	}
}

// ---------------------------------------------------------------- raw native: unquote

func checkUnquoteN(src []byte, tie bool) {
	for flags := uint64(0); flags < 4; flags++ {
		var first []string
		for i, f := range variants {
			ret, ep, o, over := nUnquote(f, src, flags)
			S.count("unquote/"+f.Name, src)
			if over {
				S.fail("unquote-overrun", "variant", f.Name, "src", hx(src), "flags", itoa(int(flags)))
			}
			var line []string
			if ret >= 0 {
				line = []string{"ok", hx(o)}
			} else {
				line = []string{"err", itoa(-ret), itoa(ep)}
			}
			if flags&1 == 0 { // single mode: the reference of encoding/json's escape semantics
				want, ok := refUnquote(src, flags&2 != 0)
				if ok != (ret >= 0) || (ok && !eq(want, o)) {
					S.fail("unquote-native", "variant", f.Name, "src", hx(src), "flags", itoa(int(flags)),
						"got", fmt.Sprint(line), "want", fmt.Sprint(ok, hx(want)))
				}
			}
			if i == 0 {
				first = line
			} else if fmt.Sprint(first) != fmt.Sprint(line) {
				S.fail("unquote-avx2-vs-sse", "src", hx(src), "flags", itoa(int(flags)), "avx2", fmt.Sprint(first), "sse", fmt.Sprint(line))
			}
			if tie && i == 0 {
				S.tie([]string{"U", itoa(int(flags)), hx(src)}, line)
			}
		}
	}
}

// quote then unquote is the identity, single and double modes, every variant (the round trip of the property)
func checkRoundTripN(src []byte) {
	for _, f := range variants {
		for flags := uint64(0); flags < 2; flags++ {
			q := nQuote(f, src, len(src)*8+8, flags)
			S.count("roundtrip/"+f.Name, src)
			if q.ret != len(src) {
				S.fail("roundtrip-quote", "variant", f.Name, "src", hx(src), "flags", itoa(int(flags)), "ret", itoa(q.ret))
				continue
			}
			for _, rep := range []uint64{0, 2} {
				ret, _, o, _ := nUnquote(f, q.out, flags|rep)
				if ret < 0 || !eq(o, src) {
					S.fail("roundtrip", "variant", f.Name, "src", hx(src), "flags", itoa(int(flags|rep)), "quoted", hx(q.out),
						"got", fmt.Sprint(ret, hx(o)))
				}
			}
		}
	}
}

// ---------------------------------------------------------------- raw native: UTF-8

func checkUTF8N(src []byte, tie bool) {
	bad := refFirstBad(src)
	if utf8.Valid(src) != (bad < 0) {
		panic("oracle inconsistency")
	}
	for _, f := range variants {
		S.count("utf8fast/"+f.Name, src)
		ret := nValidateFast(f, src)
		want := 0
		if bad >= 0 {
			want = -bad - 1
		}
		if ret != want {
			S.fail("utf8-fast", "variant", f.Name, "src", hx(src), "got", itoa(ret), "want", itoa(want))
		}
		if tie && f == variants[0] {
			S.tie([]string{"V", hx(src)}, []string{itoa(ret)})
			// the model of the AVX2 lookup pre-check: its verdict is unicode/utf8's, the routine's result is the blob's
			S.tie([]string{"VA", hx(src)}, []string{btxt(bad < 0), itoa(ret)})
		}
		if len(src) == 0 {
			continue
		}
		p := 0
		if len(src) > 3 {
			p = len(src) % 3 // also start inside the string
			for p > 0 && !utf8.RuneStart(src[p]) {
				p--
			}
		}
		r, np, vt := nValidate(f, src, p)
		S.count("utf8pos/"+f.Name, src)
		wantVt := refBadPositions(src, p)
		if len(wantVt) <= verifx.MaxRecurse {
			if r != 0 || np != len(src) || fmt.Sprint(vt) != fmt.Sprint(wantVt) {
				S.fail("utf8-positions", "variant", f.Name, "src", hx(src), "p", itoa(p), "got", fmt.Sprint(r, np, vt), "want", fmt.Sprint(0, len(src), wantVt))
			}
		} else if r != -1 || np != wantVt[verifx.MaxRecurse] || fmt.Sprint(vt) != fmt.Sprint(wantVt[:verifx.MaxRecurse]) {
			S.fail("utf8-positions-full", "variant", f.Name, "len", itoa(len(src)), "p", itoa(p), "got", fmt.Sprint(r, np, len(vt)))
		}
		if tie && f == variants[0] {
			S.tie([]string{"VE", itoa(verifx.MaxRecurse), itoa(p), hx(src)}, []string{itoa(r), itoa(np), joinInts(vt)})
		}
	}
}

func joinInts(v []int) string {
	if len(v) == 0 {
		return "-"
	}
	var b bytes.Buffer
	for i, x := range v {
		if i > 0 {
			b.WriteByte(',')
		}
		b.WriteString(itoa(x))
	}
	return b.String()
}

// ---------------------------------------------------------------- Go level (public API + hooks)

func safely(f func()) (panicked bool) {
	defer func() {
		if recover() != nil {
			panicked = true
		}
	}()
	f()
	return
}

// buffer with the given prefix and capacity (cap >= len(prefix))
func mkbuf(prefix []byte, capacity int) []byte {
	if capacity < len(prefix) {
		capacity = len(prefix)
	}
	b := make([]byte, len(prefix), capacity)
	copy(b, prefix)
	return b
}

func checkQuoteGo(src []byte, prefix []byte, capacity int, tie bool) {
	s := string(src)
	current.Store("quote " + hx(src))
	// encoder.Quote
	got := []byte(encoder.Quote(s))
	S.count("encoder.Quote", src)
	want := append(append([]byte{'"'}, refQuoteBody(src, false)...), '"')
	if !eq(got, want) {
		S.fail("encoder.Quote", "src", hx(src), "got", hx(got), "want", hx(want))
	}
	// decodes back to the input (encoding/json as decoder; ill-formed bytes come back as U+FFFD there)
	var back string
	if err := json.Unmarshal(got, &back); err != nil || back != jsonView(src) {
		S.fail("encoder.Quote-not-decodable", "src", hx(src), "got", hx(got), "err", fmt.Sprint(err))
	}
	// ... and through sonic's own unquoter exactly
	if len(got) >= 2 {
		u, e := unquote.String(string(got[1 : len(got)-1]))
		if e != 0 || u != s {
			S.fail("unquote(quote)", "src", hx(src), "quoted", hx(got), "got", hx([]byte(u)), "err", itoa(int(e)))
		}
	}
	if tie {
		S.tie([]string{"GQ", "a", "0", itoa(len(src) + 2), "-", hx(src)}, []string{hx(got)})
	}
	// alg.Quote with a caller-chosen destination, both modes
	for _, dbl := range []bool{false, true} {
		buf := mkbuf(prefix, capacity)
		var o []byte
		if safely(func() { o = encoder.VerifAlgQuote(buf, s, dbl) }) {
			S.fail("alg.Quote-panic", "src", hx(src), "prefix", hx(prefix), "cap", itoa(capacity), "double", b2s(dbl))
			continue
		}
		S.count("alg.Quote", src)
		var w []byte
		if dbl {
			w = append(append(append(append([]byte{}, prefix...), `"\"`...), refQuoteBody(src, true)...), `\""`...)
		} else {
			w = append(append(append(append([]byte{}, prefix...), '"'), refQuoteBody(src, false)...), '"')
		}
		if !eq(o, w) {
			S.fail("alg.Quote", "src", hx(src), "prefix", hx(prefix), "cap", itoa(capacity), "double", b2s(dbl), "got", hx(o), "want", hx(w))
		}
		if dbl && len(o) >= len(prefix) {
			// a double-quoted value is a JSON string whose content is a JSON string whose content is src
			var l1, l2 string
			if json.Unmarshal(o[len(prefix):], &l1) != nil || json.Unmarshal([]byte(l1), &l2) != nil || l2 != jsonView(src) {
				S.fail("alg.Quote-double-not-decodable", "src", hx(src), "got", hx(o))
			}
		}
		if tie {
			S.tie([]string{"GQ", "a", b2s(dbl), itoa(cap(buf)), hx(prefix), hx(src)}, []string{hx(o)})
		}
	}
	// ast: quote (native on this platform) and the portable quoteString
	aq := ast.VerifQuote(mkbuf(prefix, capacity), s)
	S.count("ast.quote", src)
	if w := append(append(append(append([]byte{}, prefix...), '"'), refQuoteBody(src, false)...), '"'); !eq(aq, w) {
		S.fail("ast.quote", "src", hx(src), "got", hx(aq), "want", hx(w))
	}
	qs := ast.VerifQuoteString(mkbuf(prefix, capacity), s)
	S.count("ast.quoteString", src)
	// oracle: a JSON literal that decodes back (U+2028/9 escaped, everything else as the table says)
	var back2 string
	if len(qs) < len(prefix) || !eq(qs[:len(prefix)], prefix) || json.Unmarshal(qs[len(prefix):], &back2) != nil || back2 != jsonView(src) {
		S.fail("ast.quoteString-not-decodable", "src", hx(src), "got", hx(qs))
	} else if u, e := unquote.String(string(qs[len(prefix)+1 : len(qs)-1])); e != 0 || u != s {
		S.fail("ast.quoteString-roundtrip", "src", hx(src), "got", hx(qs), "back", hx([]byte(u)))
	}
	if tie {
		S.tie([]string{"AQ", hx(prefix), hx(src)}, []string{hx(qs)})
	}
	current.Store("")
}

func checkUnquoteGo(src []byte, tie bool) {
	s := string(src)
	for _, rep := range []bool{true, false} {
		var o []byte
		var e int
		if rep {
			r, err := unquote.String(s)
			o, e = []byte(r), int(err)
			// IntoBytes must agree with String
			m := make([]byte, 0, len(s))
			e2 := unquote.IntoBytes(s, &m)
			if int(e2) != e || (e == 0 && !eq(m, o)) {
				S.fail("unquote.IntoBytes-vs-String", "src", hx(src), "string", fmt.Sprint(e, hx(o)), "intobytes", fmt.Sprint(int(e2), hx(m)))
			}
			if len(s) > 0 {
				small := make([]byte, 0, len(s)-1)
				if unquote.IntoBytes(s, &small) == 0 {
					S.fail("unquote.IntoBytes-short-buffer-accepted", "src", hx(src))
				}
			}
		} else {
			m := make([]byte, 0, len(s))
			e = int(unquote.VerifIntoBytes(s, &m, false))
			o = m
		}
		S.count("unquote.go", src)
		want, ok := refUnquote(src, rep)
		if ok != (e == 0) || (ok && !eq(want, o)) {
			S.fail("unquote.String", "src", hx(src), "replace", b2s(rep), "got", fmt.Sprint(e, hx(o)), "want", fmt.Sprint(ok, hx(want)))
		}
		// encoding/json itself, where its stricter input language applies: well-formed UTF-8, no raw quote / controls
		if rep && jsonLiteralBody(src) {
			var js string
			jerr := json.Unmarshal(append(append([]byte{'"'}, src...), '"'), &js)
			if (jerr == nil) != (e == 0) || (jerr == nil && js != string(o)) {
				S.fail("unquote.String-vs-encoding/json", "src", hx(src), "got", fmt.Sprint(e, hx(o)), "std", fmt.Sprint(jerr, hx([]byte(js))))
			}
		}
		if tie {
			if e == 0 {
				S.tie([]string{"GU", b2s(rep), hx(src)}, []string{"ok", hx(o)})
			} else {
				S.tie([]string{"GU", b2s(rep), hx(src)}, []string{"err", itoa(e)})
			}
		}
	}
}

func jsonLiteralBody(s []byte) bool {
	if !utf8.Valid(s) {
		return false
	}
	esc := false
	for _, c := range s {
		if c < 0x20 {
			return false
		}
		if esc {
			esc = false
			continue
		}
		if c == '\\' {
			esc = true
		} else if c == '"' {
			return false
		}
	}
	return true
}

func checkHTMLGo(src []byte, prefix []byte, capacity int, tie bool) {
	current.Store("html " + hx(src))
	dst := mkbuf(prefix, capacity)
	var o []byte
	p := safely(func() { o = encoder.HTMLEscape(dst, src) })
	S.count("encoder.HTMLEscape", src)
	want := append(append([]byte{}, prefix...), stdHTMLEscape(src)...)
	if p {
		S.fail("HTMLEscape-panic", "src", hx(src), "prefix_len", itoa(len(prefix)), "cap", itoa(cap(dst)))
	} else if !eq(o, want) {
		S.fail("HTMLEscape", "src", hx(src), "prefix", hx(prefix), "cap", itoa(cap(dst)), "got", hx(o), "want", hx(want))
	}
	if tie {
		if p {
			S.tie([]string{"GH", "a", itoa(cap(dst)), hx(prefix), hx(src)}, []string{"panic"})
		} else {
			S.tie([]string{"GH", "a", itoa(cap(dst)), hx(prefix), hx(src)}, []string{"ok", hx(o)})
		}
	}
	current.Store("")
}

func checkUTF8Go(src []byte, prefix []byte, repl string, tie bool) {
	current.Store("utf8 " + hx(src))
	v1 := sutf8.Validate(src)
	v2 := sutf8.ValidateString(string(src))
	S.count("utf8.Validate", src)
	if w := utf8.Valid(src); v1 != w || v2 != w {
		S.fail("utf8.Validate", "src", hx(src), "Validate", btxt(v1), "ValidateString", btxt(v2), "std", btxt(w))
	}
	if sutf8.Validate(nil) != true || sutf8.ValidateString("") != true {
		S.fail("utf8.Validate-empty")
	}
	dst := mkbuf(prefix, len(prefix))
	var o []byte
	if safely(func() { o = sutf8.CorrectWith(dst, src, repl) }) {
		S.fail("CorrectWith-panic", "src", hx(src))
		current.Store("")
		return
	}
	S.count("utf8.CorrectWith", src)
	if want := refCorrect(prefix, src, repl); !eq(o, want) {
		S.fail("utf8.CorrectWith", "src", hx(src), "prefix", hx(prefix), "repl", hx([]byte(repl)), "got", hx(o), "want", hx(want))
	}
	if tie {
		S.tie([]string{"GV", hx(src)}, []string{btxt(v1)})
		S.tie([]string{"CW", itoa(verifx.MaxRecurse), hx(prefix), hx([]byte(repl)), hx(src)}, []string{hx(o)})
		// the Coq reference definitions against unicode/utf8 (keeps the *specification* honest)
		bad := refFirstBad(src)
		fb := "-"
		if bad >= 0 {
			fb = itoa(bad)
		}
		S.tie([]string{"RW", hx(src)}, []string{btxt(utf8.Valid(src)), fb})
		S.tie([]string{"RR", hx([]byte(repl)), hx(src)}, []string{hx(refCorrect(nil, src, repl))})
	}
	current.Store("")
}
