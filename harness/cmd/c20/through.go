package main

// the same routines reached through sonic.Marshal / sonic.Unmarshal / ast (last sentence of the property)

import (
	"bytes"
	"encoding/json"
	"fmt"
	"strings"
	"unicode/utf8"

	"github.com/bytedance/sonic"
	"github.com/bytedance/sonic/ast"

	"verif/harness/internal/rng"
)

type strTag struct {
	S string `json:"S,string"`
}
type strPlain struct {
	S string `json:"S"`
}

func throughMarshal(src []byte, tie bool) {
	s := string(src)
	current.Store("marshal " + hx(src))
	defer current.Store("")
	defer func() {
		if r := recover(); r != nil {
			S.fail("through-Marshal-panic", "src", hx(src), "panic", fmt.Sprint(r), "backend", *label)
		}
	}()
	want := append(append([]byte{'"'}, refQuoteBody(src, false)...), '"')
	got, err := sonic.Marshal(s)
	S.count("sonic.Marshal(string)", src)
	if err != nil || !eq(got, want) {
		S.fail("through-Marshal", "src", hx(src), "got", hx(got), "want", hx(want), "err", fmt.Sprint(err), "backend", *label)
	}
	if tie {
		S.tie([]string{"GQ", "a", "0", itoa(len(src) + 2), "-", hx(src)}, []string{hx(got)})
	}
	// as a struct field and as a map key
	got2, err := sonic.Marshal(strPlain{s})
	if w := append(append([]byte(`{"S":`), want...), '}'); err != nil || !eq(got2, w) {
		S.fail("through-Marshal-field", "src", hx(src), "got", hx(got2), "backend", *label)
	}
	got3, err := sonic.Marshal(map[string]int{s: 1})
	if w := append(append([]byte(`{`), want...), ":1}"...); err != nil || !eq(got3, w) {
		S.fail("through-Marshal-key", "src", hx(src), "got", hx(got3), "backend", *label)
	}
	// `,string`: the double-quoting mode
	wantD := append(append([]byte(`{"S":"\"`), refQuoteBody(src, true)...), `\""}`...)
	gotD, err := sonic.Marshal(strTag{s})
	S.count("sonic.Marshal(,string)", src)
	if err != nil || !eq(gotD, wantD) {
		S.fail("through-Marshal-double", "src", hx(src), "got", hx(gotD), "want", hx(wantD), "backend", *label)
	}
	if tie && len(gotD) >= 6 {
		S.tie([]string{"GQ", "a", "1", "64", "-", hx(src)}, []string{hx(gotD[5 : len(gotD)-1])})
	}
	// and back: Unmarshal(Marshal(x)) == x exactly (sonic's default keeps ill-formed bytes)
	var b1 string
	if e := sonic.Unmarshal(got, &b1); e != nil || b1 != s {
		S.fail("through-roundtrip", "src", hx(src), "json", hx(got), "back", hx([]byte(b1)), "err", fmt.Sprint(e), "backend", *label)
	}
	var b2 strTag
	if e := sonic.Unmarshal(gotD, &b2); e != nil || b2.S != s {
		class := "other"
		if e == nil && !utf8.Valid(src) && b2.S == jsonView(src) {
			class = "illformed-utf8-replaced"
		}
		S.fail("through-roundtrip-double", "src", hx(src), "json", hx(gotD), "back", hx([]byte(b2.S)), "err", fmt.Sprint(e), "backend", *label, "class", class)
	}
	// encoding/json reads both documents the same way (ill-formed bytes -> U+FFFD there)
	var j1 string
	var j2 strTag
	if json.Unmarshal(got, &j1) != nil || j1 != jsonView(src) || json.Unmarshal(gotD, &j2) != nil || j2.S != jsonView(src) {
		S.fail("through-Marshal-not-std-decodable", "src", hx(src), "json", hx(got), "double", hx(gotD), "backend", *label)
	}
	// ConfigStd: HTML-escaped and validated; encoding/json must read back the same string, no raw html bytes
	gs, err := sonic.ConfigStd.Marshal(s)
	S.count("ConfigStd.Marshal(string)", src)
	var j3 string
	if err != nil || json.Unmarshal(gs, &j3) != nil || j3 != jsonView(src) || bytes.ContainsAny(gs, "<>&") ||
		bytes.Contains(gs, []byte("\xe2\x80\xa8")) || bytes.Contains(gs, []byte("\xe2\x80\xa9")) || !utf8.Valid(gs) {
		S.fail("through-ConfigStd.Marshal", "src", hx(src), "got", hx(gs), "backend", *label)
	}
	// ast
	an := ast.NewString(s)
	ga, err := an.MarshalJSON()
	S.count("ast.NewString.MarshalJSON", src)
	if err != nil || !eq(ga, want) {
		S.fail("through-ast-Marshal", "src", hx(src), "got", hx(ga), "want", hx(want))
	}
}

// body: the inside of a JSON string literal (no unescaped quote)
func throughUnmarshal(body []byte, tie bool) {
	current.Store("unmarshal " + hx(body))
	defer current.Store("")
	defer func() {
		if r := recover(); r != nil {
			S.fail("through-Unmarshal-panic", "body", hx(body), "panic", fmt.Sprint(r), "backend", *label)
		}
	}()
	doc := append(append([]byte{'"'}, body...), '"')
	want, ok := refUnquote(body, true)
	var got string
	err := sonic.Unmarshal(doc, &got)
	S.count("sonic.Unmarshal(string)", body)
	if ok != (err == nil) || (ok && got != string(want)) {
		S.fail("through-Unmarshal", "body", hx(body), "got", hx([]byte(got)), "err", fmt.Sprint(err), "want", fmt.Sprint(ok, hx(want)), "backend", *label)
	}
	if tie && err == nil {
		S.tie([]string{"GU", "1", hx(body)}, []string{"ok", hx([]byte(got))})
	}
	// into interface{} and as an object key
	var gi interface{}
	err = sonic.Unmarshal(doc, &gi)
	if gs, _ := gi.(string); ok != (err == nil) || (ok && gs != string(want)) {
		S.fail("through-Unmarshal-iface", "body", hx(body), "got", hx([]byte(gs)), "err", fmt.Sprint(err), "backend", *label)
	}
	var gm map[string]int
	err = sonic.Unmarshal(append(append([]byte{'{'}, doc...), ":1}"...), &gm)
	if ok != (err == nil) || (ok && (len(gm) != 1 || gm[string(want)] != 1)) {
		S.fail("through-Unmarshal-key", "body", hx(body), "err", fmt.Sprint(err), "backend", *label)
	}
	// ast: Get + String() goes through unquote.String
	n, e := sonic.Get(doc)
	if e == nil {
		gs, e2 := n.String()
		S.count("ast.String", body)
		if ok != (e2 == nil) || (ok && gs != string(want)) {
			S.fail("through-ast-String", "body", hx(body), "got", hx([]byte(gs)), "err", fmt.Sprint(e2), "want", fmt.Sprint(ok, hx(want)))
		}
	}
	// ConfigStd vs encoding/json on literals of encoding/json's input language (well-formed UTF-8, no raw
	// control characters: rejecting those is the scanner's job - C02 - not the unquoter's)
	if jsonLiteralBody(body) {
		var js, ss string
		je := json.Unmarshal(doc, &js)
		se := sonic.ConfigStd.Unmarshal(doc, &ss)
		S.count("ConfigStd.Unmarshal(string)", body)
		if (je == nil) != (se == nil) || (je == nil && js != ss) {
			S.fail("through-ConfigStd.Unmarshal-vs-std", "body", hx(body), "sonic", fmt.Sprint(se, hx([]byte(ss))), "std", fmt.Sprint(je, hx([]byte(js))), "backend", *label)
		}
	}
}

// ---- `,string` fields against encoding/json (double-mode unquote = unquote twice) ----

// outer encodings of a literal: sonic's canonical escape, and a valid alternative spelling
func outerCanonical(lit []byte) []byte { return refQuoteBody(lit, false) }
func outerAlt(lit []byte) []byte {
	var o []byte
	for _, c := range lit {
		switch c {
		case '"':
			o = append(o, `\u0022`...)
		case 0x5c:
			o = append(o, `\u005c`...)
		case '/':
			o = append(o, `\/`...)
		default:
			o = append(o, refEsc1(c)...)
		}
	}
	return o
}

func hasSurrogateEscape(u []byte) bool {
	for i := 0; i+5 < len(u); i++ {
		if u[i] == 0x5c && u[i+1] == 'u' && (u[i+2] == 'd' || u[i+2] == 'D') && hexv(u[i+3]) >= 8 {
			return true
		}
	}
	return false
}

var apiUnicodeErrors = sonic.Config{UseUnicodeErrors: true}.Froze()

// what encoding/json's rules give for a `,string` field when lone surrogates are errors instead of U+FFFD
func refTwiceStrict(enc []byte) (string, bool) {
	l1, ok := refUnquote(enc, false)
	if !ok || len(l1) < 2 || l1[0] != '"' || l1[len(l1)-1] != '"' {
		return "", false
	}
	l2, ok := refUnquote(l1[1:len(l1)-1], false)
	return string(l2), ok
}

// inner: body of the inner literal (encoding/json must accept "inner").  Every document is also a tied case of the
// model of the jitdec path (op JS), so that a known divergence from encoding/json is excused only where the
// implementation does exactly what the model predicts.
func throughDouble(inner []byte) {
	lit := append(append([]byte{'"'}, inner...), '"')
	for vi, enc := range [][]byte{outerCanonical(lit), outerAlt(lit)} {
		doc := append(append([]byte(`{"S":"`), enc...), `"}`...)
		var a strTag
		if json.Unmarshal(doc, &a) != nil {
			continue // not in encoding/json's language
		}
		for ue := 0; ue < 2; ue++ {
			want, wantOK := a.S, true
			if ue == 1 {
				want, wantOK = refTwiceStrict(enc)
			}
			var b strTag
			var e2 error
			current.Store("double " + hx(doc))
			if ue == 0 {
				e2 = sonic.Unmarshal(doc, &b)
			} else {
				e2 = apiUnicodeErrors.Unmarshal(doc, &b)
			}
			current.Store("")
			S.count("sonic.Unmarshal(,string) vs std", doc)
			if *label != "optdec" {
				if e2 == nil {
					S.tie([]string{"JS", itoa(ue), hx(enc)}, []string{"ok", hx([]byte(b.S))})
				} else {
					S.tie([]string{"JS", itoa(ue), hx(enc)}, []string{"err"})
				}
			}
			if (e2 == nil) != wantOK || (wantOK && want != b.S) {
				class := "other"
				switch {
				case *label == "optdec" && ue == 1 && e2 == nil && b.S == a.S:
					// observed = exactly what encoding/json returns: optdec hands the inner literal to json.Unmarshal,
					// which knows nothing of UseUnicodeErrors (same root cause as the ill-formed UTF-8 finding)
					class = "optdec-json-semantics"
				case vi == 1 && (bytes.Contains(enc, []byte(`\u0022`)) || bytes.Contains(enc, []byte(`\u005c`)) || bytes.Contains(enc, []byte(`\/`))):
					class = "outer-noncanonical-escape"
				case vi == 0 && hasSurrogateEscape(inner):
					class = "inner-surrogate-escape"
				}
				S.fail("through-double-vs-std", "inner", hx(inner), "body", hx(enc), "doc", hx(doc), "want", fmt.Sprint(wantOK, hx([]byte(want))), "sonic", hx([]byte(b.S)),
					"err", fmt.Sprint(e2), "backend", *label, "class", class, "variant", itoa(vi), "unicode_errors", itoa(ue))
			}
		}
	}
}

func genDouble(r *rng.R, thorough bool) {
	idx := make([]byte, len(tokens))
	for k := range idx {
		idx[k] = byte(k)
	}
	maxTok := 3
	if thorough {
		maxTok = 4
	}
	enumerate(idx, maxTok, func(b []byte) {
		var sb []byte
		for _, k := range b {
			sb = append(sb, tokens[k]...)
		}
		if utf8.Valid(sb) {
			throughDouble(sb)
		}
	})
	for _, sp := range specials {
		if !utf8.ValidString(sp.seq) {
			continue
		}
		for L := 0; L <= 70; L++ {
			if len(sp.seq) > L {
				continue
			}
			src := bytes.Repeat([]byte{'a'}, L)
			copy(src[r.Intn(L-len(sp.seq)+1):], sp.seq)
			throughDouble(src)
		}
	}
}

func noRawQuote(b []byte) bool {
	esc := false
	for _, c := range b {
		if esc {
			esc = false
		} else if c == '\\' {
			esc = true
		} else if c == '"' {
			return false
		}
	}
	return true
}

func genThrough(r *rng.R, thorough bool) {
	maxLen := 3
	if thorough {
		maxLen = 4
	}
	i := 0
	enumerate(alphabet, maxLen, func(b []byte) {
		i++
		src := append([]byte{}, b...)
		throughMarshal(src, i%40 == 0)
		if noRawQuote(src) {
			throughUnmarshal(src, i%40 == 0)
		}
	})
	idx := make([]byte, len(tokens))
	for k := range idx {
		idx[k] = byte(k)
	}
	maxTok := 2
	if thorough {
		maxTok = 3
	}
	enumerate(idx, maxTok, func(b []byte) {
		var sb []byte
		for _, k := range b {
			sb = append(sb, tokens[k]...)
		}
		if noRawQuote(sb) {
			throughUnmarshal(sb, false)
		}
	})
	for L := 0; L <= 130; L++ {
		for _, sp := range specials {
			if len(sp.seq) > L {
				continue
			}
			for t := 0; t < 3; t++ {
				o := r.Intn(L - len(sp.seq) + 1)
				if t == 0 {
					o = L - len(sp.seq)
				}
				src := bytes.Repeat([]byte{'a'}, L)
				copy(src[o:], sp.seq)
				throughMarshal(src, t == 0 && L%16 == 0)
				if noRawQuote(src) {
					throughUnmarshal(src, false)
				}
			}
		}
	}
	n := 1500
	if thorough {
		n = 20000
	}
	for t := 0; t < n; t++ {
		L := r.Intn(100)
		src := make([]byte, L)
		for q := range src {
			switch r.Intn(8) {
			case 0, 1, 2, 3:
				src[q] = 'a' + byte(r.Intn(26))
			case 4:
				src[q] = byte(r.Intn(256))
			default:
				copy(src[q:], specials[r.Intn(len(specials))].seq)
			}
		}
		throughMarshal(src, false)
		if noRawQuote(src) {
			throughUnmarshal(src, false)
		}
	}
	_ = strings.Repeat
	genDouble(r, thorough)
	genHistory(r.Fork(7), thorough)
}
