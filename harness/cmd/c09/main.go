// c09: history independence of the codec caches.
//
//	-mode pcache  op sequences on the real _ProgramMap / ProgramCache (through the verif hook, chosen hashes) with a
//	              plain Go map as oracle; writes the case file for the Coq-extracted model and the real results
//	-mode loader  loader.LoadMany driven directly with stub functions (mov eax,imm32; ret); entry offsets, the bytes at
//	              each entry and the value returned by calling it, vs the expectation "item i gets its own code"
//	-mode served  histories of FindOrCompile / pretouch calls on the real encoder program caches (fabricated types, stub compiler):
//	              which program serves (type, pointer-value flag)
//	-mode hist    end-to-end: identical Marshal/Unmarshal probes in FRESH CHILD PROCESSES after different preludes
//	              (other types first, other orders, Pretouch/PretouchMany with compile options, thousands of generated types);
//	              oracle = the child with an empty prelude
//	-mode child   (internal) run one scenario read from stdin
package main

import (
	"flag"
	"fmt"
	"os"
)

var (
	mode      = flag.String("mode", "pcache", "")
	seed      = flag.Uint64("seed", 1, "")
	n         = flag.Int("n", 200, "number of generated cases / scenarios")
	big       = flag.Int("big", 2, "pcache: number of default-capacity cases with thousands of keys (real code vs oracle only)")
	bigModel  = flag.Int("bigmodel", 1, "pcache: number of default-capacity cases that cross the first rehash and are also run on the model")
	bigKeys   = flag.Int("bigkeys", 5000, "")
	outp      = flag.String("out", "/dev/stdout", "report (json)")
	casesp    = flag.String("cases", "", "case file written for the model")
	realp     = flag.String("real", "", "results of the real code, one line per case")
	corpus    = flag.String("corpus", "", "directory with corpus cases (run first)")
	replay    = flag.String("replay", "", "replay file: run only the case/scenario stored there")
	jobs      = flag.Int("j", 8, "hist: parallel child processes")
	heavy     = flag.Int("heavy", 2, "hist: scenarios whose preludes compile thousands of generated types")
	coptN     = flag.Int("copts", 1, "hist: scenarios that pretouch a type with semantic compile options and probe the types containing it")
	poolN     = flag.Int("pool", 2, "hist: scenarios whose preludes are thousands of failing nested calls (pool pollution)")
	heavyTiny = flag.Bool("heavytiny", false, "hist: heavy preludes use one-field struct types (cheaper)")
	envs      = flag.String("envs", "", "hist: comma separated back-end env sets to also run, e.g. SONIC_USE_OPTDEC=1,SONIC_ENCODER_USE_VM=1")
)

func main() {
	flag.Parse()
	switch *mode {
	case "pcache":
		pcacheMain()
	case "loader":
		loaderMain()
	case "served":
		servedMain()
	case "hist":
		histMain()
	case "child":
		childMain()
	default:
		fmt.Fprintln(os.Stderr, "unknown mode")
		os.Exit(2)
	}
}
