package main

import (
	"bytes"
	"encoding/hex"
	"encoding/json"
	"fmt"
	"os"
	"os/exec"
	"path/filepath"
	"reflect"
	"sort"
	"strings"
	"sync"
	"syscall"
	"time"

	"github.com/bytedance/sonic"
	"github.com/bytedance/sonic/option"

	"verif/harness/internal/c09t"
	"verif/harness/internal/rng"
)

// Step: one call of the public API.
//
//	Op "M": sonic Marshal of Value(Wrap(TypeOf(T), W), Seed) with config Cfg
//	Op "U": sonic Unmarshal of encoding/json.Marshal(that value) into a fresh destination of that type
//	Op "P": sonic.PretouchMany(types Ts each wrapped by W) with compile options Inline (0 = default, else the depth) / Rec (0 = default, else depth+1)
//	Op "X": N calls that FAIL inside nested containers (kind K, from G goroutines) - they hand pooled stacks / state machines back
//	Op "D": decode a valid document nested N levels deep (shape K)
//	Op "V": ValidateString Marshal/Unmarshal of really invalid UTF-8, Valid (kind K, input Seed)
//	Op "R": compile N generated types numbered From.. (Marshal+Unmarshal of each when Batch == 0, else PretouchMany in
//	        batches of Batch) - used to push the caches through their rehash thresholds
type Step struct {
	Op       string `json:"op"`
	T        int    `json:"t,omitempty"`
	W        int    `json:"w,omitempty"`
	Seed     uint64 `json:"seed,omitempty"`
	Cfg      int    `json:"cfg,omitempty"`
	Ts       []int  `json:"ts,omitempty"`
	Inline   int    `json:"inline,omitempty"`
	Rec      int    `json:"rec,omitempty"`
	N        int    `json:"n,omitempty"`
	From     int    `json:"from,omitempty"`
	Batch    int    `json:"batch,omitempty"`
	Tiny     bool   `json:"tiny,omitempty"`     // R: one-field struct types (cheap to compile) instead of GenType
	Mut      uint64 `json:"mut,omitempty"`      // U: damage the document (type mismatches and / or syntax errors), see c09t.Damage
	Doc      string `json:"doc,omitempty"`      // U: use exactly this document
	K        int    `json:"k,omitempty"`        // X: kind of failing call (c09t.FloodKindName); D: shape; V: kind
	G        int    `json:"g,omitempty"`        // X: goroutines (0/1: sequential)
	Zero     bool   `json:"zero,omitempty"`     // M: the value is c09t.ZeroValue (all scalars zero, containers one element deep)
	OmitNull bool   `json:"omitnull,omitempty"` // P: option.WithCompileEncOnlyOmitNull(true)
}

type Scenario struct {
	ID       string   `json:"id"`
	Probes   []Step   `json:"probes"`
	Preludes [][]Step `json:"preludes"` // preludes[0] is always empty: the oracle
	Env      string   `json:"env,omitempty"`
}

type childJob struct {
	Prelude []Step `json:"prelude"`
	Probes  []Step `json:"probes"`
	Order   []int  `json:"order,omitempty"` // order in which the probes are executed (results are reported per probe index)
}

var configs = []sonic.API{sonic.ConfigStd, sonic.ConfigDefault, sonic.ConfigFastest}

func stepType(s Step) reflect.Type { return c09t.Wrap(c09t.TypeOf(s.T), s.W) }

// the COMPLETE error is part of the result: dynamic type and Error() text (which carries the position, the expected
// type and the offending value)
func errClass(err error) string {
	if err == nil {
		return "ok"
	}
	t := reflect.TypeOf(err).String()
	return "err:" + t + "=" + hex.EncodeToString([]byte(err.Error()))
}

// canonical JSON: key order of maps is not part of the observable under configs that do not sort
func canon(b []byte) string {
	var v interface{}
	d := json.NewDecoder(bytes.NewReader(b))
	d.UseNumber()
	if err := d.Decode(&v); err != nil {
		return "raw:" + hex.EncodeToString(b)
	}
	o, err := json.Marshal(v)
	if err != nil {
		return "raw:" + hex.EncodeToString(b)
	}
	return "canon:" + hex.EncodeToString(o)
}

func doStep(s Step) string {
	switch s.Op {
	case "M":
		v := c09t.Value(stepType(s), s.Seed).Elem().Interface()
		if s.Zero {
			v = c09t.ZeroValue(stepType(s)).Elem().Interface()
		}
		b, err := configs[s.Cfg].Marshal(v)
		if err != nil {
			return errClass(err)
		}
		if s.Cfg == 0 {
			return "ok:" + hex.EncodeToString(b)
		}
		return "ok:" + canon(b)
	case "U":
		t := stepType(s)
		v := c09t.Value(t, s.Seed).Elem().Interface()
		doc, err := json.Marshal(v)
		if err != nil {
			return "skip:" + err.Error()
		}
		if s.Doc != "" {
			doc = []byte(s.Doc)
		} else if s.Mut > 0 {
			doc = c09t.Damage(doc, s.Mut)
		}
		dst := reflect.New(t)
		err = configs[s.Cfg].Unmarshal(doc, dst.Interface())
		o, err2 := json.Marshal(dst.Interface())
		if err2 != nil {
			return errClass(err) + ":dump-failed"
		}
		return errClass(err) + ":" + hex.EncodeToString(o)
	case "P":
		ts := make([]reflect.Type, len(s.Ts))
		for i, t := range s.Ts {
			ts[i] = c09t.Wrap(c09t.TypeOf(t), s.W)
		}
		var opts []option.CompileOption
		if s.Inline > 0 {
			opts = append(opts, option.WithCompileMaxInlineDepth(s.Inline))
		}
		if s.Rec > 0 {
			opts = append(opts, option.WithCompileRecursiveDepth(s.Rec-1))
		}
		if s.OmitNull {
			opts = append(opts, option.WithCompileEncOnlyOmitNull(true))
		}
		var err error
		if len(ts) == 1 {
			err = sonic.Pretouch(ts[0], opts...)
		} else {
			err = sonic.PretouchMany(ts, opts...)
		}
		return errClass(err)
	case "X":
		c09t.Flood(s.K, s.N, s.G, s.Seed)
		return "ok"
	case "D":
		return c09t.DepthProbe(s.N, s.K)
	case "V":
		return c09t.Utf8Probe(s.K, s.Seed)
	case "R":
		gen := c09t.GenType
		if s.Tiny {
			gen = c09t.TinyType
		}
		if s.Batch == 0 {
			for k := 0; k < s.N; k++ {
				t := gen(s.From + k)
				v := c09t.Value(t, uint64(k)).Elem().Interface()
				b, err := sonic.Marshal(v)
				if err != nil {
					return errClass(err)
				}
				if err := sonic.Unmarshal(b, reflect.New(t).Interface()); err != nil {
					return errClass(err)
				}
			}
			return "ok"
		}
		for k := 0; k < s.N; k += s.Batch {
			var ts []reflect.Type
			for j := k; j < k+s.Batch && j < s.N; j++ {
				ts = append(ts, gen(s.From+j))
			}
			if err := sonic.PretouchMany(ts); err != nil {
				return errClass(err)
			}
		}
		return "ok"
	}
	return "bad-step"
}

func childMain() {
	var job childJob
	if err := json.NewDecoder(os.Stdin).Decode(&job); err != nil {
		fmt.Fprintln(os.Stderr, "child: bad job:", err)
		os.Exit(3)
	}
	w := os.Stdout
	for i, s := range job.Prelude {
		r := doStep(s)
		fmt.Fprintf(w, "prelude\t%d\t%s\n", i, strings.SplitN(r, ":", 2)[0])
	}
	order := job.Order
	if len(order) == 0 {
		for i := range job.Probes {
			order = append(order, i)
		}
	}
	for _, i := range order {
		fmt.Fprintf(w, "probe\t%d\t%s\n", i, doStep(job.Probes[i]))
	}
	fmt.Fprintln(w, "done")
}

// runChild returns one result per probe ("CRASH:<how>" for probes that were not reached) and a status string.
func runChild(job childJob, env string) ([]string, string, int) {
	in, _ := json.Marshal(job)
	cmd := exec.Command(os.Args[0], "-mode", "child")
	cmd.Stdin = bytes.NewReader(in)
	var so, se bytes.Buffer
	cmd.Stdout, cmd.Stderr = &so, &se
	cmd.Env = os.Environ()
	if env != "" {
		cmd.Env = append(cmd.Env, strings.Split(env, " ")...)
	}
	if err := cmd.Start(); err != nil {
		return make([]string, len(job.Probes)), "spawn-failed:" + err.Error(), 0
	}
	done := make(chan error, 1)
	go func() { done <- cmd.Wait() }()
	status := "ok"
	select {
	case err := <-done:
		if err != nil {
			status = "exit:" + err.Error()
			if ee, ok := err.(*exec.ExitError); ok {
				if ws, ok := ee.Sys().(syscall.WaitStatus); ok && ws.Signaled() {
					status = "signal:" + ws.Signal().String()
				} else {
					// Go runtime fatal errors (SIGSEGV in generated code, ...) exit with status 2
					first := strings.SplitN(se.String(), "\n", 2)[0]
					if len(first) > 80 {
						first = first[:80]
					}
					status = fmt.Sprintf("exit:%d:%s", ee.ExitCode(), first)
				}
			}
		}
	case <-time.After(120 * time.Second):
		cmd.Process.Kill()
		<-done
		status = "timeout"
	}
	res := make([]string, len(job.Probes))
	for i := range res {
		res[i] = "CRASH"
	}
	finished := false
	preDone := 0
	for _, l := range strings.Split(so.String(), "\n") {
		f := strings.SplitN(l, "\t", 3)
		if len(f) == 3 && f[0] == "prelude" {
			preDone++
		}
		if len(f) == 3 && f[0] == "probe" {
			var i int
			fmt.Sscan(f[1], &i)
			if i >= 0 && i < len(res) {
				res[i] = f[2]
			}
		}
		if l == "done" {
			finished = true
		}
	}
	if status == "ok" && !finished {
		status = "truncated"
	}
	return res, status, preDone
}

// ---- classification of divergences (narrow signatures of the two recorded defects) -----------------------

func preludeTypes(s Step) []reflect.Type {
	var ts []reflect.Type
	switch s.Op {
	case "P":
		for _, t := range s.Ts {
			ts = append(ts, c09t.Wrap(c09t.TypeOf(t), s.W))
		}
	}
	return ts
}

// classify returns "" (a genuine, unlisted history dependence) or the id of the known finding whose signature matches:
//
//	KF-loadmany-same-name   the history holds ONE Pretouch/PretouchMany batch whose reachable types include two distinct
//	                        types with the same reflect.Type.String(), and the divergent probe uses one of them
//	KF-encoder-pv-first-compile  the divergent probe is a Marshal whose value type reaches a type with a pointer-receiver-only
//	                        (Text)Marshaler, and both results are successful encodings
func classify(history []Step, probe Step, base, got string) string {
	pt := stepType(probe)
	for _, s := range history {
		ts := preludeTypes(s)
		if len(ts) == 0 {
			continue
		}
		clash := c09t.SameNameClash(ts)
		if len(clash) == 0 {
			continue
		}
		seen := map[reflect.Type]bool{}
		c09t.Closure(pt, seen)
		for t := range clash {
			if seen[t] {
				return "KF-loadmany-same-name"
			}
		}
	}
	if probe.Op == "U" && c09t.HasCustomUnmarshaler(pt) && mismatchPosOnly(base, got) {
		return "KF-mismatch-position-clobbered-by-unmarshaler"
	}
	if probe.Op == "M" && c09t.HasPtrOnlyMarshaler(pt) && strings.HasPrefix(base, "ok:") && strings.HasPrefix(got, "ok:") {
		return "KF-encoder-pv-first-compile"
	}
	return ""
}

// mismatchPosOnly: both results are *errors.MismatchTypeError for the same expected Go type with the same decoded
// destination, and one of them lost the offending value kind ("with value  \"at index N") - i.e. they differ only in the
// reported position / value kind of the mismatch.
func mismatchPosOnly(a, b string) bool {
	parse := func(r string) (typ, text, dump string, ok bool) {
		if !strings.HasPrefix(r, "err:") {
			return
		}
		i := strings.IndexByte(r, '=')
		j := strings.LastIndexByte(r, ':')
		if i < 0 || j < i {
			return
		}
		tb, err := hex.DecodeString(r[i+1 : j])
		if err != nil {
			return
		}
		return r[4:i], string(tb), r[j+1:], true
	}
	ta, xa, da, oka := parse(a)
	tb, xb, db, okb := parse(b)
	if !oka || !okb || ta != "*errors.MismatchTypeError" || tb != ta || da != db {
		return false
	}
	head := func(x string) string {
		if k := strings.Index(x, " with value"); k > 0 {
			return x[:k]
		}
		return ""
	}
	if head(xa) == "" || head(xa) != head(xb) {
		return false
	}
	return strings.Contains(xa, "with value  \"at index") || strings.Contains(xb, "with value  \"at index")
}

type divergence struct {
	Scenario string   `json:"scenario"`
	Env      string   `json:"env,omitempty"`
	Prelude  []Step   `json:"prelude"`
	Order    []int    `json:"order,omitempty"`
	Probes   []Step   `json:"probes"`
	Probe    int      `json:"probe_index"`
	TypeName string   `json:"type"`
	Base     string   `json:"result_without_history"`
	Got      string   `json:"result_after_history"`
	Status   string   `json:"child_status"`
	Class    string   `json:"class"`
	History  []string `json:"history_readable"`
}

func readable(s Step) string {
	name := func(t int) string {
		if t >= c09t.GenBase {
			return fmt.Sprintf("Gen%d", t-c09t.GenBase)
		}
		return c09t.Catalogue[t].Name
	}
	wr := []string{"%s", "*%s", "[]%s", "map[string]%s", "struct{X %s}", "[2]%s"}
	switch s.Op {
	case "M", "U":
		extra := ""
		if s.Doc != "" {
			extra = ", doc " + s.Doc
		} else if s.Mut > 0 {
			extra = fmt.Sprintf(", damaged doc %d", s.Mut)
		}
		if s.Zero {
			extra += ", zero value"
		}
		return fmt.Sprintf("%s(cfg%d, "+wr[s.W]+", seed %d%s)", map[string]string{"M": "Marshal", "U": "Unmarshal"}[s.Op], s.Cfg, name(s.T), s.Seed, extra)
	case "P":
		var ns []string
		for _, t := range s.Ts {
			ns = append(ns, fmt.Sprintf(wr[s.W], name(t)))
		}
		on := ""
		if s.OmitNull {
			on = ", EncOnlyOmitNull"
		}
		return fmt.Sprintf("PretouchMany([%s], inline=%d, rec=%d%s)", strings.Join(ns, ", "), s.Inline, s.Rec-1, on)
	case "X":
		return fmt.Sprintf("%d x %d failing calls: %s", max1(s.G), s.N, c09t.FloodKindName[s.K%c09t.NFloodKinds])
	case "D":
		return fmt.Sprintf("decode a valid document nested %d deep (shape %d)", s.N, s.K)
	case "V":
		return fmt.Sprintf("utf8/valid probe kind %d input %d", s.K, s.Seed)
	case "R":
		return fmt.Sprintf("compile %d generated types from Gen%d (batch %d, tiny %v)", s.N, s.From, s.Batch, s.Tiny)
	}
	return "?"
}

// ---- scenario generation ----------------------------------------------------------------------

func safeTypes() []int {
	var l []int
	for i, e := range c09t.Catalogue {
		if e.Hazard == "" {
			l = append(l, i)
		}
	}
	return l
}

func genProbe(r *rng.R, pool []int) Step {
	s := Step{Op: "M", T: pool[r.Intn(len(pool))], W: r.Intn(c09t.NWrap), Seed: r.U64() % 100000, Cfg: 0}
	if r.Bool() {
		s.Op = "U"
	}
	if r.Chance(1, 3) {
		s.Cfg = 1 + r.Intn(2)
	}
	if r.Chance(1, 2) {
		s.W = 0
	}
	if s.Op == "U" && r.Chance(1, 2) {
		s.Mut = 1 + r.U64()%100000
	}
	return s
}

func genPretouch(r *rng.R, pool []int) Step {
	n := 1 + r.Intn(5)
	s := Step{Op: "P", W: 0, Inline: 0, Rec: 0}
	if r.Chance(1, 3) {
		s.W = r.Intn(c09t.NWrap)
	}
	for i := 0; i < n; i++ {
		s.Ts = append(s.Ts, pool[r.Intn(len(pool))])
	}
	if r.Chance(2, 3) {
		s.Inline = 1 + r.Intn(5)
	}
	if r.Chance(2, 3) {
		s.Rec = 1 + r.Intn(4)
	}
	return s
}

func genScenario(r *rng.R, id string, hazards bool) Scenario {
	pool := safeTypes()
	if hazards {
		for i, e := range c09t.Catalogue {
			if e.Hazard != "" {
				pool = append(pool, i, i)
			}
		}
	}
	// a few generated struct types join the pool of every scenario
	for i := 0; i < 4; i++ {
		pool = append(pool, c09t.GenBase+r.Intn(400))
	}
	sc := Scenario{ID: id}
	np := 3 + r.Intn(5)
	for i := 0; i < np; i++ {
		sc.Probes = append(sc.Probes, genProbe(r, pool))
	}
	sc.Preludes = append(sc.Preludes, nil)
	nh := 3 + r.Intn(3)
	for h := 0; h < nh; h++ {
		var pre []Step
		for i := 1 + r.Intn(6); i > 0; i-- {
			switch {
			case r.Chance(2, 5):
				pre = append(pre, genPretouch(r, pool))
			case r.Chance(1, 3):
				// the same type as a probe, reached through another wrapper / other op first
				p := sc.Probes[r.Intn(len(sc.Probes))]
				p.W = r.Intn(c09t.NWrap)
				p.Seed = r.U64() % 100000
				if r.Bool() {
					p.Op = map[string]string{"M": "U", "U": "M"}[p.Op]
				}
				pre = append(pre, p)
			default:
				pre = append(pre, genProbe(r, pool))
			}
		}
		sc.Preludes = append(sc.Preludes, pre)
	}
	return sc
}

func max1(g int) int {
	if g < 1 {
		return 1
	}
	return g
}

// pool scenarios: preludes of thousands of failing nested calls (sequential and from several goroutines); probes = valid
// decodes at depth 1..100, ValidateString calls on invalid UTF-8, Valid, and a few ordinary probes
func genPool(r *rng.R, id string) Scenario {
	sc := Scenario{ID: id}
	for _, d := range []int{1, 2, 5, 17, 50, 100, 1 + r.Intn(100)} {
		sc.Probes = append(sc.Probes, Step{Op: "D", N: d, K: r.Intn(6)})
	}
	sc.Probes = append(sc.Probes, Step{Op: "D", N: 3, K: 2}, Step{Op: "D", N: 90, K: 0})
	for k := 0; k < 6; k++ {
		sc.Probes = append(sc.Probes, Step{Op: "V", K: k, Seed: r.U64() % 7})
	}
	pool := safeTypes()
	for i := 0; i < 3; i++ {
		sc.Probes = append(sc.Probes, genProbe(r, pool))
	}
	sc.Preludes = append(sc.Preludes, nil)
	for h := 0; h < 4; h++ {
		var pre []Step
		for i := 1 + r.Intn(3); i > 0; i-- {
			x := Step{Op: "X", K: r.Intn(c09t.NFloodKinds), N: 2000 + r.Intn(3000), Seed: r.U64() % 1000}
			if r.Chance(1, 3) {
				x.G = 2 + r.Intn(7)
			}
			pre = append(pre, x)
		}
		sc.Preludes = append(sc.Preludes, pre)
	}
	return sc
}

// compile-option scenarios: a type is pretouched with a SEMANTIC compile option (EncOnlyOmitNull changes, by design, the codec
// of the pretouched type itself and of its pointer twin); the probes only use OTHER types that contain it inline (enclosing
// struct, []T, map[string]T, struct{X T}, [2]T) - their codecs are compiled afterwards with default options and must not change
func genCompileOpts(r *rng.R, id string) Scenario {
	// Only probes whose OWN compilation (default options, MaxInlineDepth 3) inlines Omit: depth of Omit <= 2 with
	// struct field / slice / array / pointer = +1, map value = +2.  Deeper occurrences are compiled as OP_recurse and are
	// served - by design - by whatever codec is cached for Omit, including its EncOnlyOmitNull setting.
	omit, outer, outer2 := c09t.CatalogueIndex("Omit"), c09t.CatalogueIndex("OmitOuter"), c09t.CatalogueIndex("OmitOuter2")
	sc := Scenario{ID: id}
	for _, w := range []int{2, 3, 4, 5} {
		sc.Probes = append(sc.Probes, Step{Op: "M", T: omit, W: w, Zero: true, Cfg: r.Intn(3)})
	}
	sc.Probes = append(sc.Probes, Step{Op: "M", T: outer, W: 0, Zero: true}, Step{Op: "M", T: outer, W: 0, Seed: r.U64() % 1000, Cfg: r.Intn(2)})
	for _, w := range []int{0, 1, 2, 4, 5} {
		sc.Probes = append(sc.Probes, Step{Op: "M", T: outer2, W: w, Zero: r.Chance(2, 3), Seed: r.U64() % 1000, Cfg: r.Intn(2)})
	}
	sc.Probes = append(sc.Probes, Step{Op: "U", T: outer, Seed: r.U64() % 1000}, Step{Op: "M", T: c09t.CatalogueIndex("Emb"), Zero: true})
	// shuffle
	for i := len(sc.Probes) - 1; i > 0; i-- {
		j := r.Intn(i + 1)
		sc.Probes[i], sc.Probes[j] = sc.Probes[j], sc.Probes[i]
	}
	sc.Preludes = append(sc.Preludes, nil)
	for h := 0; h < 4; h++ {
		p := Step{Op: "P", Ts: []int{omit}, OmitNull: h != 3}
		if r.Chance(1, 3) {
			p.Ts = append(p.Ts, c09t.CatalogueIndex("Flat"))
		}
		if r.Chance(1, 2) {
			p.Inline = 1 + r.Intn(5)
		}
		if r.Chance(1, 2) {
			p.Rec = 1 + r.Intn(4)
		}
		pre := []Step{p}
		if r.Chance(1, 2) {
			pre = append(pre, genProbe(r, safeTypes()[:10]))
		}
		sc.Preludes = append(sc.Preludes, pre)
	}
	return sc
}

func genHeavy(r *rng.R, id string, k int) Scenario {
	sc := genScenario(r, id, false)
	n := 2100 + r.Intn(300)
	sc.Preludes = sc.Preludes[:2]
	tiny := *heavyTiny
	switch k % 3 {
	case 0:
		sc.Preludes[1] = append([]Step{{Op: "R", N: n, From: 0, Batch: 0, Tiny: tiny}}, sc.Preludes[1]...)
	case 1:
		sc.Preludes[1] = append([]Step{{Op: "R", N: n, From: 0, Batch: 1 + r.Intn(700), Tiny: tiny}}, sc.Preludes[1]...)
	default:
		sc.Preludes[1] = append(sc.Preludes[1], Step{Op: "R", N: n, From: 100, Batch: n, Tiny: tiny})
	}
	return sc
}

// ---- driver -------------------------------------------------------------------------------------

type histReport struct {
	Scenarios   int            `json:"scenarios"`
	Children    int            `json:"children"`
	ProbeEvals  int            `json:"probe_evaluations"`
	Distinct    int            `json:"distinct_nontrivial"`
	PreludeOps  map[string]int `json:"prelude_ops"`
	ProbeOps    map[string]int `json:"probe_ops"`
	Statuses    map[string]int `json:"child_statuses"`
	Envs        map[string]int `json:"envs"`
	Heavy       int            `json:"heavy_scenarios"`
	Hazard      int            `json:"hazard_scenarios"`
	Divergences []divergence   `json:"divergences"`
	Samples     []string       `json:"samples"`
	OracleFail  []string       `json:"oracle_child_failures"`
}

func histMain() {
	var scs []Scenario
	if *replay != "" {
		b, err := os.ReadFile(*replay)
		if err != nil {
			panic(err)
		}
		var rp struct {
			Replay divergence `json:"replay"`
		}
		if err := json.Unmarshal(b, &rp); err != nil {
			panic(err)
		}
		d := rp.Replay
		scs = append(scs, Scenario{ID: "replay", Probes: d.Probes, Preludes: [][]Step{nil, d.Prelude}, Env: d.Env})
	} else {
		if *corpus != "" {
			files, _ := filepath.Glob(filepath.Join(*corpus, "*.scenario.json"))
			sort.Strings(files)
			for _, f := range files {
				b, _ := os.ReadFile(f)
				var sc Scenario
				if err := json.Unmarshal(b, &sc); err != nil {
					panic(f + ": " + err.Error())
				}
				if len(sc.Preludes) == 0 || len(sc.Preludes[0]) != 0 {
					sc.Preludes = append([][]Step{nil}, sc.Preludes...)
				}
				scs = append(scs, sc)
			}
		}
		r := rng.New(*seed ^ 0xc09)
		for i := 0; i < *n; i++ {
			scs = append(scs, genScenario(r.Fork(uint64(i)), fmt.Sprintf("gen-%d-%d", *seed, i), i%8 == 7))
		}
		for i := 0; i < *coptN; i++ {
			scs = append(scs, genCompileOpts(r.Fork(uint64(800000+i)), fmt.Sprintf("copts-%d-%d", *seed, i)))
		}
		for i := 0; i < *poolN; i++ {
			scs = append(scs, genPool(r.Fork(uint64(700000+i)), fmt.Sprintf("pool-%d-%d", *seed, i)))
		}
		for i := 0; i < *heavy; i++ {
			scs = append(scs, genHeavy(r.Fork(uint64(500000+i)), fmt.Sprintf("heavy-%d-%d", *seed, i), i+int(*seed%3)))
		}
		if *envs != "" {
			el := strings.Split(*envs, ",")
			base := len(scs)
			for i := 0; i < base; i++ {
				if strings.HasPrefix(scs[i].ID, "heavy") {
					continue
				}
				e := el[(i/2)%len(el)]
				if i%2 == 0 || strings.HasSuffix(scs[i].ID, ".scenario") {
					sc := scs[i]
					sc.Env = e
					sc.ID += "@" + e
					scs = append(scs, sc)
				}
			}
		}
	}
	rep := histReport{PreludeOps: map[string]int{}, ProbeOps: map[string]int{}, Statuses: map[string]int{}, Envs: map[string]int{}}
	type task struct {
		sc    int
		pre   int
		order []int
	}
	type result struct {
		res     []string
		status  string
		preDone int
	}
	var tasks []task
	for i, sc := range scs {
		for p := range sc.Preludes {
			tasks = append(tasks, task{i, p, nil})
		}
		// the probes are history for each other: run them once in reverse order with no prelude
		if len(sc.Probes) > 1 {
			ord := make([]int, len(sc.Probes))
			for k := range ord {
				ord[k] = len(ord) - 1 - k
			}
			tasks = append(tasks, task{i, 0, ord})
		}
	}
	results := make([]result, len(tasks))
	var wg sync.WaitGroup
	ch := make(chan int)
	for w := 0; w < *jobs; w++ {
		wg.Add(1)
		go func() {
			defer wg.Done()
			for ti := range ch {
				t := tasks[ti]
				sc := scs[t.sc]
				res, st, pd := runChild(childJob{Prelude: sc.Preludes[t.pre], Probes: sc.Probes, Order: t.order}, sc.Env)
				results[ti] = result{res, st, pd}
			}
		}()
	}
	for i := range tasks {
		ch <- i
	}
	close(ch)
	wg.Wait()

	base := map[int][]string{}
	for ti, t := range tasks {
		if t.pre == 0 && t.order == nil {
			base[t.sc] = results[ti].res
			if results[ti].status != "ok" {
				rep.OracleFail = append(rep.OracleFail, scs[t.sc].ID+": "+results[ti].status)
			}
		}
	}
	seen := map[string]bool{}
	for ti, t := range tasks {
		sc := scs[t.sc]
		r := results[ti]
		rep.Children++
		rep.Envs["default"+sc.Env]++
		st := r.status
		if i := strings.Index(st, ":"); i > 0 && !strings.HasPrefix(st, "signal") {
			st = strings.Join(strings.SplitN(st, ":", 3)[:2], ":")
		}
		rep.Statuses[st]++
		for _, s := range sc.Preludes[t.pre] {
			rep.PreludeOps[s.Op]++
		}
		if t.pre == 0 && t.order == nil {
			for _, s := range sc.Probes {
				rep.ProbeOps[s.Op]++
			}
			continue
		}
		key, _ := json.Marshal([]interface{}{sc.Preludes[t.pre], t.order, sc.Probes, sc.Env})
		if !seen[string(key)] && (len(sc.Preludes[t.pre]) > 0 || t.order != nil) {
			seen[string(key)] = true
			rep.Distinct++
		}
		b := base[t.sc]
		order := t.order
		if order == nil {
			for k := range sc.Probes {
				order = append(order, k)
			}
		}
		pre := sc.Preludes[t.pre]
		if r.preDone < len(pre) {
			// the child died inside prelude step preDone: that call is the failing one, its history is what ran before it
			step := pre[r.preDone]
			d := divergence{Scenario: sc.ID, Env: sc.Env, Prelude: pre[:r.preDone], Probes: []Step{step}, Probe: 0,
				Base: "(the call does not crash in a fresh process)", Got: "CRASH", Status: r.status}
			if step.Op == "M" || step.Op == "U" {
				d.TypeName = stepType(step).String()
				d.Class = classify(pre[:r.preDone], step, "ok:", "CRASH")
			}
			for _, s := range pre[:r.preDone] {
				d.History = append(d.History, readable(s))
			}
			d.History = append(d.History, "PROBE "+readable(step))
			rep.ProbeEvals++
			if len(rep.Divergences) < 60 {
				rep.Divergences = append(rep.Divergences, d)
			}
			continue
		}
		for oi, i := range order {
			rep.ProbeEvals++
			if r.res[i] == b[i] {
				continue
			}
			// history of this probe: the prelude, then the probes executed before it
			hist := append([]Step{}, pre...)
			for _, k := range order[:oi] {
				hist = append(hist, sc.Probes[k])
			}
			d := divergence{Scenario: sc.ID, Env: sc.Env, Prelude: pre, Order: t.order, Probes: sc.Probes, Probe: i,
				TypeName: stepType(sc.Probes[i]).String(), Base: clip(b[i]), Got: clip(r.res[i]), Status: r.status}
			d.Class = classify(hist, sc.Probes[i], b[i], r.res[i])
			if b[i] == "CRASH" {
				// the oracle child itself died at or before this probe: classify with its own history
				var h0 []Step
				for k := 0; k < i; k++ {
					h0 = append(h0, sc.Probes[k])
				}
				if c := classify(h0, sc.Probes[i], "ok:", "ok:"); c != "" && d.Class == "" {
					d.Class = c
				}
			}
			for _, s := range hist {
				d.History = append(d.History, readable(s))
			}
			d.History = append(d.History, "PROBE "+readable(sc.Probes[i]))
			if len(rep.Divergences) < 60 {
				rep.Divergences = append(rep.Divergences, d)
			}
			if r.res[i] == "CRASH" {
				break // the child died in this call; the probes after it were never executed
			}
		}
	}
	rep.Scenarios = len(scs)
	for _, sc := range scs {
		if strings.HasPrefix(sc.ID, "heavy") {
			rep.Heavy++
		}
		for _, p := range sc.Probes {
			if p.T < c09t.GenBase && c09t.Catalogue[p.T].Hazard != "" {
				rep.Hazard++
				break
			}
		}
	}
	for i := 0; i < len(scs) && i < 2; i++ {
		var hs []string
		for _, s := range scs[i].Preludes[len(scs[i].Preludes)-1] {
			hs = append(hs, readable(s))
		}
		rep.Samples = append(rep.Samples, scs[i].ID+": "+strings.Join(hs, "; ")+" | PROBE "+readable(scs[i].Probes[0])+" => "+clip(base[i][0]))
	}
	b, _ := json.MarshalIndent(rep, "", " ")
	if err := os.WriteFile(*outp, b, 0o644); err != nil {
		panic(err)
	}
}

func clip(s string) string {
	if len(s) > 400 {
		return s[:400] + "..."
	}
	return s
}
