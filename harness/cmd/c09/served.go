package main

import (
	"encoding/json"
	"errors"
	"fmt"
	"os"
	"path/filepath"
	"sort"
	"strconv"
	"strings"

	"github.com/bytedance/sonic/verifx"

	"verif/harness/internal/out"
	"verif/harness/internal/rng"
)

// scase: a history of encoder-cache calls on the REAL internal/encoder/vars entry points (FindOrCompile, GetProgram,
// ComputeProgram) with fabricated type descriptors and a stub compiler whose program is the token 4*k+2+pv.
//
//	F<k>:<pv>  vars.FindOrCompile(vt, pv, compiler)            (what every Marshal / OP_recurse does)
//	T<k>:<pv>  pretouchTypeX86: GetProgram(vt, pv) == nil ? ComputeProgram(vt, compiler, pv)
//	B<k>:<pv>,...  pretouchRecX86: pending = entries with GetProgram == nil (deduplicated by (vt, pv)); compile each with its
//	           flag; an error aborts; then ComputeProgram(vt, const program, pv) each   [the batch logic itself is replayed
//	           by the harness - the real one needs real types; the cache key selection is the real code]
//
// oracle (independent of the model): every F must return the token of (k, pv) or the compile error; afterwards
// GetProgram(k, pv) is nil or that token.
type scase struct {
	Hashes  []uint32
	Failing []int
	Ops     []string
}

func (c *scase) line() string {
	hs := make([]string, len(c.Hashes))
	for i, h := range c.Hashes {
		hs[i] = strconv.FormatUint(uint64(h), 10)
	}
	f := "-"
	if len(c.Failing) > 0 {
		fs := make([]string, len(c.Failing))
		for i, k := range c.Failing {
			fs[i] = strconv.Itoa(k)
		}
		f = strings.Join(fs, ",")
	}
	return "S\t" + strings.Join(hs, ",") + "\t" + f + "\t" + strings.Join(c.Ops, ";")
}

func parseScase(line string) (*scase, error) {
	f := strings.Split(strings.TrimRight(line, "\n"), "\t")
	if len(f) != 4 || f[0] != "S" {
		return nil, fmt.Errorf("bad served case")
	}
	c := &scase{}
	for _, h := range strings.Split(f[1], ",") {
		v, err := strconv.ParseUint(h, 10, 32)
		if err != nil {
			return nil, err
		}
		c.Hashes = append(c.Hashes, uint32(v))
	}
	if f[2] != "-" {
		for _, k := range strings.Split(f[2], ",") {
			v, err := strconv.Atoi(k)
			if err != nil {
				return nil, err
			}
			c.Failing = append(c.Failing, v)
		}
	}
	if f[3] != "" {
		c.Ops = strings.Split(f[3], ";")
	}
	return c, nil
}

type sfail struct {
	Case string `json:"case"`
	Op   int    `json:"op_index"`
	What string `json:"what"`
	Got  string `json:"got"`
	Want string `json:"want"`
}

var errStubCompile = errors.New("stub compile error")

func pair(s string) (int, bool) {
	i := strings.IndexByte(s, ':')
	k, _ := strconv.Atoi(s[:i])
	return k, s[i+1:] == "1"
}

func runServed(c *scase) (string, []sfail) {
	verifx.EncResetAllProgramCaches()
	types := make([]*verifx.GoType, len(c.Hashes)+1)
	for i, h := range c.Hashes {
		types[i+1] = verifx.NewGoType(h)
	}
	failing := map[int]bool{}
	for _, k := range c.Failing {
		failing[k] = true
	}
	token := func(k int, pv bool) int {
		t := 4*k + 2
		if pv {
			t++
		}
		return t
	}
	var fails []sfail
	line := c.line()
	bad := func(i int, what, got, want string) {
		if len(fails) < 4 {
			fails = append(fails, sfail{line, i, what, got, want})
		}
	}
	compilerFor := func(k int) func(*verifx.GoType, ...interface{}) (interface{}, error) {
		return func(vt *verifx.GoType, ex ...interface{}) (interface{}, error) {
			if failing[k] {
				return nil, errStubCompile
			}
			return token(k, ex[0].(bool)), nil // the compiler sees only the flag the cache hands to it
		}
	}
	var res []string
	for i, o := range c.Ops {
		switch o[0] {
		case 'F':
			k, pv := pair(o[1:])
			v, err := verifx.EncFindOrCompile(types[k], pv, compilerFor(k))
			got, want := "E", "E"
			if err == nil {
				got = strconv.Itoa(v.(int))
			}
			if !failing[k] {
				want = strconv.Itoa(token(k, pv))
			}
			res = append(res, got)
			if got != want {
				bad(i, fmt.Sprintf("FindOrCompile(type %d, pv=%v) is served by a program compiled for another (type, flag)", k, pv), got, want)
			}
		case 'T':
			k, pv := pair(o[1:])
			if verifx.EncGetProgram(types[k], pv) == nil {
				verifx.EncComputeProgram(types[k], compilerFor(k), pv)
			}
		case 'B':
			type ent struct {
				k  int
				pv bool
			}
			var pend []ent
			seen := map[ent]bool{}
			abort := false
			if o[1:] != "" {
				for _, s := range strings.Split(o[1:], ",") {
					k, pv := pair(s)
					if verifx.EncGetProgram(types[k], pv) != nil || seen[ent{k, pv}] {
						continue
					}
					seen[ent{k, pv}] = true
					if failing[k] {
						abort = true
					}
					pend = append(pend, ent{k, pv})
				}
			}
			if !abort {
				for _, e := range pend {
					prog := token(e.k, e.pv)
					verifx.EncComputeProgram(types[e.k], func(*verifx.GoType, ...interface{}) (interface{}, error) { return prog, nil }, e.pv)
				}
			}
		}
	}
	var served []string
	for k := 1; k <= len(c.Hashes); k++ {
		for _, pv := range []bool{false, true} {
			v := verifx.EncGetProgram(types[k], pv)
			got := 0
			if v != nil {
				got = v.(int)
			}
			served = append(served, strconv.Itoa(got))
			if got != 0 && got != token(k, pv) {
				bad(len(c.Ops), fmt.Sprintf("after the history GetProgram(type %d, pv=%v) holds a program of another (type, flag)", k, pv), strconv.Itoa(got), strconv.Itoa(token(k, pv)))
			}
		}
	}
	verifx.EncResetAllProgramCaches()
	return strings.Join(res, ";") + "|" + strings.Join(served, ","), fails
}

func genScase(r *rng.R) *scase {
	nk := 1 + r.Intn(12)
	c := &scase{}
	style := r.Intn(3)
	base := uint32(r.U64())
	for i := 0; i < nk; i++ {
		h := uint32(r.U64())
		if style == 0 {
			h = base
		} else if style == 1 {
			h = base + uint32(i%2)
		}
		c.Hashes = append(c.Hashes, h)
	}
	for k := 1; k <= nk; k++ {
		if r.Chance(1, 8) {
			c.Failing = append(c.Failing, k)
		}
	}
	kp := func() string {
		pv := 0
		if r.Bool() {
			pv = 1
		}
		return fmt.Sprintf("%d:%d", 1+r.Intn(nk), pv)
	}
	for n := 1 + r.Intn(30); n > 0; n-- {
		switch x := r.Intn(10); {
		case x < 6:
			c.Ops = append(c.Ops, "F"+kp())
		case x < 8:
			c.Ops = append(c.Ops, "T"+kp())
		default:
			var l []string
			for m := r.Intn(6); m > 0; m-- {
				l = append(l, kp())
			}
			c.Ops = append(c.Ops, "B"+strings.Join(l, ","))
		}
	}
	return c
}

func servedMain() {
	var cases []*scase
	if *replay != "" {
		b, err := os.ReadFile(*replay)
		if err != nil {
			panic(err)
		}
		var rp struct {
			Replay struct {
				Case string `json:"case"`
			} `json:"replay"`
		}
		if err := json.Unmarshal(b, &rp); err != nil {
			panic(err)
		}
		c, err := parseScase(rp.Replay.Case)
		if err != nil {
			panic(err)
		}
		cases = append(cases, c)
	} else {
		if *corpus != "" {
			files, _ := filepath.Glob(filepath.Join(*corpus, "*.scase"))
			sort.Strings(files)
			for _, f := range files {
				b, _ := os.ReadFile(f)
				for _, l := range strings.Split(string(b), "\n") {
					if strings.HasPrefix(l, "S\t") {
						c, err := parseScase(l)
						if err != nil {
							panic(f + ": " + err.Error())
						}
						cases = append(cases, c)
					}
				}
			}
		}
		r := rng.New(*seed ^ 0x5e7ed)
		for i := 0; i < *n; i++ {
			cases = append(cases, genScase(r.Fork(uint64(i))))
		}
	}
	cw := out.Create(*casesp)
	rw := out.Create(*realp)
	rep := struct {
		Cases    int            `json:"cases"`
		Ops      int            `json:"ops"`
		OpKinds  map[string]int `json:"op_kinds"`
		BothFlag int            `json:"cases_touching_a_type_with_both_flags"`
		Failures []sfail        `json:"failures"`
		Samples  []string       `json:"samples"`
	}{OpKinds: map[string]int{}}
	for _, c := range cases {
		cw.Line(c.line())
		res, fails := runServed(c)
		rw.Line(res)
		rep.Cases++
		rep.Ops += len(c.Ops)
		flags := map[int]int{}
		for _, o := range c.Ops {
			rep.OpKinds[string(o[0])]++
			if o[0] == 'F' || o[0] == 'T' {
				k, pv := pair(o[1:])
				if pv {
					flags[k] |= 2
				} else {
					flags[k] |= 1
				}
			}
		}
		for _, f := range flags {
			if f == 3 {
				rep.BothFlag++
				break
			}
		}
		if len(rep.Failures) < 20 {
			rep.Failures = append(rep.Failures, fails...)
		}
		if len(rep.Samples) < 2 {
			rep.Samples = append(rep.Samples, c.line()+" => "+res)
		}
	}
	cw.Close()
	rw.Close()
	b, _ := json.MarshalIndent(rep, "", " ")
	if err := os.WriteFile(*outp, b, 0o644); err != nil {
		panic(err)
	}
}
