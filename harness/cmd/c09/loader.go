package main

import (
	"bytes"
	"encoding/binary"
	"encoding/hex"
	"encoding/json"
	"fmt"
	"os"
	"path/filepath"
	"sort"
	"strconv"
	"strings"
	"unsafe"

	"github.com/bytedance/sonic/loader"

	"verif/harness/internal/out"
	"verif/harness/internal/rng"
)

// lcase: one LoadMany batch of stub functions.  Text of item i = `mov eax, imm32(Ret) ; ret ; <pad>`.
type litem struct {
	Name string
	Ret  uint32
	Pad  int
}

type lcase struct {
	Items []litem
	Style string
}

func (it litem) text() []byte {
	t := []byte{0xB8, 0, 0, 0, 0, 0xC3}
	binary.LittleEndian.PutUint32(t[1:], it.Ret)
	for i := 0; i < it.Pad; i++ {
		t = append(t, 0xCC)
	}
	return t
}

func (c *lcase) line() string {
	parts := make([]string, len(c.Items))
	for i, it := range c.Items {
		parts[i] = hex.EncodeToString([]byte(it.Name)) + ":" + hex.EncodeToString(it.text())
	}
	return "L\t" + strings.Join(parts, ",")
}

func parseLcase(line string) (*lcase, error) {
	f := strings.Split(strings.TrimRight(line, "\n"), "\t")
	if len(f) != 2 || f[0] != "L" {
		return nil, fmt.Errorf("bad loader case")
	}
	c := &lcase{Style: "corpus"}
	for _, p := range strings.Split(f[1], ",") {
		nt := strings.Split(p, ":")
		if len(nt) != 2 {
			return nil, fmt.Errorf("bad item")
		}
		nm, err1 := hex.DecodeString(nt[0])
		tx, err2 := hex.DecodeString(nt[1])
		if err1 != nil || err2 != nil || len(tx) < 6 || tx[0] != 0xB8 || tx[5] != 0xC3 {
			return nil, fmt.Errorf("bad item text")
		}
		c.Items = append(c.Items, litem{string(nm), binary.LittleEndian.Uint32(tx[1:]), len(tx) - 6})
	}
	return c, nil
}

func (c *lcase) dupNames() bool {
	seen := map[string]bool{}
	for _, it := range c.Items {
		if seen[it.Name] {
			return true
		}
		seen[it.Name] = true
	}
	return false
}

type lfail struct {
	Case     string `json:"case"`
	Item     int    `json:"item"`
	What     string `json:"what"`
	Got      string `json:"got"`
	Want     string `json:"want"`
	DupNames bool   `json:"dup_names"`
}

var stubLoader = loader.Loader{Name: "verif.c09.", File: "verif/c09_stub.go", Options: loader.Options{NoPreempt: true}}

func runLoader(c *lcase) (res string, fails []lfail) {
	items := make([]loader.LoadOneItem, len(c.Items))
	for i, it := range c.Items {
		tx := it.text()
		items[i] = loader.LoadOneItem{
			Text: tx, FuncName: it.Name, FrameSize: 0, ArgSize: 0,
			ArgPtrs: []bool{}, LocalPtrs: []bool{},
			Pcdata: loader.Pcdata{{PC: uint32(len(tx)), Val: 0}},
		}
	}
	fns := stubLoader.LoadMany(items)
	if len(fns) != len(items) {
		return "len=" + strconv.Itoa(len(fns)), []lfail{{c.line(), 0, "LoadMany returned a wrong number of functions", strconv.Itoa(len(fns)), strconv.Itoa(len(items)), c.dupNames()}}
	}
	if len(items) == 0 {
		return "", nil
	}
	line := c.line()
	dup := c.dupNames()
	offs := make([]string, len(fns))
	var base uintptr
	want := 0
	for i, fn := range fns {
		if fn == nil {
			offs[i] = "nil"
			fails = append(fails, lfail{line, i, "no function returned for this item", "nil", "", dup})
			want += len(items[i].Text)
			continue
		}
		entry := **(**uintptr)(unsafe.Pointer(&fn))
		if i == 0 {
			base = entry // item 0 always carries a unique name
		}
		off := int(entry - base)
		offs[i] = strconv.Itoa(off)
		if off != want {
			fails = append(fails, lfail{line, i, "item is served by the code of another item (entry offset)", strconv.Itoa(off), strconv.Itoa(want), dup})
		}
		code := unsafe.Slice((*byte)(unsafe.Pointer(entry)), len(items[i].Text))
		if !bytes.Equal(code, items[i].Text) {
			fails = append(fails, lfail{line, i, "the bytes at the returned entry are not this item's text", hex.EncodeToString(code), hex.EncodeToString(items[i].Text), dup})
		}
		f := *(*func() uint32)(unsafe.Pointer(&fn))
		if got := f(); got != c.Items[i].Ret {
			fails = append(fails, lfail{line, i, "calling the returned function runs another item's code", strconv.Itoa(int(got)), strconv.Itoa(int(c.Items[i].Ret)), dup})
		}
		want += len(items[i].Text)
	}
	if len(fails) > 4 {
		fails = fails[:4]
	}
	return strings.Join(offs, ","), fails
}

func genLcase(r *rng.R, idx int) *lcase {
	n := 1 + r.Intn(12)
	c := &lcase{Style: "unique-names"}
	pool := []string{"decode_x.T", "encode_x.T", "decode_main.L", "f", "decode_struct { A int }", "encode_[]x.T", "decode_*x.T"}
	dup := r.Chance(1, 4)
	if dup {
		c.Style = "duplicate-names"
	}
	used := map[string]bool{}
	for i := 0; i < n; i++ {
		it := litem{Ret: uint32(r.U64()), Pad: r.Intn(40)}
		if r.Chance(1, 3) {
			it.Pad = 0
		}
		switch {
		case i == 0:
			it.Name = fmt.Sprintf("base_%d_%d", *seed, idx)
		case dup && r.Chance(1, 2):
			it.Name = pool[r.Intn(len(pool))]
		default:
			for {
				it.Name = fmt.Sprintf("%s#%d", pool[r.Intn(len(pool))], r.Intn(1000))
				if !used[it.Name] {
					break
				}
			}
		}
		used[it.Name] = true
		c.Items = append(c.Items, it)
	}
	if dup && !c.dupNames() && n > 2 {
		c.Items[n-1].Name = c.Items[1].Name
	}
	if !c.dupNames() {
		c.Style = "unique-names"
	}
	return c
}

func loaderMain() {
	var cases []*lcase
	if *replay != "" {
		b, err := os.ReadFile(*replay)
		if err != nil {
			panic(err)
		}
		var rp struct {
			Replay struct {
				Case string `json:"case"`
			} `json:"replay"`
		}
		if err := json.Unmarshal(b, &rp); err != nil {
			panic(err)
		}
		c, err := parseLcase(rp.Replay.Case)
		if err != nil {
			panic(err)
		}
		cases = append(cases, c)
	} else {
		if *corpus != "" {
			files, _ := filepath.Glob(filepath.Join(*corpus, "*.lcase"))
			sort.Strings(files)
			for _, f := range files {
				b, _ := os.ReadFile(f)
				for _, l := range strings.Split(string(b), "\n") {
					if strings.HasPrefix(l, "L\t") {
						c, err := parseLcase(l)
						if err != nil {
							panic(f + ": " + err.Error())
						}
						cases = append(cases, c)
					}
				}
			}
		}
		r := rng.New(*seed ^ 0x10ade4)
		for i := 0; i < *n; i++ {
			cases = append(cases, genLcase(r.Fork(uint64(i)), i))
		}
	}
	cw := out.Create(*casesp)
	rw := out.Create(*realp)
	rep := struct {
		Cases    int            `json:"cases"`
		Items    int            `json:"items"`
		Styles   map[string]int `json:"styles"`
		Failures []lfail        `json:"failures"`
		Samples  []string       `json:"samples"`
	}{Styles: map[string]int{}}
	for _, c := range cases {
		cw.Line(c.line())
		res, fails := runLoader(c)
		rw.Line(res)
		rep.Cases++
		rep.Items += len(c.Items)
		rep.Styles[c.Style]++
		if len(rep.Failures) < 40 {
			rep.Failures = append(rep.Failures, fails...)
		}
		if len(rep.Samples) < 2 {
			rep.Samples = append(rep.Samples, c.line()+" => "+res)
		}
	}
	cw.Close()
	rw.Close()
	b, _ := json.MarshalIndent(rep, "", " ")
	if err := os.WriteFile(*outp, b, 0o644); err != nil {
		panic(err)
	}
}
