package main

import (
	"encoding/json"
	"errors"
	"fmt"
	"os"
	"path/filepath"
	"sort"
	"strconv"
	"strings"

	"github.com/bytedance/sonic/verifx"

	"verif/harness/internal/out"
	"verif/harness/internal/rng"
)

// pcase: one op sequence. Kind "P": real ProgramCache (ops G, C, D). Kind "M": raw _ProgramMap (ops G, A, D).
type pcase struct {
	Kind    string
	Cap     uint32 // 0: default (_InitCapacity)
	Hashes  []uint32
	Ops     []string
	Style   string
	NoModel bool // too expensive for the list-based extracted model: real code vs oracle and structural checks only
}

func (c *pcase) line() string {
	hs := make([]string, len(c.Hashes))
	for i, h := range c.Hashes {
		hs[i] = strconv.FormatUint(uint64(h), 10)
	}
	return "P\t" + strconv.Itoa(int(c.Cap)) + "\t" + strings.Join(hs, ",") + "\t" + strings.Join(c.Ops, ";")
}

func parsePcase(line string) (*pcase, error) {
	f := strings.Split(strings.TrimRight(line, "\n"), "\t")
	if len(f) != 4 || f[0] != "P" {
		return nil, fmt.Errorf("bad pcache case line")
	}
	cp, err := strconv.Atoi(f[1])
	if err != nil {
		return nil, err
	}
	c := &pcase{Kind: "P", Cap: uint32(cp), Style: "corpus"}
	for _, h := range strings.Split(f[2], ",") {
		v, err := strconv.ParseUint(h, 10, 32)
		if err != nil {
			return nil, err
		}
		c.Hashes = append(c.Hashes, uint32(v))
	}
	if f[3] != "" {
		c.Ops = strings.Split(f[3], ";")
	}
	for _, o := range c.Ops {
		if o[0] == 'A' {
			c.Kind = "M"
		}
	}
	return c, nil
}

type pfail struct {
	Case string `json:"case"`
	Op   int    `json:"op_index"`
	What string `json:"what"`
	Got  string `json:"got"`
	Want string `json:"want"`
}

func digest(n uint64, mask uint32, slots []verifx.ProgramSlot, id map[*verifx.GoType]int) string {
	h1, h2 := 0, 0
	feed := func(x int) {
		h1 = (h1*1000003 + x) % 2147483647
		h2 = (h2*69069 + x) % 2147483629
	}
	for i, s := range slots {
		if s.Vt != nil {
			feed(i)
			feed(id[s.Vt])
			v, _ := s.Fn.(int)
			feed(v)
		}
	}
	return fmt.Sprintf("%d/%d/%d/%d", n, mask, h1, h2)
}

func kv(body string) (int, int) {
	i := strings.IndexByte(body, ':')
	k, _ := strconv.Atoi(body[:i])
	v, _ := strconv.Atoi(body[i+1:])
	return k, v
}

var errCompute = errors.New("compute failed")

// runReal executes the case on the real code; results per op and the disagreements with the plain-map oracle
// and with the structural expectations (independent of the Coq model).
func runReal(c *pcase) (res []string, fails []pfail) {
	types := make([]*verifx.GoType, len(c.Hashes)+1)
	id := map[*verifx.GoType]int{}
	for i, h := range c.Hashes {
		types[i+1] = verifx.NewGoType(h)
		id[types[i+1]] = i + 1
	}
	var cache *verifx.ProgramCache
	var pm *verifx.ProgramMap
	if c.Kind == "P" {
		cache = verifx.NewProgramCache(c.Cap)
	} else {
		pm = verifx.NewProgramMap(c.Cap)
	}
	spec := map[int]int{}
	tainted := map[int]bool{} // keys raw-added twice: get is unspecified for them
	dead := false
	line := ""
	bad := func(i int, what, got, want string) {
		if len(fails) < 5 {
			if line == "" {
				line = c.line()
			}
			fails = append(fails, pfail{line, i, what, got, want})
		}
	}
	for i, o := range c.Ops {
		if dead {
			res = append(res, "P")
			continue
		}
		switch o[0] {
		case 'G':
			k, _ := strconv.Atoi(o[1:])
			var v interface{}
			if cache != nil {
				v = cache.Get(types[k])
			} else {
				v = pm.Get(types[k])
			}
			got := 0
			if v != nil {
				got = v.(int)
			}
			res = append(res, strconv.Itoa(got))
			if !tainted[k] && got != spec[k] {
				bad(i, "get returns a value that is not the one stored for this type", strconv.Itoa(got), strconv.Itoa(spec[k]))
			}
		case 'C':
			k, v := kv(o[1:])
			calls := 0
			r, err := func() (r interface{}, err error) {
				defer func() {
					if p := recover(); p != nil {
						r, err, dead = nil, nil, true
					}
				}()
				return cache.Compute(types[k], func(vt *verifx.GoType, _ ...interface{}) (interface{}, error) {
					calls++
					if vt != types[k] {
						return nil, fmt.Errorf("callback got another type")
					}
					if v == 0 {
						return nil, errCompute
					}
					return v, nil
				})
			}()
			if dead {
				res = append(res, "P")
				bad(i, "Compute panicked", "panic", "a value")
				continue
			}
			want, wantCalls := "", 0
			if old, ok := spec[k]; ok {
				want = strconv.Itoa(old)
			} else if v == 0 {
				want, wantCalls = "E", 1
			} else {
				want, wantCalls = strconv.Itoa(v), 1
				spec[k] = v
			}
			got := "E"
			if err == nil {
				got = strconv.Itoa(r.(int))
			} else if err != errCompute {
				got = "E?" + err.Error()
			}
			res = append(res, got)
			if got != want {
				bad(i, "Compute returns a value that is not the codec of this type", got, want)
			}
			if calls != wantCalls {
				bad(i, "Compute ran the compile callback a wrong number of times", strconv.Itoa(calls), strconv.Itoa(wantCalls))
			}
		case 'A':
			k, v := kv(o[1:])
			np, ok := pm.Add(types[k], v)
			if !ok {
				dead = true
				res = append(res, "P")
				bad(i, "add panicked", "panic", "ok")
				continue
			}
			// copy-on-write: the receiver must be unchanged
			if _, present := spec[k]; !present && pm.Get(types[k]) != nil {
				bad(i, "add modified the published (old) map", "present", "absent")
			}
			pm = np
			if _, present := spec[k]; present {
				tainted[k] = true
			} else {
				spec[k] = v
			}
			res = append(res, strconv.Itoa(v))
		case 'D':
			var nn uint64
			var mask uint32
			var slots []verifx.ProgramSlot
			if cache != nil {
				nn, mask, slots = verifx.ProgramCacheDump(cache)
			} else {
				nn, mask, slots = pm.Dump()
			}
			d := digest(nn, mask, slots, id)
			res = append(res, d)
			// structural expectations
			if len(slots) != int(mask)+1 || len(slots)&(len(slots)-1) != 0 {
				bad(i, "bucket array length is not mask+1 / not a power of two", fmt.Sprint(len(slots), mask), "")
			}
			occ := 0
			seen := map[int]int{}
			for _, s := range slots {
				if s.Vt != nil {
					occ++
					seen[id[s.Vt]]++
				}
			}
			if uint64(occ) != nn {
				bad(i, "entry count n differs from the number of occupied slots", fmt.Sprint(nn), fmt.Sprint(occ))
			}
			if len(tainted) == 0 {
				if occ != len(spec) {
					bad(i, "an entry was lost or duplicated", fmt.Sprint(occ), fmt.Sprint(len(spec)))
				}
				for k := range spec {
					if seen[k] != 1 {
						bad(i, "type "+strconv.Itoa(k)+" occupies a wrong number of slots", fmt.Sprint(seen[k]), "1")
						break
					}
				}
			}
			if c.capOrDefault() >= 2 && float64(nn) > verifx.CacheLoadFactor*float64(len(slots)) {
				bad(i, "load factor exceeded after add", fmt.Sprintf("%d/%d", nn, len(slots)), "<= _LoadFactor")
			}
		}
	}
	return
}

func (c *pcase) capOrDefault() int {
	if c.Cap == 0 {
		return verifx.CacheInitCapacity
	}
	return int(c.Cap)
}

// ---- generators

func genHashes(r *rng.R, k int, capacity int, style int) ([]uint32, string) {
	hs := make([]uint32, k)
	name := ""
	switch style {
	case 0:
		name = "all-equal"
		h := uint32(r.U64())
		for i := range hs {
			hs[i] = h
		}
	case 1:
		name = "two-clusters"
		a, b := uint32(r.U64()), uint32(r.U64())
		for i := range hs {
			if r.Bool() {
				hs[i] = a
			} else {
				hs[i] = b
			}
		}
	case 2:
		name = "near-wrap"
		for i := range hs {
			hs[i] = uint32(r.U64())&^uint32(4*capacity-1) | uint32(4*capacity-1-r.Intn(3))
		}
	case 3:
		name = "random"
		for i := range hs {
			hs[i] = uint32(r.U64())
		}
	case 4:
		name = "sequential"
		b := uint32(r.U64())
		for i := range hs {
			hs[i] = b + uint32(i)
		}
	case 5:
		name = "high-bits-only"
		sh := uint(8 + r.Intn(20))
		for i := range hs {
			hs[i] = uint32(r.Intn(1<<12)) << sh
		}
	case 6:
		name = "max-u32"
		for i := range hs {
			hs[i] = 0xFFFFFFFF - uint32(r.Intn(4))
		}
	default:
		name = "small-range"
		for i := range hs {
			hs[i] = uint32(r.Intn(capacity + 1))
		}
	}
	return hs, name
}

func genSmall(r *rng.R) *pcase {
	capacity := 1 << uint(r.Intn(7))
	k := 1 + r.Intn(3*capacity+2)
	if k > 120 {
		k = 120
	}
	hs, style := genHashes(r, k+2, capacity, r.Intn(8))
	c := &pcase{Kind: "P", Cap: uint32(capacity), Hashes: hs, Style: "small/" + style}
	nops := 1 + r.Intn(3*k+4)
	val := 0
	if r.Chance(1, 4) {
		// raw map case
		c.Kind = "M"
		c.Style = "map/" + style
		dup := r.Chance(1, 8)
		if dup {
			c.Style = "map-dup/" + style
		}
		perm := permutation(r, k)
		next := 0
		for i := 0; i < nops; i++ {
			if r.Chance(3, 5) && (next < k || dup) {
				key := 0
				if dup && r.Chance(1, 3) {
					key = 1 + r.Intn(k)
				} else if next < k {
					key = perm[next] + 1
					next++
				} else {
					continue
				}
				val++
				c.Ops = append(c.Ops, fmt.Sprintf("A%d:%d", key, val), "D")
			} else {
				c.Ops = append(c.Ops, "G"+strconv.Itoa(1+r.Intn(k+2)))
			}
		}
		return c
	}
	for i := 0; i < nops; i++ {
		if r.Chance(3, 5) {
			val++
			v := val
			if r.Chance(1, 20) {
				v = 0
			}
			c.Ops = append(c.Ops, fmt.Sprintf("C%d:%d", 1+r.Intn(k), v), "D")
		} else {
			c.Ops = append(c.Ops, "G"+strconv.Itoa(1+r.Intn(k+2)))
		}
	}
	return c
}

func permutation(r *rng.R, n int) []int {
	p := make([]int, n)
	for i := range p {
		p[i] = i
	}
	for i := n - 1; i > 0; i-- {
		j := r.Intn(i + 1)
		p[i], p[j] = p[j], p[i]
	}
	return p
}

func genBig(r *rng.R, k int, style int) *pcase {
	capacity := verifx.CacheInitCapacity
	hs := make([]uint32, k+8)
	name := ""
	switch style % 4 {
	case 0:
		name = "random"
		for i := range hs {
			hs[i] = uint32(r.U64())
		}
	case 1:
		name = "groups-of-48-equal-low-bits"
		for i := range hs {
			hs[i] = uint32(r.U64())&^0xFFFF | uint32((i/48)*37)&0xFFFF
		}
	case 2:
		name = "300-equal-then-random"
		h := uint32(r.U64())
		for i := range hs {
			if i < 300 {
				hs[i] = h
			} else {
				hs[i] = uint32(r.U64())
			}
		}
	case 3:
		name = "sequential-across-wrap"
		for i := range hs {
			hs[i] = uint32(capacity - 40 + i/2)
		}
	}
	c := &pcase{Kind: "P", Cap: 0, Hashes: hs, Style: "big/" + name}
	perm := permutation(r, k)
	for i, p := range perm {
		c.Ops = append(c.Ops, fmt.Sprintf("C%d:%d", p+1, i+1))
		if r.Chance(1, 4) {
			c.Ops = append(c.Ops, "G"+strconv.Itoa(1+r.Intn(k+8)))
		}
		if i%512 == 511 || i == capacity/2-1 || i == capacity/2 || i == capacity-1 || i == capacity {
			c.Ops = append(c.Ops, "D")
		}
	}
	c.Ops = append(c.Ops, "D")
	for i := 1; i <= k+8; i += 1 + r.Intn(3) {
		c.Ops = append(c.Ops, "G"+strconv.Itoa(i))
	}
	return c
}

func pcacheMain() {
	var cases []*pcase
	if *replay != "" {
		b, err := os.ReadFile(*replay)
		if err != nil {
			panic(err)
		}
		var rp struct {
			Replay struct {
				Case string `json:"case"`
			} `json:"replay"`
		}
		if err := json.Unmarshal(b, &rp); err != nil || rp.Replay.Case == "" {
			panic("replay file holds no pcache case")
		}
		c, err := parsePcase(rp.Replay.Case)
		if err != nil {
			panic(err)
		}
		cases = append(cases, c)
	} else {
		if *corpus != "" {
			files, _ := filepath.Glob(filepath.Join(*corpus, "*.pcase"))
			sort.Strings(files)
			for _, f := range files {
				b, _ := os.ReadFile(f)
				for _, l := range strings.Split(string(b), "\n") {
					if strings.HasPrefix(l, "P\t") {
						if c, err := parsePcase(l); err == nil {
							cases = append(cases, c)
						} else {
							panic(f + ": " + err.Error())
						}
					}
				}
			}
		}
		r := rng.New(*seed)
		for i := 0; i < *n; i++ {
			cases = append(cases, genSmall(r.Fork(uint64(i))))
		}
		for i := 0; i < *bigModel; i++ {
			// crosses the first rehash threshold of the default capacity; cheap hash styles only (0: random, 3: sequential across the wrap)
			cases = append(cases, genBig(r.Fork(uint64(2000000+i)), verifx.CacheInitCapacity/2+500+r.Intn(200), []int{0, 3}[(i+int(*seed))%2]))
		}
		for i := 0; i < *big; i++ {
			c := genBig(r.Fork(uint64(1000000+i)), *bigKeys, i+int(*seed%4))
			c.NoModel = true
			cases = append(cases, c)
		}
	}
	cw := out.Create(*casesp)
	rw := out.Create(*realp)
	rep := struct {
		Cases       int            `json:"cases"`
		ModelCases  int            `json:"cases_also_run_on_the_model"`
		Ops         int            `json:"ops"`
		Distinct    int            `json:"distinct_nontrivial"`
		Styles      map[string]int `json:"styles"`
		OpKinds     map[string]int `json:"op_kinds"`
		Rehashes    int            `json:"rehashes_observed"`
		MaxKeys     int            `json:"max_keys"`
		Failures    []pfail        `json:"failures"`
		SampleCases []string       `json:"samples"`
	}{Styles: map[string]int{}, OpKinds: map[string]int{}}
	seen := map[string]bool{}
	for _, c := range cases {
		l := c.line()
		res, fails := runReal(c)
		if !c.NoModel {
			cw.Line(l)
			rw.Line(strings.Join(res, ";"))
			rep.ModelCases++
		}
		rep.Cases++
		rep.Ops += len(c.Ops)
		rep.Styles[c.Style]++
		muts := 0
		lastMask := ""
		for i, o := range c.Ops {
			rep.OpKinds[string(o[0])]++
			if o[0] == 'C' || o[0] == 'A' {
				muts++
			}
			if o[0] == 'D' {
				f := strings.Split(res[i], "/")
				if len(f) == 4 {
					if lastMask != "" && f[1] != lastMask {
						rep.Rehashes++
					}
					lastMask = f[1]
				}
			}
		}
		if muts > rep.MaxKeys {
			rep.MaxKeys = muts
		}
		if !seen[l] && muts >= 2 {
			seen[l] = true
			rep.Distinct++
		}
		if len(rep.SampleCases) < 3 && len(l) < 300 {
			rep.SampleCases = append(rep.SampleCases, l+" => "+strings.Join(res, ";"))
		}
		if len(rep.Failures) < 20 {
			rep.Failures = append(rep.Failures, fails...)
		}
	}
	cw.Close()
	rw.Close()
	b, _ := json.MarshalIndent(rep, "", " ")
	if err := os.WriteFile(*outp, b, 0o644); err != nil {
		panic(err)
	}
}
