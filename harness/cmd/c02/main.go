// Command c02: correspondence + oracle harness for property C02
// (no structurally malformed JSON accepted, no valid JSON rejected).
//
//	c02 -mode gen -tier quick|thorough -seed N -corpus DIR -cases F     writes "<id>\t<kind>\t<hex>" lines
//	c02 -mode run -cases F -out G                                         runs every consuming API on every case
//
// Result line: "<id>\t<k>=<v>\t..." (see runCase).  Accept/reject of every API, spans where the API exposes one,
// plus the two oracles of the property: encoding/json.Valid and the relaxed structural reference validator rlx*.
package main

import (
	"bufio"
	"encoding/hex"
	"encoding/json"
	"flag"
	"fmt"
	"hash/crc32"
	"io"
	"os"
	"path/filepath"
	"sort"
	"strings"
	"unsafe"

	"github.com/bytedance/sonic"
	"github.com/bytedance/sonic/ast"
	"github.com/bytedance/sonic/decoder"
	"github.com/bytedance/sonic/encoder"
	"github.com/bytedance/sonic/verifx"

	"verif/harness/internal/jgen"
	"verif/harness/internal/out"
	"verif/harness/internal/rng"
)

// ---------------------------------------------------------------------------------------------------------
// relaxed structural reference validator (the "structurally malformed" oracle of the property):
// RFC 8259 structure, numbers and literals exact, string bodies = any bytes with backslash pairs up to the first
// unescaped quote.  Iterative, no depth limit.

func isWS(c byte) bool { return c == ' ' || c == '\t' || c == '\r' || c == '\n' }

func skipWS(s string, i int) int {
	for i < len(s) && isWS(s[i]) {
		i++
	}
	return i
}

func rlxString(s string, i int) int { // i = index after the opening quote; returns index after the closing quote or -1
	for i < len(s) {
		switch s[i] {
		case '"':
			return i + 1
		case '\\':
			i += 2
		default:
			i++
		}
	}
	return -1
}

func isDig(c byte) bool { return c >= '0' && c <= '9' }

func rlxNumber(s string, i int) int { // returns index after the longest RFC 8259 number starting at i, or -1
	if i < len(s) && s[i] == '-' {
		i++
	}
	if i >= len(s) || !isDig(s[i]) {
		return -1
	}
	if s[i] == '0' {
		i++
	} else {
		for i < len(s) && isDig(s[i]) {
			i++
		}
	}
	if i < len(s) && s[i] == '.' {
		j := i + 1
		if j >= len(s) || !isDig(s[j]) {
			return -1
		}
		for j < len(s) && isDig(s[j]) {
			j++
		}
		i = j
	}
	if i < len(s) && (s[i] == 'e' || s[i] == 'E') {
		j := i + 1
		if j < len(s) && (s[j] == '+' || s[j] == '-') {
			j++
		}
		if j >= len(s) || !isDig(s[j]) {
			return -1
		}
		for j < len(s) && isDig(s[j]) {
			j++
		}
		i = j
	}
	return i
}

// rlxValue parses one value starting at the first non-blank byte at or after i. Returns (start, end) or (-1,-1).
// maxDepth receives the nesting depth reached.
func rlxValue(s string, i int, maxDepth *int) (int, int) {
	i = skipWS(s, i)
	start := i
	var stack []byte // '[' or '{'
	// state: 0 expect value, 1 after value
	expectValue := true
	for {
		if expectValue {
			i = skipWS(s, i)
			if i >= len(s) {
				return -1, -1
			}
			c := s[i]
			switch {
			case c == '[':
				stack = append(stack, '[')
				if len(stack) > *maxDepth {
					*maxDepth = len(stack)
				}
				i = skipWS(s, i+1)
				if i < len(s) && s[i] == ']' {
					stack = stack[:len(stack)-1]
					i++
					expectValue = false
				}
				continue
			case c == '{':
				stack = append(stack, '{')
				if len(stack) > *maxDepth {
					*maxDepth = len(stack)
				}
				i = skipWS(s, i+1)
				if i < len(s) && s[i] == '}' {
					stack = stack[:len(stack)-1]
					i++
					expectValue = false
					continue
				}
				// key
				if i >= len(s) || s[i] != '"' {
					return -1, -1
				}
				if i = rlxString(s, i+1); i < 0 || i > len(s) {
					return -1, -1
				}
				i = skipWS(s, i)
				if i >= len(s) || s[i] != ':' {
					return -1, -1
				}
				i++
				continue
			case c == '"':
				if i = rlxString(s, i+1); i < 0 || i > len(s) {
					return -1, -1
				}
			case c == '-' || isDig(c):
				if i = rlxNumber(s, i); i < 0 {
					return -1, -1
				}
			case strings.HasPrefix(s[i:], "true"), strings.HasPrefix(s[i:], "null"):
				i += 4
			case strings.HasPrefix(s[i:], "false"):
				i += 5
			default:
				return -1, -1
			}
			expectValue = false
		}
		// after a value
		if len(stack) == 0 {
			return start, i
		}
		i = skipWS(s, i)
		if i >= len(s) {
			return -1, -1
		}
		top := stack[len(stack)-1]
		switch {
		case s[i] == ',' && top == '[':
			i++
			expectValue = true
		case s[i] == ',' && top == '{':
			i = skipWS(s, i+1)
			if i >= len(s) || s[i] != '"' {
				return -1, -1
			}
			if i = rlxString(s, i+1); i < 0 || i > len(s) {
				return -1, -1
			}
			i = skipWS(s, i)
			if i >= len(s) || s[i] != ':' {
				return -1, -1
			}
			i++
			expectValue = true
		case s[i] == ']' && top == '[', s[i] == '}' && top == '{':
			stack = stack[:len(stack)-1]
			i++
		default:
			return -1, -1
		}
	}
}

// rlxDoc: whole document = ws value ws.  Returns ok and the nesting depth.
func rlxDoc(s string) (bool, int) {
	d := 0
	_, e := rlxValue(s, 0, &d)
	if e < 0 {
		return false, d
	}
	return skipWS(s, e) == len(s), d
}

// rlxStream: blank-separated (or directly adjacent) sequence of values up to the end of the input
func rlxStream(s string) bool {
	i := 0
	for {
		i = skipWS(s, i)
		if i >= len(s) {
			return true
		}
		d := 0
		_, e := rlxValue(s, i, &d)
		if e <= i {
			return false
		}
		i = e
	}
}

// rlxExact: s[a:b] is exactly one value (no surrounding blanks).
func rlxExact(s string, a, b int) bool {
	if a < 0 || b > len(s) || a >= b {
		return false
	}
	d := 0
	t := s[a:b]
	st, e := rlxValue(t, 0, &d)
	return st == 0 && e == len(t)
}

// ---------------------------------------------------------------------------------------------------------
// running the APIs

type rawMarshaler struct{ doc []byte }

func (r rawMarshaler) MarshalJSON() ([]byte, error) { return r.doc, nil }

type tStruct struct {
	A int             `json:"a"`
	B json.RawMessage `json:"b"`
	C ast.Node        `json:"c"`
	D []interface{}   `json:"d"`
	K string          `json:"key"`
}

// captures the raw text it is handed (json.Unmarshaler): the decoder delimits and validates the value with skip_one
type capT struct{ raw string }

func (c *capT) UnmarshalJSON(b []byte) error { c.raw = string(b); return nil }

// embedded runs the decoder on a document that carries `in` at a position the decoder skips or captures;
// result "<class>:<rlx of the wrapped document>:<encoding/json.Valid of the wrapped document>:<nesting depth>"
func embedded(wrapped string, dst interface{}) string {
	return guard(func() string {
		cls := errClass(sonic.UnmarshalString(wrapped, dst))
		ok, d := rlxDoc(wrapped)
		return cls + ":" + b2s(ok) + ":" + b2s(json.Valid([]byte(wrapped))) + ":" + fmt.Sprint(d)
	})
}

// typed destinations reaching every decoder opcode family that matches literal bytes: one field per kind, the
// `,string` variants (OP_is_null_quote, OP_unquote, quoted numbers / bools), pointers, []byte, json.Number, interfaces
type tWide struct {
	Bo bool                   `json:"bo"`
	I8 int8                   `json:"i8"`
	I16 int16                 `json:"i16"`
	I32 int32                 `json:"i32"`
	I64 int64                 `json:"i64"`
	U8 uint8                  `json:"u8"`
	U16 uint16                `json:"u16"`
	U32 uint32                `json:"u32"`
	U64 uint64                `json:"u64"`
	F32 float32               `json:"f32"`
	F64 float64               `json:"f64"`
	St string                 `json:"st"`
	By []byte                 `json:"by"`
	Nu json.Number            `json:"nu"`
	An interface{}            `json:"an"`
	Pt *int                   `json:"pt"`
	Ps *string                `json:"ps"`
	Sl []int                  `json:"sl"`
	Ar [2]int                 `json:"ar"`
	Mp map[string]int         `json:"mp"`
	Em struct{}               `json:"em"`
	In struct{ X *tWide }     `json:"in"`
	Sbo bool                  `json:"sbo,string"`
	Si int                    `json:"si,string"`
	Si8 int8                  `json:"si8,string"`
	Su uint64                 `json:"su,string"`
	Sf float64                `json:"sf,string"`
	Sf32 float32              `json:"sf32,string"`
	Sst string                `json:"sst,string"`
	Spi *int                  `json:"spi,string"`
	Spb *bool                 `json:"spb,string"`
	Spf *float64              `json:"spf,string"`
	Sps *string               `json:"sps,string"`
	Snu json.Number           `json:"snu,string"`
}

var wideFields = []string{"bo", "i8", "i16", "i32", "i64", "u8", "u16", "u32", "u64", "f32", "f64", "st", "by", "nu", "an", "pt", "ps",
	"sl", "ar", "mp", "em", "in", "sbo", "si", "si8", "su", "sf", "sf32", "sst", "spi", "spb", "spf", "sps", "snu"}

type textKey struct{ s string }

func (k *textKey) UnmarshalText(b []byte) error { k.s = string(b); return nil }

// map destinations for every key kind (OP_map_key_*): the document is fed as the KEY
var mapKeyDsts = []struct {
	name string
	mk   func() interface{}
}{
	{"str", func() interface{} { return new(map[string]int) }},
	{"i8", func() interface{} { return new(map[int8]int) }},
	{"i16", func() interface{} { return new(map[int16]int) }},
	{"i32", func() interface{} { return new(map[int32]int) }},
	{"i64", func() interface{} { return new(map[int64]int) }},
	{"u8", func() interface{} { return new(map[uint8]int) }},
	{"u16", func() interface{} { return new(map[uint16]int) }},
	{"u32", func() interface{} { return new(map[uint32]int) }},
	{"u64", func() interface{} { return new(map[uint64]int) }},
	{"f32", func() interface{} { return new(map[float32]int) }},
	{"f64", func() interface{} { return new(map[float64]int) }},
	{"txt", func() interface{} { return new(map[textKey]int) }},
	{"txtp", func() interface{} { return new(map[*textKey]int) }},
}

func errClass(err error) string {
	if err == nil {
		return "ok"
	}
	switch e := err.(type) {
	case decoder.SyntaxError:
		return synCode(int(e.Code))
	case *decoder.SyntaxError:
		return synCode(int(e.Code))
	case *decoder.MismatchTypeError:
		return "mis"
	case *json.SyntaxError:
		return "syn"
	case *json.UnmarshalTypeError:
		return "mis"
	}
	return "oth"
}

// value-range errors (integer overflow, float infinity, mismatch) are not verdicts about the syntax
func synCode(c int) string {
	switch c {
	case 5, 8, 9:
		return "val"
	}
	return "syn"
}

func guard(f func() string) (r string) {
	defer func() {
		if e := recover(); e != nil {
			r = "PANIC"
		}
	}()
	return f()
}

// ok:<len>:<crc32>:<1 when the captured text is exactly one relaxed-valid value>
func spanOf(raw string) string {
	return fmt.Sprintf("ok:%d:%08x:%s", len(raw), crc32.ChecksumIEEE([]byte(raw)), b2s(rlxExact(raw, 0, len(raw))))
}

// <ret>:<p>[:<1 when in[:ret] is blank and in[ret:p] is exactly one relaxed-valid value>]
func posOf(in string, r, p int) string {
	if r < 0 {
		return fmt.Sprintf("%d:%d", r, p)
	}
	return fmt.Sprintf("%d:%d:%s", r, p, b2s(r <= len(in) && skipWS(in, 0) == r && rlxExact(in, r, p)))
}

var smA, smS = verifx.NewStateMachine(), verifx.NewStateMachine()

// exact-size private copy: the bytes after the input are not under our control, but the copy makes Valid([]byte)
// and the natives see a buffer of cap == len.
func clone(s string) string { return string(append(make([]byte, 0, len(s)), s...)) }

func native1(f func(s, p, m unsafe.Pointer, flags uint64) int, sm *verifx.StateMachine, in string) string {
	return nativeFlags(f, sm, in, 0)
}

// flags = 1<<5: MASK_VALIDATE_STRING (what ConfigStd / ValidateString passes to skip_one)
const maskValidateString = 1 << 5

func nativeFlags(f func(s, p, m unsafe.Pointer, flags uint64) int, sm *verifx.StateMachine, in string, flags uint64) string {
	return guard(func() string {
		s := in
		p := 0
		r := f(unsafe.Pointer(&s), unsafe.Pointer(&p), unsafe.Pointer(sm), flags)
		return posOf(in, r, p)
	})
}

func nativeFast(f func(s, p unsafe.Pointer) int, in string) string {
	return guard(func() string {
		s := in
		p := 0
		r := f(unsafe.Pointer(&s), unsafe.Pointer(&p))
		return posOf(in, r, p)
	})
}

func b2s(b bool) string {
	if b {
		return "1"
	}
	return "0"
}

func runCase(id, kind, in string, heavy bool) []string {
	res := []string{id}
	add := func(k, v string) { res = append(res, k+"="+v) }
	bin := []byte(in)
	add("std", b2s(json.Valid(bin)))
	rok, depth := rlxDoc(in)
	add("rlx", b2s(rok))
	add("depth", fmt.Sprint(depth))
	d0 := 0
	ps, pe := rlxValue(in, 0, &d0)
	add("rlxp", fmt.Sprintf("%d:%d", ps, pe))

	// --- validating FSM behind Valid / Skip / NewRaw / Get (exact model comparison)
	add("valid", guard(func() string { return b2s(sonic.Valid([]byte(in))) }))
	add("valids", guard(func() string { return b2s(sonic.ValidString(in)) }))
	add("encv", guard(func() string { ok, _ := encoder.Valid([]byte(in)); return b2s(ok) }))
	add("cfgstd", guard(func() string { return b2s(sonic.ConfigStd.Valid([]byte(in))) }))
	add("skip", guard(func() string { s, e := decoder.Skip([]byte(in)); return posOf(in, s, e) }))
	add("newraw", guard(func() string {
		n := ast.NewRaw(in)
		if n.Check() != nil {
			return "err"
		}
		r, err := n.Raw()
		if err != nil {
			return "err"
		}
		return spanOf(r)
	}))
	add("newrawc", guard(func() string {
		n := ast.NewRawConcurrentRead(in)
		if n.Check() != nil {
			return "err"
		}
		r, err := n.Raw()
		if err != nil {
			return "err"
		}
		return spanOf(r)
	}))
	add("get", guard(func() string {
		n, err := sonic.Get([]byte(in))
		if err != nil {
			return "err"
		}
		r, err := n.Raw()
		if err != nil {
			return "err"
		}
		return spanOf(r)
	}))
	add("getfs", guard(func() string {
		n, err := sonic.GetFromString(in)
		if err != nil {
			return "err"
		}
		r, err := n.Raw()
		if err != nil {
			return "err"
		}
		return spanOf(r)
	}))
	add("getk", guard(func() string {
		n, err := sonic.GetFromString(`{"k":`+in+`}`, "k")
		if err != nil {
			return "err"
		}
		r, err := n.Raw()
		if err != nil {
			return "err"
		}
		return spanOf(r)
	}))
	add("geti", guard(func() string {
		n, err := sonic.GetFromString(`[0,`+in+`]`, 1)
		if err != nil {
			return "err"
		}
		r, err := n.Raw()
		if err != nil {
			return "err"
		}
		return spanOf(r)
	}))
	add("marsh", guard(func() string { _, err := sonic.Marshal(rawMarshaler{[]byte(in)}); return b2s(err == nil) }))
	c := clone(in)
	add("va", native1(verifx.AVX2.ValidateOne, smA, c))
	add("vs", native1(verifx.SSE.ValidateOne, smS, c))
	add("sa", native1(verifx.AVX2.SkipOne, smA, c))
	add("ss", native1(verifx.SSE.SkipOne, smS, c))
	add("va5", nativeFlags(verifx.AVX2.ValidateOne, smA, c, maskValidateString))
	add("vs5", nativeFlags(verifx.SSE.ValidateOne, smS, c, maskValidateString))
	add("sa5", nativeFlags(verifx.AVX2.SkipOne, smA, c, maskValidateString))
	add("ss5", nativeFlags(verifx.SSE.SkipOne, smS, c, maskValidateString))
	add("fa", nativeFast(verifx.AVX2.SkipOneFast, c))
	add("fs", nativeFast(verifx.SSE.SkipOneFast, c))

	// --- decoders (two-sided oracle bound; RawMessage/Node capture go through skip_one + CheckTrailings)
	add("uiface", guard(func() string { var v interface{}; return errClass(sonic.UnmarshalString(in, &v)) }))
	add("uraw", guard(func() string { var v json.RawMessage; return errClass(sonic.UnmarshalString(in, &v)) }))
	add("unode", guard(func() string { var v ast.Node; return errClass(sonic.UnmarshalString(in, &v)) }))
	add("ustruct", guard(func() string { var v tStruct; return errClass(sonic.UnmarshalString(in, &v)) }))
	add("uraws", guard(func() string { var v []json.RawMessage; return errClass(sonic.UnmarshalString(in, &v)) }))
	add("umap", guard(func() string { var v map[string]json.RawMessage; return errClass(sonic.UnmarshalString(in, &v)) }))
	add("uifstd", guard(func() string { var v interface{}; return errClass(sonic.ConfigStd.UnmarshalFromString(in, &v)) }))
	add("urawstd", guard(func() string { var v json.RawMessage; return errClass(sonic.ConfigStd.UnmarshalFromString(in, &v)) }))
	add("ubytes", guard(func() string { var v interface{}; return errClass(sonic.Unmarshal([]byte(in), &v)) }))
	// positions where the JIT decoder skips or captures a value instead of decoding it
	add("eunk", embedded(`{"zz":`+in+`,"a":1}`, new(tStruct)))                // unknown struct field
	add("eraw", embedded(`{"a":1,"b":`+in+`}`, new(tStruct)))                 // json.RawMessage field
	add("enode", embedded(`{"c":`+in+`,"a":1}`, new(tStruct)))                // ast.Node field (json.Unmarshaler)
	add("emis", embedded(`{"key":`+in+`,"a":1}`, new(tStruct)))               // string field: mismatching values are skipped
	add("emap", embedded(`{"k":`+in+`}`, new(map[string]json.RawMessage)))    // map values of RawMessage
	add("eumap", embedded(`{"k":`+in+`,"j":`+in+`}`, new(map[string]capT)))   // map values of a json.Unmarshaler
	add("eslice", embedded(`[`+in+`,`+in+`]`, new([]json.RawMessage)))        // slice elements of RawMessage
	// the stream decoder: Decode until io.EOF; accept = every Decode succeeded and the stream ended cleanly
	add("sdec", guard(func() string {
		d := decoder.NewStreamDecoder(strings.NewReader(in))
		for n := 0; ; n++ {
			var v interface{}
			err := d.Decode(&v)
			if err == io.EOF {
				return "ok:" + b2s(rlxStream(in))
			}
			if err != nil {
				return errClass(err) + ":" + b2s(rlxStream(in))
			}
			if n > len(in)+2 {
				return "loop:" + b2s(rlxStream(in))
			}
		}
	}))
	add("ucap", guard(func() string { var v capT; return errClass(sonic.UnmarshalString(in, &v)) }))
	// every field kind of a typed struct (prefix E_: oracle on the wrapped document), first and last position
	for i, f := range wideFields {
		if i%2 == 0 {
			add("E_f_"+f, embedded(`{"`+f+`":`+in+`,"zz":1}`, new(tWide)))
		} else {
			add("E_f_"+f, embedded(`{"zz":1,"`+f+`":`+in+`}`, new(tWide)))
		}
	}
	for _, m := range mapKeyDsts {
		add("E_k_"+m.name, embedded(`{`+in+`:1}`, m.mk()))
	}
	add("E_top_si", embedded(in, new(struct{ A int `json:"a,string"` })))
	add("E_ptrs", embedded(`[`+in+`]`, new([]*tWide)))
	add("dec", guard(func() string {
		var v interface{}
		d := decoder.NewDecoder(in)
		if err := d.Decode(&v); err != nil {
			return errClass(err)
		}
		return errClass(d.CheckTrailings())
	}))
	if heavy {
		add("loads", guard(func() string {
			_, _, err := ast.Loads(in)
			if err == nil {
				return "ok"
			}
			// ast errors are formatted strings: number range errors are not verdicts about the syntax
			if m := err.Error(); strings.Contains(m, "out of range") || strings.Contains(m, "infinity") || strings.Contains(m, "overflow") {
				return "val"
			}
			return "syn"
		}))
	} else {
		add("loads", "skip")
	}
	// Node.UnmarshalJSON reached through encoding/json (which validates before calling it)
	add("stdnode", guard(func() string {
		var v ast.Node
		if err := json.Unmarshal(bin, &v); err != nil {
			return "syn"
		}
		if v.Check() != nil {
			return "err"
		}
		return "ok"
	}))
	return res
}

// ---------------------------------------------------------------------------------------------------------
// generators

type gcase struct{ kind, doc string }

func rep(s string, n int) string { return strings.Repeat(s, n) }

func genStringSweep(r *rng.R, maxLen int, add func(kind, doc string)) {
	for L := 0; L <= maxLen; L++ {
		body := rep("a", L)
		add("sweep-str", `"`+body+`"`)
		add("sweep-str-open", `"`+body)
		add("sweep-str-open", ` "`+body)
		add("sweep-str-open", `"`+body+`\`)
		add("sweep-str-open", `"`+body+`\"`)
		add("sweep-str", `"`+body+`\""`)
		add("sweep-str", `"`+body+`\\"`)
		add("sweep-str-open", `"`+body+`\\`)
		add("sweep-str", `["`+body+`"]`)
		add("sweep-str-open", `["`+body)
		add("sweep-str", `{"`+body+`":"`+body+`"}`)
		add("sweep-str-open", `{"`+body)
		add("sweep-str-open", `{"k":"`+body)
		add("sweep-str", `"`+body+`" x`)
		add("sweep-str", `"`+body+`"`+rep(" ", L%7))
		// string contents that only the string-validating scanner (MASK_VALIDATE_STRING) looks at, at offset L:
		// invalid / truncated / valid escapes, control characters, before and after vector rounds
		for _, e := range []string{`\x`, `\u12`, `\u00zz`, `\u0041`, `\ud800\udc00`, `\ud800`, `\/`, "\x01", "\\\x01", "\x1f", "\x7f", `\u004`, `\u`, `\`} {
			t := rep("b", r.Intn(70))
			add("sweep-str-esc", `"`+body+e+t+`"`)
			add("sweep-str-esc", `"`+body+e+`"`)
			add("sweep-str-esc", `["`+body+e+t+`",1]`)
			add("sweep-str-esc", `"`+body+e+t)
		}
		// an escape (or escaped quote / run of backslashes) straddling the position L
		if L >= 2 {
			k := 1 + r.Intn(5)
			add("sweep-str", `"`+rep("a", L-1)+rep(`\`, k)+`"`+rep("b", r.Intn(40))+`"`)
			add("sweep-str-open", `"`+rep("a", L-1)+rep(`\`, k)+`"`+rep("b", r.Intn(70)))
			add("sweep-str-open", `"`+rep("a", L-1)+rep(`\`, k)+rep("b", r.Intn(3)))
		}
		// random bodies over {a, \\, \", \x} of exactly L bytes, terminated or not
		for v := 0; v < 3; v++ {
			var b strings.Builder
			for b.Len() < L {
				switch r.Intn(7) {
				case 0:
					if b.Len()+2 <= L {
						b.WriteString(`\"`)
					} else {
						b.WriteByte('q')
					}
				case 1:
					if b.Len()+2 <= L {
						b.WriteString(`\\`)
					} else {
						b.WriteByte('r')
					}
				case 2:
					if b.Len()+2 <= L {
						b.WriteString(`\n`)
					} else {
						b.WriteByte('s')
					}
				default:
					b.WriteByte("abc xyz\x01\xff{}[],:"[r.Intn(15)])
				}
			}
			lead := rep(" ", r.Intn(3))
			if r.Bool() {
				add("sweep-str", lead+`"`+b.String()+`"`)
			} else {
				add("sweep-str-open", lead+`"`+b.String())
			}
		}
	}
}

func genNumberSweep(r *rng.R, maxLen int, add func(kind, doc string)) {
	for L := 1; L <= maxLen; L++ {
		d := "1" + rep("7", L-1)
		add("sweep-num", d)
		add("sweep-num", "-"+d)
		add("sweep-num", d+".5")
		add("sweep-num", d+"e5")
		add("sweep-num", "0."+d)
		add("sweep-num", "1e"+d)
		add("sweep-num", "1E+"+d)
		add("sweep-num", "["+d+","+d+"]")
		add("sweep-num", d+" ")
		add("sweep-num-bad", d+".")
		add("sweep-num-bad", d+"e")
		add("sweep-num-bad", d+"e+")
		add("sweep-num-bad", d+".e1")
		add("sweep-num-bad", d+"..1")
		add("sweep-num-bad", d+".1.1")
		add("sweep-num-bad", d+"e1e1")
		add("sweep-num-bad", d+"e1.1")
		add("sweep-num-bad", d+"-1")
		add("sweep-num-bad", d+"+")
		add("sweep-num-bad", d+"e+-1")
		add("sweep-num-bad", d+"x")
		add("sweep-num-bad", "0"+d)
		add("sweep-num-bad", "-"+rep(" ", L%3)+"x")
		add("sweep-num-bad", "["+d+".]")
		// one special byte somewhere in a run of L digits (every class at a random position)
		for _, sp := range []string{".", "e", "E", "+", "-", ".5e", "e-", "E+", "..", "ee", "e.", ".e", "+e", "-."} {
			k := r.Intn(L + 1)
			add("sweep-num-mix", d[:k]+sp+d[k:])
		}
	}
}

func genWSSweep(r *rng.R, maxLen int, add func(kind, doc string)) {
	wsb := []string{" ", "\t", "\n", "\r"}
	for L := 0; L <= maxLen; L++ {
		w := rep(wsb[L%4], L)
		mixed := ""
		for i := 0; i < L; i++ {
			mixed += wsb[r.Intn(4)]
		}
		add("sweep-ws", w+"1")
		add("sweep-ws", "1"+w)
		add("sweep-ws", mixed+"[1,"+mixed+"2]"+mixed)
		add("sweep-ws", "{"+w+`"a"`+w+":"+w+"1"+w+"}"+w)
		add("sweep-ws", "["+mixed+"]")
		add("sweep-ws", w)
		add("sweep-ws-bad", "1"+w+"x")
		add("sweep-ws-bad", "1"+mixed+"\x00")
		add("sweep-ws-bad", "[1"+w)
		add("sweep-ws-bad", "[1,"+mixed)
		add("sweep-ws-bad", w+"\x0b1")
		add("sweep-ws-bad", "true"+w+"false")
		add("sweep-ws-bad", "[1"+w+"\x0c]")
	}
}

func genDepth(thorough bool, add func(kind, doc string)) {
	ds := []int{1, 2, 3, 4095, 4096, 4097}
	if thorough {
		ds = []int{1, 2, 3, 4, 5, 4093, 4094, 4095, 4096, 4097, 4098, 4099, 5000, 9999, 10000, 10001}
	}
	for _, d := range ds {
		add("depth", rep("[", d)+rep("]", d))
		add("depth", rep("[", d)+"1"+rep("]", d))
		add("depth", rep("[", d)+"1,2"+rep("]", d))
		add("depth", rep("[", d)+`{}`+rep("]", d))
		add("depth", rep("[", d)+`{"a":1}`+rep("]", d))
		add("depth", rep(`{"a":`, d)+"1"+rep("}", d))
		add("depth", rep(`{"a":`, d)+"{}"+rep("}", d))
		add("depth", rep(`{"a":`, d)+"[]"+rep("}", d))
		add("depth", rep(`{"a":`, d)+"[1,2]"+rep("}", d))
		add("depth", rep(`[{"a":`, d/2)+"null"+rep("}]", d/2))
		add("depth", rep(`[0,`, d)+"1"+rep("]", d))
		add("depth", rep(`{"a":1,"b":`, d)+"1"+rep("}", d))
		add("depth-bad", rep("[", d)+rep("]", d-1))
		add("depth-bad", rep("[", d)+rep("]", d+1))
		add("depth-bad", rep("[", d))
		add("depth-bad", rep(`{"a":`, d)+rep("}", d))
		add("depth-bad", rep(`{"a":`, d)+"1"+rep("}", d-1))
		add("depth-bad", rep("[", d)+"1"+rep("}", d))
	}
}

var smallAlphabet = []string{"{", "}", "[", "]", ",", ":", `"`, `\`, "0", "-", "t", " "}

func genSmallExhaustive(maxLen int, add func(kind, doc string)) {
	var rec func(prefix string, n int)
	rec = func(prefix string, n int) {
		add("small", prefix)
		if n == 0 {
			return
		}
		for _, a := range smallAlphabet {
			rec(prefix+a, n-1)
		}
	}
	rec("", maxLen)
}

var handWritten = []string{
	``, ` `, `null`, `true`, `false`, `nul`, `tru`, `fals`, `nulll`, `truee`, `nullx`, `n`, `t`, `f`, `nu`, `tr`, `fa`, ` f`, `[t`, `[n]`, `[f`,
	`nULL`, `True`, `fAlse`, `nuxl`, `trxe`, `faxse`, `falsx`, `0`, `-0`, `-`, `--1`, `+1`, `01`, `00`, `-01`, `1.`, `.1`, `1.e1`, `1e`, `1e+`,
	`1E-1`, `1e1.5`, `1.5.5`, `1e5e5`, `0x10`, `1_000`, `Infinity`, `NaN`, `-Infinity`, `0e0`, `0.0e-0`, `-0.0`, `1e+-1`, `1ee1`, `1-1`, `1+1`,
	`[]`, `{}`, `[`, `]`, `{`, `}`, `[}`, `{]`, `[1,]`, `[,1]`, `[,]`, `[1 2]`, `[1,,2]`, `[1:2]`, `{"a"}`, `{"a":}`, `{"a":1,}`, `{,"a":1}`,
	`{"a" 1}`, `{"a":1 "b":2}`, `{"a":1,,"b":2}`, `{a:1}`, `{1:1}`, `{"a":1:2}`, `{"a",1}`, `{"a":1}}`, `[[1]`, `[1]]`, `{"a":[}`, `{"a":{}`,
	`""`, `"`, `"a`, `"\"`, `"\\"`, `"\\\"`, `"\u12"`, `"\x"`, "\"\x00\"", "\"\n\"", "\"\xff\"", `"\ud800"`, `"a"b`, `"a""b"`, `'a'`,
	`1 2`, `1,2`, `1]`, `1}`, `[] []`, `{} {}`, `null null`, `"a" "b"`, "1\x00", "\x001", "1\x0b", "\xef\xbb\xbf1", `//c` + "\n1", `/*c*/1`,
	`[1]x`, `[1] x`, `{"a":1} x`, `{"a":1}x`, `truex`, `true x`, `"s" x`, `1 x`, `1x`, ` 1`, `1 `, " \t\r\n1 \t\r\n",
	`{"a":{"b":[1,2,{"c":null}]},"d":"e"}`, `{"key":"v","a":1,"b":[true,false],"c":{"x":1},"d":[1,"2",null]}`,
	`{"a":1,"a":2}`, `{"":0}`, `[[],{},[[]],[{}],{"a":[]}]`,
}

func generate(tier string, seed uint64, corpus string, add func(kind, doc string)) {
	// corpus first
	if corpus != "" {
		files, _ := filepath.Glob(filepath.Join(corpus, "*.case"))
		sort.Strings(files)
		for _, f := range files {
			fh, err := os.Open(f)
			if err != nil {
				continue
			}
			sc := bufio.NewScanner(fh)
			sc.Buffer(make([]byte, 1<<20), 1<<26)
			for sc.Scan() {
				line := strings.TrimSpace(sc.Text())
				if line == "" || strings.HasPrefix(line, "#") {
					continue
				}
				if line == "-" {
					add("corpus", "")
					continue
				}
				b, err := hex.DecodeString(line)
				if err == nil {
					add("corpus", string(b))
				}
			}
			fh.Close()
		}
	}
	for _, h := range handWritten {
		add("hand", h)
		// every proper prefix (truncation) and one trailing-garbage variant
		if len(h) <= 40 {
			for k := 0; k < len(h); k++ {
				add("hand-trunc", h[:k])
			}
		}
		add("hand-trail", h+"]")
		add("hand-trail", h+" ,")
		add("hand-trail", " "+h+" ")
	}
	// every byte value right after / one blank after / right before a few valid documents (mask arithmetic in the
	// trailing-space loops, advance_ns, lspace)
	for _, d := range []string{`1`, `"a"`, `[1]`, `{"a":1}`, `null`, `-0.5e1`} {
		for b := 0; b < 256; b++ {
			add("byte-trail", d+string([]byte{byte(b)}))
			add("byte-trail", d+" "+string([]byte{byte(b)}))
			add("byte-lead", string([]byte{byte(b)})+d)
			add("byte-mid", "["+d+string([]byte{byte(b)})+"]")
		}
	}
	// quoted literals / numbers as the `,string` fields see them, with every possible byte where the closing quote belongs
	for _, l := range []string{`"null`, `"nul`, `"nulll`, `"true`, `"false`, `"tru`, `"12`, `"-0`, `"1.5`, `"1e2`, `"`, `"x`, `"\"`, `"\"x\"`, `nul`, `null`, `tru`, `fals`} {
		add("lit-quote", l)
		add("lit-quote", l+`"`)
		add("lit-quote", l+`""`)
		for b := 0; b < 256; b++ {
			add("lit-quote", l+string([]byte{byte(b)}))
		}
		add("lit-quote", l+`x"`)
		add("lit-quote", l+` "`)
		add("lit-quote", l+`}`)
		add("lit-quote", l+`},"b":1`)
	}
	// byte sequences that Unicode (but not JSON) classes as white space, after a value
	for _, u := range []string{"\u0085", "\u00a0", "\u1680", "\u2000", "\u2028", "\u2029", "\u202f", "\u205f", "\u3000", "\ufeff", "\x85", "\xa0", "\x0c", "\x0b", "\x1c", "\x1f"} {
		for _, d := range []string{`1`, `{"a":1}`, `[1]`, `"s"`} {
			add("uni-space", d+u)
			add("uni-space", d+" "+u+" ")
			add("uni-space", u+d)
			add("uni-space", "["+d+u+"]")
		}
	}
	r := rng.New(seed)
	thorough := tier == "thorough"
	nValid, nMut := 4000, 9000
	sweepS, sweepN, sweepW := 140, 100, 100
	small := 4
	if thorough {
		nValid, nMut = 120000, 300000
		sweepS, sweepN, sweepW = 400, 300, 300
		small = 6
	}
	genStringSweep(r.Fork(1), sweepS, add)
	genNumberSweep(r.Fork(2), sweepN, add)
	genWSSweep(r.Fork(3), sweepW, add)
	genDepth(thorough, add)
	genSmallExhaustive(small, add)
	rv := r.Fork(4)
	opts := []jgen.Opts{jgen.Default,
		{MaxDepth: 2, MaxWidth: 3, WS: false, DupKeys: true, Escapes: true, NonASCII: false, LongRuns: false},
		{MaxDepth: 7, MaxWidth: 3, WS: true, DupKeys: true, Escapes: true, NonASCII: true, LongRuns: true},
		{MaxDepth: 1, MaxWidth: 8, WS: true, DupKeys: false, Escapes: false, NonASCII: false, LongRuns: true, KeyPool: []string{"a", "b", "c", "d", "key"}},
	}
	var valids []string
	for i := 0; i < nValid; i++ {
		o := opts[rv.Intn(len(opts))]
		d := jgen.Doc(rv, &o)
		if len(valids) < 4000 {
			valids = append(valids, d)
		} else {
			valids[rv.Intn(len(valids))] = d
		}
		add("valid", d)
	}
	rm := r.Fork(5)
	for i := 0; i < nMut; i++ {
		d := valids[rm.Intn(len(valids))]
		switch rm.Intn(8) {
		case 0: // truncation at a random point
			add("mut-trunc", d[:rm.Intn(len(d)+1)])
		case 1: // trailing garbage after optional blanks
			add("mut-trail", d+rep(" ", rm.Intn(3))+[]string{"x", "]", "}", ",", "1", `"`, "\x00", "null", "[", ":", "\\"}[rm.Intn(11)])
		case 2: // two documents
			add("mut-two", d+[]string{"", " ", "\n", ","}[rm.Intn(4)]+valids[rm.Intn(len(valids))])
		default:
			add("mut", jgen.Mutate(rm, d))
		}
	}
}

func main() {
	mode := flag.String("mode", "gen", "gen | run | one")
	tier := flag.String("tier", "quick", "")
	seed := flag.Uint64("seed", 1, "")
	corpus := flag.String("corpus", "", "")
	cases := flag.String("cases", "", "")
	outp := flag.String("out", "", "")
	hexIn := flag.String("hex", "", "mode one: the document as hex")
	flag.Parse()
	switch *mode {
	case "gen":
		w := out.Create(*cases)
		n := 0
		seen := map[string]bool{}
		generate(*tier, *seed, *corpus, func(kind, doc string) {
			// de-duplicate (the exhaustive and the sweep generators overlap)
			if len(doc) < 64 {
				if seen[doc] {
					return
				}
				seen[doc] = true
			}
			n++
			w.Line(fmt.Sprint(n), kind, out.HexS(doc))
		})
		w.Close()
	case "run":
		fh, err := os.Open(*cases)
		if err != nil {
			panic(err)
		}
		sc := bufio.NewScanner(fh)
		sc.Buffer(make([]byte, 1<<20), 1<<28)
		w := out.Create(*outp)
		for sc.Scan() {
			f := strings.Split(sc.Text(), "\t")
			if len(f) < 3 {
				continue
			}
			doc := ""
			if f[2] != "-" {
				b, err := hex.DecodeString(f[2])
				if err != nil {
					panic(err)
				}
				doc = string(b)
			}
			w.Line(runCase(f[0], f[1], doc, len(doc) < 1<<16)...)
		}
		w.Close()
	case "one":
		doc := ""
		if *hexIn != "-" && *hexIn != "" {
			b, err := hex.DecodeString(*hexIn)
			if err != nil {
				panic(err)
			}
			doc = string(b)
		}
		fmt.Println(strings.Join(runCase("1", "one", doc, true), "\t"))
	}
}
