package main

import (
	"encoding/json"
	"fmt"
	"math"

	"github.com/bytedance/sonic"
)

func main() {
	for _, in := range []string{"-0", "-0.0", "-0e0", "[-0]", "-0.00000", "-0E+5"} {
		var f float64
		var g float64
		e1 := sonic.ConfigStd.UnmarshalFromString(in, &f)
		e2 := json.Unmarshal([]byte(in), &g)
		var f32 float32
		sonic.ConfigStd.UnmarshalFromString(in, &f32)
		var i interface{}
		sonic.ConfigStd.UnmarshalFromString(in, &i)
		fmt.Printf("%-10s sonic %v signbit=%v err=%v | std %v signbit=%v err=%v | f32 signbit=%v | iface %v\n", in, f, math.Signbit(f), e1, g, math.Signbit(g), e2, math.Signbit(float64(f32)), i)
	}
	var s []float64
	sonic.ConfigDefault.UnmarshalFromString("[-0, -0.0]", &s)
	fmt.Println(math.Signbit(s[0]), math.Signbit(s[1]))
}
