package main

import (
	"encoding/json"
	"fmt"

	"github.com/bytedance/sonic"
	"github.com/bytedance/sonic/encoder"
)

func main() {
	for _, in := range []string{`"\x"`, `"\u12"`, `"\uZZZZ"`, "\"a\x01b\"", `"\ "`, `"\`, `"\u123"`, `"é"`, `"\ud800"`, `["\x"]`, `{"\x":1}`, `"\a"`, `"\0"`, "\"\\\n\"", `"\U0041"`, `"ok\/"`} {
		ok, pos := encoder.Valid([]byte(in))
		fmt.Printf("%-12q encoder.Valid=%v(%d) sonic.Valid=%v json.Valid=%v\n", in, ok, pos, sonic.Valid([]byte(in)), json.Valid([]byte(in)))
	}
}
