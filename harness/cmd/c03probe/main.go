package main

import (
	"encoding/json"
	"fmt"
	"math"
	"bytes"

	"github.com/bytedance/sonic"
	"github.com/bytedance/sonic/verifx"
)

type PJ struct{ A int }

func (p *PJ) MarshalJSON() ([]byte, error) { return []byte(`"PJ"`), nil }

type SP struct{ P *int }

func (s SP) String() string { return "sp" }

type Stringer interface{ String() string }

type L struct{ Next *L }

type Big struct {
	F0, F1, F2, F3, F4, F5, F6, F7, F8, F9                     int
	G0, G1, G2, G3, G4, G5, G6, G7, G8, G9                     int
	H0, H1, H2, H3, H4, H5, H6, H7, H8, H9                     int
	I0, I1, I2, I3, I4, I5, I6, I7, I8, I9                     int
	J0, J1, J2, J3, J4, J5, J6, J7, J8, J9                     int
	E                                                          interface{}
}

func std(v interface{}) string {
	var b bytes.Buffer
	e := json.NewEncoder(&b)
	e.SetEscapeHTML(true)
	if err := e.Encode(v); err != nil {
		return "ERR " + err.Error()
	}
	return string(bytes.TrimRight(b.Bytes(), "\n"))
}
func son(v interface{}) string {
	b, err := sonic.ConfigStd.Marshal(v)
	if err != nil {
		return "ERR " + err.Error()
	}
	return string(b)
}
func cmp(name string, v interface{}) {
	a, b := std(v), son(v)
	if len(a) > 200 { a = a[:200] }
	if len(b) > 200 { b = b[:200] }
	st := "same"
	if a != b { st = "DIFF" }
	fmt.Printf("%-28s %s\n   std  : %s\n   sonic: %s\n", name, st, a, b)
}

func main() {
	cmp2 := func(name string, v interface{}) {
		verifx.EncResetProgramCache()
		a, b := std(v), son(v)
		st := "same"
		if a != b { st = "DIFF" }
		if len(a) > 60 { a = a[len(a)-60:] }
		if len(b) > 60 { b = b[len(b)-60:] }
		fmt.Printf("%-28s %s\n   std  : %s\n   sonic: %s\n", name, st, a, b)
	}
	cmp2("eface in recursed pv", &[]Big{{E: PJ{1}}})
	cmp2("eface not recursed", &struct{ E interface{} }{PJ{1}})
	cmp2("eface in recursed nonpv", map[string]Big{"a":{E: PJ{1}}})
	cmp2("slice of PJ", []PJ{{1}})
	cmp2("map of PJ", map[string]PJ{"a":{1}})
	cmp2("array of PJ", [1]PJ{{1}})
	cmp2("ptr array of PJ", &[1]PJ{{1}})
	cmp2("struct of PJ", struct{X PJ}{PJ{1}})
	cmp2("ptr struct of PJ", &struct{X PJ}{PJ{1}})
	cmp2("iface ptr-shaped nil", struct{ S Stringer }{SP{nil}})
	cmp2("iface ptr nil", struct{ S Stringer }{(*SP)(nil)})
	_ = math.Pi
}
