// c08: concurrent use of the program caches and of the public API, built with -race.
//
//	-mode cache   G goroutines race Get / Compute on the REAL ProgramCache (verif hook) over keys with chosen hashes and a
//	              tiny initial capacity (many rehashes while racing); every call is checked against `compute(k)`, the
//	              compile callback must succeed at most once per type, the final table must hold every type exactly once
//	-mode api     G goroutines race first-use compilation of fresh reflect.StructOf types through sonic.Marshal / Unmarshal /
//	              Pretouch / Valid / Get; prints one result line per call (order independent)
//	-mode apiseq  the same calls, sequentially, in this (fresh) process: the oracle
//	-mode pool    pool recycling: thousands of calls that FAIL inside nested documents (Unmarshal into several types, Valid, Get,
//	              ast, stream decode) hand pooled decoder stacks / native state machines back; sequentially (each kind, probes after
//	              it) and then from -g goroutines WHILE prober goroutines run the probes (valid decodes nested 1..100 deep,
//	              ValidateString Marshal/Unmarshal of invalid UTF-8, Valid).  Prints, per probe, the set of distinct results seen.
//	              -flood 0 is the oracle (same probes, fresh process, no failing calls).  Run WITHOUT -race as well: in race
//	              builds sync.Pool drops a quarter of the Puts, which hides accumulating pool state.
//
// A data race reported by the race detector ends the process with exit status 66 (GORACE=exitcode=66).
package main

import (
	"encoding/hex"
	"encoding/json"
	"errors"
	"flag"
	"fmt"
	"hash/fnv"
	"os"
	"reflect"
	"runtime"
	"sort"
	"strings"
	"sync"
	"sync/atomic"

	"github.com/bytedance/sonic"
	"github.com/bytedance/sonic/verifx"

	"verif/harness/internal/c09t"
	"verif/harness/internal/rng"
)

var (
	mode   = flag.String("mode", "cache", "")
	seed   = flag.Uint64("seed", 1, "")
	rounds = flag.Int("rounds", 20, "cache: number of independent racing rounds")
	gor    = flag.Int("g", 16, "goroutines")
	keys   = flag.Int("keys", 200, "cache: keys per round / api: fresh types")
	calls  = flag.Int("calls", 40, "calls per goroutine")
	outp   = flag.String("out", "/dev/stdout", "")
	flood  = flag.Int("flood", 0, "pool: failing calls per kind / per goroutine (0: none, the oracle)")
	tie    = flag.Int("tie", 0, "cache: the first N rounds are small and are also written as cases for the Coq model")
	casesp = flag.String("cases", "", "cache: case file for the model (tie rounds)")
	realp  = flag.String("real", "", "cache: schedule-independent observables of the real run (tie rounds)")
)

var errCompute = errors.New("compute failed")

type cacheReport struct {
	Rounds      int      `json:"rounds"`
	TieRounds   int      `json:"rounds_also_run_on_the_model"`
	Calls       int      `json:"calls"`
	Computes    int      `json:"compute_callbacks"`
	Rehashes    int      `json:"rehashes"`
	MaxG        int      `json:"max_goroutines"`
	Failures    []string `json:"failures"`
	HashStyles  []string `json:"hash_styles"`
	Blocked     int      `json:"computes_that_found_the_entry_under_the_lock"`
	GetHits     int      `json:"get_hits"`
	GetMisses   int      `json:"get_misses"`
	ErrorKeys   int      `json:"keys_whose_compile_fails"`
	FinalN      []uint64 `json:"final_entry_counts"`
	Capacities  []int    `json:"final_capacities"`
	Goroutines  []int    `json:"goroutines_per_round"`
	InitialCaps []int    `json:"initial_capacities"`
}

func cacheMain() {
	rep := cacheReport{}
	r0 := rng.New(*seed ^ 0xc08)
	fail := func(f string, a ...interface{}) {
		if len(rep.Failures) < 20 {
			rep.Failures = append(rep.Failures, fmt.Sprintf(f, a...))
		}
	}
	var cw, rw *os.File
	if *tie > 0 {
		cw, _ = os.Create(*casesp)
		rw, _ = os.Create(*realp)
		defer cw.Close()
		defer rw.Close()
	}
	for round := 0; round < *rounds; round++ {
		r := r0.Fork(uint64(round))
		g := []int{8, 16, 32, 64}[r.Intn(4)]
		if g > *gor {
			g = *gor
		}
		nk := 1 + r.Intn(*keys)
		ncalls := *calls
		if round < *tie {
			g, ncalls = 8, 10
			if nk > 40 {
				nk = 1 + nk%40
			}
		}
		touched := make([][]int, g)
		capacity := uint32(1) << uint(r.Intn(5))
		if r.Chance(1, 5) {
			capacity = 0 // the default _InitCapacity
		}
		style := r.Intn(4)
		types := make([]*verifx.GoType, nk)
		id := map[*verifx.GoType]int{}
		var base = uint32(r.U64())
		for i := range types {
			h := uint32(r.U64())
			switch style {
			case 0:
				h = base
			case 1:
				h = base + uint32(i%3)
			case 2:
				h = uint32(i)
			}
			types[i] = verifx.NewGoType(h)
			id[types[i]] = i
		}
		rep.HashStyles = append(rep.HashStyles, []string{"all-equal", "three-values", "sequential", "random"}[style])
		compute := func(k int) (int, bool) { return k*7 + 1, k%11 != 10 }
		cache := verifx.NewProgramCache(capacity)
		computes := make([]int32, nk)
		var nCalls, blocked, hits, misses int64
		var wg sync.WaitGroup
		var mu sync.Mutex
		start := make(chan struct{})
		for w := 0; w < g; w++ {
			wg.Add(1)
			rw := r.Fork(uint64(1000 + w))
			w := w
			go func() {
				defer wg.Done()
				<-start
				for c := 0; c < ncalls; c++ {
					k := rw.Intn(nk)
					touched[w] = append(touched[w], k+1)
					vt := types[k]
					want, ok := compute(k)
					atomic.AddInt64(&nCalls, 1)
					if rw.Chance(1, 4) {
						runtime.Gosched()
					}
					// the idiom of every sonic cache user: Get, then Compute on a miss
					if v := cache.Get(vt); v != nil {
						atomic.AddInt64(&hits, 1)
						if v.(int) != want {
							mu.Lock()
							fail("round %d: Get(type %d) = %v, want %d", round, k, v, want)
							mu.Unlock()
						}
						continue
					}
					atomic.AddInt64(&misses, 1)
					ran := false
					v, err := cache.Compute(vt, func(t *verifx.GoType, _ ...interface{}) (interface{}, error) {
						ran = true
						if t != vt {
							return nil, fmt.Errorf("callback got another type")
						}
						if rw.Chance(1, 3) {
							runtime.Gosched()
						}
						if !ok {
							return nil, errCompute
						}
						atomic.AddInt32(&computes[k], 1)
						return want, nil
					})
					if !ran {
						atomic.AddInt64(&blocked, 1)
					}
					switch {
					case ok && (err != nil || v == nil || v.(int) != want):
						mu.Lock()
						fail("round %d: Compute(type %d) = (%v, %v), want %d", round, k, v, err, want)
						mu.Unlock()
					case !ok && err != errCompute:
						mu.Lock()
						fail("round %d: Compute(type %d) = (%v, %v), want the compile error", round, k, v, err)
						mu.Unlock()
					}
				}
			}()
		}
		close(start)
		wg.Wait()
		n, mask, slots := verifx.ProgramCacheDump(cache)
		seen := map[int]int{}
		occ := 0
		for _, s := range slots {
			if s.Vt != nil {
				occ++
				k, known := id[s.Vt]
				if !known {
					fail("round %d: a slot holds an unknown type", round)
					continue
				}
				seen[k]++
				if want, _ := compute(k); s.Fn.(int) != want {
					fail("round %d: slot of type %d holds %v, want %d", round, k, s.Fn, want)
				}
			}
		}
		if uint64(occ) != n || len(slots) != int(mask)+1 {
			fail("round %d: n=%d occupied=%d len=%d mask=%d", round, n, occ, len(slots), mask)
		}
		errKeys := 0
		for k := range types {
			_, ok := compute(k)
			if !ok {
				errKeys++
			}
			c := int(atomic.LoadInt32(&computes[k]))
			if c > 1 {
				fail("round %d: the compile callback succeeded %d times for type %d (hash style %s)", round, c, k, rep.HashStyles[round])
			}
			if seen[k] > 1 || (c == 1) != (seen[k] == 1) {
				fail("round %d: type %d computed %d times occupies %d slots", round, k, c, seen[k])
			}
			rep.Computes += c
		}
		if round < *tie {
			var hs, bad, ks []string
			for i, t := range types {
				hs = append(hs, fmt.Sprint(t.Hash))
				if _, ok := compute(i); !ok {
					bad = append(bad, fmt.Sprint(i+1))
				}
			}
			for _, l := range touched {
				for _, k := range l {
					ks = append(ks, fmt.Sprint(k))
				}
			}
			if len(bad) == 0 {
				bad = []string{"-"}
			}
			fmt.Fprintf(cw, "%d\t%s\t%s\t%s\n", capacity, strings.Join(hs, ","), strings.Join(bad, ","), strings.Join(ks, ","))
			h1, nc := 0, 0
			for k := 0; k < nk; k++ {
				if seen[k] > 0 {
					h1 = (h1*1000003 + k + 1) % 2147483647
				}
				nc += int(atomic.LoadInt32(&computes[k]))
			}
			fmt.Fprintf(rw, "%d/%d/%d/%d/%d\n", n, mask, nc, h1, len(rep.Failures))
			rep.TieRounds++
		}
		initial := int(capacity)
		if initial == 0 {
			initial = verifx.CacheInitCapacity
		}
		for c := initial; c < len(slots); c *= 2 {
			rep.Rehashes++
		}
		rep.Rounds++
		rep.Calls += int(nCalls)
		rep.Blocked += int(blocked)
		rep.GetHits += int(hits)
		rep.GetMisses += int(misses)
		rep.ErrorKeys += errKeys
		rep.FinalN = append(rep.FinalN, n)
		rep.Capacities = append(rep.Capacities, len(slots))
		rep.Goroutines = append(rep.Goroutines, g)
		rep.InitialCaps = append(rep.InitialCaps, initial)
		if g > rep.MaxG {
			rep.MaxG = g
		}
	}
	b, _ := json.MarshalIndent(rep, "", " ")
	os.WriteFile(*outp, b, 0o644)
}

// ---- public API ------------------------------------------------------------------------------------

type apiCall struct {
	op   int // 0 Marshal, 1 Unmarshal, 2 Pretouch, 3 Valid, 4 Get
	t    int
	w    int
	seed uint64
}

func apiCalls() [][]apiCall {
	r := rng.New(*seed ^ 0xa91)
	all := make([][]apiCall, *gor)
	for g := range all {
		rg := r.Fork(uint64(g))
		for c := 0; c < *calls; c++ {
			t := c09t.GenBase + 5000 + rg.Intn(*keys)
			if rg.Chance(1, 6) {
				// the safe catalogue types too (recursive, nested, marshalers)
				for {
					t = rg.Intn(len(c09t.Catalogue))
					if c09t.Catalogue[t].Hazard == "" {
						break
					}
				}
			}
			all[g] = append(all[g], apiCall{op: rg.Intn(5), t: t, w: []int{0, 0, 1, 2, 3}[rg.Intn(5)], seed: rg.U64() % 1000})
		}
	}
	return all
}

func digest(s string) string {
	h := fnv.New64a()
	h.Write([]byte(s))
	return hex.EncodeToString(h.Sum(nil))
}

func doAPI(c apiCall) string {
	t := c09t.Wrap(c09t.TypeOf(c.t), c.w)
	switch c.op {
	case 0:
		v := c09t.Value(t, c.seed).Elem().Interface()
		b, err := sonic.ConfigStd.Marshal(v)
		if err != nil {
			return "err:" + reflect.TypeOf(err).String()
		}
		return "ok:" + digest(string(b))
	case 1:
		v := c09t.Value(t, c.seed).Elem().Interface()
		doc, err := json.Marshal(v)
		if err != nil {
			return "skip"
		}
		dst := reflect.New(t)
		err = sonic.ConfigStd.Unmarshal(doc, dst.Interface())
		o, _ := json.Marshal(dst.Interface())
		if err != nil {
			return "err:" + reflect.TypeOf(err).String() + ":" + digest(string(o))
		}
		return "ok:" + digest(string(o))
	case 2:
		if err := sonic.Pretouch(t); err != nil {
			return "err"
		}
		return "ok"
	case 3:
		v := c09t.Value(t, c.seed).Elem().Interface()
		doc, _ := json.Marshal(v)
		return fmt.Sprint(sonic.Valid(doc))
	default:
		v := c09t.Value(t, c.seed).Elem().Interface()
		doc, _ := json.Marshal(v)
		n, err := sonic.Get(doc)
		if err != nil {
			return "err"
		}
		raw, _ := n.Raw()
		return "ok:" + digest(raw)
	}
}

func apiMain(concurrent bool) {
	all := apiCalls()
	res := make([][]string, len(all))
	if concurrent {
		var wg sync.WaitGroup
		start := make(chan struct{})
		for g := range all {
			wg.Add(1)
			go func(g int) {
				defer wg.Done()
				<-start
				for _, c := range all[g] {
					res[g] = append(res[g], doAPI(c))
				}
			}(g)
		}
		close(start)
		wg.Wait()
	} else {
		for g := range all {
			for _, c := range all[g] {
				res[g] = append(res[g], doAPI(c))
			}
		}
	}
	var lines []string
	for g := range all {
		for i, c := range all[g] {
			lines = append(lines, fmt.Sprintf("%d\t%d\top%d\tt%d\tw%d\ts%d\t%s", g, i, c.op, c.t, c.w, c.seed, res[g][i]))
		}
	}
	sort.Strings(lines)
	f, err := os.Create(*outp)
	if err != nil {
		panic(err)
	}
	for _, l := range lines {
		fmt.Fprintln(f, l)
	}
	f.Close()
}

type poolProbe struct {
	op   string
	n, k int
	seed uint64
}

func (p poolProbe) run() string {
	if p.op == "D" {
		return c09t.DepthProbe(p.n, p.k)
	}
	return c09t.Utf8Probe(p.k, p.seed)
}

func (p poolProbe) String() string {
	if p.op == "D" {
		return fmt.Sprintf("decode/validate a valid document nested %d deep (shape %d)", p.n, p.k)
	}
	return fmt.Sprintf("utf8/valid probe kind %d input %d", p.k, p.seed)
}

func poolMain() {
	r := rng.New(*seed ^ 0x9001)
	var probes []poolProbe
	for _, d := range []int{1, 2, 3, 5, 17, 50, 100, 1 + r.Intn(100), 1 + r.Intn(100)} {
		for _, k := range []int{0, 1, 2, 3, 4, 5} {
			if k == r.Intn(6) || d == 3 || d == 100 {
				probes = append(probes, poolProbe{"D", d, k, 0})
			}
		}
	}
	for k := 0; k < 6; k++ {
		for s := uint64(0); s < 7; s += 1 + r.U64()%3 {
			probes = append(probes, poolProbe{"V", 0, k, s})
		}
	}
	seen := make([]map[string]string, len(probes)) // result -> phase in which it was first seen
	for i := range seen {
		seen[i] = map[string]string{}
	}
	var mu sync.Mutex
	runProbes := func(phase string) {
		for i, p := range probes {
			res := func() (res string) {
				defer func() {
					if v := recover(); v != nil {
						res = fmt.Sprintf("PANIC:%v", v)
					}
				}()
				return p.run()
			}()
			mu.Lock()
			if _, ok := seen[i][res]; !ok {
				seen[i][res] = phase
			}
			mu.Unlock()
		}
	}
	runProbes("fresh")
	if *flood > 0 {
		// phase A: one goroutine, one kind of failing call after the other, probes in between
		for kind := 0; kind < c09t.NFloodKinds; kind++ {
			c09t.Flood(kind, *flood, 0, *seed+uint64(kind))
			runProbes(fmt.Sprintf("after %d sequential failing calls: %s", *flood, c09t.FloodKindName[kind]))
		}
		// phase B: flooders and probers at the same time
		var wg sync.WaitGroup
		stop := make(chan struct{})
		for w := 0; w < *gor; w++ {
			wg.Add(1)
			go func(w int) {
				defer wg.Done()
				c09t.Flood(7, *flood, 0, *seed+100+uint64(w))
			}(w)
		}
		var pw sync.WaitGroup
		for w := 0; w < 4; w++ {
			pw.Add(1)
			go func() {
				defer pw.Done()
				for {
					select {
					case <-stop:
						return
					default:
						runProbes(fmt.Sprintf("while %d goroutines issue failing calls", *gor))
					}
				}
			}()
		}
		wg.Wait()
		close(stop)
		pw.Wait()
		runProbes("after the concurrent phase")
	}
	f, err := os.Create(*outp)
	if err != nil {
		panic(err)
	}
	for i, p := range probes {
		var rs []string
		for res, ph := range seen[i] {
			rs = append(rs, res+" @ "+ph)
		}
		sort.Strings(rs)
		fmt.Fprintf(f, "%d\t%s\t%s\n", i, p, strings.Join(rs, " || "))
	}
	f.Close()
}

func main() {
	flag.Parse()
	switch *mode {
	case "cache":
		cacheMain()
	case "api":
		apiMain(true)
	case "apiseq":
		apiMain(false)
	case "pool":
		poolMain()
	default:
		os.Exit(2)
	}
}
