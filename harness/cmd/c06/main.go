// c06: returned data is caller-owned; buffers and inputs are never aliased or overrun.
//
//	-mode history  GOMAXPROCS=1, GC off (so sync.Pool reuse is deterministic): random histories of 1..200 encode/decode
//	               calls; every returned slice/string is snapshotted and re-compared after every later call
//	-mode into     encoder.EncodeInto with a buffer whose capacity ends exactly at a PROT_NONE page, for every capacity
//	               0..N and several prefixes; fault = overrun; output must equal the reference encoding
//	-mode alias    Unmarshal([]byte) / Get([]byte) / CopyString / StreamDecoder: overwrite the input afterwards and re-read
package main

import (
	"bytes"
	"encoding/json"
	"flag"
	"fmt"
	"math"
	"os"
	"reflect"
	"runtime"
	"runtime/debug"
	"sort"
	"strings"
	"sync"
	"syscall"
	"unsafe"

	"github.com/bytedance/sonic"
	"github.com/bytedance/sonic/ast"
	"github.com/bytedance/sonic/decoder"
	"github.com/bytedance/sonic/encoder"
	"github.com/bytedance/sonic/option"

	"verif/harness/internal/rng"
)

var (
	mode  = flag.String("mode", "history", "")
	seed  = flag.Uint64("seed", 1, "")
	n     = flag.Int("n", 200, "histories / capacities")
	outp  = flag.String("out", "/dev/stdout", "")
	tier  = flag.String("tier", "quick", "")
	limit = flag.Uint("limit", 0, "set option.LimitBufferSize (0 = leave the default)")
	maxLen = flag.Int("maxlen", 200, "longest history")
)

type failure struct {
	Kind    string   `json:"kind"`
	Detail  string   `json:"detail"`
	History []string `json:"history,omitempty"`
	Seed    uint64   `json:"seed"`
	Index   int      `json:"index"`
}

type report struct {
	Evaluations int            `json:"evaluations"`
	Nontrivial  int            `json:"distinct_nontrivial"`
	Calls       int            `json:"calls"`
	Rechecks    int            `json:"snapshot_rechecks"`
	PerOp       map[string]int `json:"per_op"`
	Sizes       map[string]int `json:"output_sizes"`
	HistLens    map[string]int `json:"history_lengths"`
	Failures    []failure      `json:"failures"`
	Samples     []string       `json:"samples"`
}

var rep = report{PerOp: map[string]int{}, Sizes: map[string]int{}, HistLens: map[string]int{}}

func fail(kind, detail string, hist []string, sd uint64, idx int) {
	if len(rep.Failures) >= 20 {
		return
	}
	if len(detail) > 500 {
		detail = detail[:500]
	}
	h := hist
	if len(h) > 40 {
		h = append([]string{fmt.Sprintf("... %d earlier calls ...", len(h)-40)}, h[len(h)-40:]...)
	}
	rep.Failures = append(rep.Failures, failure{kind, detail, append([]string{}, h...), sd, idx})
}

func sizeClass(n int) string {
	lim := int(option.LimitBufferSize)
	switch {
	case n < 64:
		return "<64"
	case n < 4096:
		return "64..4095"
	case n == 4096:
		return "4096"
	case n <= lim:
		return "4097..limit"
	default:
		return ">limit"
	}
}

// ------------------------------------------------------------------ values of chosen output size

// `,string` fields: the x86 emitters write doubly quoted strings (`"\"\""` for the empty one) and quoted numbers
type StrOpt struct {
	S  string  `json:"s,string"`
	E  string  `json:"e,string"`
	I  int64   `json:"i,string"`
	U  uint8   `json:"u,string"`
	F  float64 `json:"f,string"`
	B  bool    `json:"b,string"`
	P  *string `json:"p,string"`
	N  json.Number `json:"n,string"`
}

type StrOne struct {
	S string `json:"s,string"`
}

type NanRec struct {
	S string   `json:"s"`
	F float64  `json:"f"`
	P *NanRec  `json:"p"`
	L []NanRec `json:"l"`
}

func nanRec() *NanRec {
	return &NanRec{S: "outer", F: 1, P: &NanRec{S: "inner", F: math.NaN()}, L: []NanRec{{S: "l", F: 2}}}
}

type Rec struct {
	A int               `json:"a"`
	S string            `json:"s"`
	L []int             `json:"l"`
	M map[string]string `json:"m"`
	B []byte            `json:"b"`
	H string            `json:"h"`
	P *Rec              `json:"p,omitempty"`
}

func mkValue(r *rng.R) (interface{}, string) {
	lim := int(option.LimitBufferSize)
	sizes := []int{0, 1, 10, 100, 1000, 4000, 4090, 4096, 4100, 5000, 8000, lim - 100, lim - 2, lim, lim + 1, lim + 100, 2 * lim}
	sz := sizes[r.Intn(len(sizes))]
	if r.Chance(1, 3) {
		sz = r.Intn(200)
	}
	if sz < 0 {
		sz = 0
	}
	fill := []string{"a", "<", "\"", "é", "\x01", "&x"}[r.Intn(6)]
	s := strings.Repeat(fill, sz/len(fill)+1)[:sz]
	switch r.Intn(6) {
	case 0:
		return s, fmt.Sprintf("string(%d,%q)", sz, fill)
	case 1:
		return &Rec{A: r.Intn(1000), S: s, L: []int{1, 2, 3}, M: map[string]string{"k": s[:len(s)/2]}, H: "<&>"}, fmt.Sprintf("Rec(%d,%q)", sz, fill)
	case 2:
		l := make([]int, sz/4)
		for i := range l {
			l[i] = i * 7
		}
		return l, fmt.Sprintf("[]int(%d)", len(l))
	case 3:
		return map[string]interface{}{"x": s, "y": []interface{}{1.5, nil, true, s[:len(s)/3]}}, fmt.Sprintf("map(%d,%q)", sz, fill)
	case 4:
		return []byte(s), fmt.Sprintf("[]byte(%d)", sz)
	default:
		return []interface{}{s, &Rec{S: s[:len(s)/2], P: &Rec{S: "inner"}}}, fmt.Sprintf("mixed(%d,%q)", sz, fill)
	}
}

// ------------------------------------------------------------------ history

type kept struct {
	op   string
	live []byte // what the API returned (same backing memory)
	snap []byte // private copy taken right after the call
	str  string // for string results
	sstr string
}

func runHistory(sd uint64, idx int) {
	r := rng.New(sd)
	length := 1 + r.Intn(*maxLen)
	if r.Chance(1, 3) {
		length = 1 + r.Intn(12)
	}
	switch {
	case length <= 10:
		rep.HistLens["1-10"]++
	case length <= 50:
		rep.HistLens["11-50"]++
	default:
		rep.HistLens["51-200"]++
	}
	var hist []string
	var keep []kept
	check := func() bool {
		for _, k := range keep {
			rep.Rechecks++
			if k.live != nil && !bytes.Equal(k.live, k.snap) {
				fail("result-changed", fmt.Sprintf("the %d bytes returned by %s changed after later calls: first difference at %d", len(k.snap), k.op, firstDiff(k.live, k.snap)), hist, sd, idx)
				return false
			}
			if k.str != "" && k.str != k.sstr {
				fail("result-changed", fmt.Sprintf("the string returned by %s changed after later calls", k.op), hist, sd, idx)
				return false
			}
		}
		return true
	}
	for i := 0; i < length; i++ {
		v, desc := mkValue(r)
		var out []byte
		var err error
		var op string
		switch r.Intn(12) {
		case 0:
			op = "sonic.Marshal"
			out, err = sonic.Marshal(v)
		case 1:
			op = "ConfigStd.Marshal"
			out, err = sonic.ConfigStd.Marshal(v)
		case 2:
			op = "sonic.MarshalString"
			var s string
			s, err = sonic.MarshalString(v)
			if err == nil {
				keep = append(keep, kept{op: op + " " + desc, str: s, sstr: string(append([]byte{}, s...))})
			}
		case 3:
			op = "sonic.MarshalIndent"
			if len(desc) < 20 {
				out, err = sonic.MarshalIndent(v, "", " ")
			}
		case 4:
			o := []encoder.Options{0, encoder.EscapeHTML, encoder.ValidateString, encoder.EscapeHTML | encoder.ValidateString | encoder.SortMapKeys, encoder.CompactMarshaler}[r.Intn(5)]
			op = fmt.Sprintf("encoder.Encode[%#x]", uint64(o))
			out, err = encoder.Encode(v, o)
		case 5:
			op = "encoder.EncodeInto"
			buf := make([]byte, r.Intn(8), r.Intn(6000)+8)
			pre := append([]byte{}, buf...)
			err = encoder.EncodeInto(&buf, v, encoder.Options(r.Intn(2))*encoder.EscapeHTML)
			if err == nil && !bytes.HasPrefix(buf, pre) {
				fail("prefix-lost", "EncodeInto changed the bytes already in the caller's buffer", hist, sd, idx)
			}
			out = buf
		case 6:
			op = "ast.Node.MarshalJSON(loaded)"
			b, e := sonic.Marshal(v)
			if e == nil {
				nd := ast.NewRaw(string(b))
				if nd.LoadAll() == nil {
					out, err = nd.MarshalJSON()
				}
			}
		case 7:
			op = "ast.Node.MarshalJSON(raw)+Raw"
			b, e := sonic.Marshal(v)
			if e == nil {
				nd, e2 := sonic.Get(b)
				if e2 == nil {
					out, err = nd.MarshalJSON()
					if raw, e3 := nd.Raw(); e3 == nil {
						keep = append(keep, kept{op: "Node.Raw " + desc, str: raw, sstr: string(append([]byte{}, raw...))})
					}
					// the caller now reuses its buffer
					for j := range b {
						b[j] = 'X'
					}
				}
			}
		case 8:
			op = "StreamEncoder.Encode"
			var w bytes.Buffer
			se := encoder.NewStreamEncoder(&w)
			if r.Bool() {
				se.SetIndent("", " ")
			}
			err = se.Encode(v)
			out = w.Bytes()
		case 9:
			op = "encoder.EncodeIndented"
			out, err = encoder.EncodeIndented(v, "", "\t", 0)
		case 10:
			op = "sonic.Unmarshal([]byte)"
			b, e := sonic.Marshal(v)
			if e == nil {
				var x interface{}
				if sonic.Unmarshal(b, &x) == nil {
					d, _ := json.Marshal(x)
					keep = append(keep, kept{op: op + " " + desc, live: nil, str: "", sstr: ""})
					for j := range b {
						b[j] = 'Y'
					}
					d2, _ := json.Marshal(x)
					if !bytes.Equal(d, d2) {
						fail("input-aliased", "values decoded by Unmarshal([]byte) changed when the input buffer was overwritten", hist, sd, idx)
					}
				}
			}
		default:
			op = "StreamDecoder.Decode"
			b, e := sonic.Marshal(v)
			if e == nil {
				dec := decoder.NewStreamDecoder(bytes.NewReader(append(append([]byte{}, b...), b...)))
				var x, y interface{}
				if dec.Decode(&x) == nil {
					d, _ := json.Marshal(x)
					_ = dec.Decode(&y)
					d2, _ := json.Marshal(x)
					if !bytes.Equal(d, d2) {
						fail("result-changed", "the value of the first StreamDecoder.Decode changed during the second", hist, sd, idx)
					}
				}
			}
		}
		hist = append(hist, op+" "+desc)
		rep.Calls++
		rep.PerOp[strings.SplitN(op, "[", 2)[0]]++
		if err == nil && out != nil {
			rep.Sizes[sizeClass(len(out))]++
			keep = append(keep, kept{op: op + " " + desc, live: out, snap: append([]byte{}, out...)})
		}
		if !check() {
			return
		}
		if len(keep) > 60 {
			keep = keep[len(keep)-60:]
		}
		// bound the bytes re-compared after every call (outputs reach 2 x LimitBufferSize)
		tot := 0
		for j := len(keep) - 1; j >= 0; j-- {
			tot += len(keep[j].snap) + len(keep[j].sstr)
			if tot > 4<<20 && j < len(keep)-3 {
				keep = keep[j+1:]
				break
			}
		}
	}
}

func min(a, b int) int {
	if a < b {
		return a
	}
	return b
}

func firstDiff(a, b []byte) int {
	for i := range a {
		if i >= len(b) || a[i] != b[i] {
			return i
		}
	}
	return len(a)
}

// ------------------------------------------------------------------ EncodeInto at a guard page

const page = 4096

func runInto() {
	region, err := syscall.Mmap(-1, 0, 8*page, syscall.PROT_READ|syscall.PROT_WRITE, syscall.MAP_ANON|syscall.MAP_PRIVATE)
	if err != nil {
		panic(err)
	}
	if err := syscall.Mprotect(region[7*page:], syscall.PROT_NONE); err != nil {
		panic(err)
	}
	end := 7 * page
	debug.SetPanicOnFault(true)
	values := []interface{}{
		true, false, nil, 0, -1, 1234567890123, int8(-128), uint64(1<<64 - 1), int64(-1 << 63), 1.5, -2.2250738585072014e-308, float32(3.4028235e38),
		"", "a", "hello world", "with \"quotes\" and \\ and \n control \x01", "<script>&amp;</script>", strings.Repeat("x", 100), strings.Repeat("\x02", 40),
		[]int{}, []int{1, 2, 3}, []string{"a", "b"}, map[string]int{"k": 1}, map[string]interface{}{}, []byte("binary data!"), []byte{},
		json.Number("12345.678e9"), json.RawMessage(`{"raw":[1,2]}`), &Rec{A: 7, S: "s", L: []int{1}, M: map[string]string{"a": "b"}, B: []byte("xyz"), H: "<>"},
		[]interface{}{1, "a", nil, true, 2.5, []interface{}{}}, struct{}{}, [3]bool{true, false, true}, (*int)(nil),
		StrOne{""}, StrOne{"x"}, &StrOne{"with \"quote\" and \\"}, []StrOne{{""}, {""}, {"a"}}, map[string]StrOne{"k": {""}},
		StrOpt{S: "", E: "e", I: -1 << 63, U: 255, F: -2.5e-300, B: true, N: "12"}, &StrOpt{S: "nonempty", E: "", P: new(string), N: "0"},
		&Rec{A: 1, S: "nan inside", P: &Rec{M: map[string]string{"k": "v"}, P: &Rec{S: "deep"}}}, nanRec(), []interface{}{"x", math.NaN()}, map[string]interface{}{"a": []float64{1, math.Inf(1)}},
		struct {
			A int8
			B uint16
			C int32
			D uint32
			E float32
			F bool
			G string
			H *string
		}{-128, 65535, -2147483648, 4294967295, 1e-10, true, "é ", nil},
	}
	opts := []encoder.Options{0, encoder.EscapeHTML, encoder.SortMapKeys | encoder.ValidateString, encoder.NoNullSliceOrMap | encoder.NoQuoteTextMarshaler}
	maxCap := *n
	for vi, v := range values {
		for _, o := range opts {
			ref, rerr := encoder.Encode(v, o)
			for c := 0; c <= maxCap; c++ {
				for _, pre := range []int{0, 1, 3} {
					if pre > c {
						continue
					}
					rep.Evaluations++
					// the buffer: [end-c, end) with len = pre
					for i := end - c - 64; i < end; i++ {
						if i >= 0 {
							region[i] = 0xEE
						}
					}
					var buf []byte
					h := (*reflect.SliceHeader)(unsafe.Pointer(&buf))
					h.Data, h.Len, h.Cap = uintptr(unsafe.Pointer(&region[0]))+uintptr(end-c), pre, c
					for i := 0; i < pre; i++ {
						buf[i] = byte('p' + i)
					}
					var e2 error
					fault := false
					func() {
						defer func() {
							if r := recover(); r != nil {
								if _, ok := r.(interface{ Addr() uintptr }); ok {
									fault = true
								} else {
									panic(r)
								}
							}
						}()
						e2 = encoder.EncodeInto(&buf, v, o)
					}()
					desc := fmt.Sprintf("value #%d (%T) opts %#x cap %d len %d", vi, v, uint64(o), c, pre)
					if fault {
						fail("overrun", "EncodeInto wrote behind the capacity of the caller's buffer (fault at the guard page): "+desc, nil, *seed, c)
						continue
					}
					if (e2 == nil) != (rerr == nil) {
						fail("cap-dependent", fmt.Sprintf("error depends on the buffer: %v vs %v: %s", e2, rerr, desc), nil, *seed, c)
						continue
					}
					if e2 != nil {
						// regression (fixed e30143c): after a failed encode the caller's slice header must still be sane
						hh := (*reflect.SliceHeader)(unsafe.Pointer(&buf))
						if hh.Len > hh.Cap || hh.Len < 0 {
							fail("corrupt-header", fmt.Sprintf("after an EncodeInto error len(buf)=%d (%#x) cap(buf)=%d: %s", hh.Len, uint64(hh.Len), hh.Cap, desc), nil, *seed, c)
							hh.Len = 0
						} else if k := min(len(buf), pre); !bytes.Equal(buf[:k], []byte("pqrs"[:k])) {
							fail("prefix-lost", "after an EncodeInto error the bytes that were already in the caller's buffer changed: "+desc, nil, *seed, c)
						}
						continue
					}
					want := append([]byte("pqrs"[:pre]), ref...)
					if !bytes.Equal(buf, want) {
						fail("cap-dependent", fmt.Sprintf("output differs from the reference at byte %d: %s", firstDiff(buf, want), desc), nil, *seed, c)
					}
					// the bytes in front of the buffer must be untouched
					for i := end - c - 64; i < end-c; i++ {
						if i >= 0 && region[i] != 0xEE {
							fail("underrun", "bytes in front of the caller's buffer were modified: "+desc, nil, *seed, c)
							break
						}
					}
				}
			}
		}
	}
	rep.Nontrivial = len(values) * len(opts) * maxCap
}

// ------------------------------------------------------------------ decode aliasing

type Dst struct {
	A string            `json:"a"`
	L []string          `json:"l"`
	M map[string]string `json:"m"`
	I interface{}       `json:"i"`
	R json.RawMessage   `json:"r"`
	N json.Number       `json:"n"`
	B []byte            `json:"b"`
}

func clip(s string, at int) string {
	lo, hi := at-12, at+20
	if lo < 0 {
		lo = 0
	}
	if hi > len(s) {
		hi = len(s)
	}
	if lo > hi {
		lo = hi
	}
	return s[lo:hi]
}

func fieldDump(d Dst) map[string]string {
	m := map[string]string{}
	v := reflect.ValueOf(d)
	for i := 0; i < v.NumField(); i++ {
		b, _ := json.Marshal(v.Field(i).Interface())
		if v.Type().Field(i).Name == "N" {
			b = []byte(string(d.N))
		}
		m[v.Type().Field(i).Name] = string(b)
	}
	return m
}

func runAlias() {
	r := rng.New(*seed)
	for i := 0; i < *n; i++ {
		k := 1 + r.Intn(300)
		s := strings.Repeat([]string{"a", "é", "x\\n", "\\u00e9"}[r.Intn(4)], k)
		doc := fmt.Sprintf(`{"a":"%s","l":["%s","k%d"],"m":{"key%d":"%s"},"i":{"s":"%s","arr":["%s"]},"r":{"raw":"%s"},"n":%d,"b":"aGVsbG8="}`,
			s, s, i, i, s, s, s, s, r.Intn(1000000))
		rep.Evaluations++
		overwrite := func(b []byte) {
			for j := range b {
				b[j] = 'Z'
			}
		}
		dump := func(v interface{}) string { b, _ := json.Marshal(v); return string(b) }
		// 1. Unmarshal([]byte) into a struct and into interface{}
		for _, mk := range []func() interface{}{func() interface{} { return new(Dst) }, func() interface{} { return new(interface{}) }, func() interface{} { return new(map[string]interface{}) }} {
			in := []byte(doc)
			dst := mk()
			if err := sonic.Unmarshal(in, dst); err != nil {
				fail("harness", "document rejected: "+err.Error(), nil, *seed, i)
				continue
			}
			before := dump(dst)
			overwrite(in)
			if after := dump(dst); after != before {
				fail("input-aliased", fmt.Sprintf("sonic.Unmarshal([]byte) into %T: decoded values changed when the input was overwritten", dst), nil, *seed, i)
			}
			rep.Calls++
		}
		// 2. the frozen configs
		for name, api := range map[string]sonic.API{"ConfigStd": sonic.ConfigStd, "ConfigFastest": sonic.ConfigFastest, "ConfigDefault": sonic.ConfigDefault} {
			in := []byte(doc)
			var dst Dst
			if api.Unmarshal(in, &dst) == nil {
				before := dump(dst)
				overwrite(in)
				if dump(dst) != before {
					fail("input-aliased", name+".Unmarshal([]byte): decoded values changed when the input was overwritten", nil, *seed, i)
				}
			}
			rep.Calls++
		}
		// 2b. every Config combination that changes how strings / numbers are stored, over destinations holding every
		// string-like kind (string, json.Number, RawMessage, map keys, []byte, interface{} at value positions)
		for bits := 0; bits < 16; bits++ {
			cfg := sonic.Config{CopyString: bits&1 != 0, UseNumber: bits&2 != 0, UseInt64: bits&4 != 0, ValidateString: bits&8 != 0}
			if cfg.UseNumber && cfg.UseInt64 {
				continue // Decoder.SetOptions documents a panic for this pair
			}
			api := cfg.Froze()
			doc2 := fmt.Sprintf(`{"a":"%s","l":["%s"],"m":{"key%d%s":"%s"},"i":{"s":"%s","num":%d.5e1,"int":%d,"arr":["%s",%d],"k%s":null},"r":{"raw":["%s",%d]},"n":%d,"b":"aGVsbG8=","big":123456789012345678901234567890}`,
				s, s, i, "q", s, s, i+1, i+7, s, i+3, "w", s, i, r.Intn(1000000))
			for di, mk := range []func() interface{}{
				func() interface{} { return new(Dst) },
				func() interface{} { return new(interface{}) },
				func() interface{} { return new(map[string]interface{}) },
				func() interface{} { return new(map[string]json.RawMessage) },
				func() interface{} { return new(map[string]json.Number) },
				func() interface{} { return new([]interface{}) },
			} {
				d2 := doc2
				if di == 4 {
					d2 = fmt.Sprintf(`{"k%d":%d,"x%s":1.25e%d,"big":123456789012345678901234567890}`, i, i+11, "y", i%30)
				}
				if di == 5 {
					d2 = fmt.Sprintf(`[%d,"%s",{"k%d":%d.75},1e%d,[%d,"z%d"]]`, i+5, s, i, i, i%25, i*3+1, i)
				}
				in := []byte(d2)
				dst := mk()
				if err := api.Unmarshal(in, dst); err != nil {
					continue
				}
				before := dump(dst)
				overwrite(in)
				if after := dump(dst); after != before {
					fail("input-aliased", fmt.Sprintf("Config%+v.Unmarshal([]byte) into %T: decoded values changed when the input buffer was overwritten (first difference at %d: %q -> %q)",
						cfg, dst, firstDiff([]byte(after), []byte(before)), clip(before, firstDiff([]byte(after), []byte(before))), clip(after, firstDiff([]byte(after), []byte(before)))), nil, *seed, i)
				}
				rep.Calls++
			}
			// Get([]byte) with every path kind: the node and everything loaded from it must own its bytes
			for _, path := range [][]interface{}{{}, {"i"}, {"i", "s"}, {"i", "num"}, {"r"}, {"l", 0}, {"big"}} {
				if bits != 0 {
					break // Get is not configurable
				}
				in := []byte(doc2)
				nd, err := sonic.Get(in, path...)
				if err != nil {
					continue
				}
				nd2, _ := sonic.Get(in, path...) // a second node for the loaded view (Raw() of a loaded node is re-encoded)
				raw1, _ := nd.Raw()
				raw1c := string(append([]byte{}, raw1...))
				iv1, _ := nd2.Interface()
				nv1, _ := nd2.InterfaceUseNumber()
				b1 := dump([]interface{}{iv1, nv1})
				overwrite(in)
				raw2, _ := nd.Raw()
				iv2, _ := nd2.Interface()
				nv2, _ := nd2.InterfaceUseNumber()
				if raw1 != raw1c || raw2 != raw1c || dump([]interface{}{iv1, nv1}) != b1 || dump([]interface{}{iv2, nv2}) != b1 {
					fail("input-aliased", fmt.Sprintf("sonic.Get([]byte, %v): Raw()/Interface() of the node changed when the input buffer was overwritten", path), nil, *seed, i)
				}
				rep.Calls++
			}
		}
		// 3. sonic.Get([]byte): the node must own its bytes
		{
			in := []byte(doc)
			nd, err := sonic.Get(in, "i", "s")
			if err == nil {
				s1, _ := nd.String()
				r1, _ := nd.Raw()
				s1c, r1c := string(append([]byte{}, s1...)), string(append([]byte{}, r1...))
				overwrite(in)
				s2, _ := nd.String()
				r2, _ := nd.Raw()
				if s1 != s1c || r1 != r1c || s2 != s1c || r2 != r1c {
					fail("input-aliased", "sonic.Get([]byte): String()/Raw() of the node changed when the input was overwritten", nil, *seed, i)
				}
			}
			rep.Calls++
		}
		// 4. decoder with CopyString on a string that shares memory with a mutable buffer
		{
			in := []byte(doc)
			var str string
			h := (*reflect.StringHeader)(unsafe.Pointer(&str))
			h.Data, h.Len = uintptr(unsafe.Pointer(&in[0])), len(in)
			d := decoder.NewDecoder(str)
			d.CopyString()
			var dst Dst
			if d.Decode(&dst) == nil {
				before := fieldDump(dst)
				overwrite(in)
				after := fieldDump(dst)
				var changed []string
				for k, v := range before {
					if after[k] != v {
						changed = append(changed, k)
					}
				}
				sort.Strings(changed)
				if len(changed) > 0 {
					fail("input-aliased", "Decoder with CopyString: fields ["+strings.Join(changed, ",")+"] changed when the input memory was overwritten", nil, *seed, i)
				}
			}
			runtime.KeepAlive(in)
			rep.Calls++
		}
		// 5. StreamDecoder: values must survive later reads into the same internal buffer
		{
			docs := doc + "\n" + strings.Repeat(`{"a":"`+strings.Repeat("Q", k)+`"}`+"\n", 3)
			dec := decoder.NewStreamDecoder(strings.NewReader(docs))
			var first Dst
			if dec.Decode(&first) == nil {
				before := dump(first)
				for j := 0; j < 3; j++ {
					var x Dst
					_ = dec.Decode(&x)
				}
				if dump(first) != before {
					fail("result-changed", "StreamDecoder: the first decoded value changed while later values were decoded", nil, *seed, i)
				}
			}
			rep.Calls++
		}
	}
	rep.Nontrivial = *n
}

// ------------------------------------------------------------------ concurrent stress: results must equal their sequential reference

func runRace() {
	runtime.GOMAXPROCS(4)
	r := rng.New(*seed)
	type job struct {
		v    interface{}
		desc string
		ref  []byte
		aref []byte
	}
	var jobs []job
	for i := 0; i < 48; i++ {
		v, desc := mkValue(r)
		ref, err := sonic.ConfigStd.Marshal(v) // sorted map keys: the reference is deterministic
		if err != nil || len(ref) > 1<<16 {
			continue
		}
		nd := ast.NewRaw(string(ref))
		if nd.LoadAll() != nil {
			continue
		}
		aref, err := nd.MarshalJSON()
		if err != nil {
			continue
		}
		jobs = append(jobs, job{v, desc, ref, aref})
	}
	var bad int64
	var mu sync.Mutex
	var wg sync.WaitGroup
	for g := 0; g < 8; g++ {
		wg.Add(1)
		go func(g int) {
			defer wg.Done()
			rr := rng.New(*seed + uint64(g)*7919)
			var held [][2][]byte
			for it := 0; it < *n; it++ {
				j := jobs[rr.Intn(len(jobs))]
				var out []byte
				var err error
				op := "sonic.Marshal"
				if rr.Bool() {
					out, err = sonic.ConfigStd.Marshal(j.v)
				} else {
					op = "ast.Node.MarshalJSON(loaded)"
					n2 := ast.NewRaw(string(j.ref))
					if n2.LoadAll() == nil {
						out, err = n2.MarshalJSON()
					}
				}
				if err != nil || out == nil {
					continue
				}
				want := j.ref
				if op != "sonic.Marshal" {
					want = j.aref
				}
				if !bytes.Equal(out, want) {
					mu.Lock()
					bad++
					fail("concurrent-corruption", fmt.Sprintf("%s of %s returned bytes that differ from the sequential reference at %d (another goroutine wrote into the buffer)", op, j.desc, firstDiff(out, want)), nil, *seed, it)
					mu.Unlock()
				}
				held = append(held, [2][]byte{out, append([]byte{}, out...)})
				if len(held) > 16 {
					held = held[1:]
				}
				for _, h := range held {
					if !bytes.Equal(h[0], h[1]) {
						mu.Lock()
						bad++
						fail("result-changed", op+": a result held by one goroutine was modified by calls of another goroutine", nil, *seed, it)
						mu.Unlock()
						held = nil
						break
					}
				}
				// valid JSON at all times (a torn copy is usually not)
				if !json.Valid(out) {
					mu.Lock()
					fail("concurrent-corruption", op+" of "+j.desc+" returned invalid JSON under concurrency", nil, *seed, it)
					mu.Unlock()
				}
			}
		}(g)
	}
	wg.Wait()
	rep.Evaluations = 8 * *n
	rep.Nontrivial = len(jobs)
	rep.Calls = 8 * *n
}

func main() {
	flag.Parse()
	if *limit != 0 {
		option.LimitBufferSize = *limit
	}
	switch *mode {
	case "history":
		runtime.GOMAXPROCS(1)
		debug.SetGCPercent(-1)
		for i := 0; i < *n; i++ {
			rep.Evaluations++
			runHistory(*seed*1000003+uint64(i), i)
			if i%20 == 19 || option.LimitBufferSize > 1<<16 {
				runtime.GC() // empties the pools: histories also start from a cold state (and bounds the heap when outputs are MBs)
			}
		}
		rep.Nontrivial = *n
	case "into":
		runInto()
	case "alias":
		runAlias()
	case "race":
		runRace()
	default:
		fmt.Fprintln(os.Stderr, "unknown mode")
		os.Exit(2)
	}
	b, _ := json.MarshalIndent(rep, "", " ")
	if err := os.WriteFile(*outp, b, 0o644); err != nil {
		panic(err)
	}
}
