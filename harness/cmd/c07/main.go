// c07: no input can crash, hang or panic the process, and every error value is usable.
//
//	-mode bounds  tie of Gen/PureFns.v: real SyntaxError.Description() (decoder + ast) and ParsingError.Message() on a
//	              grid of (size, pos) / codes; one line per case, compared with the extracted model by checks/C07.py
//	-mode fuzz    every public entry point on random bytes, mutated-valid documents, truncations at every offset,
//	              depths around the 4096 limits, cyclic Go values; every returned error is formatted and inspected.
//	              The case being run is written to -progress first, so a fatal crash is attributed to its input.
//	-mode deep    hostile nesting depths (1e5 .. 1e7) and 1e6-deep Go values, each in a CHILD process (-mode one);
//	              exit status / time-out / stderr signature are the observables
//	-mode one     run a single deep case in this process
package main

import (
	"bytes"
	"encoding/hex"
	"encoding/json"
	"flag"
	"fmt"
	"io"
	"math"
	"os"
	"os/exec"
	"reflect"
	"regexp"
	"runtime"
	"runtime/debug"
	"sort"
	"strconv"
	"strings"
	"time"
	"unicode/utf8"

	"github.com/bytedance/sonic"
	"github.com/bytedance/sonic/ast"
	"github.com/bytedance/sonic/decoder"
	"github.com/bytedance/sonic/encoder"
	"github.com/bytedance/sonic/option"
	"github.com/bytedance/sonic/verifx"

	"verif/harness/internal/jgen"
	"verif/harness/internal/out"
	"verif/harness/internal/rng"
)

var (
	mode     = flag.String("mode", "fuzz", "")
	seed     = flag.Uint64("seed", 1, "")
	n        = flag.Int("n", 2000, "")
	outp     = flag.String("out", "/dev/stdout", "")
	progress = flag.String("progress", "", "")
	caseSpec = flag.String("case", "", "entry:shape:depth for -mode one")
	tier     = flag.String("tier", "quick", "")
	replayIn = flag.String("input", "", "hex input for -mode fuzz -entry")
	replayEn = flag.String("entry", "", "run only this entry (with -input)")
	maxStack = flag.Int("maxstack", 1000000000, "goroutine stack limit in bytes (Go default on 64-bit: 1e9)")
	corpus   = flag.String("corpus", "", "directory of *.case files (entry TAB hex:<bytes> | nest:<shape>:<depth>), run first")
)

// ------------------------------------------------------------------ failures

type failure struct {
	Entry  string `json:"entry"`
	Kind   string `json:"kind"` // panic | error-panic | pos-outside | msg-unbounded | no-progress | slow | bad-code
	Input  string `json:"input_hex"`
	Detail string `json:"detail"`
	Pos    int    `json:"pos"`
	Len    int    `json:"len"`
	Code   uint64 `json:"code"`
	Msg    string `json:"msg"`
	Depth  int    `json:"nest_depth"` // maximal bracket depth of the input (outside strings)
	Trunc  bool   `json:"truncated"`  // encoding/json: "unexpected end of JSON input" (the input is a proper prefix of a document, or blank)
}

func nestDepth(in []byte) int {
	d, max, str, esc := 0, 0, false, false
	for _, c := range in {
		switch {
		case esc:
			esc = false
		case str:
			if c == '\\' {
				esc = true
			} else if c == '"' {
				str = false
			}
		case c == '"':
			str = true
		case c == '[' || c == '{':
			d++
			if d > max {
				max = d
			}
		case c == ']' || c == '}':
			d--
		}
	}
	return max
}

func truncated(in []byte) bool {
	if len(in) > 1<<20 {
		return false
	}
	var v interface{}
	err := json.Unmarshal(in, &v)
	if err != nil && strings.Contains(err.Error(), "unexpected end of JSON input") {
		return true
	}
	// ... or the input ends inside a string / an open container (encoding/json may complain about something earlier)
	d, str, esc := 0, false, false
	for _, c := range in {
		switch {
		case esc:
			esc = false
		case str:
			if c == '\\' {
				esc = true
			} else if c == '"' {
				str = false
			}
		case c == '"':
			str = true
		case c == '[' || c == '{':
			d++
		case c == ']' || c == '}':
			d--
		}
	}
	return err != nil && (str || d > 0)
}

type report struct {
	Evaluations  int            `json:"evaluations"`
	Nontrivial   int            `json:"distinct_nontrivial"`
	PerEntry     map[string]int `json:"per_entry"`
	PerGen       map[string]int `json:"per_generator"`
	Errors       map[string]int `json:"error_types"`
	Accepted     int            `json:"accepted"`
	Rejected     int            `json:"rejected"`
	ErrorsFormat int            `json:"errors_formatted"`
	MaxOvershoot int            `json:"max_pos_beyond_len"`
	MaxOverCase  string         `json:"max_pos_beyond_len_case"`
	MaxErrLen    int            `json:"max_error_len"`
	Sizes        map[string]int `json:"input_sizes"`
	Failures     []failure      `json:"failures"`
	Samples      []string       `json:"samples"`
	FailCount    map[string]int `json:"failure_kinds"`
}

var rep = report{PerEntry: map[string]int{}, PerGen: map[string]int{}, Errors: map[string]int{}, Sizes: map[string]int{}, FailCount: map[string]int{}}
var seenCase = map[string]bool{}

func fail(entry, kind string, in []byte, detail string, pos, ln int, code uint64, msg string) {
	key := entry + "|" + kind + "|" + detailClass(detail)
	rep.FailCount[entry+"|"+kind]++
	if cnt := rep.FailCount["#"+key]; cnt >= 3 {
		return
	}
	rep.FailCount["#"+key]++
	if len(msg) > 300 {
		msg = msg[:300]
	}
	if len(detail) > 600 {
		detail = detail[:600]
	}
	h := hex.EncodeToString(in)
	if len(in) > 4096 {
		h = fmt.Sprintf("len=%d prefix=%s", len(in), hex.EncodeToString(in[:64]))
	}
	rep.Failures = append(rep.Failures, failure{entry, kind, h, detail, pos, ln, code, msg, nestDepth(in), truncated(in)})
}

var reNum = regexp.MustCompile(`[0-9]+`)

func detailClass(d string) string {
	if len(d) > 40 {
		d = d[:40]
	}
	return reNum.ReplaceAllString(d, "N")
}

// ------------------------------------------------------------------ error inspection

var reIndex = regexp.MustCompile(`at index (-?[0-9]+)`)

// inspect formats the error (Error and, where present, Description) and checks that it returns, is bounded and
// that the reported position lies inside the input.
func inspect(entry string, in []byte, err error) {
	if err == nil {
		return
	}
	rep.ErrorsFormat++
	rep.Errors[fmt.Sprintf("%T", err)]++
	// a *json.UnsupportedValueError is only ever built by sonic as {Str: "Value nesting too deep", Value: "..."} (decoders)
	// or by the encoder for NaN/Inf; look at the header BEFORE formatting it: a corrupted header makes Error() read
	// arbitrary memory (fatal, not recoverable)
	if e, ok := err.(*json.UnsupportedValueError); ok && strings.Contains(entry, "nmarshal") || ok && strings.Contains(entry, "ecode") {
		if len(e.Str) != len("Value nesting too deep") || e.Value.Kind() != reflect.String {
			fail(entry, "corrupt-error", in, fmt.Sprintf("*json.UnsupportedValueError with a corrupted header: len(Str)=%d Value.Kind=%v (expected Str=\"Value nesting too deep\"); Error() was NOT called", len(e.Str), e.Value.Kind()), 0, len(in), 0, "")
			return
		}
	}
	var msg, desc string
	var hasDesc bool
	func() {
		defer func() {
			if r := recover(); r != nil {
				fail(entry, "error-panic", in, fmt.Sprintf("%T.Error()/Description() panicked: %v", err, r), 0, len(in), 0, "")
				msg = "<panic>"
			}
		}()
		t0 := time.Now()
		msg = err.Error()
		if d, ok := err.(interface{ Description() string }); ok {
			desc = d.Description()
			hasDesc = true
		}
		if el := time.Since(t0); el > 2*time.Second {
			fail(entry, "slow", in, fmt.Sprintf("formatting the error took %v", el), 0, len(in), 0, "")
		}
	}()
	if msg == "<panic>" {
		return
	}
	if len(msg) > rep.MaxErrLen {
		rep.MaxErrLen = len(msg)
	}
	pos, srcLen, have := 0, len(in), false
	inside := true
	var code uint64
	switch e := err.(type) {
	case decoder.SyntaxError:
		pos, srcLen, have = e.Pos, len(e.Src), true
		code = uint64(e.Code)
	case *decoder.SyntaxError:
		pos, srcLen, have = e.Pos, len(e.Src), true
		code = uint64(e.Code)
	case *decoder.MismatchTypeError:
		pos, srcLen, have = e.Pos, len(e.Src), true
		if pos < 0 || pos >= srcLen {
			fail(entry, "pos-outside", in, "MismatchTypeError.Pos is not the index of a byte of Src", pos, srcLen, 9, msg)
		}
	case ast.SyntaxError:
		pos, srcLen, have = e.Pos, len(e.Src), true
		code = uint64(e.Code)
	case *ast.SyntaxError:
		pos, srcLen, have = e.Pos, len(e.Src), true
		code = uint64(e.Code)
	default:
		if m := reIndex.FindStringSubmatch(msg); m != nil && (strings.Contains(msg, "Syntax error") || strings.Contains(msg, "Mismatch")) {
			pos, _ = strconv.Atoi(m[1])
			have = true
		}
	}
	if have {
		inside = pos >= 0 && pos < srcLen
		if srcLen > 3*len(in) {
			// (invalid UTF-8 is repaired in a private copy, up to 3 bytes per bad byte)
			fail(entry, "pos-outside", in, "the error quotes a source longer than 3x the input", pos, srcLen, code, msg)
		}
		if pos < 0 || pos > srcLen {
			if pos-srcLen > rep.MaxOvershoot {
				rep.MaxOvershoot = pos - srcLen
				rep.MaxOverCase = fmt.Sprintf("%s pos=%d len=%d code=%d input=%q", entry, pos, srcLen, code, in[:min(len(in), 200)])
			}
			fail(entry, "pos-outside", in, fmt.Sprintf("position %d outside [0,%d]", pos, srcLen), pos, srcLen, code, msg)
		}
		if code >= 1<<63 || (code > 10 && code != 33 && code != 34) {
			fail(entry, "bad-code", in, fmt.Sprintf("unexpected ParsingError code %d", code), pos, srcLen, code, msg)
		}
	}
	// bounded message: a constant plus at most 65 bytes of excerpt
	bound := 4*(256+65) + 2
	if hasDesc && len(desc) > 256+65 || len(msg) > bound {
		kind := "msg-unbounded"
		d := fmt.Sprintf("len(Error())=%d len(Description())=%d for an input of %d bytes (inside=%v)", len(msg), len(desc), len(in), inside)
		if len(msg) > 4*(len(in)+512)+2 {
			d = "message longer than 4*(len(input)+512): " + d
			kind = "msg-superlinear"
		}
		fail(entry, kind, in, d, pos, srcLen, code, msg)
	}
}

// guard runs one API call; a recovered panic is a failure of the property ("failures are ordinary error values")
func guard(entry string, in []byte, f func()) {
	defer func() {
		if r := recover(); r != nil {
			st := string(debug.Stack())
			if i := strings.Index(st, "panic("); i >= 0 {
				st = st[i:]
			}
			fail(entry, "panic", in, fmt.Sprintf("panic: %v\n%s", r, st), 0, len(in), 0, "")
		}
	}()
	t0 := time.Now()
	f()
	if el := time.Since(t0); el > 5*time.Second {
		fail(entry, "slow", in, fmt.Sprintf("call took %v", el), 0, len(in), 0, "")
	}
}

// ------------------------------------------------------------------ destinations

type Inner struct {
	X int     `json:"x"`
	Y string  `json:"y"`
	Z float64 `json:"z,string"`
}

type Rec struct {
	A    int                    `json:"a"`
	B    string                 `json:"b"`
	C    []int                  `json:"c"`
	D    map[string]interface{} `json:"d"`
	E    *Rec                   `json:"e"`
	F    float64                `json:"f"`
	G    json.Number            `json:"g"`
	H    []byte                 `json:"h"`
	I    interface{}            `json:"i"`
	J    Inner                  `json:"j"`
	K    json.RawMessage        `json:"k"`
	L    []Rec                  `json:"l"`
	M    map[string]*Rec        `json:"m"`
	N    uint8                  `json:"n"`
	Name string                 `json:"name"`
	ID   int64                  `json:"id,string"`
	Key  bool                   `json:"key"`
	List [3]int                 `json:"list"`
	Obj  struct{ V *int }       `json:"obj"`
}

type Tree struct {
	A *Tree   `json:"a"`
	L []*Tree `json:"l"`
}

func dests() []func() interface{} {
	return []func() interface{}{
		func() interface{} { return new(interface{}) },
		func() interface{} { return new(Rec) },
		func() interface{} { return new([]int) },
		func() interface{} { return new(map[string]int) },
		func() interface{} { return new(map[string]interface{}) },
		func() interface{} { return new([]interface{}) },
		func() interface{} { return new(string) },
		func() interface{} { return new(float64) },
		func() interface{} { return new(int8) },
		func() interface{} { return new(json.Number) },
		func() interface{} { return new([]map[string][]Rec) },
		func() interface{} { return new(Tree) },
		func() interface{} { return new(json.RawMessage) },
		func() interface{} { return new(*[]*string) },
		func() interface{} { return new(bool) },
	}
}

var destNames = []string{"iface", "Rec", "[]int", "map[string]int", "map[string]iface", "[]iface", "string", "float64", "int8", "Number", "[]map[][]Rec", "Tree", "RawMessage", "**[]*string", "bool"}

// ------------------------------------------------------------------ visitor

type countVisitor struct {
	depth, max, events int
	skipAt            int
}

func (v *countVisitor) OnNull() error                           { v.events++; return nil }
func (v *countVisitor) OnBool(bool) error                       { v.events++; return nil }
func (v *countVisitor) OnString(string) error                   { v.events++; return nil }
func (v *countVisitor) OnInt64(int64, json.Number) error        { v.events++; return nil }
func (v *countVisitor) OnFloat64(float64, json.Number) error    { v.events++; return nil }
func (v *countVisitor) OnObjectKey(string) error                { v.events++; return nil }
func (v *countVisitor) OnObjectEnd() error                      { v.depth--; return nil }
func (v *countVisitor) OnArrayEnd() error                       { v.depth--; return nil }
func (v *countVisitor) begin() error {
	v.events++
	v.depth++
	if v.depth > v.max {
		v.max = v.depth
	}
	if v.skipAt > 0 && v.depth == v.skipAt {
		return ast.VisitOPSkip
	}
	return nil
}
func (v *countVisitor) OnObjectBegin(int) error { return v.begin() }
func (v *countVisitor) OnArrayBegin(int) error  { return v.begin() }

// ------------------------------------------------------------------ chunked reader

type chunkReader struct {
	b     []byte
	sizes []int
	i     int
}

func (c *chunkReader) Read(p []byte) (int, error) {
	if len(c.b) == 0 {
		return 0, io.EOF
	}
	k := 1
	if len(c.sizes) > 0 {
		k = c.sizes[c.i%len(c.sizes)]
		c.i++
	}
	if k > len(c.b) {
		k = len(c.b)
	}
	if k > len(p) {
		k = len(p)
	}
	if k == 0 && len(p) == 0 {
		return 0, nil
	}
	copy(p, c.b[:k])
	c.b = c.b[k:]
	return k, nil
}

// ------------------------------------------------------------------ entries

type entry struct {
	name string
	run  func(in []byte, r *rng.R)
}

func randPath(r *rng.R) []interface{} {
	var p []interface{}
	for k := r.Intn(4); k > 0; k-- {
		if r.Bool() {
			p = append(p, r.Intn(4))
		} else {
			p = append(p, []string{"a", "b", "c", "id", "name", "x", "", "k1", "list", "obj"}[r.Intn(10)])
		}
	}
	return p
}

func touchNode(entry string, in []byte, nd *ast.Node) {
	if nd == nil {
		return
	}
	if err := nd.Check(); err != nil {
		inspect(entry, in, err)
	}
	_ = nd.Error()
	if _, err := nd.Raw(); err != nil {
		inspect(entry, in, err)
	}
	if _, err := nd.Interface(); err != nil {
		inspect(entry, in, err)
	}
}

func entries() []entry {
	ds := dests()
	es := []entry{
		{"sonic.Valid", func(in []byte, r *rng.R) {
			a := sonic.Valid(in)
			b := sonic.ValidString(string(in))
			_, _ = a, b
			if a {
				rep.Accepted++
			} else {
				rep.Rejected++
			}
		}},
		{"sonic.Unmarshal", func(in []byte, r *rng.R) {
			k := r.Intn(len(ds))
			inspect("sonic.Unmarshal/"+destNames[k], in, sonic.Unmarshal(in, ds[k]()))
			k = r.Intn(len(ds))
			inspect("sonic.UnmarshalString/"+destNames[k], in, sonic.UnmarshalString(string(in), ds[k]()))
			if len(in) > 2000 {
				// the generic (interface{}) decoder has its own value stack: exactly-at-the-limit nesting with later members
				inspect("sonic.Unmarshal/iface", in, sonic.Unmarshal(in, new(interface{})))
				inspect("sonic.Unmarshal/map[string]iface", in, sonic.Unmarshal(in, new(map[string]interface{})))
				inspect("sonic.Unmarshal/[]iface", in, sonic.Unmarshal(in, new([]interface{})))
				inspect("sonic.Unmarshal/Rec", in, sonic.Unmarshal(in, new(Rec)))
				// regression (fixed 3291dcd): the stack-overflow error of a typed destination must have an intact header
				inspect("sonic.Unmarshal/Tree", in, sonic.Unmarshal(in, new(Tree)))
			}
			inspect("ConfigStd.Unmarshal/iface", in, sonic.ConfigStd.Unmarshal(in, new(interface{})))
			inspect("ConfigFastest.Unmarshal/Rec", in, sonic.ConfigFastest.Unmarshal(in, new(Rec)))
		}},
		{"decoder.Decode", func(in []byte, r *rng.R) {
			d := decoder.NewDecoder(string(in))
			var o decoder.Options
			for _, b := range []decoder.Options{decoder.OptionUseNumber, decoder.OptionDisableUnknown, decoder.OptionCopyString, decoder.OptionValidateString, decoder.OptionUseUnicodeErrors, decoder.OptionNoValidateJSON} {
				if r.Chance(1, 3) {
					o |= b
				}
			}
			if r.Chance(1, 4) {
				o |= decoder.OptionUseInt64 // never together with UseNumber: SetOptions documents a panic for that pair
				o &^= decoder.OptionUseNumber
			}
			d.SetOptions(o)
			k := r.Intn(len(ds))
			for i := 0; i < 3; i++ {
				err := d.Decode(ds[k]())
				inspect(fmt.Sprintf("decoder.Decode[%#x]/%s", uint64(o), destNames[k]), in, err)
				if err != nil {
					break
				}
				if p := d.Pos(); p < 0 || p > 3*len(in) || (p > len(in) && utf8.Valid(in)) {
					fail("decoder.Decode", "pos-outside", in, fmt.Sprintf("Decoder.Pos()=%d after success, len=%d", p, len(in)), p, len(in), 0, "")
				}
			}
			inspect("decoder.CheckTrailings", in, d.CheckTrailings())
			if len(in) < 64 {
				// regression (fixed c10a2da): second and later values of a Decoder into a json.Unmarshaler destination
				d2 := decoder.NewDecoder(string(in))
				for i := 0; i < 3; i++ {
					err := d2.Decode(new(json.RawMessage))
					inspect("decoder.Decode/RawMessage-seq", in, err)
					if err != nil {
						break
					}
				}
			}
		}},
		{"decoder.Skip", func(in []byte, r *rng.R) {
			s := string(in)
			st, err := decoder.Skip(in)
			_ = st
			_ = err
			_, _ = sonic.Get(in)
			_ = s
		}},
		{"sonic.Get", func(in []byte, r *rng.R) {
			p := randPath(r)
			nd, err := sonic.Get(in, p...)
			inspect("sonic.Get", in, err)
			if err == nil {
				touchNode("sonic.Get/node", in, &nd)
			}
			nd, err = sonic.GetFromString(string(in), randPath(r)...)
			inspect("sonic.GetFromString", in, err)
			if err == nil {
				touchNode("sonic.GetFromString/node", in, &nd)
			}
			nd, err = sonic.GetCopyFromString(string(in), randPath(r)...)
			inspect("sonic.GetCopyFromString", in, err)
		}},
		{"ast.Loads", func(in []byte, r *rng.R) {
			_, _, err := ast.Loads(string(in))
			inspect("ast.Loads", in, err)
			_, _, err = ast.LoadsUseNumber(string(in))
			inspect("ast.LoadsUseNumber", in, err)
		}},
		{"ast.Preorder", func(in []byte, r *rng.R) {
			v := &countVisitor{}
			if r.Chance(1, 4) {
				v.skipAt = 1 + r.Intn(3)
			}
			var o *ast.VisitorOptions
			if r.Bool() {
				o = &ast.VisitorOptions{OnlyNumber: r.Bool()}
			}
			inspect("ast.Preorder", in, ast.Preorder(string(in), v, o))
		}},
		{"ast.NewRaw", func(in []byte, r *rng.R) {
			nd := ast.NewRaw(string(in))
			switch r.Intn(6) {
			case 0:
				inspect("ast.NewRaw/Load", in, nd.Load())
			case 1:
				inspect("ast.NewRaw/LoadAll", in, nd.LoadAll())
			case 2:
				_, err := nd.MarshalJSON()
				inspect("ast.NewRaw/MarshalJSON", in, err)
			case 3:
				inspect("ast.NewRaw/LoadAll", in, nd.LoadAll())
				inspect("ast.NewRaw/SortKeys", in, nd.SortKeys(true))
				_, err := nd.MarshalJSON()
				inspect("ast.NewRaw/LoadAll+MarshalJSON", in, err)
			case 4:
				x := nd.GetByPath(randPath(r)...)
				touchNode("ast.NewRaw/GetByPath", in, x)
			default:
				_, err := nd.Interface()
				inspect("ast.NewRaw/Interface", in, err)
				_, err = nd.InterfaceUseNumber()
				inspect("ast.NewRaw/InterfaceUseNumber", in, err)
				_ = nd.ForEach(func(path ast.Sequence, node *ast.Node) bool { return true })
			}
			var n2 ast.Node
			inspect("ast.Node.UnmarshalJSON", in, n2.UnmarshalJSON(in))
			_, err := sonic.Marshal(&n2)
			inspect("sonic.Marshal(ast.Node)", in, err)
		}},
		{"ast.Searcher", func(in []byte, r *rng.R) {
			s := ast.NewSearcher(string(in))
			s.ConcurrentRead = r.Bool()
			s.CopyReturn = r.Bool()
			s.ValidateJSON = r.Bool()
			nd, err := s.GetByPath(randPath(r)...)
			inspect("ast.Searcher.GetByPath", in, err)
			if err == nil {
				touchNode("ast.Searcher/node", in, &nd)
			}
		}},
		{"ast.ConcurrentRead", func(in []byte, r *rng.R) {
			// call sequences on a NewRawConcurrentRead node, under a watchdog: a leaked lock shows as a call that never returns
			ops := make([]int, 2+r.Intn(6))
			for i := range ops {
				ops[i] = r.Intn(9)
			}
			paths := [][]interface{}{randPath(r), randPath(r)}
			done := make(chan string, 1)
			var trace []string
			go func() {
				defer func() {
					if x := recover(); x != nil {
						done <- fmt.Sprintf("panic: %v", x)
					}
				}()
				nd := ast.NewRawConcurrentRead(string(in))
				for _, op := range ops {
					switch op {
					case 0:
						trace = append(trace, "Raw")
						_, _ = nd.Raw()
					case 1:
						trace = append(trace, "Get")
						_ = nd.Get("a")
					case 2:
						trace = append(trace, "Index")
						_ = nd.Index(0)
					case 3:
						trace = append(trace, "Interface")
						_, _ = nd.Interface()
					case 4:
						trace = append(trace, "Len")
						_, _ = nd.Len()
					case 5:
						trace = append(trace, "GetByPath")
						x := nd.GetByPath(paths[0]...)
						_, _ = x.Raw()
					case 6:
						trace = append(trace, "MarshalJSON")
						_, _ = nd.MarshalJSON()
					case 7:
						trace = append(trace, "String/Int64/Bool")
						_, _ = nd.String()
						_, _ = nd.Int64()
						_, _ = nd.Bool()
					default:
						trace = append(trace, "Load+Check")
						_ = nd.Load()
						_ = nd.Check()
					}
				}
				done <- ""
			}()
			select {
			case msg := <-done:
				if msg != "" {
					fail("ast.ConcurrentRead", "panic", in, msg+" after "+strings.Join(trace, ","), 0, len(in), 0, "")
				}
			case <-time.After(4 * time.Second):
				fail("ast.ConcurrentRead", "hang", in, "a call on a NewRawConcurrentRead node did not return within 4 s; sequence so far: "+strings.Join(trace, ","), 0, len(in), 0, "")
			}
		}},
		{"ast.Parser", func(in []byte, r *rng.R) {
			p := ast.NewParser(string(in))
			nd, e := p.Parse()
			if e != 0 {
				inspect("ast.Parser.ExportError", in, p.ExportError(e))
				_ = e.Error()
				_ = e.Message()
			} else {
				touchNode("ast.Parser/node", in, &nd)
			}
			if q := p.Pos(); q < 0 || q > len(in)+4 {
				fail("ast.Parser", "pos-outside", in, fmt.Sprintf("Parser.Pos()=%d len=%d", q, len(in)), q, len(in), uint64(e), "")
			}
		}},
		{"stream.Decode", func(in []byte, r *rng.R) {
			var sizes []int
			for k := r.Intn(4); k > 0; k-- {
				sizes = append(sizes, 1+r.Intn(9))
			}
			if r.Chance(1, 3) {
				sizes = []int{len(in) + 1}
			}
			d := decoder.NewStreamDecoder(&chunkReader{b: append([]byte{}, in...), sizes: sizes})
			if r.Bool() {
				d.UseNumber()
			}
			k := r.Intn(len(ds))
			limit := len(in) + 8
			last := int64(-1)
			stuck := 0
			for i := 0; ; i++ {
				dst := ds[k]()
				err := d.Decode(dst)
				if err != nil {
					inspect("stream.Decode/"+destNames[k], in, err)
					// the error must be sticky and formatting it again must also work
					inspect("stream.Decode/again", in, d.Decode(dst))
					break
				}
				off := d.InputOffset()
				if off == last {
					stuck++
				} else {
					stuck = 0
				}
				last = off
				if stuck >= 3 || i > limit {
					next := "EOF"
					rest, _ := io.ReadAll(d.Buffered())
					for _, c := range rest {
						if c != ' ' && c != '\n' && c != '\t' && c != '\r' {
							next = fmt.Sprintf("%q", string(c))
							break
						}
					}
					fail("stream.Decode", "no-progress", in, fmt.Sprintf("next=%s Decode returned nil %d times, InputOffset stays at %d of %d bytes", next, i+1, off, len(in)), int(off), len(in), 0, "")
					break
				}
				_ = d.More()
				_, _ = io.Copy(io.Discard, d.Buffered())
			}
		}},
		{"encode", func(in []byte, r *rng.R) {
			var v interface{}
			if json.Unmarshal(in, &v) != nil {
				// not a document: encode the raw bytes / string in several guises
				v = map[string]interface{}{"s": string(in), "b": in, "raw": json.RawMessage(in), "n": json.Number(string(in))}
			}
			var o encoder.Options
			for _, b := range []encoder.Options{encoder.SortMapKeys, encoder.EscapeHTML, encoder.CompactMarshaler, encoder.NoQuoteTextMarshaler, encoder.NoNullSliceOrMap, encoder.ValidateString, encoder.NoValidateJSONMarshaler, encoder.NoEncoderNewline, encoder.EncodeNullForInfOrNan} {
				if r.Chance(1, 3) {
					o |= b
				}
			}
			_, err := encoder.Encode(v, o)
			inspect(fmt.Sprintf("encoder.Encode[%#x]", uint64(o)), in, err)
			_, err = sonic.Marshal(v)
			inspect("sonic.Marshal", in, err)
			if len(in) < 2000 { // the indented output of a deep document is quadratic in its depth
				_, err = sonic.MarshalIndent(v, string(in[:min(len(in), 3)]), "\t")
				inspect("sonic.MarshalIndent", in, err)
			}
			var w bytes.Buffer
			se := encoder.NewStreamEncoder(&w)
			se.SetEscapeHTML(r.Bool())
			inspect("stream.Encode", in, se.Encode(v))
			buf := make([]byte, 0, r.Intn(64))
			inspect("encoder.EncodeInto", in, encoder.EncodeInto(&buf, v, o))
			var rec Rec
			if sonic.Unmarshal(in, &rec) == nil {
				_, err = sonic.Marshal(&rec)
				inspect("sonic.Marshal/Rec", in, err)
			}
			ok, _ := encoder.Valid(in)
			_ = ok
		}},
	}
	return es
}

func max(a, b int) int {
	if a > b {
		return a
	}
	return b
}

func min(a, b int) int {
	if a < b {
		return a
	}
	return b
}

// ------------------------------------------------------------------ generators

type gen struct {
	name string
	f    func(r *rng.R) []byte
}

var valid = []string{
	`{"a":1,"b":"x","c":[1,2,3],"d":{"k":null},"e":{"a":2},"f":1.5e3,"g":12,"h":"aGk=","i":[true,false],"j":{"x":1,"y":"s","z":"1.5"},"k":[1],"l":[{"a":3}],"m":{"q":{"a":4}},"n":7,"name":"né😀\n","id":"42","key":true,"list":[1,2,3],"obj":{"V":5}}`,
	`[1,-2,3.25,1e10,"s\\\"",null,true,false,{"a":[{}]},[[[[]]]]]`,
	`"a long string with   and \"escapes\" and \t tabs \\ backslashes"`,
	`-0.000000000000000000000000000000000000001234567890123456789e-300`,
	` { "a" : { "b" : { "c" : [ 1 , { "id" : "x" } ] } } , "list" : [ [ ] , { } ] } `,
	`{"a":{"a":{"a":{"a":{"l":[{"a":null},{"l":[]}]}}}}}`,
	`18446744073709551616`, `9223372036854775808`, `-9223372036854775809`, `1e400`, `123456789012345678901234567890.5`,
	`{"a":"` + strings.Repeat("x", 70) + `","b":"` + strings.Repeat("\\n", 40) + `"}`,
	`[` + strings.Repeat(`{"k1":"v","k2":[1,2]},`, 20) + `0]`,
	"null", "true", "false", "0", `""`, "[]", "{}",
}

func nest(shape string, d int, closed bool) []byte {
	var b bytes.Buffer
	op, cl := "[", "]"
	switch shape {
	case "obj":
		op, cl = `{"a":`, "}"
	case "objl":
		op, cl = `{"l":[{"a":`, "}]}"
	case "mixed":
		op, cl = `[{"a":`, "}]"
	case "sib": // every level has an empty sibling container first
		op, cl = `[[],{},`, "]"
	case "sibobj":
		op, cl = `{"e":{},"f":[],"a":`, "}"
	case "objtail": // a later member after the deep value at every level
		op, cl = `{"a":`, `,"z":[1]}`
	case "arrtail":
		op, cl = `[`, `,{"z":1},2]`
	}
	n := d
	if shape == "mixed" || shape == "objl" {
		n = d / 2
	}
	b.Grow(n*(len(op)+len(cl)) + 2)
	for i := 0; i < n; i++ {
		b.WriteString(op)
	}
	if shape != "arr" {
		b.WriteString("1")
	} else if false {
		b.WriteString("")
	}
	if closed {
		for i := 0; i < n; i++ {
			b.WriteString(cl)
		}
	}
	return b.Bytes()
}

func gens() []gen {
	truncDoc, truncAt := 0, 0
	jo := jgen.Default
	return []gen{
		{"random-bytes", func(r *rng.R) []byte {
			b := make([]byte, r.Intn(40))
			for i := range b {
				b[i] = byte(r.U64())
			}
			return b
		}},
		{"random-json-alphabet", func(r *rng.R) []byte {
			const al = `{}[],:"\ tnfu0123456789-+.eE` + "\n\x00\x80\xff"
			b := make([]byte, r.Intn(48))
			for i := range b {
				b[i] = al[r.Intn(len(al))]
			}
			return b
		}},
		{"valid-doc", func(r *rng.R) []byte {
			if r.Bool() {
				return []byte(valid[r.Intn(len(valid))])
			}
			return []byte(jgen.Doc(r, &jo))
		}},
		{"mutated-valid", func(r *rng.R) []byte {
			var d string
			if r.Bool() {
				d = valid[r.Intn(len(valid))]
			} else {
				d = jgen.Doc(r, &jo)
			}
			for k := 1 + r.Intn(3); k > 0; k-- {
				d = jgen.Mutate(r, d)
			}
			return []byte(d)
		}},
		{"truncation-every-offset", func(r *rng.R) []byte {
			// deterministic sweep: every prefix of every fixed document, then random documents
			for truncDoc < len(valid) {
				d := valid[truncDoc]
				if truncAt < len(d) {
					truncAt++
					return []byte(d[:truncAt-1])
				}
				truncDoc++
				truncAt = 0
			}
			d := jgen.Doc(r, &jo)
			return []byte(d[:r.Intn(len(d)+1)])
		}},
		{"byte-flip", func(r *rng.R) []byte {
			d := []byte(valid[r.Intn(len(valid))])
			if len(d) > 0 {
				d[r.Intn(len(d))] ^= byte(1 << uint(r.Intn(8)))
			}
			return d
		}},
		{"stream-multi", func(r *rng.R) []byte {
			var b bytes.Buffer
			for k := r.Intn(5); k >= 0; k-- {
				b.WriteString(valid[r.Intn(len(valid))])
				b.WriteString([]string{" ", "\n", "", ",", "]", "}", " x", "\t\t"}[r.Intn(8)])
			}
			return b.Bytes()
		}},
		{"long-runs", func(r *rng.R) []byte {
			k := jgen.BlockLen(r) + 64*r.Intn(3)
			switch r.Intn(5) {
			case 0:
				return []byte(`"` + strings.Repeat("a", k))
			case 1:
				return []byte(strings.Repeat(" ", k) + `{"a"`)
			case 2:
				return []byte(`[` + strings.Repeat("1", k))
			case 3:
				return []byte(`{"a":"` + strings.Repeat(`\`, k) + `"}`)
			default:
				return []byte(`"` + strings.Repeat("\xf0\x9f", k) + `"`)
			}
		}},
		{"depth-limit", func(r *rng.R) []byte {
			d := []int{4094, 4095, 4096, 4097, 4098, 2048, 65, 8193}[r.Intn(8)]
			sh := []string{"arr", "obj", "mixed", "objl", "objtail", "arrtail", "sib", "sibobj"}[r.Intn(8)]
			return nest(sh, d, r.Chance(3, 4))
		}},
	}
}

// ------------------------------------------------------------------ cyclic / special Go values for Marshal

type cyc struct {
	Name string
	Next *cyc
	Any  interface{}
}

type PP *PP

type PNode struct {
	Name string
	I    *interface{}
	Next *PNode
}

type badMarshaler struct{ s string }

func (b badMarshaler) MarshalJSON() ([]byte, error) { return []byte(b.s), nil }

type errMarshaler struct{}

func (errMarshaler) MarshalJSON() ([]byte, error) { return nil, fmt.Errorf("nope") }

type panicText struct{}

func (panicText) MarshalText() ([]byte, error) { return nil, io.ErrUnexpectedEOF }

func goValues() {
	in := []byte("<go value>")
	try := func(name string, v interface{}) {
		writeProgress(pf, "marshal/"+name, "go-value", []byte(name))
		rep.Evaluations++
		rep.PerEntry["marshal-value"]++
		guard("marshal/"+name, in, func() {
			_, err := sonic.Marshal(v)
			inspect("sonic.Marshal/"+name, in, err)
			_, err = sonic.ConfigStd.Marshal(v)
			inspect("ConfigStd.Marshal/"+name, in, err)
			_, err = encoder.EncodeIndented(v, "", " ", 0)
			inspect("encoder.EncodeIndented/"+name, in, err)
			var w bytes.Buffer
			inspect("stream.Encode/"+name, in, encoder.NewStreamEncoder(&w).Encode(v))
		})
	}
	m := map[string]interface{}{}
	m["self"] = m
	try("cyclic-map", m)
	s := make([]interface{}, 1)
	s[0] = s
	try("cyclic-slice", s)
	c := &cyc{Name: "a"}
	c.Next = c
	try("cyclic-ptr", c)
	c2 := &cyc{Name: "b"}
	c2.Any = c2
	try("cyclic-iface", c2)
	// cycles made only of pointer-to-interface / pointer-to-own-type links: every dereference must push an encoder frame
	var self interface{}
	self = &self
	try("cyclic-ptr-to-iface", self)
	try("cyclic-ptr-to-iface-p", &self)
	var ia, ib interface{}
	ia, ib = &ib, &ia
	try("cyclic-two-ifaces", ia)
	var pp PP
	pp = &pp
	try("cyclic-self-pointer-type", pp)
	try("cyclic-self-pointer-type-p", &pp)
	pn := &PNode{Name: "n"}
	var pni interface{} = pn
	pn.I = &pni
	try("cyclic-struct-ptr-iface", pn)
	ps := []*interface{}{nil}
	var psi interface{} = ps
	ps[0] = &psi
	try("cyclic-slice-ptr-iface", ps)
	pm := map[string]*interface{}{}
	var pmi interface{} = pm
	pm["k"] = &pmi
	try("cyclic-map-ptr-iface", pm)
	var p interface{} = 1
	for i := 0; i < 5000; i++ {
		p = []interface{}{p}
	}
	try("deep-5000-slice", p)
	var q interface{} = 1
	for i := 0; i < 5000; i++ {
		q = map[string]interface{}{"a": q}
	}
	try("deep-5000-map", q)
	var ch *cyc
	for i := 0; i < 5000; i++ {
		ch = &cyc{Next: ch}
	}
	try("deep-5000-ptr", ch)
	try("chan", make(chan int))
	try("func", func() {})
	try("map-chan", map[string]interface{}{"a": make(chan int)})
	try("complex", complex(1, 2))
	try("nan", []float64{0, math.NaN(), math.Inf(-1)})
	try("bad-marshaler", badMarshaler{"{"})
	try("bad-marshaler-2", []interface{}{badMarshaler{""}, badMarshaler{"\x00"}, badMarshaler{"[1,]"}})
	try("err-marshaler", map[string]interface{}{"x": errMarshaler{}})
	try("text-err", map[string]interface{}{"x": panicText{}})
	try("map-key-text-err", map[panicText]int{{}: 1})
	try("bad-number", json.Number("1e"))
	try("bad-raw", json.RawMessage("{"))
	try("nil-ptr-marshaler", (*badMarshaler)(nil))
	try("invalid-utf8", "\xff\xfe\x00")
	try("unsupported-key", map[complex128]int{1: 1})
	try("big-uint-key", map[uint64]string{1 << 63: "x"})
	var np *Rec
	try("nil-struct-ptr", np)
	try("reflect-value", reflect.ValueOf(1))
}

// ------------------------------------------------------------------ modes

func writeProgress(f *os.File, entry, g string, in []byte) {
	if f == nil {
		return
	}
	h := hex.EncodeToString(in)
	if len(in) > 1<<16 {
		h = "len=" + strconv.Itoa(len(in)) + " prefix=" + hex.EncodeToString(in[:64])
	}
	line := entry + "\t" + g + "\t" + h + "\n"
	f.Truncate(0)
	f.WriteAt([]byte(line), 0)
}

func sizeClass(n int) string {
	switch {
	case n == 0:
		return "0"
	case n < 8:
		return "1-7"
	case n < 64:
		return "8-63"
	case n < 1024:
		return "64-1023"
	default:
		return ">=1024"
	}
}

var pf *os.File

func runFuzz() {
	if *progress != "" {
		pf, _ = os.Create(*progress)
	}
	es := entries()
	if *replayEn != "" {
		in, _ := hex.DecodeString(*replayIn)
		r := rng.New(*seed)
		for _, e := range es {
			if strings.HasPrefix(*replayEn, e.name) || *replayEn == "all" {
				for k := 0; k < 40; k++ {
					guard(e.name, in, func() { e.run(in, r) })
				}
			}
		}
		finish()
		return
	}
	gs := gens()
	root := rng.New(*seed)
	goValues()
	if *corpus != "" {
		files, _ := os.ReadDir(*corpus)
		for _, fi := range files {
			if !strings.HasSuffix(fi.Name(), ".case") {
				continue
			}
			b, err := os.ReadFile(*corpus + "/" + fi.Name())
			if err != nil {
				panic(err)
			}
			parts := strings.Split(strings.TrimSpace(string(b)), "\t")
			if len(parts) != 2 {
				panic("bad corpus case " + fi.Name())
			}
			var in []byte
			switch {
			case strings.HasPrefix(parts[1], "hex:"):
				in, _ = hex.DecodeString(parts[1][4:])
			case strings.HasPrefix(parts[1], "nest:"):
				f := strings.Split(parts[1], ":")
				d, _ := strconv.Atoi(f[2])
				in = nest(f[1], d, true)
			default:
				panic("bad corpus input " + fi.Name())
			}
			rep.PerGen["corpus"]++
			r := root.Fork(uint64(len(in)) + 77)
			for _, e := range es {
				if e.name != parts[0] {
					continue
				}
				for k := 0; k < 25; k++ {
					writeProgress(pf, e.name, "corpus:"+fi.Name(), in)
					rep.Evaluations++
					rep.PerEntry[e.name]++
					guard(e.name, in, func() { e.run(in, r) })
				}
			}
		}
	}
	// nesting at exactly the limits of the three depth-limited machines (native FSM, generated decoder value stack, encoder),
	// with and without members after the deep value
	for _, sh := range []string{"arr", "obj", "objtail", "arrtail", "mixed", "sib"} {
		for _, d := range []int{4095, 4096, 4097} {
			in := nest(sh, d, true)
			r := root.Fork(uint64(d) + uint64(len(sh)))
			rep.PerGen["limit-sweep"]++
			for _, e := range es {
				if e.name == "encode" || e.name == "stream.Decode" {
					continue
				}
				writeProgress(pf, e.name, "limit-sweep:"+sh, in)
				rep.Evaluations++
				rep.PerEntry[e.name]++
				guard(e.name, in, func() { e.run(in, r) })
			}
		}
	}
	for i := 0; i < *n; i++ {
		g := gs[i%(len(gs)-1)]
		if i%50 == 49 {
			g = gs[len(gs)-1]
		}
		r := root.Fork(uint64(i))
		in := g.f(r)
		rep.PerGen[g.name]++
		rep.Sizes[sizeClass(len(in))]++
		key := string(in)
		if !seenCase[key] {
			seenCase[key] = true
			if len(in) > 0 {
				rep.Nontrivial++
			}
		}
		if len(rep.Samples) < 6 && i%(len(gs)-1) == len(rep.Samples) && len(in) < 80 {
			rep.Samples = append(rep.Samples, fmt.Sprintf("%s: %q", g.name, in))
		}
		for _, e := range es {
			// deep documents: run the cheap entries always, all others on a share
			writeProgress(pf, e.name, g.name, in)
			rep.Evaluations++
			rep.PerEntry[e.name]++
			guard(e.name, in, func() { e.run(in, r) })
		}
	}
	finish()
}

func finish() {
	sort.Slice(rep.Failures, func(i, j int) bool { return rep.Failures[i].Kind < rep.Failures[j].Kind })
	for k := range rep.FailCount {
		if strings.HasPrefix(k, "#") {
			delete(rep.FailCount, k)
		}
	}
	b, _ := json.MarshalIndent(rep, "", " ")
	if err := os.WriteFile(*outp, b, 0o644); err != nil {
		panic(err)
	}
}

// ---- bounds: tie of the translated arithmetic

func srcOf(n int) string {
	b := make([]byte, n)
	for i := range b {
		b[i] = byte(33 + i%90)
	}
	return string(b)
}

func runBounds() {
	w := out.Create(*outp)
	defer w.Close()
	call := func(f func() string) string {
		var res string
		func() {
			defer func() {
				if r := recover(); r != nil {
					res = "panic"
				}
			}()
			res = out.HexS(f())
		}()
		return res
	}
	sizes := []int{0, 1, 2, 3, 5, 15, 16, 17, 18, 30, 31, 32, 33, 34, 35, 47, 48, 49, 63, 64, 65, 100, 1000}
	for _, size := range sizes {
		src := srcOf(size)
		var poss []int
		for p := -40; p <= size+40 && p <= 140; p++ {
			poss = append(poss, p)
		}
		for p := size - 40; p <= size+40; p++ {
			if p > 140 {
				poss = append(poss, p)
			}
		}
		poss = append(poss, -1<<63, -1<<62, 1<<62, 1<<63-1)
		for _, pos := range poss {
			pos := pos
			w.Line("D", out.Itoa(size), out.Itoa(pos), call(func() string {
				return decoder.SyntaxError{Pos: pos, Src: src, Code: 2}.Description()
			}))
			if pos >= -1000 && pos <= size+1000 {
				// ast.SyntaxError has no guard: huge |pos| would try to allocate |pos| dots
				w.Line("A", out.Itoa(size), out.Itoa(pos), call(func() string {
					return ast.SyntaxError{Pos: pos, Src: src, Code: 2}.Description()
				}))
			}
		}
	}
	codes := []uint64{}
	for c := uint64(0); c < 40; c++ {
		codes = append(codes, c)
	}
	codes = append(codes, 1<<31, 1<<32, 1<<62, 1<<63-1, 1<<63, 1<<63+5, 1<<64-34, 1<<64-2, 1<<64-1)
	for _, c := range codes {
		c := c
		w.Line("M", strconv.FormatUint(c, 10), "0", call(func() string { return verifx.ParsingError(c).Message() }))
	}
}

// ---- preorder: tie of the depth-counting traversal model (Safe/Depth.v) with the real ast.Preorder

var pTokens = []string{"[", "]", "{", "}", ",", ":", " ", "\n", `"k"`, `"str"`, `""`, "1", "12", "7", "true", "false", "null"}

func pValue(r *rng.R, depth int, b *[]string) {
	sp := func() {
		if r.Chance(1, 6) {
			*b = append(*b, []string{" ", "\n", "  "}[r.Intn(3)])
		}
	}
	sp()
	k := r.Intn(10)
	if depth <= 0 && k < 5 {
		k = 5 + r.Intn(5)
	}
	switch {
	case k < 3:
		*b = append(*b, "[")
		for i, n := 0, r.Intn(4); i < n; i++ {
			if i > 0 {
				*b = append(*b, ",")
			}
			pValue(r, depth-1, b)
		}
		sp()
		*b = append(*b, "]")
	case k < 5:
		*b = append(*b, "{")
		for i, n := 0, r.Intn(3); i < n; i++ {
			if i > 0 {
				*b = append(*b, ",")
			}
			sp()
			*b = append(*b, []string{`"k"`, `"str"`, `""`}[r.Intn(3)])
			sp()
			*b = append(*b, ":")
			pValue(r, depth-1, b)
		}
		sp()
		*b = append(*b, "}")
	default:
		*b = append(*b, pTokens[8+r.Intn(len(pTokens)-8)])
	}
	sp()
}

func runPreorder() {
	w := out.Create(*outp)
	defer w.Close()
	root := rng.New(*seed)
	emit := func(doc string) {
		v := &countVisitor{}
		err := ast.Preorder(doc, v, nil)
		cls := "ok"
		if err != nil {
			if pe, ok := err.(interface{ Message() string }); ok {
				switch pe.Message() {
				case "eof":
					cls = "eof"
				case "invalid char":
					cls = "invalid"
				case "recursion exceeded max depth":
					cls = "recurse"
				default:
					cls = "other:" + pe.Message()
				}
			} else {
				cls = "other:" + err.Error()
			}
		}
		w.Line("P", out.HexS(doc), cls, out.Itoa(v.max))
	}
	for _, d := range []int{1, 2, 3, 100, 1000, 3000, 4095, 4096, 4097, 5000} {
		emit(strings.Repeat("[", d) + strings.Repeat("]", d))
		emit(strings.Repeat("[", d))
		emit(strings.Repeat(`{"k":`, d) + "1" + strings.Repeat("}", d))
		emit(strings.Repeat(`[{"k":`, d) + strings.Repeat("}]", d))
	}
	for i := 0; i < *n; i++ {
		r := root.Fork(uint64(i))
		var toks []string
		if r.Chance(2, 3) { // mostly containers at the top: scalars alone never recurse
			toks = append(toks, "[")
			pValue(r, 1+r.Intn(6), &toks)
			toks = append(toks, ",", "{", `"k"`, ":")
			pValue(r, 1+r.Intn(4), &toks)
			toks = append(toks, "}", "]")
		} else {
			pValue(r, 1+r.Intn(6), &toks)
		}
		switch r.Intn(4) {
		case 0: // as generated (valid)
		case 1: // truncate at a token boundary
			toks = toks[:r.Intn(len(toks)+1)]
		default: // token-level mutations
			for k := 1 + r.Intn(3); k > 0 && len(toks) > 0; k-- {
				j := r.Intn(len(toks))
				switch r.Intn(4) {
				case 0:
					toks = append(toks[:j], toks[j+1:]...)
				case 1:
					toks = append(toks[:j], append([]string{pTokens[r.Intn(len(pTokens))]}, toks[j:]...)...)
				case 2:
					toks[j] = pTokens[r.Intn(len(pTokens))]
				default:
					i2 := r.Intn(len(toks))
					toks[j], toks[i2] = toks[i2], toks[j]
				}
			}
		}
		emit(strings.Join(toks, ""))
	}
}

// ---- proglen: length of the compiled decoder / encoder program of n-fold nested container types (type-dependent cost)

func nestType(kind string, n int) reflect.Type {
	t := reflect.TypeOf(int(0))
	for i := 0; i < n; i++ {
		switch kind {
		case "slice":
			t = reflect.SliceOf(t)
		case "array":
			t = reflect.ArrayOf(2, t)
		case "map":
			t = reflect.MapOf(reflect.TypeOf(""), t)
		case "ptr":
			t = reflect.PtrTo(t)
		case "slice-of-map":
			if i%2 == 0 {
				t = reflect.MapOf(reflect.TypeOf(""), t)
			} else {
				t = reflect.SliceOf(t)
			}
		}
	}
	return t
}

func runProgLen() {
	w := out.Create(*outp)
	defer w.Close()
	name := func(t reflect.Type) string { return t.String() }
	for _, kind := range []string{"slice", "array", "map", "ptr", "slice-of-map"} {
		for d := 1; d <= 9; d++ {
			t := nestType(kind, d)
			dl, el := -1, -1
			if txt, err := verifx.DecoderProgram(t); err == nil {
				dl = strings.Count(txt, ";") + 1
			}
			if txt, err := verifx.EncDumpProgram(t, false, option.DefaultCompileOptions(), name); err == nil {
				el = strings.Count(txt, "\n") + 1
			}
			w.Line("L", kind, out.Itoa(d), out.Itoa(dl), out.Itoa(el))
		}
	}
	// the encoder IR: every dereference is bracketed by a state-stack frame (save ... deref ... drop), so that a cycle through
	// pointers always runs into the depth limit
	for _, t := range []reflect.Type{
		reflect.TypeOf((*interface{})(nil)), reflect.TypeOf((**interface{})(nil)), reflect.TypeOf(PP(nil)), reflect.TypeOf((*PP)(nil)),
		reflect.TypeOf(&PNode{}), reflect.TypeOf(PNode{}), reflect.TypeOf([]*interface{}{}), reflect.TypeOf(map[string]*interface{}{}),
		reflect.TypeOf(&cyc{}), reflect.TypeOf([]*cyc{}), reflect.TypeOf((*[]interface{})(nil)), reflect.TypeOf((*map[string]interface{})(nil)),
		reflect.TypeOf(struct{ A *int; B *string; C *[]*PNode }{}),
	} {
		for _, pv := range []bool{false, true} {
			txt, err := verifx.EncDumpProgram(t, pv, option.DefaultCompileOptions(), name)
			if err != nil {
				w.Line("D", t.String(), fmt.Sprint(pv), "error", err.Error())
				continue
			}
			lines := strings.Split(strings.TrimSpace(txt), "\n")
			bad, derefs, saves, drops := "", 0, 0, 0
			for i, l := range lines {
				op := strings.Fields(l + " x")[0]
				switch op {
				case "save":
					saves++
				case "drop", "drop_2":
					drops++
				case "deref":
					derefs++
					if i == 0 || strings.Fields(lines[i-1] + " x")[0] != "save" {
						bad = fmt.Sprintf("deref at %d is not preceded by save (previous: %q)", i, lines[max(i-1, 0)])
					}
				}
			}
			st := "ok"
			if bad != "" {
				st = "bad"
			}
			w.Line("D", t.String(), fmt.Sprint(pv), st, fmt.Sprintf("derefs=%d saves=%d drops=%d %s", derefs, saves, drops, bad))
		}
	}
	// first-use wall time of the real entry points for a 12-fold nested slice (fresh types: never compiled before)
	if *tier == "quick" {
		return
	}
	for _, d := range []int{10, 12} {
		t := nestType("slice", d)
		doc := strings.Repeat("[", d) + "1" + strings.Repeat("]", d)
		t0 := time.Now()
		_ = sonic.UnmarshalString(doc, reflect.New(t).Interface())
		du := time.Since(t0)
		t0 = time.Now()
		_, _ = sonic.Marshal(reflect.New(reflect.SliceOf(reflect.TypeOf(int8(0)))).Interface())
		v := reflect.New(nestType("slice", d)).Elem()
		_ = v
		tm := reflect.TypeOf(int16(0))
		for i := 0; i < d; i++ {
			tm = reflect.SliceOf(tm)
		}
		t1 := time.Now()
		_, _ = sonic.Marshal(reflect.New(tm).Interface())
		dm := time.Since(t1)
		_ = t0
		w.Line("T", "slice", out.Itoa(d), fmt.Sprint(du.Milliseconds()), fmt.Sprint(dm.Milliseconds()))
	}
}

// ---- deep cases

type deepCase struct {
	Entry, Shape string
	Depth        int
	MaxStack     int
}

func (c deepCase) String() string { return fmt.Sprintf("%s:%s:%d", c.Entry, c.Shape, c.Depth) }

func deepInput(c deepCase) []byte {
	switch c.Shape {
	case "arr", "obj", "mixed", "sib", "sibobj", "objtail", "arrtail":
		return nest(c.Shape, c.Depth, true)
	case "arr-open":
		return nest("arr", c.Depth, false)
	case "obj-open":
		return nest("obj", c.Depth, false)
	}
	panic("shape " + c.Shape)
}

func runOne(spec string) {
	parts := strings.Split(spec, ":")
	d, _ := strconv.Atoi(parts[2])
	c := deepCase{parts[0], parts[1], d, 0}
	res := "ok"
	report := func(err error) {
		if err != nil {
			in := []byte{}
			before := len(rep.Failures)
			inspect(c.Entry, in, err)
			corrupt := false
			for _, f := range rep.Failures[before:] {
				if f.Kind == "corrupt-error" {
					corrupt = true
				}
			}
			rep.Failures = rep.Failures[:before] // positions are relative to the (huge) input: not checked here
			if corrupt {
				res = fmt.Sprintf("corrupt-error:%T", err)
				return
			}
			m := err.Error()
			if len(m) > 120 {
				m = m[:120]
			}
			res = fmt.Sprintf("err:%T:%s", err, strconv.Quote(m))
		}
	}
	switch c.Entry {
	case "marshal-deep-slice", "marshal-deep-map", "marshal-deep-ptr":
		var v interface{}
		switch c.Entry {
		case "marshal-deep-slice":
			v = 1
			for i := 0; i < c.Depth; i++ {
				v = []interface{}{v}
			}
		case "marshal-deep-map":
			v = 1
			for i := 0; i < c.Depth; i++ {
				v = map[string]interface{}{"a": v}
			}
		default:
			var ch *cyc
			for i := 0; i < c.Depth; i++ {
				ch = &cyc{Next: ch}
			}
			v = ch
		}
		_, err := sonic.Marshal(v)
		report(err)
	default:
		in := deepInput(c)
		s := string(in)
		switch c.Entry {
		case "unmarshal-iface":
			var v interface{}
			report(sonic.Unmarshal(in, &v))
		case "unmarshal-tree":
			var v Tree
			report(sonic.UnmarshalString(s, &v))
		case "unmarshal-rec":
			var v Rec
			report(sonic.UnmarshalString(s, &v))
		case "unmarshal-raw":
			var v json.RawMessage
			report(sonic.UnmarshalString(s, &v))
		case "valid":
			if !sonic.Valid(in) {
				res = "invalid"
			}
		case "get":
			_, err := sonic.Get(in, 0, 0, 0)
			report(err)
		case "get-miss":
			_, err := sonic.Get(in, "zz")
			report(err)
		case "skip":
			st, end := decoder.Skip(in)
			res = fmt.Sprintf("skip:%d:%d", st, end)
		case "ast-loads":
			_, _, err := ast.Loads(s)
			report(err)
		case "ast-preorder":
			v := &countVisitor{}
			report(ast.Preorder(s, v, nil))
			res += fmt.Sprintf(" maxdepth=%d", v.max)
		case "ast-loadall":
			nd := ast.NewRaw(s)
			report(nd.LoadAll())
		case "ast-interface":
			nd := ast.NewRaw(s)
			_, err := nd.Interface()
			report(err)
		case "ast-marshal":
			nd := ast.NewRaw(s)
			_, err := nd.MarshalJSON()
			report(err)
		case "ast-load-marshal":
			nd := ast.NewRaw(s)
			if err := nd.LoadAll(); err != nil {
				report(err)
			} else {
				_, err := nd.MarshalJSON()
				report(err)
			}
		case "ast-sortkeys":
			nd := ast.NewRaw(s)
			report(nd.SortKeys(true))
		case "ast-searcher":
			_, err := ast.NewSearcher(s).GetByPath(0, 0)
			report(err)
		case "stream-dec":
			d := decoder.NewStreamDecoder(bytes.NewReader(in))
			var v interface{}
			report(d.Decode(&v))
		case "encoder-valid":
			ok, _ := encoder.Valid(in)
			res = fmt.Sprint(ok)
		default:
			panic("entry " + c.Entry)
		}
	}
	fmt.Println(res)
}

func runDeep() {
	type result struct {
		Case     string  `json:"case"`
		MaxStack int     `json:"maxstack"`
		Exit     int     `json:"exit"`
		Signal   string  `json:"signal"`
		TimedOut bool    `json:"timed_out"`
		Secs     float64 `json:"secs"`
		Stdout   string  `json:"stdout"`
		Stderr   string  `json:"stderr_head"`
		StackOvf bool    `json:"stack_overflow"`
		Frames   string  `json:"top_frames"`
	}
	docEntries := []string{"unmarshal-iface", "unmarshal-tree", "unmarshal-rec", "unmarshal-raw", "valid", "get", "get-miss", "skip", "ast-loads", "ast-preorder", "ast-loadall", "ast-interface", "ast-marshal", "ast-load-marshal", "ast-sortkeys", "ast-searcher", "stream-dec", "encoder-valid"}
	astRec := map[string]bool{"ast-loads": true, "ast-preorder": true, "ast-loadall": true, "ast-interface": true, "ast-load-marshal": true, "ast-sortkeys": true}
	var cases []deepCase
	if *tier == "quick" {
		for _, e := range docEntries {
			if e == "ast-loads" {
				continue // lazy loading is quadratic in the depth (17 s at 1e5): thorough tier only
			}
			cases = append(cases, deepCase{e, "arr", 100000, 0}, deepCase{e, "obj-open", 100000, 0})
		}
		for _, e := range []string{"unmarshal-iface", "valid", "get", "stream-dec"} {
			cases = append(cases, deepCase{e, "arr", 10000000, 0})
		}
		// the unbounded Go recursion: with the goroutine stack limit lowered to 16 MiB the same overflow that needs 1e7
		// levels under the default 1 GB limit (thorough tier) happens within seconds
		cases = append(cases, deepCase{"ast-preorder", "arr", 400000, 16 << 20}, deepCase{"ast-loads", "arr-open", 150000, 16 << 20},
			deepCase{"ast-preorder", "sib", 400000, 16 << 20}, deepCase{"ast-preorder", "sibobj", 400000, 16 << 20},
			deepCase{"ast-loads", "sib", 100000, 16 << 20}, deepCase{"ast-loadall", "sib", 400000, 16 << 20},
			deepCase{"ast-interface", "sibobj", 400000, 16 << 20}, deepCase{"unmarshal-iface", "sib", 400000, 16 << 20},
			deepCase{"unmarshal-iface", "objtail", 100000, 0}, deepCase{"unmarshal-rec", "objtail", 100000, 0},
			deepCase{"unmarshal-iface", "arr", 400000, 16 << 20}, deepCase{"ast-marshal", "arr", 400000, 16 << 20})
		cases = append(cases, deepCase{"marshal-deep-slice", "-", 1000000, 0}, deepCase{"marshal-deep-ptr", "-", 1000000, 0})
	} else {
		for _, e := range docEntries {
			for _, sh := range []string{"arr", "obj", "mixed", "arr-open", "obj-open", "sib", "sibobj", "objtail"} {
				for _, d := range []int{100000, 1000000, 10000000} {
					if d == 10000000 && (sh == "sib" || sh == "sibobj" || sh == "objtail") {
						continue
					}
					if d == 10000000 && astRec[e] && sh != "arr" && sh != "arr-open" {
						continue // same fatal stack overflow, several GB of stack growth each: two shapes are enough
					}
					cases = append(cases, deepCase{e, sh, d, 0})
				}
			}
		}
		for _, e := range []string{"marshal-deep-slice", "marshal-deep-map", "marshal-deep-ptr"} {
			cases = append(cases, deepCase{e, "-", 100000, 0}, deepCase{e, "-", 1000000, 0})
		}
	}
	self, _ := os.Executable()
	var results []result
	sem := make(chan struct{}, 4)
	resCh := make(chan result, len(cases))
	for _, c := range cases {
		c := c
		sem <- struct{}{}
		go func() {
			defer func() { <-sem }()
			args := []string{"-mode", "one", "-case", c.String()}
			if c.MaxStack > 0 {
				args = append(args, "-maxstack", strconv.Itoa(c.MaxStack))
			}
			cmd := exec.Command(self, args...)
			cmd.Env = append(os.Environ(), "GOTRACEBACK=single", "GOMAXPROCS=2")
			var so, se bytes.Buffer
			cmd.Stdout, cmd.Stderr = &so, &se
			t0 := time.Now()
			r := result{Case: c.String(), MaxStack: c.MaxStack}
			if err := cmd.Start(); err != nil {
				r.Exit = -1
				r.Stderr = err.Error()
				resCh <- r
				return
			}
			done := make(chan error, 1)
			go func() { done <- cmd.Wait() }()
			select {
			case err := <-done:
				if err != nil {
					if ee, ok := err.(*exec.ExitError); ok {
						r.Exit = ee.ExitCode()
						if ee.ProcessState != nil && !ee.ProcessState.Exited() {
							r.Signal = ee.ProcessState.String()
						}
					} else {
						r.Exit = -1
					}
				}
			case <-time.After(180 * time.Second):
				cmd.Process.Kill()
				<-done
				r.TimedOut = true
				r.Exit = -2
			}
			r.Secs = time.Since(t0).Seconds()
			r.Stdout = strings.TrimSpace(so.String())
			if len(r.Stdout) > 300 {
				r.Stdout = r.Stdout[:300]
			}
			es := se.String()
			r.StackOvf = strings.Contains(es, "goroutine stack exceeds") || strings.Contains(es, "stack overflow")
			// the first frames of the dying goroutine
			var fr []string
			for _, ln := range strings.Split(es, "\n") {
				if strings.HasPrefix(ln, "github.com/bytedance/sonic") || strings.HasPrefix(ln, "main.") || strings.HasPrefix(ln, "runtime.") && len(fr) == 0 {
					if i := strings.Index(ln, "("); i > 0 {
						ln = ln[:i]
					}
					if len(fr) < 12 {
						fr = append(fr, ln)
					}
				}
			}
			r.Frames = strings.Join(fr, " <- ")
			if len(es) > 400 {
				es = es[:400]
			}
			r.Stderr = es
			resCh <- r
		}()
	}
	for range cases {
		results = append(results, <-resCh)
	}
	sort.Slice(results, func(i, j int) bool { return results[i].Case < results[j].Case })
	b, _ := json.MarshalIndent(results, "", " ")
	os.WriteFile(*outp, b, 0o644)
}

func main() {
	flag.Parse()
	debug.SetMaxStack(*maxStack) // 1e9 = the Go default on 64-bit; explicit so the observable does not depend on the toolchain
	_ = runtime.NumCPU
	switch *mode {
	case "bounds":
		runBounds()
	case "preorder":
		runPreorder()
	case "proglen":
		runProgLen()
	case "fuzz":
		runFuzz()
	case "deep":
		runDeep()
	case "one":
		runOne(*caseSpec)
	default:
		fmt.Fprintln(os.Stderr, "unknown mode")
		os.Exit(2)
	}
}
