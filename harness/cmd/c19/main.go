// c19: numbers convert exactly in both directions.
//
//	-mode native  raw native entry points of both SIMD variants (vsigned, vunsigned, vnumber, skip_number,
//	              i64toa, u64toa, f64toa, f32toa) and the Go-level helpers (alg.IsValidNumber ...): writes a case
//	              file for the extracted Coq model, the implementation's result lines, and an oracle report
//	-mode api     public decoding paths of the back end selected by the process environment
//	-mode enc     public encoding paths of the encoder selected by the process environment
//
// Oracles (independent of the model): strconv.ParseInt/ParseUint/ParseFloat/FormatFloat/AppendInt, encoding/json.
package main

import (
	"encoding/hex"
	"encoding/json"
	"flag"
	"fmt"
	"math"
	"os"
	"path/filepath"
	"strconv"
	"strings"
	"unsafe"

	"github.com/bytedance/sonic/verifx"

	"verif/harness/internal/out"
	"verif/harness/internal/rng"
)

var (
	mode   = flag.String("mode", "native", "")
	seed   = flag.Uint64("seed", 1, "")
	scale  = flag.Int("scale", 4, "size of the generated pools")
	outdir = flag.String("out", "/tmp/b-c19/out", "")
	tag    = flag.String("tag", "jit", "label of the back end (file names, report)")
	one    = flag.String("one", "", "replay: run only this literal (hex)")
	f32all = flag.Int("f32sweep", 0, "thorough: number of float32 bit patterns per exponent to sweep (oracle only)")
	corpus = flag.String("corpus", "", "file with one hex-encoded literal per line, run before the generated ones")
)

type failure struct {
	Path  string `json:"path"`
	Input string `json:"input"`
	Got   string `json:"got"`
	Want  string `json:"want"`
	Class string `json:"class,omitempty"`
}

type report struct {
	Tag          string         `json:"tag"`
	Mode         string         `json:"mode"`
	Seed         uint64         `json:"seed"`
	Evaluations  int            `json:"evaluations"`
	ModelCases   int            `json:"model_cases"`
	Distinct     int            `json:"distinct_nontrivial"`
	Distribution map[string]int `json:"distribution"`
	Outcomes     map[string]int `json:"outcomes"`
	Samples      []string       `json:"samples"`
	Failures     []failure      `json:"failures"`
	NFail        int            `json:"n_failures"`
}

var rep = report{Distribution: map[string]int{}, Outcomes: map[string]int{}}

var perPath = map[string]int{}

func fail(path, input, got, want string) { failc(path, input, got, want, "") }

func failc(path, input, got, want, class string) {
	rep.NFail++
	perPath[path+"/"+class]++
	if perPath[path+"/"+class] <= 25 && len(rep.Failures) < 2000 {
		if len(input) > 2000 {
			input = input[:2000] + "...(" + strconv.Itoa(len(input)) + " bytes)"
		}
		rep.Failures = append(rep.Failures, failure{Path: path, Input: input, Got: got, Want: want, Class: class})
	}
}

// ---------------------------------------------------------------- case / result files

type files struct {
	cases, impl *out.W
	id          int
}

func (f *files) emit(caseFields []string, result string) {
	f.id++
	id := strconv.Itoa(f.id)
	f.cases.Line(append([]string{id}, caseFields...)...)
	f.impl.Line(id, result)
	rep.ModelCases++
}

// ---------------------------------------------------------------- raw natives

type gostr struct {
	p unsafe.Pointer
	n int
}

type nat struct {
	vt  int64
	p   int
	iv  int64
	dv  uint64
}

// run one of vnumber(0)/vsigned(1)/vunsigned(2) on ctx[0:len] followed in memory by the byte oob
func runV(f *verifx.Funcs, which int, ctx string, oob byte, p0 int) nat {
	buf := make([]byte, len(ctx)+1+64)
	copy(buf, ctx)
	buf[len(ctx)] = oob
	g := gostr{unsafe.Pointer(&buf[0]), len(ctx)}
	var st verifx.JsonState
	dbuf := make([]byte, 800)
	st.Dbuf = &dbuf[0]
	st.Dcap = 800
	p := p0
	switch which {
	case 0:
		f.Vnumber(unsafe.Pointer(&g), unsafe.Pointer(&p), unsafe.Pointer(&st))
	case 1:
		f.Vsigned(unsafe.Pointer(&g), unsafe.Pointer(&p), unsafe.Pointer(&st))
	case 2:
		f.Vunsigned(unsafe.Pointer(&g), unsafe.Pointer(&p), unsafe.Pointer(&st))
	}
	return nat{st.Vt, p, st.Iv, math.Float64bits(st.Dv)}
}

func runSkip(f *verifx.Funcs, ctx string, p0 int) (int, int) {
	buf := make([]byte, len(ctx)+1+64)
	copy(buf, ctx)
	buf[len(ctx)] = ','
	g := gostr{unsafe.Pointer(&buf[0]), len(ctx)}
	p := p0
	r := f.SkipNumber(unsafe.Pointer(&g), unsafe.Pointer(&p))
	return r, p
}

func fmtV(which int, r nat) string {
	iv := strconv.FormatInt(r.iv, 10)
	if which == 2 {
		iv = strconv.FormatUint(uint64(r.iv), 10)
	}
	if which == 0 {
		dv := r.dv
		if r.vt < 0 && r.vt != -8 {
			dv = 0
		}
		return fmt.Sprintf("%d %d %s %d", r.vt, r.p, iv, dv)
	}
	return fmt.Sprintf("%d %d %s", r.vt, r.p, iv)
}

var kindName = []string{"vn", "vs", "vu"}

func isNumChar(c byte) bool {
	return c >= '0' && c <= '9' || c == '.' || c == 'e' || c == 'E' || c == '+' || c == '-'
}

// reference recogniser of the JSON number grammar (independent of the model; same role as json.Valid)
func validNumber(s string) bool {
	if s == "" || strings.ContainsAny(s, " \t\r\n") {
		return false
	}
	c := s[0]
	if !(c == '-' || c >= '0' && c <= '9') {
		return false
	}
	return json.Valid([]byte(s))
}

func isIntLit(s string) bool {
	return validNumber(s) && !strings.ContainsAny(s, ".eE")
}

func nativeMode(r *rng.R, fs *files) {
	pool := literalPool(r.Fork(1), *scale)
	oobs := []byte{0, '.', 'e', 'E', '0', ',', '5'}
	prefixes := []string{"", "[", `{"a":`, " ", "-", "12", strings.Repeat(" ", 15), strings.Repeat("x", 31), strings.Repeat("[", 33)}
	suffixes := []string{"", ",", "]", "}", " ", "x", ".", "e", "-", "1", "0", ",1", "\n", "\"", "e5", ".5", "+"}
	seen := map[string]bool{}
	for li, l := range pool {
		rep.Distribution["lit:"+l.cls]++
		nctx := 1
		if r.Chance(1, 2) {
			nctx = 2
		}
		for c := 0; c < nctx; c++ {
			pre, suf := "", ""
			if c > 0 {
				pre, suf = prefixes[r.Intn(len(prefixes))], suffixes[r.Intn(len(suffixes))]
			}
			ctx := pre + l.s + suf
			p0 := len(pre)
			oob := oobs[(li+c)%len(oobs)]
			if !seen[ctx] && l.s != "" {
				seen[ctx] = true
				rep.Distinct++
			}
			for which := 0; which < 3; which++ {
				a := runV(&verifx.AVX2, which, ctx, oob, p0)
				s := runV(&verifx.SSE, which, ctx, oob, p0)
				rep.Evaluations += 2
				ra, rs := fmtV(which, a), fmtV(which, s)
				if ra != rs {
					fail("native/"+kindName[which]+"/avx2-vs-sse", ctx, ra, rs)
				}
				rep.Outcomes[fmt.Sprintf("%s:vt=%d", kindName[which], a.vt)]++
				fs.emit([]string{kindName[which], out.HexS(ctx), strconv.Itoa(int(oob)), strconv.Itoa(p0)}, ra)
				oracleNative(which, ctx, p0, a)
			}
			if p0 < len(ctx) {
				ra, pa := runSkip(&verifx.AVX2, ctx, p0)
				rs, ps := runSkip(&verifx.SSE, ctx, p0)
				rep.Evaluations += 2
				res := strconv.Itoa(ra)
				if ra >= 0 {
					res += " " + strconv.Itoa(pa)
				}
				if ra != rs || (ra >= 0 && pa != ps) {
					fail("native/sn/avx2-vs-sse", ctx, fmt.Sprint(ra, pa), fmt.Sprint(rs, ps))
				}
				rep.Outcomes[fmt.Sprintf("sn:%v", ra >= 0)]++
				fs.emit([]string{"sn", out.HexS(ctx), strconv.Itoa(p0)}, res)
				// oracle: the longest run of number characters after an optional '-' must be a JSON number
				end := p0
				if ctx[end] == '-' {
					end++
				}
				if !(end+1 < len(ctx) && ctx[end] == '0' && !strings.ContainsRune(".eE", rune(ctx[end+1]))) {
					for end < len(ctx) && isNumChar(ctx[end]) {
						end++
					}
				} else {
					end++
				}
				want := validNumber(ctx[p0:end])
				if (ra >= 0) != want || (want && pa != end) {
					fail("native/skip_number/oracle", ctx, fmt.Sprint(ra, pa), fmt.Sprint(want, end))
				}
			}
		}
		// Go-level validators on the bare literal
		iv := verifx.IsValidNumber(l.s)
		rep.Evaluations++
		fs.emit([]string{"ivn", out.HexS(l.s)}, strconv.Itoa(boolInt(iv)))
		if iv != validNumber(l.s) {
			fail("alg.IsValidNumber/oracle", l.s, fmt.Sprint(iv), fmt.Sprint(validNumber(l.s)))
		}
		rep.Outcomes[fmt.Sprintf("ivn:%v", iv)]++
	}
	if *one != "" {
		return
	}
	// ---- integer printing
	si, ui := genInts(r.Fork(2), *scale)
	buf := make([]byte, 64)
	for _, v := range si {
		na := verifx.AVX2.I64toa(unsafe.Pointer(&buf[0]), v)
		ta := string(buf[:na])
		ns := verifx.SSE.I64toa(unsafe.Pointer(&buf[32]), v)
		ts := string(buf[32 : 32+ns])
		rep.Evaluations += 2
		if ta != ts {
			fail("native/i64toa/avx2-vs-sse", fmt.Sprint(v), ta, ts)
		}
		if want := strconv.FormatInt(v, 10); ta != want {
			fail("native/i64toa/oracle", fmt.Sprint(v), ta, want)
		}
		if g := string(verifx.AlgI64toa(nil, v)); g != strconv.FormatInt(v, 10) {
			fail("alg.I64toa/oracle", fmt.Sprint(v), g, strconv.FormatInt(v, 10))
		}
		fs.emit([]string{"i64", strconv.FormatInt(v, 10)}, out.HexS(ta))
		rep.Distribution[fmt.Sprintf("i64:digits=%02d", len(strings.TrimPrefix(ta, "-")))]++
	}
	for _, v := range ui {
		na := verifx.AVX2.U64toa(unsafe.Pointer(&buf[0]), v)
		ta := string(buf[:na])
		ns := verifx.SSE.U64toa(unsafe.Pointer(&buf[32]), v)
		ts := string(buf[32 : 32+ns])
		rep.Evaluations += 2
		if ta != ts {
			fail("native/u64toa/avx2-vs-sse", fmt.Sprint(v), ta, ts)
		}
		if want := strconv.FormatUint(v, 10); ta != want {
			fail("native/u64toa/oracle", fmt.Sprint(v), ta, want)
		}
		if g := string(verifx.AlgU64toa(nil, v)); g != strconv.FormatUint(v, 10) {
			fail("alg.U64toa/oracle", fmt.Sprint(v), g, strconv.FormatUint(v, 10))
		}
		fs.emit([]string{"u64", strconv.FormatUint(v, 10)}, out.HexS(ta))
		rep.Distribution[fmt.Sprintf("u64:digits=%02d", len(ta))]++
	}
	// ---- float printing
	for _, b := range genF64(r.Fork(3), *scale) {
		f := math.Float64frombits(b)
		na := verifx.AVX2.F64toa(unsafe.Pointer(&buf[0]), f)
		ta := string(buf[:na])
		ns := verifx.SSE.F64toa(unsafe.Pointer(&buf[32]), f)
		ts := string(buf[32 : 32+ns])
		rep.Evaluations += 2
		if ta != ts {
			fail("native/f64toa/avx2-vs-sse", fmt.Sprintf("%016x", b), ta, ts)
		}
		if math.IsNaN(f) || math.IsInf(f, 0) {
			if na != 0 {
				fail("native/f64toa/nan-inf", fmt.Sprintf("%016x", b), ta, "")
			}
			rep.Outcomes["f64:nan-inf"]++
			continue
		}
		want, _ := json.Marshal(f)
		if ta != string(want) {
			fail("native/f64toa/oracle", fmt.Sprintf("%016x", b), ta, string(want))
		}
		if g := string(verifx.AlgF64toa(nil, f)); g != string(want) {
			cls := ""
			if b == 1<<63 && g == "0" {
				cls = "vm-negzero" // `if v == 0 { return append(buf, '0') }`
			}
			failc("alg.F64toa/oracle", fmt.Sprintf("%016x", b), g, string(want), cls)
		}
		fs.emit([]string{"f64", strconv.FormatUint(b, 10), out.HexS(ta)}, "0")
		rep.Outcomes[notation("f64", ta)]++
	}
	for _, b := range genF32(r.Fork(4), *scale) {
		checkF32(fs, buf, b, true)
	}
	if *f32all > 0 {
		rr := r.Fork(5)
		for e := uint32(0); e < 255; e++ {
			for k := 0; k < *f32all; k++ {
				checkF32(fs, buf, e<<23|uint32(rr.U64())&(1<<23-1)|uint32(rr.Intn(2))<<31, k < 4)
			}
		}
	}
}

func notation(w, t string) string {
	switch {
	case strings.ContainsAny(t, "eE"):
		return w + ":exponent"
	case strings.Contains(t, "."):
		return w + ":decimal"
	}
	return w + ":integer"
}

func checkF32(fs *files, buf []byte, b uint32, model bool) {
	f := math.Float32frombits(b)
	na := verifx.AVX2.F32toa(unsafe.Pointer(&buf[0]), f)
	ta := string(buf[:na])
	ns := verifx.SSE.F32toa(unsafe.Pointer(&buf[32]), f)
	ts := string(buf[32 : 32+ns])
	rep.Evaluations += 2
	if ta != ts {
		fail("native/f32toa/avx2-vs-sse", fmt.Sprintf("%08x", b), ta, ts)
	}
	if f != f || math.IsInf(float64(f), 0) {
		if na != 0 {
			fail("native/f32toa/nan-inf", fmt.Sprintf("%08x", b), ta, "")
		}
		rep.Outcomes["f32:nan-inf"]++
		return
	}
	want, _ := json.Marshal(f)
	if ta != string(want) {
		fail("native/f32toa/oracle", fmt.Sprintf("%08x", b), ta, string(want))
	}
	if g := string(verifx.AlgF32toa(nil, f)); g != string(want) {
		cls := ""
		if b == 1<<31 && g == "0" {
			cls = "vm-negzero"
		}
		failc("alg.F32toa/oracle", fmt.Sprintf("%08x", b), g, string(want), cls)
	}
	if model {
		fs.emit([]string{"f32", strconv.FormatUint(uint64(b), 10), out.HexS(ta)}, "0")
	}
	rep.Outcomes[notation("f32", ta)]++
}

// oracle for the raw parsers: strconv on the accepted prefix
func oracleNative(which int, ctx string, p0 int, r nat) {
	if r.vt < 0 || r.p < p0 || r.p > len(ctx) {
		return
	}
	l := ctx[p0:r.p]
	name := "native/" + kindName[which] + "/oracle"
	switch which {
	case 1:
		if v, err := strconv.ParseInt(l, 10, 64); err != nil || v != r.iv || !isIntLit(l) {
			fail(name, ctx, fmtV(which, r), fmt.Sprint(v, err))
		}
	case 2:
		if v, err := strconv.ParseUint(l, 10, 64); err != nil || v != uint64(r.iv) || !isIntLit(l) {
			fail(name, ctx, fmtV(which, r), fmt.Sprint(v, err))
		}
	case 0:
		if !validNumber(l) {
			fail(name, ctx, fmtV(which, r), "not a JSON number: "+l)
			return
		}
		v, err := strconv.ParseFloat(l, 64)
		if err != nil || math.Float64bits(v) != r.dv {
			cls := ""
			if l == "-0" && r.vt == 9 && r.dv == 0 && r.iv == 0 {
				cls = "negzero-literal" // check_leading_zero returns with dv = +0.0
			}
			failc(name, ctx, fmtV(which, r), fmt.Sprintf("%d %v", math.Float64bits(v), err), cls)
		}
		if r.vt == 9 {
			if iv, err := strconv.ParseInt(l, 10, 64); err != nil || iv != r.iv {
				fail(name+"/iv", ctx, fmtV(which, r), fmt.Sprint(iv, err))
			}
		} else if isIntLit(l) {
			if _, err := strconv.ParseInt(l, 10, 64); err == nil {
				fail(name+"/vt", ctx, fmtV(which, r), "integer literal in int64 range reported as V_DOUBLE")
			}
		}
	}
}

func main() {
	flag.Parse()
	os.MkdirAll(*outdir, 0o755)
	r := rng.New(*seed)
	rep.Tag, rep.Mode, rep.Seed = *tag, *mode, *seed
	if *one != "" {
		b, err := hexDecode(*one)
		if err != nil {
			panic(err)
		}
		*one = string(b)
	}
	base := filepath.Join(*outdir, *mode+"-"+*tag)
	fs := &files{cases: out.Create(base + ".case"), impl: out.Create(base + ".impl")}
	switch *mode {
	case "native":
		nativeMode(r, fs)
	case "api":
		apiMode(r, fs)
	case "enc":
		encMode(r, fs)
	default:
		panic("mode")
	}
	fs.cases.Close()
	fs.impl.Close()
	b, _ := json.MarshalIndent(rep, "", " ")
	os.WriteFile(base+".report.json", b, 0o644)
}

// the literal pool: corpus first, then generated (or only the replayed literal)
func literalPool(r *rng.R, scale int) []lit {
	if *one != "" {
		return []lit{{*one, "replay"}}
	}
	var pool []lit
	if *corpus != "" {
		if b, err := os.ReadFile(*corpus); err == nil {
			for _, line := range strings.Split(string(b), "\n") {
				line = strings.TrimSpace(line)
				if line == "" || strings.HasPrefix(line, "#") {
					continue
				}
				if d, err := hexDecode(line); err == nil {
					pool = append(pool, lit{string(d), "corpus"})
				}
			}
		}
	}
	return append(pool, genLiterals(r, scale)...)
}

func hexDecode(s string) ([]byte, error) {
	if s == "-" {
		return nil, nil
	}
	return hex.DecodeString(s)
}
