package main

import (
	"bytes"
	"encoding/json"
	"fmt"
	"math"
	"reflect"
	"strconv"
	"strings"

	"github.com/bytedance/sonic"
	"github.com/bytedance/sonic/ast"

	"verif/harness/internal/out"
	"verif/harness/internal/rng"
)

var (
	cfgStd       = sonic.ConfigStd
	cfgDefault   = sonic.ConfigDefault
	cfgUseNumber = sonic.Config{UseNumber: true}.Froze()
	cfgUseInt64  = sonic.Config{UseInt64: true}.Froze()
)

// canonical dump of a decoded value: type + exact bits
func dump(v interface{}) string {
	switch x := v.(type) {
	case nil:
		return "nil"
	case float64:
		return fmt.Sprintf("f64:%016x", math.Float64bits(x))
	case float32:
		return fmt.Sprintf("f32:%08x", math.Float32bits(x))
	case json.Number:
		return "num:" + string(x)
	case string:
		return "str:" + x
	case bool:
		return fmt.Sprint("bool:", x)
	}
	rv := reflect.ValueOf(v)
	switch rv.Kind() {
	case reflect.Int, reflect.Int8, reflect.Int16, reflect.Int32, reflect.Int64:
		return fmt.Sprintf("%s:%d", rv.Type(), rv.Int())
	case reflect.Uint, reflect.Uint8, reflect.Uint16, reflect.Uint32, reflect.Uint64, reflect.Uintptr:
		return fmt.Sprintf("%s:%d", rv.Type(), rv.Uint())
	case reflect.Ptr:
		if rv.IsNil() {
			return "nilptr"
		}
		return dump(rv.Elem().Interface())
	case reflect.Slice, reflect.Array:
		var sb strings.Builder
		sb.WriteString("[")
		for i := 0; i < rv.Len(); i++ {
			if i > 0 {
				sb.WriteString(" ")
			}
			sb.WriteString(dump(rv.Index(i).Interface()))
		}
		sb.WriteString("]")
		return sb.String()
	case reflect.Map:
		var parts []string
		for _, k := range rv.MapKeys() {
			parts = append(parts, dump(k.Interface())+"="+dump(rv.MapIndex(k).Interface()))
		}
		// single-entry maps only in this harness
		return "{" + strings.Join(parts, " ") + "}"
	case reflect.Struct:
		var parts []string
		for i := 0; i < rv.NumField(); i++ {
			parts = append(parts, dump(rv.Field(i).Interface()))
		}
		return "<" + strings.Join(parts, " ") + ">"
	}
	return fmt.Sprintf("%T:%v", v, v)
}

func res(v interface{}, err error) string {
	if err != nil {
		return "err"
	}
	return "ok " + dump(v)
}

var scalarTypes = []reflect.Type{
	reflect.TypeOf(int8(0)), reflect.TypeOf(int16(0)), reflect.TypeOf(int32(0)), reflect.TypeOf(int64(0)), reflect.TypeOf(int(0)),
	reflect.TypeOf(uint8(0)), reflect.TypeOf(uint16(0)), reflect.TypeOf(uint32(0)), reflect.TypeOf(uint64(0)), reflect.TypeOf(uint(0)), reflect.TypeOf(uintptr(0)),
	reflect.TypeOf(float32(0)), reflect.TypeOf(float64(0)), reflect.TypeOf(json.Number("")),
}

type (
	sI8  struct{ A int8 `json:",string"` }
	sI16 struct{ A int16 `json:",string"` }
	sI32 struct{ A int32 `json:",string"` }
	sI64 struct{ A int64 `json:",string"` }
	sU8  struct{ A uint8 `json:",string"` }
	sU16 struct{ A uint16 `json:",string"` }
	sU32 struct{ A uint32 `json:",string"` }
	sU64 struct{ A uint64 `json:",string"` }
	sF32 struct{ A float32 `json:",string"` }
	sF64 struct{ A float64 `json:",string"` }
	sNum struct{ A json.Number `json:",string"` }
	// plain struct fields and pointers (other opcodes than the top-level scalar)
	sAll struct {
		I8  int8
		U16 uint16
		I32 *int32
		U32 uint32
		F32 float32
		F64 *float64
		N   json.Number
		E   interface{}
	}
)

var stringTypes = []reflect.Type{
	reflect.TypeOf(sI8{}), reflect.TypeOf(sI16{}), reflect.TypeOf(sI32{}), reflect.TypeOf(sI64{}),
	reflect.TypeOf(sU8{}), reflect.TypeOf(sU16{}), reflect.TypeOf(sU32{}), reflect.TypeOf(sU64{}),
	reflect.TypeOf(sF32{}), reflect.TypeOf(sF64{}), reflect.TypeOf(sNum{}),
}

// decode doc into a fresh value of type t with both libraries and compare
func cmpDecode(path string, api sonic.API, doc string, t reflect.Type, useNumber bool, lit string) (string, string) {
	pv := reflect.New(t)
	err := api.UnmarshalFromString(doc, pv.Interface())
	got := res(pv.Elem().Interface(), err)
	pw := reflect.New(t)
	d := json.NewDecoder(strings.NewReader(doc))
	if useNumber {
		d.UseNumber()
	}
	errw := d.Decode(pw.Interface())
	if errw == nil && d.More() {
		errw = fmt.Errorf("trailing")
	}
	if errw == nil {
		// json.Decoder stops after the value: insist that only white space follows (Unmarshal semantics)
		var rest bytes.Buffer
		rest.ReadFrom(d.Buffered())
		if strings.TrimSpace(rest.String()) != "" {
			errw = fmt.Errorf("trailing")
		}
	}
	want := res(pw.Elem().Interface(), errw)
	rep.Evaluations++
	if got != want {
		if c := classifyDecode(path, lit, got, want); strings.HasPrefix(c, "ignore:") {
			rep.Outcomes[c]++
		} else {
			failc(path, doc, got, want, c)
		}
	}
	return got, want
}

func clearNegZero(s string) string {
	s = strings.ReplaceAll(s, "f64:8000000000000000", "f64:0000000000000000")
	return strings.ReplaceAll(s, "f32:80000000", "f32:00000000")
}

func destIs(path string, names ...string) bool {
	for _, n := range names {
		if strings.Contains(path, n) {
			return true
		}
	}
	return false
}

// narrow classifiers of the recorded defects (known_findings.d/C19.json); "" = not a recorded defect
func classifyDecode(path, lit, got, want string) string {
	lit = strings.Trim(lit, " \t\r\n") // white space around the literal is part of the document, not of the number
	valid := validNumber(lit)
	if !valid {
		return ""
	}
	d, derr := strconv.ParseFloat(lit, 64)
	// 1. the literal -0 (integer syntax) loses its sign: vnumber's leading-zero early return / optdec's KSint
	if lit == "-0" && got == clearNegZero(want) && got != want {
		return "negzero-literal"
	}
	if lit == "-0" && strings.HasPrefix(*tag, "optdec") && destIs(path, "uint", "U16", "U32") && strings.HasPrefix(got, "ok") && want == "err" {
		return "ignore:optdec-accepts-minus-zero-as-unsigned-0" // exact value, out of C19's scope (C11)
	}
	isF32 := destIs(path, "float32", "/F32")
	if isF32 && !math.IsInf(d, 0) {
		direct, _ := strconv.ParseFloat(lit, 32)
		twice := float32(d)
		db, tb := math.Float32bits(float32(direct)), math.Float32bits(twice)
		// 6. optdec compares the double with MaxFloat32 before rounding
		if strings.HasPrefix(*tag, "optdec") && math.Abs(d) > math.MaxFloat32 && !math.IsInf(float64(twice), 0) && got == "err" {
			return "optdec-f32-range"
		}
		// 2. decimal -> double -> single rounds twice
		if db != tb || math.IsInf(float64(twice), 0) != math.IsInf(direct, 0) {
			exp := "err"
			if !math.IsInf(float64(twice), 0) {
				exp = strings.ReplaceAll(want, fmt.Sprintf("f32:%08x", db), fmt.Sprintf("f32:%08x", tb))
			}
			if got == exp {
				return "f32-double-rounding"
			}
		}
	}
	// 3. map[uint32]T keys: range_unsigned_CX compares with a sign-extended 32-bit immediate
	if *tag == "jit" && strings.Contains(path, "map[uint32]") {
		if u, err := strconv.ParseUint(lit, 10, 63); err == nil && u > math.MaxUint32 && isIntLit(lit) {
			if got == fmt.Sprintf("ok {uint32:%d=bool:true}", uint32(u)) && want == "err" {
				return "mapkey-u32-wrap"
			}
		}
	}
	// 5. optdec parses every number eagerly: literals beyond the double range fail even for json.Number
	if strings.HasPrefix(*tag, "optdec") && derr != nil && math.IsInf(d, 0) && got == "err" && strings.HasPrefix(want, "ok") &&
		destIs(path, "json.Number", "/N", "UseNumber") {
		return "optdec-number-overflow"
	}
	return ""
}

func apiMode(r *rng.R, fs *files) {
	pool := literalPool(r.Fork(1), *scale)
	modelTied := *tag == "jit"
	seen := map[string]bool{}
	for _, l := range pool {
		s := l.s
		rep.Distribution["lit:"+l.cls]++
		if !seen[s] && s != "" {
			seen[s] = true
			rep.Distinct++
		}
		valid := validNumber(s)
		rep.Outcomes[fmt.Sprintf("valid-number:%v", valid)]++
		// --- every scalar destination, std-compatible configuration and the default one
		for _, t := range scalarTypes {
			got, want := cmpDecode("unmarshal/"+t.String()+"/std", cfgStd, s, t, false, s)
			got2, _ := cmpDecode("unmarshal/"+t.String()+"/default", cfgDefault, s, t, false, s)
			_ = want
			if got != got2 {
				fail("unmarshal/"+t.String()+"/std-vs-default", s, got, got2)
			}
			if modelTied && !strings.ContainsAny(s, " \t\r\n") {
				kind, w := "", ""
				switch t.Kind() {
				case reflect.Int8, reflect.Int16, reflect.Int32, reflect.Int64:
					kind, w = "ui", strconv.Itoa(t.Bits())
				case reflect.Uint8, reflect.Uint16, reflect.Uint32, reflect.Uint64:
					kind, w = "uu", strconv.Itoa(t.Bits())
				case reflect.Float64:
					kind = "uf64"
				case reflect.Float32:
					kind = "uf32"
				}
				r := "err"
				if strings.HasPrefix(got, "ok ") {
					v := got[strings.IndexByte(got, ':')+1:]
					if kind == "uf64" || kind == "uf32" {
						u, _ := strconv.ParseUint(v, 16, 64)
						v = strconv.FormatUint(u, 10)
					}
					r = "ok " + v
				}
				switch kind {
				case "ui", "uu":
					fs.emit([]string{kind, w, out.HexS(s)}, r)
				case "uf64", "uf32":
					fs.emit([]string{kind, out.HexS(s)}, r)
				}
			}
		}
		// --- interface{} destinations
		var e interface{}
		et := reflect.TypeOf(&e).Elem()
		cmpDecode("unmarshal/interface/std", cfgStd, s, et, false, s)
		cmpDecode("unmarshal/interface/default", cfgDefault, s, et, false, s)
		gotN, _ := cmpDecode("unmarshal/interface/UseNumber", cfgUseNumber, s, et, true, s)
		if valid && gotN != "ok num:"+s {
			failc("unmarshal/interface/UseNumber/text-preserved", s, gotN, "ok num:"+s, classifyDecode("unmarshal/interface/UseNumber", s, gotN, "ok num:"+s))
		}
		// UseInt64: an integer literal that fits int64 becomes int64, everything else as without the switch
		if !strings.ContainsAny(s, " \t\r\n") {
			var v interface{}
			err := cfgUseInt64.UnmarshalFromString(s, &v)
			got := res(v, err)
			want := "err"
			if valid {
				if iv, e2 := strconv.ParseInt(s, 10, 64); e2 == nil && isIntLit(s) {
					want = fmt.Sprintf("ok int64:%d", iv)
				} else if f, e3 := strconv.ParseFloat(s, 64); e3 == nil {
					want = fmt.Sprintf("ok f64:%016x", math.Float64bits(f))
				}
			}
			rep.Evaluations++
			if got != want {
				fail("unmarshal/interface/UseInt64", s, got, want)
			}
		}
		// --- containers, only for well-formed numbers (malformed documents belong to C02)
		if valid && len(s) < 400 {
			for _, t := range scalarTypes {
				cmpDecode("unmarshal/[]"+t.String(), cfgStd, "["+s+"]", reflect.SliceOf(t), false, s)
				cmpDecode("unmarshal/[1]"+t.String(), cfgStd, "["+s+"]", reflect.ArrayOf(1, t), false, s)
				cmpDecode("unmarshal/*"+t.String(), cfgStd, s, reflect.PtrTo(t), false, s)
				if k := t.Kind(); k != reflect.String && k != reflect.Float32 && k != reflect.Float64 { // encoding/json has no float keys
					cmpDecode("unmarshal/map["+t.String()+"]bool", cfgStd, `{"`+s+`":true}`, reflect.MapOf(t, reflect.TypeOf(true)), false, s)
				}
				cmpDecode("unmarshal/map[string]"+t.String(), cfgStd, `{"k":`+s+`}`, reflect.MapOf(reflect.TypeOf(""), t), false, s)
			}
			for _, t := range stringTypes {
				cmpDecode("unmarshal/,string/"+t.Field(0).Type.String(), cfgStd, `{"A":"`+s+`"}`, t, false, s)
			}
			doc := fmt.Sprintf(`{"I8":%s,"U16":%s,"I32":%s,"U32":%s,"F32":%s,"F64":%s,"N":%s,"E":%s}`, s, s, s, s, s, s, s, s)
			_ = doc
			for _, f := range []string{"I8", "U16", "I32", "U32", "F32", "F64", "N", "E"} {
				cmpDecode("unmarshal/struct-field/"+f, cfgStd, `{"`+f+`":`+s+`}`, reflect.TypeOf(sAll{}), false, s)
			}
			cmpDecode("unmarshal/[]interface", cfgStd, "["+s+","+s+"]", reflect.TypeOf([]interface{}{}), false, s)
			cmpDecode("unmarshal/map[string]interface/UseNumber", cfgUseNumber, `{"k":`+s+`}`, reflect.TypeOf(map[string]interface{}{}), true, s)
		}
		// --- ast
		astPaths(s, valid)
		preorderPaths(fs, s, valid, modelTied)
	}
}

func astPaths(s string, valid bool) {
	n, err := sonic.GetFromString(s)
	rep.Evaluations++
	if !valid {
		if err == nil && n.Valid() {
			// the searcher is lazy about trailing bytes; only a *number* node for a non-number text is a finding
			if n.TypeSafe() == ast.V_NUMBER {
				raw, _ := n.Raw()
				if raw == s {
					fail("ast/Get/accepts-malformed", s, "number node", "error")
				}
			}
		}
		return
	}
	if err != nil {
		fail("ast/Get", s, "err "+err.Error(), "number node")
		return
	}
	chk := func(path, got, want string) {
		rep.Evaluations++
		if got != want {
			fail(path, s, got, want)
		}
	}
	f, ferr := strconv.ParseFloat(s, 64)
	fwant := "err"
	if ferr == nil {
		fwant = fmt.Sprintf("ok f64:%016x", math.Float64bits(f))
	}
	iv, ierr := strconv.ParseInt(s, 10, 64)
	iwant := "err"
	if ierr == nil && isIntLit(s) {
		iwant = fmt.Sprintf("ok int64:%d", iv)
	}
	g, e := n.Float64()
	chk("ast/Node.Float64", res(g, e), fwant)
	g, e = n.StrictFloat64()
	chk("ast/Node.StrictFloat64", res(g, e), fwant)
	i, e := n.StrictInt64()
	chk("ast/Node.StrictInt64", res(i, e), iwant)
	i, e = n.Int64()
	// Int64 is documented as a cast; the property still wants out-of-range / non-integer literals rejected
	rep.Evaluations++
	if g := res(i, e); g != iwant {
		cls := ""
		if iwant == "err" && ferr == nil && g == fmt.Sprintf("ok int64:%d", int64(f)) {
			cls = "node-int64-cast" // toInt64 failed, fell back to int64(toFloat64())
		}
		failc("ast/Node.Int64", s, g, iwant, cls)
	}
	num, e := n.Number()
	chk("ast/Node.Number", res(num, e), "ok num:"+s)
	num, e = n.StrictNumber()
	chk("ast/Node.StrictNumber", res(num, e), "ok num:"+s)
	raw, e := n.Raw()
	chk("ast/Node.Raw", res(raw, e), "ok str:"+s)
	x, e := n.Interface()
	chk("ast/Node.Interface", res(x, e), fwant)
	x, e = n.InterfaceUseNumber()
	chk("ast/Node.InterfaceUseNumber", res(x, e), "ok num:"+s)
	// a number inside a document, reached by path, after loading
	root, err := sonic.GetFromString(`{"a":[0,` + s + `]}`)
	if err == nil {
		g, e = root.Get("a").Index(1).Float64()
		chk("ast/path/Float64", res(g, e), fwant)
		root.LoadAll()
		num, e = root.Get("a").Index(1).Number()
		chk("ast/loaded/Number", res(num, e), "ok num:"+s)
		b, e := root.MarshalJSON()
		chk("ast/MarshalJSON", res(string(b), e), `ok str:{"a":[0,`+s+`]}`)
	} else {
		fail("ast/Get/doc", s, "err", "ok")
	}
	nn := ast.NewNumber(s)
	b, e := nn.MarshalJSON()
	chk("ast/NewNumber/MarshalJSON", res(string(b), e), "ok str:"+s)
}

// ---------------------------------------------------------------- encoding

type (
	eInts struct {
		A int8
		B int16
		C int32
		D int64
		E int
		F uint8
		G uint16
		H uint32
		I uint64
		J uint
		K uintptr
	}
	eStr struct {
		A int64   `json:",string"`
		B uint64  `json:",string"`
		C float64 `json:",string"`
		D float32 `json:",string"`
		E int8    `json:",string"`
	}
)

func cmpMarshal(path string, v interface{}) {
	got, err := cfgStd.Marshal(v)
	want, errw := json.Marshal(v)
	rep.Evaluations++
	g, w := res(string(got), err), res(string(want), errw)
	if g != w {
		cls := ""
		in := dumpIn(v)
		if *tag == "vm" && (strings.Contains(in, "f64:8000000000000000") || strings.Contains(in, "f32:80000000")) &&
			g == strings.ReplaceAll(w, "-0", "0") {
			cls = "vm-negzero"
		}
		failc(path, in, g, w, cls)
	}
	got2, err2 := cfgDefault.Marshal(v)
	if res(string(got2), err2) != g {
		fail(path+"/std-vs-default", dumpIn(v), res(string(got2), err2), g)
	}
}

func dumpIn(v interface{}) string { return strings.TrimPrefix(dump(v), "ok ") }

func encMode(r *rng.R, fs *files) {
	si, ui := genInts(r.Fork(2), *scale)
	for _, v := range si {
		rep.Distribution[fmt.Sprintf("int:digits=%02d", len(strings.TrimPrefix(strconv.FormatInt(v, 10), "-")))]++
		cmpMarshal("marshal/int64", v)
		cmpMarshal("marshal/int", int(v))
		cmpMarshal("marshal/int32", int32(v))
		cmpMarshal("marshal/int16", int16(v))
		cmpMarshal("marshal/int8", int8(v))
		cmpMarshal("marshal/*int64", &v)
		cmpMarshal("marshal/[]int64", []int64{v, -v})
		cmpMarshal("marshal/[]int8", []int8{int8(v), int8(v >> 8)})
		cmpMarshal("marshal/map[int64]int32", map[int64]int32{v: int32(v)})
		cmpMarshal("marshal/map[int8]int16", map[int8]int16{int8(v): int16(v)})
		cmpMarshal("marshal/struct", eInts{int8(v), int16(v), int32(v), v, int(v), uint8(v), uint16(v), uint32(v), uint64(v), uint(v), uintptr(v)})
		cmpMarshal("marshal/,string", eStr{A: v, B: uint64(v), E: int8(v)})
		cmpMarshal("marshal/interface(int64)", []interface{}{v, int8(v), int16(v), int32(v)})
		rep.Distinct++
	}
	for _, v := range ui {
		cmpMarshal("marshal/uint64", v)
		cmpMarshal("marshal/uint", uint(v))
		cmpMarshal("marshal/uintptr", uintptr(v))
		cmpMarshal("marshal/uint32", uint32(v))
		cmpMarshal("marshal/uint16", uint16(v))
		cmpMarshal("marshal/uint8", uint8(v))
		cmpMarshal("marshal/[]uint64", []uint64{v, ^v})
		cmpMarshal("marshal/[]uint16", []uint16{uint16(v), uint16(v >> 16)})
		cmpMarshal("marshal/map[uint64]uint8", map[uint64]uint8{v: uint8(v)})
		cmpMarshal("marshal/map[uint32]uint32", map[uint32]uint32{uint32(v): uint32(v)})
		cmpMarshal("marshal/interface(uint64)", []interface{}{v, uint8(v), uint16(v), uint32(v), uintptr(v)})
		rep.Distinct++
	}
	for _, b := range genF64(r.Fork(3), *scale) {
		f := math.Float64frombits(b)
		rep.Outcomes[fmt.Sprintf("f64:finite=%v", !math.IsNaN(f) && !math.IsInf(f, 0))]++
		cmpMarshal("marshal/float64", f)
		cmpMarshal("marshal/*float64", &f)
		cmpMarshal("marshal/[]float64", []float64{f, -f})
		cmpMarshal("marshal/map[string]float64", map[string]float64{"k": f})
		cmpMarshal("marshal/struct{float64}", struct{ A, B float64 }{f, f})
		cmpMarshal("marshal/,string/float64", eStr{C: f})
		cmpMarshal("marshal/interface(float64)", []interface{}{f})
		rep.Distinct++
		// ast encoding of a float
		if !math.IsNaN(f) && !math.IsInf(f, 0) {
			n := ast.NewAny(f)
			got, err := n.MarshalJSON()
			want, _ := json.Marshal(f)
			rep.Evaluations++
			if g, w := res(string(got), err), res(string(want), nil); g != w {
				cls := ""
				if *tag == "vm" && b == 1<<63 && g == "ok str:0" {
					cls = "vm-negzero"
				}
				failc("ast/NewAny(float64)/MarshalJSON", fmt.Sprintf("%016x", b), g, w, cls)
			}
		}
	}
	for _, b := range genF32(r.Fork(4), *scale) {
		f := math.Float32frombits(b)
		cmpMarshal("marshal/float32", f)
		cmpMarshal("marshal/[]float32", []float32{f, -f})
		cmpMarshal("marshal/map[string]float32", map[string]float32{"k": f})
		cmpMarshal("marshal/struct{float32}", struct{ A, B float32 }{f, f})
		cmpMarshal("marshal/,string/float32", eStr{D: f})
		cmpMarshal("marshal/interface(float32)", []interface{}{f})
		rep.Distinct++
	}
	// json.Number on the encoding side: text preserved when valid, rejected otherwise
	for _, l := range genLiterals(r.Fork(1), 1) {
		if len(l.s) > 300 || strings.ContainsAny(l.s, "\x00") {
			continue
		}
		cmpMarshal("marshal/json.Number", json.Number(l.s))
		cmpMarshal("marshal/[]json.Number", []json.Number{json.Number(l.s)})
		cmpMarshal("marshal/struct{json.Number}", struct{ N json.Number }{json.Number(l.s)})
		cmpMarshal("marshal/interface(json.Number)", []interface{}{json.Number(l.s)})
		cmpMarshal("marshal/map[string]json.Number", map[string]json.Number{"k": json.Number(l.s)})
		cmpMarshal("marshal/,string/json.Number", sNum{json.Number(l.s)})
	}
}

// ---------------------------------------------------------------- ast.Preorder (the only ast path that converts numbers natively)

type numVisitor struct {
	got []string
}

func (v *numVisitor) OnNull() error                  { return nil }
func (v *numVisitor) OnBool(bool) error              { return nil }
func (v *numVisitor) OnString(string) error          { return nil }
func (v *numVisitor) OnObjectBegin(int) error        { return nil }
func (v *numVisitor) OnObjectKey(string) error       { return nil }
func (v *numVisitor) OnObjectEnd() error             { return nil }
func (v *numVisitor) OnArrayBegin(int) error         { return nil }
func (v *numVisitor) OnArrayEnd() error              { return nil }
func (v *numVisitor) OnInt64(i int64, n json.Number) error {
	v.got = append(v.got, fmt.Sprintf("int64:%d num:%s", i, string(n)))
	return nil
}
func (v *numVisitor) OnFloat64(f float64, n json.Number) error {
	v.got = append(v.got, fmt.Sprintf("f64:%016x num:%s", math.Float64bits(f), string(n)))
	return nil
}

var longPad = strings.Repeat("x", 1000)

// the literal at the very end of the document and followed by long padding: the native conversion must not depend
// on what follows (the big-decimal fallback gets its digit buffer from the Go caller)
func preorderPaths(fs *files, s string, valid bool, modelTied bool) {
	if !valid {
		return
	}
	want := "err"
	if iv, err := strconv.ParseInt(s, 10, 64); err == nil && isIntLit(s) {
		want = fmt.Sprintf("int64:%d num:%s", iv, s)
	} else if f, err := strconv.ParseFloat(s, 64); err == nil {
		want = fmt.Sprintf("f64:%016x num:%s", math.Float64bits(f), s)
	}
	docs := []struct{ name, doc string }{
		{"end/bare", s},
		{"end/array", "[" + s + "]"},
		{"end/object", `{"k":` + s + `}`},
		{"padded/array", "[" + s + `,"` + longPad + `"]`},
		{"padded/object", `{"k":` + s + `,"p":"` + longPad + `"}`},
		{"padded/space", s + strings.Repeat(" ", 1000)},
	}
	first := ""
	for i, d := range docs {
		var v numVisitor
		err := ast.Preorder(d.doc, &v, nil)
		got := "err"
		if err == nil && len(v.got) == 1 {
			got = v.got[0]
		} else if err == nil {
			got = fmt.Sprintf("%d callbacks", len(v.got))
		}
		rep.Evaluations++
		if i == 0 {
			first = got
		}
		if got != want {
			failc("ast/Preorder/"+d.name, d.doc, got, want, "")
		} else if got != first {
			fail("ast/Preorder/placement-dependent", d.doc, got, first)
		}
		// the verified specification value (nearest_bits of the exact rational), for float results
		if modelTied && (i == 1 || i == 3) && !strings.ContainsAny(s, " \t\r\n") {
			switch {
			case strings.HasPrefix(got, "f64:"):
				u, _ := strconv.ParseUint(got[4:20], 16, 64)
				fs.emit([]string{"nb64", out.HexS(s)}, "ok "+strconv.FormatUint(u, 10))
			case got == "err" && want == "err":
				if f, _ := strconv.ParseFloat(s, 64); math.IsInf(f, 0) {
					fs.emit([]string{"nb64", out.HexS(s)}, "inf")
				}
			}
		}
	}
	// OnlyNumber: no conversion, the text must be preserved
	{
		var v numVisitor
		err := ast.Preorder("["+s+"]", &v, &ast.VisitorOptions{OnlyNumber: true})
		rep.Evaluations++
		if err != nil || len(v.got) != 1 || !strings.HasSuffix(v.got[0], "num:"+s) {
			fail("ast/Preorder/OnlyNumber", s, fmt.Sprint(err, v.got), "num:"+s)
		}
	}
	// raw nodes
	for _, doc := range []string{s, s + strings.Repeat(" ", 100)} {
		n := ast.NewRaw(doc)
		rep.Evaluations += 2
		f, ferr := strconv.ParseFloat(s, 64)
		fw := "err"
		if ferr == nil {
			fw = fmt.Sprintf("ok f64:%016x", math.Float64bits(f))
		}
		g, e := n.Float64()
		if r := res(g, e); r != fw {
			fail("ast/NewRaw.Float64", doc, r, fw)
		}
		x, e := n.Interface()
		if r := res(x, e); r != fw {
			fail("ast/NewRaw.Interface", doc, r, fw)
		}
	}
}
