package main

import (
	"math"
	"math/big"
	"strconv"
	"strings"

	"verif/harness/internal/rng"
)

// A literal with the generator class it came from (for the distribution in the evidence).
type lit struct {
	s   string
	cls string
}

func digits(r *rng.R, n int, first19 bool) string {
	b := make([]byte, n)
	for i := range b {
		b[i] = byte('0' + r.Intn(10))
	}
	if first19 && n > 0 && b[0] == '0' {
		b[0] = byte('1' + r.Intn(9))
	}
	return string(b)
}

// exact decimal expansion of m * 2^e (m >= 0)
func dyadicDecimal(m *big.Int, e int) string {
	if e >= 0 {
		return new(big.Int).Lsh(m, uint(e)).String()
	}
	k := -e
	num := new(big.Int).Mul(m, new(big.Int).Exp(big.NewInt(5), big.NewInt(int64(k)), nil))
	ds := num.String()
	if len(ds) <= k {
		ds = strings.Repeat("0", k-len(ds)+1) + ds
	}
	ip, fp := ds[:len(ds)-k], strings.TrimRight(ds[len(ds)-k:], "0")
	if fp == "" {
		return ip
	}
	return ip + "." + fp
}

// midpoint between the finite double x > 0 and its successor, exactly
func midpoint64(bits uint64) string {
	bexp := int(bits >> 52 & 0x7ff)
	frac := bits & (1<<52 - 1)
	var m uint64
	var e int
	if bexp == 0 {
		m, e = frac, -1074
	} else {
		m, e = frac|1<<52, bexp-1075
	}
	mm := new(big.Int).SetUint64(m)
	mm.Lsh(mm, 1).Add(mm, big.NewInt(1)) // 2m+1
	return dyadicDecimal(mm, e-1)
}

func midpoint32(bits uint32) string {
	bexp := int(bits >> 23 & 0xff)
	frac := uint64(bits & (1<<23 - 1))
	var m uint64
	var e int
	if bexp == 0 {
		m, e = frac, -149
	} else {
		m, e = frac|1<<23, bexp-150
	}
	mm := new(big.Int).SetUint64(m)
	mm.Lsh(mm, 1).Add(mm, big.NewInt(1))
	return dyadicDecimal(mm, e-1)
}

// rewrite a plain decimal "123.456" with a different (equivalent) exponent notation
func reExp(r *rng.R, s string) string {
	shift := r.Intn(40) - 20
	ip, fp := s, ""
	if i := strings.IndexByte(s, '.'); i >= 0 {
		ip, fp = s[:i], s[i+1:]
	}
	all := ip + fp
	pos := len(ip) - shift // new position of the point inside all
	for pos <= 0 {
		all = "0" + all
		pos++
	}
	for pos > len(all) {
		all += "0"
	}
	nip := strings.TrimLeft(all[:pos], "0")
	if nip == "" {
		nip = "0"
	}
	out := nip
	if pos < len(all) {
		out += "." + all[pos:]
	}
	e := []string{"e", "E"}[r.Intn(2)]
	sg := ""
	if shift >= 0 && r.Bool() {
		sg = "+"
	}
	return out + e + sg + strconv.Itoa(shift)
}

func perturb(s string, up bool) string {
	// append a digit beyond the end (slightly above), or lower the last non-zero digit and append 9s (slightly below)
	if up {
		if !strings.Contains(s, ".") {
			s += ".0"
		}
		return s + "000000000000000000001"
	}
	b := []byte(s)
	for i := len(b) - 1; i >= 0; i-- {
		if b[i] >= '1' && b[i] <= '9' {
			b[i]--
			rest := string(b[i+1:])
			if !strings.Contains(string(b), ".") {
				return string(b[:i+1]) + strings.Repeat("9", len(rest)) + ".99999999999999999999"
			}
			return string(b[:i+1]) + strings.Map(func(c rune) rune {
				if c == '0' {
					return '9'
				}
				return c
			}, rest) + "99999999999999999999"
		}
	}
	return s
}

var widthBounds = []string{
	"127", "128", "129", "-127", "-128", "-129", "255", "256", "257", "254",
	"32767", "32768", "32769", "-32767", "-32768", "-32769", "65535", "65536", "65534", "65537",
	"2147483647", "2147483648", "2147483649", "-2147483647", "-2147483648", "-2147483649",
	"4294967295", "4294967296", "4294967294", "4294967297", "8589934591", "8589934592", "4294967551", "4294967552",
	"9223372036854775806", "9223372036854775807", "9223372036854775808", "9223372036854775809",
	"-9223372036854775807", "-9223372036854775808", "-9223372036854775809", "-9223372036854775810",
	"18446744073709551614", "18446744073709551615", "18446744073709551616", "18446744073709551617",
	"-18446744073709551615", "-18446744073709551616", "18446744073709551871", "18446744073709551872",
	"9223372036854775817", "9223372036854775799", "92233720368547758070", "92233720368547758080", "-92233720368547758080",
	"184467440737095516150", "184467440737095516160", "1844674407370955161", "1844674407370955162",
	"922337203685477580", "922337203685477581", "-922337203685477580", "-922337203685477581",
	"340282346638528859811704183484516925440", "340282356779733661637539395458142568447", "340282356779733661637539395458142568448",
	"9007199254740992", "9007199254740993", "9007199254740994", "9007199254740991", "-9007199254740993",
	"0", "-0", "1", "-1", "9", "10", "-10", "99", "100",
	"9999999999999999999", "10000000000000000000", "99999999999999999999", "100000000000000000000", "999999999999999999999",
	"1000000000000000000000", "-9999999999999999999", "-10000000000000000000",
}

var specialFloats = []string{
	"0.0", "-0.0", "0e0", "-0e0", "0E+5", "-0.000", "0.000e-999", "0e99999", "-0e-99999", "0.1", "0.2", "0.3", "1.5", "-1.5", "2.5",
	"1e0", "1E0", "1e+0", "1e-0", "1e1", "1e22", "1e23", "1e-22", "1e-23", "8.5e22", "123456789012345e22", "123456789012345e23", "1e37", "9007199254740993e0",
	"4.9e-324", "4.94065645841246544e-324", "2.47032822920623272e-324", "2.4703282292062327208e-324", "2.4703282292062327209e-324", "2.470328229206232720e-324",
	"2.2250738585072014e-308", "2.2250738585072011e-308", "2.2250738585072009e-308", "2.225073858507201e-308", "2.2250738585072012e-308",
	"1.7976931348623157e308", "1.7976931348623158e308", "1.7976931348623159e308", "1.797693134862315807e308", "1.797693134862315808e308", "1.8e308", "1e308", "1e309", "-1e309", "1e400", "-1e400", "1e-400", "-1e-400",
	"17976931348623158079372897140530341507993413271003782693617377898044496829276475094664901797758720709633028641669288791094655554785194040263065748867150582068190890200070838367627385484581771153176447573027006985557136695962284291481986083493647529271907416844436551070434271155969950809304288017790417449779.0",
	"179769313486231580793728971405303415079934132710037826936173778980444968292764750946649017977587207096330286416692887910946555547851940402630657488671505820681908902000708383676273854845817711531764475730270069855571366959622842914819860834936475292719074168444365510704342711559699508093042880177904174497792",
	"179769313486231580793728971405303415079934132710037826936173778980444968292764750946649017977587207096330286416692887910946555547851940402630657488671505820681908902000708383676273854845817711531764475730270069855571366959622842914819860834936475292719074168444365510704342711559699508093042880177904174497791",
	"3.4028234663852886e38", "3.4028235677973366e38", "3.4028235677973367e38", "3.4028235677973365e38", "3.4028236e38", "3.4028235e38", "3.5e38", "-3.4028235677973366e38", "1e39", "1e38",
	"1.401298464324817e-45", "7.006492321624085e-46", "7.0064923216240853e-46", "7.0064923216240854e-46", "7.00649232162408535461864791644958065640130970938257885878534141944895541342930300743319094181060791015625e-46",
	"1.1754943508222875e-38", "1.1754942106924411e-38", "1.17549435e-38",
	"1.000000059604644775390625", "1.00000005960464477539062500000000000000001", "1.0000000596046447753906249999999999999", "16777217", "16777217.0", "16777217.000000001", "33554434", "33554435", "1.00000017881393421514957253748434595763683319091796875",
	"1e9999", "1e10000", "1e10001", "1e99999", "1e100000", "1e-9999", "1e-10000", "1e-100000", "0.1e99999", "1e4294967296", "1e-4294967296", "1e18446744073709551616",
	"123456789012345678", "1234567890123456789", "12345678901234567890", "123456789012345678901", "1.2345678901234567", "1.23456789012345678", "1.234567890123456789", "12345678901234567.89", "0.000000000000000000000000000001234567890123456789012345",
	"9.999999999999999e20", "1e21", "1.0000000000000001e21", "999999999999999900000", "1000000000000000000000", "1e-6", "9.999999999999999e-7", "1e-7", "0.000001", "0.0000009999999999999999",
	"5e-324", "3e-324", "2e-324", "1e-323", "9.8813129168249309e-324", "7.4109846876186982e-324",
}

var malformed = []string{
	"", "-", "+", "+1", "--1", "-+1", ".", ".5", "-.5", "1.", "-1.", "1.e5", "1e", "1e+", "1e-", "1E", "1e+-5", "1ee5", "1e5e5", "1.5.5", "1..5", "1e5.5", "1e.5",
	"00", "01", "-01", "-00", "00.5", "0x10", "0123", "1e 5", "1 e5", "1e5 ", " 1", "1,", "1]", "1}", "1x", "1e5x", "1.5x", "-x", "x", "e5", "E5", "-e5", "1-2", "1+2", "1e5-3", "1e5+3",
	"Infinity", "-Infinity", "NaN", "inf", "nan", "0x1p-2", "1_000", "1e1_0", "١", "１", "1\x00", "\x001", "-\x00", "1.\x00", "1e\x00",
	"0.", "0e", "0e+", "0.e1", "-0.", "-0e", "0.0.", "0.0e", "0.0e+", "0..", "0ee", "0.-", "0e.", "0-", "0+", "00e1", "-00.0",
}

// the pool of number literals every tier draws from
func genLiterals(r *rng.R, scale int) []lit {
	var out []lit
	add := func(cls, s string) { out = append(out, lit{s, cls}) }
	for _, s := range widthBounds {
		add("int-boundary", s)
		if r.Chance(1, 3) {
			add("int-boundary-frac", s+[]string{".0", ".5", "e0", "E+1", "e-1", ".00", "e+00"}[r.Intn(7)])
		}
	}
	for _, s := range specialFloats {
		add("float-special", s)
		if !strings.HasPrefix(s, "-") && r.Chance(1, 4) {
			add("float-special", "-"+s)
		}
	}
	for _, s := range malformed {
		add("malformed", s)
	}
	n := 40 * scale
	// random integers of every length
	for i := 0; i < n; i++ {
		d := 1 + r.Intn(25)
		s := digits(r, d, true)
		if r.Chance(1, 3) {
			s = "-" + s
		}
		add("int-random", s)
	}
	// integers around 2^63 / 2^64 with a random low part
	for i := 0; i < n/2; i++ {
		base := []string{"922337203685477", "1844674407370955", "92233720368547758", "18446744073709551"}[r.Intn(4)]
		s := base + digits(r, 19-len(base)+r.Intn(3), false)
		if r.Chance(1, 3) {
			s = "-" + s
		}
		add("int-near-64", s)
	}
	// random decimal floats: mantissa lengths incl. 17/19/20, exponents small / mid / +-(300..400)
	for i := 0; i < 2*n; i++ {
		nd := []int{1 + r.Intn(8), 15 + r.Intn(4), 17, 19, 20, 21 + r.Intn(20), 1 + r.Intn(40)}[r.Intn(7)]
		m := digits(r, nd, true)
		pt := r.Intn(nd + 1)
		s := m
		if pt == 0 {
			s = "0." + m
		} else if pt < nd {
			s = m[:pt] + "." + m[pt:]
		}
		var e int
		switch r.Intn(6) {
		case 0:
			e = 0
		case 1:
			e = r.Intn(61) - 30
		case 2:
			e = 300 + r.Intn(101)
		case 3:
			e = -(300 + r.Intn(101))
		case 4:
			e = r.Intn(700) - 350
		case 5:
			e = 22 - r.Intn(5)
		}
		if e != 0 || r.Chance(1, 4) {
			sg := ""
			if e >= 0 && r.Bool() {
				sg = "+"
			}
			s += []string{"e", "E"}[r.Intn(2)] + sg + strconv.Itoa(e)
		}
		if r.Chance(1, 3) {
			s = "-" + s
		}
		add("float-random", s)
	}
	// halfway cases of float64 and float32, exact / slightly above / slightly below, plain and re-exponented
	for i := 0; i < n; i++ {
		var mid string
		if r.Chance(2, 3) {
			var bits uint64
			switch r.Intn(4) {
			case 0:
				bits = r.U64() & (1<<63 - 1)
			case 1:
				bits = uint64(r.Intn(2047))<<52 | r.U64()&(1<<52-1)
			case 2:
				bits = r.U64() & (1<<52 - 1) >> uint(r.Intn(52)) // subnormal
			case 3:
				bits = uint64(1000+r.Intn(100))<<52 | uint64(r.Intn(3)) // near 1.0, small fractions
			}
			if bits>>52 >= 2047 {
				bits = 2046<<52 | bits&(1<<52-1)
			}
			mid = midpoint64(bits)
		} else {
			bits := uint32(r.U64()) & (1<<31 - 1)
			if r.Bool() {
				bits = uint32(100+r.Intn(60))<<23 | uint32(r.Intn(1<<23))
			}
			if bits>>23 >= 255 {
				bits = 254<<23 | bits&(1<<23-1)
			}
			mid = midpoint32(bits)
		}
		v := mid
		switch r.Intn(3) {
		case 1:
			v = perturb(mid, true)
		case 2:
			v = perturb(mid, false)
		}
		if len(v) < 60 && r.Bool() {
			v = reExp(r, v)
		}
		if r.Chance(1, 4) {
			v = "-" + v
		}
		add("halfway", v)
	}
	// more than 800 significant digits (the big-decimal fallback truncates its buffer)
	for i := 0; i < 4+scale/2; i++ {
		var s string
		switch r.Intn(4) {
		case 0:
			s = digits(r, 1, true) + "." + digits(r, 801+r.Intn(300), false)
		case 1:
			bits := uint64(r.Intn(2046)+1)<<52 | r.U64()&(1<<52-1)
			s = midpoint64(bits)
			if !strings.Contains(s, ".") {
				s += "."
			}
			s += strings.Repeat("0", 820-min(len(s), 810)) + []string{"1", "", "0"}[r.Intn(3)]
			if strings.HasSuffix(s, ".") {
				s += "0"
			}
		case 2:
			s = "0." + strings.Repeat("0", r.Intn(400)) + digits(r, 805+r.Intn(50), true) + "e" + strconv.Itoa(r.Intn(400))
		case 3:
			s = digits(r, 810+r.Intn(100), true) + "e-" + strconv.Itoa(500+r.Intn(400))
		}
		add("over-800-digits", s)
	}
	// shortest and 17-digit renderings of random doubles / powers of two +-1ulp
	for i := 0; i < n; i++ {
		var f float64
		switch r.Intn(3) {
		case 0:
			f = math.Float64frombits(r.U64() & (1<<63 - 1))
		case 1:
			f = math.Float64frombits(uint64(r.Intn(2046)+1)<<52 + uint64(r.Intn(3)) - 1)
		case 2:
			f = float64(math.Float32frombits(uint32(r.U64()) & (1<<31 - 1)))
		}
		if math.IsNaN(f) || math.IsInf(f, 0) {
			f = 1.5
		}
		prec := []int{-1, 16, 17, 18, 20, 8, 9}[r.Intn(7)]
		if prec < 0 {
			add("roundtrip", strconv.FormatFloat(f, byte("eg"[r.Intn(2)]), -1, 64))
		} else {
			add("roundtrip", strconv.FormatFloat(f, 'e', prec-1, 64))
		}
	}
	// float64 values whose bit pattern is a small integer (the static small-value table of rt.T64Pool)
	for _, k := range []uint64{1, 2, 3, 126, 127, 128, 129, 254, 255, 256, 257} {
		add("tiny-subnormal", strconv.FormatFloat(math.Float64frombits(k), 'g', -1, 64))
	}
	for i := 0; i < 4+scale; i++ {
		add("tiny-subnormal", strconv.FormatFloat(math.Float64frombits(uint64(r.Intn(300))), 'e', 17, 64))
	}
	// structured mutations of valid literals
	base := len(out)
	for i := 0; i < n; i++ {
		s := out[r.Intn(base)].s
		if len(s) > 60 {
			continue
		}
		b := []byte(s)
		const alpha = "0123456789+-.eE x,"
		switch r.Intn(3) {
		case 0:
			if len(b) > 0 {
				k := r.Intn(len(b))
				b = append(b[:k], b[k+1:]...)
			}
		case 1:
			k := r.Intn(len(b) + 1)
			b = append(b[:k], append([]byte{alpha[r.Intn(len(alpha))]}, b[k:]...)...)
		case 2:
			if len(b) > 0 {
				b[r.Intn(len(b))] = alpha[r.Intn(len(alpha))]
			}
		}
		add("mutated", string(b))
	}
	return out
}

func boolInt(b bool) int {
	if b {
		return 1
	}
	return 0
}

func min(a, b int) int {
	if a < b {
		return a
	}
	return b
}

// ---- values to print

func genInts(r *rng.R, scale int) (si []int64, ui []uint64) {
	for _, w := range []uint{8, 16, 32, 64} {
		for d := -2; d <= 2; d++ {
			si = append(si, int64(1)<<(w-1)-1+int64(d), -(int64(1) << (w - 1))+int64(d))
			ui = append(ui, uint64(1)<<(w-1)+uint64(d), (uint64(1)<<(w-1))<<1-1+uint64(d))
		}
	}
	p := uint64(1)
	for i := 0; i < 20; i++ {
		ui = append(ui, p, p-1, p+1, p*9, p*9+p-1)
		si = append(si, int64(p), int64(p-1), int64(p+1), -int64(p), -int64(p-1), -int64(p+1))
		p *= 10
	}
	for i := 0; i < 60*scale; i++ {
		nb := uint(1 + r.Intn(64))
		v := r.U64() >> (64 - nb)
		ui = append(ui, v)
		si = append(si, int64(v), -int64(v))
	}
	// every digit length with all-same / zero-heavy digits (digit-pair table, leading-zero count of the SSE kernel)
	for l := 1; l <= 20; l++ {
		for _, pat := range []string{"1", "9", "10", "90", "09", "5"} {
			s := strings.Repeat(pat, 20)[:l]
			if s[0] == '0' {
				s = "1" + s[1:]
			}
			if v, err := strconv.ParseUint(s, 10, 64); err == nil {
				ui = append(ui, v)
				si = append(si, int64(v))
			}
		}
	}
	return
}

func genF64(r *rng.R, scale int) []uint64 {
	var out []uint64
	add := func(f float64) { out = append(out, math.Float64bits(f), math.Float64bits(-f)) }
	for _, f := range []float64{0, 1, 0.1, 0.2, 0.3, 0.5, 1.5, 2.5, 123.456, 1e15, 1e16, 1e17, 1e20, 1e21, 1e22, 1e23, 9.999999999999999e20, 1.0000000000000001e21,
		1e-5, 1e-6, 1e-7, 9.999999999999999e-7, 1.0000000000000002e-6, 0.000001, 5e-324, 1e-323, 2.2250738585072014e-308, 2.225073858507201e-308,
		math.MaxFloat64, math.SmallestNonzeroFloat64, 9007199254740991, 9007199254740992, 9007199254740994, 4503599627370496, 4503599627370497, 4503599627370495.5,
		1e100, 1e-100, 1.7976931348623157e308, 8.98846567431158e307, 3.4028234663852886e38, 1.401298464324817e-45, 100, 1000000, 1e9, 123456789, 0.000123, 299792458, 6.02214076e23, 6.62607015e-34} {
		add(f)
	}
	p := 1.0
	for i := 0; i < 40; i++ {
		add(p)
		add(1 / p)
		add(math.Nextafter(p, 0))
		add(math.Nextafter(p, math.Inf(1)))
		p *= 10
	}
	// powers of two +-1ulp, over all exponents (stratified)
	for i := 0; i < 30*scale; i++ {
		e := uint64(r.Intn(2046) + 1)
		b := e << 52
		out = append(out, b, b-1, b+1)
	}
	// subnormals
	for i := 0; i < 10*scale; i++ {
		out = append(out, r.U64()&(1<<52-1)>>uint(r.Intn(52))|1)
	}
	// random bit patterns, exponent-stratified and uniform
	for i := 0; i < 60*scale; i++ {
		out = append(out, r.U64()&^(0x7ff<<52)|uint64(r.Intn(2047))<<52)
		out = append(out, r.U64())
	}
	// integers (fast path) and short decimals
	for i := 0; i < 20*scale; i++ {
		out = append(out, math.Float64bits(float64(r.U64()>>uint(11+r.Intn(53)))))
		m := float64(r.Intn(100000))
		out = append(out, math.Float64bits(m/math.Pow(10, float64(r.Intn(12)))), math.Float64bits(m*math.Pow(10, float64(r.Intn(25)))))
	}
	return out
}

func genF32(r *rng.R, scale int) []uint32 {
	var out []uint32
	add := func(f float32) { out = append(out, math.Float32bits(f), math.Float32bits(-f)) }
	for _, f := range []float32{0, 1, 0.1, 0.2, 0.3, 0.5, 1.5, 123.456, 1e15, 1e20, 1e21, 1e22, 9.999999e20, 1.0000001e21, 1e-5, 1e-6, 1e-7, 9.999999e-7, 1.0000001e-6,
		math.MaxFloat32, math.SmallestNonzeroFloat32, 1.1754944e-38, 1.1754942e-38, 16777216, 16777215, 8388608, 8388607.5, 3.4028235e38, 1e38, 1e-38, 1e-45, 100, 1e6, 1e9, 0.000123, 2.9979246e8} {
		add(f)
	}
	p := float32(1)
	for i := 0; i < 38; i++ {
		add(p)
		add(1 / p)
		add(math.Nextafter32(p, 0))
		add(math.Nextafter32(p, 2*p))
		p *= 10
	}
	for e := uint32(1); e < 255; e++ {
		b := e << 23
		out = append(out, b, b-1, b+1)
	}
	for i := 0; i < 10*scale; i++ {
		out = append(out, uint32(r.U64())&(1<<23-1)>>uint(r.Intn(23))|1)
	}
	for i := 0; i < 80*scale; i++ {
		out = append(out, uint32(r.U64())&^(0xff<<23)|uint32(r.Intn(255))<<23)
		out = append(out, uint32(r.U64()))
	}
	for i := 0; i < 20*scale; i++ {
		out = append(out, math.Float32bits(float32(r.U64()>>uint(40+r.Intn(24)))))
		m := float32(r.Intn(100000))
		out = append(out, math.Float32bits(m/float32(math.Pow(10, float64(r.Intn(10))))), math.Float32bits(m*float32(math.Pow(10, float64(r.Intn(25))))))
	}
	return out
}
