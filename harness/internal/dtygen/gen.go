package dtygen

import (
	"encoding/base64"
	"fmt"
	"math"
	"math/big"
	"strconv"
	"strings"

	"verif/harness/internal/jgen"
	"verif/harness/internal/rng"
)

// ---------------------------------------------------------------- types

var goNames = []string{"A", "B", "C", "Ab", "AB", "Name", "ID", "X1", "Field", "Aa", "K", "S", "I", "Val", "Zz", "Q", "N0", "F_1"}

// JSON names used as tags and as object keys: case variants of one another, non-ASCII letters with case
// mappings (inside and outside the ASCII-only fold), punctuation allowed in tags.
var jsonNames = []string{"a", "A", "name", "Name", "NAME", "id", "Id", "x-y", "k", "K", "s", "S", "i", "I", "é", "É", "σ", "Σ", "ß", "élève", "Élève", "été", "ÉTÉ",
	"with space", "key", "Key", "kEY", "aa", "aA", "Aa", "n0", "ab", "AB", "Ab", "field", "FIELD", "q", "val", "zz", "x1", "f_1"}

var tagOpts = []string{"", "", "", ",omitempty", ",string", ",string", ",omitempty,string", ",string,omitempty", ",strin", ",String", ", string"}

var embNames = []string{"EmbA", "EmbB", "EmbC", "EmbD", "EmbA2", "EmbAmbig", "EmbShadow", "EmbTagged", "EmbPtr", "EmbUnexported", "EmbDeep"}

var scalarNamed = []string{"MyInt", "MyI8", "MyU16", "MyStr", "MyBool", "MyF64", "MyF32"}

var oracleOnly = []string{"Node", "Tree", "Mixed", "Big60", "HasBig", "Deep1", "HasIfaceM", "HasChan", "PtrHolder", "UnmVal", "MyBytes", "MySlice", "MyMap", "EmbPtr", "EmbDeep"}

func genLeaf(r *rng.R) *Ty {
	switch r.Intn(17) {
	case 0:
		return Leaf(KBool)
	case 1, 2, 3:
		return Int(IntKinds[r.Intn(len(IntKinds))])
	case 4:
		return Leaf(KF32)
	case 5:
		return Leaf(KF64)
	case 6, 7:
		return Leaf(KStr)
	case 8:
		return Leaf(KNum)
	case 9:
		return Leaf(KBytes)
	case 10, 11:
		return Leaf(KAny)
	case 12:
		return Leaf(KRaw)
	case 13:
		return Leaf(KUnm)
	case 14:
		return Leaf(KText)
	case 15:
		return Named(UnmScalars[r.Intn(len(UnmScalars))])
	default:
		return Named(scalarNamed[r.Intn(len(scalarNamed))])
	}
}

func genKey(r *rng.R) *Ty {
	switch r.Intn(10) {
	case 0, 1, 2, 3, 4:
		return Leaf(KStr)
	case 5:
		return Named("MyStr")
	case 6, 7:
		return Int(IntKinds[r.Intn(len(IntKinds))])
	case 8:
		return Leaf(KText)
	default:
		return Named("MyInt")
	}
}

// GenTy generates a destination type; d is the remaining nesting budget.
func GenTy(r *rng.R, d int) *Ty {
	if d <= 0 || r.Chance(1, 4) {
		return genLeaf(r)
	}
	switch r.Intn(12) {
	case 0, 1:
		return Slice(GenTy(r, d-1))
	case 2:
		return Arr(r.Intn(4), GenTy(r, d-1))
	case 3, 4:
		return Map(genKey(r), GenTy(r, d-1))
	case 5, 6:
		return Ptr(GenTy(r, d-1))
	case 7:
		if r.Chance(1, 3) {
			return Named(oracleOnly[r.Intn(len(oracleOnly))])
		}
		if r.Chance(1, 2) {
			// containers of scalar kinds that carry an unmarshaler (the kind's fast path must not win over the method)
			u := Named(UnmScalars[r.Intn(len(UnmScalars))])
			switch r.Intn(5) {
			case 0, 1:
				return Slice(u)
			case 2:
				return Arr(1+r.Intn(2), u)
			case 3:
				return Map(Leaf(KStr), u)
			default:
				return Slice(Ptr(u))
			}
		}
		return Named(embNames[r.Intn(len(embNames))])
	default:
		return GenStruct(r, d)
	}
}

func GenStruct(r *rng.R, d int) *Ty {
	n := r.Intn(6)
	if r.Chance(1, 12) {
		n = 0
	}
	st := &Ty{K: KStruct}
	used := map[string]bool{}
	base := ""
	if r.Chance(1, 3) { // cluster the json names around one base word so that case variants collide
		base = []string{"a", "name", "key", "id", "ab", "k", "s"}[r.Intn(7)]
	}
	for len(st.Fs) < n {
		g := goNames[r.Intn(len(goNames))]
		if used[g] {
			continue
		}
		used[g] = true
		f := Field{Go: g, T: GenTy(r, d-1)}
		if r.Chance(1, 2) {
			name := jsonNames[r.Intn(len(jsonNames))]
			if base != "" && r.Chance(2, 3) {
				name = caseVariant(r, base)
			}
			switch r.Intn(24) {
			case 0:
				name = ""
			case 1:
				name = "-"
			case 2:
				name = `a"b`
			case 3:
				name = `a\b`
			}
			f.HasTag, f.Tag = true, name+tagOpts[r.Intn(len(tagOpts))]
			if r.Chance(1, 40) {
				f.Tag = "-"
			}
		}
		if r.Chance(1, 25) {
			f.Unexp, f.Go = true, strings.ToLower(f.Go[:1])+f.Go[1:]+"u"
		}
		st.Fs = append(st.Fs, f)
	}
	if d > 0 && r.Chance(1, 8) {
		e := embNames[r.Intn(len(embNames))]
		if !used[e] {
			f := Field{Go: e, Emb: true, T: Named(e)}
			if r.Chance(1, 3) {
				f.T = Ptr(f.T)
			}
			pos := r.Intn(len(st.Fs) + 1)
			st.Fs = append(st.Fs[:pos], append([]Field{f}, st.Fs[pos:]...)...)
		}
	}
	return st
}

func caseVariant(r *rng.R, s string) string {
	b := []byte(s)
	for i := range b {
		if r.Bool() && b[i] >= 'a' && b[i] <= 'z' {
			b[i] -= 32
		}
	}
	return string(b)
}

// ---------------------------------------------------------------- initial values

func intRange(ik string) (lo, hi *big.Int) {
	bits := map[string]uint{"i8": 8, "i16": 16, "i32": 32, "i64": 64, "int": 64, "u8": 8, "u16": 16, "u32": 32, "u64": 64, "uint": 64, "uptr": 64}[ik]
	one := big.NewInt(1)
	if isUnsigned(ik) {
		return big.NewInt(0), new(big.Int).Sub(new(big.Int).Lsh(one, bits), one)
	}
	h := new(big.Int).Lsh(one, bits-1)
	return new(big.Int).Neg(h), new(big.Int).Sub(h, one)
}

var keyPool = []string{"a", "A", "k", "name", "1", "-1", "300", "x"}

// GenV0 generates a pre-populated destination value (model view) for t.
func GenV0(r *rng.R, t *Ty, d int) *Val {
	if r.Chance(2, 5) || d <= 0 {
		return Nil
	}
	t = t.deref()
	switch t.K {
	case KBool:
		return VBool(true)
	case KInt:
		lo, hi := intRange(t.IK)
		switch r.Intn(3) {
		case 0:
			return &Val{K: 'i', I: hi}
		case 1:
			return &Val{K: 'i', I: lo}
		}
		return VInt(int64(r.Intn(100)))
	case KF32:
		return VF32(2.5)
	case KF64:
		return VF64(-7.25)
	case KStr:
		return VStr("old")
	case KNum:
		return VStr("77")
	case KBytes:
		if r.Bool() {
			return &Val{K: 's', S: []byte{}}
		}
		return &Val{K: 's', S: []byte("xyz")}
	case KRaw:
		return &Val{K: 's', S: []byte(`{"old":1}`)}
	case KUnm:
		return VStr("oldraw")
	case KText:
		return VStr("oldtext")
	case KSlice:
		v := &Val{K: 'l'}
		for i, n := 0, r.Intn(3); i < n; i++ {
			v.L = append(v.L, genV0NonNil(r, t.El, d-1))
		}
		for i, n := 0, r.Intn(3); i < n; i++ {
			v.H = append(v.H, genV0NonNil(r, t.El, d-1))
		}
		return v
	case KArr:
		v := &Val{K: 'l'}
		for i := 0; i < t.N; i++ {
			v.L = append(v.L, genV0NonNil(r, t.El, d-1))
		}
		return v
	case KMap:
		v := &Val{K: 'm'}
		seen := map[string]bool{}
		for i, n := 0, r.Intn(3); i < n; i++ {
			k := genKeyVal(r, t.Key)
			if k == nil || seen[k.String()] {
				continue
			}
			seen[k.String()] = true
			v.MK = append(v.MK, k)
			v.MV = append(v.MV, genV0NonNil(r, t.El, d-1))
		}
		return v
	case KPtr:
		return VPtr(genV0NonNil(r, t.El, d-1))
	case KStruct:
		v := &Val{K: 'l'}
		for _, f := range t.Resolve() {
			if f.ViaPtr {
				v.L = append(v.L, Nil)
			} else {
				v.L = append(v.L, GenV0(r, f.T, d-1))
			}
		}
		return v
	case KAny:
		switch r.Intn(5) {
		case 0:
			return VF64(1.5)
		case 1:
			return VStr("olds")
		case 2:
			return VList(VBool(true), Nil)
		case 3:
			return &Val{K: 'm', MK: []*Val{VStr("a")}, MV: []*Val{VF64(3)}}
		}
		return VBool(false)
	}
	return Nil
}

func genV0NonNil(r *rng.R, t *Ty, d int) *Val {
	for i := 0; i < 4; i++ {
		if v := GenV0(r, t, d+1); v.K != 'z' {
			return v
		}
	}
	return GenV0(r, t, d)
}

func genKeyVal(r *rng.R, k *Ty) *Val {
	k = k.deref()
	switch k.K {
	case KStr, KText:
		return VStr(keyPool[r.Intn(len(keyPool))])
	case KInt:
		lo, hi := intRange(k.IK)
		c := big.NewInt([]int64{1, -1, 300, 0, 7}[r.Intn(5)])
		if c.Cmp(lo) < 0 || c.Cmp(hi) > 0 {
			c = big.NewInt(1)
		}
		return &Val{K: 'i', I: c}
	}
	return nil
}

// ---------------------------------------------------------------- inputs steered toward the type

type igen struct {
	r  *rng.R
	jo jgen.Opts
	// lexical deviations inside string literals (raw control characters, invalid UTF-8, bad escapes) allowed
	lex bool
}

var foldSpecial = strings.NewReplacer("s", "ſ", "S", "ſ", "k", "K", "K", "K", "i", "İ", "σ", "ς")

func (g *igen) ws() string {
	switch g.r.Intn(10) {
	case 0:
		return " "
	case 1:
		return "\n\t"
	case 2:
		return strings.Repeat(" ", jgen.BlockLen(g.r))
	}
	return ""
}

func (g *igen) anyDoc(d int) string {
	var b strings.Builder
	o := g.jo
	o.MaxDepth = d
	jgen.Value(g.r, &o, 0, &b)
	return b.String()
}

func (g *igen) strLit(s string) string {
	q := jgen.QuoteJSON(g.r, &g.jo, s)
	if g.lex && g.r.Chance(1, 12) && len(q) >= 2 {
		bad := []string{"\x01", "\x1f", "\n", "\x00", "\\x", "\\u12", "\\ud800", "\\udc00\\ud800", "\xff", "\xc0\xaf", "\xe4\xb8", "\xed\xa0\x80", "\\u00zz", "\\", "\x7f"}[g.r.Intn(15)]
		p := 1 + g.r.Intn(len(q)-1)
		q = q[:p] + bad + q[p:]
	}
	return q
}

func (g *igen) str() string {
	return g.strLit(jgen.StrContent(g.r, &g.jo))
}

func decimal(b *big.Int) string { return b.String() }

func (g *igen) intLit(ik string) string {
	lo, hi := intRange(ik)
	one := big.NewInt(1)
	switch g.r.Intn(22) {
	case 0:
		return decimal(lo)
	case 1:
		return decimal(hi)
	case 2:
		return decimal(new(big.Int).Sub(lo, one))
	case 3:
		return decimal(new(big.Int).Add(hi, one))
	case 4:
		return "0"
	case 5:
		return "-0"
	case 6:
		return "-1"
	case 7:
		return []string{"1.0", "1e2", "1.5", "1E0", "0.0", "-1.0e0", "2e-1", "12e0"}[g.r.Intn(8)]
	case 8:
		return []string{"123456789012345678901234567890", "-99999999999999999999", "18446744073709551615", "18446744073709551616", "9223372036854775807", "9223372036854775808", "-9223372036854775808", "-9223372036854775809"}[g.r.Intn(8)]
	case 9:
		return []string{"01", "-01", "+1", "-", "1.", ".5", "1e", "0x10", "1_0", "١"}[g.r.Intn(10)]
	case 10:
		v := new(big.Int).Sub(hi, big.NewInt(int64(g.r.Intn(3))))
		return decimal(v)
	case 11:
		v := new(big.Int).Add(lo, big.NewInt(int64(g.r.Intn(3))))
		return decimal(v)
	case 12:
		return decimal(new(big.Int).Add(hi, big.NewInt(int64(1+g.r.Intn(300)))))
	}
	n := int64(g.r.Intn(2000)) - 1000
	if isUnsigned(ik) && g.r.Chance(9, 10) && n < 0 {
		n = -n
	}
	return strconv.FormatInt(n, 10)
}

var f32Lits = []string{"1.5", "3.4028235e38", "3.4028235e+38", "-3.4028235e38", "3.40282350e38", "3.4028234663852886e38", "3.4028235677973366e38", "340282356779733661637539395458142568447", "340282356779733661637539395458142568448",
	"3.4028236e38", "-3.4028235677973366e38", "1e39", "-1e39", "1e-46", "1.401298464324817e-45", "7e-46", "1.00000005960464477539062500000000000000000001", "1.0000000596046447753906250",
	"16777217", "16777216.999999999999", "0.1", "-0", "1e38", "4e38", "1.17549435e-38", "33554433", "1.00000017881393432617187500000000000001"}

var f64Lits = []string{"1e308", "1.7976931348623157e308", "1.7976931348623158e308", "1.7976931348623159e308", "1e309", "-1e309", "1e400", "4.9e-324", "2.4e-324", "2.5e-324", "1e-400",
	"0.1", "-0", "-0.0", "0e10", "9007199254740993", "9007199254740992.9999", "123456789012345678901234567890", "0.000000000000000000000000000000000000000000001",
	"1e23", "8.41e21", "2.2250738585072011e-308", "2.2250738585072014e-308", "1.0000000000000002220446049250313080847263336181640625", "100000000000000000000000", "1E+2", "1e-2", "5e-1"}

func (g *igen) floatLit(w int) string {
	if g.r.Chance(1, 2) {
		if w == 32 {
			return f32Lits[g.r.Intn(len(f32Lits))]
		}
		return f64Lits[g.r.Intn(len(f64Lits))]
	}
	if g.r.Chance(1, 5) {
		return g.intLit("i64")
	}
	return jgen.Number(g.r, &g.jo)
}

func (g *igen) bytesLit() string {
	n := []int{0, 1, 2, 3, 4, 5, 6, 30, 31, 32, 33, 47, 48, 49, 100}[g.r.Intn(15)]
	raw := make([]byte, n)
	for i := range raw {
		raw[i] = byte(g.r.U64())
	}
	s := base64.StdEncoding.EncodeToString(raw)
	switch g.r.Intn(16) {
	case 0:
		s = strings.TrimRight(s, "=")
	case 1:
		s = base64.URLEncoding.EncodeToString(raw)
	case 2:
		if len(s) > 2 {
			p := g.r.Intn(len(s))
			s = s[:p] + `\n` + s[p:]
		}
	case 3:
		if len(s) > 2 {
			p := g.r.Intn(len(s))
			s = s[:p] + `\r\n` + s[p:]
		}
	case 4:
		if len(s) > 0 {
			p := g.r.Intn(len(s))
			s = s[:p] + []string{"!", " ", "=", "\\u0041", "*", "-"}[g.r.Intn(6)] + s[p:]
		}
	case 5:
		s = strings.ReplaceAll(s, "/", `\/`)
	case 6:
		if len(s) > 1 {
			s = s[:len(s)-1]
		}
	case 7:
		s = strings.ReplaceAll(s, "A", `A`)
	case 8:
		s += "="
	case 9:
		if len(s) >= 4 {
			s = s[:len(s)-2] + "=" + s[len(s)-1:]
		}
	}
	return `"` + s + `"`
}

func (g *igen) keyFor(k *Ty) string {
	k = k.deref()
	switch k.K {
	case KInt:
		if g.r.Chance(1, 6) {
			return `"` + []string{"+1", "01", "1.0", " 1", "1 ", "-0", "", "abc", `1`, "1e1", "0x1", "-", "1_0", "00"}[g.r.Intn(14)] + `"`
		}
		if g.r.Chance(1, 3) {
			return `"` + keyPool[4+g.r.Intn(3)] + `"`
		}
		return `"` + g.intLit(k.IK) + `"`
	}
	if g.r.Chance(1, 2) {
		return g.strLit(keyPool[g.r.Intn(len(keyPool))])
	}
	if g.r.Chance(1, 8) {
		return `"ERR"`
	}
	return g.str()
}

func swapCase(s string) string {
	b := []byte(s)
	for i, c := range b {
		if c >= 'a' && c <= 'z' {
			b[i] = c - 32
		} else if c >= 'A' && c <= 'Z' {
			b[i] = c + 32
		}
	}
	return string(b)
}

func (g *igen) fieldKey(rfs []RField) (string, *RField) {
	if len(rfs) == 0 || g.r.Chance(1, 7) {
		if g.r.Bool() {
			return g.strLit(jsonNames[g.r.Intn(len(jsonNames))]), nil
		}
		return g.str(), nil
	}
	f := &rfs[g.r.Intn(len(rfs))]
	name := f.Name
	switch g.r.Intn(12) {
	case 0:
		name = strings.ToUpper(name)
	case 1:
		name = strings.ToLower(name)
	case 2:
		name = swapCase(name)
	case 3:
		name = caseVariant(g.r, strings.ToLower(name))
	case 4:
		if g.r.Chance(1, 2) {
			name = foldSpecial.Replace(name)
		}
	case 5:
		name = name + "x"
	case 6:
		if len(name) > 1 {
			name = name[:len(name)-1]
		}
	}
	if g.r.Chance(1, 6) {
		// the same key with its non-ASCII letters written as \uXXXX escapes
		var b strings.Builder
		esc := false
		for _, rn := range name {
			if rn >= 0x80 && rn < 0x10000 {
				fmt.Fprintf(&b, `\u%04x`, rn)
				esc = true
			} else if rn < 0x20 || rn == '"' || rn == '\\' || rn >= 0x10000 {
				esc = false
				b.Reset()
				break
			} else {
				b.WriteRune(rn)
			}
		}
		if esc {
			return `"` + b.String() + `"`, f
		}
	}
	return g.strLit(name), f
}

// quoted value for a `,string` field
func (g *igen) quoted(t *Ty) string {
	inner := t
	if inner.K == KPtr {
		inner = inner.El
	}
	inner = inner.deref()
	if g.r.Chance(1, 10) {
		return []string{`"null"`, `null`, `""`, `"\"\""`, `" "`, `"nul"`}[g.r.Intn(6)]
	}
	if g.r.Chance(1, 4) {
		// near misses of the quoted literals: the closing quote replaced by another byte (the rest of the document
		// follows), one letter short / long, blanks inside the quotes
		word := []string{"null", "null", "null", "true", "false", "12", "-3", "0.5"}[g.r.Intn(8)]
		c := []string{"x", "}", "]", ",", ":", " ", "0", "\n", "'", "\\"}[g.r.Intn(10)]
		switch g.r.Intn(8) {
		case 0, 1, 2:
			return `"` + word + c // no closing quote: whatever follows is swallowed or left over
		case 3:
			return `"` + word[:len(word)-1] + `"`
		case 4:
			return `"` + word + word[len(word)-1:] + `"`
		case 5:
			return `"` + word + ` "`
		case 6:
			return `" ` + word + `"`
		default:
			return `"` + word + `"`
		}
	}
	if g.r.Chance(1, 10) {
		return g.value(t, 1) // unquoted
	}
	switch inner.K {
	case KBool:
		return []string{`"true"`, `"false"`, `"tru"`, `"True"`, `"true "`, `"\"true\""`, `"1"`}[g.r.Intn(7)]
	case KInt:
		l := g.intLit(inner.IK)
		switch g.r.Intn(10) {
		case 0:
			return `" ` + l + `"`
		case 1:
			return `"` + l + ` "`
		case 2:
			return `"\"` + l + `\""`
		case 3:
			return `"1"`
		}
		return `"` + l + `"`
	case KF32:
		return `"` + g.floatLit(32) + `"`
	case KF64:
		return `"` + g.floatLit(64) + `"`
	case KNum:
		return []string{`"12"`, `"1e5"`, `"-0.5"`, `"abc"`, `"\"12\""`, `"01"`, `"1."`, `12`, `"12`}[g.r.Intn(9)]
	case KStr:
		c := jgen.StrContent(g.r, &g.jo)
		q := g.strLit(c) // "...."
		switch g.r.Intn(12) {
		case 0:
			return q // not double-quoted: invalid use of ,string
		case 1:
			return `""abc""`
		case 2:
			return `"\"abc"`
		case 3:
			return `"abc\""`
		case 4:
			return `"\"a\\\"b\""`
		case 5:
			return `"\"a\\nb\\u00e9\\ud83d\\ude00\""`
		case 6:
			return `"\"a\"b\""`
		case 7:
			return `"\"\\\""`
		}
		// re-quote the literal: escape backslashes and quotes of q
		return `"` + strings.ReplaceAll(strings.ReplaceAll(q, `\`, `\\`), `"`, `\"`) + `"`
	}
	return g.value(t, 1)
}

// value generates a JSON text for a destination of type t.
func (g *igen) value(t *Ty, d int) string {
	r := g.r
	switch r.Intn(24) {
	case 0:
		return "null"
	case 1:
		return g.anyDoc(1)
	case 2:
		return []string{"true", "false", "0", `""`, "[]", "{}", `"x"`, "1.5", "[1]", `{"a":1}`, "-1", `"null"`, `[null]`}[r.Intn(13)]
	}
	t0 := t
	t = t.deref()
	if d <= 0 && (t.K == KSlice || t.K == KMap || t.K == KStruct || t.K == KArr) {
		if t.K == KSlice || t.K == KArr {
			return "[]"
		}
		return "{}"
	}
	if t.K == KNamed {
		for _, id := range UnmScalars {
			if t.Name == id {
				switch r.Intn(10) {
				case 0:
					return g.intLit("i16")
				case 1:
					return []string{"true", "false", "null", `"ERR"`, "1.5e3", `""`}[r.Intn(6)]
				case 2:
					return g.anyDoc(1)
				}
				return g.str()
			}
		}
	}
	switch t.K {
	case KBool:
		return []string{"true", "false"}[r.Intn(2)]
	case KInt:
		return g.intLit(t.IK)
	case KF32:
		return g.floatLit(32)
	case KF64:
		return g.floatLit(64)
	case KStr:
		return g.str()
	case KNum:
		if r.Chance(1, 6) {
			return []string{`"12"`, `"abc"`, `""`, `"1e5"`, `"-0"`, `"01"`}[r.Intn(6)]
		}
		return g.floatLit(64)
	case KBytes:
		if r.Chance(1, 6) {
			return "[" + g.intLit("u8") + "," + g.ws() + g.intLit("u8") + "]"
		}
		return g.bytesLit()
	case KAny:
		return g.anyDoc(2)
	case KRaw, KUnm:
		if r.Chance(1, 10) {
			return `"ERR"`
		}
		return g.anyDoc(2)
	case KText:
		if r.Chance(1, 10) {
			return `"ERR"`
		}
		return g.str()
	case KSlice, KArr:
		n := r.Intn(4)
		if t.K == KArr {
			n = t.N + r.Intn(3) - 1
			if n < 0 {
				n = 0
			}
			if t.N > 0 && r.Chance(1, 6) {
				// the empty array into a (possibly pre-populated, possibly already decoded) fixed array: every element is zeroed
				n = 0
			}
		}
		var b strings.Builder
		b.WriteString("[" + g.ws())
		for i := 0; i < n; i++ {
			if i > 0 {
				b.WriteString("," + g.ws())
			}
			b.WriteString(g.value(t.El, d-1))
			b.WriteString(g.ws())
		}
		b.WriteString("]")
		return b.String()
	case KMap:
		var b strings.Builder
		b.WriteString("{" + g.ws())
		for i, n := 0, r.Intn(4); i < n; i++ {
			if i > 0 {
				b.WriteString("," + g.ws())
			}
			b.WriteString(g.keyFor(t.Key) + g.ws() + ":" + g.ws() + g.value(t.El, d-1) + g.ws())
		}
		b.WriteString("}")
		return b.String()
	case KPtr:
		return g.value(t.El, d)
	case KStruct:
		rfs := t.Resolve()
		var b strings.Builder
		b.WriteString("{" + g.ws())
		n := r.Intn(len(rfs) + 3)
		for i := 0; i < n; i++ {
			if i > 0 {
				b.WriteString("," + g.ws())
			}
			k, f := g.fieldKey(rfs)
			b.WriteString(k + g.ws() + ":" + g.ws())
			switch {
			case f == nil:
				b.WriteString(g.anyDoc(2))
			case f.Quoted:
				b.WriteString(g.quoted(f.T))
			default:
				b.WriteString(g.value(f.T, d-1))
			}
			b.WriteString(g.ws())
		}
		b.WriteString("}")
		return b.String()
	}
	_ = t0
	return g.anyDoc(2)
}

// GenInput generates one input text for destination type t. lex allows lexical deviations inside string
// literals (outside the domain of the property under ConfigDefault, inside it under ConfigStd).
func GenInput(r *rng.R, t *Ty, lex bool) string {
	g := &igen{r: r, jo: jgen.Default, lex: lex}
	g.jo.WS = true
	s := g.ws() + g.value(t, 3) + g.ws()
	switch r.Intn(20) {
	case 0, 1, 2:
		s = jgen.Mutate(r, s)
	case 3:
		if len(s) > 0 {
			s = s[:r.Intn(len(s))]
		}
	case 4:
		s += []string{"x", "]", "}", ",", "null", " 1", "\x00", "\"", "//"}[r.Intn(9)]
	}
	return s
}

// ---------------------------------------------------------------- float helpers used by the classifiers

// F32DoubleRounding reports whether rounding the decimal literal to float64 first and then to float32 differs
// from rounding it to float32 directly (in value or in overflow).
func F32DoubleRounding(lit string) bool {
	d, err64 := strconv.ParseFloat(lit, 64)
	s, err32 := strconv.ParseFloat(lit, 32)
	if err64 != nil {
		return false
	}
	via := float32(d)
	ovVia := math.IsInf(float64(via), 0)
	ov32 := err32 != nil
	if ovVia != ov32 {
		return true
	}
	return !ov32 && math.Float32bits(via) != math.Float32bits(float32(s))
}

var _ = fmt.Sprint
