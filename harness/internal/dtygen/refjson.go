package dtygen

import (
	"strconv"
	"unicode/utf8"
)

// A plain reference parser used by the oracles and classifiers of the harness (independent of sonic, of
// encoding/json and of the Coq model). It accepts the *structural* grammar: RFC 8259 with string bodies
// relaxed to "any bytes, a backslash escapes the following byte, ends at the first unescaped quote".

type JNode struct {
	K    byte // 'n' null, 't', 'f', '0' number, 's' string, 'a' array, 'o' object
	Raw  string
	Keys []string // raw key bodies (between the quotes)
	Kids []*JNode
}

type refParser struct {
	s   string
	i   int
	ctl bool // reject raw control characters inside string literals
	d   int
}

func isWS(c byte) bool { return c == ' ' || c == '\t' || c == '\n' || c == '\r' }

func (p *refParser) ws() {
	for p.i < len(p.s) && isWS(p.s[p.i]) {
		p.i++
	}
}

func (p *refParser) str() (string, bool) {
	// p.s[p.i] == '"'
	j := p.i + 1
	for j < len(p.s) {
		c := p.s[j]
		switch {
		case c == '"':
			body := p.s[p.i+1 : j]
			p.i = j + 1
			return body, true
		case c == '\\':
			j += 2
		case c < 0x20 && p.ctl:
			return "", false
		default:
			j++
		}
	}
	return "", false
}

func (p *refParser) num() bool {
	j := p.i
	if j < len(p.s) && p.s[j] == '-' {
		j++
	}
	if j >= len(p.s) {
		return false
	}
	if p.s[j] == '0' {
		j++
	} else if p.s[j] >= '1' && p.s[j] <= '9' {
		for j < len(p.s) && p.s[j] >= '0' && p.s[j] <= '9' {
			j++
		}
	} else {
		return false
	}
	if j < len(p.s) && p.s[j] == '.' {
		j++
		k := j
		for j < len(p.s) && p.s[j] >= '0' && p.s[j] <= '9' {
			j++
		}
		if j == k {
			return false
		}
	}
	if j < len(p.s) && (p.s[j] == 'e' || p.s[j] == 'E') {
		j++
		if j < len(p.s) && (p.s[j] == '+' || p.s[j] == '-') {
			j++
		}
		k := j
		for j < len(p.s) && p.s[j] >= '0' && p.s[j] <= '9' {
			j++
		}
		if j == k {
			return false
		}
	}
	p.i = j
	return true
}

func (p *refParser) value() *JNode {
	p.ws()
	if p.i >= len(p.s) {
		return nil
	}
	p.d++
	defer func() { p.d-- }()
	if p.d > 4000 {
		return nil
	}
	st := p.i
	switch c := p.s[p.i]; {
	case c == '{':
		p.i++
		n := &JNode{K: 'o'}
		p.ws()
		if p.i < len(p.s) && p.s[p.i] == '}' {
			p.i++
			n.Raw = p.s[st:p.i]
			return n
		}
		for {
			p.ws()
			if p.i >= len(p.s) || p.s[p.i] != '"' {
				return nil
			}
			k, ok := p.str()
			if !ok {
				return nil
			}
			p.ws()
			if p.i >= len(p.s) || p.s[p.i] != ':' {
				return nil
			}
			p.i++
			v := p.value()
			if v == nil {
				return nil
			}
			n.Keys = append(n.Keys, k)
			n.Kids = append(n.Kids, v)
			p.ws()
			if p.i >= len(p.s) {
				return nil
			}
			if p.s[p.i] == ',' {
				p.i++
				continue
			}
			if p.s[p.i] == '}' {
				p.i++
				n.Raw = p.s[st:p.i]
				return n
			}
			return nil
		}
	case c == '[':
		p.i++
		n := &JNode{K: 'a'}
		p.ws()
		if p.i < len(p.s) && p.s[p.i] == ']' {
			p.i++
			n.Raw = p.s[st:p.i]
			return n
		}
		for {
			v := p.value()
			if v == nil {
				return nil
			}
			n.Kids = append(n.Kids, v)
			p.ws()
			if p.i >= len(p.s) {
				return nil
			}
			if p.s[p.i] == ',' {
				p.i++
				continue
			}
			if p.s[p.i] == ']' {
				p.i++
				n.Raw = p.s[st:p.i]
				return n
			}
			return nil
		}
	case c == '"':
		body, ok := p.str()
		if !ok {
			return nil
		}
		return &JNode{K: 's', Raw: body}
	case c == 't':
		if len(p.s)-p.i >= 4 && p.s[p.i:p.i+4] == "true" {
			p.i += 4
			return &JNode{K: 't', Raw: "true"}
		}
	case c == 'f':
		if len(p.s)-p.i >= 5 && p.s[p.i:p.i+5] == "false" {
			p.i += 5
			return &JNode{K: 'f', Raw: "false"}
		}
	case c == 'n':
		if len(p.s)-p.i >= 4 && p.s[p.i:p.i+4] == "null" {
			p.i += 4
			return &JNode{K: 'n', Raw: "null"}
		}
	case c == '-' || (c >= '0' && c <= '9'):
		if p.num() {
			return &JNode{K: '0', Raw: p.s[st:p.i]}
		}
	}
	return nil
}

// RefParse parses a whole document (surrounding whitespace allowed); nil when structurally malformed.
func RefParse(s string, rejectCtl bool) *JNode {
	p := &refParser{s: s, ctl: rejectCtl}
	n := p.value()
	if n == nil {
		return nil
	}
	p.ws()
	if p.i != len(s) {
		return nil
	}
	return n
}

// Unquote decodes a raw string body the way encoding/json does; ok=false for invalid escapes / raw control
// characters.
func Unquote(body string) (string, bool) {
	var out []byte
	for i := 0; i < len(body); {
		c := body[i]
		switch {
		case c == '\\':
			if i+1 >= len(body) {
				return "", false
			}
			switch body[i+1] {
			case '"', '\\', '/':
				out = append(out, body[i+1])
				i += 2
			case 'b':
				out = append(out, '\b')
				i += 2
			case 'f':
				out = append(out, '\f')
				i += 2
			case 'n':
				out = append(out, '\n')
				i += 2
			case 'r':
				out = append(out, '\r')
				i += 2
			case 't':
				out = append(out, '\t')
				i += 2
			case 'u':
				if i+6 > len(body) {
					return "", false
				}
				r, err := strconv.ParseUint(body[i+2:i+6], 16, 32)
				if err != nil {
					return "", false
				}
				i += 6
				rr := rune(r)
				if rr >= 0xd800 && rr < 0xdc00 && i+6 <= len(body) && body[i] == '\\' && body[i+1] == 'u' {
					if r2, err := strconv.ParseUint(body[i+2:i+6], 16, 32); err == nil && r2 >= 0xdc00 && r2 < 0xe000 {
						rr = (rr-0xd800)<<10 | (rune(r2) - 0xdc00) + 0x10000
						i += 6
					}
				}
				if rr >= 0xd800 && rr < 0xe000 {
					rr = utf8.RuneError
				}
				out = utf8.AppendRune(out, rr)
			default:
				return "", false
			}
		case c < 0x20:
			return "", false
		case c < utf8.RuneSelf:
			out = append(out, c)
			i++
		default:
			r, n := utf8.DecodeRuneInString(body[i:])
			out = utf8.AppendRune(out, r)
			i += n
		}
	}
	return string(out), true
}

// Walk calls f on every node.
func (n *JNode) Walk(f func(*JNode)) {
	f(n)
	for _, k := range n.Kids {
		k.Walk(f)
	}
}

// InDomainDefault: the input's string literals contain no raw control characters and no invalid UTF-8
// (the domain of C01 under ConfigDefault). Decided lexically on every byte string: a quote toggles the
// in-string state, a backslash inside a string protects the next byte; the whole input must be valid UTF-8.
func InDomainDefault(s string) bool {
	if !utf8.ValidString(s) {
		return false
	}
	in := false
	for i := 0; i < len(s); i++ {
		c := s[i]
		if in {
			switch {
			case c == '\\':
				i++
			case c == '"':
				in = false
			case c < 0x20:
				return false
			}
		} else if c == '"' {
			in = true
		}
	}
	return true
}

// RepairEscapes rewrites every invalid escape sequence inside string literals to ☠ (a valid escape with a
// distinctive value). Returns the repaired text and whether anything changed.
func RepairEscapes(s string) (string, bool) {
	var out []byte
	in, changed := false, false
	for i := 0; i < len(s); i++ {
		c := s[i]
		if !in {
			if c == '"' {
				in = true
			}
			out = append(out, c)
			continue
		}
		switch {
		case c == '"':
			in = false
			out = append(out, c)
		case c == '\\' && i+1 < len(s):
			n := s[i+1]
			ok := false
			switch n {
			case '"', '\\', '/', 'b', 'f', 'n', 'r', 't':
				ok = true
				out = append(out, c, n)
				i++
			case 'u':
				if i+6 <= len(s) {
					if _, err := strconv.ParseUint(s[i+2:i+6], 16, 32); err == nil && s[i+2] != '+' && s[i+2] != '-' {
						ok = true
						out = append(out, s[i:i+6]...)
						i += 5
					}
				}
			}
			if !ok {
				out = append(out, `☠`...)
				changed = true
				i++
			}
		default:
			out = append(out, c)
		}
	}
	return string(out), changed
}
