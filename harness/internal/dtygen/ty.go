// Package dtygen: destination-type descriptors for the decoder properties (C01, C11).
//
// A descriptor `Ty` is an S-expression shared by the Go harness (which turns it into a real reflect.Type with
// reflect.StructOf/SliceOf/MapOf/ArrayOf/PtrTo plus a catalogue of named types) and by the Coq model (which
// receives the *resolved* form: structs as the list of JSON-visible fields after the dominant-field rule).
//
// declared form (Go side, replayable):
//
//	bool i8 i16 i32 i64 int u8 u16 u32 u64 uint uptr f32 f64 str num bytes any raw unm text
//	(sl T) (ar N T) (map K T) (ptr T) (named ID)
//	(st (f GoName TAG FLAGS T) ...)     TAG: `_` no json tag, else hex of the tag value ("-" = empty tag)
//	                                     FLAGS: `e` embedded, `x` unexported, `.` none
//
// resolved form (model side):
//
//	(st (f NAMEHEX q|n T) ...)          struct = ordered list of (json name, ,string flag, type)
package dtygen

import (
	"encoding/hex"
	"encoding/json"
	"fmt"
	"reflect"
	"sort"
	"strconv"
	"strings"
	"unicode"
)

type Kind int

const (
	KBool Kind = iota
	KInt
	KF32
	KF64
	KStr
	KNum
	KBytes
	KSlice
	KArr
	KMap
	KPtr
	KStruct
	KAny
	KRaw
	KUnm
	KText
	KNamed
)

type Field struct {
	Go     string // Go field name
	Tag    string // value of the json tag
	HasTag bool
	Emb    bool
	Unexp  bool
	T      *Ty
}

type Ty struct {
	K    Kind
	IK   string // KInt: i8 i16 i32 i64 int u8 u16 u32 u64 uint uptr
	N    int    // KArr
	Key  *Ty    // KMap
	El   *Ty    // KSlice KArr KMap KPtr
	Fs   []Field
	Name string // KNamed: catalogue id
}

var IntKinds = []string{"i8", "i16", "i32", "i64", "int", "u8", "u16", "u32", "u64", "uint", "uptr"}

func Leaf(k Kind) *Ty        { return &Ty{K: k} }
func Int(ik string) *Ty      { return &Ty{K: KInt, IK: ik} }
func Slice(e *Ty) *Ty        { return &Ty{K: KSlice, El: e} }
func Arr(n int, e *Ty) *Ty   { return &Ty{K: KArr, N: n, El: e} }
func Map(k, e *Ty) *Ty       { return &Ty{K: KMap, Key: k, El: e} }
func Ptr(e *Ty) *Ty          { return &Ty{K: KPtr, El: e} }
func Struct(fs ...Field) *Ty { return &Ty{K: KStruct, Fs: fs} }
func Named(id string) *Ty    { return &Ty{K: KNamed, Name: id} }

var leafNames = map[Kind]string{KBool: "bool", KF32: "f32", KF64: "f64", KStr: "str", KNum: "num", KBytes: "bytes",
	KAny: "any", KRaw: "raw", KUnm: "unm", KText: "text"}

func hexs(s string) string {
	if s == "" {
		return "-"
	}
	return hex.EncodeToString([]byte(s))
}

func unhex(s string) (string, error) {
	if s == "-" {
		return "", nil
	}
	b, err := hex.DecodeString(s)
	return string(b), err
}

// String is the declared form.
func (t *Ty) String() string {
	var b strings.Builder
	t.write(&b)
	return b.String()
}

func (t *Ty) write(b *strings.Builder) {
	switch t.K {
	case KInt:
		b.WriteString(t.IK)
	case KSlice:
		b.WriteString("(sl ")
		t.El.write(b)
		b.WriteByte(')')
	case KArr:
		fmt.Fprintf(b, "(ar %d ", t.N)
		t.El.write(b)
		b.WriteByte(')')
	case KMap:
		b.WriteString("(map ")
		t.Key.write(b)
		b.WriteByte(' ')
		t.El.write(b)
		b.WriteByte(')')
	case KPtr:
		b.WriteString("(ptr ")
		t.El.write(b)
		b.WriteByte(')')
	case KNamed:
		b.WriteString("(named " + t.Name + ")")
	case KStruct:
		b.WriteString("(st")
		for _, f := range t.Fs {
			tag := "_"
			if f.HasTag {
				tag = hexs(f.Tag)
			}
			fl := ""
			if f.Emb {
				fl += "e"
			}
			if f.Unexp {
				fl += "x"
			}
			if fl == "" {
				fl = "."
			}
			fmt.Fprintf(b, " (f %s %s %s ", f.Go, tag, fl)
			f.T.write(b)
			b.WriteByte(')')
		}
		b.WriteByte(')')
	default:
		b.WriteString(leafNames[t.K])
	}
}

// ---------------------------------------------------------------- S-expression reader (shared with val.go)

type sx struct {
	atom string
	list []*sx
	isL  bool
}

func parseSx(s string) (*sx, error) {
	p := &sxp{s: s}
	x, err := p.one()
	if err != nil {
		return nil, err
	}
	p.ws()
	if p.i != len(p.s) {
		return nil, fmt.Errorf("trailing text at %d", p.i)
	}
	return x, nil
}

type sxp struct {
	s string
	i int
}

func (p *sxp) ws() {
	for p.i < len(p.s) && p.s[p.i] == ' ' {
		p.i++
	}
}

func (p *sxp) one() (*sx, error) {
	p.ws()
	if p.i >= len(p.s) {
		return nil, fmt.Errorf("eof")
	}
	if p.s[p.i] == '(' {
		p.i++
		x := &sx{isL: true}
		for {
			p.ws()
			if p.i >= len(p.s) {
				return nil, fmt.Errorf("eof in list")
			}
			if p.s[p.i] == ')' {
				p.i++
				return x, nil
			}
			e, err := p.one()
			if err != nil {
				return nil, err
			}
			x.list = append(x.list, e)
		}
	}
	j := p.i
	for j < len(p.s) && p.s[j] != ' ' && p.s[j] != '(' && p.s[j] != ')' {
		j++
	}
	if j == p.i {
		return nil, fmt.Errorf("unexpected %q at %d", p.s[p.i], p.i)
	}
	x := &sx{atom: p.s[p.i:j]}
	p.i = j
	return x, nil
}

func ParseTy(s string) (*Ty, error) {
	x, err := parseSx(s)
	if err != nil {
		return nil, err
	}
	return tyOfSx(x)
}

func tyOfSx(x *sx) (*Ty, error) {
	if !x.isL {
		for k, n := range leafNames {
			if n == x.atom {
				return Leaf(k), nil
			}
		}
		for _, ik := range IntKinds {
			if ik == x.atom {
				return Int(ik), nil
			}
		}
		return nil, fmt.Errorf("unknown type atom %q", x.atom)
	}
	if len(x.list) == 0 || x.list[0].isL {
		return nil, fmt.Errorf("bad type list")
	}
	sub := func(i int) (*Ty, error) {
		if i >= len(x.list) {
			return nil, fmt.Errorf("missing operand")
		}
		return tyOfSx(x.list[i])
	}
	switch x.list[0].atom {
	case "sl":
		e, err := sub(1)
		return Slice(e), err
	case "ptr":
		e, err := sub(1)
		return Ptr(e), err
	case "ar":
		n, err := strconv.Atoi(x.list[1].atom)
		if err != nil {
			return nil, err
		}
		e, err := sub(2)
		return Arr(n, e), err
	case "map":
		k, err := sub(1)
		if err != nil {
			return nil, err
		}
		e, err := sub(2)
		return Map(k, e), err
	case "named":
		return Named(x.list[1].atom), nil
	case "st":
		t := &Ty{K: KStruct}
		for _, fx := range x.list[1:] {
			if !fx.isL || len(fx.list) != 5 {
				return nil, fmt.Errorf("bad field")
			}
			f := Field{Go: fx.list[1].atom}
			if fx.list[2].atom != "_" {
				tag, err := unhex(fx.list[2].atom)
				if err != nil {
					return nil, err
				}
				f.HasTag, f.Tag = true, tag
			}
			f.Emb = strings.Contains(fx.list[3].atom, "e")
			f.Unexp = strings.Contains(fx.list[3].atom, "x")
			ft, err := tyOfSx(fx.list[4])
			if err != nil {
				return nil, err
			}
			f.T = ft
			t.Fs = append(t.Fs, f)
		}
		return t, nil
	}
	return nil, fmt.Errorf("unknown type form %q", x.list[0].atom)
}

// ---------------------------------------------------------------- catalogue of named types

// UnmRec is the abstract json.Unmarshaler leaf: it records the raw text it is given.
type UnmRec struct {
	Raw string
}

func (u *UnmRec) UnmarshalJSON(b []byte) error {
	if string(b) == `"ERR"` {
		return fmt.Errorf("UnmRec: refused")
	}
	u.Raw = string(b)
	return nil
}

// TextRec is the abstract encoding.TextUnmarshaler leaf (also usable as a map key).
type TextRec struct {
	S string
}

func (t *TextRec) UnmarshalText(b []byte) error {
	if string(b) == "ERR" {
		return fmt.Errorf("TextRec: refused")
	}
	t.S = string(b)
	return nil
}

// value-receiver variants
type UnmVal map[string]string

func (u UnmVal) UnmarshalJSON(b []byte) error {
	if u != nil {
		u["raw"] = string(b)
	}
	return nil
}

// named scalar kinds that carry an unmarshaler: a decoder must call the method, never the fast path of the kind
// (pointer receivers USJ..UBT, value receivers VSJ..VIJ)
type (
	USJ string
	UST string
	UIJ int
	UIT int64
	UBJ bool
	UBT bool
	VSJ string
	VST string
	VIJ int
)

func (u *USJ) UnmarshalJSON(b []byte) error {
	if string(b) == `"ERR"` {
		return fmt.Errorf("USJ: refused")
	}
	*u = USJ("J" + string(b))
	return nil
}
func (u *UST) UnmarshalText(b []byte) error {
	if string(b) == "ERR" {
		return fmt.Errorf("UST: refused")
	}
	*u = UST("T" + string(b))
	return nil
}
func (u *UIJ) UnmarshalJSON(b []byte) error {
	if string(b) == `"ERR"` {
		return fmt.Errorf("UIJ: refused")
	}
	*u = UIJ(1000 + len(b))
	return nil
}
func (u *UIT) UnmarshalText(b []byte) error {
	if string(b) == "ERR" {
		return fmt.Errorf("UIT: refused")
	}
	*u = UIT(2000 + len(b))
	return nil
}
func (u *UBJ) UnmarshalJSON(b []byte) error {
	if string(b) == `"ERR"` {
		return fmt.Errorf("UBJ: refused")
	}
	*u = UBJ(len(b)%2 == 0)
	return nil
}
func (u *UBT) UnmarshalText(b []byte) error {
	if string(b) == "ERR" {
		return fmt.Errorf("UBT: refused")
	}
	*u = UBT(len(b)%2 == 0)
	return nil
}
func (v VSJ) UnmarshalJSON(b []byte) error {
	if string(b) == `"ERR"` {
		return fmt.Errorf("VSJ: refused")
	}
	return nil
}
func (v VST) UnmarshalText(b []byte) error {
	if string(b) == "ERR" {
		return fmt.Errorf("VST: refused")
	}
	return nil
}
func (v VIJ) UnmarshalJSON(b []byte) error {
	if string(b) == `"ERR"` {
		return fmt.Errorf("VIJ: refused")
	}
	return nil
}

// UnmScalars lists the catalogue ids of the scalar kinds with unmarshalers.
var UnmScalars = []string{"USJ", "UST", "UIJ", "UIT", "UBJ", "UBT", "VSJ", "VST", "VIJ"}

type (
	MyInt   int
	MyI8    int8
	MyU16   uint16
	MyStr   string
	MyBool  bool
	MyF64   float64
	MyF32   float32
	MyBytes []byte
	MySlice []int
	MyMap   map[string]int
)

type EmbA struct {
	A int
	X int
}
type EmbB struct {
	B string
	X int `json:"x2"`
}
type EmbC struct {
	A int `json:"A"` // tagged: dominates an untagged A at the same depth
	C *int
}
type EmbD struct {
	EmbA
	D float64
}
type EmbPtr struct {
	*EmbA
	P int
}
type EmbAmbig struct { // A is ambiguous between EmbA and EmbA2 (same depth, both untagged) -> dropped
	EmbA
	EmbA2
}
type EmbA2 struct {
	A string
	Y int
}
type EmbShadow struct { // outer A shadows the embedded one
	EmbA
	A string
}
type embUnexp struct {
	U int
	v int
}
type EmbUnexported struct {
	embUnexp
	W int
}
type EmbTagged struct {
	EmbA `json:"emb"` // a tagged embedded struct is an ordinary field
	Z    int
}
type EmbDeep struct {
	EmbD
	*EmbB
	X string `json:"X"`
}
type Node struct {
	V    int
	Next *Node
	Kids []Node
	M    map[string]*Node
}
type Tree struct {
	L, R *Tree
	Val  interface{}
}
type Mixed struct {
	I   int               `json:"i"`
	S   string            `json:"s,omitempty"`
	Q   int64             `json:"q,string"`
	QS  string            `json:"qs,string"`
	QP  *uint8            `json:"qp,string"`
	QB  bool              `json:",string"`
	QF  float32           `json:"qf,string,omitempty"`
	N   json.Number       `json:"n"`
	QN  json.Number       `json:"qn,string"`
	R   json.RawMessage   `json:"r"`
	U   UnmRec            `json:"u"`
	UP  *UnmRec           `json:"up"`
	T   TextRec           `json:"t"`
	TP  *TextRec          `json:"tp"`
	Any interface{}       `json:"any"`
	M   map[TextRec]int   `json:"m"`
	Ign int               `json:"-"`
	Dsh int               `json:"-,"`
	B   []byte            `json:"b"`
	Arr [3]int8           `json:"arr"`
	MI  map[int16]string  `json:"mi"`
	MU  map[uint8]*string `json:"mu"`
	E   struct{}          `json:"e"`
	QU  UnmRec            `json:"qu,string"`
	QT  TextRec           `json:"qt,string"`
	QA  interface{}       `json:"qa,string"`
	QSl []int             `json:"qsl,string"`
	QPP **int             `json:"qpp,string"`
}

// Big60 crosses _MAX_FIELDS (50) so that it is compiled out of line when nested.
type Big60 struct {
	F00, F01, F02, F03, F04, F05, F06, F07, F08, F09 int
	F10, F11, F12, F13, F14, F15, F16, F17, F18, F19 string
	F20, F21, F22, F23, F24, F25, F26, F27, F28, F29 *int
	F30, F31, F32, F33, F34, F35, F36, F37, F38, F39 []int
	F40, F41, F42, F43, F44, F45, F46, F47, F48, F49 bool
	F50, F51, F52, F53, F54, F55, F56, F57, F58, F59 float64
}
type HasBig struct {
	Pre int
	Big Big60
	Pst string
}
type Deep1 struct {
	A int
	D Deep2
}
type Deep2 struct {
	B int
	D Deep3
}
type Deep3 struct {
	C int
	D Deep4
}
type Deep4 struct {
	E int
	D Deep5
}
type Deep5 struct {
	F int
	G []Deep1x
}
type Deep1x struct{ Z int }

type IfaceM interface{ M() }

type HasIfaceM struct {
	I IfaceM
	J int
}
type HasChan struct {
	A int
	C chan int `json:"c"`
	F func()   `json:"f"`
}
type PtrHolder struct {
	Any interface{}
	N   int
}

var catalogue = map[string]reflect.Type{}
var catalogueOrder []string

func reg(v interface{}) {
	t := reflect.TypeOf(v).Elem()
	id := t.Name()
	catalogue[id] = t
	catalogueOrder = append(catalogueOrder, id)
}

func init() {
	reg(new(MyInt))
	reg(new(MyI8))
	reg(new(MyU16))
	reg(new(MyStr))
	reg(new(MyBool))
	reg(new(MyF64))
	reg(new(MyF32))
	reg(new(MyBytes))
	reg(new(MySlice))
	reg(new(MyMap))
	reg(new(UnmVal))
	reg(new(USJ))
	reg(new(UST))
	reg(new(UIJ))
	reg(new(UIT))
	reg(new(UBJ))
	reg(new(UBT))
	reg(new(VSJ))
	reg(new(VST))
	reg(new(VIJ))
	reg(new(EmbA))
	reg(new(EmbA2))
	reg(new(EmbB))
	reg(new(EmbC))
	reg(new(EmbD))
	reg(new(EmbPtr))
	reg(new(EmbAmbig))
	reg(new(EmbShadow))
	reg(new(EmbUnexported))
	reg(new(EmbTagged))
	reg(new(EmbDeep))
	reg(new(Node))
	reg(new(Tree))
	reg(new(Mixed))
	reg(new(Big60))
	reg(new(HasBig))
	reg(new(Deep1))
	reg(new(HasIfaceM))
	reg(new(HasChan))
	reg(new(PtrHolder))
}

// Catalogue lists the ids of the named types.
func Catalogue() []string { return catalogueOrder }

var (
	tBool   = reflect.TypeOf(false)
	tStr    = reflect.TypeOf("")
	tNum    = reflect.TypeOf(json.Number(""))
	tBytes  = reflect.TypeOf([]byte(nil))
	tRaw    = reflect.TypeOf(json.RawMessage(nil))
	tAny    = reflect.TypeOf((*interface{})(nil)).Elem()
	tUnm    = reflect.TypeOf(UnmRec{})
	tText   = reflect.TypeOf(TextRec{})
	tF32    = reflect.TypeOf(float32(0))
	tF64    = reflect.TypeOf(float64(0))
	intType = map[string]reflect.Type{
		"i8": reflect.TypeOf(int8(0)), "i16": reflect.TypeOf(int16(0)), "i32": reflect.TypeOf(int32(0)), "i64": reflect.TypeOf(int64(0)),
		"int": reflect.TypeOf(int(0)), "u8": reflect.TypeOf(uint8(0)), "u16": reflect.TypeOf(uint16(0)), "u32": reflect.TypeOf(uint32(0)),
		"u64": reflect.TypeOf(uint64(0)), "uint": reflect.TypeOf(uint(0)), "uptr": reflect.TypeOf(uintptr(0)),
	}
)

var buildCache = map[string]reflect.Type{}

// Build turns the descriptor into a real Go type. It returns an error when reflect refuses the shape.
func (t *Ty) Build() (rt reflect.Type, err error) {
	key := t.String()
	if c, ok := buildCache[key]; ok {
		return c, nil
	}
	defer func() {
		if r := recover(); r != nil {
			rt, err = nil, fmt.Errorf("reflect refused %s: %v", key, r)
		}
	}()
	rt, err = t.build()
	if err == nil {
		buildCache[key] = rt
	}
	return
}

func (t *Ty) build() (reflect.Type, error) {
	switch t.K {
	case KBool:
		return tBool, nil
	case KInt:
		return intType[t.IK], nil
	case KF32:
		return tF32, nil
	case KF64:
		return tF64, nil
	case KStr:
		return tStr, nil
	case KNum:
		return tNum, nil
	case KBytes:
		return tBytes, nil
	case KAny:
		return tAny, nil
	case KRaw:
		return tRaw, nil
	case KUnm:
		return tUnm, nil
	case KText:
		return tText, nil
	case KNamed:
		if c, ok := catalogue[t.Name]; ok {
			return c, nil
		}
		return nil, fmt.Errorf("unknown named type %s", t.Name)
	case KSlice:
		e, err := t.El.Build()
		if err != nil {
			return nil, err
		}
		return reflect.SliceOf(e), nil
	case KArr:
		e, err := t.El.Build()
		if err != nil {
			return nil, err
		}
		return reflect.ArrayOf(t.N, e), nil
	case KPtr:
		e, err := t.El.Build()
		if err != nil {
			return nil, err
		}
		return reflect.PtrTo(e), nil
	case KMap:
		k, err := t.Key.Build()
		if err != nil {
			return nil, err
		}
		e, err := t.El.Build()
		if err != nil {
			return nil, err
		}
		return reflect.MapOf(k, e), nil
	case KStruct:
		var sfs []reflect.StructField
		for _, f := range t.Fs {
			ft, err := f.T.Build()
			if err != nil {
				return nil, err
			}
			sf := reflect.StructField{Name: f.Go, Type: ft, Anonymous: f.Emb}
			if f.Unexp {
				sf.PkgPath = "verif/harness/internal/dtygen"
			}
			if f.HasTag {
				sf.Tag = reflect.StructTag(`json:` + strconv.Quote(f.Tag))
			}
			sfs = append(sfs, sf)
		}
		return reflect.StructOf(sfs), nil
	}
	return nil, fmt.Errorf("bad kind")
}

// FromReflect converts a Go type into a declared descriptor (used for the catalogue). Recursive references
// are cut with a (named ID) node.
func FromReflect(t reflect.Type) *Ty { return fromReflect(t, map[reflect.Type]bool{t: true}) }

// open[t] marks the top-level type: every other catalogue type met on the way stays a (named ID) reference.
func fromReflect(t reflect.Type, open map[reflect.Type]bool) *Ty {
	if c, ok := catalogue[t.Name()]; ok && c == t && !open[t] {
		return Named(t.Name())
	}
	if open[t] {
		open = map[reflect.Type]bool{}
	}
	for _, id := range UnmScalars { // opaque: only the oracle comparison knows what their methods do
		if t.Name() == id && catalogue[id] == t {
			return Named(id)
		}
	}
	switch t {
	case tNum:
		return Leaf(KNum)
	case tRaw:
		return Leaf(KRaw)
	case tUnm:
		return Leaf(KUnm)
	case tText:
		return Leaf(KText)
	case tBytes:
		return Leaf(KBytes)
	}
	switch t.Kind() {
	case reflect.Bool:
		return Leaf(KBool)
	case reflect.Int8:
		return Int("i8")
	case reflect.Int16:
		return Int("i16")
	case reflect.Int32:
		return Int("i32")
	case reflect.Int64:
		return Int("i64")
	case reflect.Int:
		return Int("int")
	case reflect.Uint8:
		return Int("u8")
	case reflect.Uint16:
		return Int("u16")
	case reflect.Uint32:
		return Int("u32")
	case reflect.Uint64:
		return Int("u64")
	case reflect.Uint:
		return Int("uint")
	case reflect.Uintptr:
		return Int("uptr")
	case reflect.Float32:
		return Leaf(KF32)
	case reflect.Float64:
		return Leaf(KF64)
	case reflect.String:
		return Leaf(KStr)
	case reflect.Interface:
		if t.NumMethod() == 0 {
			return Leaf(KAny)
		}
		return Named(t.Name())
	case reflect.Slice:
		if t.Elem().Kind() == reflect.Uint8 && t.Elem().Name() == "uint8" {
			return Leaf(KBytes)
		}
		return Slice(fromReflect(t.Elem(), open))
	case reflect.Array:
		return Arr(t.Len(), fromReflect(t.Elem(), open))
	case reflect.Ptr:
		return Ptr(fromReflect(t.Elem(), open))
	case reflect.Map:
		return Map(fromReflect(t.Key(), open), fromReflect(t.Elem(), open))
	case reflect.Struct:
		if t.NumMethod() > 0 || reflect.PtrTo(t).NumMethod() > 0 {
			return Named(t.Name())
		}
		st := &Ty{K: KStruct}
		for i := 0; i < t.NumField(); i++ {
			sf := t.Field(i)
			f := Field{Go: sf.Name, Emb: sf.Anonymous, Unexp: !sf.IsExported(), T: fromReflect(sf.Type, open)}
			if tag, ok := sf.Tag.Lookup("json"); ok {
				f.HasTag, f.Tag = true, tag
			}
			st.Fs = append(st.Fs, f)
		}
		return st
	}
	return Named(t.String())
}

// ---------------------------------------------------------------- field resolution (dominant-field rule)

// RField is one JSON-visible field of a struct after resolution.
type RField struct {
	Name   string
	Quoted bool
	Tagged bool
	Index  []int
	T      *Ty
	ViaPtr bool // the path goes through an embedded pointer
}

func isValidTag(s string) bool {
	if s == "" {
		return false
	}
	for _, c := range s {
		switch {
		case strings.ContainsRune("!#$%&()*+-./:;<=>?@[]^_{|}~ ", c):
		case !unicode.IsLetter(c) && !unicode.IsDigit(c):
			return false
		}
	}
	return true
}

func (t *Ty) deref() *Ty {
	if t.K == KSlice && t.El.K == KInt && t.El.IK == "u8" { // []uint8 is []byte
		return Leaf(KBytes)
	}
	if t.K == KNamed {
		if c, ok := catalogue[t.Name]; ok {
			d := FromReflect(c)
			if d.K != KNamed {
				return d
			}
		}
	}
	return t
}

// isStructTy reports whether t is (after looking through a catalogue name) a plain struct.
func (t *Ty) isStructTy() bool { return t.deref().K == KStruct }

func scalarKind(t *Ty) bool {
	t = t.deref()
	switch t.K {
	case KBool, KInt, KF32, KF64, KStr, KNum:
		return true
	case KNamed: // the scalar kinds that carry an unmarshaler are scalar kinds for the `,string` rule too
		for _, id := range UnmScalars {
			if t.Name == id {
				return true
			}
		}
	}
	return false
}

// Resolve implements the field selection of encoding/json (typeFields) on descriptors, independently of
// sonic's internal/resolver: breadth-first over embedded structs, `-` tags, invalid tag names, the dominant
// field rule (shallowest, then tagged, else ambiguous -> dropped), result ordered by index sequence.
func (t *Ty) Resolve() []RField {
	root := t.deref()
	if root.K != KStruct {
		return nil
	}
	type qent struct {
		ty     *Ty
		key    string
		index  []int
		viaPtr bool
	}
	current := []qent{}
	next := []qent{{ty: root, key: root.String()}}
	count := map[string]int{}
	nextCount := map[string]int{}
	visited := map[string]bool{}
	var fields []RField
	for len(next) > 0 {
		current, next = next, nil
		count, nextCount = nextCount, map[string]int{}
		for _, q := range current {
			if visited[q.key] {
				continue
			}
			visited[q.key] = true
			for i, f := range q.ty.Fs {
				if f.Emb {
					et := f.T
					if et.K == KPtr {
						et = et.El
					}
					if f.Unexp && !et.isStructTy() {
						continue
					}
				} else if f.Unexp {
					continue
				}
				if f.HasTag && f.Tag == "-" {
					continue
				}
				name, opts := f.Tag, ""
				if j := strings.IndexByte(f.Tag, ','); j >= 0 {
					name, opts = f.Tag[:j], f.Tag[j+1:]
				}
				if !f.HasTag {
					name, opts = "", ""
				}
				if !isValidTag(name) {
					name = ""
				}
				index := append(append([]int{}, q.index...), i)
				ft := f.T
				viaPtr := q.viaPtr
				isPtr := false
				if ft.K == KPtr {
					ft = ft.El
					isPtr = true
				}
				quoted := false
				for opts != "" {
					var o string
					if j := strings.IndexByte(opts, ','); j >= 0 {
						o, opts = opts[:j], opts[j+1:]
					} else {
						o, opts = opts, ""
					}
					if o == "string" && scalarKind(ft) {
						quoted = true
					}
				}
				if name != "" || !f.Emb || !ft.isStructTy() {
					tagged := name != ""
					if name == "" {
						name = f.Go
					}
					rf := RField{Name: name, Quoted: quoted, Tagged: tagged, Index: index, T: f.T, ViaPtr: viaPtr}
					fields = append(fields, rf)
					if count[q.key] > 1 {
						fields = append(fields, rf)
					}
					continue
				}
				st := ft.deref()
				k := ft.String()
				nextCount[k]++
				if nextCount[k] == 1 {
					next = append(next, qent{ty: st, key: k, index: index, viaPtr: viaPtr || isPtr})
				}
			}
		}
	}
	sort.SliceStable(fields, func(i, j int) bool {
		a, b := fields[i], fields[j]
		if a.Name != b.Name {
			return a.Name < b.Name
		}
		if len(a.Index) != len(b.Index) {
			return len(a.Index) < len(b.Index)
		}
		if a.Tagged != b.Tagged {
			return a.Tagged
		}
		return lessIndex(a.Index, b.Index)
	})
	var out []RField
	for i := 0; i < len(fields); {
		j := i + 1
		for j < len(fields) && fields[j].Name == fields[i].Name {
			j++
		}
		if j-i == 1 {
			out = append(out, fields[i])
		} else if !(len(fields[i].Index) == len(fields[i+1].Index) && fields[i].Tagged == fields[i+1].Tagged) {
			out = append(out, fields[i])
		}
		i = j
	}
	sort.SliceStable(out, func(i, j int) bool { return lessIndex(out[i].Index, out[j].Index) })
	return out
}

func lessIndex(a, b []int) bool {
	for k := 0; k < len(a) && k < len(b); k++ {
		if a[k] != b[k] {
			return a[k] < b[k]
		}
	}
	return len(a) < len(b)
}

// ModelOK reports whether the type lies in the universe of the Coq model (no recursion, no embedded pointers
// on a resolved path, no catalogue types other than the abstract leaves and named scalars).
func (t *Ty) ModelOK() bool {
	switch t.K {
	case KNamed:
		d := t.deref()
		if d.K == KNamed {
			return false
		}
		switch t.Name {
		case "MyInt", "MyI8", "MyU16", "MyStr", "MyBool", "MyF64", "MyF32", "MySlice", "MyMap", "EmbA", "EmbA2", "EmbB", "EmbC", "EmbD",
			"EmbAmbig", "EmbShadow", "EmbTagged", "EmbUnexported":
			return d.ModelOK()
		}
		return false
	case KSlice, KArr, KPtr:
		return t.El.ModelOK()
	case KMap:
		if t.Key.deref().K != KStr && t.Key.deref().K != KInt && t.Key.K != KText {
			return false
		}
		// optdec has a decoder for exactly map[string]string; named string kinds take the generic one, which the
		// resolved form (named scalars = their kind) cannot tell apart
		if t.Key.deref().K == KStr && t.El.deref().K == KStr && (t.Key.K == KNamed || t.El.K == KNamed) {
			return false
		}
		return t.El.ModelOK()
	case KStruct:
		for _, f := range t.Resolve() {
			if f.ViaPtr || !f.T.ModelOK() {
				return false
			}
		}
		return true
	}
	return true
}

// ModelString is the resolved form handed to the Coq model.
func (t *Ty) ModelString() string {
	var b strings.Builder
	t.writeModel(&b)
	return b.String()
}

func (t *Ty) writeModel(b *strings.Builder) {
	switch t.K {
	case KNamed:
		t.deref().writeModel(b)
	case KInt:
		switch t.IK {
		case "int":
			b.WriteString("i64")
		case "uint", "uptr":
			b.WriteString("u64")
		default:
			b.WriteString(t.IK)
		}
	case KSlice:
		if t.El.K == KInt && t.El.IK == "u8" { // []uint8 is []byte
			b.WriteString("bytes")
			return
		}
		b.WriteString("(sl ")
		t.El.writeModel(b)
		b.WriteByte(')')
	case KArr:
		fmt.Fprintf(b, "(ar %d ", t.N)
		t.El.writeModel(b)
		b.WriteByte(')')
	case KMap:
		b.WriteString("(map ")
		t.Key.writeModel(b)
		b.WriteByte(' ')
		t.El.writeModel(b)
		b.WriteByte(')')
	case KPtr:
		b.WriteString("(ptr ")
		t.El.writeModel(b)
		b.WriteByte(')')
	case KStruct:
		b.WriteString("(st")
		for _, f := range t.Resolve() {
			q := "n"
			if f.Quoted {
				q = "q"
			}
			fmt.Fprintf(b, " (f %s %s ", hexs(f.Name), q)
			f.T.writeModel(b)
			b.WriteByte(')')
		}
		b.WriteByte(')')
	default:
		b.WriteString(leafNames[t.K])
	}
}
