package dtygen

import (
	"encoding/hex"
	"encoding/json"
	"fmt"
	"math"
	"math/big"
	"reflect"
	"sort"
	"strings"
)

// Val is the value language shared with the Coq model (coq/theories/Dec/Val.v):
//
//	nil                      nil slice / map / pointer / interface, zero leaf
//	t f                      bool
//	(i DEC)                  any integer kind, int64 inside interface{}
//	(d HEX)                  float bit pattern: 16 hex digits float64, 8 hex digits float32
//	(s HEX)                  string / []byte / RawMessage / recorded text of an Unmarshaler leaf
//	(n HEX)                  json.Number (only needed inside interface{})
//	(l V...)                 slice (visible part) / array / struct (resolved fields in order) / []interface{}
//	(L (V...) (V...))        slice with hidden elements between len and cap (initial values only)
//	(m (K V)...)             map, entries sorted by the printed key
//	(p V)                    non-nil pointer
type Val struct {
	K  byte // 'z' nil, 'b', 'i', 'd', 's', 'n', 'l', 'm', 'p'
	B  bool
	I  *big.Int
	D  uint64
	W  int // float width (32/64)
	S  []byte
	L  []*Val
	H  []*Val
	MK []*Val
	MV []*Val
	P  *Val
}

var Nil = &Val{K: 'z'}

func VBool(b bool) *Val     { return &Val{K: 'b', B: b} }
func VInt(i int64) *Val     { return &Val{K: 'i', I: big.NewInt(i)} }
func VUint(u uint64) *Val   { return &Val{K: 'i', I: new(big.Int).SetUint64(u)} }
func VF64(f float64) *Val   { return &Val{K: 'd', D: math.Float64bits(f), W: 64} }
func VF32(f float32) *Val   { return &Val{K: 'd', D: uint64(math.Float32bits(f)), W: 32} }
func VStr(s string) *Val    { return &Val{K: 's', S: []byte(s)} }
func VNum(s string) *Val    { return &Val{K: 'n', S: []byte(s)} }
func VList(l ...*Val) *Val  { return &Val{K: 'l', L: l} }
func VPtr(p *Val) *Val      { return &Val{K: 'p', P: p} }

func (v *Val) String() string {
	var b strings.Builder
	v.write(&b)
	return b.String()
}

func hexb(s []byte) string {
	if len(s) == 0 {
		return "-"
	}
	return hex.EncodeToString(s)
}

func (v *Val) write(b *strings.Builder) {
	switch v.K {
	case 'z':
		b.WriteString("nil")
	case 'b':
		if v.B {
			b.WriteString("t")
		} else {
			b.WriteString("f")
		}
	case 'i':
		b.WriteString("(i " + v.I.String() + ")")
	case 'd':
		if v.W == 32 {
			fmt.Fprintf(b, "(d %08x)", v.D)
		} else {
			fmt.Fprintf(b, "(d %016x)", v.D)
		}
	case 's':
		b.WriteString("(s " + hexb(v.S) + ")")
	case 'n':
		b.WriteString("(n " + hexb(v.S) + ")")
	case 'l':
		if len(v.H) > 0 {
			b.WriteString("(L (")
			for i, e := range v.L {
				if i > 0 {
					b.WriteByte(' ')
				}
				e.write(b)
			}
			b.WriteString(") (")
			for i, e := range v.H {
				if i > 0 {
					b.WriteByte(' ')
				}
				e.write(b)
			}
			b.WriteString("))")
			return
		}
		b.WriteString("(l")
		for _, e := range v.L {
			b.WriteByte(' ')
			e.write(b)
		}
		b.WriteByte(')')
	case 'm':
		type kv struct{ k, v string }
		var es []kv
		for i := range v.MK {
			es = append(es, kv{v.MK[i].String(), v.MV[i].String()})
		}
		sort.Slice(es, func(i, j int) bool { return es[i].k < es[j].k })
		b.WriteString("(m")
		for _, e := range es {
			b.WriteString(" (" + e.k + " " + e.v + ")")
		}
		b.WriteByte(')')
	case 'p':
		b.WriteString("(p ")
		v.P.write(b)
		b.WriteByte(')')
	}
}

func ParseVal(s string) (*Val, error) {
	x, err := parseSx(s)
	if err != nil {
		return nil, err
	}
	return valOfSx(x)
}

func valOfSx(x *sx) (*Val, error) {
	if !x.isL {
		switch x.atom {
		case "nil":
			return Nil, nil
		case "t":
			return VBool(true), nil
		case "f":
			return VBool(false), nil
		}
		return nil, fmt.Errorf("bad value atom %q", x.atom)
	}
	if len(x.list) == 0 || x.list[0].isL {
		return nil, fmt.Errorf("bad value list")
	}
	switch x.list[0].atom {
	case "i":
		n, ok := new(big.Int).SetString(x.list[1].atom, 10)
		if !ok {
			return nil, fmt.Errorf("bad int")
		}
		return &Val{K: 'i', I: n}, nil
	case "d":
		var d uint64
		if _, err := fmt.Sscanf(x.list[1].atom, "%x", &d); err != nil {
			return nil, err
		}
		w := 64
		if len(x.list[1].atom) == 8 {
			w = 32
		}
		return &Val{K: 'd', D: d, W: w}, nil
	case "s", "n":
		s, err := unhex(x.list[1].atom)
		if err != nil {
			return nil, err
		}
		return &Val{K: x.list[0].atom[0], S: []byte(s)}, nil
	case "l":
		v := &Val{K: 'l'}
		for _, e := range x.list[1:] {
			ev, err := valOfSx(e)
			if err != nil {
				return nil, err
			}
			v.L = append(v.L, ev)
		}
		return v, nil
	case "L":
		v := &Val{K: 'l'}
		for _, e := range x.list[1].list {
			ev, err := valOfSx(e)
			if err != nil {
				return nil, err
			}
			v.L = append(v.L, ev)
		}
		for _, e := range x.list[2].list {
			ev, err := valOfSx(e)
			if err != nil {
				return nil, err
			}
			v.H = append(v.H, ev)
		}
		return v, nil
	case "m":
		v := &Val{K: 'm'}
		for _, e := range x.list[1:] {
			k, err := valOfSx(e.list[0])
			if err != nil {
				return nil, err
			}
			ev, err := valOfSx(e.list[1])
			if err != nil {
				return nil, err
			}
			v.MK, v.MV = append(v.MK, k), append(v.MV, ev)
		}
		return v, nil
	case "p":
		p, err := valOfSx(x.list[1])
		if err != nil {
			return nil, err
		}
		return VPtr(p), nil
	}
	return nil, fmt.Errorf("bad value form %q", x.list[0].atom)
}

func isUnsigned(ik string) bool { return ik[0] == 'u' }

// Set stores v (model view) into the addressable Go value rv of type t.
func Set(rv reflect.Value, t *Ty, v *Val) error {
	if v.K == 'z' {
		rv.Set(reflect.Zero(rv.Type()))
		return nil
	}
	t0 := t
	t = t.deref()
	_ = t0
	switch t.K {
	case KBool:
		rv.SetBool(v.B)
	case KInt:
		if isUnsigned(t.IK) {
			rv.SetUint(v.I.Uint64())
		} else {
			rv.SetInt(v.I.Int64())
		}
	case KF32:
		rv.SetFloat(float64(math.Float32frombits(uint32(v.D))))
	case KF64:
		rv.SetFloat(math.Float64frombits(v.D))
	case KStr, KNum:
		rv.SetString(string(v.S))
	case KBytes, KRaw:
		if v.K == 'l' {
			b := make([]byte, len(v.L)+len(v.H))
			for i, e := range append(append([]*Val{}, v.L...), v.H...) {
				b[i] = byte(e.I.Uint64())
			}
			rv.SetBytes(b[:len(v.L)])
		} else {
			rv.SetBytes(append(make([]byte, 0, len(v.S)), v.S...))
		}
	case KUnm:
		rv.Field(0).SetString(string(v.S))
	case KText:
		rv.Field(0).SetString(string(v.S))
	case KSlice:
		n := len(v.L) + len(v.H)
		s := reflect.MakeSlice(rv.Type(), n, n)
		for i, e := range append(append([]*Val{}, v.L...), v.H...) {
			if err := Set(s.Index(i), t.El, e); err != nil {
				return err
			}
		}
		rv.Set(s.Slice(0, len(v.L)))
	case KArr:
		for i, e := range v.L {
			if i < rv.Len() {
				if err := Set(rv.Index(i), t.El, e); err != nil {
					return err
				}
			}
		}
	case KMap:
		m := reflect.MakeMap(rv.Type())
		for i := range v.MK {
			k := reflect.New(rv.Type().Key()).Elem()
			if err := Set(k, t.Key, v.MK[i]); err != nil {
				return err
			}
			e := reflect.New(rv.Type().Elem()).Elem()
			if err := Set(e, t.El, v.MV[i]); err != nil {
				return err
			}
			m.SetMapIndex(k, e)
		}
		rv.Set(m)
	case KPtr:
		p := reflect.New(rv.Type().Elem())
		if err := Set(p.Elem(), t.El, v.P); err != nil {
			return err
		}
		rv.Set(p)
	case KStruct:
		rfs := t.Resolve()
		for i, e := range v.L {
			if i < len(rfs) && !rfs[i].ViaPtr {
				if err := Set(rv.FieldByIndex(rfs[i].Index), rfs[i].T, e); err != nil {
					return err
				}
			}
		}
	case KAny:
		rv.Set(reflect.ValueOf(anyOf(v)))
	default:
		return fmt.Errorf("Set: unsupported kind for %s", t)
	}
	return nil
}

func anyOf(v *Val) interface{} {
	switch v.K {
	case 'b':
		return v.B
	case 'i':
		return v.I.Int64()
	case 'd':
		return math.Float64frombits(v.D)
	case 's':
		return string(v.S)
	case 'n':
		return json.Number(string(v.S))
	case 'l':
		l := make([]interface{}, len(v.L))
		for i, e := range v.L {
			l[i] = anyOf(e)
		}
		return l
	case 'm':
		m := map[string]interface{}{}
		for i := range v.MK {
			m[string(v.MK[i].S)] = anyOf(v.MV[i])
		}
		return m
	}
	return nil
}

// Dump prints the Go value in the model's view (resolved struct fields only, visible slice part only).
func Dump(rv reflect.Value, t *Ty) string {
	var b strings.Builder
	dump(&b, rv, t)
	return b.String()
}

func dump(b *strings.Builder, rv reflect.Value, t *Ty) {
	t = t.deref()
	switch t.K {
	case KBool:
		VBool(rv.Bool()).write(b)
	case KInt:
		if isUnsigned(t.IK) {
			VUint(rv.Uint()).write(b)
		} else {
			VInt(rv.Int()).write(b)
		}
	case KF32:
		// -0 is printed as +0: reflect.DeepEqual identifies them, and whether the text -0 gives +0 or -0 in sonic
		// depends on the byte that follows it (check_leading_zero reads s[i+1], also past the end of the input)
		VF32(float32(rv.Float()) + 0).write(b)
	case KF64:
		VF64(rv.Float() + 0).write(b)
	case KStr, KNum:
		VStr(rv.String()).write(b)
	case KBytes, KRaw:
		if rv.IsNil() {
			b.WriteString("nil")
		} else {
			(&Val{K: 's', S: rv.Bytes()}).write(b)
		}
	case KUnm, KText:
		VStr(rv.Field(0).String()).write(b)
	case KSlice:
		if rv.IsNil() {
			b.WriteString("nil")
			return
		}
		b.WriteString("(l")
		for i := 0; i < rv.Len(); i++ {
			b.WriteByte(' ')
			dump(b, rv.Index(i), t.El)
		}
		b.WriteByte(')')
	case KArr:
		b.WriteString("(l")
		for i := 0; i < rv.Len(); i++ {
			b.WriteByte(' ')
			dump(b, rv.Index(i), t.El)
		}
		b.WriteByte(')')
	case KMap:
		if rv.IsNil() {
			b.WriteString("nil")
			return
		}
		type kv struct{ k, v string }
		var es []kv
		it := rv.MapRange()
		for it.Next() {
			es = append(es, kv{Dump(it.Key(), t.Key), Dump(it.Value(), t.El)})
		}
		sort.Slice(es, func(i, j int) bool { return es[i].k < es[j].k })
		b.WriteString("(m")
		for _, e := range es {
			b.WriteString(" (" + e.k + " " + e.v + ")")
		}
		b.WriteByte(')')
	case KPtr:
		if rv.IsNil() {
			b.WriteString("nil")
			return
		}
		b.WriteString("(p ")
		dump(b, rv.Elem(), t.El)
		b.WriteByte(')')
	case KStruct:
		b.WriteString("(l")
		for _, f := range t.Resolve() {
			b.WriteByte(' ')
			fv, err := rv.FieldByIndexErr(f.Index)
			if err != nil {
				b.WriteString("(? nil-embedded)")
				continue
			}
			dump(b, fv, f.T)
		}
		b.WriteByte(')')
	case KAny:
		dumpAny(b, rv)
	default:
		b.WriteString("(? " + rv.Type().String() + ")")
	}
}

func dumpAny(b *strings.Builder, rv reflect.Value) {
	if rv.Kind() == reflect.Interface {
		if rv.IsNil() {
			b.WriteString("nil")
			return
		}
		rv = rv.Elem()
	}
	switch x := rv.Interface().(type) {
	case bool:
		VBool(x).write(b)
	case float64:
		VF64(x + 0).write(b)
	case int64:
		VInt(x).write(b)
	case string:
		VStr(x).write(b)
	case json.Number:
		VNum(string(x)).write(b)
	case []interface{}:
		b.WriteString("(l")
		for _, e := range x {
			b.WriteByte(' ')
			dumpAny(b, reflect.ValueOf(&e).Elem())
		}
		b.WriteByte(')')
	case map[string]interface{}:
		keys := make([]string, 0, len(x))
		for k := range x {
			keys = append(keys, k)
		}
		type kv struct{ k, v string }
		var es []kv
		for _, k := range keys {
			e := x[k]
			var vb strings.Builder
			dumpAny(&vb, reflect.ValueOf(&e).Elem())
			es = append(es, kv{VStr(k).String(), vb.String()})
		}
		sort.Slice(es, func(i, j int) bool { return es[i].k < es[j].k })
		b.WriteString("(m")
		for _, e := range es {
			b.WriteString(" (" + e.k + " " + e.v + ")")
		}
		b.WriteByte(')')
	default:
		b.WriteString("(? " + rv.Type().String() + " " + DeepDump(rv) + ")")
	}
}

// DeepDump is the type-independent canonical dump used by the oracle comparison (sonic vs encoding/json):
// every field (exported or not), maps sorted, floats as bit patterns, nil distinguished from empty,
// dynamic types of interface values named.
func DeepDump(rv reflect.Value) string {
	var b strings.Builder
	deep(&b, rv, 0)
	return b.String()
}

func deep(b *strings.Builder, rv reflect.Value, depth int) {
	if depth > 200 {
		b.WriteString("<deep>")
		return
	}
	switch rv.Kind() {
	case reflect.Bool:
		VBool(rv.Bool()).write(b)
	case reflect.Int, reflect.Int8, reflect.Int16, reflect.Int32, reflect.Int64:
		VInt(rv.Int()).write(b)
	case reflect.Uint, reflect.Uint8, reflect.Uint16, reflect.Uint32, reflect.Uint64, reflect.Uintptr:
		VUint(rv.Uint()).write(b)
	case reflect.Float32:
		// reflect.DeepEqual compares floats with ==: +0 and -0 are deeply equal (NaN cannot come out of JSON)
		VF32(float32(rv.Float()) + 0).write(b)
	case reflect.Float64:
		VF64(rv.Float() + 0).write(b)
	case reflect.String:
		VStr(rv.String()).write(b)
	case reflect.Slice:
		if rv.IsNil() {
			b.WriteString("nil")
			return
		}
		if rv.Type().Elem().Kind() == reflect.Uint8 {
			bs := make([]byte, rv.Len())
			for i := range bs {
				bs[i] = byte(rv.Index(i).Uint())
			}
			(&Val{K: 's', S: bs}).write(b)
			return
		}
		fallthrough
	case reflect.Array:
		b.WriteString("(l")
		for i := 0; i < rv.Len(); i++ {
			b.WriteByte(' ')
			deep(b, rv.Index(i), depth+1)
		}
		b.WriteByte(')')
	case reflect.Map:
		if rv.IsNil() {
			b.WriteString("nil")
			return
		}
		type kv struct{ k, v string }
		var es []kv
		it := rv.MapRange()
		for it.Next() {
			var kb, vb strings.Builder
			deep(&kb, it.Key(), depth+1)
			deep(&vb, it.Value(), depth+1)
			es = append(es, kv{kb.String(), vb.String()})
		}
		sort.Slice(es, func(i, j int) bool { return es[i].k < es[j].k })
		b.WriteString("(m")
		for _, e := range es {
			b.WriteString(" (" + e.k + " " + e.v + ")")
		}
		b.WriteByte(')')
	case reflect.Ptr:
		if rv.IsNil() {
			b.WriteString("nil")
			return
		}
		b.WriteString("(p ")
		deep(b, rv.Elem(), depth+1)
		b.WriteByte(')')
	case reflect.Interface:
		if rv.IsNil() {
			b.WriteString("nil")
			return
		}
		b.WriteString("(I " + strings.ReplaceAll(rv.Elem().Type().String(), " ", "_") + " ")
		deep(b, rv.Elem(), depth+1)
		b.WriteByte(')')
	case reflect.Struct:
		b.WriteString("(l")
		for i := 0; i < rv.NumField(); i++ {
			b.WriteByte(' ')
			deep(b, rv.Field(i), depth+1)
		}
		b.WriteByte(')')
	case reflect.Chan, reflect.Func, reflect.UnsafePointer:
		if rv.IsNil() {
			b.WriteString("nil")
		} else {
			b.WriteString("<" + rv.Kind().String() + ">")
		}
	default:
		b.WriteString("<" + rv.Kind().String() + ">")
	}
}
