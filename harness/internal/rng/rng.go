// Package rng: the single PRNG every random choice of the harness derives from (splitmix64).
package rng

type R struct{ s uint64 }

func New(seed uint64) *R { return &R{s: seed*0x9E3779B97F4A7C15 + 0x1234567} }

func (r *R) U64() uint64 {
	r.s += 0x9E3779B97F4A7C15
	z := r.s
	z = (z ^ (z >> 30)) * 0xBF58476D1CE4E5B9
	z = (z ^ (z >> 27)) * 0x94D049BB133111EB
	return z ^ (z >> 31)
}

// Intn returns a value in [0,n).
func (r *R) Intn(n int) int {
	if n <= 0 {
		return 0
	}
	return int(r.U64() % uint64(n))
}

func (r *R) Bool() bool { return r.U64()&1 == 1 }

// Chance: true with probability num/den.
func (r *R) Chance(num, den int) bool { return r.Intn(den) < num }

func (r *R) Pick(xs []string) string { return xs[r.Intn(len(xs))] }

// Fork derives an independent stream (so that adding draws in one generator does not shift others).
func (r *R) Fork(tag uint64) *R { return New(r.U64() ^ (tag * 0xD6E8FEB86659FD93)) }
