// Package jgen: grammar-directed JSON document generation (mostly valid) and a separate malformed stream.
package jgen

import (
	"strconv"
	"strings"

	"verif/harness/internal/rng"
)

type Opts struct {
	MaxDepth   int
	MaxWidth   int
	WS         bool // random whitespace between tokens
	DupKeys    bool // allow duplicate keys in objects
	Escapes    bool // allow escapes inside strings (valid ones)
	NonASCII   bool // allow valid multi-byte UTF-8
	LongRuns   bool // strings / numbers / whitespace runs with lengths around SIMD block sizes
	KeyPool    []string
	OnlyASCIIKeys bool
}

var Default = Opts{MaxDepth: 4, MaxWidth: 5, WS: true, DupKeys: true, Escapes: true, NonASCII: true, LongRuns: true}

var blockLens = []int{0, 1, 2, 3, 7, 8, 15, 16, 17, 30, 31, 32, 33, 34, 47, 48, 49, 62, 63, 64, 65, 66, 95, 96, 97, 127, 128, 129}

func BlockLen(r *rng.R) int { return blockLens[r.Intn(len(blockLens))] }

func ws(r *rng.R, o *Opts, b *strings.Builder) {
	if !o.WS {
		return
	}
	switch r.Intn(12) {
	case 0:
		b.WriteByte(' ')
	case 1:
		b.WriteByte('\n')
	case 2:
		b.WriteString("\t ")
	case 3:
		b.WriteString("\r\n")
	case 4:
		if o.LongRuns && r.Chance(1, 6) {
			b.WriteString(strings.Repeat(" ", BlockLen(r)))
		}
	}
}

var simpleKeys = []string{"a", "b", "c", "id", "name", "A", "Name", "x", "key", "k1", "k2", "value", "list", "obj", ""}

func Key(r *rng.R, o *Opts) string {
	if len(o.KeyPool) > 0 && r.Chance(4, 5) {
		return o.KeyPool[r.Intn(len(o.KeyPool))]
	}
	if r.Chance(3, 4) {
		return simpleKeys[r.Intn(len(simpleKeys))]
	}
	return StrContent(r, o)
}

// StrContent returns the *decoded* content of a random string.
func StrContent(r *rng.R, o *Opts) string {
	n := r.Intn(8)
	if o.LongRuns && r.Chance(1, 5) {
		n = BlockLen(r)
	}
	var b strings.Builder
	for i := 0; i < n; i++ {
		switch k := r.Intn(40); {
		case k == 0 && o.Escapes:
			b.WriteByte('"')
		case k == 1 && o.Escapes:
			b.WriteByte('\\')
		case k == 2 && o.Escapes:
			b.WriteByte(byte(r.Intn(32)))
		case k == 3 && o.NonASCII:
			b.WriteString([]string{"é", "中", "😀", " ", "ſ", "K", " ", "￿"}[r.Intn(8)])
		case k == 4 && o.Escapes:
			b.WriteString([]string{"<", ">", "&", "/", "\x7f"}[r.Intn(5)])
		default:
			b.WriteByte("abcdefghijklmnopqrstuvwxyzABCXYZ0123456789 _-"[r.Intn(45)])
		}
	}
	return b.String()
}

// QuoteJSON writes a JSON string literal for the decoded content s, choosing escape spellings at random.
func QuoteJSON(r *rng.R, o *Opts, s string) string {
	var b strings.Builder
	b.WriteByte('"')
	for _, c := range []byte(s) {
		switch {
		case c == '"':
			b.WriteString([]string{`\"`, `\u0022`}[r.Intn(2)])
		case c == '\\':
			b.WriteString([]string{`\\`, `\u005c`, `\u005C`}[r.Intn(3)])
		case c < 0x20:
			switch c {
			case '\n':
				b.WriteString([]string{`\n`, `\u000a`}[r.Intn(2)])
			case '\t':
				b.WriteString(`\t`)
			case '\r':
				b.WriteString(`\r`)
			case '\b':
				b.WriteString(`\b`)
			case '\f':
				b.WriteString(`\f`)
			default:
				b.WriteString(`\u00` + string("0123456789abcdef"[c>>4]) + string("0123456789ABCDEF"[c&15]))
			}
		case c == '/' && o.Escapes && r.Chance(1, 2):
			b.WriteString(`\/`)
		case c >= 'a' && c <= 'z' && o.Escapes && r.Chance(1, 30):
			b.WriteString(`\u00` + string("0123456789abcdef"[c>>4]) + string("0123456789abcdef"[c&15]))
		default:
			b.WriteByte(c)
		}
	}
	b.WriteByte('"')
	return b.String()
}

var numPool = []string{"0", "-0", "1", "-1", "12", "123", "0.5", "-0.25", "1e2", "1E+2", "1e-2", "1.5e300", "2.5E-300",
	"127", "128", "-128", "-129", "255", "256", "32767", "32768", "-32769", "65535", "65536", "2147483647", "2147483648", "-2147483649",
	"4294967295", "4294967296", "9223372036854775807", "9223372036854775808", "-9223372036854775808", "-9223372036854775809",
	"18446744073709551615", "18446744073709551616", "1e400", "-1e400", "1e-400", "0.1", "3.14159", "1.0", "100", "1e0", "0e0", "0.0", "-0.0",
	"123456789012345678901234567890", "1.7976931348623157e308", "4.9e-324", "3.4028235e38", "3.4028236e38", "16777217", "9007199254740993"}

func Number(r *rng.R, o *Opts) string {
	if r.Chance(2, 3) {
		return numPool[r.Intn(len(numPool))]
	}
	var b strings.Builder
	if r.Chance(1, 3) {
		b.WriteByte('-')
	}
	n := 1 + r.Intn(6)
	if o.LongRuns && r.Chance(1, 8) {
		n = 1 + BlockLen(r)
	}
	b.WriteByte("123456789"[r.Intn(9)])
	for i := 1; i < n; i++ {
		b.WriteByte("0123456789"[r.Intn(10)])
	}
	if r.Chance(1, 3) {
		b.WriteByte('.')
		m := 1 + r.Intn(5)
		for i := 0; i < m; i++ {
			b.WriteByte("0123456789"[r.Intn(10)])
		}
	}
	if r.Chance(1, 4) {
		b.WriteByte("eE"[r.Intn(2)])
		if r.Chance(1, 2) {
			b.WriteByte("+-"[r.Intn(2)])
		}
		b.WriteString(strconv.Itoa(r.Intn(40)))
	}
	return b.String()
}

// Value writes one valid JSON value.
func Value(r *rng.R, o *Opts, depth int, b *strings.Builder) {
	k := r.Intn(10)
	if depth >= o.MaxDepth && k >= 6 {
		k = r.Intn(6)
	}
	switch k {
	case 0:
		b.WriteString("null")
	case 1:
		b.WriteString([]string{"true", "false"}[r.Intn(2)])
	case 2, 3:
		b.WriteString(Number(r, o))
	case 4, 5:
		b.WriteString(QuoteJSON(r, o, StrContent(r, o)))
	case 6, 7:
		b.WriteByte('[')
		ws(r, o, b)
		n := r.Intn(o.MaxWidth + 1)
		for i := 0; i < n; i++ {
			if i > 0 {
				b.WriteByte(',')
				ws(r, o, b)
			}
			Value(r, o, depth+1, b)
			ws(r, o, b)
		}
		b.WriteByte(']')
	default:
		b.WriteByte('{')
		ws(r, o, b)
		n := r.Intn(o.MaxWidth + 1)
		seen := map[string]bool{}
		for i := 0; i < n; i++ {
			key := Key(r, o)
			if !o.DupKeys {
				for seen[key] {
					key += "_"
				}
				seen[key] = true
			}
			if i > 0 {
				b.WriteByte(',')
				ws(r, o, b)
			}
			b.WriteString(QuoteJSON(r, o, key))
			ws(r, o, b)
			b.WriteByte(':')
			ws(r, o, b)
			Value(r, o, depth+1, b)
			ws(r, o, b)
		}
		b.WriteByte('}')
	}
}

// Doc returns a valid JSON document (with optional surrounding whitespace).
func Doc(r *rng.R, o *Opts) string {
	var b strings.Builder
	ws(r, o, &b)
	Value(r, o, 0, &b)
	ws(r, o, &b)
	return b.String()
}

var structural = []string{"{", "}", "[", "]", ",", ":", "\"", "\\", "0", "1", "-", "+", ".", "e", "E", "t", "n", "f", "true", "null", "false", " ", "\x00", "\n", "a", "\\u", "\\ud800", "\xff", "\x1f"}

// Mutate returns a (probably malformed) variant of a valid document by editing at a random position.
func Mutate(r *rng.R, doc string) string {
	if len(doc) == 0 {
		return structural[r.Intn(len(structural))]
	}
	n := 1 + r.Intn(2)
	for i := 0; i < n; i++ {
		p := r.Intn(len(doc) + 1)
		switch r.Intn(5) {
		case 0: // delete one byte
			if p < len(doc) {
				doc = doc[:p] + doc[p+1:]
			}
		case 1: // insert
			doc = doc[:p] + structural[r.Intn(len(structural))] + doc[p:]
		case 2: // replace
			if p < len(doc) {
				doc = doc[:p] + structural[r.Intn(len(structural))] + doc[p+1:]
			}
		case 3: // truncate
			doc = doc[:p]
		case 4: // append trailing garbage
			doc = doc + structural[r.Intn(len(structural))]
		}
		if len(doc) == 0 {
			break
		}
	}
	return doc
}
