package tygen

import (
	"encoding"
	"encoding/hex"
	"encoding/json"
	"fmt"
	"math"
	"reflect"
	"sort"
	"strconv"
	"strings"
	"unsafe"

	"verif/harness/internal/rng"
)

// ---------------------------------------------------------------- values (wire format of Enc/Val.v)
//
//	V ::= (b 0|1) | (i DEC) | (f BITSHEX TEXTHEX) | (s HEX) | (arr V ...) | (sl V ...) | nilsl | (mp (K V) ...) | nilmp
//	    | (p V) | nilp | (if T V) | nilif | (st V ...) | (m JRES TRES V) | (u)
//	RES ::= n (no such method) | e (the method returned an error) | oHEX (returned bytes)

// StdFloat renders a finite float the way encoding/json does (strconv shortest, 'e' form outside [1e-6,1e21)).
func StdFloat(f float64, bits int) string {
	b := make([]byte, 0, 32)
	abs := math.Abs(f)
	fm := byte('f')
	if abs != 0 {
		if bits == 64 && (abs < 1e-6 || abs >= 1e21) || bits == 32 && (float32(abs) < 1e-6 || float32(abs) >= 1e21) {
			fm = 'e'
		}
	}
	b = strconv.AppendFloat(b, f, fm, -1, bits)
	if fm == 'e' {
		n := len(b)
		if n >= 4 && b[n-4] == 'e' && (b[n-3] == '-' || b[n-3] == '+') && b[n-2] == '0' {
			b[n-2] = b[n-1]
			b = b[:n-1]
		}
	}
	return string(b)
}

type Dumper struct {
	MaxNodes int // unrolling bound for cyclic / very deep data
	nodes    int
	sb       strings.Builder
}

// DumpValue serialises v (of static type v.Type()).
func DumpValue(v reflect.Value) string {
	d := &Dumper{MaxNodes: 40000}
	d.val(v)
	return d.sb.String()
}

func res(b []byte, err error) string {
	if err != nil {
		return "e"
	}
	return "o" + hex.EncodeToString(b)
}

func (d *Dumper) val(v reflect.Value) {
	t := v.Type()
	// oracle of user methods (called on an addressable copy, so that pointer receivers are reachable too)
	if _, named := catID[t]; named && Methods(t) != 0 {
		m := Methods(t)
		pv := reflect.New(t)
		pv.Elem().Set(v)
		jr, tr := "n", "n"
		callable := true
		if (t.Kind() == reflect.Ptr || t.Kind() == reflect.Map) && v.IsNil() && t.Kind() == reflect.Ptr {
			callable = false
		}
		if callable {
			func() {
				defer func() {
					if r := recover(); r != nil {
						jr, tr = "e", "e"
					}
				}()
				if m&3 != 0 {
					jr = res(pv.Interface().(json.Marshaler).MarshalJSON())
				}
				if m&12 != 0 {
					tr = res(pv.Interface().(encoding.TextMarshaler).MarshalText())
				}
			}()
		}
		d.sb.WriteString("(m " + jr + " " + tr + " ")
		d.under(v)
		d.sb.WriteString(")")
		return
	}
	d.under(v)
}

func (d *Dumper) under(v reflect.Value) {
	t := v.Type()
	d.nodes++
	switch t.Kind() {
	case reflect.Bool:
		if v.Bool() {
			d.sb.WriteString("(b 1)")
		} else {
			d.sb.WriteString("(b 0)")
		}
	case reflect.Int, reflect.Int8, reflect.Int16, reflect.Int32, reflect.Int64:
		fmt.Fprintf(&d.sb, "(i %d)", v.Int())
	case reflect.Uint, reflect.Uint8, reflect.Uint16, reflect.Uint32, reflect.Uint64, reflect.Uintptr:
		fmt.Fprintf(&d.sb, "(i %d)", v.Uint())
	case reflect.Float32:
		f := float32(v.Float())
		txt := "-"
		if !math.IsNaN(float64(f)) && !math.IsInf(float64(f), 0) {
			txt = hex.EncodeToString([]byte(StdFloat(float64(f), 32)))
		}
		fmt.Fprintf(&d.sb, "(f %08x %s)", math.Float32bits(f), txt)
	case reflect.Float64:
		f := v.Float()
		txt := "-"
		if !math.IsNaN(f) && !math.IsInf(f, 0) {
			txt = hex.EncodeToString([]byte(StdFloat(f, 64)))
		}
		fmt.Fprintf(&d.sb, "(f %016x %s)", math.Float64bits(f), txt)
	case reflect.String:
		d.sb.WriteString("(s " + hexs(v.String()) + ")")
	case reflect.Array:
		d.sb.WriteString("(arr")
		for i := 0; i < v.Len(); i++ {
			d.sb.WriteByte(' ')
			d.val(v.Index(i))
		}
		d.sb.WriteString(")")
	case reflect.Slice:
		if v.IsNil() {
			d.sb.WriteString("nilsl")
			return
		}
		d.sb.WriteString("(sl")
		for i := 0; i < v.Len(); i++ {
			d.sb.WriteByte(' ')
			if d.nodes > d.MaxNodes {
				break
			}
			d.val(v.Index(i))
		}
		d.sb.WriteString(")")
	case reflect.Map:
		if v.IsNil() {
			d.sb.WriteString("nilmp")
			return
		}
		d.sb.WriteString("(mp")
		keys := v.MapKeys()
		sort.Slice(keys, func(i, j int) bool { return lessKey(keys[i], keys[j]) })
		for _, k := range keys {
			if d.nodes > d.MaxNodes {
				break
			}
			d.sb.WriteString(" (")
			d.val(k)
			d.sb.WriteByte(' ')
			d.val(v.MapIndex(k))
			d.sb.WriteString(")")
		}
		d.sb.WriteString(")")
	case reflect.Ptr:
		if v.IsNil() || d.nodes > d.MaxNodes {
			d.sb.WriteString("nilp")
			return
		}
		d.sb.WriteString("(p ")
		d.val(v.Elem())
		d.sb.WriteString(")")
	case reflect.Interface:
		if v.IsNil() || d.nodes > d.MaxNodes {
			d.sb.WriteString("nilif")
			return
		}
		e := v.Elem()
		d.sb.WriteString("(if " + Desc(e.Type()) + " ")
		d.val(e)
		d.sb.WriteString(")")
	case reflect.Struct:
		d.sb.WriteString("(st")
		for i := 0; i < v.NumField(); i++ {
			d.sb.WriteByte(' ')
			f := v.Field(i)
			if !f.CanInterface() { // unexported: read through unsafe
				if v.CanAddr() {
					f = reflect.NewAt(f.Type(), unsafe.Pointer(f.UnsafeAddr())).Elem()
				} else {
					c := reflect.New(t).Elem()
					c.Set(v)
					f = c.Field(i)
					f = reflect.NewAt(f.Type(), unsafe.Pointer(f.UnsafeAddr())).Elem()
				}
			}
			d.val(f)
		}
		d.sb.WriteString(")")
	default: // chan, func, complex, unsafe pointer
		d.sb.WriteString("(u)")
	}
}

func lessKey(a, b reflect.Value) bool {
	switch a.Kind() {
	case reflect.String:
		return a.String() < b.String()
	case reflect.Int, reflect.Int8, reflect.Int16, reflect.Int32, reflect.Int64:
		return a.Int() < b.Int()
	case reflect.Uint, reflect.Uint8, reflect.Uint16, reflect.Uint32, reflect.Uint64, reflect.Uintptr:
		return a.Uint() < b.Uint()
	case reflect.Bool:
		return !a.Bool() && b.Bool()
	case reflect.Float32, reflect.Float64:
		return a.Float() < b.Float()
	case reflect.Struct:
		for i := 0; i < a.NumField(); i++ {
			if lessKey(a.Field(i), b.Field(i)) {
				return true
			}
			if lessKey(b.Field(i), a.Field(i)) {
				return false
			}
		}
	}
	return false
}

// ---------------------------------------------------------------- value generation

var intEdges = []int64{0, 1, -1, 2, 9, 10, 99, 100, 127, 128, -128, -129, 255, 256, 32767, 32768, -32768, 65535, 65536,
	2147483647, 2147483648, -2147483648, 4294967295, 4294967296, 9999999999, 1e15, 1e16 - 1, 1e16, 1e18, math.MaxInt64, math.MinInt64, math.MinInt64 + 1, 1234567890123}

var floatEdges = []float64{0, math.Copysign(0, -1), 1, -1, 0.1, 0.5, 1.5, 100, 1e20, 1e21, 1e22, 9.999999999999999e20, 1e-6, 1e-7, 9.9e-7, 123456789, 1.7976931348623157e308,
	5e-324, 2.2250738585072014e-308, 3.4028234663852886e38, 1.401298464324817e-45, 1e23, 4.35, 0.3, 2.5e-5, 1e-5, 12345.678e10, math.Pi,
	math.NaN(), math.Inf(1), math.Inf(-1), 16777216, 9007199254740993, 1e15, 123456.7}

var strPool = []string{"", "a", "abc", "key", "Hello, World", "a\"b", "back\\slash", "line\nbreak", "tab\there", "cr\rhere", "\b\f", "\x00", "\x1f\x7f",
	"<script>", "a&b", ">", " ", " x", "é", "中文", "\U0001F600", "\xff", "a\xc0\xafb", "\xed\xa0\x80", "\xe2\x80", "\xf4\x90\x80\x80", "\xc2",
	"0123456789abcdef0123456789abcdef", "0123456789abcdef0123456789abcde\"", "0123456789abcde\\0123456789abcdef<", "null", "true", "12", "-0", "1e5",
	strings.Repeat("x", 63) + "\n", strings.Repeat("y", 64), strings.Repeat("é", 20), "\"", "\\", "/", "\\u0041", " "}

// Str returns a string for a value position.
func Str(r *rng.R) string {
	switch r.Intn(10) {
	case 0, 1, 2, 3, 4, 5:
		return strPool[r.Intn(len(strPool))]
	case 6:
		n := r.Intn(70)
		b := make([]byte, n)
		for i := range b {
			b[i] = byte(32 + r.Intn(95))
		}
		return string(b)
	case 7:
		n := r.Intn(40)
		b := make([]byte, n)
		for i := range b {
			b[i] = byte(r.Intn(256))
		}
		return string(b)
	default:
		return strPool[r.Intn(len(strPool))] + strPool[r.Intn(len(strPool))]
	}
}

var numPool = []string{"", "0", "-0", "1", "-12", "1.5", "1e5", "1E+5", "-1.25e-7", "12345678901234567890123", "0.0", "1e", "1.", "01", "-", "+1", ".5", "1e+", "0x10", "1 ", " 1", "NaN", "1.5e", "--1", "1e1.5", "\"1\"", "1E-", "-0.5e+", "0e-", "1e+-1"}

var mapSizes = []int{0, 1, 2, 3, 5, 11, 12, 13, 40, 41, 200}

type Gen struct {
	R        *rng.R
	MaxDepth int
	BigMaps  bool
	DynPool  []reflect.Type // dynamic types for interface{} values
}

func (g *Gen) intFor(t reflect.Type) int64 {
	r := g.R
	var x int64
	if r.Chance(2, 3) {
		x = intEdges[r.Intn(len(intEdges))]
	} else {
		x = int64(r.U64()) >> uint(r.Intn(64))
	}
	return x
}

func ifaceImpls(t reflect.Type) []reflect.Type {
	var out []reflect.Type
	for _, c := range Catalogue {
		if c.Kind() == reflect.Interface {
			continue
		}
		if c.Implements(t) {
			out = append(out, c)
		}
		if pc := reflect.PtrTo(c); pc.Implements(t) {
			out = append(out, pc)
		}
	}
	return out
}

// Value generates a value of type t.
func (g *Gen) Value(t reflect.Type, depth int) reflect.Value {
	r := g.R
	v := reflect.New(t).Elem()
	if depth > g.MaxDepth+2 {
		switch t.Kind() {
		case reflect.Slice, reflect.Map, reflect.Ptr, reflect.Interface:
			return v // recursion stops at nil
		}
	}
	switch t.Kind() {
	case reflect.Bool:
		v.SetBool(r.Bool())
	case reflect.Int, reflect.Int8, reflect.Int16, reflect.Int32, reflect.Int64:
		v.SetInt(g.intFor(t)) // SetInt truncates to the width
	case reflect.Uint, reflect.Uint8, reflect.Uint16, reflect.Uint32, reflect.Uint64, reflect.Uintptr:
		v.SetUint(uint64(g.intFor(t)))
	case reflect.Float32:
		if r.Chance(2, 3) {
			v.SetFloat(float64(float32(floatEdges[r.Intn(len(floatEdges))])))
		} else {
			v.SetFloat(float64(math.Float32frombits(uint32(r.U64()))))
		}
	case reflect.Float64:
		if r.Chance(2, 3) {
			v.SetFloat(floatEdges[r.Intn(len(floatEdges))])
		} else if r.Bool() {
			v.SetFloat(math.Float64frombits(r.U64()))
		} else {
			v.SetFloat(float64(int64(r.U64())>>uint(r.Intn(64))) / math.Pow(10, float64(r.Intn(8))))
		}
	case reflect.String:
		if t == Catalogue[0] { // json.Number
			if r.Chance(3, 4) {
				v.SetString(numPool[r.Intn(12)]) // the valid ones (and "")
			} else {
				v.SetString(numPool[r.Intn(len(numPool))])
			}
		} else {
			v.SetString(Str(r))
		}
	case reflect.Array:
		for i := 0; i < t.Len(); i++ {
			v.Index(i).Set(g.Value(t.Elem(), depth+1))
		}
	case reflect.Slice:
		if t == Catalogue[1] { // json.RawMessage
			switch r.Intn(10) {
			case 0:
			case 8:
				v.SetBytes([]byte([]string{" 1 ", "[1, 2]", "{ }", "\t\"a\" ", "[ ]", " null", "\n0", "{\"a\": 1}"}[r.Intn(8)]))
			case 9:
				v.SetBytes([]byte([]string{"{\"", "1 2", "trux", "\"a", "[1,]", "01"}[r.Intn(6)]))
			case 1:
				v.SetBytes([]byte{})
			case 2:
				v.SetBytes([]byte(" { \"a\" : [ 1, 2 ] } "))
			case 3:
				v.SetBytes([]byte("{\"a\":"))
			case 4:
				v.SetBytes([]byte("\"<&>\""))
			default:
				b, _ := json.Marshal(Str(r))
				v.SetBytes(b)
			}
			return v
		}
		k := r.Intn(8)
		if k == 0 {
			return v // nil
		}
		n := []int{0, 0, 1, 1, 2, 3, 4, 17}[k]
		if depth >= g.MaxDepth && n > 2 {
			n = 2
		}
		if t.Elem().Kind() == reflect.Uint8 {
			n = []int{0, 0, 1, 2, 3, 4, 31, 32, 33, 64, 100}[r.Intn(11)]
		}
		s := reflect.MakeSlice(t, n, n)
		for i := 0; i < n; i++ {
			s.Index(i).Set(g.Value(t.Elem(), depth+1))
		}
		v.Set(s)
	case reflect.Map:
		k := r.Intn(8)
		if k == 0 {
			return v
		}
		var n int
		if g.BigMaps && depth <= 1 && simple(t.Elem()) && r.Chance(1, 3) {
			n = mapSizes[r.Intn(len(mapSizes))]
		} else {
			n = []int{0, 0, 1, 1, 2, 3, 5, 12}[k]
			if depth >= g.MaxDepth && n > 2 {
				n = 2
			}
		}
		if t.Key().Kind() == reflect.Ptr && n > 1 {
			n = 1 // distinct pointer keys may resolve to the same text: the order of equal keys is unspecified in both libraries
		}
		m := reflect.MakeMapWithSize(t, n)
		prefix := ""
		if r.Chance(1, 3) {
			prefix = strPool[r.Intn(len(strPool))]
		}
		for i := 0; i < n*2 && m.Len() < n; i++ {
			kv := g.Value(t.Key(), depth+1)
			if t.Key().Kind() == reflect.String && kv.Type() != Catalogue[0] && r.Chance(2, 3) {
				s := prefix + strconv.Itoa(r.Intn(3*n+1))
				if r.Chance(1, 4) {
					s = prefix + Str(r)
				}
				kv.SetString(s)
			}
			if isFloatKind(t.Key().Kind()) && kv.Float() != kv.Float() {
				continue // NaN keys cannot be looked up again
			}
			m.SetMapIndex(kv, g.Value(t.Elem(), depth+1))
		}
		v.Set(m)
	case reflect.Ptr:
		if r.Chance(1, 4) || depth > g.MaxDepth+3 {
			return v
		}
		p := reflect.New(t.Elem())
		p.Elem().Set(g.Value(t.Elem(), depth+1))
		v.Set(p)
	case reflect.Interface:
		if r.Chance(1, 5) {
			return v
		}
		var dt reflect.Type
		if t.NumMethod() == 0 {
			if depth >= g.MaxDepth || len(g.DynPool) == 0 || r.Chance(1, 2) {
				dt = simpleDyn[r.Intn(len(simpleDyn))]
			} else {
				dt = g.DynPool[r.Intn(len(g.DynPool))]
			}
		} else {
			impls := ifaceImpls(t)
			if len(impls) == 0 {
				return v
			}
			dt = impls[r.Intn(len(impls))]
		}
		dv := g.Value(dt, depth+1)
		if t.NumMethod() != 0 && dt.Kind() == reflect.Ptr && dv.IsNil() && (dt.Implements(TJsonM) || dt.Implements(TTextM)) {
			// a nil pointer inside a Marshaler interface makes the user method dereference nil in both libraries
			p := reflect.New(dt.Elem())
			dv = p
		}
		v.Set(dv)
	case reflect.Struct:
		for i := 0; i < t.NumField(); i++ {
			f := v.Field(i)
			if !f.CanSet() {
				f = reflect.NewAt(f.Type(), unsafe.Pointer(f.UnsafeAddr())).Elem()
			}
			if r.Chance(1, 4) {
				continue // zero value: the omitempty / omitzero positions
			}
			if t == Catalogue[4] || t == Catalogue[5] { // JV, JP: special negative codes are rare
				if r.Chance(1, 6) {
					f.SetInt(int64(-1 - r.Intn(6)))
				} else {
					f.SetInt(int64(r.Intn(1000)))
				}
				continue
			}
			f.Set(g.Value(f.Type(), depth+1))
		}
	}
	return v
}

func isFloatKind(k reflect.Kind) bool { return k == reflect.Float32 || k == reflect.Float64 }

func simple(t reflect.Type) bool {
	switch t.Kind() {
	case reflect.Map, reflect.Slice, reflect.Struct, reflect.Array, reflect.Interface, reflect.Ptr:
		return false
	}
	return true
}

var simpleDyn = []reflect.Type{
	reflect.TypeOf(0), reflect.TypeOf(""), reflect.TypeOf(false), reflect.TypeOf(1.5), reflect.TypeOf(float32(0)), reflect.TypeOf(int8(0)),
	reflect.TypeOf(uint64(0)), reflect.TypeOf([]interface{}(nil)), reflect.TypeOf(map[string]interface{}(nil)), reflect.TypeOf([]byte(nil)),
	reflect.TypeOf((*int)(nil)), reflect.TypeOf(json.Number("")), reflect.TypeOf([]int(nil)), reflect.TypeOf(map[string]string(nil)),
	reflect.TypeOf(JV{}), reflect.TypeOf(TV{}), reflect.TypeOf(&JV{}), reflect.TypeOf(JVInt(0)), reflect.TypeOf(struct{}{}), reflect.TypeOf([2]bool{}),
	reflect.TypeOf(SDirect{}), reflect.TypeOf(JVDirect{}), reflect.TypeOf(uintptr(0)), reflect.TypeOf(NStr("")),
}
