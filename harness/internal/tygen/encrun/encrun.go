// Package encrun: case stream (witnesses first, then seeded random cases) and the runners shared by the
// harness commands of C03, C12 and C04: real sonic encoder (JIT or VM according to the process), encoding/json
// oracle, IR dump through the /repo hook.
package encrun

import (
	"bytes"
	"encoding/hex"
	"encoding/json"
	"errors"
	"fmt"
	"reflect"
	"runtime"
	"strings"

	"github.com/bytedance/sonic"
	"github.com/bytedance/sonic/encoder"
	"github.com/bytedance/sonic/option"
	"github.com/bytedance/sonic/verifx"

	"verif/harness/internal/rng"
	"verif/harness/internal/tygen"
)

type Case struct {
	ID     string
	V      reflect.Value // the value handed to Marshal (inside an interface); invalid Value = Marshal(nil)
	Regime string
	Feat   tygen.Features
}

func (c *Case) Iface() interface{} {
	if !c.V.IsValid() {
		return nil
	}
	return c.V.Interface()
}

func (c *Case) TypeDesc() string {
	if !c.V.IsValid() {
		return "nil"
	}
	return tygen.Desc(c.V.Type())
}

func (c *Case) ValueDesc() string {
	if !c.V.IsValid() {
		return "nil"
	}
	return tygen.DumpValue(c.V)
}

// ---------------------------------------------------------------- generation

// Random builds case number i of the stream of `seed`.
func Random(seed uint64, i int) *Case {
	r := rng.New(seed).Fork(uint64(i) + 1)
	reg := []string{"plain", "plain", "plain", "plain", "rec", "ptrrecv", "odd", "omitzero", "bigmap", "plain"}[i%10]
	tg := &tygen.TGen{R: r, MaxDepth: 1 + r.Intn(4)}
	vg := &tygen.Gen{R: r.Fork(7), MaxDepth: 4}
	switch reg {
	case "rec":
		tg.Recursive = true
	case "ptrrecv":
		tg.PtrRecv = true
	case "odd":
		tg.OddKeys, tg.Unsupp = true, true
	case "omitzero":
		tg.OmitZero = true
	case "bigmap":
		vg.BigMaps = true
		tg.MaxDepth = 1 + r.Intn(2)
	}
	var t reflect.Type
	if reg == "bigmap" {
		t = reflect.MapOf([]reflect.Type{reflect.TypeOf(""), reflect.TypeOf(""), reflect.TypeOf(int(0)), reflect.TypeOf(uint16(0)), reflect.TypeOf(int8(0)), reflect.TypeOf(tygen.TVInt(0))}[r.Intn(6)],
			[]reflect.Type{reflect.TypeOf(0), reflect.TypeOf(""), reflect.TypeOf(false)}[r.Intn(3)])
		if r.Chance(1, 3) {
			t = reflect.StructOf([]reflect.StructField{{Name: "M", Type: t, Tag: `json:"m,omitempty"`}, {Name: "N", Type: reflect.TypeOf(0)}})
		}
	} else {
		t = tg.Type(0)
	}
	for k := 0; k < 3; k++ {
		vg.DynPool = append(vg.DynPool, (&tygen.TGen{R: r.Fork(uint64(100 + k)), MaxDepth: 2}).Type(0))
	}
	v := vg.Value(t, 0)
	for v.IsValid() && v.Kind() == reflect.Interface { // Marshal(v interface{}) never sees a static interface type
		if v.IsNil() {
			v = reflect.Value{}
			break
		}
		v = v.Elem()
		t = v.Type()
	}
	if v.IsValid() && r.Chance(1, 3) { // pass a pointer: the pointee is addressable
		p := reflect.New(t)
		p.Elem().Set(v)
		v = p
	}
	c := &Case{ID: fmt.Sprintf("r%d", i), V: v, Regime: reg, Feat: tygen.Features{}}
	if v.IsValid() {
		c.Feat = tygen.Feat(v)
	}
	return c
}

// ---------------------------------------------------------------- running the real code

type Result struct {
	OK    bool
	Out   []byte
	Class string // error class
	Msg   string
}

func (r Result) Field() string {
	if r.OK {
		return "ok\t" + hexOrDash(r.Out)
	}
	return "err\t" + r.Class
}

func hexOrDash(b []byte) string {
	if len(b) == 0 {
		return "-"
	}
	return hex.EncodeToString(b)
}

func classify(err error) string {
	var ute *json.UnsupportedTypeError
	var uve *json.UnsupportedValueError
	switch {
	case errors.As(err, &ute):
		return "unsupported"
	case errors.As(err, &uve):
		switch {
		case strings.Contains(uve.Str, "invalid number"):
			return "number"
		case strings.Contains(uve.Str, "too deep"):
			return "too_deep"
		case strings.HasPrefix(uve.Str, "NaN"):
			return "nan"
		case strings.Contains(uve.Str, "cycle"):
			return "cycle"
		}
		return "value"
	}
	return "marshaler"
}

func guard(f func() ([]byte, error)) (res Result) {
	defer func() {
		if r := recover(); r != nil {
			res = Result{Class: "panic", Msg: fmt.Sprint(r)}
		}
	}()
	b, err := f()
	if err != nil {
		return Result{Class: classify(err), Msg: err.Error()}
	}
	return Result{OK: true, Out: b}
}

// StdFlags is the encoder option word of sonic.ConfigStd.
var StdFlags uint64

func init() {
	e, _ := sonic.VerifFrozenOptions(sonic.Config{EscapeHTML: true, SortMapKeys: true, CompactMarshaler: true, CopyString: true, ValidateString: true})
	StdFlags = e
}

// fresh: empty program cache; for the corpus also empty buffer pools (two GC cycles drop sync.Pool contents), so that
// the output buffer starts at its default size and long outputs go through every growth step.
func fresh(c *Case) {
	verifx.EncResetProgramCache()
	if c.Regime == "witness" {
		runtime.GC()
		runtime.GC()
	}
}

// Sonic runs the encoder of this process (JIT unless SONIC_ENCODER_USE_VM) on a fresh program cache.
func Sonic(c *Case, flags uint64) Result {
	fresh(c)
	v := c.Iface()
	return guard(func() ([]byte, error) { return verifx.EncEncode(v, flags) })
}

// SonicStd goes through the public API object.
func SonicStd(c *Case) Result {
	fresh(c)
	v := c.Iface()
	return guard(func() ([]byte, error) { return sonic.ConfigStd.Marshal(v) })
}

// Pretouched: sonic.Pretouch of the case's type with compile options, then Marshal under the std word.
func Pretouched(c *Case, omitNull bool, inline, rec int) Result {
	fresh(c)
	if !c.V.IsValid() {
		return Result{Class: "na"}
	}
	v := c.Iface()
	t := c.V.Type()
	return guard(func() ([]byte, error) {
		if err := encoder.Pretouch(t, option.WithCompileEncOnlyOmitNull(omitNull), option.WithCompileMaxInlineDepth(inline), option.WithCompileRecursiveDepth(rec)); err != nil {
			return nil, err
		}
		return sonic.ConfigStd.Marshal(v)
	})
}

// Std is the oracle.
func Std(c *Case) Result {
	v := c.Iface()
	return guard(func() ([]byte, error) { return json.Marshal(v) })
}

func Backend() string {
	if verifx.EncUseVM() {
		return "vm"
	}
	return "jit"
}

// IR dumps the program of the case's type.
func IR(t reflect.Type, pv bool, inline int, omitnull bool) string {
	opts := option.DefaultCompileOptions()
	opts.MaxInlineDepth = inline
	opts.EncOnlyOmitNull = omitnull
	s, err := func() (s string, err error) {
		defer func() {
			if r := recover(); r != nil {
				s, err = "", fmt.Errorf("panic: %v", r)
			}
		}()
		return verifx.EncDumpProgram(t, pv, opts, tygen.Desc)
	}()
	if err != nil {
		var ute *json.UnsupportedTypeError
		if errors.As(err, &ute) {
			return "err\tunsupported"
		}
		if strings.Contains(err.Error(), "nesting too deep") {
			return "err\tnest"
		}
		return "err\t" + strings.ReplaceAll(err.Error(), "\t", " ")
	}
	return "ok\t" + strings.Join(strings.Split(strings.TrimRight(s, "\n"), "\n"), ";")
}

// ---------------------------------------------------------------- JSON text comparison of the property

// EquivJSON: same tokens in the same order; string literals equal after decoding; everything else bytewise.
func EquivJSON(a, b []byte) bool {
	ta, oka := tokens(a)
	tb, okb := tokens(b)
	if !oka || !okb {
		return bytes.Equal(a, b)
	}
	if len(ta) != len(tb) {
		return false
	}
	for i := range ta {
		if ta[i] != tb[i] {
			return false
		}
	}
	return true
}

// tokens: punctuation and literals verbatim, strings as "s:"+decoded.
func tokens(s []byte) ([]string, bool) {
	var out []string
	i := 0
	for i < len(s) {
		c := s[i]
		switch {
		case c == '"':
			j := i + 1
			for j < len(s) && s[j] != '"' {
				if s[j] == '\\' {
					j++
				}
				j++
			}
			if j >= len(s) {
				return nil, false
			}
			var dec string
			if err := json.Unmarshal(s[i:j+1], &dec); err != nil {
				return nil, false
			}
			out = append(out, "s:"+dec)
			i = j + 1
		case strings.IndexByte("{}[],:", c) >= 0:
			out = append(out, string(c))
			i++
		case c == ' ' || c == '\n' || c == '\t' || c == '\r':
			out = append(out, "ws")
			i++
		default:
			j := i
			for j < len(s) && strings.IndexByte("{}[],:\" \n\t\r", s[j]) < 0 {
				j++
			}
			out = append(out, "l:"+string(s[i:j]))
			i = j
		}
	}
	return out, true
}
