package encrun

import (
	"encoding/json"
	"fmt"
	"math"
	"reflect"
	"strings"

	"verif/harness/internal/tygen"
)

// Witnesses: the corpus - refutation witnesses of the recorded findings and boundary shapes, run before random cases.
func Witnesses() []*Case {
	var out []*Case
	add := func(name string, v interface{}) {
		c := &Case{ID: "w-" + name, Regime: "witness"}
		if v != nil {
			c.V = reflect.ValueOf(v)
			c.Feat = tygen.Feat(c.V)
		} else {
			c.Feat = tygen.Features{}
		}
		out = append(out, c)
	}
	nz := math.Copysign(0, -1)
	add("nil", nil)
	add("negzero64", []float64{nz, 0})
	add("negzero32", []float32{float32(nz)})
	add("negzero-field", struct{ F float64 }{nz})
	add("negzero-omitempty", struct {
		F float64 `json:"f,omitempty"`
		G float32 `json:"g,omitempty"`
	}{nz, float32(nz)})
	add("negzero-string", struct {
		F float64 `json:"f,string"`
	}{nz})
	add("boolkey", map[bool]int{true: 1, false: 0})
	add("boolkey-nil", map[bool]int(nil))
	add("floatkey", map[float64]int{1.5: 1})
	add("floatkey-nil", map[float64]int(nil))
	add("floatkey-empty", map[float32]int{})
	add("badkey-omitted", struct {
		M map[[1]int]int `json:"m,omitempty"`
		N int
	}{N: 1})
	add("badomit-nilslice", []struct {
		F func() `json:"f,omitempty"`
	}(nil))
	add("badkey-nilptr", struct{ P *map[struct{ A int }]int }{})
	add("quoted-bf", struct {
		S string `json:"s,string"`
	}{"\b\f"})
	add("omitzero-empty-struct", struct {
		A int
		Z struct {
			B struct{} `json:",omitzero"`
		}
	}{A: 1})
	// BitPointerValue sticks to everything below an OP_recurse with pv
	add("pv-sticky-eface", &[]tygen.Big50{{E: tygen.JP{A: 1}}})
	add("pv-sticky-map", &[]struct {
		M map[string]tygen.Big50x
	}{{M: map[string]tygen.Big50x{"a": {J: tygen.JP{A: 2}}}}})
	add("pv-nonsticky", map[string]tygen.Big50{"a": {E: tygen.JP{A: 1}}})
	// non-empty interface holding a pointer-shaped struct whose pointer is nil
	add("iface-direct-nil", struct{ S tygen.Stringer }{tygen.SDirect{}})
	add("iface-direct-nonnil", struct{ S tygen.Stringer }{tygen.SDirect{P: new(int)}})
	add("iface-ptr-nil", struct{ S tygen.Stringer }{(*tygen.SVal)(nil)})
	add("iface-map-nil", struct{ S tygen.Stringer }{tygen.SMap(nil)})
	add("eface-direct-nil", struct{ S interface{} }{tygen.SDirect{}})
	add("jiface-direct", struct{ S json.Marshaler }{tygen.JVDirect{}})
	// depth
	deep := func(n int) *tygen.List {
		var l *tygen.List
		for i := 0; i < n; i++ {
			l = &tygen.List{Next: l}
		}
		return l
	}
	add("deep-1000", deep(1000))
	add("deep-2040", deep(2040))
	add("deep-2047", deep(2047))
	add("deep-2048", deep(2048))
	add("deep-2049", deep(2049))
	add("deep-3000", deep(3000))
	cyc := &tygen.List{}
	cyc.Next = cyc
	add("cycle-list", cyc)
	rc := &tygen.Rec{V: 1}
	rc.Kids = []tygen.Rec{{V: 2, Next: rc}}
	add("cycle-rec", rc)
	var rs tygen.RecSlice
	for i := 0; i < 5000; i++ {
		rs = tygen.RecSlice{rs}
	}
	add("deep-slices", rs)
	// marshaler output
	for a := -6; a <= 1; a++ {
		add(fmt.Sprintf("jv%d", a), tygen.JV{A: a})
		add(fmt.Sprintf("jvp%d", a), &tygen.JV{A: a})
	}
	add("jp-val", tygen.JP{A: 3})
	add("jp-ptr", &tygen.JP{A: 3})
	add("jp-err", &tygen.JP{A: -1})
	add("jp-slice", []tygen.JP{{A: 1}})
	add("jp-map", map[string]tygen.JP{"a": {A: 1}})
	add("jp-arr", [1]tygen.JP{{A: 1}})
	add("jp-parr", &[1]tygen.JP{{A: 1}})
	add("tv", tygen.TV{S: "<x>\n\xff"})
	add("tv-err", tygen.TV{S: "!err"})
	add("tp-ptr", &tygen.TP{S: "q\"q"})
	add("raw", json.RawMessage(` { "a" : [ 1 , 2 ] } `))
	for i, t := range []string{" 1 ", "[1, 2]", "{ }", "\t\"a\" ", "[ ]", " null", "\n0", "{\"a\": 1}", "{x", "1 2", "01", "[1,]"} {
		add(fmt.Sprintf("raw-short%d", i), json.RawMessage(t))
	}
	for i, t := range []string{"[1,2,]", "{\"a\":}", "nuls", "{\"x\":01}", "[1 2]", "{\"a\" 1}", "\"\\x\"", "-", "1.e2", "[\"a\",]"} {
		add(fmt.Sprintf("raw-dense%d", i), json.RawMessage(t))
		add(fmt.Sprintf("raw-dense-field%d", i), struct {
			A int
			R json.RawMessage
		}{1, json.RawMessage(t)})
	}
	add("raw-nil", json.RawMessage(nil))
	add("raw-bad", json.RawMessage(`{"a":`))
	add("raw-utf8", json.RawMessage("\"a\xffb\""))
	add("raw-field", struct {
		R json.RawMessage `json:"r,omitempty"`
		P *json.RawMessage
	}{})
	// numbers
	for i, s := range []string{"", "0", "-0", "1e5", "1E+5", "1e", "1.", "01", "-", "+1", ".5", "1e+", "0x1", " 1", "1 ", "12345678901234567890.5e-7"} {
		add(fmt.Sprintf("num%d", i), json.Number(s))
	}
	for i, s := range []string{"1e+", "1E-", "-0.5e+", "0e-", "1e+-1", "2E+", "1.5e-", "0E+"} {
		add(fmt.Sprintf("numexp%d", i), json.Number(s))
		add(fmt.Sprintf("numexp-field%d", i), struct {
			N json.Number `json:"n"`
		}{json.Number(s)})
	}
	// Marshaler output = a complete value followed by exactly one junk byte
	for i, t := range []string{"{}x", "[1]]", "[1],", "\"s\"\"", "null0", "true,", "{\"a\":1}}", "12 3", "[]\x00", "falsee"} {
		add(fmt.Sprintf("raw-junk%d", i), json.RawMessage(t))
		add(fmt.Sprintf("raw-junk-field%d", i), struct {
			R json.RawMessage `json:"r"`
			Z int
		}{json.RawMessage(t), 1})
	}
	add("num-string", struct {
		N json.Number `json:"n,string"`
		M json.Number `json:"m,omitempty"`
	}{"1.5", ""})
	// tags
	one := 1
	str := "s\"<"
	add("tags-zero", tygen.Tags{})
	add("tags-full", tygen.Tags{A: 1, B: "b", C: -5, D: &one, E: "e", F: 1.5, G: []int{1}, H: true, I: 2, J: 3, K: 4, M: 5, O: [2]int{1, 2}})
	add("string-opts", struct {
		A int          `json:",string"`
		B *int         `json:",string"`
		C string       `json:",string"`
		D *string      `json:",string"`
		E []int        `json:",string"`
		F json.Number  `json:",string"`
		G float64      `json:",string"`
		H bool         `json:",string"`
		I *bool        `json:",string"`
		J tygen.JVInt  `json:",string"`
		K tygen.TVInt  `json:",string"`
		L *tygen.TPInt `json:",string"`
		M tygen.NStr   `json:",string"`
		N uintptr      `json:",string"`
		O float32      `json:",string"`
		P interface{}  `json:",string"`
	}{B: &one, C: "a\"b\\c\n<", D: &str, F: "12", G: 1e21, J: 3, K: 4, M: "nstr", O: 1e-7, P: 5})
	// embedding
	add("outer1", tygen.Outer1{Emb1: tygen.Emb1{X: 1, Y: "y"}, Emb2: &tygen.Emb2{X: 2.5, Z: true, E3: 3}, Q: 4})
	add("outer1-nilemb", tygen.Outer1{Q: 4})
	add("outer2", tygen.Outer2{X: "x"})
	add("outer3", tygen.Outer3{})
	add("outer4", tygen.Outer4{Outer1: &tygen.Outer1{Q: 9}, T: tygen.TV{S: "t"}})
	add("outer4-nil", tygen.Outer4{})
	// Pretouch must compile both pointer-value variants of an out-of-line struct type (fix dbc1720): one outcome, every run
	type ptIn = struct {
		Z bool `json:"z,omitempty"`
	}
	add("pretouch-top", struct {
		X struct{ S []ptIn }
		Y struct{ A [1]ptIn }
	}{X: struct{ S []ptIn }{S: []ptIn{{}}}, Y: struct{ A [1]ptIn }{A: [1]ptIn{{}}}})
	add("pretouch-one", struct {
		S []ptIn
		A [1]ptIn
	}{S: []ptIn{{}}, A: [1]ptIn{{}}})
	o1 := tygen.Outer1{Emb1: tygen.Emb1{X: 1, Y: "y"}, Emb2: &tygen.Emb2{X: 2.5, Z: false, E3: 5}, Q: 4}
	add("pretouch-r4476", struct {
		B  []struct{ T tygen.Outer1 }
		Aa struct {
			K [2]tygen.Outer1 `json:"k,omitempty"`
		}
	}{B: []struct{ T tygen.Outer1 }{{T: o1}}, Aa: struct {
		K [2]tygen.Outer1 `json:"k,omitempty"`
	}{K: [2]tygen.Outer1{o1, o1}}})
	// embedding chains of depth 1..8
	n5 := 5
	c0 := tygen.C0{X: 1, Y: "why", Z: true}
	c1 := tygen.C1{C0: c0, Q2: &tygen.Q2{P: -3, Q: []byte("q")}, A1: 11}
	c2 := tygen.C2{C1: &c1, A2: "a2"}
	c3 := tygen.C3{C2: c2, A: 7}
	c4 := tygen.C4{C3: &c3, A4: 4.5}
	c5 := tygen.C5{C4: c4, X: 200}
	c6 := tygen.C6{C5: c5, A6: true, R4: tygen.R4{K: 9, L: 0.5, M: "m", N: &n5}}
	c7 := tygen.C7{C6: &c6, Y: -7}
	c8 := tygen.C8{C7: c7, A8: "a8"}
	add("embchain-1", c1)
	add("embchain-2", c2)
	add("embchain-3", c3)
	add("embchain-3-noq", tygen.C3{C2: tygen.C2{C1: &tygen.C1{C0: c0, A1: 1}}, A: 7})
	add("embchain-3-nil", tygen.C3{A: 7})
	add("embchain-4", c4)
	add("embchain-5", c5)
	add("embchain-6", c6)
	add("embchain-7", c7)
	add("embchain-8", c8)
	add("embchain-8-nil6", tygen.C8{C7: tygen.C7{Y: 3}, A8: "z"})
	add("embchain-8-ptr", &c8)
	add("embchain-8-slice", []tygen.C8{c8, {}})
	kin := tygen.KMid2{KMid: tygen.KMid{KIn: tygen.KIn{X: "tagged", W: 5}}}
	add("embchain-conflict-tag", tygen.KOut{C3: c3, KMid2: kin})
	add("embchain-conflict-both", tygen.KOutB{C3: c3, KMidB2: tygen.KMidB2{KMidB: tygen.KMidB{KIn2: &tygen.KIn2{X: "gone", V: 6}}}})
	add("embchain-conflict-both-nil", tygen.KOutB{C3: c3})
	add("embjv", tygen.EmbJV{JV: tygen.JV{A: 5}, B: 6})
	add("embni", tygen.EmbNI{NInt: 7})
	// inline limits
	add("big50", tygen.Big50{F00: 1})
	add("big50-nested", struct{ B tygen.Big50 }{})
	add("big49-nested", struct{ B tygen.Big49 }{})
	add("big50-slice", []tygen.Big50{{F48: -1}})
	{
		var n3 tygen.N3
		n3.X.Y.Leaf = tygen.Leaf{L: []int{}, M: map[string]int{}}
		add("n3-zero-nonnil", n3)
		add("n3-zero-nonnil-ptr", &n3)
		add("n3-nil", tygen.N3{})
		one := 1
		var n3b tygen.N3
		n3b.X.Y.Leaf = tygen.Leaf{A: 1, S: "s", L: []int{1}, M: map[string]int{"k": 1}, P: &one, I: 0, F: 1.5, B: true}
		add("n3-full", n3b)
		add("leaf-slice", []tygen.Leaf{{L: []int{}}, {}})
	}
	add("d4", tygen.D4{})
	add("d4-ptr", &tygen.D4{})
	// maps around the sort thresholds, keys with long common prefixes (radix depth) and prefixes of each other
	for _, n := range []int{0, 1, 2, 11, 12, 13, 40, 41, 42, 100, 200} {
		m := map[string]int{}
		for i := 0; i < n; i++ {
			m[fmt.Sprintf("key%03d", (i*7919)%1000)] = i
		}
		add(fmt.Sprintf("map-%d", n), m)
		m2 := map[string]bool{}
		for i := 0; i < n; i++ {
			m2[strings.Repeat("ab", i%9)+strings.Repeat("c", i/9)] = i%2 == 0
		}
		add(fmt.Sprintf("map-prefix-%d", n), m2)
		m3 := map[int16]string{}
		for i := 0; i < n; i++ {
			m3[int16(i*37-500)] = "v"
		}
		add(fmt.Sprintf("map-int-%d", n), m3)
	}
	same := map[string]int{}
	for i := 0; i < 60; i++ {
		same[strings.Repeat("x", 30)+string(rune('a'+i%26))+strings.Repeat("y", i/26)] = i
	}
	add("map-deep-radix", same)
	add("map-tvint", map[tygen.TVInt]int{1: 1, 22: 2, -3: 3})
	add("map-tv", map[tygen.TV]int{{S: "b"}: 1, {S: "a"}: 2})
	add("map-tvstr", map[tygen.TVStr]int{"b": 1, "a": 2})
	add("map-ptr-tv", map[*tygen.TV]int{nil: 1})
	add("map-u64", map[uint64]int{math.MaxUint64: 1, 0: 2, 10: 3, 9: 4})
	add("map-i64", map[int64]int{math.MinInt64: 1, -1: 2, 10: 3, 9: 4})
	add("map-html", map[string]string{"<k>": "<v>", "a&b": " ", "\xff": "\xfe"})
	add("map-nstr", map[tygen.NStr]tygen.NInt{"k": 1})
	// strings
	add("str-long", strings.Repeat("a", 5000)+"\"")
	// long runs of characters that need 6-byte escapes: the quoting buffer grows more than once
	for _, n := range []int{20000, 40000, 80000} {
		ctl := strings.Repeat("\x01\x02\x1f", n/3)
		add(fmt.Sprintf("str-ctl-%d", n), ctl)
		add(fmt.Sprintf("field-ctl-%d", n), struct {
			A int
			S string `json:"s"`
			B string
		}{1, ctl, "tail"})
		add(fmt.Sprintf("strs-ctl-%d", n), []string{"x", ctl, ctl[:n/2] + "\"\\<"})
	}
	for _, n := range []int{700, 1500, 3000, 4100, 9000} {
		ctl := strings.Repeat("\x01\x02", n/2)
		add(fmt.Sprintf("str-ctl-%d", n), ctl)
		add(fmt.Sprintf("tv-ctl-%d", n), tygen.TV{S: ctl})
		add(fmt.Sprintf("tp-ctl-%d", n), &tygen.TP{S: ctl + "\""})
		add(fmt.Sprintf("key-ctl-%d", n), map[string]int{ctl: 1, ctl + "\x03": 2})
		add(fmt.Sprintf("tvkey-ctl-%d", n), map[tygen.TV]int{{S: ctl}: 1})
		add(fmt.Sprintf("quoted-ctl-%d", n), struct {
			S string `json:"s,string"`
		}{strings.Repeat("\x01", n)})
	}
	// recursive types with pointer-receiver Marshaler fields, by value and by pointer
	add("recjp-val", tygen.RecJP{J: tygen.JP{A: 1}, Next: &tygen.RecJP{J: tygen.JP{A: 2}}})
	add("recjp-ptr", &tygen.RecJP{J: tygen.JP{A: 1}, Next: &tygen.RecJP{J: tygen.JP{A: 2}}})
	add("recjp-slice", []tygen.RecJP{{J: tygen.JP{A: 1}, Next: &tygen.RecJP{J: tygen.JP{A: 2}}}})
	add("recjp-map", map[string]tygen.RecJP{"a": {J: tygen.JP{A: 1}, Next: &tygen.RecJP{J: tygen.JP{A: 2}}}})
	add("str-esc", "\x00\x01\b\t\n\v\f\r\x1f \"\\/\x7f\u0080  <>&")
	add("str-bad", "a\xffb\xc0\xafc\xed\xa0\x80\xf4\x90\x80\x80\xe2\x80")
	add("bytes", [][]byte{nil, {}, {1}, {1, 2}, {1, 2, 3}, []byte(strings.Repeat("\xfa", 100))})
	add("jvbyte-slice", []tygen.JVByte{1, 2})
	add("tpbyte-slice", []tygen.TPByte{1, 2})
	add("nbytes", tygen.NBytes{1, 2, 3})
	// ints at width boundaries
	add("ints", struct {
		A int8
		B int16
		C int32
		D int64
		E uint8
		F uint16
		G uint32
		H uint64
		I uintptr
		J int
		K uint
	}{math.MinInt8, math.MinInt16, math.MinInt32, math.MinInt64, math.MaxUint8, math.MaxUint16, math.MaxUint32, math.MaxUint64, math.MaxUint64, math.MinInt64, math.MaxUint64})
	add("floats", []float64{1e20, 1e21, 1e-6, 1e-7, 5e-324, 1.7976931348623157e308, 0.1, 100, 123456789.125, 1e23})
	add("floats32", []float32{1e20, 1e21, 1e-6, 1e-7, 1e-45, 3.4028235e38, 0.1, 16777216})
	add("nan", []float64{math.NaN()})
	add("inf32", []float32{float32(math.Inf(-1))})
	add("unsupported", struct{ C chan int }{})
	add("unsupported-omitempty", struct {
		C func() `json:",omitempty"`
	}{})
	add("complex", complex(1, 2))
	return out
}
