package encrun

import (
	"bytes"
	"encoding/json"
	"flag"
	"fmt"
	"math"
	"os"
	"reflect"
	"sort"
	"strings"

	"github.com/bytedance/sonic"
	"github.com/bytedance/sonic/verifx"

	"verif/harness/internal/out"
	"verif/harness/internal/rng"
	"verif/harness/internal/tygen"
)

// Main is the body of the harness commands c03 / c12 / c04 (they differ in the default -flags / -rt).
//
// Every process regenerates the case stream of -seed (witnesses, then -n random cases) and writes to -out what the
// real code of THIS process does (JIT, or the interpreter under SONIC_ENCODER_USE_VM):
//
//	B <backend> <stdflags>
//	F <case> <regime> <features> <type-size> <value-size>
//	P <case> <pv> ok|err <program>                 IR of the case's type from the real compiler (-ir)
//	R <case> <flags> ok <hex>|err <class>          Marshal under the option word (std word: through sonic.ConfigStd)
//	O <case> ok <hex>|err <class> <agree>          encoding/json, and whether R(std word) agrees with it (-oracle)
//	Q <case> <omitnull>/<inline>/<recursive> ok <hex>|err <class>   Marshal after Pretouch with compile options (-pretouch)
//	T <case> <flags> <valid> <rt-sonic> <rt-std>   well-formedness and round trip of a successful R (-rt): 1 ok, 0 failed, - not applicable
//
// With -model FILE also the request file for the Coq model (D/P/E/S lines).
func Main(defFlags string, defRT, defIR, defOracle bool, defPretouch int) {
	seed := flag.Uint64("seed", 1, "")
	n := flag.Int("n", 1000, "")
	outp := flag.String("out", "/dev/stdout", "")
	modelp := flag.String("model", "", "")
	only := flag.String("only", "", "run only this case id")
	maxval := flag.Int("maxval", 400000, "skip cases whose value description is larger")
	fl := flag.String("flags", defFlags, "std | rand:K (std word + K random option words per case) | all (all 512 words)")
	rt := flag.Bool("rt", defRT, "round trip + well-formedness lines")
	ir := flag.Bool("ir", defIR, "IR lines")
	oracle := flag.Bool("oracle", defOracle, "encoding/json lines")
	pretouch := flag.Int("pretouch", defPretouch, "Q lines: Pretouch with compile options, then Marshal (option sets per random case; the corpus gets 6)")
	qrep := flag.Int("qrep", 1, "repeat every Pretouch scenario this often and print the distinct outcomes as QS lines (Pretouch depends on map iteration order)")
	shard := flag.String("shard", "0/1", "k/m: run only the cases whose index is k modulo m (the check runs the m shards in parallel)")
	flag.Parse()
	sk, sm := 0, 1
	if _, err := fmt.Sscanf(*shard, "%d/%d", &sk, &sm); err != nil || sm < 1 || sk < 0 || sk >= sm {
		fmt.Fprintln(os.Stderr, "bad -shard", *shard)
		os.Exit(2)
	}

	w := out.Create(*outp)
	defer w.Close()
	var mw *out.W
	if *modelp != "" {
		mw = out.Create(*modelp)
		defer mw.Close()
		for _, l := range tygen.DefLines() {
			mw.Line(l)
		}
	}
	w.Line("B", Backend(), fmt.Sprint(StdFlags))
	wit := Witnesses()
	total := len(wit) + *n
	lo, hi := 0, total
	if len(*only) > 1 && (*only)[0] == 'r' {
		var k int
		if _, err := fmt.Sscanf((*only)[1:], "%d", &k); err == nil {
			lo, hi = len(wit)+k, len(wit)+k+1
		}
	}
	for i := lo; i < hi; i++ {
		if i%sm != sk {
			continue
		}
		var c *Case
		if i < len(wit) {
			c = wit[i]
		} else {
			c = Random(*seed, i-len(wit))
		}
		if *only != "" && c.ID != *only {
			continue
		}
		td, vd := c.TypeDesc(), c.ValueDesc()
		if len(vd) > *maxval || strings.Contains(td, "?") {
			w.Line("X", c.ID, "skipped", fmt.Sprint(len(vd)))
			continue
		}
		w.Line("F", c.ID, c.Regime, c.Feat.String(), fmt.Sprint(len(td)), fmt.Sprint(len(vd)))
		if *ir && c.V.IsValid() {
			for _, pv := range []bool{false, true} {
				b := "0"
				if pv {
					b = "1"
				}
				w.Line("P", c.ID, b, IR(c.V.Type(), pv, 3, false))
				if mw != nil {
					mw.Line("P", c.ID, b, "3", "0", td)
				}
			}
		}
		if *pretouch > 0 && c.V.IsValid() {
			// Q <case> <omitnull>/<inline>/<recursive> result: the program cache is filled by Pretouch under compile options
			r := rng.New(*seed ^ 0x9E70).Fork(uint64(i) + 1)
			k := *pretouch
			if i < len(wit) {
				k = 6
			}
			for j := 0; j < k; j++ {
				on, inl, rec := j%2 == 1, 1+(j/2)%3, []int{3, 2, 1, 0, 1, 2}[j%6]
				if i >= len(wit) {
					on, inl, rec = r.Bool(), 1+r.Intn(3), r.Intn(4)
				}
				q := Pretouched(c, on, inl, rec)
				b := "0"
				if on {
					b = "1"
				}
				w.Line("Q", c.ID, fmt.Sprintf("%s/%d/%d", b, inl, rec), q.Field())
				if *qrep > 1 {
					seen := map[string]bool{q.Field(): true}
					for k := 1; k < *qrep; k++ {
						seen[Pretouched(c, on, inl, rec).Field()] = true
					}
					keys := make([]string, 0, len(seen))
					for f := range seen {
						keys = append(keys, f)
					}
					sort.Strings(keys)
					for _, f := range keys {
						w.Line("QS", c.ID, fmt.Sprintf("%s/%d/%d", b, inl, rec), f)
					}
				}
			}
			verifx.EncResetProgramCache()
		}
		for _, fw := range flagWords(*fl, *seed, i) {
			var r Result
			if fw == StdFlags {
				r = SonicStd(c)
			} else {
				r = Sonic(c, fw)
			}
			w.Line("R", c.ID, fmt.Sprint(fw), r.Field())
			if mw != nil {
				mw.Line("E", c.ID, "jit", fmt.Sprint(fw), td, vd)
				mw.Line("E", c.ID, "vm", fmt.Sprint(fw), td, vd)
			}
			if *rt && r.OK {
				w.Line("T", c.ID, fmt.Sprint(fw), wellFormed(r.Out), roundTrip(c, r.Out, false), roundTrip(c, r.Out, true))
			}
			if fw == StdFlags && *oracle {
				if mw != nil && !c.Feat["cyclic"] && !c.Feat["huge-or-cyclic"] && !c.Feat["deep"] {
					mw.Line("S", c.ID, "std", td, vd)
					mw.Line("S", c.ID, "sonic", td, vd)
				}
				o := Std(c)
				agree := "0"
				if o.OK == r.OK && (!o.OK || EquivJSON(o.Out, r.Out)) {
					agree = "1"
				}
				w.Line("O", c.ID, o.Field(), agree)
			}
		}
	}
}

// flagWords: the option words under which case i runs.
func flagWords(mode string, seed uint64, i int) []uint64 {
	switch {
	case mode == "std":
		return []uint64{StdFlags}
	case mode == "all":
		out := make([]uint64, 0, 512)
		for f := uint64(0); f < 512; f++ {
			out = append(out, f)
		}
		return out
	case strings.HasPrefix(mode, "rand:"):
		k := 2
		fmt.Sscanf(mode[5:], "%d", &k)
		r := rng.New(seed ^ 0xF1A65).Fork(uint64(i) + 1)
		out := []uint64{StdFlags}
		for j := 0; j < k; j++ {
			out = append(out, r.U64()&511)
		}
		return out
	}
	return []uint64{StdFlags}
}

func wellFormed(b []byte) string {
	if json.Valid(b) {
		return "1"
	}
	return "0"
}

// RoundTrippable: the type has no interfaces, no user Marshal methods, no unsupported kinds (the decoded value is
// then required to equal the original).
func RoundTrippable(t reflect.Type, seen map[reflect.Type]bool) bool {
	if seen[t] {
		return true
	}
	seen[t] = true
	if tygen.Methods(t) != 0 {
		return false
	}
	switch t.Kind() {
	case reflect.Interface, reflect.Chan, reflect.Func, reflect.Complex64, reflect.Complex128, reflect.UnsafePointer, reflect.Uintptr:
		return false
	case reflect.Ptr, reflect.Slice, reflect.Array:
		return RoundTrippable(t.Elem(), seen)
	case reflect.Map:
		switch t.Key().Kind() {
		case reflect.Bool, reflect.Float32, reflect.Float64: // no decoder accepts these key kinds
			return false
		}
		return RoundTrippable(t.Key(), seen) && RoundTrippable(t.Elem(), seen)
	case reflect.Struct:
		names := map[string]bool{}
		for _, f := range tygen.Resolve(t) {
			if names[strings.ToLower(f.Name)] { // two fields differing only in case: decoders match keys case-insensitively
				return false
			}
			names[strings.ToLower(f.Name)] = true
		}
		for i := 0; i < t.NumField(); i++ {
			f := t.Field(i)
			if !f.IsExported() && !f.Anonymous {
				continue
			}
			if f.Anonymous && f.Type.Kind() == reflect.Ptr {
				return false // decoders allocate embedded pointers, the original may hold nil
			}
			if !RoundTrippable(f.Type, seen) {
				return false
			}
		}
	}
	return true
}

// roundTrip decodes out into a new value of the case's type and compares with the original.
func roundTrip(c *Case, out []byte, std bool) string {
	if !c.V.IsValid() || !RoundTrippable(c.V.Type(), map[reflect.Type]bool{}) {
		return "-"
	}
	if c.Feat["invalid-utf8"] || c.Feat["naninf"] || c.Feat["cyclic"] || c.Feat["omitzero"] {
		return "-"
	}
	t := c.V.Type()
	dst := reflect.New(t)
	var err error
	func() {
		defer func() {
			if r := recover(); r != nil {
				err = fmt.Errorf("panic: %v", r)
			}
		}()
		if std {
			err = json.Unmarshal(out, dst.Interface())
		} else {
			err = sonic.ConfigStd.Unmarshal(out, dst.Interface())
		}
	}()
	if err != nil {
		return "0"
	}
	if eqRT(c.V, dst.Elem(), 0) {
		return "1"
	}
	return "0"
}

// eqRT: floats bit for bit, integers exactly, strings bytewise, containers element-wise (nil and empty containers are
// the same container), only the JSON-visible fields of structs.
func eqRT(a, b reflect.Value, depth int) bool {
	if depth > 10000 {
		return true
	}
	switch a.Kind() {
	case reflect.Bool:
		return a.Bool() == b.Bool()
	case reflect.Int, reflect.Int8, reflect.Int16, reflect.Int32, reflect.Int64:
		return a.Int() == b.Int()
	case reflect.Uint, reflect.Uint8, reflect.Uint16, reflect.Uint32, reflect.Uint64, reflect.Uintptr:
		return a.Uint() == b.Uint()
	case reflect.Float32:
		return math.Float32bits(float32(a.Float())) == math.Float32bits(float32(b.Float()))
	case reflect.Float64:
		return math.Float64bits(a.Float()) == math.Float64bits(b.Float())
	case reflect.String:
		if a.Type() == tygen.Catalogue[0] { // json.Number: "" encodes as 0
			x, y := a.String(), b.String()
			if x == "" {
				x = "0"
			}
			if y == "" {
				y = "0"
			}
			return x == y
		}
		return a.String() == b.String()
	case reflect.Ptr:
		if a.IsNil() || b.IsNil() {
			return nullish(a) && nullish(b) // "null" does not tell a nil pointer from a pointer to a nil pointer/slice/map
		}
		return eqRT(a.Elem(), b.Elem(), depth+1)
	case reflect.Slice:
		if a.Type().Elem().Kind() == reflect.Uint8 {
			return bytes.Equal(a.Bytes(), b.Bytes())
		}
		fallthrough
	case reflect.Array:
		if a.Len() != b.Len() {
			return false
		}
		for i := 0; i < a.Len(); i++ {
			if !eqRT(a.Index(i), b.Index(i), depth+1) {
				return false
			}
		}
		return true
	case reflect.Map:
		if a.Len() != b.Len() {
			return false
		}
		it := a.MapRange()
		for it.Next() {
			bv := b.MapIndex(it.Key())
			if !bv.IsValid() || !eqRT(it.Value(), bv, depth+1) {
				return false
			}
		}
		return true
	case reflect.Struct:
		for _, f := range tygen.Resolve(a.Type()) {
			fa, oka := fieldByPath(a, f)
			fb, okb := fieldByPath(b, f)
			if oka != okb {
				return false
			}
			if oka && !eqRT(fa, fb, depth+1) {
				return false
			}
		}
		return true
	}
	return true
}

func nullish(v reflect.Value) bool {
	switch v.Kind() {
	case reflect.Ptr:
		return v.IsNil() || nullish(v.Elem())
	case reflect.Slice, reflect.Map:
		return v.IsNil()
	}
	return false
}

func fieldByPath(v reflect.Value, f tygen.RField) (reflect.Value, bool) {
	for _, i := range f.Index {
		if v.Kind() == reflect.Ptr {
			if v.IsNil() {
				return reflect.Value{}, false
			}
			v = v.Elem()
		}
		v = v.Field(i)
	}
	return v, true
}
