package tygen

import (
	"fmt"
	"reflect"

	"verif/harness/internal/rng"
)

var primTypes = []reflect.Type{
	reflect.TypeOf(false), reflect.TypeOf(int(0)), reflect.TypeOf(int8(0)), reflect.TypeOf(int16(0)), reflect.TypeOf(int32(0)), reflect.TypeOf(int64(0)),
	reflect.TypeOf(uint(0)), reflect.TypeOf(uint8(0)), reflect.TypeOf(uint16(0)), reflect.TypeOf(uint32(0)), reflect.TypeOf(uint64(0)), reflect.TypeOf(uintptr(0)),
	reflect.TypeOf(float32(0)), reflect.TypeOf(float64(0)), reflect.TypeOf(""), reflect.TypeOf(""), reflect.TypeOf(""),
}

var unsupportedTypes = []reflect.Type{
	reflect.TypeOf(complex64(0)), reflect.TypeOf(complex128(0)), reflect.TypeOf((chan int)(nil)), reflect.TypeOf((func())(nil)),
}

// named leaves that are safe everywhere (no pointer-receiver methods, no recursion)
var namedLeaves = []int{0, 0, 1, 2, 3, 4, 6, 8, 9, 10, 11, 13, 15, 16, 17, 18, 19, 27, 28, 30, 31, 32, 34, 35, 36, 38, 40, 41, 42, 43, 44, 45, 46, 47,
	53, 54, 55, 55, 56, 57, 59, 60, 61, 61, 65, 69}

// named types with pointer-receiver methods (the result depends on addressability)
var namedPtrRecv = []int{5, 7, 12, 14}

// recursive named types
var namedRec = []int{20, 21, 22, 23, 24, 25}

var keyTypes = []reflect.Type{
	reflect.TypeOf(""), reflect.TypeOf(""), reflect.TypeOf(""), reflect.TypeOf(int(0)), reflect.TypeOf(int8(0)), reflect.TypeOf(int16(0)), reflect.TypeOf(int32(0)),
	reflect.TypeOf(int64(0)), reflect.TypeOf(uint(0)), reflect.TypeOf(uint8(0)), reflect.TypeOf(uint16(0)), reflect.TypeOf(uint32(0)), reflect.TypeOf(uint64(0)),
	reflect.TypeOf(uintptr(0)), reflect.TypeOf(NStr("")), reflect.TypeOf(NInt(0)), reflect.TypeOf(TVInt(0)), reflect.TypeOf(TVStr("")), reflect.TypeOf(TV{}),
}

// key kinds on which the libraries are known / expected to reject or differ
var oddKeyTypes = []reflect.Type{
	reflect.TypeOf(false), reflect.TypeOf(float64(0)), reflect.TypeOf(float32(0)), reflect.TypeOf([1]int{}), reflect.TypeOf(JVInt(0)), reflect.TypeOf(TPInt(0)),
	reflect.TypeOf((*TV)(nil)), reflect.TypeOf(struct{ A int }{}),
}

type TGen struct {
	R         *rng.R
	MaxDepth  int
	PtrRecv   bool // allow named types with pointer-receiver marshalers
	Recursive bool // allow recursive named types
	OddKeys   bool
	Unsupp    bool
	OmitZero  bool
	nstruct   int
}

var fieldNames = []string{"A", "B", "C", "D", "E", "F", "G", "H", "Name", "ID", "Value", "X", "Y", "Z", "Aa", "Ab", "K1", "K2"}
var tagNames = []string{"", "", "", "a", "b", "name", "id", "A", "x", "<t>", "k&v", "with space", "é", "-", "q\"", "dup", "dup", "Z", "y", "0"}

func (g *TGen) leaf() reflect.Type {
	r := g.R
	switch k := r.Intn(20); {
	case k < 11:
		return primTypes[r.Intn(len(primTypes))]
	case k < 16:
		return Catalogue[namedLeaves[r.Intn(len(namedLeaves))]]
	case k == 16 && g.PtrRecv:
		return Catalogue[namedPtrRecv[r.Intn(len(namedPtrRecv))]]
	case k == 17 && g.Recursive:
		return Catalogue[namedRec[r.Intn(len(namedRec))]]
	case k == 18 && g.Unsupp:
		return unsupportedTypes[r.Intn(len(unsupportedTypes))]
	case k == 19:
		return []reflect.Type{TEface, TEface, TEface, TStringer, TJsonM, TTextM}[r.Intn(6)]
	}
	return primTypes[r.Intn(len(primTypes))]
}

func (g *TGen) key() reflect.Type {
	if g.OddKeys && g.R.Chance(1, 12) {
		return oddKeyTypes[g.R.Intn(len(oddKeyTypes))]
	}
	return keyTypes[g.R.Intn(len(keyTypes))]
}

// Type generates a random type of nesting depth <= MaxDepth.
func (g *TGen) Type(depth int) reflect.Type {
	r := g.R
	if depth >= g.MaxDepth {
		return g.leaf()
	}
	switch r.Intn(12) {
	case 0, 1, 2:
		return g.leaf()
	case 3:
		return reflect.ArrayOf([]int{0, 1, 2, 3}[r.Intn(4)], g.Type(depth+1))
	case 4, 5:
		return reflect.SliceOf(g.Type(depth + 1))
	case 6:
		return reflect.MapOf(g.key(), g.Type(depth+1))
	case 7:
		return reflect.PtrTo(g.Type(depth + 1))
	default:
		return g.Struct(depth)
	}
}

// Struct generates an anonymous struct type (reflect.StructOf): exported fields, random json tags.
func (g *TGen) Struct(depth int) reflect.Type {
	r := g.R
	n := []int{0, 1, 1, 2, 2, 3, 3, 4, 5, 7}[r.Intn(10)]
	if r.Chance(1, 60) {
		n = 48 + r.Intn(5) // around MAX_FIELDS
	}
	var fs []reflect.StructField
	used := map[string]bool{}
	for i := 0; i < n; i++ {
		name := fieldNames[r.Intn(len(fieldNames))]
		if n > len(fieldNames)/2 {
			name = fmt.Sprintf("F%02d", i)
		}
		if used[name] {
			name = fmt.Sprintf("%s%d", name, i)
		}
		used[name] = true
		var ft reflect.Type
		if n > 20 {
			ft = g.leaf()
		} else {
			ft = g.Type(depth + 1)
		}
		tag := ""
		if r.Chance(2, 3) {
			tn := tagNames[r.Intn(len(tagNames))]
			opts := ""
			if r.Chance(1, 2) {
				opts += ",omitempty"
			}
			if r.Chance(1, 4) {
				opts += ",string"
			}
			if g.OmitZero && r.Chance(1, 8) {
				opts += ",omitzero"
			}
			if r.Chance(1, 20) {
				opts += ",unknown"
			}
			tag = `json:"` + escTag(tn+opts) + `"`
			if r.Chance(1, 12) {
				tag = `xml:"x" ` + tag
			}
		}
		fs = append(fs, reflect.StructField{Name: name, Type: ft, Tag: reflect.StructTag(tag)})
	}
	return reflect.StructOf(fs)
}

func escTag(s string) string {
	out := ""
	for _, c := range s {
		if c == '"' || c == '\\' {
			out += "\\"
		}
		out += string(c)
	}
	return out
}
