package tygen

import (
	"encoding/hex"
	"fmt"
	"reflect"
	"sort"
	"strings"
	"sync"
	"unicode"
)

// ---------------------------------------------------------------- descriptors (wire format of Enc/Ty.v)
//
//	T ::= bool | int | int8 | int16 | int32 | int64 | uint | uint8 | uint16 | uint32 | uint64 | uintptr
//	    | float32 | float64 | string | complex64 | complex128 | chan | func | unsafeptr
//	    | (arr N T) | (slice T) | (map K T) | (ptr T) | (iface e|s|j|t) | (named ID)
//	    | (struct SIZE ((OFF T) ...) ((f NAMEHEX OPTS T P ...) ...))      P ::= OFF | dOFF   (d = dereference after the offset)
//
// OPTS: 1 omitempty, 2 string, 4 omitzero (internal/resolver FieldOpts).

var (
	descMu    sync.Mutex
	descCache = map[reflect.Type]string{}
)

func hexs(s string) string {
	if s == "" {
		return "-"
	}
	return hex.EncodeToString([]byte(s))
}

// Desc returns the descriptor of t (named catalogue types are references).
func Desc(t reflect.Type) string {
	descMu.Lock()
	defer descMu.Unlock()
	return desc(t)
}

func desc(t reflect.Type) string {
	if s, ok := descCache[t]; ok {
		return s
	}
	s := desc1(t, false)
	descCache[t] = s
	return s
}

// Body is the descriptor of the underlying structure of a named type (used in definition lines).
func Body(t reflect.Type) string {
	descMu.Lock()
	defer descMu.Unlock()
	return desc1(t, true)
}

func desc1(t reflect.Type, body bool) string {
	if !body {
		if id, ok := catID[t]; ok {
			return fmt.Sprintf("(named %d)", id)
		}
		if t.Name() != "" && t.PkgPath() != "" && t.Kind() != reflect.Interface {
			return "?" + t.String() // a named type outside the catalogue: never equal to a model name
		}
	}
	switch t.Kind() {
	case reflect.Bool, reflect.Int, reflect.Int8, reflect.Int16, reflect.Int32, reflect.Int64,
		reflect.Uint, reflect.Uint8, reflect.Uint16, reflect.Uint32, reflect.Uint64, reflect.Uintptr,
		reflect.Float32, reflect.Float64, reflect.String, reflect.Complex64, reflect.Complex128:
		return t.Kind().String()
	case reflect.Chan:
		return "chan"
	case reflect.Func:
		return "func"
	case reflect.UnsafePointer:
		return "unsafeptr"
	case reflect.Array:
		return fmt.Sprintf("(arr %d %s)", t.Len(), desc(t.Elem()))
	case reflect.Slice:
		return "(slice " + desc(t.Elem()) + ")"
	case reflect.Map:
		return "(map " + desc(t.Key()) + " " + desc(t.Elem()) + ")"
	case reflect.Ptr:
		return "(ptr " + desc(t.Elem()) + ")"
	case reflect.Interface:
		switch {
		case t.NumMethod() == 0:
			return "(iface e)"
		case t.Implements(TJsonM):
			return "(iface j)"
		case t.Implements(TTextM):
			return "(iface t)"
		default:
			return "(iface s)"
		}
	case reflect.Struct:
		var sb strings.Builder
		fmt.Fprintf(&sb, "(struct %d (", t.Size())
		for i := 0; i < t.NumField(); i++ {
			f := t.Field(i)
			if i > 0 {
				sb.WriteByte(' ')
			}
			fmt.Fprintf(&sb, "(%d %s)", f.Offset, desc(f.Type))
		}
		sb.WriteString(") (")
		for i, f := range Resolve(t) {
			if i > 0 {
				sb.WriteByte(' ')
			}
			fmt.Fprintf(&sb, "(f %s %d %s", hexs(f.Name), f.Opts, desc(f.Type))
			for _, p := range f.Path {
				if p.Deref {
					fmt.Fprintf(&sb, " d%d", p.Off)
				} else {
					fmt.Fprintf(&sb, " %d", p.Off)
				}
			}
			sb.WriteByte(')')
		}
		sb.WriteString("))")
		return sb.String()
	}
	return "?" + t.String()
}

// Methods: bit0 json value receiver, bit1 json pointer receiver only, bit2 text value receiver, bit3 text pointer receiver only.
func Methods(t reflect.Type) int {
	m := 0
	if t.Kind() == reflect.Interface {
		return 0
	}
	if t.Implements(TJsonM) {
		m |= 1
	} else if reflect.PtrTo(t).Implements(TJsonM) {
		m |= 2
	}
	if t.Implements(TTextM) {
		m |= 4
	} else if reflect.PtrTo(t).Implements(TTextM) {
		m |= 8
	}
	return m
}

// DefLines: the environment of named types, one line per catalogue entry: "D\t<id>\t<meths>\t<flags>\t<size>\t<body>"
// (flags bit0: the type is json.Number).
func DefLines() []string {
	var out []string
	for id, t := range Catalogue {
		fl := 0
		if id == 0 {
			fl = 1
		}
		out = append(out, fmt.Sprintf("D\t%d\t%d\t%d\t%d\t%s", id, Methods(t), fl, t.Size(), Body(t)))
	}
	return out
}

// ---------------------------------------------------------------- field resolution (encoding/json's rules)

type PathEl struct {
	Off   uintptr
	Deref bool
}

type RField struct {
	Name  string
	Opts  int // 1 omitempty, 2 string, 4 omitzero
	Type  reflect.Type
	Path  []PathEl
	Index []int
	tag   bool
}

func parseTag(tag string) (string, []string) {
	parts := strings.Split(tag, ",")
	return parts[0], parts[1:]
}

func has(opts []string, o string) bool {
	for _, x := range opts {
		if x == o {
			return true
		}
	}
	return false
}

func validTag(s string) bool {
	if s == "" {
		return false
	}
	for _, c := range s {
		switch {
		case strings.ContainsRune("!#$%&()*+-./:;<=>?@[]^_{|}~ ", c):
		case !unicode.IsLetter(c) && !unicode.IsDigit(c):
			return false
		}
	}
	return true
}

// Resolve lists the JSON fields of struct type t in encoding order, following the documented rules of
// encoding/json (breadth-first over embedded structs, Go visibility rules modified by JSON tags).
// The offsets path is merged the way sonic's resolver stores it (adjacent plain offsets summed; a dereference
// only for embedded pointers on the way; at least one element).
func Resolve(t reflect.Type) []RField {
	type qent struct {
		typ   reflect.Type
		Index []int
	}
	current := []qent{}
	next := []qent{{typ: t}}
	var count, nextCount map[reflect.Type]int
	visited := map[reflect.Type]bool{}
	var fields []RField
	for len(next) > 0 {
		current, next = next, current[:0]
		count, nextCount = nextCount, map[reflect.Type]int{}
		for _, f := range current {
			if visited[f.typ] {
				continue
			}
			visited[f.typ] = true
			for i := 0; i < f.typ.NumField(); i++ {
				sf := f.typ.Field(i)
				if sf.Anonymous {
					ft := sf.Type
					if ft.Kind() == reflect.Ptr {
						ft = ft.Elem()
					}
					if !sf.IsExported() && ft.Kind() != reflect.Struct {
						continue
					}
				} else if !sf.IsExported() {
					continue
				}
				tag := sf.Tag.Get("json")
				if tag == "-" {
					continue
				}
				name, opts := parseTag(tag)
				if !validTag(name) {
					name = ""
				}
				index := append(append([]int{}, f.Index...), i)
				ft := sf.Type
				if ft.Name() == "" && ft.Kind() == reflect.Ptr {
					ft = ft.Elem()
				}
				quoted := false
				if has(opts, "string") {
					switch ft.Kind() {
					case reflect.Bool, reflect.Int, reflect.Int8, reflect.Int16, reflect.Int32, reflect.Int64,
						reflect.Uint, reflect.Uint8, reflect.Uint16, reflect.Uint32, reflect.Uint64, reflect.Uintptr,
						reflect.Float32, reflect.Float64, reflect.String:
						quoted = true
					}
				}
				if name != "" || !sf.Anonymous || ft.Kind() != reflect.Struct {
					tagged := name != ""
					if name == "" {
						name = sf.Name
					}
					o := 0
					if has(opts, "omitempty") {
						o |= 1
					}
					if quoted {
						o |= 2
					}
					if has(opts, "omitzero") {
						o |= 4
					}
					fields = append(fields, RField{Name: name, Opts: o, Index: index, tag: tagged})
					if count[f.typ] > 1 {
						fields = append(fields, fields[len(fields)-1])
					}
					continue
				}
				nextCount[ft]++
				if nextCount[ft] == 1 {
					next = append(next, qent{typ: ft, Index: index})
				}
			}
		}
	}
	cmpIdx := func(a, b []int) int {
		for i := range a {
			if i >= len(b) {
				return 1
			}
			if a[i] != b[i] {
				return a[i] - b[i]
			}
		}
		if len(a) < len(b) {
			return -1
		}
		return 0
	}
	sort.SliceStable(fields, func(i, j int) bool {
		a, b := fields[i], fields[j]
		if a.Name != b.Name {
			return a.Name < b.Name
		}
		if len(a.Index) != len(b.Index) {
			return len(a.Index) < len(b.Index)
		}
		if a.tag != b.tag {
			return a.tag
		}
		return cmpIdx(a.Index, b.Index) < 0
	})
	out := fields[:0]
	for adv, i := 0, 0; i < len(fields); i += adv {
		fi := fields[i]
		for adv = 1; i+adv < len(fields); adv++ {
			if fields[i+adv].Name != fi.Name {
				break
			}
		}
		if adv == 1 {
			out = append(out, fi)
			continue
		}
		g := fields[i : i+adv]
		if len(g[0].Index) == len(g[1].Index) && g[0].tag == g[1].tag {
			continue // no dominant field: all dropped
		}
		out = append(out, g[0])
	}
	fields = out
	sort.SliceStable(fields, func(i, j int) bool { return cmpIdx(fields[i].Index, fields[j].Index) < 0 })

	// offsets path and final type
	for k := range fields {
		f := &fields[k]
		item := t
		var acc uintptr
		var path []PathEl
		for n, i := range f.Index {
			sf := item.Field(i)
			item = sf.Type
			acc += sf.Offset
			last := n == len(f.Index)-1
			if item.Kind() == reflect.Ptr && !last {
				path = append(path, PathEl{acc, true})
				acc = 0
				item = item.Elem()
			}
		}
		if acc != 0 || len(path) == 0 {
			path = append(path, PathEl{acc, false})
		}
		f.Type = item
		f.Path = path
	}
	return fields
}
