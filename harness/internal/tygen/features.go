package tygen

import (
	"math"
	"reflect"
	"sort"
	"strings"
	"unicode/utf8"
	"unsafe"
)

// Features are input classes computed from (type, value) only - never from a result. The checks use them as the
// narrow classifiers of known findings and for the measured distribution.
type Features map[string]bool

func (f Features) String() string {
	var ks []string
	for k := range f {
		ks = append(ks, k)
	}
	sort.Strings(ks)
	if len(ks) == 0 {
		return "-"
	}
	return strings.Join(ks, ",")
}

type fwalk struct {
	f      Features
	nodes  int
	depth  int
	max    int
	path   map[unsafe.Pointer]bool
	quoted bool // the next value is a struct field with the `,string` option
}

// Feat computes the features of encoding v (static type v.Type(), as passed to Marshal inside an interface).
func Feat(v reflect.Value) Features {
	w := &fwalk{f: Features{}, path: map[unsafe.Pointer]bool{}}
	w.ty(v.Type(), map[reflect.Type]bool{})
	w.val(v, false, 0, false)
	if w.max > 1000 {
		w.f["deep"] = true
	}
	return w.f
}

func (w *fwalk) ty(t reflect.Type, seen map[reflect.Type]bool) {
	if seen[t] {
		return
	}
	seen[t] = true
	switch t.Kind() {
	case reflect.Map:
		w.f["k:map"] = true
		kt := t.Key()
		switch kt.Kind() {
		case reflect.Bool:
			if !kt.Implements(TTextM) {
				w.f["boolkey"] = true
			}
		case reflect.Float32, reflect.Float64:
			if !kt.Implements(TTextM) {
				w.f["floatkey"] = true
			}
		case reflect.String, reflect.Int, reflect.Int8, reflect.Int16, reflect.Int32, reflect.Int64,
			reflect.Uint, reflect.Uint8, reflect.Uint16, reflect.Uint32, reflect.Uint64, reflect.Uintptr:
		default:
			if !kt.Implements(TTextM) {
				w.f["badkey"] = true // a key kind the compiler rejects when it compiles the type
			}
		}
		w.ty(kt, seen)
		w.ty(t.Elem(), seen)
	case reflect.Slice, reflect.Array, reflect.Ptr:
		w.f["k:"+t.Kind().String()] = true
		w.ty(t.Elem(), seen)
	case reflect.Struct:
		w.f["k:struct"] = true
		for i := 0; i < t.NumField(); i++ {
			f := t.Field(i)
			if f.Anonymous {
				w.f["embedded"] = true
			}
			tag := f.Tag.Get("json")
			if strings.Contains(tag, ",omitzero") {
				w.f["omitzero"] = true
			}
			if strings.Contains(tag, ",string") {
				w.f["tag-string"] = true
			}
			if strings.Contains(tag, ",omitempty") {
				w.f["tag-omitempty"] = true
				switch f.Type.Kind() {
				case reflect.Chan, reflect.Func, reflect.Complex64, reflect.Complex128, reflect.UnsafePointer:
					w.f["badomit"] = true // omitempty on a kind the compiler rejects when it compiles the type
				}
			}
			w.ty(f.Type, seen)
		}
	case reflect.Interface:
		w.f["k:interface"] = true
	case reflect.Chan, reflect.Func, reflect.Complex64, reflect.Complex128, reflect.UnsafePointer:
		w.f["unsupported-kind"] = true
	}
	if Methods(t) != 0 {
		w.f["methods"] = true
	}
}

func directNil(v reflect.Value) bool {
	switch v.Kind() {
	case reflect.Ptr, reflect.Map, reflect.Chan, reflect.Func, reflect.UnsafePointer:
		return v.IsNil()
	case reflect.Struct:
		return v.NumField() == 1 && directNil(v.Field(0))
	case reflect.Array:
		return v.Len() == 1 && directNil(v.Index(0))
	}
	return false
}

// val: addr = the position is addressable in encoding/json's sense; omitempty = a struct field with that option.
func (w *fwalk) val(v reflect.Value, addr bool, depth int, omitempty bool) {
	quotedStr := w.quoted
	w.quoted = false
	w.nodes++
	if depth > w.max {
		w.max = depth
	}
	if w.nodes > 60000 || depth > 6000 {
		w.f["huge-or-cyclic"] = true
		return
	}
	t := v.Type()
	if Methods(t) != 0 {
		w.f["methods"] = true
	}
	if m := Methods(t); m != 0 && t.Kind() != reflect.Ptr {
		if m&(2|8) != 0 && !addr {
			w.f["ptrrecv-nonaddr"] = true // pointer-receiver Marshal method on a non-addressable value: encoding/json does not call it
		}
		if m&(2|8) != 0 && addr {
			w.f["ptrrecv-addr"] = true
		}
	}
	switch t.Kind() {
	case reflect.Float32, reflect.Float64:
		f := v.Float()
		if f == 0 && math.Signbit(f) {
			w.f["negzero"] = true
			if omitempty {
				w.f["negzero-omitempty"] = true
			}
		}
		if math.IsNaN(f) || math.IsInf(f, 0) {
			w.f["naninf"] = true
		}
	case reflect.String:
		if !utf8.ValidString(v.String()) {
			w.f["invalid-utf8"] = true
		}
		if quotedStr && (!utf8.ValidString(v.String()) || strings.ContainsAny(v.String(), "<>&\u2028\u2029\b\f")) {
			w.f["quoted-string-special"] = true
		}
	case reflect.Array:
		for i := 0; i < v.Len(); i++ {
			w.val(v.Index(i), addr, depth+1, false)
		}
	case reflect.Slice:
		if v.IsNil() {
			w.f["nil-slice"] = true
		}
		if t.Elem().Kind() == reflect.Uint8 {
			if t == Catalogue[1] && !utf8.Valid(v.Bytes()) {
				w.f["marshaler-invalid-utf8"] = true
			}
			if t == Catalogue[1] && looseString(v.Bytes()) {
				w.f["marshaler-loose-string"] = true
			}
			return
		}
		for i := 0; i < v.Len(); i++ {
			w.val(v.Index(i), true, depth+1, false)
		}
	case reflect.Map:
		if v.IsNil() {
			w.f["nil-map"] = true
		}
		n := v.Len()
		switch {
		case n >= 41:
			w.f["map>=41"] = true
		case n >= 12:
			w.f["map>=12"] = true
		case n >= 2:
			w.f["map>=2"] = true
		}
		it := v.MapRange()
		for it.Next() {
			w.val(it.Key(), false, depth+1, false)
			w.val(it.Value(), false, depth+1, false)
		}
	case reflect.Ptr:
		if !v.IsNil() {
			k := v.UnsafePointer()
			if w.path[k] {
				w.f["cyclic"] = true
				return
			}
			w.path[k] = true
			w.quoted = quotedStr
			w.val(v.Elem(), true, depth+1, false)
			delete(w.path, k)
		}
	case reflect.Interface:
		if v.IsNil() {
			return
		}
		e := v.Elem()
		if t.NumMethod() != 0 && e.Kind() != reflect.Ptr && e.Kind() != reflect.Map && directNil(e) {
			w.f["iface-direct-nil"] = true
		}
		if t.NumMethod() != 0 {
			w.f["nonempty-iface"] = true
		}
		w.val(e, false, depth+1, false)
	case reflect.Struct:
		for i := 0; i < t.NumField(); i++ {
			f := v.Field(i)
			if !f.CanInterface() {
				if !v.CanAddr() {
					c := reflect.New(t).Elem()
					c.Set(v)
					f = c.Field(i)
				}
				f = reflect.NewAt(f.Type(), unsafe.Pointer(f.UnsafeAddr())).Elem()
			}
			tag := t.Field(i).Tag.Get("json")
			w.quoted = strings.Contains(tag, ",string") && (f.Kind() == reflect.String || f.Kind() == reflect.Ptr && f.Type().Elem().Kind() == reflect.String)
			w.val(f, addr, depth+1, strings.Contains(tag, ",omitempty"))
		}
	}
	if t == Catalogue[1] && !utf8.Valid(v.Bytes()) {
		w.f["marshaler-invalid-utf8"] = true
	}
	if t == Catalogue[4] && v.Field(0).Int() == -4 {
		w.f["marshaler-invalid-utf8"] = true
	}
}

// looseString: the text has a string literal with an invalid escape or a raw control character
// (what the native validator lets through).
func looseString(b []byte) bool {
	in := false
	for i := 0; i < len(b); i++ {
		c := b[i]
		switch {
		case !in:
			in = c == '"'
		case c == '"':
			in = false
		case c < 0x20:
			return true
		case c == '\\':
			i++
			if i >= len(b) {
				return false
			}
			switch b[i] {
			case '"', '\\', '/', 'b', 'f', 'n', 'r', 't':
			case 'u':
				for k := 1; k <= 4; k++ {
					if i+k >= len(b) || !isHex(b[i+k]) {
						return true
					}
				}
				i += 4
			default:
				return true
			}
		}
	}
	return false
}

func isHex(c byte) bool {
	return '0' <= c && c <= '9' || 'a' <= c && c <= 'f' || 'A' <= c && c <= 'F'
}
