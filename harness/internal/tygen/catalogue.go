// Package tygen: the shared type/value universe of the encoder properties (C03, C12, C04).
//
// Types are real reflect.Types (built with reflect.StructOf/SliceOf/MapOf/ArrayOf/PtrTo, plus the fixed catalogue of
// named types below for methods, recursion and embedding); every type is serialised as the S-expression descriptor
// read by the Coq model (coq/theories/Enc/Ty.v), every value as the S-expression of Enc/Val.v.
package tygen

import (
	"encoding"
	"encoding/json"
	"errors"
	"reflect"
	"strconv"
)

// ---- named types without methods
type NInt int
type NI8 int8
type NU16 uint16
type NStr string
type NBool bool
type NF64 float64
type NBytes []byte
type NSlice []int
type NMap map[string]int

// ---- json.Marshaler, value receiver
type JV struct{ A int }

func (j JV) MarshalJSON() ([]byte, error) {
	switch {
	case j.A == -1:
		return nil, errors.New("JV refuses -1")
	case j.A == -2:
		return []byte(`{"jv":`), nil // invalid JSON
	case j.A == -3:
		return []byte(" {\"jv\" :\t[ 1 , 2 ] ,\n\"s\": \"<a b>\" } "), nil // needs compaction, HTML chars
	case j.A == -4:
		return []byte(`"` + "\xff" + `"`), nil // invalid UTF-8 inside a string literal
	case j.A == -5:
		return []byte(``), nil // empty output
	case j.A == -6:
		return []byte(`1 2`), nil // trailing value
	}
	return []byte(`{"jv":` + strconv.Itoa(j.A) + `}`), nil
}

// ---- json.Marshaler, pointer receiver
type JP struct{ A int }

func (j *JP) MarshalJSON() ([]byte, error) {
	if j.A == -1 {
		return nil, errors.New("JP refuses -1")
	}
	return []byte(`["jp",` + strconv.Itoa(j.A) + `]`), nil
}

// ---- encoding.TextMarshaler, value / pointer receiver
type TV struct{ S string }

func (t TV) MarshalText() ([]byte, error) {
	if t.S == "!err" {
		return nil, errors.New("TV refuses")
	}
	return []byte("tv:" + t.S), nil
}

type TP struct{ S string }

func (t *TP) MarshalText() ([]byte, error) {
	if t.S == "!err" {
		return nil, errors.New("TP refuses")
	}
	return []byte("tp:" + t.S), nil
}

// ---- both interfaces (json wins)
type JTV struct{ A int }

func (j JTV) MarshalJSON() ([]byte, error) { return []byte(`{"jtv":` + strconv.Itoa(j.A) + `}`), nil }
func (j JTV) MarshalText() ([]byte, error) { return []byte("jtv-text"), nil }

// ---- scalar kinds with methods (map keys, `,string` priority, omitempty on the underlying kind)
type JVInt int

func (j JVInt) MarshalJSON() ([]byte, error) {
	return []byte(`"jvint` + strconv.Itoa(int(j)) + `"`), nil
}

type TVInt int

func (t TVInt) MarshalText() ([]byte, error) { return []byte("k" + strconv.Itoa(int(t))), nil }

type TVStr string

func (t TVStr) MarshalText() ([]byte, error) { return []byte("<" + string(t) + ">"), nil }

type TPInt int

func (t *TPInt) MarshalText() ([]byte, error) { return []byte("p" + strconv.Itoa(int(*t))), nil }

// a byte kind with a method: []JVByte is not a "simple byte" slice (no base64)
type JVByte uint8

func (j JVByte) MarshalJSON() ([]byte, error) { return []byte(strconv.Itoa(int(j) + 1000)), nil }

// a byte kind whose pointer type has a method
type TPByte uint8

func (t *TPByte) MarshalText() ([]byte, error) { return []byte("b" + strconv.Itoa(int(*t))), nil }

// ---- pointer-shaped (direct interface) value types
type JVDirect struct{ P *int }

func (j JVDirect) MarshalJSON() ([]byte, error) {
	if j.P == nil {
		return []byte(`"jvd-nil"`), nil
	}
	return []byte(`{"jvd":` + strconv.Itoa(*j.P) + `}`), nil
}

type SDirect struct{ P *int }

func (s SDirect) String() string { return "sdirect" }

type SVal struct{ A int }

func (s SVal) String() string { return "sval" }

type SMap map[string]int

func (s SMap) String() string { return "smap" }

// map type with a value receiver marshaler
type JVMap map[string]int

func (j JVMap) MarshalJSON() ([]byte, error) {
	return []byte(`"jvmap` + strconv.Itoa(len(j)) + `"`), nil
}

// ---- interfaces
type Stringer interface{ String() string }

// ---- recursion
type Rec struct {
	V    int
	Next *Rec           `json:"next,omitempty"`
	Kids []Rec          `json:"kids,omitempty"`
	M    map[string]Rec `json:"m,omitempty"`
	I    interface{}    `json:"i,omitempty"`
}

type RecA struct {
	N int
	B *RecB `json:"b"`
}
type RecB struct {
	S  string
	A  *RecA   `json:"a"`
	BB []*RecB `json:"bb,omitempty"`
}

type List struct{ Next *List }

type RecSlice []RecSlice
type RecMap map[string]RecMap

// recursion reaching a pointer-receiver marshaler (history-dependence shape of C09; used only in dedicated cases)
type RecJP struct {
	J    JP
	Next *RecJP `json:"next,omitempty"`
}

// ---- embedding
type Emb1 struct {
	X int
	Y string `json:"y"`
}
type Emb2 struct {
	X  float64 `json:"X"`
	Z  bool    `json:"z,omitempty"`
	E3 int
}
type emb3 struct {
	U uint8
	W *int `json:"w,omitempty"`
}
type Outer1 struct {
	Emb1
	*Emb2
	emb3
	Q int `json:"q"`
}
type Outer2 struct {
	Emb1 `json:"named"`
	*emb3
	X    string // shadows Emb1.X (which is renamed away anyway)
	y    int
	Skip int `json:"-"`
	Dash int `json:"-,"`
}
type Outer3 struct { // conflicting names at the same depth annihilate
	Emb1
	Emb4
}
type Emb4 struct {
	X int
	V int `json:"y"`
}
type Outer4 struct { // embedded pointer to a struct whose first JSON field sits at offset 0, and a deeper chain
	*Outer1
	T TV
}
type EmbJV struct { // embedding a Marshaler promotes its method: the whole struct is a Marshaler
	JV
	B int
}
type EmbNI struct { // embedded non-struct types
	NInt
	*NStr
	B int
}

// ---- inline limits
type Big50 struct {
	F00, F01, F02, F03, F04, F05, F06, F07, F08, F09 int8
	F10, F11, F12, F13, F14, F15, F16, F17, F18, F19 int8
	F20, F21, F22, F23, F24, F25, F26, F27, F28, F29 int8
	F30, F31, F32, F33, F34, F35, F36, F37, F38, F39 int8
	F40, F41, F42, F43, F44, F45, F46, F47, F48      int8
	E                                                interface{} `json:"e,omitempty"`
}
type Big49 struct {
	F00, F01, F02, F03, F04, F05, F06, F07, F08, F09 int8
	F10, F11, F12, F13, F14, F15, F16, F17, F18, F19 int8
	F20, F21, F22, F23, F24, F25, F26, F27, F28, F29 int8
	F30, F31, F32, F33, F34, F35, F36, F37, F38, F39 int8
	F40, F41, F42, F43, F44, F45, F46, F47           int8
	S                                                string `json:"s,omitempty"`
}
type Big50x struct {
	F00, F01, F02, F03, F04, F05, F06, F07, F08, F09 int8
	F10, F11, F12, F13, F14, F15, F16, F17, F18, F19 int8
	F20, F21, F22, F23, F24, F25, F26, F27, F28, F29 int8
	F30, F31, F32, F33, F34, F35, F36, F37, F38, F39 int8
	F40, F41, F42, F43, F44, F45, F46, F47, F48      int8
	J                                                JP
}

// a struct compiled out of line at the default inline depth, with omitempty fields of every emptiness test
type Leaf struct {
	A int            `json:"a,omitempty"`
	S string         `json:"s,omitempty"`
	L []int          `json:"l,omitempty"`
	M map[string]int `json:"m,omitempty"`
	P *int           `json:"p,omitempty"`
	I interface{}    `json:"i,omitempty"`
	F float64        `json:"f,omitempty"`
	B bool           `json:"b,omitempty"`
}
type N3 struct {
	X struct {
		Y struct {
			Leaf Leaf `json:"leaf"`
		}
	}
}
type D4 struct {
	A struct {
		B struct{ C struct{ D struct{ E int } } }
	}
}

// ---- unexported fields and tags
type Tags struct {
	A int     `json:"a,omitempty"`
	B string  `json:",omitempty"`
	C int     `json:"c,string"`
	D *int    `json:"d,string,omitempty"`
	E string  `json:"<e&>"`
	F float64 `json:"f,omitempty,string"`
	G []int   `json:"g,string"`
	H bool    `json:"h,string"`
	I int     `json:"bad name!"` // '!' is allowed, ' ' is allowed too
	J int     `json:"quo\"te"`   // invalid tag name -> Go field name
	K int     `json:",omitempty,"`
	l int
	M uintptr  `json:",omitempty"`
	N [0]int   `json:",omitempty"`
	O [2]int   `json:",omitempty"`
	P struct{} `json:",omitempty"`
}

// ---- anonymous embedding chains: fields promoted through 1..8 levels (value and pointer embedding mixed), innermost structs with
// 2-4 fields of different kinds, name conflicts at different depths (the dominant-field rule) and at the same depth (tag wins / annihilation)
type C0 struct {
	X int
	Y string
	Z bool
}
type Q2 struct {
	P int8
	Q []byte
}
type C1 struct {
	C0
	*Q2
	A1 int
}
type C2 struct {
	*C1
	A2 string
}
type C3 struct { // X Y Z P Q arrive through three levels
	C2
	A int
}
type C4 struct {
	*C3
	A4 float64
}
type C5 struct {
	C4
	X uint8 // shadows the X five levels down
}
type C6 struct {
	C5
	A6 bool
	R4
}
type R4 struct {
	K uint16
	L float32
	M string
	N *int
}
type C7 struct {
	*C6
	Y int `json:"Y"` // tagged, depth 0: dominates
}
type C8 struct {
	C7
	A8 string
}
type KIn struct {
	X string `json:"X"` // same depth as C0.X below KOut: the tagged one wins
	W int
}
type KMid struct{ KIn }
type KMid2 struct{ KMid }
type KOut struct {
	C3
	KMid2
}
type KIn2 struct {
	X string // same depth as C0.X below KOutB, both untagged: both disappear
	V int
}
type KMidB struct{ *KIn2 }
type KMidB2 struct{ KMidB }
type KOutB struct {
	C3
	KMidB2
}

// Catalogue: id -> type. The ids are part of the wire format of the model (named N).
var Catalogue = []reflect.Type{
	0:  reflect.TypeOf(json.Number("")),
	1:  reflect.TypeOf(json.RawMessage(nil)),
	2:  reflect.TypeOf(NInt(0)),
	3:  reflect.TypeOf(NStr("")),
	4:  reflect.TypeOf(JV{}),
	5:  reflect.TypeOf(JP{}),
	6:  reflect.TypeOf(TV{}),
	7:  reflect.TypeOf(TP{}),
	8:  reflect.TypeOf(JTV{}),
	9:  reflect.TypeOf(JVInt(0)),
	10: reflect.TypeOf(TVInt(0)),
	11: reflect.TypeOf(TVStr("")),
	12: reflect.TypeOf(TPInt(0)),
	13: reflect.TypeOf(JVByte(0)),
	14: reflect.TypeOf(TPByte(0)),
	15: reflect.TypeOf(JVDirect{}),
	16: reflect.TypeOf(SDirect{}),
	17: reflect.TypeOf(SVal{}),
	18: reflect.TypeOf(SMap(nil)),
	19: reflect.TypeOf(JVMap(nil)),
	20: reflect.TypeOf(Rec{}),
	21: reflect.TypeOf(RecA{}),
	22: reflect.TypeOf(RecB{}),
	23: reflect.TypeOf(List{}),
	24: reflect.TypeOf(RecSlice(nil)),
	25: reflect.TypeOf(RecMap(nil)),
	26: reflect.TypeOf(RecJP{}),
	27: reflect.TypeOf(Emb1{}),
	28: reflect.TypeOf(Emb2{}),
	29: reflect.TypeOf(emb3{}),
	30: reflect.TypeOf(Outer1{}),
	31: reflect.TypeOf(Outer2{}),
	32: reflect.TypeOf(Outer3{}),
	33: reflect.TypeOf(Emb4{}),
	34: reflect.TypeOf(Outer4{}),
	35: reflect.TypeOf(EmbJV{}),
	36: reflect.TypeOf(EmbNI{}),
	37: reflect.TypeOf(Big50{}),
	38: reflect.TypeOf(Big49{}),
	39: reflect.TypeOf(D4{}),
	40: reflect.TypeOf(Tags{}),
	41: reflect.TypeOf(NI8(0)),
	42: reflect.TypeOf(NU16(0)),
	43: reflect.TypeOf(NBool(false)),
	44: reflect.TypeOf(NF64(0)),
	45: reflect.TypeOf(NBytes(nil)),
	46: reflect.TypeOf(NSlice(nil)),
	47: reflect.TypeOf(NMap(nil)),
	48: reflect.TypeOf(Big50x{}),
	49: reflect.TypeOf(Leaf{}),
	50: reflect.TypeOf(N3{}),
	51: reflect.TypeOf(C0{}),
	52: reflect.TypeOf(Q2{}),
	53: reflect.TypeOf(C1{}),
	54: reflect.TypeOf(C2{}),
	55: reflect.TypeOf(C3{}),
	56: reflect.TypeOf(C4{}),
	57: reflect.TypeOf(C5{}),
	58: reflect.TypeOf(R4{}),
	59: reflect.TypeOf(C6{}),
	60: reflect.TypeOf(C7{}),
	61: reflect.TypeOf(C8{}),
	62: reflect.TypeOf(KIn{}),
	63: reflect.TypeOf(KMid{}),
	64: reflect.TypeOf(KMid2{}),
	65: reflect.TypeOf(KOut{}),
	66: reflect.TypeOf(KIn2{}),
	67: reflect.TypeOf(KMidB{}),
	68: reflect.TypeOf(KMidB2{}),
	69: reflect.TypeOf(KOutB{}),
}

var catID = map[reflect.Type]int{}

func init() {
	for i, t := range Catalogue {
		catID[t] = i
	}
}

// interface types of the universe
var (
	TEface     = reflect.TypeOf((*interface{})(nil)).Elem()
	TStringer  = reflect.TypeOf((*Stringer)(nil)).Elem()
	TJsonM     = reflect.TypeOf((*json.Marshaler)(nil)).Elem()
	TTextM     = reflect.TypeOf((*encoding.TextMarshaler)(nil)).Elem()
	TErrorType = reflect.TypeOf((*error)(nil)).Elem()
)
