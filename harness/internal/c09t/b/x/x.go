// Package x (under b/): see a/x. Same package name, same type names, different layouts.
package x

type T struct {
	S []string       `json:"s"`
	A map[string]int `json:"a"`
	P *T             `json:"p,omitempty"`
}

type U struct {
	Name string  `json:"name"`
	F    float64 `json:"f"`
	T    *T      `json:"t"`
}
