// Package c09t: the type catalogue, value generator and canonical observables of the C09/C08 harness.
// Everything is a deterministic function of (type index, seed) so that separate processes agree.
package c09t

import (
	"encoding"
	"encoding/json"
	"fmt"
	"reflect"
	"strconv"
	"strings"

	ax "verif/harness/internal/c09t/a/x"
	bx "verif/harness/internal/c09t/b/x"
	"verif/harness/internal/rng"
)

type Flat struct {
	I   int     `json:"i"`
	S   string  `json:"s"`
	F   float64 `json:"f"`
	B   bool    `json:"b"`
	U8  uint8   `json:"u8"`
	I64 int64   `json:"i64,string"`
	Bs  []byte  `json:"bs"`
	P   *int    `json:"p"`
}

type N6 struct {
	Z  string
	ZI []int
}
type N5 struct {
	E  int
	N6 N6
	M6 map[string]N6
}
type N4 struct {
	D  float64
	N5 N5
	P5 *N5
}
type N3 struct {
	C  string
	N4 N4
	S4 []N4
}
type N2 struct {
	B  bool
	N3 N3
}
type N1 struct {
	A  int
	N2 N2
	O2 *N2 `json:",omitempty"`
}

type Rec struct {
	V    int             `json:"v"`
	Next *Rec            `json:"next,omitempty"`
	Kids []Rec           `json:"kids,omitempty"`
	M    map[string]*Rec `json:"m,omitempty"`
}

type MutA struct {
	Name string
	B    *MutB
	Bs   []MutB
}
type MutB struct {
	ID int
	A  *MutA
	As map[string]MutA
}

type Iface struct {
	X interface{}
	Y []interface{}
	Z map[string]interface{}
}

// value-receiver marshalers: addressability never matters for these
type VM struct{ N int }

func (v VM) MarshalJSON() ([]byte, error) { return []byte(`{"vm":` + strconv.Itoa(v.N) + `}`), nil }
func (v *VM) UnmarshalJSON(b []byte) error {
	var t struct {
		Vm int `json:"vm"`
	}
	err := json.Unmarshal(b, &t)
	v.N = t.Vm
	return err
}

type VT struct{ N int }

func (v VT) MarshalText() ([]byte, error) { return []byte("vt" + strconv.Itoa(v.N)), nil }
func (v *VT) UnmarshalText(b []byte) error {
	if len(b) < 2 {
		return fmt.Errorf("short")
	}
	n, err := strconv.Atoi(string(b[2:]))
	v.N = n
	return err
}

type WithM struct {
	A  VM
	B  *VM
	C  []VM
	D  map[string]VM
	T  VT
	TK map[VT]int
	R  *WithM
}

type Emb struct {
	Flat
	*N6  `json:"n6,omitempty"`
	Skip int    `json:"-"`
	Ren  string `json:"renamed,omitempty"`
	Arr  [2]Flat
}

// Big has >= 50 fields: nested below depth 0 it is compiled out of line (MAX_FIELDS cut-over)
type Big struct {
	F00, F01, F02, F03, F04, F05, F06, F07, F08, F09 int
	F10, F11, F12, F13, F14, F15, F16, F17, F18, F19 string
	F20, F21, F22, F23, F24, F25, F26, F27, F28, F29 float64
	F30, F31, F32, F33, F34, F35, F36, F37, F38, F39 bool
	F40, F41, F42, F43, F44, F45, F46, F47, F48, F49 []int
	F50, F51                                         *int
}
type HasBig struct {
	Pre string
	B   Big
	L   []Big
}

// ---- hazard types -------------------------------------------------------------------------------

// P implements json.Marshaler with a POINTER receiver only: whether it is used depends on addressability.
type P struct{ X int }

func (p *P) MarshalJSON() ([]byte, error) { return []byte(`"PTR` + strconv.Itoa(p.X) + `"`), nil }

// TP is recursive (so V is reached through OP_recurse in the encoder) and holds a P by value.
type TP struct {
	V    P
	Next *TP `json:",omitempty"`
}

// Q implements encoding.TextMarshaler with a pointer receiver only.
type Q struct{ X int }

func (q *Q) MarshalText() ([]byte, error) { return []byte("PTRTEXT" + strconv.Itoa(q.X)), nil }

type TQ struct {
	V    Q
	Kids []TQ `json:",omitempty"`
}

func localL1() reflect.Type {
	type L struct {
		A int
		B string
	}
	return reflect.TypeOf(L{})
}

func localL2() reflect.Type {
	type L struct {
		S []string
		M map[string]float64
		P *int
	}
	return reflect.TypeOf(L{})
}

// Pair: two different nested struct values in one parent (inlined by default, out of line after Pretouch with a small
// MaxInlineDepth): inputs with a type mismatch in each of them
type PairIn1 struct {
	X int
	Y string
}
type PairIn2 struct {
	X int
	Y string
	Z *PairIn1
}
type Pair struct {
	A PairIn1
	B PairIn2
	C int
	L []PairIn1
}

// Omit: omitempty on fields that cannot be nil (int, string, bool, float, zero-length array) and on some that can;
// OmitOuter / containers of Omit inline its body, so what THEY emit must not depend on how Omit itself was compiled before
type Omit struct {
	N int            `json:"n,omitempty"`
	S string         `json:"s,omitempty"`
	B bool           `json:"b,omitempty"`
	F float64        `json:"f,omitempty"`
	A [0]int         `json:"a,omitempty"`
	P *int           `json:"p,omitempty"`
	L []int          `json:"l,omitempty"`
	M map[string]int `json:"m,omitempty"`
	K int            `json:"k"`
}
type OmitOuter struct {
	In  Omit   `json:"in"`
	X   int    `json:"x"`
	Ins []Omit `json:"ins,omitempty"`
	T   string `json:"t,omitempty"`
}

// OmitOuter2: Omit stays within the inline depth for the wrappers T, *T, []T, struct{X T}, [2]T
type OmitOuter2 struct {
	In Omit `json:"in"`
	X  int  `json:"x"`
}

// Entry of the catalogue.
type Entry struct {
	Name   string
	T      reflect.Type
	Hazard string // "" | "clash" (prints like another type) | "pv" (pointer-receiver-only marshaler reachable)
}

var Catalogue = []Entry{
	{"Flat", reflect.TypeOf(Flat{}), ""},
	{"N1", reflect.TypeOf(N1{}), ""},
	{"N3", reflect.TypeOf(N3{}), ""},
	{"Rec", reflect.TypeOf(Rec{}), ""},
	{"MutA", reflect.TypeOf(MutA{}), ""},
	{"MutB", reflect.TypeOf(MutB{}), ""},
	{"Iface", reflect.TypeOf(Iface{}), ""},
	{"WithM", reflect.TypeOf(WithM{}), ""},
	{"Emb", reflect.TypeOf(Emb{}), ""},
	{"HasBig", reflect.TypeOf(HasBig{}), ""},
	{"Big", reflect.TypeOf(Big{}), ""},
	{"MapRec", reflect.TypeOf(map[string]Rec{}), ""},
	{"SliceN1", reflect.TypeOf([]N1{}), ""},
	{"a/x.T", reflect.TypeOf(ax.T{}), "clash"},
	{"b/x.T", reflect.TypeOf(bx.T{}), "clash"},
	{"a/x.U", reflect.TypeOf(ax.U{}), "clash"},
	{"b/x.U", reflect.TypeOf(bx.U{}), "clash"},
	{"L1", localL1(), "clash"},
	{"L2", localL2(), "clash"},
	{"TP", reflect.TypeOf(TP{}), "pv"},
	{"TQ", reflect.TypeOf(TQ{}), "pv"},
	{"Pair", reflect.TypeOf(Pair{}), ""},
	{"Omit", reflect.TypeOf(Omit{}), ""},
	{"OmitOuter", reflect.TypeOf(OmitOuter{}), ""},
	{"OmitOuter2", reflect.TypeOf(OmitOuter2{}), ""},
}

const GenBase = 1000 // type index >= GenBase: generated reflect.StructOf type number (index - GenBase)

func CatalogueIndex(name string) int {
	for i, e := range Catalogue {
		if e.Name == name {
			return i
		}
	}
	panic("no catalogue type " + name)
}

var leafTypes = []reflect.Type{
	reflect.TypeOf(int(0)), reflect.TypeOf(""), reflect.TypeOf(float64(0)), reflect.TypeOf(false),
	reflect.TypeOf(uint16(0)), reflect.TypeOf(int8(0)), reflect.TypeOf([]int(nil)), reflect.TypeOf(map[string]int(nil)),
	reflect.TypeOf((*int)(nil)), reflect.TypeOf([]string(nil)), reflect.TypeOf([2]int32{}), reflect.TypeOf((*string)(nil)),
	reflect.TypeOf(float32(0)), reflect.TypeOf([]byte(nil)), reflect.TypeOf(json.Number("")),
}

// safe named types that generated structs may embed as fields (no hazards)
var namedLeaves = []reflect.Type{
	reflect.TypeOf(Flat{}), reflect.TypeOf(N5{}), reflect.TypeOf(Rec{}), reflect.TypeOf((*Rec)(nil)), reflect.TypeOf(VM{}),
	reflect.TypeOf(N6{}), reflect.TypeOf([]N6(nil)), reflect.TypeOf(map[string]N6(nil)),
}

// GenType(k): the k-th generated struct type.  Distinct k give distinct types (the first field name carries k).
func GenType(k int) reflect.Type {
	r := rng.New(uint64(k)*7919 + 17)
	nf := 1 + r.Intn(5)
	fs := make([]reflect.StructField, 0, nf+1)
	fs = append(fs, reflect.StructField{Name: "K" + strconv.Itoa(k), Type: leafTypes[r.Intn(len(leafTypes))],
		Tag: reflect.StructTag(`json:"k"`)})
	for i := 0; i < nf; i++ {
		var t reflect.Type
		switch {
		case r.Chance(1, 6):
			t = namedLeaves[r.Intn(len(namedLeaves))]
		case r.Chance(1, 8) && k > 0:
			t = GenType(r.Intn(k)) // nest an earlier generated type (by value)
			if r.Bool() {
				t = reflect.SliceOf(t)
			}
		default:
			t = leafTypes[r.Intn(len(leafTypes))]
		}
		f := reflect.StructField{Name: "F" + strconv.Itoa(i), Type: t}
		if r.Chance(1, 4) {
			f.Tag = reflect.StructTag(`json:"f` + strconv.Itoa(i) + `,omitempty"`)
		}
		fs = append(fs, f)
	}
	return reflect.StructOf(fs)
}

// TinyType(k): a one-field struct type, distinct for every k; cheap to compile, used to fill the caches.
func TinyType(k int) reflect.Type {
	return reflect.StructOf([]reflect.StructField{{Name: "T" + strconv.Itoa(k), Type: leafTypes[k%4]}})
}

// TypeOf resolves a type index.
func TypeOf(idx int) reflect.Type {
	if idx >= GenBase {
		return GenType(idx - GenBase)
	}
	return Catalogue[idx].T
}

// Wrap applies a wrapper kind to a base type: 0 T, 1 *T, 2 []T, 3 map[string]T, 4 struct{X T}, 5 [2]T
const NWrap = 6

func Wrap(t reflect.Type, w int) reflect.Type {
	switch w {
	case 1:
		return reflect.PtrTo(t)
	case 2:
		return reflect.SliceOf(t)
	case 3:
		return reflect.MapOf(reflect.TypeOf(""), t)
	case 4:
		return reflect.StructOf([]reflect.StructField{{Name: "X", Type: t}})
	case 5:
		return reflect.ArrayOf(2, t)
	}
	return t
}

// ---- values ------------------------------------------------------------------------------------

var (
	jsonNumberT = reflect.TypeOf(json.Number(""))
	marshalerT  = reflect.TypeOf((*json.Marshaler)(nil)).Elem()
	textMarshT  = reflect.TypeOf((*encoding.TextMarshaler)(nil)).Elem()
)

var words = []string{"", "a", "key", "héllo", "<tag>&", "quo\"te", "back\\slash", "line\nfeed", " sep", "0", "long-long-long-long-long-long-long-long-value", "日本語"}

func randIface(r *rng.R, depth int) interface{} {
	switch n := r.Intn(8); {
	case n == 0:
		return nil
	case n == 1:
		return float64(r.Intn(2000)-1000) / 4
	case n == 2:
		return r.Pick(words)
	case n == 3:
		return r.Bool()
	case n == 4 && depth > 0:
		l := make([]interface{}, r.Intn(3))
		for i := range l {
			l[i] = randIface(r, depth-1)
		}
		return l
	case n == 5 && depth > 0:
		m := map[string]interface{}{}
		for i := r.Intn(3); i > 0; i-- {
			m[r.Pick(words)] = randIface(r, depth-1)
		}
		return m
	}
	return float64(r.Intn(100))
}

// Fill sets v (addressable) to a pseudo-random value; depth bounds recursion through pointers/slices/maps.
func Fill(v reflect.Value, r *rng.R, depth int) {
	t := v.Type()
	if t == jsonNumberT {
		v.SetString(strconv.Itoa(r.Intn(100000) - 50000))
		return
	}
	switch t.Kind() {
	case reflect.Bool:
		v.SetBool(r.Bool())
	case reflect.Int, reflect.Int8, reflect.Int16, reflect.Int32, reflect.Int64:
		x := int64(r.U64())
		switch r.Intn(3) {
		case 0:
			x = int64(r.Intn(200) - 100)
		case 1:
			x >>= uint(r.Intn(64))
		}
		v.SetInt(x >> uint(64-t.Bits()))
	case reflect.Uint, reflect.Uint8, reflect.Uint16, reflect.Uint32, reflect.Uint64, reflect.Uintptr:
		v.SetUint(r.U64() >> uint(64-t.Bits()) >> uint(r.Intn(t.Bits())))
	case reflect.Float32:
		v.SetFloat(float64(float32(r.Intn(1<<20)-1<<19) / 64))
	case reflect.Float64:
		switch r.Intn(3) {
		case 0:
			v.SetFloat(float64(r.Intn(1000)-500) / 8)
		case 1:
			v.SetFloat(float64(int64(r.U64()>>12)) * 1e-7)
		default:
			v.SetFloat(float64(r.Intn(7)))
		}
	case reflect.String:
		v.SetString(r.Pick(words))
	case reflect.Ptr:
		if depth <= 0 || r.Chance(1, 4) {
			return
		}
		p := reflect.New(t.Elem())
		Fill(p.Elem(), r, depth-1)
		v.Set(p)
	case reflect.Slice:
		if r.Chance(1, 6) {
			return // nil
		}
		n := 0
		if depth > 0 {
			n = r.Intn(4)
		}
		s := reflect.MakeSlice(t, n, n)
		for i := 0; i < n; i++ {
			Fill(s.Index(i), r, depth-1)
		}
		v.Set(s)
	case reflect.Array:
		for i := 0; i < t.Len(); i++ {
			Fill(v.Index(i), r, depth-1)
		}
	case reflect.Map:
		if r.Chance(1, 6) {
			return
		}
		m := reflect.MakeMap(t)
		n := 0
		if depth > 0 {
			n = r.Intn(4)
		}
		for i := 0; i < n; i++ {
			k := reflect.New(t.Key()).Elem()
			Fill(k, r, 0)
			e := reflect.New(t.Elem()).Elem()
			Fill(e, r, depth-1)
			m.SetMapIndex(k, e)
		}
		v.Set(m)
	case reflect.Struct:
		for i := 0; i < t.NumField(); i++ {
			f := v.Field(i)
			if f.CanSet() {
				Fill(f, r, depth-1)
			}
		}
	case reflect.Interface:
		if x := randIface(r, 2); x != nil {
			v.Set(reflect.ValueOf(x))
		}
	}
}

// ZeroFill: every scalar is its zero value, but containers are made non-empty (one element / one entry / allocated pointer)
// down to the given depth, so that the zero structs inside them are actually encoded.
func ZeroFill(v reflect.Value, depth int) {
	t := v.Type()
	switch t.Kind() {
	case reflect.Ptr:
		if depth > 0 {
			p := reflect.New(t.Elem())
			ZeroFill(p.Elem(), depth-1)
			v.Set(p)
		}
	case reflect.Slice:
		if depth > 0 && t.Elem().Kind() != reflect.Uint8 {
			s := reflect.MakeSlice(t, 1, 1)
			ZeroFill(s.Index(0), depth-1)
			v.Set(s)
		}
	case reflect.Array:
		for i := 0; i < t.Len(); i++ {
			ZeroFill(v.Index(i), depth-1)
		}
	case reflect.Map:
		if depth > 0 && t.Key().Kind() == reflect.String {
			m := reflect.MakeMap(t)
			e := reflect.New(t.Elem()).Elem()
			ZeroFill(e, depth-1)
			m.SetMapIndex(reflect.ValueOf("k").Convert(t.Key()), e)
			v.Set(m)
		}
	case reflect.Struct:
		for i := 0; i < t.NumField(); i++ {
			if f := v.Field(i); f.CanSet() {
				ZeroFill(f, depth-1)
			}
		}
	}
}

// ZeroValue returns a pointer to the "zero but non-empty" value of type t.
func ZeroValue(t reflect.Type) reflect.Value {
	p := reflect.New(t)
	ZeroFill(p.Elem(), 4)
	return p
}

// Value returns a pointer to a fresh pseudo-random value of type t.
func Value(t reflect.Type, seed uint64) reflect.Value {
	p := reflect.New(t)
	Fill(p.Elem(), rng.New(seed), 5)
	return p
}

// ---- type-graph queries used by the known-finding classifiers ----------------------------------------

// Closure: every type reachable from t through pointer, slice, array, map and struct-field edges.
func Closure(t reflect.Type, seen map[reflect.Type]bool) {
	if seen[t] {
		return
	}
	seen[t] = true
	switch t.Kind() {
	case reflect.Ptr, reflect.Slice, reflect.Array:
		Closure(t.Elem(), seen)
	case reflect.Map:
		Closure(t.Key(), seen)
		Closure(t.Elem(), seen)
	case reflect.Struct:
		for i := 0; i < t.NumField(); i++ {
			Closure(t.Field(i).Type, seen)
		}
	}
}

// PtrOnlyMarshaler: P does not implement json.Marshaler / encoding.TextMarshaler but *P does.
func PtrOnlyMarshaler(t reflect.Type) bool {
	if t.Kind() == reflect.Ptr || t.Kind() == reflect.Interface {
		return false
	}
	pt := reflect.PtrTo(t)
	return (!t.Implements(marshalerT) && pt.Implements(marshalerT)) || (!t.Implements(textMarshT) && pt.Implements(textMarshT))
}

// HasPtrOnlyMarshaler: some type reachable from t has a pointer-receiver-only marshaler.
func HasPtrOnlyMarshaler(t reflect.Type) bool {
	seen := map[reflect.Type]bool{}
	Closure(t, seen)
	for x := range seen {
		if PtrOnlyMarshaler(x) {
			return true
		}
	}
	return false
}

var (
	unmarshalerT     = reflect.TypeOf((*json.Unmarshaler)(nil)).Elem()
	textUnmarshalerT = reflect.TypeOf((*encoding.TextUnmarshaler)(nil)).Elem()
)

// HasCustomUnmarshaler: some type reachable from t (or a pointer to it) implements json.Unmarshaler / encoding.TextUnmarshaler.
func HasCustomUnmarshaler(t reflect.Type) bool {
	seen := map[reflect.Type]bool{}
	Closure(t, seen)
	for x := range seen {
		if x.Kind() == reflect.Interface {
			continue
		}
		px := reflect.PtrTo(x)
		if x.Implements(unmarshalerT) || px.Implements(unmarshalerT) || x.Implements(textUnmarshalerT) || px.Implements(textUnmarshalerT) {
			return true
		}
	}
	return false
}

// SameNameClash: the struct types reachable from the given roots that share their String() with another,
// distinct, reachable struct type.
func SameNameClash(roots []reflect.Type) map[reflect.Type]bool {
	seen := map[reflect.Type]bool{}
	for _, t := range roots {
		Closure(t, seen)
		// sonic.PretouchMany also compiles the pointer / element twin of every root
		if t.Kind() == reflect.Ptr {
			Closure(t.Elem(), seen)
		} else {
			Closure(reflect.PtrTo(t), seen)
		}
	}
	by := map[string][]reflect.Type{}
	for t := range seen {
		by[t.String()] = append(by[t.String()], t)
	}
	out := map[reflect.Type]bool{}
	for _, l := range by {
		if len(l) > 1 {
			for _, t := range l {
				out[t] = true
			}
		}
	}
	return out
}

// ---- malformed documents ---------------------------------------------------------------------------

type scalarTok struct {
	start, end int
	kind       byte // 'n' number, 's' string, 'b' bool, 'z' null
	depth      int
}

// scalarValues lists the scalar VALUE tokens (not object keys) of a valid JSON document.
func scalarValues(doc []byte) []scalarTok {
	var toks []scalarTok
	var stack []byte
	expectKey := false
	i := 0
	for i < len(doc) {
		c := doc[i]
		switch {
		case c == '{':
			stack = append(stack, '{')
			expectKey = true
			i++
		case c == '[':
			stack = append(stack, '[')
			expectKey = false
			i++
		case c == '}' || c == ']':
			if len(stack) > 0 {
				stack = stack[:len(stack)-1]
			}
			expectKey = false
			i++
		case c == ',':
			expectKey = len(stack) > 0 && stack[len(stack)-1] == '{'
			i++
		case c == ':':
			expectKey = false
			i++
		case c == '"':
			j := i + 1
			for j < len(doc) && doc[j] != '"' {
				if doc[j] == '\\' {
					j++
				}
				j++
			}
			j++
			if !expectKey {
				toks = append(toks, scalarTok{i, j, 's', len(stack)})
			}
			i = j
		case c == ' ' || c == '\n' || c == '\t' || c == '\r':
			i++
		default:
			j := i
			for j < len(doc) && !strings.ContainsRune(",}] \n\t\r", rune(doc[j])) {
				j++
			}
			k := byte('n')
			switch c {
			case 't', 'f':
				k = 'b'
			case 'n':
				k = 'z'
			}
			toks = append(toks, scalarTok{i, j, k, len(stack)})
			i = j
		}
	}
	return toks
}

// Damage turns a valid document into a malformed / mistyped one, deterministically from mut (> 0):
//
//	mut%3 == 0   two or three scalar values are replaced by values of another JSON kind (type mismatches, usually in
//	             different nested structs)
//	mut%3 == 1   the same, followed by syntax damage (truncation or a stray byte) after the last replaced value
//	mut%3 == 2   syntax damage only
func Damage(doc []byte, mut uint64) []byte {
	r := rng.New(mut * 2654435761)
	toks := scalarValues(doc)
	out := append([]byte{}, doc...)
	last := 0
	if mut%3 != 2 && len(toks) > 0 {
		n := 2 + r.Intn(2)
		pick := map[int]bool{}
		for i := 0; i < n; i++ {
			pick[r.Intn(len(toks))] = true
		}
		var b []byte
		pos := 0
		for i, t := range toks {
			if !pick[i] {
				continue
			}
			b = append(b, doc[pos:t.start]...)
			switch t.kind {
			case 'n', 'b':
				b = append(b, []byte(`"bad`+strconv.Itoa(i)+`"`)...)
			case 's':
				b = append(b, []byte(strconv.Itoa(1000+i))...)
			default:
				b = append(b, doc[t.start:t.end]...)
			}
			pos = t.end
			last = len(b)
		}
		out = append(b, doc[pos:]...)
	}
	if mut%3 != 0 && len(out) > last+1 {
		cut := last + 1 + r.Intn(len(out)-last-1)
		if r.Bool() {
			out = out[:cut]
		} else {
			out = append(append(append([]byte{}, out[:cut]...), '@'), out[cut:]...)
		}
	}
	return out
}
