package c09t

// Pool pollution: calls that FAIL inside nested containers (and therefore return pooled decoder stacks / native state
// machines / buffers in whatever state the failure left them), and probes whose result must not depend on them.

import (
	"bytes"
	"encoding/hex"
	"encoding/json"
	"fmt"
	"reflect"
	"runtime/debug"
	"strings"
	"sync"

	"github.com/bytedance/sonic"
	"github.com/bytedance/sonic/ast"
	"github.com/bytedance/sonic/decoder"

	"verif/harness/internal/rng"
)

type deep3 struct{ C [][]int }
type deep2 struct{ B deep3 }
type deep1 struct {
	A deep2
	M map[string][]deep3
}

var brokenDocs = []string{
	`{"A":{"B":{"C":[[1,x`,
	`[[[[{"a":[[x`,
	`{"A":{"B":{"C":[[1,2],[3`,
	`{"M":{"k":[{"C":[[1,2,{`,
	`{"a":{"b":{"c":{"d":{"e":[1,2,[3,[4,[5,"x` + "\xff",
	`[[[[[[[[[[[[[[[[1,2,}`,
	`{"A":{"B":{"C":[[1,"bad"],[true,`,
	`{"v":[{"next":{"next":{"next":{"kids":[{"v":1,"kids":[{"v":tru`,
}

const NFloodKinds = 8

// FloodKindName documents the kinds of failing calls.
var FloodKindName = []string{
	"Unmarshal(truncated nested doc) into nested struct types",
	"Unmarshal(truncated nested doc) into interface{}",
	"Valid(broken nested doc)",
	"Get(broken nested doc, path)",
	"ast.NewRaw(broken).Load / Interface",
	"StreamDecoder.Decode(broken nested doc)",
	"Unmarshal(truncated encoding/json output of catalogue values) into their types",
	"all of the above, round robin",
}

func floodOne(kind int, i int, r *rng.R) {
	doc := brokenDocs[(i+kind)%len(brokenDocs)]
	switch kind {
	case 0:
		var v deep1
		_ = sonic.UnmarshalString(doc, &v)
	case 1:
		var v interface{}
		_ = sonic.UnmarshalString(doc, &v)
	case 2:
		_ = sonic.ValidString(doc)
	case 3:
		_, _ = sonic.GetFromString(doc, "A", "B", "C", 5)
		_, _ = sonic.GetFromString(doc, 0, 0, 0, 0, "a", 3)
	case 4:
		n := ast.NewRaw(doc)
		_ = n.LoadAll()
		_, _ = n.Interface()
	case 5:
		var v interface{}
		_ = decoder.NewStreamDecoder(strings.NewReader(doc + doc)).Decode(&v)
	case 6:
		t := Catalogue[[]int{1, 2, 3, 4, 7, 9, 12}[i%7]].T
		d, err := json.Marshal(Value(t, uint64(i%13)).Elem().Interface())
		if err == nil && len(d) > 8 {
			cut := len(d)/2 + r.Intn(len(d)/2-1)
			_ = sonic.Unmarshal(d[:cut], reflect.New(t).Interface())
		}
	default:
		floodOne(i%7, i/7, r)
	}
}

// Flood issues n failing calls of the given kind, sequentially (g <= 1) or from g goroutines (n each).  The garbage
// collector is held off meanwhile so that sync.Pool keeps what the calls put back (GC tuning is not part of sonic's API).
func Flood(kind, n, g int, seed uint64) {
	old := debug.SetGCPercent(-1)
	defer debug.SetGCPercent(old)
	if g <= 1 {
		r := rng.New(seed)
		for i := 0; i < n; i++ {
			floodOne(kind, i, r)
		}
		return
	}
	var wg sync.WaitGroup
	for w := 0; w < g; w++ {
		wg.Add(1)
		go func(w int) {
			defer wg.Done()
			r := rng.New(seed + uint64(w))
			for i := 0; i < n; i++ {
				floodOne(kind, i+w, r)
			}
		}(w)
	}
	wg.Wait()
}

func errText(err error) string {
	if err == nil {
		return "ok"
	}
	return "err:" + reflect.TypeOf(err).String() + "=" + hex.EncodeToString([]byte(err.Error()))
}

// DepthProbe decodes a VALID document nested `depth` levels deep. shape 0: arrays into interface{}; 1: objects into
// interface{}; 2: objects holding arrays into the nested struct types; 3: [][]...[]int (typed, depth <= 8); 4: Valid; 5: Get
func DepthProbe(depth, shape int) string {
	if depth < 1 {
		depth = 1
	}
	var doc string
	switch shape {
	case 1:
		doc = strings.Repeat(`{"k":`, depth) + `"v"` + strings.Repeat(`}`, depth)
	case 2:
		doc = `{"A":{"B":{"C":[[1,2],[3]]}},"M":{"x":[{"C":[[` + strings.Repeat(`7,`, depth) + `8]]}]}}`
	default:
		doc = strings.Repeat(`[`, depth) + `1` + strings.Repeat(`]`, depth)
	}
	switch shape {
	case 2:
		var v deep1
		err := sonic.UnmarshalString(doc, &v)
		o, _ := json.Marshal(v)
		return errText(err) + ":" + hex.EncodeToString(o)
	case 3:
		// the JIT compile time of [][]...[]int doubles with every level (16 levels: > 60 s): keep the typed shape shallow
		if depth > 8 {
			depth = 8
			doc = strings.Repeat(`[`, depth) + `1` + strings.Repeat(`]`, depth)
		}
		t := reflect.TypeOf(0)
		for i := 0; i < depth; i++ {
			t = reflect.SliceOf(t)
		}
		p := reflect.New(t)
		err := sonic.UnmarshalString(doc, p.Interface())
		o, _ := json.Marshal(p.Interface())
		return errText(err) + ":" + hex.EncodeToString(o)
	case 4:
		return fmt.Sprint(sonic.ValidString(doc))
	case 5:
		path := make([]interface{}, depth)
		for i := range path {
			path[i] = 0
		}
		n, err := sonic.GetFromString(strings.Repeat(`[`, depth)+`1`+strings.Repeat(`]`, depth), path...)
		if err != nil {
			return errText(err)
		}
		raw, _ := n.Raw()
		return "ok:" + raw
	}
	var v interface{}
	err := sonic.UnmarshalString(doc, &v)
	o, _ := json.Marshal(v)
	if len(o) > 64 {
		o = append(o[:32], o[len(o)-32:]...)
	}
	return errText(err) + ":" + hex.EncodeToString(o)
}

var badUTF8 = []string{"x\xffy", "\xc0\xaf", "ok\xe2\x28\xa1end", "a\xf0\x28\x8c\xbcb\xffc\xfe", "\xed\xa0\x80", "plain ascii", "é\xffé\xffé\xffé\xffé\xffé\xff"}

// Utf8Probe: calls whose input really contains invalid UTF-8, under the ValidateString configuration (ConfigStd), and
// Valid on well-formed nested documents.  kind 0 Marshal(string) 1 Marshal(struct with strings) 2 Unmarshal into string
// 3 Unmarshal into interface{} 4 Valid(nested valid) 5 Valid(broken)
func Utf8Probe(kind int, seed uint64) string {
	s := badUTF8[int(seed)%len(badUTF8)]
	cfg := sonic.ConfigStd
	switch kind {
	case 0:
		b, err := cfg.Marshal(s)
		return errText(err) + ":" + hex.EncodeToString(b)
	case 1:
		b, err := cfg.Marshal(map[string]interface{}{"k" + s: []string{s, "t", s + s}})
		return errText(err) + ":" + hex.EncodeToString(b)
	case 2:
		var v string
		err := cfg.Unmarshal([]byte(`"`+s+`"`), &v)
		return errText(err) + ":" + hex.EncodeToString([]byte(v))
	case 3:
		var v interface{}
		err := cfg.Unmarshal([]byte(`{"a":["`+s+`",{"b":"`+s+`"}]}`), &v)
		o, _ := json.Marshal(v)
		return errText(err) + ":" + hex.EncodeToString(o)
	case 4:
		doc := append(bytes.Repeat([]byte(`[{"a":[1,{"b":[true,null,"x"]}]},`), 1+int(seed)%5), []byte(`0`+strings.Repeat(`]`, 1+int(seed)%5))...)
		return fmt.Sprint(sonic.Valid(doc), sonic.ValidString(`[[[[{"a":[[1,2,{"b":"c"}]]}]]]]`))
	default:
		return fmt.Sprint(sonic.ValidString(brokenDocs[int(seed)%len(brokenDocs)]))
	}
}
