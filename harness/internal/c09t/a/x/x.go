// Package x (under a/): one of two distinct packages that are both named "x" and both declare T and U.
// reflect.Type.String() of a/x.T and b/x.T is "x.T" for both - they print identically but are distinct types.
package x

type T struct {
	A int    `json:"a"`
	S string `json:"s"`
}

type U struct {
	K [3]int64 `json:"k"`
	T T        `json:"t"`
}
