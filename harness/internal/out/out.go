// Package out: result lines shared by all harness commands (one case per line, tab separated, hex payloads).
package out

import (
	"bufio"
	"encoding/hex"
	"fmt"
	"os"
)

type W struct {
	f *os.File
	w *bufio.Writer
}

func Create(path string) *W {
	f, err := os.Create(path)
	if err != nil {
		panic(err)
	}
	return &W{f: f, w: bufio.NewWriterSize(f, 1<<20)}
}

func (w *W) Line(fields ...string) {
	for i, s := range fields {
		if i > 0 {
			w.w.WriteByte('\t')
		}
		w.w.WriteString(s)
	}
	w.w.WriteByte('\n')
}

func (w *W) Close() { w.w.Flush(); w.f.Close() }

func Hex(b []byte) string {
	if len(b) == 0 {
		return "-"
	}
	return hex.EncodeToString(b)
}

func HexS(s string) string { return Hex([]byte(s)) }

func Itoa(i int) string { return fmt.Sprint(i) }
