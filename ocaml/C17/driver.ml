(* C17 driver.  One case per line (TAB separated):
   D id avx2 pcap fin ops chunks     chunks = c1;c2;... each  hex | hex!E | hex!<k>   ("-" = empty chunk, "" = no chunks)
                                     fin = E | <k> ; ops = string over d (Decode) m (More) b (Buffered)
     -> id <TAB> op results (space separated) <TAB> offered sizes of the Read calls <TAB> spec values|term
   E id out indent newline resps     out/indent = hex | "!" (absent) ; resps = k | k!<e> separated by ;
     -> id <TAB> result <TAB> delivered bytes (hex)
   S id avx2 hex                     raw skipper: -> id <TAB> ok:y:x | eof | inval *)
open Datatypes

let rec nat_of_int (i : int) : nat = if i <= 0 then O else S (nat_of_int (i - 1))
let int_of_nat (n : nat) : int = let rec go n a = match n with O -> a | S m -> go m (a + 1) in go n 0

let ioerr_of (s : string) : Dec.ioerr = if s = "E" then Dec.EOF else Dec.ErrR (nat_of_int (int_of_string s))
let ioerr_str (e : Dec.ioerr) = match e with Dec.EOF -> "eof" | Dec.ErrR k -> "r" ^ string_of_int (int_of_nat k)
let derr_str (e : Dec.derr) = match e with Dec.DIo e -> ioerr_str e | Dec.DSyntax -> "syn" | Dec.DUnexpEOF -> "ueof"

let parse_chunk (s : string) =
  match Stdlib.String.index_opt s '!' with
  | None -> (Conv.bytes_of_hex s, None)
  | Some i ->
    let h = Stdlib.String.sub s 0 i and e = Stdlib.String.sub s (i + 1) (Stdlib.String.length s - i - 1) in
    (Conv.bytes_of_hex h, Some (ioerr_of e))

let split c s = if s = "" then [] else Stdlib.String.split_on_char c s

let term_str (t : Spec.term) = match t with
  | Spec.TIo e -> ioerr_str e | Spec.TSyntax -> "syn" | Spec.TStuck -> "stuck" | Spec.TOther -> "other"

let dec_case id avx2 pcap fin ops chunks =
  let avx2 = (avx2 = "1") in
  let chunks = Stdlib.List.map parse_chunk (split ';' chunks) in
  let fin = ioerr_of fin in
  let rd = Spec.mk_reader chunks fin in
  let st = ref (Dec.new_decoder rd (nat_of_int (int_of_string pcap))) in
  let skip = Skip.skip_one_fast avx2 in
  let b = Stdlib.Buffer.create 256 in
  Stdlib.String.iteri (fun i op ->
    if i > 0 then Stdlib.Buffer.add_char b ' ';
    (match op with
     | 'd' ->
       let (r, st1) = Dec.coq_Decode skip Json1.inner_decode !st in
       st := st1;
       Stdlib.Buffer.add_string b (match r with
         | Dec.RVal v -> "V:" ^ Conv.hex_of_bytes v
         | Dec.RNil -> "N"
         | Dec.RErr e -> "E:" ^ derr_str e
         | Dec.RPanic -> "P"
         | Dec.RFuel -> "F")
     | 'm' ->
       let (r, st1) = Dec.coq_More !st in
       st := st1;
       Stdlib.Buffer.add_string b (match r with Dec.MTrue -> "M1" | Dec.MFalse -> "M0" | Dec.MFuel -> "F")
     | 'b' ->
       Stdlib.Buffer.add_string b (match Dec.coq_Buffered !st with
         | Some l -> "B:" ^ Conv.hex_of_bytes l | None -> "BP")
     | _ -> Stdlib.Buffer.add_string b "?");
    Stdlib.Buffer.add_string b ("@" ^ string_of_int (int_of_nat (Dec.coq_InputOffset !st)))) ops;
  let log = Stdlib.List.rev_map (fun n -> string_of_int (int_of_nat n)) (!st).Dec.rd.Dec.rlog in
  let stream = Stdlib.List.concat_map fst chunks in
  let (vs, t) = Spec.stream_values stream fin in
  (* the guard of C17_stream_chunk_independent_partial, evaluated on this stream *)
  let guard = match DecProofs.good_values avx2 fin (S (Stdlib.List.fold_left (fun n _ -> S n) O stream)) stream with
    | Some _ -> "G1" | None -> "G0" in
  Stdlib.Printf.printf "%s\t%s\t%s\t%s|%s\t%s\n" id (Stdlib.Buffer.contents b) (Stdlib.String.concat "," log)
    (Stdlib.String.concat "," (Stdlib.List.map Conv.hex_of_bytes vs)) (term_str t) guard

let enc_case id out indent newline resps =
  let opt s = if s = "!" then None else Some (Conv.bytes_of_hex s) in
  let resp s = match Stdlib.String.index_opt s '!' with
    | None -> (nat_of_int (int_of_string s), None)
    | Some i ->
      let k = Stdlib.String.sub s 0 i and e = Stdlib.String.sub s (i + 1) (Stdlib.String.length s - i - 1) in
      (nat_of_int (int_of_string k), Some (Enc.WErr (nat_of_int (int_of_string e)))) in
  let w = { Enc.wresp = Stdlib.List.map resp (split ';' resps); Enc.wgot = [] } in
  let (r, w1) = Enc.coq_Encode (opt out) (opt indent) (newline = "1") w in
  let rs = match r with
    | Enc.ENil -> "nil" | Enc.EErr (Enc.WErr k) -> "w" ^ string_of_int (int_of_nat k)
    | Enc.EErr Enc.ErrShortWrite -> "short" | Enc.EMarshalErr -> "marshal" | Enc.EFuel -> "F" in
  Stdlib.Printf.printf "%s\t%s\t%s\n" id rs (Conv.hex_of_bytes w1.Enc.wgot)

let skip_case id avx2 hex =
  let r = Skip.skip_one_fast (avx2 = "1") (Conv.bytes_of_hex hex) in
  Stdlib.Printf.printf "%s\t%s\n" id (match r with
    | Skip.SkOk (y, x) -> Stdlib.Printf.sprintf "ok:%d:%d" (int_of_nat y) (int_of_nat x)
    | Skip.SkEof -> "eof" | Skip.SkInval -> "inval")

let () =
  Conv.iter_lines (fun line ->
    match Conv.split_tab line with
    | ["D"; id; avx2; pcap; fin; ops; chunks] -> dec_case id avx2 pcap fin ops chunks
    | ["E"; id; out; indent; newline; resps] -> enc_case id out indent newline resps
    | ["S"; id; avx2; hex] -> skip_case id avx2 hex
    | _ -> Stdlib.Printf.printf "?\tbad case line\n")
