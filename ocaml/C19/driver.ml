(* C19 model driver.  One case per line: <id> TAB <kind> TAB args...   ->   <id> TAB result
   Numbers travel as decimal strings (they exceed OCaml's int), byte strings as hex ("-" = empty). *)
open BinNums

let z = Convz.z_of_string
let zs = Convz.string_of_z
let nat_of_int (i : int) : Datatypes.nat =
  let rec go i acc = if i <= 0 then acc else go (i - 1) (Datatypes.S acc) in go i Datatypes.O
let rec int_of_nat (n : Datatypes.nat) : int = match n with Datatypes.O -> 0 | Datatypes.S k -> 1 + int_of_nat k
let hex_of_z_bits (b : coq_Z) : string = zs b

let opt f = function None -> "err" | Some v -> "ok " ^ f v
let bres = function FloatCheck.BBits b -> "ok " ^ zs b | FloatCheck.BInf -> "inf" | FloatCheck.BBad -> "?selfcheck-failed"

let run (fields : string list) : string =
  match fields with
  | ["vs"; s; oob; p] ->
      let r = IntParse.vsigned (Conv.bytes_of_hex s) (Conv.n_of_int (int_of_string oob)) (nat_of_int (int_of_string p)) in
      Stdlib.Printf.sprintf "%s %d %s" (zs r.IntParse.v_vt) (int_of_nat r.IntParse.v_p) (zs r.IntParse.v_iv)
  | ["vu"; s; oob; p] ->
      let r = IntParse.vunsigned (Conv.bytes_of_hex s) (Conv.n_of_int (int_of_string oob)) (nat_of_int (int_of_string p)) in
      Stdlib.Printf.sprintf "%s %d %s" (zs r.IntParse.v_vt) (int_of_nat r.IntParse.v_p) (zs r.IntParse.v_iv)
  | ["vn"; s; oob; p] ->
      let r = VNumber.vnumber (Conv.bytes_of_hex s) (Conv.n_of_int (int_of_string oob)) (nat_of_int (int_of_string p)) in
      Stdlib.Printf.sprintf "%s %d %s %s" (zs r.VNumber.n_vt) (int_of_nat r.VNumber.n_p) (zs r.VNumber.n_iv) (zs r.VNumber.n_dv)
  | ["sn"; s; p] ->
      let (ret, np) = NumGrammar.skip_number (Conv.bytes_of_hex s) (nat_of_int (int_of_string p)) in
      let ret = Convz.int_of_z ret in
      if ret < 0 then Stdlib.Printf.sprintf "%d" ret else Stdlib.Printf.sprintf "%d %s" ret (zs np)
  | ["ivn"; s] -> if NumGrammar.is_valid_number (Conv.bytes_of_hex s) then "1" else "0"
  | ["i64"; v] -> Conv.hex_of_bytes (IntPrint.i64toa (z v))
  | ["u64"; v] -> Conv.hex_of_bytes (IntPrint.u64toa (z v))
  | ["f64"; bits; text] -> zs (Api.f64_text_check (z bits) (Conv.bytes_of_hex text))
  | ["f32"; bits; text] -> zs (Api.f32_text_check (z bits) (Conv.bytes_of_hex text))
  | ["ui"; w; s] -> opt zs (Api.unmarshal_signed (z w) (Conv.bytes_of_hex s))
  | ["uu"; w; s] -> opt zs (Api.unmarshal_unsigned (z w) (Conv.bytes_of_hex s))
  | ["uf64"; s] -> opt zs (Api.unmarshal_f64 (Conv.bytes_of_hex s))
  | ["uf32"; s] -> opt zs (Api.unmarshal_f32 (Conv.bytes_of_hex s))
  | ["nb64"; s] -> bres (FloatCheck.nearest_bits FloatCheck.f64 (Conv.bytes_of_hex s))
  | ["nb32"; s] -> bres (FloatCheck.nearest_bits FloatCheck.f32 (Conv.bytes_of_hex s))
  | ["cls32"; s] -> if Api.single_double_rounding_differs (Conv.bytes_of_hex s) then "dr" else "same"
  | _ -> "?unknown-case"

let () =
  Conv.iter_lines (fun line ->
    match Conv.split_tab line with
    | id :: rest -> Stdlib.Printf.printf "%s\t%s\n" id (try run rest with e -> "?exn " ^ Stdlib.Printexc.to_string e)
    | [] -> ())
