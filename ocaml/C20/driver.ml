(* C20 model driver.  One case per line (TAB separated, byte strings in hex, "-" = empty):
     Q   <ws> <flags> <dn> <src>            -> <ret> <out>                 native quote
     GQ  <ws> <double> <cap> <buf> <src>    -> <out> | NONE                alg.Quote (exact growth)
     U   <flags> <src>                      -> ok <out> | err <code> <ep>  native unquote
     GU  <replace> <src>                    -> ok <out> | err <code>       unquote.intoBytesUnsafe
     H   <ws> <dn> <src>                    -> <ret> <dn'> <out>           native html_escape
     GH  <ws> <cap> <dst> <src>             -> ok <out> | panic | fuel     alg.HtmlEscape
     V   <src>                              -> <ret>                       validate_utf8_fast
     VE  <msize> <p> <src>                  -> <ret> <p'> <positions>      validate_utf8
     CW  <msize> <dst> <repl> <src>         -> <out> | NONE                utf8.CorrectWith
     GV  <src>                              -> true|false                  utf8.Validate
     AQ  <buf> <src>                        -> <out>                       ast.quoteString
     JS  <unicode_errors> <body>            -> ok <out> | err              jitdec `,string` string field (body between the outer quotes)
     VA  <src>                              -> true|false <ret>            AVX2 build: lookup pre-check verdict, validate_utf8_fast result
     RW  <src>                              -> true|false <first bad | ->  reference well-formedness (spec)
     RR  <repl> <src>                       -> <out>                       reference replacement (spec)
   <ws>: a = AVX2 block widths [32;16], s = SSE [16], 0 = scalar []                                  *)
open BinNums

let nat_of_int (i : int) : Datatypes.nat =
  let rec go i acc = if i <= 0 then acc else go (i - 1) (Datatypes.S acc) in go i Datatypes.O
let rec int_of_nat (n : Datatypes.nat) : int =
  let rec go n acc = match n with Datatypes.O -> acc | Datatypes.S m -> go m (acc + 1) in go n 0

let int_of_z (z : coq_Z) : int =
  match z with Z0 -> 0 | Zpos p -> Conv.int_of_pos p | Zneg p -> - (Conv.int_of_pos p)

let ws_of = function
  | "a" -> Common.ws_avx2
  | "s" -> Common.ws_sse
  | _ -> []

let hx = Conv.hex_of_bytes
let bx = Conv.bytes_of_hex
let pr = Stdlib.Printf.printf
let ios = int_of_string

let () =
  Conv.iter_lines (fun line ->
    match Conv.split_tab line with
    | ["Q"; ws; flags; dn; src] ->
      let (ret, out) = Quote.quote (ws_of ws) (Conv.n_of_int (ios flags)) (bx src) (nat_of_int (ios dn)) in
      pr "%d\t%s\n" (int_of_z ret) (hx out)
    | ["GQ"; ws; dbl; cap; buf; src] ->
      (match Quote.go_quote Quote.grow_exact (ws_of ws) (bx buf) (nat_of_int (ios cap)) (bx src) (dbl = "1") with
       | Some o -> pr "%s\n" (hx o)
       | None -> pr "NONE\n")
    | ["U"; flags; src] ->
      (match Unquote.unquote (Conv.n_of_int (ios flags)) (bx src) with
       | Unquote.UOk o -> pr "ok\t%s\n" (hx o)
       | Unquote.UErr (code, ep) -> pr "err\t%d\t%d\n" (Conv.int_of_n code) (int_of_z ep))
    | ["GU"; rep; src] ->
      (match Unquote.go_into_bytes (bx src) (rep = "1") with
       | Datatypes.Coq_inl o -> pr "ok\t%s\n" (hx o)
       | Datatypes.Coq_inr code -> pr "err\t%d\n" (Conv.int_of_n code))
    | ["H"; ws; dn; src] ->
      let ((ret, dn'), out) = HtmlEsc.html_escape (ws_of ws) (bx src) (nat_of_int (ios dn)) in
      pr "%d\t%d\t%s\n" (int_of_z ret) (int_of_nat dn') (hx out)
    | ["GH"; ws; cap; dst; src] ->
      (match HtmlEsc.go_html_escape Quote.grow_exact (ws_of ws) (bx dst) (nat_of_int (ios cap)) (bx src) with
       | HtmlEsc.GoOk o -> pr "ok\t%s\n" (hx o)
       | HtmlEsc.GoPanic -> pr "panic\n"
       | HtmlEsc.GoFuel -> pr "fuel\n")
    | ["V"; src] -> pr "%d\n" (int_of_z (Utf8.validate_utf8_fast (bx src)))
    | ["VE"; msize; p; src] ->
      let ((ret, p'), vt) = Utf8.validate_utf8 (nat_of_int (ios msize)) (bx src) (nat_of_int (ios p)) in
      pr "%d\t%d\t%s\n" (int_of_z ret) (int_of_nat p')
        (if vt = [] then "-" else Stdlib.String.concat "," (Stdlib.List.map (fun n -> string_of_int (int_of_nat n)) vt))
    | ["CW"; msize; dst; repl; src] ->
      (match Utf8.correct_with_msize (nat_of_int (ios msize)) (bx dst) (bx src) (bx repl) with
       | Some o -> pr "%s\n" (hx o)
       | None -> pr "NONE\n")
    | ["GV"; src] -> pr "%b\n" (Utf8.go_validate (bx src))
    | ["AQ"; buf; src] -> pr "%s\n" (hx (AstQuote.quote_string (bx buf) (bx src)))
    | ["JS"; ue; body] ->
      (match JitString.jit_unquote_twice (ue = "1") (bx body) with
       | Some o -> pr "ok\t%s\n" (hx o)
       | None -> pr "err\n")
    | ["VA"; src] ->
      let s = bx src in
      pr "%b\t%d\n" (match s with [] -> true | _ -> Utf8Simd.validate_utf8_avx2 s) (int_of_z (match s with [] -> Z0 | _ -> Utf8Simd.validate_utf8_fast_avx2 s))
    | ["RW"; src] ->
      let s = bx src in
      pr "%b\t%s\n" (RefUtf8.wf s)
        (match RefUtf8.first_bad s with Some n -> string_of_int (int_of_nat n) | None -> "-")
    | ["RR"; repl; src] -> pr "%s\n" (hx (RefUtf8.replace_invalid (bx repl) (bx src)))
    | _ -> pr "BADCASE\t%s\n" line)
