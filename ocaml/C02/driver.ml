(* C02 model driver.  One case per line: "<id>\t<hex>".  One result line per case:
   "<id>\tvo=<r>\tvalid=<0|1|U>\twk=<r>\twi=<r>"   with <r> = ok:<start>:<end> | err:<code> | undef
   vo  validate_one / skip_one on the document
   wk  skip_one on doc ++ "}"  inside a buffer of length len+6   (Get(`{"k":`+doc+`}`, "k"))
   wi  skip_one on doc ++ "]"  inside a buffer of length len+4   (Get(`[0,`+doc+`]`, 1))
   v5  validate_one / skip_one with flags = MASK_VALIDATE_STRING
   fo  skip_one_fast on the document                                                                *)
open Datatypes

let nat_of_int (n : int) : nat =
  let r = ref O in
  for _ = 1 to n do r := S !r done; !r

let len = Stdlib.List.length

let show total r =
  match r with
  | Fsm.Ok (v, rest) -> Stdlib.Printf.sprintf "ok:%d:%d" (total - len v) (total - len rest)
  | Fsm.Err Fsm.ERR_EOF -> "err:1"
  | Fsm.Err Fsm.ERR_INVAL -> "err:2"
  | Fsm.Err Fsm.ERR_RECURSE_MAX -> "err:7"
  | Fsm.Undef -> "undef"

let () =
  Conv.iter_lines (fun line ->
    let fields = match Conv.split_tab line with
      | [id; _kind; hex] -> Some (id, hex)      (* case file of the harness: id, kind, hex *)
      | id :: hex :: _ -> Some (id, hex)
      | _ -> None in
    match fields with
    | Some (id, hex) ->
      let s = Conv.bytes_of_hex hex in
      let n = len s in
      let r = Fsm.validate_one s in
      let vo = show n r in
      let valid = match Fsm.coq_Valid_post s r with Fsm.Ok true -> "1" | Fsm.Ok false -> "0" | Fsm.Undef -> "U" | Fsm.Err _ -> "E" in
      let wk = show (n + 1) (Fsm.skip_one_at (nat_of_int (n + 6)) (s @ [Conv.n_of_int 125])) in
      let wi = show (n + 1) (Fsm.skip_one_at (nat_of_int (n + 4)) (s @ [Conv.n_of_int 93])) in
      let fo = show n (Fast.skip_one_fast_1 s) in
      let v5 = show n (Fsm.skip_one_vs s) in
      Stdlib.Printf.printf "%s\tvo=%s\tvalid=%s\twk=%s\twi=%s\tfo=%s\tv5=%s\n" id vo valid wk wi fo v5
    | None -> ())
