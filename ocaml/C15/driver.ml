(* C15 driver: replays the harness' cases on the extracted model (Node.run_op) and on the extracted
   plain-tree specification (Tree.spec_op).
   in : id TAB rootrepr TAB tree TAB keys TAB ops [TAB texthex]
   out: "M" TAB id TAB step|step...   step = obs~dump~flags     (model)
        "S" TAB id TAB step|step...   step = obs~abs            (specification)
   dumps / trees are hashed unless the first program argument is "full". *)
open BinNums
open Datatypes
open Tree
open Node

let full = Stdlib.Array.length Sys.argv > 1 && Sys.argv.(1) = "full"

let rec int_of_nat n = match n with O -> 0 | S m -> 1 + int_of_nat m
let rec nat_of_int i = if i <= 0 then O else S (nat_of_int (i - 1))

let hexc = "0123456789abcdef"
let hex_of (l : coq_N list) : string =
  let b = Stdlib.Buffer.create 16 in
  Stdlib.List.iter (fun x -> let v = Conv.int_of_n x in
    Stdlib.Buffer.add_char b hexc.[(v lsr 4) land 15]; Stdlib.Buffer.add_char b hexc.[v land 15]) l;
  Stdlib.Buffer.contents b

let hash2 (s : string) : string =
  let a = ref 7 and b = ref 11 in
  Stdlib.String.iter (fun c ->
    a := (!a * 257 + Stdlib.Char.code c) mod 2147483629;
    b := (!b * 263 + Stdlib.Char.code c) mod 2147483587) s;
  Stdlib.Printf.sprintf "h%x.%x" !a !b

let tr s = if full then s else hash2 s

(* ---- canonical trees ---- *)
let is_hex c = (c >= '0' && c <= '9') || (c >= 'a' && c <= 'f')

let parse_hex (s : string) (p : int ref) : coq_N list =
  let st = !p in
  while !p < Stdlib.String.length s && is_hex s.[!p] do incr p done;
  Conv.bytes_of_hex (if !p = st then "-" else Stdlib.String.sub s st (!p - st))

let rec parse_tree (s : string) (p : int ref) : tree =
  let k = s.[!p] in
  incr p;
  match k with
  | 'Z' -> TNull | 'T' -> TTrue | 'F' -> TFalse
  | 'N' -> TNum (parse_hex s p)
  | 'S' -> TStr (parse_hex s p)
  | '[' ->
    if s.[!p] = ']' then (incr p; TArr [])
    else begin
      let acc = ref [] in
      let fin = ref false in
      while not !fin do
        acc := parse_tree s p :: !acc;
        let d = s.[!p] in incr p;
        if d = ']' then fin := true
      done;
      TArr (Stdlib.List.rev !acc)
    end
  | '{' ->
    if s.[!p] = '}' then (incr p; TObj [])
    else begin
      let acc = ref [] in
      let fin = ref false in
      while not !fin do
        let key = parse_hex s p in
        incr p;
        let v = parse_tree s p in
        acc := (key, v) :: !acc;
        let d = s.[!p] in incr p;
        if d = '}' then fin := true
      done;
      TObj (Stdlib.List.rev !acc)
    end
  | _ -> failwith ("bad tree tag in " ^ s)

let tree_of_string s = parse_tree s (ref 0)

let rec pr_tree b (t : tree) =
  let add = Stdlib.Buffer.add_string b in
  match t with
  | TNull -> add "Z" | TTrue -> add "T" | TFalse -> add "F"
  | TNum s -> add "N"; add (hex_of s)
  | TStr s -> add "S"; add (hex_of s)
  | TArr l -> add "["; Stdlib.List.iteri (fun i c -> if i > 0 then add ","; pr_tree b c) l; add "]"
  | TObj l -> add "{"; Stdlib.List.iteri (fun i (k, c) -> if i > 0 then add ","; add (hex_of k); add ":"; pr_tree b c) l; add "}"

let string_of_tree t = let b = Stdlib.Buffer.create 256 in pr_tree b t; Stdlib.Buffer.contents b

(* ---- the hash parameter: an injective numbering of the keys that occur (never 0, like caching.StrHash) ---- *)
let intern : (string, int) Stdlib.Hashtbl.t = Stdlib.Hashtbl.create 64
let hash (k : coq_N list) : coq_N =
  let s = hex_of k in
  match Stdlib.Hashtbl.find_opt intern s with
  | Some i -> Conv.n_of_int i
  | None -> let i = Stdlib.Hashtbl.length intern + 1 in Stdlib.Hashtbl.add intern s i; Conv.n_of_int i

(* ---- observations ---- *)
let err_s = function EOk -> "ok" | ENotFound -> "nf" | EUnsupp -> "un" | EPanic -> "pa" | EOther -> "ot"
let b2s b = if b then "1" else "0"
let opt_tree = function Some t -> tr (string_of_tree t) | None -> "-"

let obs_s (o : obs) : string =
  match o with
  | OErr e -> "E:" ^ err_s e
  | OBoolErr (b, e) -> "B:" ^ b2s b ^ ":" ^ err_s e
  | OIntErr (n, e) -> "I:" ^ string_of_int (int_of_nat n) ^ ":" ^ err_s e
  | OLook (ex, va, e, ty, v) -> "K:" ^ b2s ex ^ b2s va ^ ":" ^ err_s e ^ ":" ^ string_of_int (int_of_nat ty) ^ ":" ^ opt_tree v
  | OEvents (l, e) ->
    "V:" ^ err_s e ^ ":" ^
    Stdlib.String.concat "+" (Stdlib.List.map (fun ((i, k), t) ->
      (match i with Some n -> string_of_int (int_of_nat n) | None -> "-") ^ "/" ^
      (match k with Some k -> "k" ^ hex_of k | None -> "-") ^ "/" ^ tr (string_of_tree t)) l)
  | OVal (v, e) -> "M:" ^ err_s e ^ ":" ^ opt_tree v

(* ---- dump of the model state (same text as ast.VerifDump) ---- *)
let keys : coq_N list list ref = ref []

let slots (v : 'a Linked.linked) : 'a option list =
  Stdlib.List.init (int_of_nat v.Linked.size) (fun i -> Linked.coq_At v (nat_of_int i))

let rec dump b (n : node) =
  let add = Stdlib.Buffer.add_string b in
  let num x = add (string_of_int (int_of_nat x)) in
  let dl (v : node Linked.linked) =
    add "<"; num v.Linked.size; add "/"; add (string_of_int (Stdlib.List.length v.Linked.tail));
    Stdlib.List.iter (fun c -> add ";"; match c with Some c -> dump b c | None -> add "nil") (slots v);
    add ">" in
  let dp (v : node lpairs) =
    add (match v.index with Some _ -> "<i" | None -> "<n");
    num v.pv.Linked.size; add "/"; add (string_of_int (Stdlib.List.length v.pv.Linked.tail));
    Stdlib.List.iter (fun c -> add ";";
      match c with Some ((_, k), c) -> add (hex_of k); add "="; dump b c | None -> add "nil") (slots v.pv);
    (match v.index with
     | Some _ ->
       add "!";
       Stdlib.List.iteri (fun i k -> if i > 0 then add ",";
         match coq_P_Get hash v k with
         | GFound j -> num j | GMissing -> add "-" | GPanic -> add "p") !keys
     | None -> ());
    add ">" in
  match n with
  | NNone -> add "_"
  | NError c -> add "E"; add (string_of_int (Conv.int_of_n c))
  | NRaw (lock, t) -> add (if lock then "R1(" else "R0("); pr_tree b t; add ")"
  | NNull -> add "Z" | NTrue -> add "T" | NFalse -> add "F"
  | NNumber s -> add "#"; add (hex_of s)
  | NString s -> add "$"; add (hex_of s)
  | NArrayLazy (l, v, rest) ->
    add "LA"; num l; dl v; add "(";
    Stdlib.List.iteri (fun i t -> if i > 0 then add ","; pr_tree b t) rest; add ")"
  | NObjectLazy (l, v, rest) ->
    add "LO"; num l; dp v; add "(";
    Stdlib.List.iteri (fun i (k, t) -> if i > 0 then add ","; add (hex_of k); add ":"; pr_tree b t) rest; add ")"
  | NArray (l, None) -> add "A"; num l; add "nil"
  | NArray (l, Some v) -> add "A"; num l; dl v
  | NObject (l, None) -> add "O"; num l; add "nil"
  | NObject (l, Some v) -> add "O"; num l; dp v

let dump_s n = let b = Stdlib.Buffer.create 1024 in dump b n; Stdlib.Buffer.contents b

(* ---- classifier flags computed on the model state ----
   D : some key index disagrees with a live pair (index[hash key_j] <> j): the duplicate-key defect
   P : some key index entry points beyond size: a later Get on that key dereferences nil
   U : some object has a soft-deleted cell (its Key is "" and shadows a real "" key in linear search)
   H : some array has a soft-deleted cell
   I : some object carries a key index;  then "." and the representation of the root (r raw, l lazy, a loaded, s other) *)
let rec flags_of (n : node) (acc : bool array) =
  let pairs (v : node lpairs) =
    let sl = slots v.pv in
    if v.index <> None then acc.(4) <- true;
    Stdlib.List.iteri (fun j c ->
      match c with
      | Some ((_, k), c) ->
        if exists_ c then begin
          (match v.index with
           | Some m -> (match idx_get m (hash k) with
                        | Some i when int_of_nat i = j -> ()
                        | _ -> acc.(0) <- true)
           | None -> ());
          flags_of c acc
        end else acc.(2) <- true
      | None -> ()) sl;
    (match v.index with
     | Some m -> Stdlib.List.iter (fun (_, i) -> if int_of_nat i >= int_of_nat v.pv.Linked.size then acc.(1) <- true) m
     | None -> ()) in
  let nodes (v : node Linked.linked) =
    Stdlib.List.iter (fun c -> match c with
      | Some c -> if exists_ c then flags_of c acc else acc.(3) <- true
      | None -> ()) (slots v) in
  match n with
  | NArrayLazy (_, v, _) -> nodes v
  | NArray (_, Some v) -> nodes v
  | NObjectLazy (_, v, _) -> pairs v
  | NObject (_, Some v) -> pairs v
  | _ -> ()

(* the node addressed by a path in a state where the path has just been walked (no further loading happens) *)
let rec locate (n : node) (p : sel list) : node option =
  match p with
  | [] -> Some n
  | s :: p' ->
    (match get_child hash n s with
     | (LSlot i, n1) -> (match child_at n1 i with Some c -> locate c p' | None -> None)
     | _ -> None)

let flags_s (n : node) (step : (sel list * op) option) : string =
  let acc = Stdlib.Array.make 5 false in
  flags_of n acc;
  let lazy_len =
    match step with
    | Some (p, OpLen) ->
      (match locate n p with Some (NArrayLazy _) | Some (NObjectLazy _) -> true | _ -> false)
    | _ -> false in
  (if acc.(0) then "D" else "") ^ (if acc.(1) then "P" else "") ^ (if acc.(2) then "U" else "") ^
  (if acc.(3) then "H" else "") ^ (if acc.(4) then "I" else "") ^ (if lazy_len then "L" else "") ^ "." ^
  (match n with NRaw _ -> "r" | NArrayLazy _ | NObjectLazy _ -> "l" | NArray _ | NObject _ -> "a" | _ -> "s")

(* ---- case parsing ---- *)
let repr_of c = match c with 'R' -> RRaw | 'K' -> RRawLocked | 'L' -> RLazy | _ -> RFull

let parse_sel (s : string) : sel =
  if s.[0] = 'k' then SKey (Conv.bytes_of_hex (if Stdlib.String.length s = 1 then "-" else Stdlib.String.sub s 1 (Stdlib.String.length s - 1)))
  else SIdx (nat_of_int (int_of_string (Stdlib.String.sub s 1 (Stdlib.String.length s - 1))))

let key_of s = match parse_sel s with SKey k -> k | _ -> []

let parse_val (s : string) : value = (repr_of s.[0], tree_of_string (Stdlib.String.sub s 2 (Stdlib.String.length s - 2)))

let parse_op (s : string) : sel list * op =
  let f = Stdlib.Array.of_list (Stdlib.String.split_on_char ' ' s) in
  let path = if f.(0) = "." then [] else Stdlib.List.map parse_sel (Stdlib.String.split_on_char '/' f.(0)) in
  let nat i = nat_of_int (int_of_string f.(i)) in
  let o = match f.(1) with
    | "LOOK" -> OpLook | "LEN" -> OpLen
    | "SET" -> OpSet (key_of f.(2), parse_val f.(3))
    | "SETIDX" -> OpSetIdx (nat 2, parse_val f.(3))
    | "ADD" -> OpAdd (parse_val f.(2))
    | "UNSET" -> OpUnset (key_of f.(2))
    | "UNSETIDX" -> OpUnsetIdx (nat 2)
    | "POP" -> OpPop
    | "MOVE" -> OpMove (nat 2, nat 3)
    | "SORT" -> OpSort (f.(2) <> "0")
    | "LOAD" -> OpLoad
    | "FOREACH" -> OpForEach (nat 2)
    | "MARSHAL" -> OpMarshal
    | "IFACE" -> OpIface
    | x -> failwith ("unknown op " ^ x) in
  (path, o)

let () =
  Conv.iter_lines (fun line ->
    if line <> "" && line.[0] <> '#' then begin
      let f = Stdlib.Array.of_list (Stdlib.String.split_on_char '\t' line) in
      let id = f.(0) in
      let doc = tree_of_string f.(2) in
      Stdlib.Hashtbl.reset intern;
      keys := (if f.(3) = "" then [] else Stdlib.List.map key_of (Stdlib.String.split_on_char ',' f.(3)));
      let ops = if f.(4) = "" then [] else Stdlib.List.map parse_op (Stdlib.String.split_on_char ';' f.(4)) in
      (* model *)
      let n = ref (mk_value hash (repr_of f.(1).[0], doc)) in
      let out = ref [ "init~" ^ tr (dump_s !n) ^ "~" ^ flags_s !n None ] in
      Stdlib.List.iter (fun (p, o) ->
        let (ob, n') = run_op hash p o !n in
        n := n';
        out := (obs_s ob ^ "~" ^ tr (dump_s n') ^ "~" ^ flags_s n' (Some (p, o))) :: !out) ops;
      Stdlib.Printf.printf "M\t%s\t%s\n" id (Stdlib.String.concat "|" (Stdlib.List.rev !out));
      (* specification *)
      let t = ref doc in
      let out = ref [ "init~" ^ tr (string_of_tree !t) ] in
      Stdlib.List.iter (fun (p, o) ->
        let (ob, t') = spec_op p o !t in
        t := t';
        out := (obs_s ob ^ "~" ^ tr (string_of_tree t')) :: !out) ops;
      Stdlib.Printf.printf "S\t%s\t%s\n" id (Stdlib.String.concat "|" (Stdlib.List.rev !out))
    end)
