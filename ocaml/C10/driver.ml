(* C10 model driver.
     pc <pcs,> <vals,> <targets,>  ->  pc <hex of MarshalBinary> <pcvalue at each target | none> <wf 0|1> <lookup at each target | none>
     sm <bits 0/1 | ->             ->  sm <bitmaps> <bits> <hex bytes> <bits read back>                                   *)
let rec int_of_nat (n : Datatypes.nat) : int =
  let rec go n acc = match n with Datatypes.O -> acc | Datatypes.S m -> go m (acc + 1) in go n 0
let nat_of_int (i : int) : Datatypes.nat =
  let rec go i acc = if i <= 0 then acc else go (i - 1) (Datatypes.S acc) in go i Datatypes.O

let split_commas s = if s = "" || s = "-" then [] else Stdlib.String.split_on_char ',' s

let show_opt o = match o with None -> "none" | Some z -> Convz.string_of_z z

let () =
  Conv.iter_lines (fun line ->
    match Conv.split_tab line with
    | ["pc"; pcs; vals; tgs] ->
        let ps = Stdlib.List.map (fun s -> Conv.n_of_int (int_of_string s)) (split_commas pcs) in
        let vs = Stdlib.List.map (fun s -> Convz.z_of_int (int_of_string s)) (split_commas vals) in
        let tab = Stdlib.List.combine ps vs in
        let ts = Stdlib.List.map (fun s -> Conv.n_of_int (int_of_string s)) (split_commas tgs) in
        let bytes = Pcdata.marshal_binary tab in
        let pv = Stdlib.List.map (fun t -> show_opt (Pcdata.pcvalue bytes t)) ts in
        let lk = Stdlib.List.map (fun t -> show_opt (Pcdata.lookup tab t)) ts in
        Stdlib.Printf.printf "pc\t%s\t%s\t%d\t%s\n" (Conv.hex_of_bytes bytes) (Stdlib.String.concat "," pv)
          (if Pcdata.wf_check tab then 1 else 0) (Stdlib.String.concat "," lk)
    | ["sm"; bits] ->
        let l = if bits = "-" then [] else Stdlib.List.init (Stdlib.String.length bits) (fun i -> bits.[i] = '1') in
        let ((n, len), bytes) = StackMap.build l in
        let back = Stdlib.String.concat "" (Stdlib.List.mapi (fun i _ -> if StackMap.bit bytes (nat_of_int i) then "1" else "0") l) in
        Stdlib.Printf.printf "sm\t%d\t%d\t%s\t%s\n" (int_of_nat n) (int_of_nat len) (Conv.hex_of_bytes bytes) (if back = "" then "-" else back)
    | "fn" :: rest ->
        (* fn <hex name,hex name,...>  ->  fn <hex of the name table> <offsets> *)
        let names = match rest with [] | [""] -> [] | [l] -> Stdlib.List.map Conv.bytes_of_hex (Stdlib.String.split_on_char ',' l) | _ -> [] in
        let (tab, offs) = FuncName.make_funcname_tab names in
        Stdlib.Printf.printf "fn\t%s\t%s\n" (Conv.hex_of_bytes tab)
          (Stdlib.String.concat "," (Stdlib.List.map (fun o -> string_of_int (int_of_nat o)) offs))
    | _ -> Stdlib.Printf.printf "bad\t%s\n" line)
