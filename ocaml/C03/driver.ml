(* C03 / C12 / C04 model driver.
   stdin, one request per line (TAB separated):
     D <id> <meths> <flags> <size> <body>            named type definition (environment), no output
     P <case> <pv> <inline> <omitnull> <type>        -> P <case> <pv> ok <instr>;<instr>;...   |  P <case> <pv> err <class>
     E <case> <prims> <flags> <type> <value>         -> E <case> <prims> <flags> ok <hex> <cs> | err <class> <cs> | crash <n> <cs>
     S <case> <type> <value>                         -> S <case> ok <hex> | err <class>        (std_marshal, if linked)
   <cs> is 1 when some type was requested from the program cache with both pv values and the two programs differ
   (the run depends on the cache being keyed by type only - known defect shared with C09). *)
open BinNums
open Datatypes
open Ty
open Val
open IR

let rec nat_of_int i = if i <= 0 then O else S (nat_of_int (i - 1))
let rec int_of_nat n = match n with O -> 0 | S m -> 1 + int_of_nat m
let int_of_nat n = let rec go n acc = match n with O -> acc | S m -> go m (acc + 1) in go n 0

(* ---------------------------------------------------------------- S-expressions *)
type sx = A of string | L of sx list

let parse_sx (s : string) : sx =
  let n = Stdlib.String.length s in
  let pos = ref 0 in
  let rec skip () = if !pos < n && s.[!pos] = ' ' then (incr pos; skip ()) in
  let rec item () =
    skip ();
    if !pos >= n then failwith "sexp: eof"
    else if s.[!pos] = '(' then begin
      incr pos;
      let acc = ref [] in
      let fin = ref false in
      while not !fin do
        skip ();
        if !pos >= n then failwith "sexp: unclosed"
        else if s.[!pos] = ')' then (incr pos; fin := true)
        else acc := item () :: !acc
      done;
      L (Stdlib.List.rev !acc)
    end else begin
      let st = !pos in
      while !pos < n && s.[!pos] <> ' ' && s.[!pos] <> '(' && s.[!pos] <> ')' do incr pos done;
      A (Stdlib.String.sub s st (!pos - st))
    end in
  item ()

let n_of_dec s = Conv.n_of_string s
let n16 = Conv.n_of_int 16
let n_of_hex (h : string) : coq_N =
  let acc = ref N0 in
  Stdlib.String.iter (fun c ->
    let d = match c with '0'..'9' -> Stdlib.Char.code c - 48 | 'a'..'f' -> Stdlib.Char.code c - 87 | _ -> Stdlib.Char.code c - 55 in
    acc := BinNat.N.add (BinNat.N.mul !acc n16) (Conv.n_of_int d)) h;
  !acc

let kind_of_name = function
  | "bool" -> Some KBool | "int" -> Some KInt | "int8" -> Some KInt8 | "int16" -> Some KInt16 | "int32" -> Some KInt32
  | "int64" -> Some KInt64 | "uint" -> Some KUint | "uint8" -> Some KUint8 | "uint16" -> Some KUint16 | "uint32" -> Some KUint32
  | "uint64" -> Some KUint64 | "uintptr" -> Some KUintptr | "float32" -> Some KFloat32 | "float64" -> Some KFloat64
  | "string" -> Some KString | "complex64" -> Some KComplex64 | "complex128" -> Some KComplex128 | "chan" -> Some KChan
  | "func" -> Some KFunc | "unsafeptr" -> Some KUnsafePointer | _ -> None

let name_of_kind = function
  | KBool -> "bool" | KInt -> "int" | KInt8 -> "int8" | KInt16 -> "int16" | KInt32 -> "int32" | KInt64 -> "int64"
  | KUint -> "uint" | KUint8 -> "uint8" | KUint16 -> "uint16" | KUint32 -> "uint32" | KUint64 -> "uint64" | KUintptr -> "uintptr"
  | KFloat32 -> "float32" | KFloat64 -> "float64" | KString -> "string" | KComplex64 -> "complex64" | KComplex128 -> "complex128"
  | KChan -> "chan" | KFunc -> "func" | KUnsafePointer -> "unsafeptr"

let rec ty_of_sx (x : sx) : ty =
  match x with
  | A a -> (match kind_of_name a with Some k -> TPrim k | None -> failwith ("type atom " ^ a))
  | L [A "arr"; A n; t] -> TArray (nat_of_int (int_of_string n), ty_of_sx t)
  | L [A "slice"; t] -> TSlice (ty_of_sx t)
  | L [A "map"; k; t] -> TMap (ty_of_sx k, ty_of_sx t)
  | L [A "ptr"; t] -> TPtr (ty_of_sx t)
  | L [A "iface"; A k] -> TIface (match k with "e" -> IfEface | "s" -> IfPlain | "j" -> IfJson | "t" -> IfText | _ -> failwith "iface")
  | L [A "named"; A id] -> TNamed (n_of_dec id)
  | L [A "struct"; A size; L phys; L fields] ->
      TStruct (n_of_dec size,
               Stdlib.List.map (function L [A o; t] -> (n_of_dec o, ty_of_sx t) | _ -> failwith "phys") phys,
               Stdlib.List.map field_of_sx fields)
  | _ -> failwith "type"
and field_of_sx = function
  | L (A "f" :: A name :: A opts :: t :: path) ->
      Field (Conv.bytes_of_hex name, n_of_dec opts, ty_of_sx t,
             Stdlib.List.map (function
               | A p when Stdlib.String.length p > 0 && p.[0] = 'd' -> (n_of_dec (Stdlib.String.sub p 1 (Stdlib.String.length p - 1)), true)
               | A p -> (n_of_dec p, false)
               | _ -> failwith "path") path)
  | _ -> failwith "field"

let rec sx_of_ty (b : Stdlib.Buffer.t) (t : ty) : unit =
  let add = Stdlib.Buffer.add_string b in
  match t with
  | TPrim k -> add (name_of_kind k)
  | TArray (n, e) -> add (Stdlib.Printf.sprintf "(arr %d " (int_of_nat n)); sx_of_ty b e; add ")"
  | TSlice e -> add "(slice "; sx_of_ty b e; add ")"
  | TMap (k, e) -> add "(map "; sx_of_ty b k; add " "; sx_of_ty b e; add ")"
  | TPtr e -> add "(ptr "; sx_of_ty b e; add ")"
  | TIface k -> add (match k with IfEface -> "(iface e)" | IfPlain -> "(iface s)" | IfJson -> "(iface j)" | IfText -> "(iface t)")
  | TNamed id -> add ("(named " ^ Conv.string_of_n id ^ ")")
  | TStruct (size, phys, fields) ->
      add ("(struct " ^ Conv.string_of_n size ^ " (");
      Stdlib.List.iteri (fun i (o, ft) -> if i > 0 then add " "; add ("(" ^ Conv.string_of_n o ^ " "); sx_of_ty b ft; add ")") phys;
      add ") (";
      Stdlib.List.iteri (fun i (Field (name, opts, ft, path)) ->
        if i > 0 then add " ";
        add ("(f " ^ Conv.hex_of_bytes name ^ " " ^ Conv.string_of_n opts ^ " "); sx_of_ty b ft;
        Stdlib.List.iter (fun (o, d) -> add (" " ^ (if d then "d" else "") ^ Conv.string_of_n o)) path;
        add ")") fields;
      add "))"

let string_of_ty t = let b = Stdlib.Buffer.create 64 in sx_of_ty b t; Stdlib.Buffer.contents b

let oracle_of = function
  | "n" -> ONone | "e" -> OErr
  | s when Stdlib.String.length s >= 1 && s.[0] = 'o' ->
      let h = Stdlib.String.sub s 1 (Stdlib.String.length s - 1) in
      OOk (if h = "" then [] else Conv.bytes_of_hex h)
  | _ -> failwith "oracle"

let rec val_of_sx (x : sx) : coq_val =
  match x with
  | A "nilsl" -> VSlice None
  | A "nilmp" -> VMap None
  | A "nilp" -> VPtr None
  | A "nilif" -> VIface None
  | L [A "b"; A v] -> VBool (v = "1")
  | L [A "i"; A v] -> VInt (Convz.z_of_string v)
  | L [A "f"; A bits; A txt] -> VFloat (n_of_hex bits, if txt = "-" then None else Some (Conv.bytes_of_hex txt))
  | L [A "s"; A h] -> VStr (Conv.bytes_of_hex h)
  | L (A "arr" :: l) -> VArr (Stdlib.List.map val_of_sx l)
  | L (A "sl" :: l) -> VSlice (Some (Stdlib.List.map val_of_sx l))
  | L (A "mp" :: l) -> VMap (Some (Stdlib.List.map (function L [k; v] -> (val_of_sx k, val_of_sx v) | _ -> failwith "pair") l))
  | L [A "p"; v] -> VPtr (Some (val_of_sx v))
  | L [A "if"; t; v] -> VIface (Some (ty_of_sx t, val_of_sx v))
  | L (A "st" :: l) -> VStruct (Stdlib.List.map val_of_sx l)
  | L [A "m"; A j; A t; v] -> VMeth (oracle_of j, oracle_of t, val_of_sx v)
  | L [A "u"] -> VOpaque
  | _ -> failwith "value"

(* ---------------------------------------------------------------- program text (same format as the /repo hook) *)
let hex_or_dash b = Conv.hex_of_bytes b

let string_of_instr (env : env) (i : instr) : string =
  let l n = string_of_int (int_of_nat n) in
  match i with
  | OP_null -> "null" | OP_empty_arr -> "empty_arr" | OP_empty_obj -> "empty_obj" | OP_bool -> "bool"
  | OP_i8 -> "i8" | OP_i16 -> "i16" | OP_i32 -> "i32" | OP_i64 -> "i64"
  | OP_u8 -> "u8" | OP_u16 -> "u16" | OP_u32 -> "u32" | OP_u64 -> "u64" | OP_f32 -> "f32" | OP_f64 -> "f64"
  | OP_str -> "str" | OP_bin -> "bin" | OP_quote -> "quote" | OP_number -> "number" | OP_eface -> "eface" | OP_iface -> "iface"
  | OP_byte b -> "byte " ^ Conv.string_of_n b
  | OP_text s -> "text " ^ hex_or_dash s
  | OP_deref -> "deref" | OP_index n -> "index " ^ Conv.string_of_n n
  | OP_load -> "load" | OP_save -> "save" | OP_drop -> "drop" | OP_drop_2 -> "drop_2"
  | OP_recurse (t, pv) -> "recurse " ^ (if pv then "1 " else "0 ") ^ string_of_ty t
  | OP_is_nil n -> "is_nil " ^ l n | OP_is_nil_p1 n -> "is_nil_p1 " ^ l n
  | OP_is_zero_1 n -> "is_zero_1 " ^ l n | OP_is_zero_2 n -> "is_zero_2 " ^ l n
  | OP_is_zero_4 n -> "is_zero_4 " ^ l n | OP_is_zero_8 n -> "is_zero_8 " ^ l n
  | OP_is_zero_map n -> "is_zero_map " ^ l n | OP_goto n -> "goto " ^ l n
  | OP_map_iter t -> "map_iter " ^ string_of_ty t | OP_map_stop -> "map_stop"
  | OP_map_check_key n -> "map_check_key " ^ l n | OP_map_write_key n -> "map_write_key " ^ l n
  | OP_map_value_next -> "map_value_next" | OP_slice_len -> "slice_len"
  | OP_slice_next (n, t) -> "slice_next " ^ l n ^ " " ^ Conv.string_of_n (Ty.sizeof env t) ^ " " ^ string_of_ty t
  | OP_marshal t -> "marshal " ^ string_of_ty t | OP_marshal_p t -> "marshal_p " ^ string_of_ty t
  | OP_marshal_text t -> "marshal_text " ^ string_of_ty t | OP_marshal_text_p t -> "marshal_text_p " ^ string_of_ty t
  | OP_cond_set -> "cond_set" | OP_cond_testc n -> "cond_testc " ^ l n
  | OP_unsupported t -> "unsupported " ^ string_of_ty t
  | OP_is_zero (n, f) -> "is_zero " ^ l n ^ " " ^ hex_or_dash (Ty.f_name f) ^ " " ^ string_of_ty (Ty.f_type f)

let cerr_class = function Compile.CE_type _ -> "unsupported" | Compile.CE_nest -> "nest" | Compile.CE_fuel -> "fuel"
let verr_class = function
  | VM.E_too_deep -> "too_deep" | VM.E_nan -> "nan" | VM.E_number -> "number" | VM.E_unsupported -> "unsupported"
  | VM.E_marshaler -> "marshaler" | VM.E_nest -> "nest"

(* ---------------------------------------------------------------- main *)
let env : env ref = ref []

(* requests (type, pv) made to the program cache during the run *)
let cache_sensitive (p : VM.prims) (co : Compile.copts) (flags : coq_N) (t : ty) (v : coq_val) : bool =
  let rec loop (s : VM.state) (last : (ty * bool) list) (n : int) =
    if n > 50_000_000 then last else
    match VM.step p !env co s with
    | VM.Running s' -> loop s' (VM.reqs s') (n + 1)
    | _ -> last in
  match VM.call !env co VM.state0 t (PAt (t, v, N0)) flags with
  | VM.Running s ->
      let rq = loop s (VM.reqs s) 0 in
      Stdlib.List.exists (fun (t1, pv1) ->
        pv1 && Stdlib.List.exists (fun (t2, pv2) -> (not pv2) && Ty.ty_eqb t1 t2) rq
        && (Compile.compile !env co t1 true <> Compile.compile !env co t1 false)) rq
  | _ -> false

let () =
  Conv.iter_lines (fun line ->
    match Conv.split_tab line with
    | ["D"; id; meths; flags; size; body] ->
        let info = { n_meths = n_of_dec meths; n_isnum = (int_of_string flags) land 1 = 1; n_size = n_of_dec size;
                     n_body = ty_of_sx (parse_sx body) } in
        env := !env @ [(n_of_dec id, info)]
    | ["P"; case; pv; inl; omitnull; t] ->
        let co = { Compile.coq_MaxInlineDepth = nat_of_int (int_of_string inl); Compile.coq_EncOnlyOmitNull = (omitnull = "1") } in
        (match Compile.compile !env co (ty_of_sx (parse_sx t)) (pv = "1") with
         | Compile.COk prog ->
             Stdlib.Printf.printf "P\t%s\t%s\tok\t%s\n" case pv (Stdlib.String.concat ";" (Stdlib.List.map (string_of_instr !env) prog))
         | Compile.CErr x -> Stdlib.Printf.printf "P\t%s\t%s\terr\t%s\n" case pv (cerr_class x))
    | ["E"; case; prims; flags; t; v] ->
        let p = if prims = "vm" then Exec.prims_vm else Exec.prims_jit in
        let co = Compile.default_copts in
        let fl = n_of_dec flags in
        let res =
          if t = "nil" then VM.encode p !env co fl None
          else VM.encode p !env co fl (Some (ty_of_sx (parse_sx t), val_of_sx (parse_sx v))) in
        let cs = if t = "nil" then false else
          (try cache_sensitive p co fl (ty_of_sx (parse_sx t)) (val_of_sx (parse_sx v)) with _ -> false) in
        let tail = if cs then "1" else "0" in
        (match res with
         | VM.Done b -> Stdlib.Printf.printf "E\t%s\t%s\t%s\tok\t%s\t%s\n" case prims flags (Conv.hex_of_bytes b) tail
         | VM.Fail x -> Stdlib.Printf.printf "E\t%s\t%s\t%s\terr\t%s\t%s\n" case prims flags (verr_class x) tail
         | VM.Crash n -> Stdlib.Printf.printf "E\t%s\t%s\t%s\tcrash\t%d\t%s\n" case prims flags (int_of_nat n) tail
         | VM.OutOfFuel -> Stdlib.Printf.printf "E\t%s\t%s\t%s\tcrash\tfuel\t%s\n" case prims flags tail
         | VM.Running _ -> Stdlib.Printf.printf "E\t%s\t%s\t%s\tcrash\trunning\t%s\n" case prims flags tail)
    | ["X"; case; prims; flags; t; v] ->   (* debugging aid: partial output at the point of failure *)
        let p = if prims = "vm" then Exec.prims_vm else Exec.prims_jit in
        let co = Compile.default_copts in
        let ty = ty_of_sx (parse_sx t) and vv = val_of_sx (parse_sx v) in
        let rec loop (s : VM.state) n =
          match VM.step p !env co s with
          | VM.Running s' -> loop s' (n + 1)
          | o -> (s, o, n) in
        (match VM.call !env co VM.state0 ty (PAt (ty, vv, N0)) (n_of_dec flags) with
         | VM.Running s0 ->
             let (s, o, n) = loop s0 0 in
             let b = VM.out_bytes s.VM.out in
             let txt = Stdlib.String.concat "" (Stdlib.List.map (fun c -> Stdlib.String.make 1 (Stdlib.Char.chr (Conv.int_of_n c land 255))) b) in
             Stdlib.Printf.printf "X\t%s\tsteps=%d\t%s\t...%s\n" case n
               (match o with VM.Done _ -> "done" | VM.Fail x -> "fail " ^ verr_class x | VM.Crash k -> "crash " ^ string_of_int (int_of_nat k) | _ -> "?")
               (let l = Stdlib.String.length txt in if l > 30000 then Stdlib.String.sub txt (l - 30000) 30000 else txt)
         | _ -> Stdlib.Printf.printf "X\t%s\tcall failed\n" case)
    | ["S"; case; which; t; v] ->
        let q = if which = "sonic" then StdEnc.quoting_sonic else StdEnc.quoting_std in
        let arg = if t = "nil" then None else Some (ty_of_sx (parse_sx t), val_of_sx (parse_sx v)) in
        (match StdEnc.std_marshal !env q false (nat_of_int 30000) arg with
         | StdEnc.SOk b -> Stdlib.Printf.printf "S\t%s\t%s\tok\t%s\n" case which (Conv.hex_of_bytes b)
         | StdEnc.SErr x ->
             Stdlib.Printf.printf "S\t%s\t%s\terr\t%s\n" case which
               (match x with StdEnc.S_unsupported -> "unsupported" | StdEnc.S_nan -> "nan" | StdEnc.S_number -> "number"
                           | StdEnc.S_marshaler -> "marshaler" | StdEnc.S_fuel -> "fuel" | StdEnc.S_illtyped -> "illtyped"))
    | _ -> if line <> "" then Stdlib.Printf.printf "?\t%s\n" (if Stdlib.String.length line > 40 then Stdlib.String.sub line 0 40 else line))
