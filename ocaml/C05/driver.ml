(* in: "V <simd> <hex>" ; out: the same fields + 1/0 = the read-monad model of native value() touches an index >= len
   (block width 32 for avx2, 0 = scalar only for sse) *)
let rec nat_of_int n = if n <= 0 then Datatypes.O else Datatypes.S (nat_of_int (n - 1))
let () =
  Conv.iter_lines (fun line ->
    match Conv.split_tab line with
    | "V" :: simd :: h :: _ ->
      let w = if simd = "avx2" then 32 else 0 in
      let b = Scan.value_reads_beyond (nat_of_int w) (Conv.bytes_of_hex h) in
      Stdlib.Printf.printf "V\t%s\t%s\t%s\n" simd h (if b then "1" else "0")
    | _ -> Stdlib.Printf.printf "?\t%s\n" line)
