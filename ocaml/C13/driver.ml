(* C13 model driver.  One case per line (TAB separated), one result line per case.
     lspace <hex> <off>   ->  lspace <avx2> <sse> <spec>
     p32    <hex>         ->  p32 <avx2> <sse>            (first backslash or length)
     quote  <hex>         ->  quote <avx2> <sse>          (first byte needing a quote escape, or length)
     lanes  <hex>         ->  lanes <mask16> <mask32> <mask>  (quote position mask of the block, decimal) *)
let rec int_of_nat (n : Datatypes.nat) : int =
  let rec go n acc = match n with Datatypes.O -> acc | Datatypes.S m -> go m (acc + 1) in go n 0
let nat_of_int (i : int) : Datatypes.nat =
  let rec go i acc = if i <= 0 then acc else go (i - 1) (Datatypes.S acc) in go i Datatypes.O

let () =
  Conv.iter_lines (fun line ->
    match Conv.split_tab line with
    | ["lspace"; h; off] ->
        let s = Conv.bytes_of_hex h and o = nat_of_int (int_of_string off) in
        Stdlib.Printf.printf "lspace\t%d\t%d\t%d\n" (int_of_nat (Blocked.lspace_avx2 s o)) (int_of_nat (Blocked.lspace_sse s o))
          (int_of_nat (Blocked.lspace_spec s o))
    | ["p32"; h] ->
        let s = Conv.bytes_of_hex h in
        Stdlib.Printf.printf "p32\t%d\t%d\n" (int_of_nat (Blocked.memcchr_p32_avx2 s)) (int_of_nat (Blocked.memcchr_p32_sse s))
    | ["quote"; h] ->
        let s = Conv.bytes_of_hex h in
        Stdlib.Printf.printf "quote\t%d\t%d\n" (int_of_nat (Blocked.memcchr_quote_unsafe_avx2 s)) (int_of_nat (Blocked.memcchr_quote_unsafe_sse s))
    | ["lanes"; h] ->
        let s = Conv.bytes_of_hex h in
        Stdlib.Printf.printf "lanes\t%s\t%s\t%s\n" (Conv.string_of_n (Blocked.lanes_mask Blocked.needs_quote (nat_of_int 16) s))
          (Conv.string_of_n (Blocked.lanes_mask Blocked.needs_quote (nat_of_int 32) s)) (Conv.string_of_n (Blocked.mask Blocked.needs_quote s))
    | ["qcap"; h; cap] ->
        (* memcchr_quote with a destination capacity: F k = found / end at k, U k = destination full after k bytes *)
        let s = Conv.bytes_of_hex h and c = nat_of_int (int_of_string cap) in
        let show r = match r with QuoteCap.Found k -> Stdlib.Printf.sprintf "F\t%d" (int_of_nat k) | QuoteCap.Full k -> Stdlib.Printf.sprintf "U\t%d" (int_of_nat k) in
        Stdlib.Printf.printf "qcap\t%s\t%s\n" (show (QuoteCap.memcchr_quote_avx2 Blocked.needs_quote (nat_of_int 16) s c))
          (show (QuoteCap.memcchr_quote_sse Blocked.needs_quote (nat_of_int 16) s c))
    | _ -> Stdlib.Printf.printf "bad\t%s\n" line)
