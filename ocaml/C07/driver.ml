(* one line in: "<kind>\t<a>\t<b>..." (decimal Z); out: the same fields followed by the model's result
   D size pos -> p q x y   of errors.SyntaxError.description     (Gen/PureFns.errors_description)
   A size pos -> p q x y   of ast.SyntaxError.description        (Gen/PureFns.ast_description)
   M code _   -> 1|0       types.ParsingError.Message indexes the table (Gen/PureFns.types_Message_inbounds) *)
let z = Convz.z_of_string
let s = Convz.string_of_z
let () =
  Conv.iter_lines (fun line ->
    match Conv.split_tab line with
    | "D" :: size :: pos :: _ ->
      let (((p, q), x), y) = PureFns.errors_description (z size) (z pos) in
      Stdlib.Printf.printf "D\t%s\t%s\t%s\t%s\t%s\t%s\n" size pos (s p) (s q) (s x) (s y)
    | "A" :: size :: pos :: _ ->
      let (((p, q), x), y) = PureFns.ast_description (z size) (z pos) in
      Stdlib.Printf.printf "A\t%s\t%s\t%s\t%s\t%s\t%s\n" size pos (s p) (s q) (s x) (s y)
    | "M" :: code :: _ ->
      Stdlib.Printf.printf "M\t%s\t%s\n" code (if PureFns.types_Message_inbounds (z code) then "1" else "0")
    | "P" :: h :: _ ->
      (* P hex -> class maxdepth   of the traversal model Safe/Depth.preorder *)
            let rec nat_to_int n = match n with Datatypes.O -> 0 | Datatypes.S k -> 1 + nat_to_int k in
      let rec nat_of_int n = if n <= 0 then Datatypes.O else Datatypes.S (nat_of_int (n - 1)) in
      let (o, md) = Depth.preorder (nat_of_int 4096) (Conv.bytes_of_hex h) in
      let cls = match o with
        | Depth.Ok _ -> "ok" | Depth.ErrEOF -> "eof" | Depth.ErrInvalid -> "invalid"
        | Depth.ErrRecurse -> "recurse" | Depth.ErrUnsupported -> "unsupported" | Depth.OutOfFuel -> "fuel" in
      Stdlib.Printf.printf "P\t%s\t%s\t%d\n" h cls (nat_to_int md)
    | _ -> Stdlib.Printf.printf "?\t%s\n" line)
