(* one line in: 16 chars of 0/1 (Config fields in declaration order); out: "<bits>\t<enc>\t<dec>" *)
let () =
  Conv.iter_lines (fun line ->
    let l = Stdlib.List.init (Stdlib.String.length line) (fun i -> line.[i] = '1') in
    let (e, d) = OptBits.froze (OptBits.config_of_bits l) in
    Stdlib.Printf.printf "%s\t%d\t%d\n" line (Conv.int_of_n e) (Conv.int_of_n d))
