(* conversions between OCaml machine values and the extracted Coq datatypes (N / positive stay Coq's) *)
open BinNums

let rec int_of_pos (p : positive) : int =
  match p with Coq_xH -> 1 | Coq_xO q -> 2 * int_of_pos q | Coq_xI q -> 2 * int_of_pos q + 1

let int_of_n (n : coq_N) : int = match n with N0 -> 0 | Npos p -> int_of_pos p

let rec pos_of_int (i : int) : positive =
  if i <= 1 then Coq_xH
  else if i land 1 = 0 then Coq_xO (pos_of_int (i lsr 1)) else Coq_xI (pos_of_int (i lsr 1))

let n_of_int (i : int) : coq_N = if i <= 0 then N0 else Npos (pos_of_int i)

(* decimal strings for values that do not fit an OCaml int (u64 and beyond) *)
let string_of_pos_dec (p : positive) : string =
  let rec bits p = match p with Coq_xH -> [1] | Coq_xO q -> 0 :: bits q | Coq_xI q -> 1 :: bits q in
  let digits = ref [0] in  (* little endian decimal *)
  let double_add d =
    let carry = ref d in
    digits := Stdlib.List.map (fun x -> let v = 2 * x + !carry in carry := v / 10; v mod 10) !digits;
    if !carry > 0 then digits := !digits @ [!carry] in
  Stdlib.List.iter double_add (Stdlib.List.rev (bits p));
  Stdlib.String.concat "" (Stdlib.List.rev_map string_of_int !digits)

let string_of_n (n : coq_N) = match n with N0 -> "0" | Npos p -> string_of_pos_dec p

(* decimal string (digits only) -> positive option, by repeated halving of the digit array *)
let pos_of_dec (s : string) : positive option =
  let d = Stdlib.Array.init (Stdlib.String.length s) (fun i -> Stdlib.Char.code s.[i] - 48) in
  let is_zero () = Stdlib.Array.for_all (fun x -> x = 0) d in
  let halve () = (* returns remainder *)
    let r = ref 0 in
    Stdlib.Array.iteri (fun i x -> let v = !r * 10 + x in d.(i) <- v / 2; r := v mod 2) d; !r in
  let rec bits acc = if is_zero () then acc else let r = halve () in bits (r :: acc) in
  (* bits: most significant first *)
  match bits [] with
  | [] -> None
  | _ :: rest -> Some (Stdlib.List.fold_left (fun p b -> if b = 1 then Coq_xI p else Coq_xO p) Coq_xH rest)

let n_of_string (s : string) : coq_N = match pos_of_dec s with None -> N0 | Some p -> Npos p

(* byte strings <-> list N, hex on the wire; "-" is the empty string *)
let bytes_of_hex (h : string) : coq_N list =
  if h = "-" then [] else begin
    let n = Stdlib.String.length h / 2 in
    let hv c = match c with '0'..'9' -> Stdlib.Char.code c - 48 | 'a'..'f' -> Stdlib.Char.code c - 87 | 'A'..'F' -> Stdlib.Char.code c - 55 | _ -> 0 in
    let rec go i acc = if i < 0 then acc else go (i - 1) (n_of_int (hv h.[2*i] * 16 + hv h.[2*i+1]) :: acc) in
    go (n - 1) []
  end

let hex_of_bytes (l : coq_N list) : string =
  if l = [] then "-" else begin
    let b = Stdlib.Buffer.create 64 in
    Stdlib.List.iter (fun x -> Stdlib.Buffer.add_string b (Stdlib.Printf.sprintf "%02x" (int_of_n x land 255))) l;
    Stdlib.Buffer.contents b
  end

let split_tab (s : string) : string list = Stdlib.String.split_on_char '\t' s

let iter_lines (f : string -> unit) : unit =
  try while true do f (input_line stdin) done with End_of_file -> ()
