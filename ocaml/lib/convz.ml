(* Z conversions; only linked when the extraction produced BinNums.coq_Z users *)
open BinNums
let int_of_z (z : coq_Z) : int =
  match z with Z0 -> 0 | Zpos p -> Conv.int_of_pos p | Zneg p -> - (Conv.int_of_pos p)
let z_of_int (i : int) : coq_Z =
  if i = 0 then Z0 else if i > 0 then Zpos (Conv.pos_of_int i) else Zneg (Conv.pos_of_int (- i))
let string_of_z (z : coq_Z) =
  match z with Z0 -> "0" | Zpos p -> Conv.string_of_pos_dec p | Zneg p -> "-" ^ Conv.string_of_pos_dec p
let z_of_string (s : string) : coq_Z =
  let neg = Stdlib.String.length s > 0 && s.[0] = '-' in
  let body = if neg then Stdlib.String.sub s 1 (Stdlib.String.length s - 1) else s in
  match Conv.pos_of_dec body with None -> Z0 | Some p -> if neg then Zneg p else Zpos p
