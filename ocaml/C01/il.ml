(* printing of Compile.prog in the format of jitdec.VerifDumpProgram *)
open Compile

let op_name = function
  | OP_any -> "any" | OP_dyn -> "dyn" | OP_str -> "str" | OP_bin -> "bin" | OP_bool -> "bool" | OP_num -> "num"
  | OP_i8 -> "i8" | OP_i16 -> "i16" | OP_i32 -> "i32" | OP_i64 -> "i64" | OP_u8 -> "u8" | OP_u16 -> "u16" | OP_u32 -> "u32"
  | OP_u64 -> "u64" | OP_f32 -> "f32" | OP_f64 -> "f64" | OP_unquote -> "unquote" | OP_nil_1 -> "nil_1" | OP_nil_2 -> "nil_2"
  | OP_nil_3 -> "nil_3" | OP_empty_bytes -> "empty_bytes" | OP_deref -> "deref" | OP_index -> "index" | OP_is_null -> "is_null"
  | OP_is_null_quote -> "is_null_quote" | OP_map_init -> "map_init"
  | OP_map_key_i8 -> "map_key_i8" | OP_map_key_i16 -> "map_key_i16" | OP_map_key_i32 -> "map_key_i32" | OP_map_key_i64 -> "map_key_i64"
  | OP_map_key_u8 -> "map_key_u8" | OP_map_key_u16 -> "map_key_u16" | OP_map_key_u32 -> "map_key_u32" | OP_map_key_u64 -> "map_key_u64"
  | OP_map_key_f32 -> "map_key_f32" | OP_map_key_f64 -> "map_key_f64" | OP_map_key_str -> "map_key_str"
  | OP_map_key_utext -> "map_key_utext" | OP_map_key_utext_p -> "map_key_utext_p"
  | OP_array_skip -> "array_skip" | OP_array_clear -> "array_clear" | OP_array_clear_p -> "array_clear_p"
  | OP_slice_init -> "slice_init" | OP_slice_append -> "slice_append" | OP_object_next -> "object_next"
  | OP_struct_field -> "struct_field" | OP_unmarshal -> "unmarshal" | OP_unmarshal_p -> "unmarshal_p"
  | OP_unmarshal_text -> "unmarshal_text" | OP_unmarshal_text_p -> "unmarshal_text_p" | OP_lspace -> "lspace"
  | OP_match_char -> "match_char" | OP_check_char -> "check_char" | OP_load -> "load" | OP_save -> "save" | OP_drop -> "drop"
  | OP_drop_2 -> "drop_2" | OP_recurse -> "recurse" | OP_goto -> "goto" | OP_switch -> "switch"
  | OP_check_char_0 -> "check_char_0" | OP_dismatch_err -> "dismatch_err" | OP_go_skip -> "go_skip"
  | OP_skip_emtpy -> "skip_emtpy" | OP_add -> "add" | OP_check_empty -> "check_empty" | OP_unsupported -> "unsupported_type"

let show_instr (i : instr) : string =
  match i.i_op with
  | OP_switch ->
    "switch [" ^ Stdlib.String.concat "," (Stdlib.List.map (fun n -> string_of_int (Sx.int_of_nat n)) i.i_vs) ^ "]"
  | OP_struct_field ->
    let fs = Stdlib.List.map (fun (n, id) ->
      (let h = Conv.hex_of_bytes n in if h = "-" then "" else h) ^ "=" ^ string_of_int (Sx.int_of_nat id)) i.i_fm in
    "struct_field {" ^ Stdlib.String.concat "," (Stdlib.List.sort compare fs) ^ "}"
  | OP_index | OP_array_clear | OP_array_clear_p -> Stdlib.Printf.sprintf "%s 0 0" (op_name i.i_op)   (* offsets / sizes are not compared *)
  | o -> Stdlib.Printf.sprintf "%s %d %d" (op_name o) (Sx.int_of_nat i.i_vi) (Conv.int_of_n i.i_vb)

let show_prog (p : instr list) : string = Stdlib.String.concat ";" (Stdlib.List.map show_instr p)
