(* one case per line: id \t cfg \t resolved-type \t initial-value \t input-hex
   out: id, then (status O|E|U, value-or-dash) for sonic_bind Jit, std_bind, sonic_bind Opt, sonic_bind OptFast, exec (compile ty) *)
let show_res t r =
  match r with
  | Val.Ok v -> ("O", Sx.show t v)
  | Val.Err -> ("E", "-")
  | Val.Unk -> ("U", "-")

(* argv[1]: which columns are computed: c01 (Jit, std, IL), c11 (Jit, Opt, OptFast), default all *)
let want_std, want_opt, want_il =
  match (if Stdlib.Array.length Sys.argv > 1 then Sys.argv.(1) else "all") with
  | "c01" -> (true, false, true)
  | "c11" -> (false, true, false)
  | _ -> (true, true, true)

let skip = ("-", "-")

let () =
  let ty_cache : (string, Ty.ty) Stdlib.Hashtbl.t = Stdlib.Hashtbl.create 64 in
  Conv.iter_lines (fun line ->
    match Conv.split_tab line with
    | [id; cfg; tys; v0s; inhex] ->
      (try
        let t = match Stdlib.Hashtbl.find_opt ty_cache tys with
          | Some t -> t
          | None -> let t = Sx.ty_of_sx (Sx.parse_sx tys) in Stdlib.Hashtbl.add ty_cache tys t; t in
        let v0 = Sx.val_of_sx t (Sx.parse_sx v0s) in
        let input = Conv.bytes_of_hex inhex in
        let o = Sx.opts_of cfg in
        let (ss, sv) = show_res t (SonicBind.sonic_unmarshal Sx.weak_hash SonicBind.Jit o t input v0) in
        let (js, jv) = if want_std then show_res t (StdBind.std_unmarshal o t input v0) else skip in
        let (os, ov) = if want_opt then show_res t (SonicBind.sonic_unmarshal Sx.weak_hash SonicBind.Opt o t input v0) else skip in
        let (fs, fv) = if want_opt then show_res t (SonicBind.sonic_unmarshal Sx.weak_hash SonicBind.OptFast o t input v0) else skip in
        let (is, iv) = if want_il then show_res t (Exec.il_unmarshal Sx.weak_hash o t input v0) else skip in
        Stdlib.Printf.printf "%s\t%s\t%s\t%s\t%s\t%s\t%s\t%s\t%s\t%s\t%s\n" id ss sv js jv os ov fs fv is iv
      with Failure m -> Stdlib.Printf.printf "%s\tX\t%s\tX\t-\n" id m)
    | ["IL"; tys] ->
      (try
        let t = Sx.ty_of_sx (Sx.parse_sx tys) in
        print_endline (Il.show_prog (Compile.compile t))
      with Failure m -> print_endline ("X " ^ m))
    | ["FM"; names; queries] ->
      let split s = if s = "" then [] else Stdlib.String.split_on_char ',' s in
      let ns = Stdlib.List.map Conv.bytes_of_hex (split names) in
      let fm = FieldMap.build Sx.weak_hash ns in
      let show = function Some n -> string_of_int (Sx.int_of_nat n) | None -> "-1" in
      let one q =
        let k = Conv.bytes_of_hex q in
        show (if ns = [] then None else FieldMap.get Sx.weak_hash fm k) ^ "/" ^ show (FieldMap.get_ci fm k) in
      print_endline (Stdlib.String.concat "," (Stdlib.List.map one (split queries)))
    | _ -> ())
