(* S-expressions, types and values of the decoder models: reader / printer shared by the C01 and C11 drivers *)
open BinNums

type sx = A of string | L of sx list

let parse_sx (s : string) : sx =
  let n = Stdlib.String.length s in
  let i = ref 0 in
  let rec ws () = if !i < n && s.[!i] = ' ' then (incr i; ws ()) in
  let rec one () =
    ws ();
    if !i >= n then failwith "sx: eof";
    if s.[!i] = '(' then begin
      incr i;
      let items = ref [] in
      let rec loop () =
        ws ();
        if !i >= n then failwith "sx: eof in list";
        if s.[!i] = ')' then incr i else (items := one () :: !items; loop ()) in
      loop ();
      L (Stdlib.List.rev !items)
    end else begin
      let j = ref !i in
      while !j < n && s.[!j] <> ' ' && s.[!j] <> '(' && s.[!j] <> ')' do incr j done;
      let a = Stdlib.String.sub s !i (!j - !i) in
      i := !j; A a
    end in
  one ()

let rec nat_of_int (i : int) : Datatypes.nat = if i <= 0 then Datatypes.O else Datatypes.S (nat_of_int (i - 1))

let rec int_of_nat (n : Datatypes.nat) : int = match n with Datatypes.O -> 0 | Datatypes.S m -> 1 + int_of_nat m

let ikind_of = function
  | "i8" -> Ty.I8 | "i16" -> Ty.I16 | "i32" -> Ty.I32 | "i64" -> Ty.I64
  | "u8" -> Ty.U8 | "u16" -> Ty.U16 | "u32" -> Ty.U32 | "u64" -> Ty.U64
  | s -> failwith ("ikind " ^ s)

let is_ikind s = Stdlib.List.mem s ["i8"; "i16"; "i32"; "i64"; "u8"; "u16"; "u32"; "u64"]

let rec ty_of_sx (x : sx) : Ty.ty =
  match x with
  | A "bool" -> Ty.TBool | A "f32" -> Ty.TF32 | A "f64" -> Ty.TF64 | A "str" -> Ty.TStr | A "num" -> Ty.TNum
  | A "bytes" -> Ty.TBytes | A "any" -> Ty.TAny | A "raw" -> Ty.TRaw | A "unm" -> Ty.TUnm | A "text" -> Ty.TText
  | A s when is_ikind s -> Ty.TInt (ikind_of s)
  | L [A "sl"; e] -> Ty.TSlice (ty_of_sx e)
  | L [A "ar"; A n; e] -> Ty.TArr (nat_of_int (int_of_string n), ty_of_sx e)
  | L [A "ptr"; e] -> Ty.TPtr (ty_of_sx e)
  | L [A "map"; k; e] ->
    let kt = match k with
      | A "str" -> Ty.KStr | A "text" -> Ty.KText
      | A s when is_ikind s -> Ty.KInt (ikind_of s)
      | _ -> failwith "map key" in
    Ty.TMap (kt, ty_of_sx e)
  | L (A "st" :: fs) ->
    let rec go = function
      | [] -> Ty.FNil
      | L [A "f"; A name; A q; t] :: r -> Ty.FCons (Conv.bytes_of_hex name, q = "q", ty_of_sx t, go r)
      | _ -> failwith "field" in
    Ty.TStruct (go fs)
  | _ -> failwith "type"

let vint_of_string s = Val.VInt (Convz.z_of_string s)

let n_of_hex (h : string) : coq_N =
  (* up to 64 bits: two halves *)
  let len = Stdlib.String.length h in
  let v = ref N0 in
  for i = 0 to len - 1 do
    let d = int_of_string ("0x" ^ Stdlib.String.make 1 h.[i]) in
    v := BinNat.N.add (BinNat.N.mul !v (Conv.n_of_int 16)) (Conv.n_of_int d)
  done; !v

let hex_of_n (width : int) (n : coq_N) : string =
  let digits = Stdlib.Bytes.make width '0' in
  let cur = ref n in
  for i = width - 1 downto 0 do
    let (q, r) = BinNat.N.div_eucl !cur (Conv.n_of_int 16) in
    Stdlib.Bytes.set digits i "0123456789abcdef".[Conv.int_of_n r];
    cur := q
  done; Stdlib.Bytes.to_string digits

(* -0 is printed as +0 (see dtygen.Dump) *)
let flt_hex (width : int) (b : coq_N) : string =
  let h = hex_of_n width b in
  if h = "8" ^ Stdlib.String.make (width - 1) '0' then Stdlib.String.make width '0' else h

let rec field_tys = function Ty.FNil -> [] | Ty.FCons (_, _, t, r) -> t :: field_tys r

(* dynamic (interface{}) values *)
let rec any_of_sx (x : sx) : Val.coq_val =
  match x with
  | A "nil" -> Val.VNil | A "t" -> Val.VBool true | A "f" -> Val.VBool false
  | L [A "i"; A d] -> vint_of_string d
  | L [A "d"; A h] -> Val.VFlt (n_of_hex h)
  | L [A "s"; A h] -> Val.VStr (Conv.bytes_of_hex h)
  | L [A "n"; A h] -> Val.VNum (Conv.bytes_of_hex h)
  | L (A "l" :: es) -> Val.VList (Stdlib.List.map any_of_sx es, [])
  | L (A "m" :: es) ->
    Val.VMap (Stdlib.List.map (function L [k; v] -> (any_of_sx k, any_of_sx v) | _ -> failwith "any map") es)
  | _ -> failwith "any value"

let rec val_of_sx (t : Ty.ty) (x : sx) : Val.coq_val =
  match t, x with
  | Ty.TAny, _ -> any_of_sx x
  | _, A "nil" -> Val.zero t
  | Ty.TBool, A "t" -> Val.VBool true
  | Ty.TBool, A "f" -> Val.VBool false
  | Ty.TInt _, L [A "i"; A d] -> vint_of_string d
  | (Ty.TF32 | Ty.TF64), L [A "d"; A h] -> Val.VFlt (n_of_hex h)
  | (Ty.TStr | Ty.TNum | Ty.TUnm | Ty.TText | Ty.TRaw), L [A "s"; A h] -> Val.VStr (Conv.bytes_of_hex h)
  | Ty.TBytes, L [A "s"; A h] ->
    Val.VList (Stdlib.List.map (fun c -> Val.VInt (BinInt.Z.of_N c)) (Conv.bytes_of_hex h), [])
  | Ty.TBytes, L (A "l" :: es) -> Val.VList (Stdlib.List.map (val_of_sx (Ty.TInt Ty.U8)) es, [])
  | Ty.TBytes, L [A "L"; L a; L b] ->
    Val.VList (Stdlib.List.map (val_of_sx (Ty.TInt Ty.U8)) a, Stdlib.List.map (val_of_sx (Ty.TInt Ty.U8)) b)
  | Ty.TSlice e, L (A "l" :: es) -> Val.VList (Stdlib.List.map (val_of_sx e) es, [])
  | Ty.TSlice e, L [A "L"; L a; L b] -> Val.VList (Stdlib.List.map (val_of_sx e) a, Stdlib.List.map (val_of_sx e) b)
  | Ty.TArr (_, e), L (A "l" :: es) -> Val.VList (Stdlib.List.map (val_of_sx e) es, [])
  | Ty.TMap (k, e), L (A "m" :: es) ->
    let kt = match k with Ty.KStr | Ty.KText -> Ty.TStr | Ty.KInt ik -> Ty.TInt ik in
    Val.VMap (Stdlib.List.map (function L [kx; vx] -> (val_of_sx kt kx, val_of_sx e vx) | _ -> failwith "map entry") es)
  | Ty.TPtr e, L [A "p"; v] -> Val.VPtr (val_of_sx e v)
  | Ty.TStruct fs, L (A "l" :: es) ->
    let rec go ts es = match ts, es with
      | [], _ -> []
      | t :: tr, e :: er -> val_of_sx t e :: go tr er
      | t :: tr, [] -> Val.zero t :: go tr [] in
    Val.VList (go (field_tys fs) es, [])
  | _ -> failwith "value does not fit the type"

let hexs (b : coq_N list) = Conv.hex_of_bytes b

let bytes_of_vals (l : Val.coq_val list) : coq_N list =
  Stdlib.List.map (function Val.VInt z -> BinInt.Z.to_N z | _ -> N0) l

let rec show_any (v : Val.coq_val) : string =
  match v with
  | Val.VNil -> "nil"
  | Val.VBool b -> if b then "t" else "f"
  | Val.VInt z -> "(i " ^ Convz.string_of_z z ^ ")"
  | Val.VFlt b -> "(d " ^ flt_hex 16 b ^ ")"
  | Val.VStr s -> "(s " ^ hexs s ^ ")"
  | Val.VNum s -> "(n " ^ hexs s ^ ")"
  | Val.VList (l, _) -> "(l" ^ Stdlib.String.concat "" (Stdlib.List.map (fun e -> " " ^ show_any e) l) ^ ")"
  | Val.VMap m ->
    let es = Stdlib.List.map (fun (k, v) -> (show_any k, show_any v)) m in
    let es = Stdlib.List.sort compare es in
    "(m" ^ Stdlib.String.concat "" (Stdlib.List.map (fun (k, v) -> " (" ^ k ^ " " ^ v ^ ")") es) ^ ")"
  | Val.VPtr p -> "(p " ^ show_any p ^ ")"

let rec show (t : Ty.ty) (v : Val.coq_val) : string =
  match t, v with
  | Ty.TAny, _ -> show_any v
  | Ty.TBool, Val.VBool b -> if b then "t" else "f"
  | Ty.TInt _, Val.VInt z -> "(i " ^ Convz.string_of_z z ^ ")"
  | Ty.TF32, Val.VFlt b -> "(d " ^ flt_hex 8 b ^ ")"
  | Ty.TF64, Val.VFlt b -> "(d " ^ flt_hex 16 b ^ ")"
  | (Ty.TStr | Ty.TNum | Ty.TUnm | Ty.TText), Val.VStr s -> "(s " ^ hexs s ^ ")"
  | (Ty.TBytes | Ty.TRaw | Ty.TSlice _ | Ty.TMap _ | Ty.TPtr _), Val.VNil -> "nil"
  | Ty.TRaw, Val.VStr s -> "(s " ^ hexs s ^ ")"
  | Ty.TBytes, Val.VList (l, _) -> "(s " ^ hexs (bytes_of_vals l) ^ ")"
  | Ty.TSlice e, Val.VList (l, _) -> "(l" ^ Stdlib.String.concat "" (Stdlib.List.map (fun x -> " " ^ show e x) l) ^ ")"
  | Ty.TArr (_, e), Val.VList (l, _) -> "(l" ^ Stdlib.String.concat "" (Stdlib.List.map (fun x -> " " ^ show e x) l) ^ ")"
  | Ty.TMap (_, e), Val.VMap m ->
    let es = Stdlib.List.map (fun (k, v) -> (show_any k, show e v)) m in
    let es = Stdlib.List.sort compare es in
    "(m" ^ Stdlib.String.concat "" (Stdlib.List.map (fun (k, v) -> " (" ^ k ^ " " ^ v ^ ")") es) ^ ")"
  | Ty.TPtr e, Val.VPtr p -> "(p " ^ show e p ^ ")"
  | Ty.TStruct fs, Val.VList (l, _) ->
    let rec go ts vs = match ts, vs with
      | t :: tr, x :: vr -> (" " ^ show t x) :: go tr vr
      | _, _ -> [] in
    "(l" ^ Stdlib.String.concat "" (go (field_tys fs) l) ^ ")"
  | _, _ -> "(?? " ^ show_any v ^ ")"

let opts_of (cfg : string) : Ty.opts =
  let std = Stdlib.String.length cfg >= 3 && Stdlib.String.sub cfg 0 3 = "std" in
  let suffix = Stdlib.String.sub cfg 3 (Stdlib.String.length cfg - 3) in
  { Ty.o_validate = std; Ty.o_use_number = (suffix = "num"); Ty.o_use_int64 = (suffix = "i64");
    Ty.o_disallow_unknown = false }

(* the hash handed to the FieldMap model: deliberately poor (few values, 0 included) so that probe chains are long *)
let weak_hash (s : coq_N list) : coq_N =
  Conv.n_of_int ((Stdlib.List.fold_left (fun a c -> a + Conv.int_of_n c) 0 s) mod 3)
