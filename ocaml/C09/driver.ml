(* C09 model driver.  One case per line, TAB separated.
   P <cap> <h1,h2,...,hK> <op;op;...>   program-map / program-cache op sequence; key ids are 1..K, hash of key i = hi
        ops: G<k> | C<k>:<v> (v = 0: the compute callback fails) | A<k>:<v> (raw add) | D (dump layout digest)
        out: one field per op joined by ';' :  value | E | P (panic) | n/m/h1/h2
   L <name:texthex,name:texthex,...>    loader.LoadMany; out: entry offsets joined by ',' ("nil" for no entry) *)
open PCache

let ios = int_of_string
let n_of = Conv.n_of_int
let i_of = Conv.int_of_n

let digest (s : pmap) : string =
  let h1 = ref 0 and h2 = ref 0 in
  let feed x =
    h1 := (!h1 * 1000003 + x) mod 2147483647;
    h2 := (!h2 * 69069 + x) mod 2147483629 in
  let len = i_of s.pm_b.a_len in
  for i = 0 to len - 1 do
    let e = slot s.pm_b (n_of i) in
    (match e.e_vt with
     | BinNums.N0 -> ()
     | _ -> feed i; feed (i_of e.e_vt); feed (i_of e.e_fn))
  done;
  Stdlib.Printf.sprintf "%d/%d/%d/%d" (i_of s.pm_n) (i_of s.pm_m) !h1 !h2

let show_res r = match r with
  | RVal v -> string_of_int (i_of v)
  | RErr -> "E"
  | RPanic -> "P"

let pcase cap hs ops =
  let tab = Stdlib.Array.of_list (Stdlib.List.map (fun s -> n_of (ios s)) (Stdlib.String.split_on_char ',' hs)) in
  let hash k = let i = i_of k in if i >= 1 && i <= Stdlib.Array.length tab then tab.(i - 1) else BinNums.N0 in
  let cap = ios cap in
  let st = ref (Some (C09Model.cache_new (if cap = 0 then C09Model.cache_init_cap else n_of cap))) in
  let outs = Stdlib.List.map (fun o ->
      if o = "D" then (match !st with None -> "P" | Some s -> digest s)
      else begin
        let body = Stdlib.String.sub o 1 (Stdlib.String.length o - 1) in
        let kv () = match Stdlib.String.split_on_char ':' body with
          | [k; v] -> (ios k, ios v) | _ -> failwith ("bad op " ^ o) in
        let op = match o.[0] with
          | 'G' -> OGet (n_of (ios body))
          | 'C' -> let (k, v) = kv () in OCompute (n_of k, if v = 0 then None else Some (n_of v))
          | 'A' -> let (k, v) = kv () in OAdd (n_of k, n_of v)
          | _ -> failwith ("bad op " ^ o) in
        let (st', r) = C09Model.cache_step hash !st op in
        st := st'; show_res r
      end) (if ops = "" then [] else Stdlib.String.split_on_char ';' ops) in
  print_endline (Stdlib.String.concat ";" outs)

let lcase spec =
  let items = Stdlib.List.map (fun s ->
      match Stdlib.String.split_on_char ':' s with
      | [n; t] -> { LoadMap.it_name = Conv.bytes_of_hex n; LoadMap.it_text = Conv.bytes_of_hex t }
      | _ -> failwith ("bad item " ^ s)) (if spec = "" then [] else Stdlib.String.split_on_char ',' spec) in
  let out = C09Model.loader_loadmany items in
  print_endline (Stdlib.String.concat "," (Stdlib.List.map (fun o -> match o with None -> "nil" | Some a -> string_of_int (i_of a)) out))

(* S <h1,...,hK> <failing keys or -> <op;op;...>    encoder program caches keyed by (type, pv)
     ops: F<k>:<pv> FindOrCompile | T<k>:<pv> pretouchType | B<k>:<pv>,<k>:<pv>,... pretouchRec batch
     out: the results of the F ops joined by ';' , then '|' , then GetProgram(k, pv) for k = 1..K, pv = 0,1 joined by ',' *)
let scase hs failing ops =
  let tab = Stdlib.Array.of_list (Stdlib.List.map (fun s -> n_of (ios s)) (Stdlib.String.split_on_char ',' hs)) in
  let nk = Stdlib.Array.length tab in
  let hash k = let i = i_of k in if i >= 1 && i <= nk then tab.(i - 1) else BinNums.N0 in
  let bad = if failing = "-" then [] else Stdlib.List.map ios (Stdlib.String.split_on_char ',' failing) in
  let compile k pv = let i = i_of k in if Stdlib.List.mem i bad then None else Some (n_of (i * 4 + 2 + (if pv then 1 else 0))) in
  let kp s = match Stdlib.String.split_on_char ':' s with
    | [k; p] -> (n_of (ios k), p = "1") | _ -> failwith ("bad pair " ^ s) in
  let h = Stdlib.List.map (fun o ->
      let body = Stdlib.String.sub o 1 (Stdlib.String.length o - 1) in
      match o.[0] with
      | 'F' -> let (k, p) = kp body in Served.HFind (k, p)
      | 'T' -> let (k, p) = kp body in Served.HPretouch (k, p)
      | 'B' -> Served.HBatch (if body = "" then [] else Stdlib.List.map kp (Stdlib.String.split_on_char ',' body))
      | _ -> failwith ("bad op " ^ o)) (if ops = "" then [] else Stdlib.String.split_on_char ';' ops) in
  match C09Model.enc_hrun hash compile h with
  | None -> print_endline "P"
  | Some (st, rs) ->
    let fr = Stdlib.List.map (fun r -> match r with None -> "E" | Some v -> string_of_int (i_of v)) rs in
    let served = ref [] in
    for k = nk downto 1 do
      served := string_of_int (i_of (C09Model.enc_served hash st (n_of k) false))
                :: string_of_int (i_of (C09Model.enc_served hash st (n_of k) true)) :: !served
    done;
    print_endline (Stdlib.String.concat ";" fr ^ "|" ^ Stdlib.String.concat "," !served)

let () =
  Conv.iter_lines (fun line ->
    match Conv.split_tab line with
    | ["P"; cap; hs; ops] -> pcase cap hs ops
    | ["L"; spec] -> lcase spec
    | ["S"; hs; failing; ops] -> scase hs failing ops
    | _ -> print_endline "BADCASE")
