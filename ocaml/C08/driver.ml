(* C08 model driver.  One case per line, TAB separated:
     <cap> <h1,h2,...,hK> <failing keys, comma separated or -> <k1,k2,...>   (the keys of the racing Get-then-Compute calls)
   Every call becomes two model threads (Get k; Compute k); the schedule runs them to completion one after the other
   (the theorem says every other schedule gives the same per-call results and the same final key set).
   out: n/mask/<number of successful compiles>/<digest of the sorted present keys>/<bad results> *)
open Rcu

let ios = int_of_string
let n_of = Conv.n_of_int
let i_of = Conv.int_of_n

let () =
  Conv.iter_lines (fun line ->
    match Conv.split_tab line with
    | [cap; hs; failing; ks] ->
      let tab = Stdlib.Array.of_list (Stdlib.List.map (fun s -> n_of (ios s)) (Stdlib.String.split_on_char ',' hs)) in
      let nk = Stdlib.Array.length tab in
      let hash k = let i = i_of k in if i >= 1 && i <= nk then tab.(i - 1) else BinNums.N0 in
      let bad = if failing = "-" then [] else Stdlib.List.map ios (Stdlib.String.split_on_char ',' failing) in
      let compute k = let i = i_of k in if Stdlib.List.mem i bad then None else Some (n_of ((i - 1) * 7 + 1)) in
      let keys = if ks = "" then [] else Stdlib.List.map ios (Stdlib.String.split_on_char ',' ks) in
      let calls = Stdlib.List.concat_map (fun k -> [CGet (n_of k); CCompute (n_of k)]) keys in
      let nt = Stdlib.List.length calls in
      let sched = Stdlib.List.concat (Stdlib.List.init nt (fun t ->
          let t' = Natconv.nat_of_int t in [t'; t'; t'; t'; t'; t'; t'; t'])) in
      let cap = ios cap in
      let g = C08Model.rcu_run hash compute (if cap = 0 then C08Model.rcu_default_cap else n_of cap) calls sched in
      (* per-call results must be compute k (Compute) / nil-or-compute k (Get) *)
      let badres = ref 0 in
      Stdlib.List.iteri (fun t c ->
          match g.g_th (Natconv.nat_of_int t), c with
          | DoneG (_, v), CGet k -> (match compute k with
              | Some w -> if not (v = BinNums.N0 || v = w) then incr badres
              | None -> if v <> BinNums.N0 then incr badres)
          | DoneC (_, r), CCompute k -> if r <> compute k then incr badres
          | _ -> incr badres) calls;
      let h1 = ref 0 in
      for k = 1 to nk do
        if C08Model.rcu_present hash g (n_of k) <> BinNums.N0 then h1 := (!h1 * 1000003 + k) mod 2147483647
      done;
      Stdlib.Printf.printf "%d/%d/%d/%d/%d\n" (i_of g.g_p.PCache.pm_n) (i_of g.g_p.PCache.pm_m)
        (Stdlib.List.length g.g_log) !h1 !badres
    | _ -> print_endline "BADCASE")
