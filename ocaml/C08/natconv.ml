(* OCaml int -> extracted Coq nat (thread ids of Cache/Rcu.v) *)
let rec nat_of_int (i : int) : Datatypes.nat = if i <= 0 then Datatypes.O else Datatypes.S (nat_of_int (i - 1))
