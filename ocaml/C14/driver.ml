(* C14 driver.  in : id TAB tokens TAB path      tokens: { } [ ] , : s<hex raw> n<hex> t f z  separated by spaces
                                                path  : "." or k<hex>/i<n>/...
   (optional 5th input field: the ordinals of the containers the visitor skips, "-" or "3,7")
   out: id TAB G0 TAB G1 TAB S TAB N TAB P TAB F TAB PS TAB FS
        G0/G1  get_by_path without / with ValidateJSON : ok:<tree> | nf | inval | patherr
        S      the specification navigate on the tree  : same alphabet
        N      Node.GetByPath on a raw root (the C15 node model, OpLook): K:...
        P      preorder event list of the traverser model ; F the flattening of the tree (specification)
        PS/FS  the same with a visitor answering VisitOPSkip at the given containers (model / specification) *)
open BinNums
open Datatypes
open Tree
open Search

let full = Stdlib.Array.length Sys.argv > 1 && Sys.argv.(1) = "full"
let rec int_of_nat n = match n with O -> 0 | S m -> 1 + int_of_nat m
let rec nat_of_int i = if i <= 0 then O else S (nat_of_int (i - 1))
let hexc = "0123456789abcdef"
let hex_of (l : coq_N list) : string =
  let b = Stdlib.Buffer.create 16 in
  Stdlib.List.iter (fun x -> let v = Conv.int_of_n x in
    Stdlib.Buffer.add_char b hexc.[(v lsr 4) land 15]; Stdlib.Buffer.add_char b hexc.[v land 15]) l;
  Stdlib.Buffer.contents b
let bytes_of h = Conv.bytes_of_hex (if h = "" then "-" else h)
let hash2 (s : string) : string =
  let a = ref 7 and b = ref 11 in
  Stdlib.String.iter (fun c ->
    a := (!a * 257 + Stdlib.Char.code c) mod 2147483629;
    b := (!b * 263 + Stdlib.Char.code c) mod 2147483587) s;
  Stdlib.Printf.sprintf "h%x.%x" !a !b
let tr s = if full then s else hash2 s

let rec pr_tree b (t : tree) =
  let add = Stdlib.Buffer.add_string b in
  match t with
  | TNull -> add "Z" | TTrue -> add "T" | TFalse -> add "F"
  | TNum s -> add "N"; add (hex_of s)
  | TStr s -> add "S"; add (hex_of s)
  | TArr l -> add "["; Stdlib.List.iteri (fun i c -> if i > 0 then add ","; pr_tree b c) l; add "]"
  | TObj l -> add "{"; Stdlib.List.iteri (fun i (k, c) -> if i > 0 then add ","; add (hex_of k); add ":"; pr_tree b c) l; add "}"
let string_of_tree t = let b = Stdlib.Buffer.create 256 in pr_tree b t; Stdlib.Buffer.contents b

let tok_of (s : string) : tok =
  match s.[0] with
  | '{' -> KLBrace | '}' -> KRBrace | '[' -> KLBrack | ']' -> KRBrack | ',' -> KComma | ':' -> KColon
  | 's' -> KStr (bytes_of (Stdlib.String.sub s 1 (Stdlib.String.length s - 1)))
  | 'n' -> KNum (bytes_of (Stdlib.String.sub s 1 (Stdlib.String.length s - 1)))
  | 't' -> KTrue | 'f' -> KFalse | 'z' -> KNull
  | _ -> failwith ("bad token " ^ s)

(* raw tree of a token list (the inverse of tokens_of on well-formed streams) *)
let rec tree_of (toks : tok list) : tree * tok list =
  match toks with
  | KNull :: r -> (TNull, r) | KTrue :: r -> (TTrue, r) | KFalse :: r -> (TFalse, r)
  | KNum s :: r -> (TNum s, r) | KStr s :: r -> (TStr s, r)
  | KLBrack :: KRBrack :: r -> (TArr [], r)
  | KLBrack :: r ->
    let rec go r acc = let (v, r) = tree_of r in
      (match r with KComma :: r -> go r (v :: acc) | KRBrack :: r -> (TArr (Stdlib.List.rev (v :: acc)), r) | _ -> failwith "array") in
    go r []
  | KLBrace :: KRBrace :: r -> (TObj [], r)
  | KLBrace :: r ->
    let rec go r acc = (match r with
      | KStr k :: KColon :: r -> let (v, r) = tree_of r in
        (match r with KComma :: r -> go r ((k, v) :: acc) | KRBrace :: r -> (TObj (Stdlib.List.rev ((k, v) :: acc)), r) | _ -> failwith "object")
      | _ -> failwith "member") in
    go r []
  | _ -> failwith "value"

let decoded (t : tree) : string =
  match decode_tree t with Some d -> tr (string_of_tree d) | None -> "?undecodable"

let parse_sel (s : string) : sel =
  if s.[0] = 'k' then SKey (bytes_of (Stdlib.String.sub s 1 (Stdlib.String.length s - 1)))
  else SIdx (nat_of_int (int_of_string (Stdlib.String.sub s 1 (Stdlib.String.length s - 1))))

let sres_s (r : sres) : string =
  match r with
  | SFound (v, _) -> (try let (t, rest) = tree_of v in if rest <> [] then "ok:?trailing" else "ok:" ^ decoded t with Failure m -> "ok:?" ^ m)
  | SNotFound -> "nf" | SInval -> "inval" | SPathErr -> "patherr"

let pev_s (e : pev) : string =
  match e with
  | PNull -> "Z" | PBool true -> "T" | PBool false -> "F"
  | PStr s -> "S" ^ hex_of s | PNum s -> "N" ^ hex_of s
  | PObjBegin -> "{" | PKey k -> "K" ^ hex_of k | PObjEnd -> "}" | PArrBegin -> "[" | PArrEnd -> "]"
let pevs_s = function Some l -> tr (Stdlib.String.concat " " (Stdlib.List.map pev_s l)) | None -> "error"

(* the Node family through the C15 model *)
let intern : (string, int) Stdlib.Hashtbl.t = Stdlib.Hashtbl.create 64
let hash (k : coq_N list) : coq_N =
  let s = hex_of k in
  match Stdlib.Hashtbl.find_opt intern s with
  | Some i -> Conv.n_of_int i
  | None -> let i = Stdlib.Hashtbl.length intern + 1 in Stdlib.Hashtbl.add intern s i; Conv.n_of_int i
let err_s = function EOk -> "ok" | ENotFound -> "nf" | EUnsupp -> "un" | EPanic -> "pa" | EOther -> "ot"
let b2s b = if b then "1" else "0"
let look_s (o : obs) : string =
  match o with
  | OLook (ex, va, e, ty, v) ->
    "K:" ^ b2s ex ^ b2s va ^ ":" ^ err_s e ^ ":" ^ string_of_int (int_of_nat ty) ^ ":" ^
    (match v with Some t -> tr (string_of_tree t) | None -> "-")
  | _ -> "?"

let () =
  Conv.iter_lines (fun line ->
    if line <> "" && line.[0] <> '#' then begin
      let f = Stdlib.Array.of_list (Stdlib.String.split_on_char '\t' line) in
      let toks = Stdlib.List.map tok_of (Stdlib.List.filter (fun s -> s <> "") (Stdlib.String.split_on_char ' ' f.(1))) in
      let path = if f.(2) = "." then [] else Stdlib.List.map parse_sel (Stdlib.String.split_on_char '/' f.(2)) in
      let g0 = sres_s (get_by_path false toks path) in
      let g1 = sres_s (get_by_path true toks path) in
      let (doc, _) = tree_of toks in
      let s = (match navigate path doc with NVal t -> "ok:" ^ decoded t | NNotFound -> "nf" | NInval -> "inval") in
      Stdlib.Hashtbl.reset intern;
      let n = (match decode_tree doc with
        | Some d -> let (ob, _) = Node.run_op hash path OpLook (Node.mk_value hash (RRaw, d)) in look_s ob
        | None -> "?undecodable") in
      let p = pevs_s (preorder toks) in
      let fl = pevs_s (flatten doc) in
      let skips =
        if Stdlib.Array.length f > 4 && f.(4) <> "-" && f.(4) <> "" then
          Stdlib.List.map (fun x -> nat_of_int (int_of_string x)) (Stdlib.String.split_on_char ',' f.(4))
        else [] in
      let ps = pevs_s (preorder_skip (skip_of skips) toks) in
      let fs = pevs_s (match flatten_skip (skip_of skips) doc O with Some (evs, _) -> Some evs | None -> None) in
      Stdlib.Printf.printf "%s\t%s\t%s\t%s\t%s\t%s\t%s\t%s\t%s\n" f.(0) g0 g1 s n p fl ps fs
    end)
