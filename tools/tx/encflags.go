package main

// Gen/EncFlags.v (properties C03/C12/C04): what the two encoder executors read from the option word.
//
//   - every Bit* constant of internal/encoder/alg/opts.go and the limits of internal/encoder/vars/const.go;
//   - for each IR op, the option bits its implementation tests, in source order, once for the interpreter
//     (the `case ir.OP_x:` clauses of vm.Execute: has_opts(flags, alg.BitY) / flags&(1<<alg.BitY)) and once for the
//     JIT (the _asm_OP_x functions of the x86 assembler: BTQ/BTSQ $alg.BitY, fv), so that a crossed bit in one
//     executor changes the generated constant and breaks C12_flag_bits_agree;
//   - the number of state-stack frames a save may fill in each executor (Stack.Push vs save_state).

import (
	"fmt"
	"go/ast"
	"go/token"
	"sort"
	"strings"
)

func init() { emitters["EncFlags"] = emitEncFlags }

const (
	encAlg  = mod + "/internal/encoder/alg"
	encVars = mod + "/internal/encoder/vars"
	encVM   = mod + "/internal/encoder/vm"
	encX86  = mod + "/internal/encoder/x86"
	encIR   = mod + "/internal/encoder/ir"
)

// alg.BitX selectors inside n, in source order
func algBits(w *world, p *pkgT, n ast.Node) ([]int64, error) {
	var out []int64
	var err error
	ast.Inspect(n, func(x ast.Node) bool {
		se, ok := x.(*ast.SelectorExpr)
		if !ok {
			return true
		}
		id, ok := se.X.(*ast.Ident)
		if !ok || id.Name != "alg" || !strings.HasPrefix(se.Sel.Name, "Bit") {
			return true
		}
		v, e := w.constInt(encAlg, se.Sel.Name)
		if e != nil {
			err = e
			return false
		}
		out = append(out, v)
		return true
	})
	return out, err
}

func coqBits(bs []int64) string {
	var s []string
	for _, b := range bs {
		s = append(s, fmt.Sprintf("%d%%N", b))
	}
	return "[" + strings.Join(s, "; ") + "]"
}

func emitEncFlags(w *world) (string, error) {
	var sb strings.Builder
	sb.WriteString("From Coq Require Import NArith List String.\nImport ListNotations.\nLocal Open Scope string_scope.\n\n")

	// ---- constants
	algp, err := w.pkg(encAlg)
	if err != nil {
		return "", err
	}
	var names []string
	for _, n := range algp.Types.Scope().Names() {
		if strings.HasPrefix(n, "Bit") {
			names = append(names, n)
		}
	}
	sort.Strings(names)
	if len(names) < 9 {
		return "", fmt.Errorf("alg/opts.go: expected the Bit* constants, found %v", names)
	}
	sb.WriteString("(* internal/encoder/alg/opts.go *)\n")
	for _, n := range names {
		v, err := w.constInt(encAlg, n)
		if err != nil {
			return "", err
		}
		fmt.Fprintf(&sb, "Definition gen_%s : N := %d.\n", n, v)
	}
	sb.WriteString("\n(* internal/encoder/vars/const.go, option/option.go *)\n")
	for _, n := range []string{"MaxStack", "MAX_ILBUF", "MAX_FIELDS", "StateSize", "StackLimit", "_MaxStackSP"} {
		v, err := w.constInt(encVars, n)
		if err != nil {
			return "", err
		}
		fmt.Fprintf(&sb, "Definition gen_%s : N := %d.\n", strings.TrimPrefix(n, "_"), v)
	}

	// ---- interpreter: case clauses of vm.Execute
	fd, vmp, err := w.funcDecl(encVM, "", "Execute")
	if err != nil {
		return "", err
	}
	type ent struct {
		op   string
		bits []int64
	}
	var vmTab []ent
	found := false
	ast.Inspect(fd.Body, func(x ast.Node) bool {
		sw, ok := x.(*ast.SwitchStmt)
		if !ok || found {
			return true
		}
		id, ok := sw.Tag.(*ast.Ident)
		if !ok || id.Name != "op" {
			return true
		}
		found = true
		for _, st := range sw.Body.List {
			cc := st.(*ast.CaseClause)
			for _, e := range cc.List {
				se, ok := e.(*ast.SelectorExpr)
				if !ok {
					err = fmt.Errorf("vm.Execute: unexpected case expression")
					return false
				}
				bits, e2 := algBits(w, vmp, cc)
				if e2 != nil {
					err = e2
					return false
				}
				vmTab = append(vmTab, ent{se.Sel.Name, bits})
			}
		}
		return false
	})
	if err != nil {
		return "", err
	}
	if !found || len(vmTab) < 40 {
		return "", fmt.Errorf("vm.Execute: the `switch op` over the IR ops was not found (%d clauses)", len(vmTab))
	}

	// ---- JIT: the _asm_OP_* methods
	x86p, err := w.pkg(encX86)
	if err != nil {
		return "", err
	}
	var jitTab []ent
	for _, f := range x86p.Syntax {
		for _, d := range f.Decls {
			fn, ok := d.(*ast.FuncDecl)
			if !ok || fn.Recv == nil || !strings.HasPrefix(fn.Name.Name, "_asm_OP_") {
				continue
			}
			bits, e2 := algBits(w, x86p, fn.Body)
			if e2 != nil {
				return "", e2
			}
			jitTab = append(jitTab, ent{strings.TrimPrefix(fn.Name.Name, "_asm_"), bits})
		}
	}
	if len(jitTab) < 40 {
		return "", fmt.Errorf("x86 assembler: found only %d _asm_OP_* functions", len(jitTab))
	}
	sort.Slice(vmTab, func(i, j int) bool { return vmTab[i].op < vmTab[j].op })
	sort.Slice(jitTab, func(i, j int) bool { return jitTab[i].op < jitTab[j].op })
	dump := func(name string, tab []ent) {
		fmt.Fprintf(&sb, "\nDefinition %s : list (string * list N) := [\n", name)
		for i, e := range tab {
			sep := ";"
			if i == len(tab)-1 {
				sep = ""
			}
			fmt.Fprintf(&sb, "  (\"%s\", %s)%s\n", e.op, coqBits(e.bits), sep)
		}
		sb.WriteString("].\n")
	}
	sb.WriteString("\n(* option bits tested per op, in source order *)")
	dump("vm_flag_tests", vmTab)
	dump("jit_flag_tests", jitTab)

	// ---- Go helpers shared by both executors
	sb.WriteString("\n(* option bits tested by the Go helpers both executors call *)\nDefinition shared_flag_tests : list (string * list N) := [\n")
	shared := [][3]string{
		{mod + "/internal/encoder/prim", "", "EncodeJsonMarshaler"},
		{mod + "/internal/encoder/prim", "", "EncodeTextMarshaler"},
		{encAlg, "", "IteratorStart"},
	}
	for i, sf := range shared {
		fn, p, err := w.funcDecl(sf[0], sf[1], sf[2])
		if err != nil {
			return "", err
		}
		var bits []int64
		if sf[0] == encAlg { // inside package alg the constants are unqualified
			ast.Inspect(fn.Body, func(x ast.Node) bool {
				if id, ok := x.(*ast.Ident); ok && strings.HasPrefix(id.Name, "Bit") {
					if v, e := w.constInt(encAlg, id.Name); e == nil {
						bits = append(bits, v)
					}
				}
				return true
			})
		} else {
			bits, err = algBits(w, p, fn.Body)
			if err != nil {
				return "", err
			}
		}
		sep := ";"
		if i == len(shared)-1 {
			sep = ""
		}
		fmt.Fprintf(&sb, "  (\"%s\", %s)%s\n", sf[2], coqBits(bits), sep)
	}
	sb.WriteString("].\n")

	// ---- state stack bound
	push, vp, err := w.funcDecl(encVars, "Stack", "Push")
	if err != nil {
		return "", err
	}
	vmFrames := int64(-1)
	ast.Inspect(push.Body, func(x ast.Node) bool {
		ifs, ok := x.(*ast.IfStmt)
		if !ok {
			return true
		}
		be, ok := ifs.Cond.(*ast.BinaryExpr)
		if !ok {
			return true
		}
		lim, e := evalInt(vp, be.Y)
		if e != nil {
			return true
		}
		sz, _ := w.constInt(encVars, "StateSize")
		switch be.Op {
		case token.GEQ:
			vmFrames = lim / sz
		case token.GTR:
			vmFrames = lim/sz + 1
		}
		return false
	})
	if vmFrames < 0 {
		return "", fmt.Errorf("vars.Stack.Push: bound test `sp >= limit` not recognised")
	}
	save, _, err := w.funcDecl(encX86, "Assembler", "save_state")
	if err != nil {
		return "", err
	}
	jmp := ""
	ast.Inspect(save.Body, func(x ast.Node) bool {
		ce, ok := x.(*ast.CallExpr)
		if !ok || len(ce.Args) != 2 {
			return true
		}
		se, ok := ce.Fun.(*ast.SelectorExpr)
		if !ok || se.Sel.Name != "Sjmp" {
			return true
		}
		if id, ok := ce.Args[1].(*ast.Ident); !ok || id.Name != "_LB_error_too_deep" {
			return true
		}
		if bl, ok := ce.Args[0].(*ast.BasicLit); ok {
			jmp = strings.Trim(bl.Value, "\"")
		}
		return true
	})
	limit, err := w.constInt(encVars, "StackLimit")
	if err != nil {
		return "", err
	}
	sz, _ := w.constInt(encVars, "StateSize")
	var jitFrames int64
	switch jmp {
	case "JAE": // sp+StateSize >= StackLimit fails
		jitFrames = limit/sz - 1
	case "JA":
		jitFrames = limit / sz
	default:
		return "", fmt.Errorf("x86 save_state: conditional jump to _error_too_deep not recognised (%q)", jmp)
	}
	fmt.Fprintf(&sb, "\n(* frames of vars.Stack a save may fill: Stack.Push (interpreter) / save_state (%s) *)\n", jmp)
	fmt.Fprintf(&sb, "Definition vm_stack_frames : N := %d.\nDefinition jit_stack_frames : N := %d.\n", vmFrames, jitFrames)
	return sb.String(), nil
}
