package main

import (
	"fmt"
	"go/ast"
	"go/types"
	"sort"
	"strings"
)

func init() { emitters["EntryPoints"] = emitEntryPoints }

// EntryPoints.v: (1) for every exported package-level function of the root package whose body is a single
// `return <recv>.<Method>(args)`, the delegation triple; (2) for every method of frozenConfig, the ordered
// list of calls it makes and the option fields it reads.
func emitEntryPoints(w *world) (string, error) {
	root, err := w.pkg(mod)
	if err != nil {
		return "", err
	}
	var b strings.Builder
	b.WriteString("From Coq Require Import List String.\nImport ListNotations.\nOpen Scope string_scope.\n\n")
	type deleg struct{ name, recv, method, args string }
	var ds []deleg
	type meth struct {
		name  string
		calls []string
	}
	var ms []meth
	for _, f := range root.Syntax {
		for _, d := range f.Decls {
			fd, ok := d.(*ast.FuncDecl)
			if !ok || fd.Body == nil {
				continue
			}
			if fd.Recv == nil {
				if !fd.Name.IsExported() || strings.HasPrefix(fd.Name.Name, "Verif") || len(fd.Body.List) != 1 {
					continue
				}
				rs, ok := fd.Body.List[0].(*ast.ReturnStmt)
				if !ok || len(rs.Results) != 1 {
					continue
				}
				call, ok := rs.Results[0].(*ast.CallExpr)
				if !ok {
					continue
				}
				sel, ok := call.Fun.(*ast.SelectorExpr)
				if !ok {
					continue
				}
				var args []string
				for _, a := range call.Args {
					args = append(args, types.ExprString(a))
				}
				ds = append(ds, deleg{fd.Name.Name, types.ExprString(sel.X), sel.Sel.Name, strings.Join(args, ",")})
				continue
			}
			// methods of frozenConfig
			t := fd.Recv.List[0].Type
			if s, ok := t.(*ast.StarExpr); ok {
				t = s.X
			}
			if id, ok := t.(*ast.Ident); !ok || id.Name != "frozenConfig" {
				continue
			}
			m := meth{name: fd.Name.Name}
			ast.Inspect(fd.Body, func(n ast.Node) bool {
				switch x := n.(type) {
				case *ast.CallExpr:
					m.calls = append(m.calls, "call "+types.ExprString(x.Fun))
				case *ast.SelectorExpr:
					if x.Sel.Name == "encoderOpts" || x.Sel.Name == "decoderOpts" {
						m.calls = append(m.calls, "opts "+x.Sel.Name)
					}
				case *ast.AssignStmt:
					for _, l := range x.Lhs {
						if s, ok := l.(*ast.SelectorExpr); ok {
							m.calls = append(m.calls, "assign ."+s.Sel.Name)
						}
					}
				}
				return true
			})
			ms = append(ms, m)
		}
	}
	sort.Slice(ds, func(i, j int) bool { return ds[i].name < ds[j].name })
	sort.Slice(ms, func(i, j int) bool { return ms[i].name < ms[j].name })
	b.WriteString("(* exported function |-> (receiver expression, method, arguments) when its body is one delegating return *)\n")
	b.WriteString("Definition delegations : list (string * (string * string * string)) := [\n")
	for i, d := range ds {
		sep := ";"
		if i == len(ds)-1 {
			sep = ""
		}
		fmt.Fprintf(&b, "  (%q, (%q, %q, %q))%s\n", d.name, d.recv, d.method, d.args, sep)
	}
	b.WriteString("].\n\n(* method of frozenConfig |-> calls made / option fields read / fields assigned, in source order *)\n")
	b.WriteString("Definition frozen_methods : list (string * list string) := [\n")
	for i, m := range ms {
		sep := ";"
		if i == len(ms)-1 {
			sep = ""
		}
		fmt.Fprintf(&b, "  (%q, [%s])%s\n", m.name, quoteList(m.calls), sep)
	}
	b.WriteString("].\n")
	return b.String(), nil
}
