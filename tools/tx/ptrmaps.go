package main

// Gen/PtrMaps.v: the pointer bitmaps sonic declares for its generated functions, next to the Go signatures of the
// function types those functions are cast to, and the byte sizes of the argument areas:
//   jitdec:  argPtrs / localPtrs / argPtrs_generic / localPtrs_generic, type _Decoder, _FP_args, _VD_args
//   encoder: vars.ArgPtrs / LocalPtrs / ArgPtrs_generic / LocalPtrs_generic, type vars.Encoder, x86._FP_args

import (
	"fmt"
	"go/ast"
	"go/token"
	"go/types"
	"strings"
)

func init() { emitters["PtrMaps"] = emitPtrMaps }

func wordKind(t types.Type) (string, error) {
	switch u := t.Underlying().(type) {
	case *types.Basic:
		switch {
		case u.Kind() == types.String:
			return "GString", nil
		case u.Kind() == types.UnsafePointer:
			return "GPtr", nil
		case u.Info()&(types.IsInteger|types.IsBoolean|types.IsFloat) != 0:
			return "GScalar", nil
		}
	case *types.Pointer, *types.Map, *types.Chan, *types.Signature:
		return "GPtr", nil
	case *types.Slice:
		return "GSlice", nil
	case *types.Interface:
		return "GIface", nil
	}
	return "", fmt.Errorf("type %s has no word layout in the pointer-map model", t)
}

func boolListVar(p *pkgT, name string) (string, error) {
	for _, f := range p.Syntax {
		for _, d := range f.Decls {
			gd, ok := d.(*ast.GenDecl)
			if !ok || gd.Tok != token.VAR {
				continue
			}
			for _, sp := range gd.Specs {
				vs := sp.(*ast.ValueSpec)
				for i, nm := range vs.Names {
					if nm.Name != name {
						continue
					}
					if i >= len(vs.Values) {
						return "", fmt.Errorf("%s has no initialiser", name)
					}
					cl, ok := vs.Values[i].(*ast.CompositeLit)
					if !ok {
						return "", fmt.Errorf("%s: %s is not a composite literal", p.Fset.Position(vs.Pos()), name)
					}
					var out []string
					for _, e := range cl.Elts {
						tv, ok := p.TypesInfo.Types[e]
						if !ok || tv.Value == nil {
							return "", fmt.Errorf("%s: non-constant element in %s", p.Fset.Position(e.Pos()), name)
						}
						out = append(out, tv.Value.String())
					}
					return "[" + strings.Join(out, "; ") + "]", nil
				}
			}
		}
	}
	return "", fmt.Errorf("variable %s not found in %s", name, p.PkgPath)
}

func sigOf(p *pkgT, name string) (*types.Signature, error) {
	o := p.Types.Scope().Lookup(name)
	if o == nil {
		return nil, fmt.Errorf("%s.%s not found", p.PkgPath, name)
	}
	s, ok := o.Type().Underlying().(*types.Signature)
	if !ok {
		return nil, fmt.Errorf("%s.%s is not a function type", p.PkgPath, name)
	}
	return s, nil
}

func tupleKinds(t *types.Tuple) (string, error) {
	var out []string
	for i := 0; i < t.Len(); i++ {
		k, err := wordKind(t.At(i).Type())
		if err != nil {
			return "", err
		}
		out = append(out, fmt.Sprintf("(%s, %s)", coqStr(t.At(i).Name()), k))
	}
	return "[" + strings.Join(out, "; ") + "]", nil
}

func emitPtrMaps(w *world) (string, error) {
	var b strings.Builder
	b.WriteString("From Coq Require Import String List NArith.\nImport ListNotations.\nOpen Scope string_scope.\n\n")
	b.WriteString("(* word layout classes of Go types under the stack ABI used by the stubs (8-byte words) *)\n")
	b.WriteString("Inductive gty := GPtr | GScalar | GString | GSlice | GIface.\n\n")
	jd, err := w.pkg(mod + "/internal/decoder/jitdec")
	if err != nil {
		return "", err
	}
	vars, err := w.pkg(mod + "/internal/encoder/vars")
	if err != nil {
		return "", err
	}
	for _, it := range []struct {
		p            *pkgT
		typ, coqname string
	}{{jd, "_Decoder", "decoder"}, {vars, "Encoder", "encoder"}} {
		s, err := sigOf(it.p, it.typ)
		if err != nil {
			return "", err
		}
		if s.Variadic() {
			return "", fmt.Errorf("%s is variadic", it.typ)
		}
		ps, err := tupleKinds(s.Params())
		if err != nil {
			return "", err
		}
		rs, err := tupleKinds(s.Results())
		if err != nil {
			return "", err
		}
		fmt.Fprintf(&b, "Definition %s_params : list (string * gty) := %s.\nDefinition %s_results : list (string * gty) := %s.\n\n", it.coqname, ps, it.coqname, rs)
	}
	for _, it := range []struct {
		p         *pkgT
		name, coq string
	}{{jd, "argPtrs", "jitdec_argPtrs"}, {jd, "localPtrs", "jitdec_localPtrs"}, {jd, "argPtrs_generic", "jitdec_argPtrs_generic"},
		{jd, "localPtrs_generic", "jitdec_localPtrs_generic"}, {vars, "ArgPtrs", "vars_ArgPtrs"}, {vars, "LocalPtrs", "vars_LocalPtrs"},
		{vars, "ArgPtrs_generic", "vars_ArgPtrs_generic"}, {vars, "LocalPtrs_generic", "vars_LocalPtrs_generic"}} {
		l, err := boolListVar(it.p, it.name)
		if err != nil {
			return "", err
		}
		fmt.Fprintf(&b, "Definition %s : list bool := %s.\n", it.coq, l)
	}
	b.WriteString("\n")
	for _, it := range []struct{ path, name, coq string }{
		{mod + "/internal/decoder/jitdec", "_FP_args", "jitdec_FP_args"},
		{mod + "/internal/decoder/jitdec", "_VD_args", "jitdec_VD_args"},
		{mod + "/internal/decoder/jitdec", "_FP_size", "jitdec_FP_size"},
		{mod + "/internal/decoder/jitdec", "_FP_fargs", "jitdec_FP_fargs"},
		{mod + "/internal/decoder/jitdec", "_FP_saves", "jitdec_FP_saves"},
		{mod + "/internal/decoder/jitdec", "_FP_locals", "jitdec_FP_locals"},
		{mod + "/internal/encoder/x86", "_FP_args", "encoder_FP_args"},
		{mod + "/internal/encoder/x86", "_FP_size", "encoder_FP_size"},
		{mod + "/internal/encoder/x86", "_FP_fargs", "encoder_FP_fargs"},
		{mod + "/internal/encoder/x86", "_FP_saves", "encoder_FP_saves"},
		{mod + "/internal/encoder/x86", "_FP_locals", "encoder_FP_locals"},
	} {
		v, err := w.constInt(it.path, it.name)
		if err != nil {
			return "", err
		}
		fmt.Fprintf(&b, "Definition %s : N := %d%%N.\n", it.coq, v)
	}
	return b.String(), nil
}
