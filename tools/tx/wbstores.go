package main

// Gen/WbStores.v: every store instruction the three x86 emitters generate - `self.Emit("MOV..", src, dst)` with a memory
// destination - and every call of the write-barrier helpers, per emitting function, in source order:
//   internal/decoder/jitdec  (*_Assembler) and (*_ValueDecoder),  internal/encoder/x86  (*Assembler)
// Destination classes:  Stack (base register SP, directly or through a package-level operand such as _VAR_x / _ARG_x),
// Heap r (any other base register r), Param (an obj.Addr parameter of the emitting function), Unknown (anything else).

import (
	"fmt"
	"go/ast"
	"go/types"
	"sort"
	"strings"
)

func init() { emitters["WbStores"] = emitWbStores }

type wbRow struct {
	fn, kind, mnem, src, dst, class, cond string
	line                                  int
}

func emitWbStores(w *world) (string, error) {
	var rows []wbRow
	for _, path := range []string{mod + "/internal/decoder/jitdec", mod + "/internal/encoder/x86"} {
		p, err := w.pkg(path)
		if err != nil {
			return "", err
		}
		short := path[strings.LastIndex(path, "/")+1:]
		// package-level operands: name -> class of the memory operand they denote
		pkgOps := map[string]string{}
		for _, f := range p.Syntax {
			for _, d := range f.Decls {
				gd, ok := d.(*ast.GenDecl)
				if !ok {
					continue
				}
				for _, sp := range gd.Specs {
					vs, ok := sp.(*ast.ValueSpec)
					if !ok {
						continue
					}
					for i, nm := range vs.Names {
						if i < len(vs.Values) {
							if c := memClass(p, vs.Values[i], nil, nil); c != "" {
								pkgOps[nm.Name] = c
							}
						}
					}
				}
			}
		}
		for _, f := range p.Syntax {
			fname := p.Fset.Position(f.Pos()).Filename
			if isHookFile(fname) || strings.HasSuffix(fname, "_test.go") {
				continue
			}
			for _, d := range f.Decls {
				fd, ok := d.(*ast.FuncDecl)
				if !ok || fd.Body == nil || fd.Recv == nil {
					continue
				}
				recvT := types.ExprString(fd.Recv.List[0].Type)
				params := map[string]bool{}
				for _, fl := range fd.Type.Params.List {
					if types.ExprString(fl.Type) == "obj.Addr" {
						for _, nm := range fl.Names {
							params[nm.Name] = true
						}
					}
				}
				name := short + "." + strings.TrimPrefix(recvT, "*") + "." + fd.Name.Name
				var ferr error
				// functions of this receiver that take obj.Addr parameters: their calls are recorded with the operand classes
				var visit func(n ast.Node, cond string)
				visit = func(n ast.Node, cond string) {
					if n == nil || ferr != nil {
						return
					}
					if is, ok := n.(*ast.IfStmt); ok {
						visit(is.Init, cond)
						visit(is.Cond, cond)
						c := types.ExprString(is.Cond)
						visit(is.Body, c)
						if is.Else != nil {
							visit(is.Else, "!("+c+")")
						}
						return
					}
					if ce, ok := n.(*ast.CallExpr); ok {
						if sel, ok := ce.Fun.(*ast.SelectorExpr); ok {
							line := p.Fset.Position(ce.Pos()).Line
							switch sel.Sel.Name {
							case "WritePtrAX", "WriteRecNotAX", "WritePtr":
								var args []string
								for _, a := range ce.Args {
									args = append(args, types.ExprString(a))
								}
								rows = append(rows, wbRow{name, "Barrier", sel.Sel.Name, strings.Join(args, ", "), "", "", cond, line})
							case "Emit":
								if len(ce.Args) >= 3 {
									tv, ok := p.TypesInfo.Types[ce.Args[0]]
									dst := ce.Args[len(ce.Args)-1]
									cl := memClass(p, dst, pkgOps, params)
									if !ok || tv.Value == nil {
										if cl != "" {
											ferr = fmt.Errorf("%s: Emit with a non-constant mnemonic and a memory destination", p.Fset.Position(ce.Pos()))
										}
									} else {
										mn := strings.Trim(tv.Value.ExactString(), "\"")
										if cl != "" && (strings.HasPrefix(mn, "MOV") || mn == "XCHGQ" || strings.HasPrefix(mn, "CMPXCHG") || strings.HasPrefix(mn, "VMOV")) {
											rows = append(rows, wbRow{name, "Store", mn, types.ExprString(ce.Args[1]), types.ExprString(dst), cl, cond, line})
										}
									}
								}
							default:
								// a call of another emitting method that takes operands: record the classes of the memory operands passed
								if id, ok := sel.X.(*ast.Ident); ok && id.Name == "self" {
									var cls []string
									has := false
									for _, a := range ce.Args {
										c := memClass(p, a, pkgOps, params)
										if c != "" {
											has = true
										}
										cls = append(cls, types.ExprString(a)+"="+c)
									}
									if has {
										rows = append(rows, wbRow{name, "Call", sel.Sel.Name, strings.Join(cls, "; "), "", "", cond, line})
									}
								}
							}
						}
					}
					// generic traversal of children
					ast.Inspect(n, func(c ast.Node) bool {
						if c == n || c == nil {
							return true
						}
						visit(c, cond)
						return false
					})
				}
				visit(fd.Body, "")
				if ferr != nil {
					return "", ferr
				}
			}
		}
	}
	sort.SliceStable(rows, func(i, j int) bool {
		if rows[i].fn != rows[j].fn {
			return rows[i].fn < rows[j].fn
		}
		return rows[i].line < rows[j].line
	})
	var b strings.Builder
	b.WriteString("From Coq Require Import String List.\nImport ListNotations.\nOpen Scope string_scope.\n\n")
	b.WriteString("(* (emitting function, (kind, (mnemonic | helper | callee, (source | arguments, (destination, (class, enclosing if-condition)))))) *)\n")
	b.WriteString("Definition wb_rows : list (string * (string * (string * (string * (string * (string * string)))))) :=\n  [")
	for i, r := range rows {
		if i > 0 {
			b.WriteString(";\n   ")
		}
		fmt.Fprintf(&b, "(%s, (%s, (%s, (%s, (%s, (%s, %s))))))", coqStr(r.fn), coqStr(r.kind), coqStr(r.mnem), coqStr(r.src), coqStr(r.dst), coqStr(r.class), coqStr(r.cond))
	}
	b.WriteString("].\n")
	return b.String(), nil
}

// class of a memory operand expression; "" when the expression is not (known to be) a memory operand
func memClass(p *pkgT, e ast.Expr, pkgOps map[string]string, params map[string]bool) string {
	switch v := e.(type) {
	case *ast.CallExpr:
		sel, ok := v.Fun.(*ast.SelectorExpr)
		if !ok {
			return ""
		}
		if id, ok := sel.X.(*ast.Ident); !ok || id.Name != "jit" {
			return ""
		}
		switch sel.Sel.Name {
		case "Ptr", "Sib":
			base := types.ExprString(v.Args[0])
			if base == "_SP" {
				return "Stack"
			}
			return "Heap " + base
		}
		return ""
	case *ast.Ident:
		if params != nil && params[v.Name] {
			return "Param"
		}
		if pkgOps != nil {
			if c, ok := pkgOps[v.Name]; ok {
				return c
			}
		}
		return ""
	case *ast.ParenExpr:
		return memClass(p, v.X, pkgOps, params)
	}
	return ""
}
