package main

// Gen/Access.v: every access to the shared state of the program caches, classified by syntactic position.
//
//   internal/caching/pcache.go   ProgramCache.p (the atomically published map), the fields of _ProgramMap
//   internal/decoder/jitdec/pools.go   valueCache, fieldCache (global keep-alive tables)
//
// kinds:  KAtomic          through sync/atomic
//         KUnderLock       plain, between X.Lock() and X.Unlock() (or after `defer X.Unlock()`)
//         KFresh           on an object created in this function (composite literal, copy(), rehash(), newProgramMap())
//                          that has not yet been returned / stored / converted to unsafe.Pointer
//         KImmutableRead   plain read of a _ProgramMap field (published maps are never written: see KPublishedWrite)
//         KPublishedWrite  a write (direct, or through a writer method such as insert) to a _ProgramMap that is not fresh
//         KPlain           anything else
// plus, per function, whether it is reachable from code that can run concurrently (static callers outside tests,
// verif hooks and package-level initialisers), and the normalised statement list of ProgramCache.Get/Compute/Reset
// (the text Cache/Rcu.v was transcribed from).

import (
	"bytes"
	"fmt"
	"go/ast"
	"go/printer"
	"go/token"
	"go/types"
	"sort"
	"strings"

	"golang.org/x/tools/go/packages"
)

func init() { emitters["Access"] = emitAccess }

type accRec struct {
	fn, obj string
	write   bool
	kind    string
	line    int
}

func isVerifFile(name string) bool {
	b := name[strings.LastIndex(name, "/")+1:]
	return strings.HasPrefix(b, "verif_hooks") || strings.HasSuffix(b, "_verif.go") || strings.HasPrefix(b, "verif_")
}

func funcName(fd *ast.FuncDecl) string {
	if fd.Recv != nil && len(fd.Recv.List) == 1 {
		t := fd.Recv.List[0].Type
		if s, ok := t.(*ast.StarExpr); ok {
			t = s.X
		}
		if id, ok := t.(*ast.Ident); ok {
			return id.Name + "." + fd.Name.Name
		}
	}
	return fd.Name.Name
}

func rootIdent(e ast.Expr) *ast.Ident {
	for {
		switch x := e.(type) {
		case *ast.Ident:
			return x
		case *ast.SelectorExpr:
			e = x.X
		case *ast.IndexExpr:
			e = x.X
		case *ast.StarExpr:
			e = x.X
		case *ast.ParenExpr:
			e = x.X
		case *ast.UnaryExpr:
			e = x.X
		default:
			return nil
		}
	}
}

type accWalker struct {
	p       *packages.Package
	fn      string
	recv    string
	locked  int
	fresh   map[string]bool
	alias   map[string]bool // local pointer aliases into the receiver (b := &self.b[p])
	out     *[]accRec
	writers map[string]bool // writer methods of _ProgramMap
}

func (w *accWalker) line(n ast.Node) int { return w.p.Fset.Position(n.Pos()).Line }

func (w *accWalker) add(obj string, write bool, kind string, n ast.Node) {
	*w.out = append(*w.out, accRec{w.fn, obj, write, kind, w.line(n)})
}

// field selected by sel, as "Struct.field", if it is one of the tracked ones
func (w *accWalker) trackedField(sel *ast.SelectorExpr) string {
	s, ok := w.p.TypesInfo.Selections[sel]
	if !ok || s.Kind() != types.FieldVal {
		return ""
	}
	t := s.Recv()
	if pt, ok := t.(*types.Pointer); ok {
		t = pt.Elem()
	}
	nt, ok := t.(*types.Named)
	if !ok {
		return ""
	}
	switch nt.Obj().Name() + "." + sel.Sel.Name {
	case "ProgramCache.p", "_ProgramMap.n", "_ProgramMap.m", "_ProgramMap.b":
		return nt.Obj().Name() + "." + sel.Sel.Name
	}
	return ""
}

func (w *accWalker) trackedGlobal(id *ast.Ident) string {
	o := w.p.TypesInfo.Uses[id]
	v, ok := o.(*types.Var)
	if !ok || v.IsField() || v.Parent() != w.p.Types.Scope() {
		return ""
	}
	switch v.Name() {
	case "valueCache", "fieldCache":
		return v.Name()
	}
	return ""
}

func isAtomicCall(p *packages.Package, c *ast.CallExpr) (string, bool) {
	sel, ok := c.Fun.(*ast.SelectorExpr)
	if !ok {
		return "", false
	}
	id, ok := sel.X.(*ast.Ident)
	if !ok {
		return "", false
	}
	if pn, ok := p.TypesInfo.Uses[id].(*types.PkgName); ok && pn.Imported().Path() == "sync/atomic" {
		return sel.Sel.Name, true
	}
	return "", false
}

func isFreshExpr(e ast.Expr) bool {
	switch x := e.(type) {
	case *ast.UnaryExpr:
		if x.Op == token.AND {
			_, ok := x.X.(*ast.CompositeLit)
			return ok
		}
	case *ast.CallExpr:
		switch f := x.Fun.(type) {
		case *ast.SelectorExpr:
			return f.Sel.Name == "copy" || f.Sel.Name == "rehash" || f.Sel.Name == "add"
		case *ast.Ident:
			return f.Name == "newProgramMap"
		}
	}
	return false
}

// classify a plain (non-atomic) access whose root object is `root`
func (w *accWalker) plainKind(root *ast.Ident, obj string, write bool) string {
	name := ""
	if root != nil {
		name = root.Name
	}
	if strings.HasPrefix(obj, "_ProgramMap.") {
		if w.fresh[name] {
			return "KFresh"
		}
		if !write {
			return "KImmutableRead"
		}
		if name == w.recv || w.alias[name] {
			return "KRecvWrite" // resolved at the call sites of this (writer) method
		}
		return "KPublishedWrite"
	}
	if w.locked > 0 {
		return "KUnderLock"
	}
	return "KPlain"
}

func (w *accWalker) expr(e ast.Expr, write bool) {
	switch x := e.(type) {
	case nil:
	case *ast.Ident:
		if g := w.trackedGlobal(x); g != "" {
			w.add(g, write, w.plainKind(nil, g, write), x)
		}
	case *ast.SelectorExpr:
		if f := w.trackedField(x); f != "" {
			w.add(f, write, w.plainKind(rootIdent(x.X), f, write), x)
		}
		w.expr(x.X, false)
	case *ast.IndexExpr:
		// b[i] = v writes the array reached through b
		w.expr(x.X, write)
		w.expr(x.Index, false)
	case *ast.StarExpr:
		w.expr(x.X, write)
	case *ast.ParenExpr:
		w.expr(x.X, write)
	case *ast.UnaryExpr:
		w.expr(x.X, write)
	case *ast.BinaryExpr:
		w.expr(x.X, false)
		w.expr(x.Y, false)
	case *ast.CompositeLit:
		for _, el := range x.Elts {
			if kv, ok := el.(*ast.KeyValueExpr); ok {
				// initialisation of a field of a brand-new object
				if id, ok := kv.Key.(*ast.Ident); ok {
					if tv, ok := w.p.TypesInfo.Types[x]; ok {
						if nt, ok := tv.Type.(*types.Named); ok {
							switch nt.Obj().Name() + "." + id.Name {
							case "ProgramCache.p", "_ProgramMap.n", "_ProgramMap.m", "_ProgramMap.b":
								w.add(nt.Obj().Name()+"."+id.Name, true, "KFresh", kv)
							}
						}
					}
				}
				w.expr(kv.Value, false)
			} else {
				w.expr(el, false)
			}
		}
	case *ast.CallExpr:
		if name, ok := isAtomicCall(w.p, x); ok && len(x.Args) > 0 {
			wr := strings.HasPrefix(name, "Store") || strings.HasPrefix(name, "Add") || strings.HasPrefix(name, "Swap") || strings.HasPrefix(name, "CompareAndSwap")
			if u, ok := x.Args[0].(*ast.UnaryExpr); ok && u.Op == token.AND {
				if sel, ok := u.X.(*ast.SelectorExpr); ok {
					if f := w.trackedField(sel); f != "" {
						kind := "KAtomic"
						root := rootIdent(sel.X)
						if strings.HasPrefix(f, "_ProgramMap.") && wr && root != nil && !w.fresh[root.Name] {
							if root.Name == w.recv || w.alias[root.Name] {
								kind = "KRecvWrite"
							} else {
								kind = "KPublishedWrite"
							}
						}
						w.add(f, wr, kind, x)
						w.expr(sel.X, false)
						for _, a := range x.Args[1:] {
							w.escape(a)
							w.expr(a, false)
						}
						return
					}
				}
			}
		}
		// call of a writer method: the receiver must be fresh
		if sel, ok := x.Fun.(*ast.SelectorExpr); ok && w.writers[sel.Sel.Name] {
			if s, ok := w.p.TypesInfo.Selections[sel]; ok && s.Kind() == types.MethodVal {
				root := rootIdent(sel.X)
				kind := "KPublishedWrite"
				if root != nil && w.fresh[root.Name] {
					kind = "KFresh"
				} else if root != nil && root.Name == w.recv && w.writers[strings.TrimPrefix(w.fn, "_ProgramMap.")] {
					kind = "KRecvWrite"
				}
				w.add("_ProgramMap(via "+sel.Sel.Name+")", true, kind, x)
			}
		}
		w.expr(x.Fun, false)
		for _, a := range x.Args {
			w.expr(a, false)
		}
	case *ast.SliceExpr:
		w.expr(x.X, write)
	case *ast.TypeAssertExpr:
		w.expr(x.X, false)
	case *ast.KeyValueExpr:
		w.expr(x.Value, false)
	case *ast.FuncLit:
		w.block(x.Body)
	case *ast.BasicLit, *ast.ArrayType, *ast.StructType, *ast.MapType, *ast.InterfaceType, *ast.FuncType, *ast.Ellipsis:
	default:
		panic(fmt.Sprintf("access: unsupported expression %T at line %d", e, w.line(e)))
	}
}

// an identifier handed to the outside world stops being fresh
func (w *accWalker) escape(e ast.Expr) {
	ast.Inspect(e, func(n ast.Node) bool {
		if c, ok := n.(*ast.CallExpr); ok {
			// method calls on the object do not publish it; conversions and other calls do
			if sel, ok := c.Fun.(*ast.SelectorExpr); ok {
				if _, isMethod := w.p.TypesInfo.Selections[sel]; isMethod {
					for _, a := range c.Args {
						w.escape(a)
					}
					return false
				}
			}
		}
		if id, ok := n.(*ast.Ident); ok {
			delete(w.fresh, id.Name)
		}
		return true
	})
}

func (w *accWalker) lockCall(s ast.Stmt) (string, bool) {
	es, ok := s.(*ast.ExprStmt)
	if !ok {
		return "", false
	}
	c, ok := es.X.(*ast.CallExpr)
	if !ok {
		return "", false
	}
	sel, ok := c.Fun.(*ast.SelectorExpr)
	if !ok || (sel.Sel.Name != "Lock" && sel.Sel.Name != "Unlock" && sel.Sel.Name != "RLock" && sel.Sel.Name != "RUnlock") {
		return "", false
	}
	if tv, ok := w.p.TypesInfo.Types[sel.X]; ok && strings.Contains(tv.Type.String(), "sync.") {
		return sel.Sel.Name, true
	}
	return "", false
}

func (w *accWalker) block(b *ast.BlockStmt) {
	if b == nil {
		return
	}
	for _, s := range b.List {
		w.stmt(s)
	}
}

func (w *accWalker) stmt(s ast.Stmt) {
	if k, ok := w.lockCall(s); ok {
		if k == "Lock" || k == "RLock" {
			w.locked++
		} else {
			w.locked--
		}
		return
	}
	switch x := s.(type) {
	case nil, *ast.EmptyStmt, *ast.BranchStmt:
	case *ast.DeferStmt:
		// `defer X.Unlock()`: the lock stays held until the function returns
		if sel, ok := x.Call.Fun.(*ast.SelectorExpr); ok && (sel.Sel.Name == "Unlock" || sel.Sel.Name == "RUnlock") {
			return
		}
		w.expr(x.Call, false)
	case *ast.ExprStmt:
		w.expr(x.X, false)
	case *ast.IncDecStmt:
		w.expr(x.X, true)
	case *ast.AssignStmt:
		for _, r := range x.Rhs {
			w.expr(r, false)
		}
		for i, l := range x.Lhs {
			if id, ok := l.(*ast.Ident); ok && i < len(x.Rhs) && len(x.Lhs) == len(x.Rhs) {
				if isFreshExpr(x.Rhs[i]) {
					w.fresh[id.Name] = true
				} else {
					delete(w.fresh, id.Name)
					// pointer alias into the receiver: b := &self.b[p]
					if u, ok := x.Rhs[i].(*ast.UnaryExpr); ok && u.Op == token.AND {
						if r := rootIdent(u.X); r != nil && (r.Name == w.recv || w.alias[r.Name]) {
							w.alias[id.Name] = true
						}
					}
					if r := rootIdent(x.Rhs[i]); r != nil && x.Tok == token.ASSIGN {
						// storing an object somewhere else publishes it
					}
				}
				if w.trackedGlobal(id) != "" {
					w.expr(l, true)
				}
				continue
			}
			w.expr(l, true)
			if i < len(x.Rhs) {
				w.escape(x.Rhs[i])
			}
		}
	case *ast.DeclStmt:
		if gd, ok := x.Decl.(*ast.GenDecl); ok {
			for _, sp := range gd.Specs {
				if vs, ok := sp.(*ast.ValueSpec); ok {
					for _, v := range vs.Values {
						w.expr(v, false)
					}
				}
			}
		}
	case *ast.ReturnStmt:
		for _, r := range x.Results {
			w.expr(r, false)
			w.escape(r)
		}
	case *ast.IfStmt:
		w.stmt(x.Init)
		w.expr(x.Cond, false)
		w.block(x.Body)
		w.stmt(x.Else)
	case *ast.BlockStmt:
		w.block(x)
	case *ast.ForStmt:
		w.stmt(x.Init)
		w.expr(x.Cond, false)
		w.stmt(x.Post)
		w.block(x.Body)
	case *ast.RangeStmt:
		w.expr(x.X, false)
		w.block(x.Body)
	default:
		panic(fmt.Sprintf("access: unsupported statement %T at line %d", s, w.line(s)))
	}
}

func emitAccess(w *world) (out string, err error) {
	defer func() {
		if r := recover(); r != nil {
			err = fmt.Errorf("%v", r)
		}
	}()
	const cachePath = mod + "/internal/caching"
	const jitdecPath = mod + "/internal/decoder/jitdec"
	// phase 1 (cheap): import graph of the module; phase 2: full load of the packages that can reference the
	// caches (internal/caching, internal/encoder/vars, jitdec and everything importing caching or vars)
	const varsPath = mod + "/internal/encoder/vars"
	light, err := packages.Load(&packages.Config{Mode: packages.NeedName | packages.NeedImports, Fset: token.NewFileSet(),
		BuildFlags: []string{"-tags=verif"}}, mod+"/...")
	if err != nil {
		return "", err
	}
	need := []string{cachePath, varsPath, jitdecPath}
	for _, lp := range light {
		if _, ok := lp.Imports[cachePath]; ok {
			need = append(need, lp.PkgPath)
		} else if _, ok := lp.Imports[varsPath]; ok {
			need = append(need, lp.PkgPath)
		}
	}
	sort.Strings(need)
	if err := w.load(need...); err != nil {
		return "", err
	}
	loaded := map[string]bool{}
	for _, n := range need {
		loaded[n] = true
	}
	cp, jp := w.pkgs[cachePath], w.pkgs[jitdecPath]
	if cp == nil || jp == nil {
		return "", fmt.Errorf("packages not loaded")
	}
	var recs []accRec
	var stmts [][2]string // function, normalised statement
	// writer methods of _ProgramMap: assign through the receiver (or an alias of it) or atomically add to its fields
	writers := map[string]bool{}
	analyse := func(p *packages.Package, fileSuffix string, only map[string]bool, pass int) {
		for _, f := range p.Syntax {
			fname := p.Fset.Position(f.Pos()).Filename
			if !strings.HasSuffix(fname, fileSuffix) {
				continue
			}
			for _, d := range f.Decls {
				fd, ok := d.(*ast.FuncDecl)
				if !ok || fd.Body == nil {
					continue
				}
				name := funcName(fd)
				if only != nil && !only[name] {
					continue
				}
				var tmp []accRec
				aw := &accWalker{p: p, fn: name, fresh: map[string]bool{}, alias: map[string]bool{}, out: &tmp, writers: writers}
				if fd.Recv != nil && len(fd.Recv.List[0].Names) == 1 {
					aw.recv = fd.Recv.List[0].Names[0].Name
				}
				aw.block(fd.Body)
				if pass == 0 {
					for _, r := range tmp {
						if r.kind == "KRecvWrite" {
							writers[fd.Name.Name] = true
						}
					}
				} else {
					recs = append(recs, tmp...)
					if name == "ProgramCache.Get" || name == "ProgramCache.Compute" || name == "ProgramCache.Reset" || name == "_ProgramMap.add" {
						for _, s := range fd.Body.List {
							var b bytes.Buffer
							printer.Fprint(&b, token.NewFileSet(), s)
							stmts = append(stmts, [2]string{name, strings.Join(strings.Fields(b.String()), " ")})
						}
					}
				}
			}
		}
	}
	// two passes over pcache.go until the set of writer methods is stable (a writer calling a writer on its receiver)
	for i := 0; i < 3; i++ {
		analyse(cp, "/pcache.go", nil, 0)
	}
	analyse(cp, "/pcache.go", nil, 1)
	analyse(jp, "/pools.go", map[string]bool{"freezeValue": true, "freezeFields": true}, 1)

	// ---- reachability: static callers outside tests / verif hooks / package-level initialisers
	type fkey = *types.Func
	callers := map[fkey]map[fkey]bool{}
	escapes := map[fkey]bool{} // referenced as a value (not called): assume reachable
	for _, p := range w.pkgs {
		if !loaded[p.PkgPath] {
			continue
		}
		for _, f := range p.Syntax {
			if isVerifFile(p.Fset.Position(f.Pos()).Filename) {
				continue
			}
			// function values (referenced, not called) may be invoked from anywhere later: treat as reachable
			inCallPos := map[*ast.Ident]bool{}
			ast.Inspect(f, func(n ast.Node) bool {
				if c, ok := n.(*ast.CallExpr); ok {
					switch fn := c.Fun.(type) {
					case *ast.Ident:
						inCallPos[fn] = true
					case *ast.SelectorExpr:
						inCallPos[fn.Sel] = true
					}
				}
				return true
			})
			ast.Inspect(f, func(n ast.Node) bool {
				if id, ok := n.(*ast.Ident); ok && !inCallPos[id] {
					if fo, ok := p.TypesInfo.Uses[id].(*types.Func); ok {
						escapes[fo] = true
					}
				}
				return true
			})
			for _, d := range f.Decls {
				fd, ok := d.(*ast.FuncDecl)
				if !ok || fd.Body == nil {
					continue // calls inside package-level var initialisers run at init time, single-threaded
				}
				encl, _ := p.TypesInfo.Defs[fd.Name].(*types.Func)
				ast.Inspect(fd.Body, func(n ast.Node) bool {
					if x, ok := n.(*ast.CallExpr); ok {
						var id *ast.Ident
						switch fn := x.Fun.(type) {
						case *ast.Ident:
							id = fn
						case *ast.SelectorExpr:
							id = fn.Sel
						}
						if id != nil {
							if callee, ok := p.TypesInfo.Uses[id].(*types.Func); ok {
								if callers[callee] == nil {
									callers[callee] = map[fkey]bool{}
								}
								callers[callee][encl] = true
							}
						}
					}
					return true
				})
			}
		}
	}
	isRoot := func(f *types.Func) bool {
		if f == nil || f.Pkg() == nil {
			return true
		}
		if f.Name() == "main" || f.Name() == "init" {
			return f.Name() == "main"
		}
		// exported functions of the loaded packages other than caching / vars can be called from packages that were not
		// loaded (conservative); caching and vars are only referenced from loaded packages
		pp := f.Pkg().Path()
		return f.Exported() && pp != cachePath && pp != varsPath && !strings.HasSuffix(pp, "/verifx")
	}
	var reach func(f *types.Func, seen map[fkey]bool) bool
	reach = func(f *types.Func, seen map[fkey]bool) bool {
		if seen[f] {
			return false
		}
		seen[f] = true
		if isRoot(f) || escapes[f] {
			return true
		}
		// exported methods/functions of internal packages are only reachable through callers inside the module
		for c := range callers[f] {
			if reach(c, seen) {
				return true
			}
		}
		return false
	}
	lookupFunc := func(p *packages.Package, name string) *types.Func {
		if i := strings.IndexByte(name, '.'); i >= 0 {
			o := p.Types.Scope().Lookup(name[:i])
			if o == nil {
				return nil
			}
			ms := types.NewMethodSet(types.NewPointer(o.Type()))
			for j := 0; j < ms.Len(); j++ {
				if ms.At(j).Obj().Name() == name[i+1:] {
					return ms.At(j).Obj().(*types.Func)
				}
			}
			return nil
		}
		f, _ := p.Types.Scope().Lookup(name).(*types.Func)
		return f
	}
	fnames := map[string]*packages.Package{}
	for _, r := range recs {
		if strings.HasPrefix(r.fn, "freeze") {
			fnames[r.fn] = jp
		} else {
			fnames[r.fn] = cp
		}
	}
	var names []string
	for n := range fnames {
		names = append(names, n)
	}
	sort.Strings(names)

	var b strings.Builder
	b.WriteString("From Coq Require Import NArith List String.\nImport ListNotations.\nOpen Scope string_scope.\nOpen Scope N_scope.\n\n")
	b.WriteString("Inductive acc_kind := KAtomic | KUnderLock | KFresh | KImmutableRead | KRecvWrite | KPublishedWrite | KPlain.\n")
	b.WriteString("Record access := mkAcc { ac_func : string; ac_obj : string; ac_write : bool; ac_kind : acc_kind; ac_line : N }.\n\n")
	b.WriteString("Definition accesses : list access := [\n")
	for i, r := range recs {
		sep := ";"
		if i == len(recs)-1 {
			sep = ""
		}
		fmt.Fprintf(&b, "  mkAcc %s %s %v %s %d%s\n", coqStr(r.fn), coqStr(r.obj), r.write, r.kind, r.line, sep)
	}
	b.WriteString("].\n\n(* can the function run concurrently with other API calls?  (static callers outside tests, verif hooks, initialisers) *)\n")
	b.WriteString("Definition api_reachable : list (string * bool) := [\n")
	for i, n := range names {
		f := lookupFunc(fnames[n], n)
		if f == nil {
			return "", fmt.Errorf("function %s not found", n)
		}
		sep := ";"
		if i == len(names)-1 {
			sep = ""
		}
		fmt.Fprintf(&b, "  (%s, %v)%s\n", coqStr(n), reach(f, map[fkey]bool{}), sep)
	}
	b.WriteString("].\n\n(* methods of _ProgramMap that write through their receiver *)\nDefinition writer_methods : list string := [")
	var ws []string
	for k := range writers {
		ws = append(ws, coqStr(k))
	}
	sort.Strings(ws)
	b.WriteString(strings.Join(ws, "; "))
	b.WriteString("].\n\n(* the top-level statements of the RCU entry points, normalised (go/printer, whitespace collapsed) *)\n")
	b.WriteString("Definition rcu_source : list (string * string) := [\n")
	for i, s := range stmts {
		sep := ";"
		if i == len(stmts)-1 {
			sep = ""
		}
		fmt.Fprintf(&b, "  (%s, %s)%s\n", coqStr(s[0]), coqStr(s[1]), sep)
	}
	b.WriteString("].\n")
	return b.String(), nil
}
