package main

// Gen/LoaderMap.v: HOW loader.Load (loader/loader_latest.go) maps the loaded functions back to its inputs.
//
//	by name   : ids[i] = funcs[i].Name before makeModuledata; afterwards, for every id, a scan of the (sorted) funcs
//	            comparing f.Name == id  (the pinned code: two inputs with one name get the same function)
//	by offset : offs[i] = funcs[i].EntryOff before makeModuledata; afterwards out[i] = mod.text + offs[i]
//
// Cache/LoadMap.v follows this flag, so repairing the loader changes the model (and which theorem is non-vacuous)
// instead of breaking the tie.  Any other shape is an error.

import (
	"fmt"
	"go/ast"
	"go/token"
)

func init() { emitters["LoaderMap"] = emitLoaderMap }

func emitLoaderMap(w *world) (out string, err error) {
	defer func() {
		if r := recover(); r != nil {
			err = fmt.Errorf("%v", r)
		}
	}()
	fd, p, err := w.funcDecl(mod+"/loader", "", "Load")
	if err != nil {
		return "", err
	}
	pos := func(n ast.Node) string { return p.Fset.Position(n.Pos()).String() }
	var nameCmp, outAssign int
	var mkPos token.Pos
	offsVar := ""
	var offsPos token.Pos
	rangeOverOffs := false
	ast.Inspect(fd.Body, func(n ast.Node) bool {
		switch x := n.(type) {
		case *ast.BinaryExpr:
			if x.Op == token.EQL || x.Op == token.NEQ || x.Op == token.GEQ || x.Op == token.LEQ || x.Op == token.LSS || x.Op == token.GTR {
				for _, side := range []ast.Expr{x.X, x.Y} {
					if s, ok := side.(*ast.SelectorExpr); ok && s.Sel.Name == "Name" {
						if x.Op != token.EQL {
							panic(fmt.Sprintf("%s: function names compared with %s", pos(x), x.Op))
						}
						nameCmp++
					}
				}
			}
		case *ast.CallExpr:
			if id, ok := x.Fun.(*ast.Ident); ok && id.Name == "makeModuledata" {
				mkPos = x.Pos()
			}
		case *ast.AssignStmt:
			if len(x.Lhs) == 1 && len(x.Rhs) == 1 {
				if ix, ok := x.Lhs[0].(*ast.IndexExpr); ok {
					if id, ok := ix.X.(*ast.Ident); ok {
						if id.Name == "out" {
							outAssign++
						}
						if s, ok := x.Rhs[0].(*ast.SelectorExpr); ok && s.Sel.Name == "EntryOff" {
							offsVar, offsPos = id.Name, x.Pos()
						}
					}
				}
			}
		}
		return true
	})
	if offsVar != "" {
		ast.Inspect(fd.Body, func(n ast.Node) bool {
			if r, ok := n.(*ast.RangeStmt); ok && r.Pos() > mkPos {
				if id, ok := r.X.(*ast.Ident); ok && id.Name == offsVar {
					if v, ok := r.Value.(*ast.Ident); ok {
						uses := false
						ast.Inspect(r.Body, func(m ast.Node) bool {
							if b, ok := m.(*ast.BinaryExpr); ok && b.Op == token.ADD {
								if s, ok := b.X.(*ast.SelectorExpr); ok && s.Sel.Name == "text" {
									if c, ok := b.Y.(*ast.CallExpr); ok && len(c.Args) == 1 {
										if a, ok := c.Args[0].(*ast.Ident); ok && a.Name == v.Name {
											uses = true
										}
									}
								}
							}
							return true
						})
						rangeOverOffs = uses
					}
				}
			}
			return true
		})
	}
	if mkPos == token.NoPos || outAssign != 1 {
		return "", fmt.Errorf("%s: loader.Load has an unrecognised shape (makeModuledata call / out[i] assignment)", pos(fd))
	}
	byName := nameCmp == 1 && offsVar == ""
	byOffset := nameCmp == 0 && offsVar != "" && offsPos < mkPos && rangeOverOffs
	if byName == byOffset {
		return "", fmt.Errorf("%s: cannot tell how loader.Load maps results back to its inputs (name comparisons: %d, offsets recorded in %q)", pos(fd), nameCmp, offsVar)
	}
	return fmt.Sprintf("(* loader.Load maps the loaded functions back to its inputs %s *)\nDefinition load_maps_by_name : bool := %v.\n",
		map[bool]string{true: "BY NAME (last function with that name wins)", false: "by the entry offset recorded before the sort"}[byName], byName), nil
}
