package main

// Gen/Consts.v: resource-limit constants on the Go side and the C side of /repo.  The equalities between the
// paired constants (native/types.h MAX_RECURSE vs types.MAX_RECURSE, array lengths vs the limits compared
// against, ...) are theorems in Safe/ConstsOk.v, so an edit of one side breaks the proof.

import (
	"fmt"
	"go/ast"
	"go/token"
	"go/types"
	"os"
	"path/filepath"
	"regexp"
	"strconv"
	"strings"
)

func init() { emitters["Consts"] = emitConsts }

type csGo struct{ coq, path, name string }

var csGoConsts = []csGo{
	{"go_types_MAX_RECURSE", mod + "/internal/native/types", "MAX_RECURSE"},
	{"go_types_BufPaddingSize", mod + "/internal/native/types", "BufPaddingSize"},
	{"go_types_MaxDigitNums", mod + "/internal/native/types", "MaxDigitNums"},
	{"go_jitdec_MaxStack", mod + "/internal/decoder/jitdec", "_MaxStack"},
	{"go_jitdec_MaxStackBytes", mod + "/internal/decoder/jitdec", "_MaxStackBytes"},
	{"go_jitdec_PtrBytes", mod + "/internal/decoder/jitdec", "_PtrBytes"},
	{"go_jitdec_MaxDigitNums", mod + "/internal/decoder/jitdec", "_MaxDigitNums"},
	{"go_jitdec_MinSlice", mod + "/internal/decoder/jitdec", "_MinSlice"},
	{"go_decconsts_MaxStack", mod + "/internal/decoder/consts", "MaxStack"},
	{"go_encvars_MaxStack", mod + "/internal/encoder/vars", "MaxStack"},
	{"go_encvars_StateSize", mod + "/internal/encoder/vars", "StateSize"},
	{"go_encvars_StackLimit", mod + "/internal/encoder/vars", "StackLimit"},
	{"go_encvars_MaxStackSP", mod + "/internal/encoder/vars", "_MaxStackSP"},
	{"go_ast_DEFAULT_NODE_CAP", mod + "/ast", "_DEFAULT_NODE_CAP"},
	{"go_types_ERR_RECURSE_EXCEED_MAX", mod + "/internal/native/types", "ERR_RECURSE_EXCEED_MAX"},
}

// package-level variables with a constant initialiser
var csGoVars = []csGo{
	{"go_option_LimitBufferSize", mod + "/option", "LimitBufferSize"},
	{"go_option_DefaultEncoderBufferSize", mod + "/option", "DefaultEncoderBufferSize"},
	{"go_option_DefaultDecoderBufferSize", mod + "/option", "DefaultDecoderBufferSize"},
	{"go_option_DefaultAstBufferSize", mod + "/option", "DefaultAstBufferSize"},
}

// lengths of array-typed struct fields: (coq name, package, struct type, field)
var csArrays = [][4]string{
	{"go_types_StateMachine_Vt_len", mod + "/internal/native/types", "StateMachine", "Vt"},
	{"go_jitdec_Stack_sb_len", mod + "/internal/decoder/jitdec", "_Stack", "sb"},
	{"go_jitdec_Stack_vp_len", mod + "/internal/decoder/jitdec", "_Stack", "vp"},
	{"go_jitdec_Stack_dp_len", mod + "/internal/decoder/jitdec", "_Stack", "dp"},
	{"go_encvars_Stack_sb_len", mod + "/internal/encoder/vars", "Stack", "sb"},
}

var (
	csReDefine  = regexp.MustCompile(`(?m)^\s*#define\s+([A-Z_0-9]+)\s+\(?(-?\d+)\)?\s*(?://.*|/\*.*)?$`)
	csReVtArray = regexp.MustCompile(`(?m)^\s*int64_t\s+vt\[([A-Z_0-9]+)\];`)
	csRePush    = regexp.MustCompile(`(?s)fsm_push\(StateMachine \*self, int vt\)\s*\{\s*if \(self->sp >= ([A-Z_0-9]+)\)\s*\{\s*return -([A-Z_0-9]+);`)
)

func emitConsts(w *world) (string, error) {
	var b strings.Builder
	b.WriteString("From Coq Require Import ZArith.\nOpen Scope Z_scope.\n\n")
	var paths []string
	for _, c := range csGoConsts {
		paths = append(paths, c.path)
	}
	for _, c := range csGoVars {
		paths = append(paths, c.path)
	}
	if err := w.load(pfDedupe(paths)...); err != nil {
		return "", err
	}
	for _, c := range csGoConsts {
		v, err := w.constInt(c.path, c.name)
		if err != nil {
			return "", err
		}
		fmt.Fprintf(&b, "Definition %s : Z := %d. (* %s.%s *)\n", c.coq, v, c.path, c.name)
	}
	for _, c := range csGoVars {
		p, err := w.pkg(c.path)
		if err != nil {
			return "", err
		}
		v, err := pfVarInit(p, c.name)
		if err != nil {
			return "", err
		}
		fmt.Fprintf(&b, "Definition %s : Z := %d. (* initial value of the variable %s.%s *)\n", c.coq, v, c.path, c.name)
	}
	for _, a := range csArrays {
		p, err := w.pkg(a[1])
		if err != nil {
			return "", err
		}
		o := p.Types.Scope().Lookup(a[2])
		if o == nil {
			return "", fmt.Errorf("type %s.%s not found", a[1], a[2])
		}
		st, ok := o.Type().Underlying().(*types.Struct)
		if !ok {
			return "", fmt.Errorf("%s.%s is not a struct", a[1], a[2])
		}
		found := false
		for i := 0; i < st.NumFields(); i++ {
			if st.Field(i).Name() == a[3] {
				at, ok := st.Field(i).Type().Underlying().(*types.Array)
				if !ok {
					return "", fmt.Errorf("%s.%s.%s is not an array", a[1], a[2], a[3])
				}
				fmt.Fprintf(&b, "Definition %s : Z := %d. (* len of %s.%s.%s *)\n", a[0], at.Len(), a[1], a[2], a[3])
				found = true
			}
		}
		if !found {
			return "", fmt.Errorf("field %s.%s.%s not found", a[1], a[2], a[3])
		}
	}
	// the length of the message table indexed by ParsingError.Message
	tp, err := w.pkg(mod + "/internal/native/types")
	if err != nil {
		return "", err
	}
	n, err := pfLiteralLen(tp, "_ParsingErrors")
	if err != nil {
		return "", err
	}
	fmt.Fprintf(&b, "Definition go_types_ParsingErrors_len : Z := %d.\n", n)

	// ---- C side
	dir := filepath.Join(*repo, "native")
	th, err := os.ReadFile(filepath.Join(dir, "types.h"))
	if err != nil {
		return "", err
	}
	cdef := map[string]int64{}
	for _, m := range csReDefine.FindAllStringSubmatch(string(th), -1) {
		v, _ := strconv.ParseInt(m[2], 10, 64)
		cdef[m[1]] = v
	}
	for _, k := range []string{"MAX_RECURSE", "ERR_RECURSE_MAX"} {
		v, ok := cdef[k]
		if !ok {
			return "", fmt.Errorf("native/types.h: #define %s not found", k)
		}
		fmt.Fprintf(&b, "Definition c_%s : Z := %d. (* native/types.h *)\n", k, v)
	}
	nh, err := os.ReadFile(filepath.Join(dir, "native.h"))
	if err != nil {
		return "", err
	}
	m := csReVtArray.FindStringSubmatch(string(nh))
	if m == nil {
		return "", fmt.Errorf("native/native.h: StateMachine.vt array not found")
	}
	v, ok := cdef[m[1]]
	if !ok {
		return "", fmt.Errorf("native/native.h: vt[%s]: unknown macro", m[1])
	}
	fmt.Fprintf(&b, "Definition c_StateMachine_vt_len : Z := %d. (* native/native.h: int64_t vt[%s] *)\n", v, m[1])
	sh, err := os.ReadFile(filepath.Join(dir, "scanning.h"))
	if err != nil {
		return "", err
	}
	m = csRePush.FindStringSubmatch(string(sh))
	if m == nil {
		return "", fmt.Errorf("native/scanning.h: fsm_push does not have the shape `if (self->sp >= LIMIT) return -ERR`")
	}
	v, ok = cdef[m[1]]
	if !ok {
		return "", fmt.Errorf("native/scanning.h: fsm_push limit %s: unknown macro", m[1])
	}
	e, ok := cdef[m[2]]
	if !ok {
		return "", fmt.Errorf("native/scanning.h: fsm_push error %s: unknown macro", m[2])
	}
	fmt.Fprintf(&b, "Definition c_fsm_push_limit : Z := %d. (* native/scanning.h fsm_push: sp >= %s *)\n", v, m[1])
	fmt.Fprintf(&b, "Definition c_fsm_push_error : Z := %d. (* native/scanning.h fsm_push: return -%s *)\n", e, m[2])

	// ---- limits compared against in Go code (syntactic)
	lim, err := csCompareLimit(w, mod+"/internal/encoder/vars", "Stack", "Push", "s.sp")
	if err != nil {
		return "", err
	}
	fmt.Fprintf(&b, "Definition go_encvars_Push_limit : Z := %d. (* vars.Stack.Push: `if uintptr(s.sp) >= <limit>` returns false *)\n", lim)
	return b.String(), nil
}

// value of L in the first statement `if <..lhs..> >= L { return false }` of the method
func csCompareLimit(w *world, path, recv, name, lhs string) (int64, error) {
	fd, p, err := w.funcDecl(path, recv, name)
	if err != nil {
		return 0, err
	}
	if len(fd.Body.List) == 0 {
		return 0, fmt.Errorf("%s.%s: empty body", recv, name)
	}
	is, ok := fd.Body.List[0].(*ast.IfStmt)
	if !ok {
		return 0, fmt.Errorf("%s.%s: the first statement is no longer the depth test", recv, name)
	}
	be, ok := is.Cond.(*ast.BinaryExpr)
	if !ok || be.Op != token.GEQ {
		return 0, fmt.Errorf("%s.%s: the depth test is no longer `>=`", recv, name)
	}
	var sb strings.Builder
	fmtNode(&sb, p, be.X)
	if !strings.Contains(sb.String(), lhs) {
		return 0, fmt.Errorf("%s.%s: the depth test does not compare %s", recv, name, lhs)
	}
	if len(is.Body.List) != 1 {
		return 0, fmt.Errorf("%s.%s: unexpected depth-test body", recv, name)
	}
	if r, ok := is.Body.List[0].(*ast.ReturnStmt); !ok || len(r.Results) != 1 {
		return 0, fmt.Errorf("%s.%s: the depth test does not return", recv, name)
	} else if id, ok := r.Results[0].(*ast.Ident); !ok || id.Name != "false" {
		return 0, fmt.Errorf("%s.%s: the depth test does not return false", recv, name)
	}
	return evalInt(p, be.Y)
}

func fmtNode(sb *strings.Builder, p *pkgT, n ast.Node) {
	f := &pfFn{p: p}
	sb.WriteString(f.src(n))
}
