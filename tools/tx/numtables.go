package main

// Gen/NumTables.v (C19): the two-digit table of the number printers (native/tab.h `Digits`) and, from
// internal/decoder/jitdec/assembler_regabi_amd64.go, which range check every integer opcode emits and with
// which constants (`_asm_OP_i8` ... `_asm_OP_map_key_u64`), plus the instruction sequence of the three
// range-check emitters themselves.  Anything not of the expected shape is an error.

import (
	"fmt"
	"go/ast"
	"os"
	"path/filepath"
	"regexp"
	"strconv"
	"strings"
)

func init() { emitters["NumTables"] = emitNumTables }

const jitdecPkg = mod + "/internal/decoder/jitdec"

// the (single) call of a method of `self` with the given name inside fd, nil if absent; error if more than one
func selfCalls(fd *ast.FuncDecl, names ...string) ([]*ast.CallExpr, error) {
	var out []*ast.CallExpr
	ast.Inspect(fd.Body, func(n ast.Node) bool {
		c, ok := n.(*ast.CallExpr)
		if !ok {
			return true
		}
		s, ok := c.Fun.(*ast.SelectorExpr)
		if !ok {
			return true
		}
		for _, nm := range names {
			if s.Sel.Name == nm {
				out = append(out, c)
			}
		}
		return true
	})
	return out, nil
}

func emitNumTables(w *world) (string, error) {
	var b strings.Builder
	b.WriteString("From Coq Require Import NArith ZArith Bool List String.\nImport ListNotations.\nOpen Scope Z_scope.\n\n")

	// ---- native/tab.h: Digits
	raw, err := os.ReadFile(filepath.Join(*repo, "native", "tab.h"))
	if err != nil {
		return "", err
	}
	src := stripC(string(raw))
	m := regexp.MustCompile(`(?s)static\s+const\s+char\s+Digits\s*\[\s*200\s*\]\s*=\s*\{(.*?)\}\s*;`).FindStringSubmatch(src)
	if m == nil {
		return "", fmt.Errorf("native/tab.h: Digits[200] not found")
	}
	var vals []string
	for _, f := range strings.Split(m[1], ",") {
		f = strings.TrimSpace(f)
		if f == "" {
			continue
		}
		v, err := cCharValue(f)
		if err != nil {
			return "", fmt.Errorf("native/tab.h Digits: %v", err)
		}
		vals = append(vals, strconv.Itoa(v))
	}
	if len(vals) != 200 {
		return "", fmt.Errorf("native/tab.h: Digits has %d initialisers, want 200", len(vals))
	}
	b.WriteString("(* native/tab.h: static const char Digits[200] *)\n")
	fmt.Fprintf(&b, "Definition Digits_tab : list N := [%s]%%N.\n\n", strings.Join(vals, "; "))

	// ---- jitdec: range check per opcode
	b.WriteString("(* internal/decoder/jitdec/assembler_regabi_amd64.go: the range check emitted by each integer opcode *)\n")
	b.WriteString("Inductive rchk := RSigned (a b : Z) | RUnsigned (v : Z) | RUint32 | RNone.\n\n")
	ops := []string{"i8", "i16", "i32", "i64", "u8", "u16", "u32", "u64",
		"map_key_i8", "map_key_i16", "map_key_i32", "map_key_i64", "map_key_u8", "map_key_u16", "map_key_u32", "map_key_u64"}
	for _, op := range ops {
		fd, p, err := w.funcDecl(jitdecPkg, "_Assembler", "_asm_OP_"+op)
		if err != nil {
			return "", err
		}
		calls, _ := selfCalls(fd, "range_signed_CX", "range_unsigned_CX", "range_uint32_CX", "range_single_X0")
		parse, _ := selfCalls(fd, "parse_signed", "parse_unsigned")
		wantParse := "parse_signed"
		if strings.Contains(op, "u") {
			wantParse = "parse_unsigned"
		}
		if len(parse) != 1 || parse[0].Fun.(*ast.SelectorExpr).Sel.Name != wantParse {
			return "", fmt.Errorf("_asm_OP_%s: expected exactly one call of %s", op, wantParse)
		}
		val := "RNone"
		switch {
		case len(calls) == 0:
		case len(calls) > 1:
			return "", fmt.Errorf("_asm_OP_%s: more than one range check", op)
		default:
			c := calls[0]
			switch c.Fun.(*ast.SelectorExpr).Sel.Name {
			case "range_signed_CX":
				if len(c.Args) != 4 {
					return "", fmt.Errorf("_asm_OP_%s: range_signed_CX arity", op)
				}
				lo, err := evalInt(p, c.Args[2])
				if err != nil {
					return "", err
				}
				hi, err := evalInt(p, c.Args[3])
				if err != nil {
					return "", err
				}
				val = fmt.Sprintf("RSigned (%d) (%d)", lo, hi)
			case "range_unsigned_CX":
				if len(c.Args) != 3 {
					return "", fmt.Errorf("_asm_OP_%s: range_unsigned_CX arity", op)
				}
				tv, ok := p.TypesInfo.Types[c.Args[2]]
				if !ok || tv.Value == nil {
					return "", fmt.Errorf("_asm_OP_%s: bound is not a constant", op)
				}
				val = fmt.Sprintf("RUnsigned (%s)", tv.Value.ExactString())
			case "range_uint32_CX":
				val = "RUint32"
			default:
				return "", fmt.Errorf("_asm_OP_%s: unexpected range check %s", op, c.Fun.(*ast.SelectorExpr).Sel.Name)
			}
		}
		fmt.Fprintf(&b, "Definition op_%s : rchk := %s.\n", op, val)
	}

	// ---- the emitters: mnemonic / jump sequence
	b.WriteString("\n(* instruction sequence emitted by the range check routines: Emit mnemonics and Sjmp conditions, in order *)\n")
	b.WriteString("Open Scope string_scope.\n")
	for _, fn := range []string{"range_signed_CX", "range_unsigned_CX", "range_uint32_CX"} {
		fd, _, err := w.funcDecl(jitdecPkg, "_Assembler", fn)
		if err != nil {
			return "", err
		}
		var seq []string
		for _, st := range fd.Body.List {
			es, ok := st.(*ast.ExprStmt)
			if !ok {
				return "", fmt.Errorf("%s: unsupported statement", fn)
			}
			c, ok := es.X.(*ast.CallExpr)
			if !ok {
				return "", fmt.Errorf("%s: unsupported statement", fn)
			}
			s, ok := c.Fun.(*ast.SelectorExpr)
			if !ok || (s.Sel.Name != "Emit" && s.Sel.Name != "Sjmp") || len(c.Args) < 1 {
				return "", fmt.Errorf("%s: only self.Emit / self.Sjmp are understood", fn)
			}
			lit, ok := c.Args[0].(*ast.BasicLit)
			if !ok {
				return "", fmt.Errorf("%s: mnemonic is not a literal", fn)
			}
			mn, err := strconv.Unquote(lit.Value)
			if err != nil {
				return "", err
			}
			item := mn
			if s.Sel.Name == "Emit" && len(c.Args) == 3 {
				// operands, printed from the source text (registers / immediates are identifiers and calls)
				var ops []string
				for _, a := range c.Args[1:] {
					ops = append(ops, exprText(a))
				}
				item += " " + strings.Join(ops, ",")
			} else if s.Sel.Name == "Sjmp" {
				item += " " + exprText(c.Args[1])
			}
			seq = append(seq, strconv.Quote(item))
		}
		fmt.Fprintf(&b, "Definition code_%s : list string := [%s].\n", fn, strings.Join(seq, "; "))
	}
	return b.String(), nil
}

func exprText(e ast.Expr) string {
	switch x := e.(type) {
	case *ast.Ident:
		return x.Name
	case *ast.BasicLit:
		return strings.Trim(x.Value, `"`)
	case *ast.SelectorExpr:
		return exprText(x.X) + "." + x.Sel.Name
	case *ast.CallExpr:
		var as []string
		for _, a := range x.Args {
			as = append(as, exprText(a))
		}
		return exprText(x.Fun) + "(" + strings.Join(as, ",") + ")"
	}
	return "?"
}
