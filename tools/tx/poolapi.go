package main

// Gen/PoolApi.v: the buffer-ownership programs of the pooled APIs, extracted from the Go source.
// For every control-flow path of Encode (with encodeFinishWithPool inlined), EncodeInto, EncodeIndented,
// StreamEncoder.Encode and ast Node.MarshalJSON the ordered buffer events
//   NewBytes / newBuffer / NewBuffer (pool get), make / dirtmake (fresh), writes and reads of a buffer,
//   `x = *buf` / `x = buf.Bytes()` (a second name for the same array), the `*buf, *dst = F(*dst, *buf), *buf` swap,
//   FreeBytes / freeBuffer / FreeBuffer (pool put), `return x` (hand-over to the caller)
// are lowered to the move instructions of Pools/Pool.v (registers are allocated per variable; a second name shares the
// register of the first).  If a path uses a buffer after it was put into a pool or handed over - "return the pooled
// buffer without copying" - the second name is lowered to `Alias`, so the generated program is no longer linear and
// Pools/ApiGen.v (gen_programs_linear) fails.  A statement that mentions a tracked buffer in a shape the emitter does not
// know is an error.

import (
	"fmt"
	"go/ast"
	"regexp"
	"sort"
	"strings"
)

func init() { emitters["PoolApi"] = emitPoolApi }

type paEv struct {
	kind string // get fresh borrow wr rd bind swap put ret fin finishcopy
	a, b string
	k    int
}

type paFn struct {
	coq, path, recv, name string
	borrow                []string // *[]byte parameters lent by the caller
}

var paFns = []paFn{
	{"Encode", mod + "/internal/encoder", "", "Encode", nil},
	{"EncodeInto", mod + "/internal/encoder", "", "EncodeInto", []string{"buf"}},
	{"EncodeIndented", mod + "/internal/encoder", "", "EncodeIndented", nil},
	{"StreamEncoder_Encode", mod + "/internal/encoder", "StreamEncoder", "Encode", nil},
	{"Node_MarshalJSON", mod + "/ast", "Node", "MarshalJSON", nil},
}

type paCtx struct {
	w       *world
	p       *pkgT
	f       *pfFn
	tracked map[string]bool
	inline  map[string]*ast.FuncDecl
}

func (c *paCtx) src(n ast.Node) string {
	s := c.f.src(n)
	return strings.Join(strings.Fields(s), " ")
}
func (c *paCtx) pos(n ast.Node) string { return c.p.Fset.Position(n.Pos()).String() }

type paRule struct {
	re *regexp.Regexp
	f  func(m []string) []paEv
}

var paPools = map[string]int{"vars.NewBytes": 0, "vars.NewBuffer": 1, "newBuffer": 2, "vars.FreeBytes": 0, "vars.FreeBuffer": 1, "freeBuffer": 2}

var paRules = []paRule{
	{regexp.MustCompile(`^(\w+) :?= (vars\.NewBytes|vars\.NewBuffer|newBuffer)\(\)$`), func(m []string) []paEv { return []paEv{{kind: "get", a: m[1], k: paPools[m[2]]}} }},
	{regexp.MustCompile(`^(vars\.FreeBytes|vars\.FreeBuffer|freeBuffer)\((\w+)\)$`), func(m []string) []paEv { return []paEv{{kind: "put", a: m[2], k: paPools[m[1]]}} }},
	{regexp.MustCompile(`^(\w+) = (?:dirtmake\.Bytes|make)\(.*\)$`), func(m []string) []paEv { return []paEv{{kind: "fresh", a: m[1]}} }},
	{regexp.MustCompile(`^copy\((\w+), (?:\*(\w+)|(\w+)\.Bytes\(\)|\(\*(\w+)\)\[:\w*\])\)$`), func(m []string) []paEv {
		s := m[2] + m[3] + m[4]
		return []paEv{{kind: "rd", a: s}, {kind: "wr", a: m[1], b: "nogrow"}}
	}},
	{regexp.MustCompile(`^(\w+) :?= (?:\*(\w+)|(\w+)\.Bytes\(\))$`), func(m []string) []paEv { return []paEv{{kind: "bind", a: m[1], b: m[2] + m[3]}} }},
	{regexp.MustCompile(`^err :?= (?:encodeIntoCheckRace|EncodeInto|self\.encode)\((\w+)(?:, .*)?\)$`), func(m []string) []paEv { return []paEv{{kind: "wr", a: m[1]}} }},
	{regexp.MustCompile(`^err = json\.Indent\((\w+), \*(\w+), .*\)$`), func(m []string) []paEv { return []paEv{{kind: "rd", a: m[2]}, {kind: "wr", a: m[1]}} }},
	{regexp.MustCompile(`^\*(\w+), \*(\w+) = (?:HTMLEscape|utf8\.CorrectWith)\(\*(\w+), \*(\w+)(?:, .*)?\), \*(\w+)$`), func(m []string) []paEv {
		if m[1] != m[4] || m[1] != m[5] || m[2] != m[3] {
			return nil
		}
		return []paEv{{kind: "swap", a: m[1], b: m[2]}}
	}},
	{regexp.MustCompile(`^\*(\w+) = encodeFinish\(\*(\w+), opts\)$`), func(m []string) []paEv {
		if m[1] != m[2] {
			return nil
		}
		return []paEv{{kind: "finishcopy", a: m[1]}}
	}},
	{regexp.MustCompile(`^(\w+)\.WriteByte\(.*\)$`), func(m []string) []paEv { return []paEv{{kind: "wr", a: m[1]}} }},
	{regexp.MustCompile(`^\*(\w+) = append\(\*(\w+), .*\)$`), func(m []string) []paEv {
		if m[1] != m[2] {
			return nil
		}
		return []paEv{{kind: "wr", a: m[1]}}
	}},
	{regexp.MustCompile(`^_, err = io\.Copy\(enc\.w, (\w+)\)$`), func(m []string) []paEv { return []paEv{{kind: "rd", a: m[1]}} }},
	{regexp.MustCompile(`^n, err = enc\.w\.Write\((\w+)\)$`), func(m []string) []paEv { return []paEv{{kind: "rd", a: m[1]}} }},
	{regexp.MustCompile(`^(\w+) = (\w+)\[n:\]$`), func(m []string) []paEv {
		if m[1] != m[2] {
			return nil
		}
		return []paEv{}
	}},
	{regexp.MustCompile(`^var (\w+) (?:\[\]byte|\*bytes\.Buffer)$`), func(m []string) []paEv { return []paEv{} }},
}

var paWord = regexp.MustCompile(`\w+`)

func (c *paCtx) mentionsTracked(s string) string {
	for _, w := range paWord.FindAllString(s, -1) {
		if c.tracked[w] {
			return w
		}
	}
	return ""
}

type paPath struct {
	evs  []paEv
	done bool
}

func paClone(ps []paPath) []paPath {
	out := make([]paPath, len(ps))
	for i, p := range ps {
		out[i] = paPath{append([]paEv{}, p.evs...), p.done}
	}
	return out
}

func paAdd(ps []paPath, evs ...paEv) []paPath {
	for i := range ps {
		if !ps[i].done {
			ps[i].evs = append(ps[i].evs, evs...)
		}
	}
	return ps
}

// statements of a function body; labels maps label name -> index in the top-level list (for forward gotos)
func (c *paCtx) block(list []ast.Stmt, ps []paPath, top []ast.Stmt, rename map[string]string, depth int) ([]paPath, error) {
	var err error
	for i, s := range list {
		ps, err = c.stmt(s, ps, list[i+1:], top, rename, depth)
		if err != nil {
			return nil, err
		}
		if len(ps) > 512 {
			return nil, fmt.Errorf("%s: too many paths", c.pos(s))
		}
	}
	return ps, nil
}

func (c *paCtx) ren(evs []paEv, rename map[string]string) []paEv {
	for i := range evs {
		if r, ok := rename[evs[i].a]; ok {
			evs[i].a = r
		}
		if r, ok := rename[evs[i].b]; ok {
			evs[i].b = r
		}
	}
	return evs
}

func (c *paCtx) stmt(s ast.Stmt, ps []paPath, rest []ast.Stmt, top []ast.Stmt, rename map[string]string, depth int) ([]paPath, error) {
	switch s := s.(type) {
	case *ast.BlockStmt:
		return c.block(s.List, ps, top, rename, depth)
	case *ast.LabeledStmt:
		return c.stmt(s.Stmt, ps, rest, top, rename, depth)
	case *ast.IfStmt:
		if s.Init != nil {
			return nil, fmt.Errorf("%s: if with an init statement", c.pos(s))
		}
		a, b := paClone(ps), paClone(ps)
		ta, err := c.block(s.Body.List, a, top, rename, depth)
		if err != nil {
			return nil, err
		}
		if s.Else != nil {
			if b, err = c.stmt(s.Else, b, nil, top, rename, depth); err != nil {
				return nil, err
			}
		}
		return append(ta, b...), nil
	case *ast.ForStmt:
		// the loops in these functions only read (w.Write(buf); buf = buf[n:]): body taken zero times or once
		a, b := paClone(ps), paClone(ps)
		ta, err := c.block(s.Body.List, a, top, rename, depth)
		if err != nil {
			return nil, err
		}
		return append(ta, b...), nil
	case *ast.BranchStmt:
		if s.Tok.String() != "goto" {
			return nil, fmt.Errorf("%s: unsupported branch statement", c.pos(s))
		}
		// continue at the labelled top-level statement; the paths are finished there
		for i, t := range top {
			if l, ok := t.(*ast.LabeledStmt); ok && l.Label.Name == s.Label.Name {
				live := []paPath{}
				var deadp []paPath
				for _, p := range ps {
					if p.done {
						deadp = append(deadp, p)
					} else {
						live = append(live, p)
					}
				}
				out, err := c.block(top[i:], live, top, rename, depth)
				if err != nil {
					return nil, err
				}
				for j := range out {
					if !out[j].done {
						out[j].evs = append(out[j].evs, paEv{kind: "fin"})
						out[j].done = true
					}
				}
				return append(out, deadp...), nil
			}
		}
		return nil, fmt.Errorf("%s: goto to an unknown label", c.pos(s))
	case *ast.ReturnStmt:
		var evs []paEv
		if len(s.Results) > 0 {
			first := c.src(s.Results[0])
			if c.tracked[first] || rename[first] != "" {
				evs = append(evs, paEv{kind: "ret", a: first})
			} else if w := c.mentionsTracked(first); w != "" {
				return nil, fmt.Errorf("%s: a tracked buffer is returned in an unknown shape: %s", c.pos(s), first)
			}
		}
		evs = append(evs, paEv{kind: "fin"})
		ps = paAdd(ps, c.ren(evs, rename)...)
		for i := range ps {
			ps[i].done = true
		}
		return ps, nil
	}
	txt := c.src(s)
	// inlined helper
	if m := regexp.MustCompile(`^encodeFinishWithPool\((\w+), opts\)$`).FindStringSubmatch(txt); m != nil {
		fd := c.inline["encodeFinishWithPool"]
		if fd == nil || depth > 2 {
			return nil, fmt.Errorf("%s: cannot inline encodeFinishWithPool", c.pos(s))
		}
		param := fd.Type.Params.List[0].Names[0].Name
		arg := m[1]
		if r, ok := rename[arg]; ok {
			arg = r
		}
		sub := map[string]string{param: arg}
		// names local to the helper get a prefix so that they do not clash
		for _, st := range fd.Body.List {
			ast.Inspect(st, func(n ast.Node) bool {
				if as, ok := n.(*ast.AssignStmt); ok && as.Tok.String() == ":=" {
					for _, l := range as.Lhs {
						if id, ok := l.(*ast.Ident); ok && id.Name != "_" {
							sub[id.Name] = "fin_" + id.Name
							c.tracked["fin_"+id.Name] = true
							c.tracked[id.Name] = true
						}
					}
				}
				return true
			})
		}
		c.tracked[param] = true
		out, err := c.block(fd.Body.List, ps, fd.Body.List, sub, depth+1)
		if err != nil {
			return nil, err
		}
		return out, nil
	}
	for _, r := range paRules {
		if m := r.re.FindStringSubmatch(txt); m != nil {
			evs := r.f(m)
			if evs == nil {
				return nil, fmt.Errorf("%s: inconsistent buffer statement: %s", c.pos(s), txt)
			}
			for _, e := range evs {
				c.tracked[e.a] = true
				if e.kind == "bind" {
					c.tracked[e.b] = true
				}
			}
			return paAdd(ps, c.ren(evs, rename)...), nil
		}
	}
	if w := c.mentionsTracked(txt); w != "" {
		// conditions and pure reads of len/cap are fine inside expressions of other statements; anything else is unknown
		if regexp.MustCompile(`^(err|_|n)( :?= |, err :?= )`).MatchString(txt) || strings.HasPrefix(txt, "runtime.KeepAlive") {
			return nil, fmt.Errorf("%s: the buffer %s is used by an unknown call: %s", c.pos(s), w, txt)
		}
		return nil, fmt.Errorf("%s: the buffer %s is used in an unknown statement: %s", c.pos(s), w, txt)
	}
	return ps, nil
}

// ---- lowering to the instruction set of Pools/Pool.v

var paRegs = []string{"RB", "RD", "RR"}

func paLower(evs []paEv, borrow []string, grow, reuse, aliasMode bool) ([]string, bool, error) {
	reg := map[string]string{}    // name -> register
	full := map[string]bool{}     // register holds a reference
	lent := map[string]bool{}     // register holds the caller's buffer
	used := map[string]bool{}     // register allocated
	var out []string
	alloc := func() (string, error) {
		for _, r := range paRegs {
			if !used[r] {
				used[r] = true
				return r, nil
			}
		}
		// reuse an allocated but empty register
		for _, r := range paRegs {
			if !full[r] {
				return r, nil
			}
		}
		return "", fmt.Errorf("more than three buffers live at once")
	}
	need := func(name string) (string, bool, error) {
		r, ok := reg[name]
		if !ok {
			return "", false, fmt.Errorf("buffer %s used before it was obtained", name)
		}
		return r, full[r], nil
	}
	for _, b := range borrow {
		r, err := alloc()
		if err != nil {
			return nil, false, err
		}
		reg[b], full[r], lent[r] = r, true, true
		out = append(out, fmt.Sprintf("Move FromOwned (ToReg %s)", r))
	}
	wr := func(r string, g bool) {
		out = append(out, "Wr "+r)
		if g {
			if lent[r] {
				out = append(out, fmt.Sprintf("Move (FromReg %s) ToOwned", r)) // the caller keeps its old array
			} else {
				out = append(out, fmt.Sprintf("Move (FromReg %s) ToNowhere", r))
			}
			out = append(out, fmt.Sprintf("Move FromFresh (ToReg %s)", r), "Wr "+r)
		}
	}
	for _, e := range evs {
		switch e.kind {
		case "get", "fresh":
			r, err := alloc()
			if err != nil {
				return nil, false, err
			}
			if full[r] {
				return nil, false, fmt.Errorf("register clash for %s", e.a)
			}
			reg[e.a], full[r], lent[r] = r, true, false
			if e.kind == "get" {
				out = append(out, fmt.Sprintf("Move (FromPoolOrFresh %d) (ToReg %s)", e.k, r))
			} else {
				out = append(out, fmt.Sprintf("Move FromFresh (ToReg %s)", r))
			}
		case "bind":
			r, ok, err := need(e.b)
			if err != nil {
				return nil, false, err
			}
			if !ok {
				return nil, true, nil
			}
			if aliasMode {
				r2, err := alloc()
				if err != nil {
					return nil, false, err
				}
				reg[e.a], full[r2], lent[r2] = r2, true, lent[r]
				out = append(out, fmt.Sprintf("Alias %s %s", r2, r))
			} else {
				reg[e.a] = r
			}
		case "wr", "rd":
			r, ok, err := need(e.a)
			if err != nil {
				return nil, false, err
			}
			if !ok {
				return nil, true, nil
			}
			if e.kind == "rd" {
				out = append(out, "Rd "+r)
			} else {
				wr(r, grow && e.b != "nogrow")
			}
		case "swap":
			ra, oka, err := need(e.a)
			if err != nil {
				return nil, false, err
			}
			rb, okb, err := need(e.b)
			if err != nil {
				return nil, false, err
			}
			if !oka || !okb {
				return nil, true, nil
			}
			out = append(out, "Rd "+ra)
			wr(rb, grow)
			out = append(out, fmt.Sprintf("SwapR %s %s", ra, rb))
		case "finishcopy":
			// *buf = encodeFinish(*buf, opts): unchanged, or a fresh escaped copy (HTMLEscape(nil, buf)); the old array stays the caller's
			r, ok, err := need(e.a)
			if err != nil {
				return nil, false, err
			}
			if !ok {
				return nil, true, nil
			}
			if grow {
				r2, err := alloc()
				if err != nil {
					return nil, false, err
				}
				out = append(out, fmt.Sprintf("Move FromFresh (ToReg %s)", r2), "Rd "+r, "Wr "+r2)
				if lent[r] {
					out = append(out, fmt.Sprintf("Move (FromReg %s) ToOwned", r))
				} else {
					out = append(out, fmt.Sprintf("Move (FromReg %s) ToNowhere", r))
				}
				out = append(out, fmt.Sprintf("SwapR %s %s", r, r2))
				lent[r] = true // the result belongs to the caller as well
			}
		case "put":
			r, ok, err := need(e.a)
			if err != nil {
				return nil, false, err
			}
			if !ok {
				return nil, true, nil
			}
			if reuse {
				out = append(out, fmt.Sprintf("Move (FromReg %s) (ToPool %d)", r, e.k))
			} else {
				out = append(out, fmt.Sprintf("Move (FromReg %s) ToNowhere", r))
			}
			full[r] = false
		case "ret":
			r, ok, err := need(e.a)
			if err != nil {
				return nil, false, err
			}
			if !ok {
				return nil, true, nil
			}
			out = append(out, fmt.Sprintf("Move (FromReg %s) ToOwned", r))
			full[r] = false
		case "fin":
			for _, r := range paRegs {
				if full[r] {
					if lent[r] {
						out = append(out, fmt.Sprintf("Move (FromReg %s) ToOwned", r))
					} else {
						out = append(out, fmt.Sprintf("Move (FromReg %s) ToNowhere", r))
					}
					full[r] = false
				}
			}
		}
	}
	return out, false, nil
}

func emitPoolApi(w *world) (string, error) {
	var b strings.Builder
	b.WriteString("From Coq Require Import List String.\nFrom SV.Pools Require Import Pool.\nImport ListNotations.\nOpen Scope string_scope.\n\n")
	b.WriteString("(* pools: 0 = vars.bytesPool, 1 = vars.bufferPool, 2 = ast bytesPool *)\n")
	b.WriteString("Definition gen_programs : list (string * list instr) := [\n")
	var rows []string
	count := map[string]int{}
	for _, fn := range paFns {
		fd, p, err := w.funcDecl(fn.path, fn.recv, fn.name)
		if err != nil {
			return "", err
		}
		c := &paCtx{w: w, p: p, f: &pfFn{p: p}, tracked: map[string]bool{}, inline: map[string]*ast.FuncDecl{}}
		if fn.name == "Encode" && fn.recv == "" {
			ifd, _, err := w.funcDecl(fn.path, "", "encodeFinishWithPool")
			if err != nil {
				return "", err
			}
			c.inline["encodeFinishWithPool"] = ifd
		}
		for _, bn := range fn.borrow {
			c.tracked[bn] = true
		}
		// the shape of the pool helpers the events stand for
		paths, err := c.block(fd.Body.List, []paPath{{}}, fd.Body.List, map[string]string{}, 0)
		if err != nil {
			return "", fmt.Errorf("%s: %v", fn.coq, err)
		}
		seen := map[string]bool{}
		for _, pth := range paths {
			evs := pth.evs
			if !pth.done {
				evs = append(evs, paEv{kind: "fin"})
			}
			for _, grow := range []bool{false, true} {
				for _, reuse := range []bool{true, false} {
					prog, uam, err := paLower(evs, fn.borrow, grow, reuse, false)
					if err != nil {
						return "", fmt.Errorf("%s: %v", fn.coq, err)
					}
					if uam {
						// a buffer is used after it went to a pool / the caller through another name: aliasing
						prog, uam, err = paLower(evs, fn.borrow, grow, reuse, true)
						if err != nil {
							return "", fmt.Errorf("%s: %v", fn.coq, err)
						}
						if uam {
							return "", fmt.Errorf("%s: a buffer is used after it was returned to its pool or handed to the caller (path: %v)", fn.coq, evs)
						}
					}
					s := "[" + strings.Join(prog, "; ") + "]"
					if !seen[s] {
						seen[s] = true
						count[fn.coq]++
						rows = append(rows, fmt.Sprintf("  (%s, %s)", csCoqStr(fn.coq), s))
					}
				}
			}
		}
	}
	b.WriteString(strings.Join(rows, ";\n"))
	b.WriteString("\n].\n\n")
	var names []string
	for k := range count {
		names = append(names, k)
	}
	sort.Strings(names)
	for _, k := range names {
		fmt.Fprintf(&b, "(* %s: %d program variants *)\n", k, count[k])
	}
	fmt.Fprintf(&b, "Definition n_gen_programs : nat := %d.\n", len(rows))
	// shape of the pool helpers
	if err := paCheckHelpers(w); err != nil {
		return "", err
	}
	return b.String(), nil
}

// vars.NewBytes / FreeBytes, ast newBuffer / freeBuffer must be what the events assume: Get-or-make, and Put guarded by CanSizeResue after [:0]
func paCheckHelpers(w *world) error {
	chk := func(path, name string, must ...string) error {
		fd, p, err := w.funcDecl(path, "", name)
		if err != nil {
			return err
		}
		f := &pfFn{p: p}
		body := strings.Join(strings.Fields(f.src(fd.Body)), " ")
		for _, m := range must {
			if !strings.Contains(body, m) {
				return fmt.Errorf("%s.%s no longer contains `%s`: the pool events need re-reading", path, name, m)
			}
		}
		return nil
	}
	if err := chk(mod+"/internal/encoder/vars", "NewBytes", "bytesPool.Get()", "make([]byte, 0, option.DefaultEncoderBufferSize)"); err != nil {
		return err
	}
	if err := chk(mod+"/internal/encoder/vars", "FreeBytes", "if rt.CanSizeResue(cap(*p)) {", "(*p) = (*p)[:0]", "bytesPool.Put(p)"); err != nil {
		return err
	}
	if err := chk(mod+"/internal/encoder/vars", "FreeBuffer", "if rt.CanSizeResue(cap(p.Bytes())) {", "p.Reset()", "bufferPool.Put(p)"); err != nil {
		return err
	}
	if err := chk(mod+"/ast", "newBuffer", "bytesPool.Get()", "make([]byte, 0, option.DefaultAstBufferSize)"); err != nil {
		return err
	}
	return chk(mod+"/ast", "freeBuffer", "if !rt.CanSizeResue(cap(*buf)) { return }", "*buf = (*buf)[:0]", "bytesPool.Put(buf)")
}
