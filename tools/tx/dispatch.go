package main

// Gen/Dispatch.v: the SIMD dispatch of internal/native (dispatch_amd64.go) as data:
//   - the package-level function variables (`__Quote` ...) and subroutine-address variables (`S_quote` ...),
//   - the assignment tables of useAVX2 / useSSE (lhs |-> package.symbol), plus the `pkg.Use()` call,
//   - for every exported wrapper the function variable it calls,
//   - the if-chain of init(),
//   - the registration tables of avx2.Use / sse.Use (text blob, cfunc table, symbol, &S_x, &F_x, package tag, file).
// Any statement shape that is not understood is an error (tie broken), never skipped.

import (
	"fmt"
	"go/ast"
	"go/token"
	"go/types"
	"sort"
	"strconv"
	"strings"
)

func init() { emitters["Dispatch"] = emitDispatch }

func coqStr(s string) string { return "\"" + strings.ReplaceAll(s, "\"", "\"\"") + "\"" }

func emitDispatch(w *world) (string, error) {
	path := mod + "/internal/native"
	p, err := w.pkg(path)
	if err != nil {
		return "", err
	}
	pos := func(n ast.Node) string { return p.Fset.Position(n.Pos()).String() }
	var b strings.Builder
	b.WriteString("From Coq Require Import String List.\nImport ListNotations.\nOpen Scope string_scope.\n\n")

	// ---- package-level variables
	var funcVars, symVars []string
	for _, f := range p.Syntax {
		for _, d := range f.Decls {
			gd, ok := d.(*ast.GenDecl)
			if !ok || gd.Tok != token.VAR {
				continue
			}
			for _, sp := range gd.Specs {
				vs := sp.(*ast.ValueSpec)
				for _, nm := range vs.Names {
					obj := p.TypesInfo.Defs[nm]
					if obj == nil {
						continue
					}
					switch t := obj.Type().Underlying().(type) {
					case *types.Signature:
						funcVars = append(funcVars, nm.Name)
					case *types.Basic:
						if t.Kind() == types.Uintptr && strings.HasPrefix(nm.Name, "S_") {
							symVars = append(symVars, nm.Name)
						}
					}
				}
			}
		}
	}
	sort.Strings(funcVars)
	sort.Strings(symVars)
	fmt.Fprintf(&b, "(* package-level variables of function type declared in internal/native *)\nDefinition func_vars : list string := [%s].\n\n", coqList(funcVars))
	fmt.Fprintf(&b, "(* package-level subroutine address variables (uintptr, named S_...) *)\nDefinition sym_vars : list string := [%s].\n\n", coqList(symVars))

	// ---- useAVX2 / useSSE
	for _, fn := range []string{"useAVX2", "useSSE"} {
		fd, _, err := w.funcDecl(path, "", fn)
		if err != nil {
			return "", err
		}
		var calls, assigns []string
		for _, s := range fd.Body.List {
			switch s := s.(type) {
			case *ast.ExprStmt:
				ce, ok := s.X.(*ast.CallExpr)
				if !ok || len(ce.Args) != 0 {
					return "", fmt.Errorf("%s: unsupported statement in %s", pos(s), fn)
				}
				pk, sym, err := pkgSel(p, ce.Fun)
				if err != nil {
					return "", fmt.Errorf("%s: %v", pos(s), err)
				}
				if len(assigns) != 0 {
					return "", fmt.Errorf("%s: %s.%s() called after assignments in %s (the model assumes it runs first)", pos(s), pk, sym, fn)
				}
				calls = append(calls, fmt.Sprintf("(%s, %s)", coqStr(pk), coqStr(sym)))
			case *ast.AssignStmt:
				if s.Tok != token.ASSIGN || len(s.Lhs) != 1 || len(s.Rhs) != 1 {
					return "", fmt.Errorf("%s: unsupported assignment shape in %s", pos(s), fn)
				}
				lhs, ok := s.Lhs[0].(*ast.Ident)
				if !ok {
					return "", fmt.Errorf("%s: lhs is not a plain identifier in %s", pos(s), fn)
				}
				if o := p.TypesInfo.Uses[lhs]; o == nil || o.Parent() != p.Types.Scope() {
					return "", fmt.Errorf("%s: lhs %s is not a package-level variable", pos(s), lhs.Name)
				}
				pk, sym, err := pkgSel(p, s.Rhs[0])
				if err != nil {
					return "", fmt.Errorf("%s: %v", pos(s), err)
				}
				assigns = append(assigns, fmt.Sprintf("(%s, (%s, %s))", coqStr(lhs.Name), coqStr(pk), coqStr(sym)))
			default:
				return "", fmt.Errorf("%s: unsupported statement in %s", pos(s), fn)
			}
		}
		fmt.Fprintf(&b, "Definition %s_calls : list (string * string) := [%s].\n", fn, strings.Join(calls, "; "))
		fmt.Fprintf(&b, "Definition %s_assigns : list (string * (string * string)) :=\n  [%s].\n\n", fn, strings.Join(assigns, ";\n   "))
	}

	// ---- exported wrappers: name |-> the identifier called
	var wr []string
	for _, f := range p.Syntax {
		if isHookFile(p.Fset.Position(f.Pos()).Filename) {
			continue // add-only verification hooks (build tag verif) are not part of the dispatch
		}
		for _, d := range f.Decls {
			fd, ok := d.(*ast.FuncDecl)
			if !ok || fd.Recv != nil || !fd.Name.IsExported() || fd.Body == nil {
				continue
			}
			if len(fd.Body.List) != 1 {
				return "", fmt.Errorf("%s: wrapper %s is not a single return statement", pos(fd), fd.Name.Name)
			}
			rs, ok := fd.Body.List[0].(*ast.ReturnStmt)
			if !ok || len(rs.Results) != 1 {
				return "", fmt.Errorf("%s: wrapper %s is not a single return statement", pos(fd), fd.Name.Name)
			}
			ce, ok := rs.Results[0].(*ast.CallExpr)
			if !ok {
				return "", fmt.Errorf("%s: wrapper %s does not return a call", pos(fd), fd.Name.Name)
			}
			id, ok := ce.Fun.(*ast.Ident)
			if !ok {
				return "", fmt.Errorf("%s: wrapper %s calls something that is not a package-level variable", pos(fd), fd.Name.Name)
			}
			// arguments: every parameter passed through in order (possibly wrapped in rt.NoEscape(unsafe.Pointer(x)))
			var params []string
			for _, fl := range fd.Type.Params.List {
				for _, nm := range fl.Names {
					params = append(params, nm.Name)
				}
			}
			if len(params) != len(ce.Args) {
				return "", fmt.Errorf("%s: wrapper %s passes %d arguments for %d parameters", pos(fd), fd.Name.Name, len(ce.Args), len(params))
			}
			for i, a := range ce.Args {
				nm, err := passedParam(a)
				if err != nil || nm != params[i] {
					return "", fmt.Errorf("%s: wrapper %s: argument %d is not parameter %s passed through", pos(a), fd.Name.Name, i, params[i])
				}
			}
			wr = append(wr, fmt.Sprintf("(%s, %s)", coqStr(fd.Name.Name), coqStr(id.Name)))
		}
	}
	sort.Strings(wr)
	fmt.Fprintf(&b, "(* exported wrapper |-> the function variable it calls (all parameters passed through in order) *)\nDefinition wrappers : list (string * string) :=\n  [%s].\n\n", strings.Join(wr, ";\n   "))

	// ---- init(): if cond {f()} else if cond {g()} else {panic}
	fd, _, err := w.funcDecl(path, "", "init")
	if err != nil {
		return "", err
	}
	if len(fd.Body.List) != 1 {
		return "", fmt.Errorf("%s: init is not a single if-chain", pos(fd))
	}
	var chain []string
	elsePanics := false
	var st ast.Stmt = fd.Body.List[0]
	for st != nil {
		switch s := st.(type) {
		case *ast.IfStmt:
			if s.Init != nil || len(s.Body.List) != 1 {
				return "", fmt.Errorf("%s: unsupported if-shape in init", pos(s))
			}
			pk, sym, err := pkgSel(p, s.Cond)
			if err != nil {
				return "", fmt.Errorf("%s: %v", pos(s), err)
			}
			es, ok := s.Body.List[0].(*ast.ExprStmt)
			if !ok {
				return "", fmt.Errorf("%s: unsupported branch in init", pos(s))
			}
			ce, ok := es.X.(*ast.CallExpr)
			if !ok || len(ce.Args) != 0 {
				return "", fmt.Errorf("%s: unsupported branch in init", pos(s))
			}
			id, ok := ce.Fun.(*ast.Ident)
			if !ok {
				return "", fmt.Errorf("%s: unsupported branch in init", pos(s))
			}
			chain = append(chain, fmt.Sprintf("(%s, %s)", coqStr(pk+"."+sym), coqStr(id.Name)))
			st = s.Else
		case *ast.BlockStmt:
			if len(s.List) == 1 {
				if es, ok := s.List[0].(*ast.ExprStmt); ok {
					if ce, ok := es.X.(*ast.CallExpr); ok {
						if id, ok := ce.Fun.(*ast.Ident); ok && id.Name == "panic" {
							elsePanics = true
							st = nil
							continue
						}
					}
				}
			}
			return "", fmt.Errorf("%s: unsupported else branch in init", pos(s))
		default:
			return "", fmt.Errorf("%s: unsupported statement in init", pos(st))
		}
	}
	fmt.Fprintf(&b, "Definition init_chain : list (string * string) := [%s].\nDefinition init_else_panics : bool := %v.\n\n", strings.Join(chain, "; "), elsePanics)

	// ---- registration tables of both packages
	for _, sub := range []string{"avx2", "sse"} {
		fd, sp, err := w.funcDecl(path+"/"+sub, "", "Use")
		if err != nil {
			return "", err
		}
		var rows []string
		for _, s := range fd.Body.List {
			es, ok := s.(*ast.ExprStmt)
			if !ok {
				return "", fmt.Errorf("%s: unsupported statement in %s.Use", sp.Fset.Position(s.Pos()), sub)
			}
			ce, ok := es.X.(*ast.CallExpr)
			if !ok || len(ce.Args) != 5 {
				return "", fmt.Errorf("%s: unsupported call in %s.Use", sp.Fset.Position(s.Pos()), sub)
			}
			if pk, sym, err := pkgSel(sp, ce.Fun); err != nil || pk != "loader" || sym != "WrapGoC" {
				return "", fmt.Errorf("%s: expected loader.WrapGoC in %s.Use", sp.Fset.Position(s.Pos()), sub)
			}
			text, ok1 := ce.Args[0].(*ast.Ident)
			cfn, ok2 := ce.Args[1].(*ast.Ident)
			lit, ok3 := ce.Args[2].(*ast.CompositeLit)
			if !ok1 || !ok2 || !ok3 || len(lit.Elts) != 1 {
				return "", fmt.Errorf("%s: unsupported WrapGoC arguments", sp.Fset.Position(s.Pos()))
			}
			row, ok := lit.Elts[0].(*ast.CompositeLit)
			if !ok || len(row.Elts) != 3 {
				return "", fmt.Errorf("%s: unsupported GoC literal", sp.Fset.Position(s.Pos()))
			}
			name, err1 := strLit(row.Elts[0])
			sv, err2 := addrIdent(row.Elts[1])
			fv, err3 := addrIdent(row.Elts[2])
			tag, err4 := strLit(ce.Args[3])
			file, err5 := strLit(ce.Args[4])
			for _, e := range []error{err1, err2, err3, err4, err5} {
				if e != nil {
					return "", fmt.Errorf("%s: %v", sp.Fset.Position(s.Pos()), e)
				}
			}
			rows = append(rows, fmt.Sprintf("[%s; %s; %s; %s; %s; %s; %s]", coqStr(text.Name), coqStr(cfn.Name), coqStr(name), coqStr(sv), coqStr(fv), coqStr(tag), coqStr(file)))
		}
		fmt.Fprintf(&b, "(* %s.Use: [text blob; cfunc table; symbol; &S var; &F var; package tag; file] *)\nDefinition %s_use_table : list (list string) :=\n  [%s].\n\n", sub, sub, strings.Join(rows, ";\n   "))
	}
	return b.String(), nil
}

func isHookFile(name string) bool {
	base := name[strings.LastIndex(name, "/")+1:]
	return strings.HasSuffix(base, "_verif.go") || strings.HasPrefix(base, "verif_hooks")
}

func coqList(l []string) string {
	q := make([]string, len(l))
	for i, s := range l {
		q[i] = coqStr(s)
	}
	return strings.Join(q, "; ")
}

// pkg.Sym where pkg is an imported package name
func pkgSel(p *pkgT, e ast.Expr) (string, string, error) {
	sel, ok := e.(*ast.SelectorExpr)
	if !ok {
		return "", "", fmt.Errorf("expected package.symbol")
	}
	id, ok := sel.X.(*ast.Ident)
	if !ok {
		return "", "", fmt.Errorf("expected package.symbol")
	}
	pn, ok := p.TypesInfo.Uses[id].(*types.PkgName)
	if !ok {
		return "", "", fmt.Errorf("%s is not a package name", id.Name)
	}
	ip := pn.Imported().Path()
	return ip[strings.LastIndex(ip, "/")+1:], sel.Sel.Name, nil
}

// x, or f(x), or f(g(x)) ... with single-argument conversions / calls
func passedParam(e ast.Expr) (string, error) {
	for {
		switch v := e.(type) {
		case *ast.Ident:
			return v.Name, nil
		case *ast.CallExpr:
			if len(v.Args) != 1 {
				return "", fmt.Errorf("not a pass-through")
			}
			e = v.Args[0]
		case *ast.ParenExpr:
			e = v.X
		default:
			return "", fmt.Errorf("not a pass-through")
		}
	}
}

func strLit(e ast.Expr) (string, error) {
	bl, ok := e.(*ast.BasicLit)
	if !ok || bl.Kind != token.STRING {
		return "", fmt.Errorf("expected a string literal")
	}
	return strconv.Unquote(bl.Value)
}

func addrIdent(e ast.Expr) (string, error) {
	u, ok := e.(*ast.UnaryExpr)
	if !ok || u.Op != token.AND {
		return "", fmt.Errorf("expected &ident")
	}
	id, ok := u.X.(*ast.Ident)
	if !ok {
		return "", fmt.Errorf("expected &ident")
	}
	return id.Name, nil
}
