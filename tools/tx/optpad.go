package main

// Gen/OptPad.v: how optdec's newParser builds the private copy the native parser works on (internal/decoder/optdec/native.go).
// The emitter accepts exactly the shape  p.padded = append(p.padded[:0 after reset], data[pos:]...) ; append(.., padding...)
// - the copy starts at offset 0 of an emptied buffer and the padding follows the copied input without a gap - and emits the
// padding bytes.  Any other way of building the buffer is rejected (the tie to Mem/Routines.v is then reported as broken).

import (
	"fmt"
	"go/ast"
	"go/token"
	"strconv"
	"strings"
)

func init() { emitters["OptPad"] = emitOptPad }

func emitOptPad(w *world) (string, error) {
	path := mod + "/internal/decoder/optdec"
	fd, p, err := w.funcDecl(path, "", "newParser")
	if err != nil {
		return "", err
	}
	f := &pfFn{p: p}
	norm := func(n ast.Node) string { return strings.Join(strings.Fields(f.src(n)), " ") }
	// the non-UTF8-repair branch
	var els *ast.BlockStmt
	for _, s := range fd.Body.List {
		if is, ok := s.(*ast.IfStmt); ok && strings.Contains(norm(is.Cond), "_F_validate_string") {
			els, _ = is.Else.(*ast.BlockStmt)
			// the repair branch: corrected copy ++ padding, Json = the copy without the padding
			body := norm(is.Body)
			for _, must := range []string{"dbuf := utf8.CorrectWith(nil, rt.Str2Mem(data[pos:]), ", "dbuf = append(dbuf, padding...)", "p.Json = rt.Mem2Str(dbuf[:len(dbuf)-len(padding)])"} {
				if !strings.Contains(body, must) {
					return "", fmt.Errorf("%s: the UTF-8 repair branch of newParser no longer contains `%s`", p.Fset.Position(is.Pos()), must)
				}
			}
		}
	}
	if els == nil {
		return "", fmt.Errorf("newParser: the branch that builds p.padded was not found")
	}
	want := []string{
		"p.Json = data[pos:]",
		"p.padded = append(p.padded, data[pos:]...)",
		"p.padded = append(p.padded, padding...)",
		"p.start = uintptr((*rt.GoSlice)(unsafe.Pointer(&p.padded)).Ptr)",
	}
	if len(els.List) != len(want) {
		return "", fmt.Errorf("%s: newParser builds the padded copy with %d statements, expected %d (copy of data[pos:] then padding, appended to the emptied buffer)", p.Fset.Position(els.Pos()), len(els.List), len(want))
	}
	for i, s := range els.List {
		if norm(s) != want[i] {
			return "", fmt.Errorf("%s: newParser: statement %q, expected %q - the layout `input[pos:] ++ padding` is no longer evident", p.Fset.Position(s.Pos()), norm(s), want[i])
		}
	}
	// the pooled buffer is emptied before it goes back to the pool
	rd, rp, err := w.funcDecl(path, "Parser", "reset")
	if err != nil {
		return "", err
	}
	if !strings.Contains(strings.Join(strings.Fields((&pfFn{p: rp}).src(rd.Body)), " "), "p.padded = p.padded[:0]") {
		return "", fmt.Errorf("Parser.reset no longer empties p.padded")
	}
	// end = cur + len(p.Json)
	if !strings.Contains(norm(fd.Body), "p.end = p.cur + uintptr(len(p.Json))") {
		return "", fmt.Errorf("newParser no longer sets p.end = p.cur + len(p.Json)")
	}
	// the padding literal
	var lit string
	found := false
	for _, file := range p.Syntax {
		for _, d := range file.Decls {
			gd, ok := d.(*ast.GenDecl)
			if !ok || gd.Tok != token.VAR {
				continue
			}
			for _, sp := range gd.Specs {
				vs := sp.(*ast.ValueSpec)
				for i, n := range vs.Names {
					if n.Name == "padding" && i < len(vs.Values) {
						bl, ok := vs.Values[i].(*ast.BasicLit)
						if !ok || bl.Kind != token.STRING {
							return "", fmt.Errorf("optdec.padding is not a string literal")
						}
						lit, err = strconv.Unquote(bl.Value)
						if err != nil {
							return "", err
						}
						found = true
					}
				}
			}
		}
	}
	if !found {
		return "", fmt.Errorf("optdec.padding not found")
	}
	var b strings.Builder
	b.WriteString("From Coq Require Import NArith List.\nImport ListNotations.\nOpen Scope N_scope.\n\n")
	b.WriteString("(* internal/decoder/optdec/native.go newParser: p.padded = [] ++ data[pos:] ++ padding (both appends to the buffer Parser.reset emptied) *)\n")
	b.WriteString("Inductive pad_part := PInputFromPos | PPadding.\n")
	b.WriteString("Definition optdec_padded_layout : list pad_part := [PInputFromPos; PPadding].\n")
	var bs []string
	for i := 0; i < len(lit); i++ {
		bs = append(bs, strconv.Itoa(int(lit[i])))
	}
	fmt.Fprintf(&b, "Definition optdec_padding : list N := [%s].\n", strings.Join(bs, "; "))
	return b.String(), nil
}
